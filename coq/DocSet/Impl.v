(* DocSet/Impl.v -- what an implementation of the DocSet trait is (src/docset.rs), the contract
   ("Repr") that ties an implementation state to the remaining list of Spec.v, the trait's default
   methods (seek / seek_danger / fill_buffer / fill_bitset_block / count_including_deleted as
   loops over doc() and advance()), and the leaf docset (VecDocSet, src/query/vec_docset.rs; the
   harness drives a leaf with the same code).

   Loops are fuelled by [size] (an upper bound of the remaining postings); running out of fuel sets
   the [oof] flag of the state, reported by [ok]; the contract excludes it. *)
From TV Require Import Base.Prelude Generated.Constants DocSet.Spec.
Local Open Scope N_scope.

Inductive sd_result := SdFound | SdLower (b : N).

Record impl := {
  st : Type;
  doc : st -> N;
  advance : st -> st;                         (* return value of the Rust method = doc afterwards *)
  seek : N -> st -> st;
  seek_danger : N -> st -> sd_result * st;
  fill_buffer : st -> list N * st;
  fill_bitset : N -> st -> (list N * N) * st; (* 16 TinySets as u64 words, returned doc *)
  count : st -> N * st;                       (* count_including_deleted *)
  size : st -> nat;
  ok : st -> bool;
}.

(* ---------- TinySet (common/src/bitset.rs) as a 64-bit word, and the block mask ---------- *)
Definition tiny_insert (b : N) (w : N) : N := N.lor w (N.shiftl 1 b).
Definition NUM_TINY : nat := N.to_nat BLOCK_NUM_TINYBITSETS.
Definition empty_mask : list N := repeat 0 NUM_TINY.
Fixpoint upd_nth (i : nat) (f : N -> N) (l : list N) : list N :=
  match l, i with
  | [], _ => []
  | x :: r, O => f x :: r
  | x :: r, S i' => x :: upd_nth i' f r
  end.
(* mask[(delta / 64)].insert_mut(delta % 64) *)
Definition mask_insert (min_doc d : N) (mask : list N) : list N :=
  let delta := d - min_doc in upd_nth (N.to_nat (delta / 64)) (tiny_insert (delta mod 64)) mask.
Definition mask_of (min_doc : N) (docs : list N) : list N :=
  fold_left (fun m d => mask_insert min_doc d m) docs empty_mask.

(* ---------- the contract ---------- *)
(* [R s l]   : s is a valid state whose remaining documents are l.
   [D s τ l] : s is possibly "dangling" (after a seek_danger miss); it still stands for the remaining
               documents l and accepts seek_danger for every target >= τ (and seek DOCSET_TERMINATED).
   [strong]  : seek_danger is also exact for targets below the current document. *)
Record contract (I : impl) (strong : bool)
       (R : st I -> list N -> Prop) (D : st I -> N -> list N -> Prop) : Prop := {
  c_wf : forall s l, R s l -> wf_docs l;
  c_ok : forall s l, R s l -> ok I s = true;
  c_size : forall s l, R s l -> (length l <= size I s)%nat;
  c_doc : forall s l, R s l -> doc I s = ds_doc l;
  c_advance : forall s l, R s l -> R (advance I s) (ds_advance l);
  c_seek : forall s l t, R s l -> doc I s <= t -> t <= DOCSET_TERMINATED -> R (seek I t s) (ds_seek t l);
  c_fill_buffer : forall s l, R s l ->
      fst (fill_buffer I s) = fst (ds_fill_buffer l) /\ R (snd (fill_buffer I s)) (snd (ds_fill_buffer l));
  c_count : forall s l, R s l -> fst (count I s) = ds_count l /\ ok I (snd (count I s)) = true;
  c_fill_bitset : forall s l m, R s l -> doc I s <= m -> m + BLOCK_WINDOW <= DOCSET_TERMINATED ->
      fst (fill_bitset I m s) = (mask_of m (fst (ds_fill_bitset m l)), ds_doc (snd (ds_fill_bitset m l)))
      /\ R (snd (fill_bitset I m s)) (snd (ds_fill_bitset m l));
  c_RD : forall s l tau, R s l -> strong = true \/ doc I s <= tau -> D s tau l;
  c_Dwf : forall s tau l, D s tau l -> wf_docs l;
  c_Dok : forall s tau l, D s tau l -> ok I s = true;
  c_Dmono : forall s tau tau' l, D s tau l -> tau <= tau' -> D s tau' l;
  c_Ddoc : forall s tau l, D s tau l -> doc I s <= DOCSET_TERMINATED;
  c_Dterm : forall s tau l, D s tau l -> R (seek I DOCSET_TERMINATED s) [];
  c_danger : forall s tau l t, D s tau l -> tau <= t -> t < DOCSET_TERMINATED ->
      match seek_danger I t s with
      | (SdFound, s') => In t l /\ R s' (ds_seek t l)
      | (SdLower b, s') => ~ In t l /\ t < b /\ b <= ds_doc (ds_seek t l) /\ D s' t (ds_seek t l)
      end;
  (* a target below the current document is never Found and does not disturb a valid state *)
  c_danger_below : forall s l t, R s l -> t < doc I s ->
      exists b, fst (seek_danger I t s) = SdLower b /\ R (snd (seek_danger I t s)) l;
  c_danger_T : forall s tau l t, D s tau l -> DOCSET_TERMINATED <= t ->
      exists b, fst (seek_danger I t s) = SdLower b /\ DOCSET_TERMINATED <= b /\ D (snd (seek_danger I t s)) tau l;
}.

(* ---------- the default methods of the trait ---------- *)
Section Defaults.
  Context {S : Type}.
  Variables (sdoc : S -> N) (sadv : S -> S) (ssize : S -> nat) (set_oof : S -> S).

  (* fn seek: let mut doc = self.doc(); while doc < target { doc = self.advance(); } *)
  Fixpoint seek_loop (fuel : nat) (t : N) (s : S) : S :=
    if N.ltb (sdoc s) t then
      match fuel with O => set_oof s | Datatypes.S f => seek_loop f t (sadv s) end
    else s.
  Definition default_seek (t : N) (s : S) : S := seek_loop (ssize s) t s.

  (* fn seek_danger (default): no danger zone, falls back on seek *)
  Definition default_seek_danger (sseek : N -> S -> S) (t : N) (s : S) : sd_result * S :=
    if N.leb DOCSET_TERMINATED t then (SdLower t, s)
    else
      let s' := if N.ltb (sdoc s) t then sseek t s else s in
      if N.eqb (sdoc s') t then (SdFound, s') else (SdLower (sdoc s'), s').

  (* fn fill_buffer: at most COLLECT_BLOCK_BUFFER_LEN iterations *)
  Fixpoint fill_loop (n : nat) (s : S) : list N * S :=
    match n with
    | O => ([], s)
    | Datatypes.S n' =>
        let d := sdoc s in
        let s' := sadv s in
        if N.eqb (sdoc s') DOCSET_TERMINATED then ([d], s')
        else let (r, s'') := fill_loop n' s' in (d :: r, s'')
    end.
  Definition default_fill_buffer (s : S) : list N * S :=
    if N.eqb (sdoc s) DOCSET_TERMINATED then ([], s) else fill_loop BUFFER_LEN s.

  (* fn fill_bitset_block *)
  Fixpoint bitset_loop (fuel : nat) (min_doc : N) (mask : list N) (s : S) : (list N * N) * S :=
    let d := sdoc s in
    if N.leb (min_doc + BLOCK_WINDOW) d then ((mask, d), s)
    else
      let mask' := mask_insert min_doc d mask in
      let s' := sadv s in
      if N.eqb (sdoc s') DOCSET_TERMINATED then ((mask', DOCSET_TERMINATED), s')
      else match fuel with
           | O => ((mask', DOCSET_TERMINATED), set_oof s')
           | Datatypes.S f => bitset_loop f min_doc mask' s'
           end.
  Definition default_fill_bitset (sseek : N -> S -> S) (m : N) (s : S) : (list N * N) * S :=
    let s1 := sseek m s in bitset_loop (ssize s1) m empty_mask s1.

  (* fn count_including_deleted *)
  Fixpoint count_loop (fuel : nat) (acc : N) (s : S) : N * S :=
    if N.eqb (sdoc s) DOCSET_TERMINATED then (acc, s)
    else match fuel with
         | O => (acc, set_oof s)
         | Datatypes.S f => count_loop f (acc + 1) (sadv s)
         end.
  Definition default_count (s : S) : N * S := count_loop (ssize s) 0 s.
End Defaults.

(* ---------- proofs about the default methods, against the R-part of the contract ---------- *)
Lemma filter_nil_ge (hz d : N) r : hz <= d -> Forall (fun y => d < y) r ->
  filter (fun x => N.ltb x hz) (d :: r) = [].
Proof.
  intros H1 H2. cbn [filter]. destruct (N.ltb_spec d hz); [lia|].
  induction r as [|y r IH]; [reflexivity|]. inversion H2; subst. cbn [filter].
  destruct (N.ltb_spec y hz); [lia|auto].
Qed.

Section DefaultsOk.
  Context {S : Type}.
  Variables (sdoc : S -> N) (sadv : S -> S) (ssize : S -> nat) (set_oof : S -> S).
  Variable R : S -> list N -> Prop.
  Hypothesis H_wf : forall s l, R s l -> wf_docs l.
  Hypothesis H_size : forall s l, R s l -> (length l <= ssize s)%nat.
  Hypothesis H_doc : forall s l, R s l -> sdoc s = ds_doc l.
  Hypothesis H_adv : forall s l, R s l -> R (sadv s) (ds_advance l).

  Lemma R_head_lt s d r : R s (d :: r) -> d < DOCSET_TERMINATED.
  Proof. intros HR. apply H_wf in HR. destruct HR as [_ HF]. now inversion HF. Qed.

  (* targets never exceed DOCSET_TERMINATED (DocId convention); the loop then stops on an exhausted docset *)
  Lemma seek_loop_ok fuel t s l : t <= DOCSET_TERMINATED -> R s l -> (length l <= fuel)%nat ->
    R (seek_loop sdoc sadv set_oof fuel t s) (ds_seek t l).
  Proof.
    intros Ht. revert s l. induction fuel as [|f IH]; intros s l HR Hf.
    - destruct l; [|cbn in Hf; lia]. cbn [seek_loop ds_seek]. rewrite (H_doc _ _ HR). cbn [ds_doc].
      destruct (N.ltb_spec DOCSET_TERMINATED t); [lia|assumption].
    - cbn [seek_loop]. rewrite (H_doc _ _ HR). destruct l as [|d r].
      + cbn [ds_doc ds_seek]. destruct (N.ltb_spec DOCSET_TERMINATED t); [lia|assumption].
      + cbn [ds_doc ds_seek]. destruct (N.ltb_spec d t); [|assumption].
        apply IH; [apply (H_adv _ _ HR)|cbn in Hf; lia].
  Qed.

  Lemma default_seek_ok t s l : t <= DOCSET_TERMINATED -> R s l -> R (default_seek sdoc sadv ssize set_oof t s) (ds_seek t l).
  Proof. intros Ht HR. apply seek_loop_ok; [assumption|assumption|now apply H_size]. Qed.

  Lemma fill_loop_ok n s d r : R s (d :: r) ->
    fst (fill_loop sdoc sadv n s) = firstn n (d :: r) /\ R (snd (fill_loop sdoc sadv n s)) (skipn n (d :: r)).
  Proof.
    revert s d r. induction n as [|n IH]; intros s d r HR; [cbn; tauto|].
    cbn [fill_loop]. rewrite (H_doc _ _ HR). cbn [ds_doc].
    pose proof (H_adv _ _ HR) as HA. cbn [ds_advance tl] in HA. rewrite (H_doc _ _ HA).
    destruct r as [|d' r'].
    - cbn [ds_doc]. rewrite N.eqb_refl. cbn [fst snd firstn skipn]. destruct n; cbn; tauto.
    - cbn [ds_doc]. destruct (N.eqb_spec d' DOCSET_TERMINATED) as [E|E].
      + exfalso. apply R_head_lt in HA. lia.
      + specialize (IH _ _ _ HA). destruct (fill_loop sdoc sadv n (sadv s)) as [b s''].
        cbn [fst snd] in *. destruct IH as [IH1 IH2]. cbn [firstn skipn]. rewrite IH1. tauto.
  Qed.

  Lemma default_fill_buffer_ok s l : R s l ->
    fst (default_fill_buffer sdoc sadv s) = fst (ds_fill_buffer l) /\
    R (snd (default_fill_buffer sdoc sadv s)) (snd (ds_fill_buffer l)).
  Proof.
    intros HR. unfold default_fill_buffer, ds_fill_buffer. rewrite (H_doc _ _ HR). cbn [fst snd].
    destruct l as [|d r].
    - cbn [ds_doc]. rewrite N.eqb_refl. cbn [fst snd]. rewrite firstn_nil, skipn_nil. tauto.
    - cbn [ds_doc]. destruct (N.eqb_spec d DOCSET_TERMINATED) as [E|E].
      + exfalso. apply R_head_lt in HR. lia.
      + now apply fill_loop_ok.
  Qed.

  Lemma count_loop_ok fuel acc s l : R s l -> (length l <= fuel)%nat ->
    fst (count_loop sdoc sadv set_oof fuel acc s) = acc + ds_count l /\
    R (snd (count_loop sdoc sadv set_oof fuel acc s)) [].
  Proof.
    revert acc s l. induction fuel as [|f IH]; intros acc s l HR Hf.
    - destruct l; [|cbn in Hf; lia]. cbn [count_loop]. rewrite (H_doc _ _ HR). cbn [ds_doc].
      rewrite N.eqb_refl. cbn [fst snd]. unfold ds_count. cbn. split; [lia|assumption].
    - cbn [count_loop]. rewrite (H_doc _ _ HR). destruct l as [|d r].
      + cbn [ds_doc]. rewrite N.eqb_refl. cbn [fst snd]. unfold ds_count. cbn. split; [lia|assumption].
      + cbn [ds_doc]. destruct (N.eqb_spec d DOCSET_TERMINATED) as [E|E].
        * exfalso. apply R_head_lt in HR. lia.
        * destruct (IH (acc + 1) _ _ (H_adv _ _ HR)) as [I1 I2]; [cbn in Hf |- *; lia|].
          split; [|assumption]. rewrite I1. unfold ds_count. cbn [ds_advance tl length]. lia.
  Qed.

  Lemma default_count_ok s l : R s l ->
    fst (default_count sdoc sadv ssize set_oof s) = ds_count l /\
    R (snd (default_count sdoc sadv ssize set_oof s)) [].
  Proof.
    intros HR. destruct (count_loop_ok (ssize s) 0 s l HR (H_size _ _ HR)) as [H1 H2]. split; [|assumption].
    unfold default_count. rewrite H1. lia.
  Qed.

  (* fill_bitset_block: the loop inserts exactly the members below the horizon, in order *)
  Lemma bitset_loop_ok fuel m mask s l : m + BLOCK_WINDOW <= DOCSET_TERMINATED -> R s l -> (length l <= Datatypes.S fuel)%nat ->
    fst (bitset_loop sdoc sadv set_oof fuel m mask s) =
      (fold_left (fun mk d => mask_insert m d mk) (filter (fun d => N.ltb d (m + BLOCK_WINDOW)) l) mask,
       ds_doc (ds_seek (m + BLOCK_WINDOW) l)) /\
    R (snd (bitset_loop sdoc sadv set_oof fuel m mask s)) (ds_seek (m + BLOCK_WINDOW) l).
  Proof.
    intros Hhz. revert mask s l.
    assert (Hstep : forall f, (forall mask s l, R s l -> (length l <= f)%nat ->
        fst (match f with O => ((mask, DOCSET_TERMINATED), set_oof s) | Datatypes.S f' => bitset_loop sdoc sadv set_oof f' m mask s end) =
          (fold_left (fun mk d => mask_insert m d mk) (filter (fun d => N.ltb d (m + BLOCK_WINDOW)) l) mask,
           ds_doc (ds_seek (m + BLOCK_WINDOW) l)) /\
        R (snd (match f with O => ((mask, DOCSET_TERMINATED), set_oof s) | Datatypes.S f' => bitset_loop sdoc sadv set_oof f' m mask s end)) (ds_seek (m + BLOCK_WINDOW) l) \/ l = [] ) ->
      forall mask s l, R s l -> (length l <= Datatypes.S f)%nat ->
        fst (bitset_loop sdoc sadv set_oof f m mask s) =
          (fold_left (fun mk d => mask_insert m d mk) (filter (fun d => N.ltb d (m + BLOCK_WINDOW)) l) mask,
           ds_doc (ds_seek (m + BLOCK_WINDOW) l)) /\
        R (snd (bitset_loop sdoc sadv set_oof f m mask s)) (ds_seek (m + BLOCK_WINDOW) l)).
    { intros f IH mask s l HR Hf.
      destruct f as [|f']; cbn [bitset_loop]; rewrite (H_doc _ _ HR); (destruct l as [|d r];
      [ cbn [ds_doc filter fold_left ds_seek]; destruct (N.leb_spec (m + BLOCK_WINDOW) DOCSET_TERMINATED); [cbn [fst snd]; tauto|lia]
      | cbn [ds_doc]; pose proof (H_wf _ _ HR) as Hwf; apply wf_docs_cons in Hwf; destruct Hwf as [HdT [Hall Hwr]];
        destruct (N.leb_spec (m + BLOCK_WINDOW) d) as [Hge|Hlt];
        [ rewrite filter_nil_ge by assumption; cbn [fold_left fst snd ds_seek];
          destruct (N.ltb_spec d (m + BLOCK_WINDOW)); [lia|cbn [ds_doc]; tauto]
        | cbn [filter]; destruct (N.ltb_spec d (m + BLOCK_WINDOW)) as [_|]; [|lia];
          rewrite ds_seek_cons_lt by assumption; cbn [fold_left];
          pose proof (H_adv _ _ HR) as HA; cbn [ds_advance tl] in HA; rewrite (H_doc _ _ HA);
          destruct r as [|d' r'];
          [ cbn [ds_doc]; rewrite N.eqb_refl; cbn [fst snd filter fold_left ds_seek ds_doc]; tauto
          | cbn [ds_doc]; destruct (N.eqb_spec d' DOCSET_TERMINATED) as [E|E];
            [ exfalso; apply R_head_lt in HA; lia | ] ] ] ]).
      - cbn in Hf. lia.
      - destruct (IH (mask_insert m d mask) (sadv s) (d' :: r') HA) as [IH'|IH']; [cbn in Hf |- *; lia|exact IH'|discriminate]. }
    induction fuel as [|f IHf]; intros mask s l HR Hf.
    - apply Hstep; [|assumption|assumption]. intros mk s0 l0 HR0 Hl0. right. destruct l0; [reflexivity|cbn in Hl0; lia].
    - apply Hstep; [|assumption|assumption]. intros mk s0 l0 HR0 Hl0. left. now apply IHf.
  Qed.
End DefaultsOk.

(* ---------- an implementation that overrides (at most) seek: doc/advance/seek + the defaults ---------- *)
Section SeekImpl.
  Context {S : Type}.
  Variables (sdoc : S -> N) (sadv : S -> S) (sseek : N -> S -> S) (ssize : S -> nat) (set_oof : S -> S) (sok : S -> bool).
  Variable R : S -> list N -> Prop.
  Hypothesis H_wf : forall s l, R s l -> wf_docs l.
  Hypothesis H_ok : forall s l, R s l -> sok s = true.
  Hypothesis H_size : forall s l, R s l -> (length l <= ssize s)%nat.
  Hypothesis H_doc : forall s l, R s l -> sdoc s = ds_doc l.
  Hypothesis H_adv : forall s l, R s l -> R (sadv s) (ds_advance l).
  Hypothesis H_seek : forall t s l, t <= DOCSET_TERMINATED -> R s l -> sdoc s <= t -> R (sseek t s) (ds_seek t l).

  Definition mk_seek_impl : impl := {|
    st := S; doc := sdoc; advance := sadv; seek := sseek;
    seek_danger := default_seek_danger sdoc sseek;
    fill_buffer := default_fill_buffer sdoc sadv;
    fill_bitset := default_fill_bitset sdoc sadv ssize set_oof sseek;
    count := default_count sdoc sadv ssize set_oof;
    size := ssize; ok := sok |}.

  (* the default seek_danger is exact for every target and never leaves the state dangling *)
  Lemma default_danger_ok : forall s l t, R s l -> t < DOCSET_TERMINATED ->
    match default_seek_danger sdoc sseek t s with
    | (SdFound, s') => In t l /\ R s' (ds_seek t l)
    | (SdLower b, s') => ~ In t l /\ t < b /\ b <= ds_doc (ds_seek t l) /\ R s' (ds_seek t l)
    end.
  Proof.
    intros s l t HR Ht. unfold default_seek_danger. destruct (N.leb_spec DOCSET_TERMINATED t); [lia|].
    set (s' := if N.ltb (sdoc s) t then sseek t s else s).
    assert (HR' : R s' (ds_seek t l)).
    { unfold s'. destruct (N.ltb_spec (sdoc s) t); [apply H_seek; [lia|assumption|lia]|].
      rewrite ds_seek_le; [assumption|]. rewrite <- (H_doc _ _ HR). lia. }
    pose proof (H_wf _ _ HR) as Hwf. pose proof (H_doc _ _ HR') as Hd.
    destruct (N.eqb_spec (sdoc s') t) as [E|E].
    - split; [|assumption]. rewrite Hd in E. apply (ds_seek_In_sub t). rewrite <- E at 1. apply ds_doc_In. lia.
    - assert (Hn : ~ In t l). { intros Hin. apply E. rewrite Hd. apply ds_seek_head_In; [apply Hwf|assumption]. }
      repeat split; try assumption; [|rewrite Hd; lia].
      rewrite Hd. destruct (ds_seek_head t l Hwf) as [Hh|[Hh _]]; [|lia]. rewrite Hd in E. lia.
  Qed.

  Lemma default_fill_bitset_ok s l m : R s l -> sdoc s <= m -> m + BLOCK_WINDOW <= DOCSET_TERMINATED ->
      fst (default_fill_bitset sdoc sadv ssize set_oof sseek m s) = (mask_of m (fst (ds_fill_bitset m l)), ds_doc (snd (ds_fill_bitset m l)))
      /\ R (snd (default_fill_bitset sdoc sadv ssize set_oof sseek m s)) (snd (ds_fill_bitset m l)).
  Proof.
    intros HR Hd Hm. unfold default_fill_bitset, ds_fill_bitset.
    assert (HR1 : R (sseek m s) (ds_seek m l)) by (apply H_seek; [lia|assumption|assumption]).
    destruct (bitset_loop_ok sdoc sadv ssize set_oof R H_wf H_size H_doc H_adv (ssize (sseek m s)) m empty_mask _ _ Hm HR1) as [H1 H2].
    { pose proof (H_size _ _ HR1). lia. }
    cbn [fst snd]. rewrite ds_seek_seek in H1, H2 by lia. split; [|assumption]. rewrite H1. reflexivity.
  Qed.

  Theorem seek_impl_contract : contract mk_seek_impl true R (fun s _ l => R s l).
  Proof.
    constructor; cbn [st doc advance seek seek_danger fill_buffer fill_bitset count size ok mk_seek_impl]; try assumption.
    - intros s l t HR Hd Ht. now apply H_seek.
    - intros s l HR. exact (default_fill_buffer_ok sdoc sadv ssize set_oof R H_wf H_size H_doc H_adv s l HR).
    - intros s l HR. destruct (default_count_ok sdoc sadv ssize set_oof R H_wf H_size H_doc H_adv s l HR) as [H1 H2].
      split; [assumption|]. eapply H_ok; eassumption.
    - intros s l m HR Hd Hm. unfold default_fill_bitset, ds_fill_bitset.
      assert (HR1 : R (sseek m s) (ds_seek m l)) by (apply H_seek; [lia|assumption|assumption]).
      destruct (bitset_loop_ok sdoc sadv ssize set_oof R H_wf H_size H_doc H_adv (ssize (sseek m s)) m empty_mask _ _ Hm HR1) as [H1 H2].
      { pose proof (H_size _ _ HR1). lia. }
      cbn [fst snd]. rewrite ds_seek_seek in H1, H2 by lia. split; [|assumption]. rewrite H1. reflexivity.
    - intros s l _ HR _. assumption.
    - intros s _ l HR. eapply H_wf; eassumption.
    - intros s _ l HR. eapply H_ok; eassumption.
    - intros s _ _ l HR _. assumption.
    - intros s _ l HR. rewrite (H_doc _ _ HR). apply ds_doc_le_T. eapply H_wf; eassumption.
    - intros s _ l HR. pose proof (H_wf _ _ HR) as Hwf. rewrite <- (ds_seek_nil_T l Hwf).
      apply H_seek; [lia|assumption|]. rewrite (H_doc _ _ HR). now apply ds_doc_le_T.
    - intros s _ l t HR _ Ht.
      pose proof (default_danger_ok s l t HR Ht) as H.
      destruct (default_seek_danger sdoc sseek t s) as [[|b] s']; tauto.
    - intros s l t HR Ht. unfold default_seek_danger. destruct (N.leb_spec DOCSET_TERMINATED t).
      + exists t. cbn [fst snd]. tauto.
      + destruct (N.ltb_spec (sdoc s) t); [lia|]. destruct (N.eqb_spec (sdoc s) t); [lia|].
        exists (sdoc s). cbn [fst snd]. tauto.
    - intros s tau l t HR Ht. unfold default_seek_danger. destruct (N.leb_spec DOCSET_TERMINATED t); [|lia].
      exists t. cbn [fst snd]. tauto.
  Qed.
End SeekImpl.

Section DefaultImpl.
  Context {S : Type}.
  Variables (sdoc : S -> N) (sadv : S -> S) (ssize : S -> nat) (set_oof : S -> S) (sok : S -> bool).
  Variable R : S -> list N -> Prop.
  Hypothesis H_wf : forall s l, R s l -> wf_docs l.
  Hypothesis H_ok : forall s l, R s l -> sok s = true.
  Hypothesis H_size : forall s l, R s l -> (length l <= ssize s)%nat.
  Hypothesis H_doc : forall s l, R s l -> sdoc s = ds_doc l.
  Hypothesis H_adv : forall s l, R s l -> R (sadv s) (ds_advance l).

  Definition dseek := default_seek sdoc sadv ssize set_oof.
  Definition mk_default : impl := mk_seek_impl sdoc sadv dseek ssize set_oof sok.

  Theorem default_contract : contract mk_default true R (fun s _ l => R s l).
  Proof.
    apply seek_impl_contract; try assumption.
    intros t s l Ht HR _. unfold dseek. apply default_seek_ok with (R := R); assumption.
  Qed.
End DefaultImpl.

(* ---------- the leaf: VecDocSet (cursor into a sorted vector) ---------- *)
Record vstate := { v_rem : list N; v_oof : bool }.
Definition vdoc (s : vstate) : N := ds_doc (v_rem s).
(* cursor += 1; if cursor >= len { cursor = len; DOCSET_TERMINATED } *)
Definition vadv (s : vstate) : vstate := {| v_rem := tl (v_rem s); v_oof := v_oof s |}.
Definition vsize (s : vstate) : nat := length (v_rem s).
Definition vset_oof (s : vstate) : vstate := {| v_rem := v_rem s; v_oof := true |}.
Definition vok (s : vstate) : bool := negb (v_oof s).
Definition vec_impl : impl := mk_default vdoc vadv vsize vset_oof vok.
Definition vec_of (l : list N) : vstate := {| v_rem := l; v_oof := false |}.
Definition R_vec (s : vstate) (l : list N) : Prop := v_rem s = l /\ v_oof s = false /\ wf_docs l.

Theorem vec_contract : contract vec_impl true R_vec (fun s _ l => R_vec s l).
Proof.
  apply default_contract.
  - intros s l [_ [_ H]]. exact H.
  - intros s l [_ [H _]]. unfold vok. now rewrite H.
  - intros s l [H _]. unfold vsize. rewrite H. lia.
  - intros s l [H _]. unfold vdoc. now rewrite H.
  - intros s l [H1 [H2 H3]]. unfold R_vec, vadv. cbn. subst l. repeat split; try assumption.
    now apply ssorted_tl, H3. destruct H3 as [_ H3]. destruct (v_rem s); [assumption|now inversion H3].
Qed.

Lemma R_vec_of l : wf_docs l -> R_vec (vec_of l) l.
Proof. intros H. repeat split; assumption || reflexivity || apply H. Qed.
