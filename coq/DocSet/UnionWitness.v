(* DocSet/UnionWitness.v -- why `union_contract` (UnionProofs.v) needs children that never dangle: with the shape of
   seek_danger of the current source (guard on the current document, union_guard = true) a BufferedUnionScorer
   whose child is an Intersection, driven through seek_danger by an enclosing Intersection, delivers a document
   that is in no child.

   Query `+a +((+x +y) z)`:  a = [1; 10000; 10005], x = [1; 9000; 10005], y = [1; 9000; 50000; 50001], z = [2; 10000]
   (x is the cheaper child of `+x +y`, so it is `left` of the inner Intersection, as intersect_scorers orders them).
   Meaning: {1; 10000}.  Run: the outer intersection asks union.seek_danger(10000) outside the union's window; the
   child Intersection(x, y) misses (x moves to 10005, y stays on 9000: the child is dangling and doc() = 10005);
   z is Found; the union's hit branch calls seek(10000), which keeps every child with doc() >= 10000 as it is, and
   refill reads doc() = 10005 of the dangling child as a member.  The next outer advance then finds 10005.
   Replayed on the implementation by harness/src/bin/repro_c13_union_over_intersection.rs (advance walk and
   Searcher::search both return [1; 10000; 10005]). *)
From TV Require Import Base.Prelude Generated.Constants DocSet.Spec DocSet.Impl DocSet.Program DocSet.Sum DocSet.Intersect DocSet.Union.
Local Open Scope N_scope.

Definition W_IL := inter_impl vec_impl.                 (* Intersection of leaves *)
Definition W_UC := sum_impl W_IL vec_impl.              (* children of the union: Box<dyn Scorer> *)
Definition W_U := union_impl_g W_UC true.               (* BufferedUnionScorer, shape of the source BEFORE the fix of F134 (guard, no resync) *)
Definition W_OC := sum_impl vec_impl W_U.               (* children of the outer intersection *)
Definition W_x : list N := [1; 9000; 10005].
Definition W_y : list N := [1; 9000; 50000; 50001].
Definition W_z : list N := [2; 10000].
Definition W_a : list N := [1; 10000; 10005].
Definition W_union : st W_OC := inr (u_build W_UC [inl (i_new vec_impl (vec_of W_x) (vec_of W_y) [] false); inr (vec_of W_z)]).
Definition W_outer : st (inter_impl W_OC) := i_new W_OC (inl (vec_of W_a)) W_union [] false.
Definition W_sem : list N := sem_inter [W_a; sem_union [sem_inter [W_x; W_y]; W_z]].

Example W_meaning : W_sem = [1; 10000].
Proof. vm_compute. reflexivity. Qed.

Example W_shape_is_current : union_guard = true /\ union_resync = true.
Proof. split; reflexivity. Qed.

Theorem union_over_intersection_refuted :
  exists prog, valid_prog W_sem prog /\ run (inter_impl W_OC) W_outer prog <> spec_run W_sem prog.
Proof. exists [CAdvance; CAdvance]. split; [exact I|vm_compute; discriminate]. Qed.

Example W_observed :
  run (inter_impl W_OC) W_outer [CAdvance; CAdvance; CAdvance] = [ODoc 10000; ODoc 10005; ODoc DOCSET_TERMINATED] /\
  spec_run W_sem [CAdvance; CAdvance; CAdvance] = [ODoc 10000; ODoc DOCSET_TERMINATED; ODoc DOCSET_TERMINATED].
Proof. split; vm_compute; reflexivity. Qed.

(* ---------- a candidate repair, checked on the witness ----------
   In the hit branch of seek_danger, re-synchronise every child that sits at or beyond the target on its own
   document (`seek(doc())` is always legal and is the identity on a valid child; on a dangling Intersection it runs
   go_to_first_doc) before `self.seek(target)`.  The current source does this only for `doc() == target`. *)
Section Repair.
  Variable C : impl.
  Definition resync (t : N) (c : st C) : st C :=
    if N.leb t (doc C c) && negb (N.eqb (doc C c) DOCSET_TERMINATED) then seek C (doc C c) c else c.
  Definition u_seek_danger_fix (t : N) (s : ustate C) : sd_result * ustate C :=
    if N.leb DOCSET_TERMINATED t then (SdLower DOCSET_TERMINATED, s)
    else if N.leb t (u_doc C s) then
      (if N.eqb t (u_doc C s) then (SdFound, s) else (SdLower (u_doc C s), s))
    else if is_in_horizon C t s then
      let s' := u_seek C t s in
      if N.eqb (u_doc C s') t then (SdFound, s') else (SdLower (u_doc C s'), s')
    else
      let '(hit, mn, ds) := children_danger C t (u_docsets C s) DOCSET_TERMINATED in
      if hit then
        let s1 := upd C s (map (resync t) ds) (u_bitsets C s) (u_bucket C s) (u_w C s) (u_doc C s) (u_oof C s) in
        (SdFound, u_seek C t s1)
      else (SdLower mn, upd C s ds (u_bitsets C s) (u_bucket C s) (u_w C s) (u_doc C s) (u_oof C s)).
  Definition union_impl_fix : impl := {|
    st := ustate C; doc := u_doc C; advance := u_advance C; seek := u_seek C; seek_danger := u_seek_danger_fix;
    fill_buffer := u_fill_buffer C;
    fill_bitset := default_fill_bitset (u_doc C) (u_advance C) (u_size C) (u_set_oof C) (u_seek C);
    count := u_count C; size := u_size C; ok := u_ok C |}.
End Repair.

Definition F_U := union_impl_fix W_UC.
Definition F_OC := sum_impl vec_impl F_U.
Definition F_union : st F_OC := inr (u_build W_UC [inl (i_new vec_impl (vec_of W_x) (vec_of W_y) [] false); inr (vec_of W_z)]).
Definition F_outer : st (inter_impl F_OC) := i_new F_OC (inl (vec_of W_a)) F_union [] false.

Example W_repaired :
  run (inter_impl F_OC) F_outer [CAdvance; CAdvance; CAdvance] = spec_run W_sem [CAdvance; CAdvance; CAdvance].
Proof. vm_compute. reflexivity. Qed.

(* the shape read from the current source (F134 fixed: the missed children are re-synchronised, union_resync = true)
   agrees with the meaning on the same witness *)
Definition N_OC := sum_impl vec_impl (union_impl W_UC).
Definition N_union : st N_OC := inr (u_build W_UC [inl (i_new vec_impl (vec_of W_x) (vec_of W_y) [] false); inr (vec_of W_z)]).
Definition N_outer : st (inter_impl N_OC) := i_new N_OC (inl (vec_of W_a)) N_union [] false.
Example W_current_source :
  run (inter_impl N_OC) N_outer [CAdvance; CAdvance; CAdvance] = spec_run W_sem [CAdvance; CAdvance; CAdvance].
Proof. vm_compute. reflexivity. Qed.
