(* DocSet/Sum.v -- heterogeneous children (Box<dyn Scorer>): the sum of two implementations. *)
From TV Require Import Base.Prelude Generated.Constants DocSet.Spec DocSet.Impl.
Local Open Scope N_scope.

Section Sum.
  Variables A B : impl.
  Definition sum_st : Type := (st A + st B)%type.
  Definition lift1 {X} (f : st A -> X) (g : st B -> X) (s : sum_st) : X := match s with inl a => f a | inr b => g b end.
  Definition sum_impl : impl := {|
    st := sum_st;
    doc := lift1 (doc A) (doc B);
    advance := fun s => match s with inl a => inl (advance A a) | inr b => inr (advance B b) end;
    seek := fun t s => match s with inl a => inl (seek A t a) | inr b => inr (seek B t b) end;
    seek_danger := fun t s => match s with
                              | inl a => let '(r, a') := seek_danger A t a in (r, inl a')
                              | inr b => let '(r, b') := seek_danger B t b in (r, inr b') end;
    fill_buffer := fun s => match s with
                            | inl a => let '(r, a') := fill_buffer A a in (r, inl a')
                            | inr b => let '(r, b') := fill_buffer B b in (r, inr b') end;
    fill_bitset := fun m s => match s with
                              | inl a => let '(r, a') := fill_bitset A m a in (r, inl a')
                              | inr b => let '(r, b') := fill_bitset B m b in (r, inr b') end;
    count := fun s => match s with
                      | inl a => let '(r, a') := count A a in (r, inl a')
                      | inr b => let '(r, b') := count B b in (r, inr b') end;
    size := lift1 (size A) (size B);
    ok := lift1 (ok A) (ok B) |}.
End Sum.

(* the sum of two implementations that meet the contract meets it (heterogeneous nesting) *)
Section SumOk.
  Variables (A B : impl) (sa sb : bool).
  Variables (RA : st A -> list N -> Prop) (DA : st A -> N -> list N -> Prop).
  Variables (RB : st B -> list N -> Prop) (DB : st B -> N -> list N -> Prop).
  Hypothesis CA : contract A sa RA DA.
  Hypothesis CB : contract B sb RB DB.

  Definition R_sum (s : sum_st A B) (l : list N) : Prop := match s with inl a => RA a l | inr b => RB b l end.
  Definition D_sum (s : sum_st A B) (tau : N) (l : list N) : Prop := match s with inl a => DA a tau l | inr b => DB b tau l end.

  Theorem sum_contract : contract (sum_impl A B) (sa && sb) R_sum D_sum.
  Proof.
    constructor; cbn [st doc advance seek seek_danger fill_buffer fill_bitset count size ok sum_impl lift1].
    - intros [a|b] l H; [exact (c_wf _ _ _ _ CA _ _ H)|exact (c_wf _ _ _ _ CB _ _ H)].
    - intros [a|b] l H; [exact (c_ok _ _ _ _ CA _ _ H)|exact (c_ok _ _ _ _ CB _ _ H)].
    - intros [a|b] l H; [exact (c_size _ _ _ _ CA _ _ H)|exact (c_size _ _ _ _ CB _ _ H)].
    - intros [a|b] l H; [exact (c_doc _ _ _ _ CA _ _ H)|exact (c_doc _ _ _ _ CB _ _ H)].
    - intros [a|b] l H; [exact (c_advance _ _ _ _ CA _ _ H)|exact (c_advance _ _ _ _ CB _ _ H)].
    - intros [a|b] l t H H1 H2; [exact (c_seek _ _ _ _ CA _ _ _ H H1 H2)|exact (c_seek _ _ _ _ CB _ _ _ H H1 H2)].
    - intros [a|b] l H.
      + pose proof (c_fill_buffer _ _ _ _ CA _ _ H) as H1. destruct (fill_buffer A a). exact H1.
      + pose proof (c_fill_buffer _ _ _ _ CB _ _ H) as H1. destruct (fill_buffer B b). exact H1.
    - intros [a|b] l H.
      + pose proof (c_count _ _ _ _ CA _ _ H) as H1. destruct (count A a). exact H1.
      + pose proof (c_count _ _ _ _ CB _ _ H) as H1. destruct (count B b). exact H1.
    - intros [a|b] l m H H1 H2.
      + pose proof (c_fill_bitset _ _ _ _ CA _ _ _ H H1 H2) as H3. destruct (fill_bitset A m a). exact H3.
      + pose proof (c_fill_bitset _ _ _ _ CB _ _ _ H H1 H2) as H3. destruct (fill_bitset B m b). exact H3.
    - intros [a|b] l tau H Hs.
      + apply (c_RD _ _ _ _ CA _ _ _ H). destruct Hs as [Hs|Hs]; [left; apply andb_true_iff in Hs; tauto|now right].
      + apply (c_RD _ _ _ _ CB _ _ _ H). destruct Hs as [Hs|Hs]; [left; apply andb_true_iff in Hs; tauto|now right].
    - intros [a|b] tau l H; [exact (c_Dwf _ _ _ _ CA _ _ _ H)|exact (c_Dwf _ _ _ _ CB _ _ _ H)].
    - intros [a|b] tau l H; [exact (c_Dok _ _ _ _ CA _ _ _ H)|exact (c_Dok _ _ _ _ CB _ _ _ H)].
    - intros [a|b] tau tau' l H Ht; [exact (c_Dmono _ _ _ _ CA _ _ _ _ H Ht)|exact (c_Dmono _ _ _ _ CB _ _ _ _ H Ht)].
    - intros [a|b] tau l H; [exact (c_Ddoc _ _ _ _ CA _ _ _ H)|exact (c_Ddoc _ _ _ _ CB _ _ _ H)].
    - intros [a|b] tau l H; [exact (c_Dterm _ _ _ _ CA _ _ _ H)|exact (c_Dterm _ _ _ _ CB _ _ _ H)].
    - intros [a|b] tau l t H Ht HT.
      + pose proof (c_danger _ _ _ _ CA _ _ _ _ H Ht HT) as Hd. destruct (seek_danger A t a) as [[|x] a']; exact Hd.
      + pose proof (c_danger _ _ _ _ CB _ _ _ _ H Ht HT) as Hd. destruct (seek_danger B t b) as [[|x] b']; exact Hd.
    - intros [a|b] l t H Ht.
      + destruct (c_danger_below _ _ _ _ CA _ _ _ H Ht) as [x [H1 H2]]. destruct (seek_danger A t a). exists x. tauto.
      + destruct (c_danger_below _ _ _ _ CB _ _ _ H Ht) as [x [H1 H2]]. destruct (seek_danger B t b). exists x. tauto.
    - intros [a|b] tau l t H Ht.
      + destruct (c_danger_T _ _ _ _ CA _ _ _ _ H Ht) as [x [H1 H2]]. destruct (seek_danger A t a). exists x. tauto.
      + destruct (c_danger_T _ _ _ _ CB _ _ _ _ H Ht) as [x [H1 H2]]. destruct (seek_danger B t b). exists x. tauto.
  Qed.
End SumOk.
