(* DocSet/DisjunctionProofs.v -- Disjunction with minimum_matches_required (src/query/disjunction.rs, model
   DocSet/Disjunction.v) over ANY children meeting the contract of Impl.v: Disjunction::new represents
   sem_disj k (members of at least k lists) and, with the trait defaults over its own doc/advance, meets the strong
   contract.  The heap is a list from which a chain with the smallest current document is popped.
   Loop invariant of `advance`: [num] chains have been advanced past the candidate [cur]; every remaining member is
   >= cur; a document x is still to be delivered iff  (x = cur and k <= num + count_mem cur lists)  or
   (x <> cur and k <= count_mem x lists). *)
From TV Require Import Base.Prelude Generated.Constants DocSet.Spec DocSet.Impl DocSet.Program DocSet.Disjunction DocSet.IntersectProofs.
Local Open Scope N_scope.

Definition mu (ls : list (list N)) : nat := fold_right (fun l n => (S (length l) + n)%nat) O ls.

Lemma cm_cons x l ls : count_mem x (l :: ls) = ((if mem x l then 1 else 0) + count_mem x ls)%nat.
Proof. unfold count_mem. cbn [filter]. destruct (mem x l); reflexivity. Qed.
Lemma cm_nil x ls : count_mem x ([] :: ls) = count_mem x ls.
Proof. rewrite cm_cons. reflexivity. Qed.
Lemma mem_false x l : ~ In x l -> mem x l = false.
Proof. intros H. destruct (mem x l) eqn:E; [apply mem_In in E; tauto|reflexivity]. Qed.
Lemma mem_true x l : In x l -> mem x l = true.
Proof. apply mem_In. Qed.
Lemma cm_same y tl ls : wf_docs (y :: tl) -> count_mem y ((y :: tl) :: ls) = S (count_mem y (tl :: ls)).
Proof.
  intros Hwf. apply wf_docs_cons in Hwf. destruct Hwf as [_ [Hall _]]. rewrite !cm_cons, mem_true by now left.
  rewrite (mem_false y tl); [reflexivity|]. intros Hi. rewrite Forall_forall in Hall. specialize (Hall _ Hi). lia.
Qed.
Lemma cm_other x y tl ls : x <> y -> count_mem x ((y :: tl) :: ls) = count_mem x (tl :: ls).
Proof.
  intros Hne. rewrite !cm_cons. destruct (mem x tl) eqn:E.
  - rewrite mem_true; [reflexivity|]. right. now apply mem_In.
  - rewrite mem_false; [reflexivity|]. intros [H|H]; [congruence|]. apply mem_In in H. congruence.
Qed.
Lemma cm_zero x ls : (forall l, In l ls -> ~ In x l) -> count_mem x ls = 0%nat.
Proof.
  induction ls as [|l r IH]; intros H; [reflexivity|]. rewrite cm_cons, mem_false by (apply H; now left).
  apply IH. intros l0 Hl0. apply H. now right.
Qed.
Lemma cm_pos x ls : (1 <= count_mem x ls)%nat -> exists l, In l ls /\ In x l.
Proof.
  induction ls as [|l r IH]; [cbn; lia|]. rewrite cm_cons. destruct (mem x l) eqn:E.
  - intros _. exists l. split; [now left|now apply mem_In].
  - intros H. destruct (IH H) as [l0 [H1 H2]]. exists l0. split; [now right|assumption].
Qed.
Lemma cm_le_len x ls : (count_mem x ls <= length ls)%nat.
Proof. unfold count_mem. induction ls as [|l r IH]; [apply le_n|]. cbn [filter length]. destruct (mem x l); cbn [length]; lia. Qed.

Lemma nil_of_no_mem' (L : list N) : (forall x, ~ In x L) -> L = [].
Proof. destruct L as [|y r]; [reflexivity|]. intros H. exfalso. apply (H y). now left. Qed.

Lemma ssorted_NoDup' l : ssorted l -> NoDup l.
Proof.
  induction l as [|x r IH]; [constructor|]. intros [H1 H2]. constructor; [|auto].
  intros Hi. rewrite Forall_forall in H1. specialize (H1 _ Hi). lia.
Qed.

Section DisjRepr.
  Variables (C : impl) (strong : bool) (RC : st C -> list N -> Prop) (DC : st C -> N -> list N -> Prop).
  Hypothesis CC : contract C strong RC DC.
  Variable k : nat.
  Hypothesis Hk : (1 <= k)%nat.

  Definition R_d (s : dstate C) (l : list N) : Prop :=
    d_oof C s = false /\ d_min C s = k /\ wf_docs l /\ exists lcs, Forall2 RC (d_chains C s) lcs /\
      ((d_cur C s < DOCSET_TERMINATED /\ (forall lc, In lc lcs -> forall x, In x lc -> d_cur C s < x) /\
        forall x, In x l <-> x = d_cur C s \/ (k <= count_mem x lcs)%nat)
       \/ (d_cur C s = DOCSET_TERMINATED /\ l = [] /\ forall x, ~ (k <= count_mem x lcs)%nat)).

  (* BinaryHeap::pop: a chain with the smallest current document; the rest in some order *)
  Lemma pop_min_spec ds lcs : Forall2 RC ds lcs ->
    match pop_min C ds with
    | None => ds = [] /\ lcs = []
    | Some (m, r) => exists lm lr, RC m lm /\ Forall2 RC r lr /\ (forall x, count_mem x (lm :: lr) = count_mem x lcs) /\
                     mu (lm :: lr) = mu lcs /\ (forall l, In l (lm :: lr) <-> In l lcs) /\ Forall (fun l => ds_doc lm <= ds_doc l) lr
    end.
  Proof.
    induction 1 as [|c lc r lr Hc Hr IH]; [split; reflexivity|]. cbn [pop_min]. destruct (pop_min C r) as [[m r']|].
    - destruct IH as [lm [lr' [Hm [Hr' [Hcnt [Hmu [Hin Hmin]]]]]]].
      rewrite (c_doc _ _ _ _ CC _ _ Hc), (c_doc _ _ _ _ CC _ _ Hm). destruct (N.leb_spec (ds_doc lc) (ds_doc lm)) as [Hle|Hgt].
      + exists lc, lr. repeat split; try assumption; try tauto.
        rewrite Forall_forall in *. intros l Hl. apply Hin in Hl. destruct Hl as [<-|Hl]; [assumption|]. specialize (Hmin _ Hl). lia.
      + exists lm, (lc :: lr'). split; [assumption|split; [constructor; assumption|split; [|split; [|split]]]].
        * intros x. specialize (Hcnt x). rewrite !cm_cons in *. destruct (mem x lm), (mem x lc); lia.
        * unfold mu in *. cbn [fold_right] in *. lia.
        * intros l. specialize (Hin l). cbn [In] in *. tauto.
        * constructor; [lia|assumption].
    - destruct IH as [-> ->]. inversion Hr; subst. exists lc, []. repeat split; try assumption; try tauto; constructor.
  Qed.

  Definition Pre (num : nat) (cur : N) (lcs : list (list N)) : Prop :=
    (num = 0%nat /\ forall lc, In lc lcs -> ~ In cur lc) \/
    ((1 <= num)%nat /\ cur < DOCSET_TERMINATED /\ forall lc, In lc lcs -> forall x, In x lc -> cur <= x).

  Local Set Warnings "-inconsistent-scopes".
  Notation pending num cur lcs Lp :=
    (forall x : N, In x Lp <-> (x = (cur : N) /\ (k <= num + count_mem cur lcs)%nat) \/ (x <> (cur : N) /\ (k <= count_mem x lcs)%nat)) (only parsing).

  Lemma F2_wf ds lcs lc : Forall2 RC ds lcs -> In lc lcs -> wf_docs lc.
  Proof. induction 1 as [|c l0 ds lcs Hc _ IH]; [intros []|]. intros [<-|H]; [exact (c_wf _ _ _ _ CC _ _ Hc)|auto]. Qed.

  Lemma F2_ok ds lcs : Forall2 RC ds lcs -> forallb (ok C) ds = true.
  Proof. induction 1 as [|c lc ds lcs Hc _ IH]; [reflexivity|]. cbn [forallb]. now rewrite (c_ok _ _ _ _ CC _ _ Hc), IH. Qed.

  Lemma d_loop_ok : forall fuel num cur chains lcs Lp, Forall2 RC chains lcs -> Pre num cur lcs -> wf_docs Lp ->
    pending num cur lcs Lp -> (mu lcs <= fuel)%nat -> R_d (d_loop C fuel num cur chains k false) Lp.
  Proof.
    induction fuel as [|f IH]; intros num cur chains lcs Lp HF HPre Hwf HP Hf; cbn [d_loop];
      pose proof (pop_min_spec chains lcs HF) as Hpop; destruct (pop_min C chains) as [[cand rest]|].
    1,3: destruct Hpop as [lm [lr [Hm [Hr [Hcnt [Hmu [Hin Hmin]]]]]]].
    - cbn [mu fold_right] in Hmu. lia.
    - (* a chain is popped *)
      assert (HP' : pending num cur (lm :: lr) Lp) by (intros x; rewrite !Hcnt; apply HP).
      assert (HPre' : Pre num cur (lm :: lr)).
      { destruct HPre as [[H0 Hn]|[H1 [HT Hge]]]; [left|right]; repeat split; try assumption; intros lc Hlc; [apply Hn|apply Hge]; now apply Hin. }
      clear HP HPre Hcnt Hin. rewrite <- Hmu in Hf. clear Hmu.
      rewrite (c_doc _ _ _ _ CC _ _ Hm). pose proof (c_wf _ _ _ _ CC _ _ Hm) as Hwm.
      destruct lm as [|y ytl]; cbn [ds_doc].
      + (* exhausted chain: dropped *)
        rewrite N.eqb_refl. apply (IH num cur rest lr Lp); try assumption.
        * destruct HPre' as [[H0 Hn]|[H1 [HT Hge]]]; [left|right]; repeat split; try assumption; intros lc Hlc; [apply Hn|apply Hge]; now right.
        * cbn [mu fold_right length] in Hf. unfold mu. lia.
      + pose proof (wf_docs_cons _ _ Hwm) as [HyT [Hall Hwtl]]. destruct (N.eqb_spec y DOCSET_TERMINATED); [lia|].
        pose proof (c_advance _ _ _ _ CC _ _ Hm) as Hadv. cbn [ds_advance tl] in Hadv.
        assert (HF' : Forall2 RC (advance C cand :: rest) (ytl :: lr)) by (constructor; assumption).
        assert (Hmu' : (mu (ytl :: lr) <= f)%nat) by (cbn [mu fold_right length] in *; lia).
        assert (Hmin' : forall lc, In lc (ytl :: lr) -> forall x, In x lc -> y <= x).
        { intros lc [<-|Hlc] x Hx.
          - rewrite Forall_forall in Hall. specialize (Hall _ Hx). lia.
          - rewrite Forall_forall in Hmin. specialize (Hmin _ Hlc). cbn [ds_doc] in Hmin.
            pose proof (ds_doc_le_In lc x (proj1 (F2_wf _ _ _ Hr Hlc)) Hx). lia. }
        destruct (N.eqb_spec cur y) as [E|E]; cbn [negb].
        * (* one more match of the candidate *)
          subst y. destruct HPre' as [[H0 Hn]|[H1 [HT Hge]]]; [exfalso; apply (Hn (cur :: ytl)); now left|].
          apply (IH (S num) cur _ (ytl :: lr) Lp HF'); try assumption.
          -- right. repeat split; [lia|assumption|exact Hmin'].
          -- intros x. rewrite (HP' x). rewrite (cm_same cur ytl lr Hwm). split; (intros [[H2 H3]|[H2 H3]]; [left|right]); split; try assumption; try lia.
             ++ rewrite <- (cm_other x cur ytl lr H2). exact H3.
             ++ rewrite (cm_other x cur ytl lr H2). exact H3.
        * (* a new document *)
          assert (Hnone : count_mem cur ((y :: ytl) :: lr) = 0%nat).
          { apply cm_zero. intros lc Hlc Hc. destruct HPre' as [[H0 Hn]|[H1 [HT Hge]]]; [exact (Hn lc Hlc Hc)|].
            assert (y <= cur).
            { destruct Hlc as [<-|Hlc]; [destruct Hc as [Hc|Hc]; [lia|]; rewrite Forall_forall in Hall; specialize (Hall _ Hc); lia|].
              apply (Hmin' lc (or_intror Hlc) cur Hc). }
            specialize (Hge (y :: ytl) (or_introl eq_refl) y (or_introl eq_refl)). lia. }
          destruct (Nat.leb_spec k num) as [Hdel|Hrej].
          -- (* enough matches: deliver cur *)
             destruct HPre' as [[H0 Hn]|[H1 [HT Hge]]]; [lia|].
             split; [reflexivity|split; [reflexivity|split; [assumption|]]]. cbn [d_chains d_cur].
             exists ((y :: ytl) :: lr). split; [constructor; assumption|left]. split; [assumption|split].
             ++ intros lc Hlc x Hx.
                assert (y <= x).
                { destruct Hlc as [<-|Hlc]; [destruct Hx as [Hx|Hx]; [lia|]; rewrite Forall_forall in Hall; specialize (Hall _ Hx); lia|].
                  apply (Hmin' lc (or_intror Hlc) x Hx). }
                specialize (Hge (y :: ytl) (or_introl eq_refl) y (or_introl eq_refl)). lia.
             ++ intros x. rewrite (HP' x), Hnone. split.
                ** intros [[H2 H3]|[H2 H3]]; [now left|now right].
                ** intros [H2|H2]; [left; split; [assumption|lia]|right; split; [|assumption]]. intros ->. rewrite Hnone in H2. lia.
          -- (* not enough: cur is abandoned, y becomes the candidate *)
             apply (IH 1%nat y _ (ytl :: lr) Lp HF'); try assumption.
             ++ right. repeat split; [lia|assumption|exact Hmin'].
             ++ intros x. rewrite (HP' x), Hnone. destruct (N.eq_dec x y) as [->|Hxy].
                ** rewrite (cm_same y ytl lr Hwm). split.
                   --- intros [[H2 H3]|[H2 H3]]; [lia|left; split; [reflexivity|lia]].
                   --- intros [[H2 H3]|[H2 H3]]; [right; split; [congruence|lia]|congruence].
                ** rewrite (cm_other x y ytl lr Hxy). split.
                   --- intros [[H2 H3]|[H2 H3]]; [lia|right; split; assumption].
                   --- intros [[H2 H3]|[H2 H3]]; [congruence|right; split; [|assumption]]. intros ->.
                       rewrite <- (cm_other cur y ytl lr E), Hnone in H3. lia.
    - (* heap empty *)
      destruct Hpop as [-> ->]. inversion HF; subst.
      assert (HL : forall x, In x Lp <-> x = cur /\ (k <= num)%nat).
      { intros x. rewrite (HP x). cbn. rewrite Nat.add_0_r. split; [intros [H|[_ H]]; [exact H|lia]|intros H; now left]. }
      split; [reflexivity|split; [reflexivity|split; [assumption|]]]. cbn [d_chains d_cur]. exists []. split; [constructor|].
      destruct (Nat.ltb_spec num k) as [Hlt|Hge].
      + right. repeat split; [|intros x; cbn; lia]. apply nil_of_no_mem'. intros x Hx. apply HL in Hx. lia.
      + left. destruct HPre as [[H0 _]|[_ [HT _]]]; [lia|]. split; [assumption|split; [intros lc []|]].
        intros x. rewrite (HL x). cbn. split; [tauto|]. intros [H|H]; [split; [assumption|lia]|lia].
    - destruct Hpop as [-> ->]. inversion HF; subst.
      assert (HL : forall x, In x Lp <-> x = cur /\ (k <= num)%nat).
      { intros x. rewrite (HP x). cbn. rewrite Nat.add_0_r. split; [intros [H|[_ H]]; [exact H|lia]|intros H; now left]. }
      split; [reflexivity|split; [reflexivity|split; [assumption|]]]. cbn [d_chains d_cur]. exists []. split; [constructor|].
      destruct (Nat.ltb_spec num k) as [Hlt|Hge].
      + right. repeat split; [|intros x; cbn; lia]. apply nil_of_no_mem'. intros x Hx. apply HL in Hx. lia.
      + left. destruct HPre as [[H0 _]|[_ [HT _]]]; [lia|]. split; [assumption|split; [intros lc []|]].
        intros x. rewrite (HL x). cbn. split; [tauto|]. intros [H|H]; [split; [assumption|lia]|lia].
  Qed.

  Lemma total_ge_mu ds lcs : Forall2 RC ds lcs -> (mu lcs < d_total C ds)%nat.
  Proof.
    induction 1 as [|c lc ds lcs Hc _ IH]; [cbn; lia|]. unfold mu, d_total in *. cbn [fold_right].
    pose proof (c_size _ _ _ _ CC _ _ Hc). lia.
  Qed.

  Lemma concat_len ds lcs : Forall2 RC ds lcs -> (length (concat lcs) < d_total C ds)%nat.
  Proof.
    induction 1 as [|c lc ds lcs Hc _ IH]; [cbn; lia|]. unfold d_total in *. cbn [fold_right concat]. rewrite app_length.
    pose proof (c_size _ _ _ _ CC _ _ Hc). lia.
  Qed.

  Lemma Hd_wf : forall s l, R_d s l -> wf_docs l.
  Proof. intros s l [_ [_ [H _]]]. exact H. Qed.

  Lemma Hd_ok : forall s l, R_d s l -> d_ok C s = true.
  Proof. intros s l [H0 [_ [_ [lcs [HF _]]]]]. unfold d_ok. rewrite H0, (F2_ok _ _ HF). reflexivity. Qed.

  Lemma Hd_doc : forall s l, R_d s l -> d_doc C s = ds_doc l.
  Proof.
    intros s l [_ [_ [Hwf [lcs [HF [[HT [Hgt HM]]|[HT [-> _]]]]]]]]; unfold d_doc; [|exact HT].
    destruct l as [|y r]; [exfalso; apply (proj2 (HM (d_cur C s))); now left|]. cbn [ds_doc].
    pose proof (wf_docs_cons _ _ Hwf) as [_ [Hall _]]. rewrite Forall_forall in Hall.
    destruct (proj1 (HM y) (or_introl eq_refl)) as [E|Hc]; [now symmetry|].
    destruct (cm_pos y lcs ltac:(lia)) as [lc [Hlc Hy]]. specialize (Hgt _ Hlc _ Hy).
    destruct (proj2 (HM (d_cur C s)) (or_introl eq_refl)) as [E|Hi]; [now symmetry|]. specialize (Hall _ Hi). lia.
  Qed.

  Lemma Hd_size : forall s l, R_d s l -> (length l <= d_size C s)%nat.
  Proof.
    intros s l [_ [_ [Hwf [lcs [HF [[HT [Hgt HM]]|[HT [-> _]]]]]]]]; [|cbn; lia]. unfold d_size.
    assert (Hincl : incl l (d_cur C s :: concat lcs)).
    { intros x Hx. apply HM in Hx. destruct Hx as [->|Hc]; [now left|right].
      destruct (cm_pos x lcs ltac:(lia)) as [lc [Hlc Hy]]. apply in_concat. exists lc. tauto. }
    pose proof (NoDup_incl_length (ssorted_NoDup' _ (proj1 Hwf)) Hincl) as Hlen. cbn [length] in Hlen.
    pose proof (concat_len _ _ HF). lia.
  Qed.

  Lemma Hd_adv : forall s l, R_d s l -> R_d (d_advance C s) (ds_advance l).
  Proof.
    intros s l HR. pose proof (Hd_doc _ _ HR) as Hdoc. destruct HR as [H0 [Hmin [Hwf [lcs [HF Hform]]]]].
    unfold d_advance. rewrite H0, Hmin.
    apply (d_loop_ok _ 0%nat (d_cur C s) _ lcs); try assumption.
    - left. split; [reflexivity|]. intros lc Hlc Hc. destruct Hform as [[HT [Hgt HM]]|[HT _]].
      + specialize (Hgt _ Hlc _ Hc). lia.
      + pose proof (F2_wf _ _ _ HF Hlc) as [_ Hall]. rewrite Forall_forall in Hall. specialize (Hall _ Hc). lia.
    - now apply wf_docs_tl.
    - intros x. cbn [Nat.add].
      assert (Hz : count_mem (d_cur C s) lcs = 0%nat).
      { apply cm_zero. intros lc Hlc Hc. destruct Hform as [[HT [Hgt HM]]|[HT _]].
        - specialize (Hgt _ Hlc _ Hc). lia.
        - pose proof (F2_wf _ _ _ HF Hlc) as [_ Hall]. rewrite Forall_forall in Hall. specialize (Hall _ Hc). lia. }
      rewrite Hz. destruct Hform as [[HT [Hgt HM]]|[HT [-> Hno]]].
      + destruct l as [|y r]; [exfalso; apply (proj2 (HM (d_cur C s))); now left|]. cbn [ds_advance tl].
        unfold d_doc in Hdoc. cbn [ds_doc] in Hdoc. subst y. pose proof (wf_docs_cons _ _ Hwf) as [_ [Hall _]]. rewrite Forall_forall in Hall.
        split.
        * intros Hx. right. specialize (Hall _ Hx). split; [lia|]. destruct (proj1 (HM x) (or_intror Hx)) as [E|Hc]; [lia|exact Hc].
        * intros [[_ H]|[Hne Hc]]; [lia|]. destruct (proj2 (HM x) (or_intror Hc)) as [E|Hi]; [congruence|exact Hi].
      + cbn [ds_advance tl In]. split; [tauto|]. intros [[_ H]|[_ H]]; [lia|exact (Hno x H)].
    - pose proof (total_ge_mu _ _ HF). lia.
  Qed.

  (* Disjunction::new *)
  Theorem disj_new_repr ds lcs : Forall2 RC ds lcs -> R_d (d_new C ds k) (sem_disj k lcs).
  Proof.
    intros HF. unfold d_new.
    assert (Hwfs : Forall wf_docs lcs) by (rewrite Forall_forall; intros lc Hlc; exact (F2_wf _ _ _ HF Hlc)).
    assert (Hlen : length ds = length lcs) by (clear - HF; induction HF; cbn; congruence).
    destruct (Nat.ltb_spec (length ds) k) as [Hlt|Hge].
    - assert (Hno : forall x, ~ (k <= count_mem x lcs)%nat) by (intros x; pose proof (cm_le_len x lcs); lia).
      split; [reflexivity|split; [reflexivity|split; [now apply sem_disj_wf|]]]. cbn [d_chains d_cur].
      exists lcs. split; [assumption|right]. split; [reflexivity|split; [|exact Hno]].
      apply nil_of_no_mem'. intros x Hx. apply (sem_disj_In1 k lcs x Hk) in Hx. exact (Hno x Hx).
    - unfold d_advance. cbn [d_chains d_cur d_min d_oof].
      apply (d_loop_ok _ 0%nat DOCSET_TERMINATED _ lcs); try assumption.
      + left. split; [reflexivity|]. intros lc Hlc Hc. pose proof (F2_wf _ _ _ HF Hlc) as [_ Hall].
        rewrite Forall_forall in Hall. specialize (Hall _ Hc). lia.
      + now apply sem_disj_wf.
      + intros x. rewrite (sem_disj_In1 k lcs x Hk). cbn [Nat.add].
        assert (Hz : count_mem DOCSET_TERMINATED lcs = 0%nat).
        { apply cm_zero. intros lc Hlc Hc. pose proof (F2_wf _ _ _ HF Hlc) as [_ Hall]. rewrite Forall_forall in Hall. specialize (Hall _ Hc). lia. }
        rewrite Hz. split.
        * intros Hc. right. split; [|exact Hc]. intros ->. rewrite Hz in Hc. lia.
        * intros [[_ H]|[_ H]]; [lia|exact H].
      + pose proof (total_ge_mu _ _ HF). lia.
  Qed.

  (* only doc and advance are overridden: with the trait defaults the Disjunction meets the strong contract *)
  Theorem disj_contract : contract (disj_impl C) true R_d (fun s _ l => R_d s l).
  Proof. apply default_contract; [exact Hd_wf|exact Hd_ok|exact Hd_size|exact Hd_doc|exact Hd_adv]. Qed.
End DisjRepr.

Theorem disj_program_equivalence (C : impl) strong RC DC (k : nat) : contract C strong RC DC -> (1 <= k)%nat ->
  forall ds lcs prog, Forall2 RC ds lcs -> valid_prog (sem_disj k lcs) prog ->
  run (disj_impl C) (d_new C ds k) prog = spec_run (sem_disj k lcs) prog.
Proof.
  intros CC Hk ds lcs prog HF HV.
  apply (program_equivalence _ _ _ _ (disj_contract C strong RC DC CC k Hk)); [|exact HV].
  exact (disj_new_repr C strong RC DC CC k Hk ds lcs HF).
Qed.

Example disj_nonvacuous :
  run (disj_impl vec_impl) (d_new vec_impl [vec_of [1; 3; 5; 9]; vec_of [3; 4; 9]; vec_of [3; 5; 7]] 2) [CAdvance; CAdvance; CAdvance]
  = spec_run (sem_disj 2 [[1; 3; 5; 9]; [3; 4; 9]; [3; 5; 7]]) [CAdvance; CAdvance; CAdvance].
Proof. vm_compute. reflexivity. Qed.
