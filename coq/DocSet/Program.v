(* DocSet/Program.v -- call programs, the observations of an implementation and of the plain list
   docset, and the generic equivalence: an implementation that satisfies the contract of Impl.v is
   observationally the sorted list it represents, for every valid program (C13). *)
From TV Require Import Base.Prelude Generated.Constants DocSet.Spec DocSet.Impl.
Local Open Scope N_scope.

Inductive call :=
| CAdvance | CSeek (t : N) | CFill | CBitset (m : N)
| CDanger (t : N)   (* seek_danger: relational spec, see spec_check; not part of valid_prog *)
| CCount.   (* count_including_deleted consumes the docset: last call of a program *)

Inductive obs :=
| ODoc (d : N)                          (* doc() after advance / seek *)
| OBuf (b : list N) (d : N)             (* buffer contents, doc() afterwards *)
| OMask (mask : list N) (ret d : N)     (* 16 words, returned doc, doc() afterwards *)
| OCount (n : N)
| ODanger (r : sd_result) (d : N)       (* result; doc() afterwards when Found, 0 (not observed) otherwise *)
| OOutOfFuel.

Definition guard (o : bool) (x : obs) (rest : list obs) : list obs := if o then x :: rest else [OOutOfFuel].

Fixpoint run (I : impl) (s : st I) (prog : list call) : list obs :=
  match prog with
  | [] => []
  | CAdvance :: r => let s' := advance I s in guard (ok I s') (ODoc (doc I s')) (run I s' r)
  | CSeek t :: r => let s' := seek I t s in guard (ok I s') (ODoc (doc I s')) (run I s' r)
  | CFill :: r => let '(b, s') := fill_buffer I s in guard (ok I s') (OBuf b (doc I s')) (run I s' r)
  | CBitset m :: r => let '((mk, ret), s') := fill_bitset I m s in guard (ok I s') (OMask mk ret (doc I s')) (run I s' r)
  | CDanger t :: r => let '(res, s') := seek_danger I t s in
                      guard (ok I s') (ODanger res (match res with SdFound => doc I s' | SdLower _ => 0 end)) (run I s' r)
  | CCount :: _ => let '(n, s') := count I s in guard (ok I s') (OCount n) []
  end.

Fixpoint spec_run (l : list N) (prog : list call) : list obs :=
  match prog with
  | [] => []
  | CAdvance :: r => let l' := ds_advance l in ODoc (ds_doc l') :: spec_run l' r
  | CSeek t :: r => let l' := ds_seek t l in ODoc (ds_doc l') :: spec_run l' r
  | CFill :: r => let '(b, l') := ds_fill_buffer l in OBuf b (ds_doc l') :: spec_run l' r
  | CBitset m :: r => let '(ms, l') := ds_fill_bitset m l in OMask (mask_of m ms) (ds_doc l') (ds_doc l') :: spec_run l' r
  | CDanger _ :: _ => []
  | CCount :: _ => [OCount (ds_count l)]
  end.

(* the contract of the trait on the caller's side *)
Fixpoint valid_prog (l : list N) (prog : list call) : Prop :=
  match prog with
  | [] => True
  | CAdvance :: r => valid_prog (ds_advance l) r
  | CSeek t :: r => ds_doc l <= t /\ t <= DOCSET_TERMINATED /\ valid_prog (ds_seek t l) r
  | CFill :: r => valid_prog (snd (ds_fill_buffer l)) r
  | CBitset m :: r => ds_doc l <= m /\ m + BLOCK_WINDOW <= DOCSET_TERMINATED /\ valid_prog (snd (ds_fill_bitset m l)) r
  | CDanger _ :: _ => False
  | CCount :: r => r = []
  end.

Fixpoint valid_progb (l : list N) (prog : list call) : bool :=
  match prog with
  | [] => true
  | CAdvance :: r => valid_progb (ds_advance l) r
  | CSeek t :: r => N.leb (ds_doc l) t && N.leb t DOCSET_TERMINATED && valid_progb (ds_seek t l) r
  | CFill :: r => valid_progb (snd (ds_fill_buffer l)) r
  | CBitset m :: r => N.leb (ds_doc l) m && N.leb (m + BLOCK_WINDOW) DOCSET_TERMINATED && valid_progb (snd (ds_fill_bitset m l)) r
  | CDanger _ :: _ => false
  | CCount :: r => match r with [] => true | _ => false end
  end.

Lemma valid_progb_spec l prog : valid_progb l prog = true -> valid_prog l prog.
Proof.
  revert l. induction prog as [|c r IH]; intros l; [exact (fun _ => I)|].
  destruct c; cbn [valid_progb valid_prog]; rewrite ?andb_true_iff, ?N.leb_le; try discriminate; try (intros H; repeat split; try apply IH; tauto).
  destruct r; [reflexivity|discriminate].
Qed.

Section Equiv.
  Variables (I : impl) (strong : bool) (R : st I -> list N -> Prop) (D : st I -> N -> list N -> Prop).
  Hypothesis C : contract I strong R D.

  Theorem program_equivalence : forall prog s l, R s l -> valid_prog l prog -> run I s prog = spec_run l prog.
  Proof.
    induction prog as [|c r IH]; intros s l HR HV; [reflexivity|].
    destruct c; cbn [run spec_run valid_prog] in *.
    - pose proof (c_advance _ _ _ _ C _ _ HR) as HA.
      rewrite (c_ok _ _ _ _ C _ _ HA), (c_doc _ _ _ _ C _ _ HA). cbn [guard]. f_equal. now apply IH.
    - destruct HV as [H1 [H2 H3]]. rewrite <- (c_doc _ _ _ _ C _ _ HR) in H1.
      pose proof (c_seek _ _ _ _ C _ _ t HR H1 H2) as HA.
      rewrite (c_ok _ _ _ _ C _ _ HA), (c_doc _ _ _ _ C _ _ HA). cbn [guard]. f_equal. now apply IH.
    - destruct (c_fill_buffer _ _ _ _ C _ _ HR) as [H1 H2].
      destruct (fill_buffer I s) as [b s']. destruct (ds_fill_buffer l) as [b' l']. cbn [fst snd] in *. subst b'.
      rewrite (c_ok _ _ _ _ C _ _ H2), (c_doc _ _ _ _ C _ _ H2). cbn [guard]. f_equal. now apply IH.
    - destruct HV as [H1 [H2 H3]]. rewrite <- (c_doc _ _ _ _ C _ _ HR) in H1.
      destruct (c_fill_bitset _ _ _ _ C _ _ m HR H1 H2) as [H4 H5].
      destruct (fill_bitset I m s) as [[mk ret] s']. destruct (ds_fill_bitset m l) as [ms l']. cbn [fst snd] in *.
      injection H4 as -> ->.
      rewrite (c_ok _ _ _ _ C _ _ H5), (c_doc _ _ _ _ C _ _ H5). cbn [guard]. f_equal. now apply IH.
    - destruct HV.
    - destruct (c_count _ _ _ _ C _ _ HR) as [H1 H2]. destruct (count I s) as [n s']. cbn [fst snd] in *.
      rewrite H2, H1. reflexivity.
  Qed.
End Equiv.

(* ---------- once the end is reached every further call keeps reporting the end ---------- *)
Definition obs_terminated (o : obs) : Prop :=
  match o with
  | ODoc d => d = DOCSET_TERMINATED
  | OBuf b d => b = [] /\ d = DOCSET_TERMINATED
  | OMask mk ret d => mk = empty_mask /\ ret = DOCSET_TERMINATED /\ d = DOCSET_TERMINATED
  | OCount n => n = 0
  | ODanger _ _ => False
  | OOutOfFuel => False
  end.

Lemma spec_terminated_sticky prog : Forall obs_terminated (spec_run [] prog).
Proof.
  induction prog as [|c r IH]; [constructor|]. destruct c; cbn [spec_run ds_advance tl ds_seek ds_doc].
  - constructor; [reflexivity|exact IH].
  - constructor; [reflexivity|exact IH].
  - unfold ds_fill_buffer. rewrite firstn_nil, skipn_nil. constructor; [split; reflexivity|exact IH].
  - unfold ds_fill_bitset. cbn [ds_seek filter ds_doc]. constructor; [repeat split|exact IH].
  - constructor.
  - constructor; [reflexivity|constructor].
Qed.

Lemma ds_doc_T_nil l : wf_docs l -> ds_doc l = DOCSET_TERMINATED -> l = [].
Proof. destruct l; [reflexivity|]. intros H E. apply wf_docs_cons in H. cbn in E. lia. Qed.

Theorem terminated_sticky (I : impl) strong R D (C : contract I strong R D) :
  forall prog s l, R s l -> doc I s = DOCSET_TERMINATED -> valid_prog l prog -> Forall obs_terminated (run I s prog).
Proof.
  intros prog s l HR Hd HV. rewrite (program_equivalence I strong R D C prog s l HR HV).
  rewrite (c_doc _ _ _ _ C _ _ HR) in Hd. apply ds_doc_T_nil in Hd; [|eapply c_wf; eassumption].
  subst l. apply spec_terminated_sticky.
Qed.

(* the sequence enumerated by plain advance is strictly increasing and is the represented list *)
Fixpoint advance_walk (I : impl) (fuel : nat) (s : st I) : list N :=
  match fuel with
  | O => []
  | S f => if N.eqb (doc I s) DOCSET_TERMINATED then [] else doc I s :: advance_walk I f (advance I s)
  end.

Theorem advance_walk_is_list (I : impl) strong R D (C : contract I strong R D) :
  forall s l, R s l -> advance_walk I (S (length l)) s = l.
Proof.
  intros s l. revert s. induction l as [|d r IH]; intros s HR.
  - cbn [advance_walk length]. rewrite (c_doc _ _ _ _ C _ _ HR). cbn [ds_doc]. now rewrite N.eqb_refl.
  - cbn [advance_walk length]. rewrite (c_doc _ _ _ _ C _ _ HR). cbn [ds_doc].
    pose proof (c_wf _ _ _ _ C _ _ HR) as Hwf. apply wf_docs_cons in Hwf.
    destruct (N.eqb_spec d DOCSET_TERMINATED); [lia|]. f_equal. apply IH. exact (c_advance _ _ _ _ C _ _ HR).
Qed.

(* ---------- programs with seek_danger: the specification is a relation on the observations ---------- *)
Definition nl_eqb := list_eqb N.eqb.
Definition sd_eqb (a b : sd_result) : bool :=
  match a, b with SdFound, SdFound => true | SdLower x, SdLower y => N.eqb x y | _, _ => false end.
Definition obs_eqb (a b : obs) : bool :=
  match a, b with
  | ODoc x, ODoc y => N.eqb x y
  | OBuf b1 d1, OBuf b2 d2 => nl_eqb b1 b2 && N.eqb d1 d2
  | OMask m1 r1 d1, OMask m2 r2 d2 => nl_eqb m1 m2 && N.eqb r1 r2 && N.eqb d1 d2
  | OCount x, OCount y => N.eqb x y
  | ODanger r1 d1, ODanger r2 d2 => sd_eqb r1 r2 && N.eqb d1 d2
  | _, _ => false
  end.
Definition obsl_eqb := list_eqb obs_eqb.

Lemma nl_eqb_refl l : nl_eqb l l = true.
Proof. apply list_eqb_eq; [intros; apply N.eqb_eq|reflexivity]. Qed.
Lemma obs_eqb_refl o : o <> OOutOfFuel -> obs_eqb o o = true.
Proof.
  destruct o; cbn [obs_eqb]; intros H; rewrite ?nl_eqb_refl, ?N.eqb_refl; try reflexivity; [|congruence].
  destruct r; cbn [sd_eqb]; rewrite ?N.eqb_refl; reflexivity.
Qed.

(* [dang]: the previous seek_danger missed (only seek_danger may follow).
   seek_danger t: Found iff t is a member (then doc() = t and the state is `seek t`);
   otherwise a bound b with t < b <= first member >= t (TERMINATED if none). *)
Fixpoint spec_check (l : list N) (dang : bool) (prog : list call) (os : list obs) : bool :=
  match prog, os with
  | [], [] => true
  | CDanger t :: r, ODanger res d :: os' =>
      if N.leb DOCSET_TERMINATED t then
        match res with SdLower b => N.leb DOCSET_TERMINATED b && spec_check l true r os' | SdFound => false end
      else
        let l' := ds_seek t l in
        match res with
        | SdFound => mem t l && N.eqb d t && spec_check l' false r os'
        | SdLower b => negb (mem t l) && N.ltb t b && N.leb b (ds_doc l') && spec_check l' true r os'
        end
  | CAdvance :: r, o :: os' => negb dang && obs_eqb o (ODoc (ds_doc (ds_advance l))) && spec_check (ds_advance l) false r os'
  | CSeek t :: r, o :: os' => negb dang && obs_eqb o (ODoc (ds_doc (ds_seek t l))) && spec_check (ds_seek t l) false r os'
  | CFill :: r, o :: os' =>
      negb dang && obs_eqb o (OBuf (fst (ds_fill_buffer l)) (ds_doc (snd (ds_fill_buffer l)))) && spec_check (snd (ds_fill_buffer l)) false r os'
  | CBitset m :: r, o :: os' =>
      let l' := snd (ds_fill_bitset m l) in
      negb dang && obs_eqb o (OMask (mask_of m (fst (ds_fill_bitset m l))) (ds_doc l') (ds_doc l')) && spec_check l' false r os'
  | CCount :: _, [o] => negb dang && obs_eqb o (OCount (ds_count l))
  | _, _ => false
  end.

(* what the caller must respect: ordinary calls only from a valid state with the usual preconditions;
   seek_danger from a valid state with any target if the docset is strong, else a target >= doc;
   after a miss only seek_danger with targets not below the missed one *)
Fixpoint valid_dprog (strong : bool) (l : list N) (dang : bool) (tau : N) (prog : list call) : Prop :=
  match prog with
  | [] => True
  | CDanger t :: r =>
      (if dang then tau <= t else (strong = true \/ ds_doc l <= t)) /\
      (if N.leb DOCSET_TERMINATED t then valid_dprog strong l true (if dang then tau else DOCSET_TERMINATED) r
       else valid_dprog strong (ds_seek t l) (negb (mem t l)) t r)
  | CAdvance :: r => dang = false /\ valid_dprog strong (ds_advance l) false 0 r
  | CSeek t :: r => dang = false /\ ds_doc l <= t /\ t <= DOCSET_TERMINATED /\ valid_dprog strong (ds_seek t l) false 0 r
  | CFill :: r => dang = false /\ valid_dprog strong (snd (ds_fill_buffer l)) false 0 r
  | CBitset m :: r => dang = false /\ ds_doc l <= m /\ m + BLOCK_WINDOW <= DOCSET_TERMINATED /\ valid_dprog strong (snd (ds_fill_bitset m l)) false 0 r
  | CCount :: r => dang = false /\ r = []
  end.

Section DangerPrograms.
  Variables (I : impl) (strong : bool) (R : st I -> list N -> Prop) (D : st I -> N -> list N -> Prop).
  Hypothesis C : contract I strong R D.

  Theorem danger_program_sound : forall (prog : list call) (s : st I) (l : list N) (dang : bool) (tau : N),
    (if dang then D s tau l else R s l) -> valid_dprog strong l dang tau prog ->
    spec_check l dang prog (run I s prog) = true.
  Proof.
    induction prog as [|c r IH]; intros s l dang tau HS HV; [reflexivity|].
    destruct c; cbn [run valid_dprog] in *.
    - destruct HV as [-> HV]. pose proof (c_advance _ _ _ _ C _ _ HS) as HA.
      rewrite (c_ok _ _ _ _ C _ _ HA), (c_doc _ _ _ _ C _ _ HA). cbn [guard spec_check negb andb obs_eqb].
      rewrite N.eqb_refl. cbn [andb]. exact (IH _ _ false 0 HA HV).
    - destruct HV as [-> [H1 [H2 HV]]]. rewrite <- (c_doc _ _ _ _ C _ _ HS) in H1.
      pose proof (c_seek _ _ _ _ C _ _ t HS H1 H2) as HA.
      rewrite (c_ok _ _ _ _ C _ _ HA), (c_doc _ _ _ _ C _ _ HA). cbn [guard spec_check negb andb obs_eqb].
      rewrite N.eqb_refl. cbn [andb]. exact (IH _ _ false 0 HA HV).
    - destruct HV as [-> HV]. destruct (c_fill_buffer _ _ _ _ C _ _ HS) as [H1 H2].
      destruct (fill_buffer I s) as [b s']. cbn [fst snd] in *. subst b.
      rewrite (c_ok _ _ _ _ C _ _ H2), (c_doc _ _ _ _ C _ _ H2). cbn [guard spec_check negb andb obs_eqb].
      rewrite nl_eqb_refl, N.eqb_refl. cbn [andb]. exact (IH _ _ false 0 H2 HV).
    - destruct HV as [-> [H1 [H2 HV]]]. rewrite <- (c_doc _ _ _ _ C _ _ HS) in H1.
      destruct (c_fill_bitset _ _ _ _ C _ _ m HS H1 H2) as [H4 H5].
      destruct (fill_bitset I m s) as [[mk ret] s']. cbn [fst snd] in *. injection H4 as -> ->.
      rewrite (c_ok _ _ _ _ C _ _ H5), (c_doc _ _ _ _ C _ _ H5). cbn [guard spec_check negb andb obs_eqb].
      rewrite nl_eqb_refl, !N.eqb_refl. cbn [andb]. exact (IH _ _ false 0 H5 HV).
    - (* seek_danger *)
      destruct HV as [Hpre HV]. cbn [spec_check].
      destruct (N.leb_spec DOCSET_TERMINATED t) as [HT|HT].
      + assert (HD : D s (if dang then tau else DOCSET_TERMINATED) l).
        { destruct dang; [exact HS|]. apply (c_RD _ _ _ _ C _ _ _ HS). right.
          rewrite (c_doc _ _ _ _ C _ _ HS). apply ds_doc_le_T. exact (c_wf _ _ _ _ C _ _ HS). }
        destruct (c_danger_T _ _ _ _ C _ _ _ t HD HT) as [b [Hb [HbT HD']]].
        destruct (seek_danger I t s) as [res s']. cbn [fst snd] in *. subst res.
        rewrite (c_Dok _ _ _ _ C _ _ _ HD'). cbn [guard].
        destruct (N.leb_spec DOCSET_TERMINATED t); [|lia]. destruct (N.leb_spec DOCSET_TERMINATED b); [|lia]. cbn [andb].
        exact (IH _ _ true _ HD' HV).
      + assert (HD : exists tau', tau' <= t /\ D s tau' l).
        { destruct dang; [exists tau; tauto|]. destruct Hpre as [Hs|Hd].
          - exists 0. split; [lia|]. apply (c_RD _ _ _ _ C _ _ _ HS). now left.
          - exists t. split; [lia|]. apply (c_RD _ _ _ _ C _ _ _ HS). right. now rewrite (c_doc _ _ _ _ C _ _ HS). }
        destruct HD as [tau' [Ht' HD]].
        pose proof (c_danger _ _ _ _ C _ _ _ t HD Ht' HT) as Hd. pose proof (c_Dwf _ _ _ _ C _ _ _ HD) as Hwf.
        destruct (seek_danger I t s) as [[|b] s'].
        * destruct Hd as [Hin HR]. rewrite (c_ok _ _ _ _ C _ _ HR), (c_doc _ _ _ _ C _ _ HR). cbn [guard].
          destruct (N.leb_spec DOCSET_TERMINATED t); [lia|].
          rewrite (ds_seek_head_In t l (proj1 Hwf) Hin), N.eqb_refl. apply mem_In in Hin. rewrite Hin in *. cbn [andb negb] in *.
          exact (IH _ _ false t HR HV).
        * destruct Hd as [Hn [Hlt [Hle HD']]]. rewrite (c_Dok _ _ _ _ C _ _ _ HD'). cbn [guard].
          destruct (N.leb_spec DOCSET_TERMINATED t); [lia|].
          assert (Hm : mem t l = false). { destruct (mem t l) eqn:E; [apply mem_In in E; tauto|reflexivity]. }
          rewrite Hm in *. cbn [negb andb] in *.
          destruct (N.ltb_spec t b); [|lia]. destruct (N.leb_spec b (ds_doc (ds_seek t l))); [|lia]. cbn [andb].
          exact (IH _ _ true t HD' HV).
    - destruct HV as [-> ->]. destruct (c_count _ _ _ _ C _ _ HS) as [H1 H2]. destruct (count I s) as [n s']. cbn [fst snd] in *.
      rewrite H2, H1. cbn [guard spec_check negb andb obs_eqb]. now rewrite N.eqb_refl.
  Qed.
End DangerPrograms.
