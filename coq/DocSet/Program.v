(* DocSet/Program.v -- call programs, the observations of an implementation and of the plain list
   docset, and the generic equivalence: an implementation that satisfies the contract of Impl.v is
   observationally the sorted list it represents, for every valid program (C13). *)
From TV Require Import Base.Prelude Generated.Constants DocSet.Spec DocSet.Impl.
Local Open Scope N_scope.

Inductive call :=
| CAdvance | CSeek (t : N) | CFill | CBitset (m : N)
| CCount.   (* count_including_deleted consumes the docset: last call of a program *)

Inductive obs :=
| ODoc (d : N)                          (* doc() after advance / seek *)
| OBuf (b : list N) (d : N)             (* buffer contents, doc() afterwards *)
| OMask (mask : list N) (ret d : N)     (* 16 words, returned doc, doc() afterwards *)
| OCount (n : N)
| OOutOfFuel.

Definition guard (o : bool) (x : obs) (rest : list obs) : list obs := if o then x :: rest else [OOutOfFuel].

Fixpoint run (I : impl) (s : st I) (prog : list call) : list obs :=
  match prog with
  | [] => []
  | CAdvance :: r => let s' := advance I s in guard (ok I s') (ODoc (doc I s')) (run I s' r)
  | CSeek t :: r => let s' := seek I t s in guard (ok I s') (ODoc (doc I s')) (run I s' r)
  | CFill :: r => let '(b, s') := fill_buffer I s in guard (ok I s') (OBuf b (doc I s')) (run I s' r)
  | CBitset m :: r => let '((mk, ret), s') := fill_bitset I m s in guard (ok I s') (OMask mk ret (doc I s')) (run I s' r)
  | CCount :: _ => let '(n, s') := count I s in guard (ok I s') (OCount n) []
  end.

Fixpoint spec_run (l : list N) (prog : list call) : list obs :=
  match prog with
  | [] => []
  | CAdvance :: r => let l' := ds_advance l in ODoc (ds_doc l') :: spec_run l' r
  | CSeek t :: r => let l' := ds_seek t l in ODoc (ds_doc l') :: spec_run l' r
  | CFill :: r => let '(b, l') := ds_fill_buffer l in OBuf b (ds_doc l') :: spec_run l' r
  | CBitset m :: r => let '(ms, l') := ds_fill_bitset m l in OMask (mask_of m ms) (ds_doc l') (ds_doc l') :: spec_run l' r
  | CCount :: _ => [OCount (ds_count l)]
  end.

(* the contract of the trait on the caller's side *)
Fixpoint valid_prog (l : list N) (prog : list call) : Prop :=
  match prog with
  | [] => True
  | CAdvance :: r => valid_prog (ds_advance l) r
  | CSeek t :: r => ds_doc l <= t /\ t <= DOCSET_TERMINATED /\ valid_prog (ds_seek t l) r
  | CFill :: r => valid_prog (snd (ds_fill_buffer l)) r
  | CBitset m :: r => ds_doc l <= m /\ m + BLOCK_WINDOW <= DOCSET_TERMINATED /\ valid_prog (snd (ds_fill_bitset m l)) r
  | CCount :: r => r = []
  end.

Fixpoint valid_progb (l : list N) (prog : list call) : bool :=
  match prog with
  | [] => true
  | CAdvance :: r => valid_progb (ds_advance l) r
  | CSeek t :: r => N.leb (ds_doc l) t && N.leb t DOCSET_TERMINATED && valid_progb (ds_seek t l) r
  | CFill :: r => valid_progb (snd (ds_fill_buffer l)) r
  | CBitset m :: r => N.leb (ds_doc l) m && N.leb (m + BLOCK_WINDOW) DOCSET_TERMINATED && valid_progb (snd (ds_fill_bitset m l)) r
  | CCount :: r => match r with [] => true | _ => false end
  end.

Lemma valid_progb_spec l prog : valid_progb l prog = true -> valid_prog l prog.
Proof.
  revert l. induction prog as [|c r IH]; intros l; [exact (fun _ => I)|].
  destruct c; cbn [valid_progb valid_prog]; rewrite ?andb_true_iff, ?N.leb_le; try (intros H; repeat split; try apply IH; tauto).
  destruct r; [reflexivity|discriminate].
Qed.

Section Equiv.
  Variables (I : impl) (strong : bool) (R : st I -> list N -> Prop) (D : st I -> N -> list N -> Prop).
  Hypothesis C : contract I strong R D.

  Theorem program_equivalence : forall prog s l, R s l -> valid_prog l prog -> run I s prog = spec_run l prog.
  Proof.
    induction prog as [|c r IH]; intros s l HR HV; [reflexivity|].
    destruct c; cbn [run spec_run valid_prog] in *.
    - pose proof (c_advance _ _ _ _ C _ _ HR) as HA.
      rewrite (c_ok _ _ _ _ C _ _ HA), (c_doc _ _ _ _ C _ _ HA). cbn [guard]. f_equal. now apply IH.
    - destruct HV as [H1 [H2 H3]]. rewrite <- (c_doc _ _ _ _ C _ _ HR) in H1.
      pose proof (c_seek _ _ _ _ C _ _ t HR H1 H2) as HA.
      rewrite (c_ok _ _ _ _ C _ _ HA), (c_doc _ _ _ _ C _ _ HA). cbn [guard]. f_equal. now apply IH.
    - destruct (c_fill_buffer _ _ _ _ C _ _ HR) as [H1 H2].
      destruct (fill_buffer I s) as [b s']. destruct (ds_fill_buffer l) as [b' l']. cbn [fst snd] in *. subst b'.
      rewrite (c_ok _ _ _ _ C _ _ H2), (c_doc _ _ _ _ C _ _ H2). cbn [guard]. f_equal. now apply IH.
    - destruct HV as [H1 [H2 H3]]. rewrite <- (c_doc _ _ _ _ C _ _ HR) in H1.
      destruct (c_fill_bitset _ _ _ _ C _ _ m HR H1 H2) as [H4 H5].
      destruct (fill_bitset I m s) as [[mk ret] s']. destruct (ds_fill_bitset m l) as [ms l']. cbn [fst snd] in *.
      injection H4 as -> ->.
      rewrite (c_ok _ _ _ _ C _ _ H5), (c_doc _ _ _ _ C _ _ H5). cbn [guard]. f_equal. now apply IH.
    - destruct (c_count _ _ _ _ C _ _ HR) as [H1 H2]. destruct (count I s) as [n s']. cbn [fst snd] in *.
      rewrite H2, H1. reflexivity.
  Qed.
End Equiv.

(* ---------- once the end is reached every further call keeps reporting the end ---------- *)
Definition obs_terminated (o : obs) : Prop :=
  match o with
  | ODoc d => d = DOCSET_TERMINATED
  | OBuf b d => b = [] /\ d = DOCSET_TERMINATED
  | OMask mk ret d => mk = empty_mask /\ ret = DOCSET_TERMINATED /\ d = DOCSET_TERMINATED
  | OCount n => n = 0
  | OOutOfFuel => False
  end.

Lemma spec_terminated_sticky prog : Forall obs_terminated (spec_run [] prog).
Proof.
  induction prog as [|c r IH]; [constructor|]. destruct c; cbn [spec_run ds_advance tl ds_seek ds_doc].
  - constructor; [reflexivity|exact IH].
  - constructor; [reflexivity|exact IH].
  - unfold ds_fill_buffer. rewrite firstn_nil, skipn_nil. constructor; [split; reflexivity|exact IH].
  - unfold ds_fill_bitset. cbn [ds_seek filter ds_doc]. constructor; [repeat split|exact IH].
  - constructor; [reflexivity|constructor].
Qed.

Lemma ds_doc_T_nil l : wf_docs l -> ds_doc l = DOCSET_TERMINATED -> l = [].
Proof. destruct l; [reflexivity|]. intros H E. apply wf_docs_cons in H. cbn in E. lia. Qed.

Theorem terminated_sticky (I : impl) strong R D (C : contract I strong R D) :
  forall prog s l, R s l -> doc I s = DOCSET_TERMINATED -> valid_prog l prog -> Forall obs_terminated (run I s prog).
Proof.
  intros prog s l HR Hd HV. rewrite (program_equivalence I strong R D C prog s l HR HV).
  rewrite (c_doc _ _ _ _ C _ _ HR) in Hd. apply ds_doc_T_nil in Hd; [|eapply c_wf; eassumption].
  subst l. apply spec_terminated_sticky.
Qed.

(* the sequence enumerated by plain advance is strictly increasing and is the represented list *)
Fixpoint advance_walk (I : impl) (fuel : nat) (s : st I) : list N :=
  match fuel with
  | O => []
  | S f => if N.eqb (doc I s) DOCSET_TERMINATED then [] else doc I s :: advance_walk I f (advance I s)
  end.

Theorem advance_walk_is_list (I : impl) strong R D (C : contract I strong R D) :
  forall s l, R s l -> advance_walk I (S (length l)) s = l.
Proof.
  intros s l. revert s. induction l as [|d r IH]; intros s HR.
  - cbn [advance_walk length]. rewrite (c_doc _ _ _ _ C _ _ HR). cbn [ds_doc]. now rewrite N.eqb_refl.
  - cbn [advance_walk length]. rewrite (c_doc _ _ _ _ C _ _ HR). cbn [ds_doc].
    pose proof (c_wf _ _ _ _ C _ _ HR) as Hwf. apply wf_docs_cons in Hwf.
    destruct (N.eqb_spec d DOCSET_TERMINATED); [lia|]. f_equal. apply IH. exact (c_advance _ _ _ _ C _ _ HR).
Qed.
