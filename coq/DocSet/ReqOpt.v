(* DocSet/ReqOpt.v -- src/query/reqopt_scorer.rs: RequiredOptionalScorer. As a DocSet it is the
   required scorer (advance / seek / seek_danger / doc delegate to it; the optional scorer is only
   moved by score()); fill_buffer, fill_bitset_block and count are the trait defaults. *)
From TV Require Import Base.Prelude Generated.Constants DocSet.Spec DocSet.Impl.
Local Open Scope N_scope.

Section ReqOpt.
  Variables A B : impl.
  Record rostate := { ro_req : st A; ro_opt : st B; ro_oof : bool }.
  Definition ro_doc (s : rostate) := doc A (ro_req s).
  Definition ro_advance (s : rostate) := {| ro_req := advance A (ro_req s); ro_opt := ro_opt s; ro_oof := ro_oof s |}.
  Definition ro_seek (t : N) (s : rostate) := {| ro_req := seek A t (ro_req s); ro_opt := ro_opt s; ro_oof := ro_oof s |}.
  Definition ro_seek_danger (t : N) (s : rostate) : sd_result * rostate :=
    let '(r, q) := seek_danger A t (ro_req s) in (r, {| ro_req := q; ro_opt := ro_opt s; ro_oof := ro_oof s |}).
  Definition ro_size (s : rostate) := size A (ro_req s).
  Definition ro_set_oof (s : rostate) := {| ro_req := ro_req s; ro_opt := ro_opt s; ro_oof := true |}.
  Definition ro_ok (s : rostate) := negb (ro_oof s) && ok A (ro_req s).
  (* score(): if opt.doc() <= doc && opt.seek(doc) == doc { combine } -- moves the optional scorer only *)
  Definition ro_score_touch (s : rostate) : rostate :=
    let d := ro_doc s in
    if N.leb (doc B (ro_opt s)) d then {| ro_req := ro_req s; ro_opt := seek B d (ro_opt s); ro_oof := ro_oof s |} else s.

  Definition reqopt_impl : impl := {|
    st := rostate; doc := ro_doc; advance := ro_advance; seek := ro_seek; seek_danger := ro_seek_danger;
    fill_buffer := default_fill_buffer ro_doc ro_advance;
    fill_bitset := default_fill_bitset ro_doc ro_advance ro_size ro_set_oof ro_seek;
    count := default_count ro_doc ro_advance ro_size ro_set_oof;
    size := ro_size; ok := ro_ok |}.
  Definition ro_new (a : st A) (b : st B) : rostate := {| ro_req := a; ro_opt := b; ro_oof := false |}.
End ReqOpt.

(* ---------- RequiredOptionalScorer represents the required scorer's list ---------- *)
Section ReqOptOk.
  Variables (A B : impl) (strong : bool).
  Variables (RA : st A -> list N -> Prop) (DA : st A -> N -> list N -> Prop).
  Hypothesis CA : contract A strong RA DA.

  Definition R_ro (s : rostate A B) (l : list N) : Prop := ro_oof A B s = false /\ RA (ro_req A B s) l.
  Definition D_ro (s : rostate A B) (tau : N) (l : list N) : Prop := ro_oof A B s = false /\ DA (ro_req A B s) tau l.

  Let H_wf : forall s l, R_ro s l -> wf_docs l.
  Proof. intros s l [_ H]. exact (c_wf _ _ _ _ CA _ _ H). Qed.
  Let H_size : forall s l, R_ro s l -> (length l <= ro_size A B s)%nat.
  Proof. intros s l [_ H]. exact (c_size _ _ _ _ CA _ _ H). Qed.
  Let H_doc : forall s l, R_ro s l -> ro_doc A B s = ds_doc l.
  Proof. intros s l [_ H]. exact (c_doc _ _ _ _ CA _ _ H). Qed.
  Let H_adv : forall s l, R_ro s l -> R_ro (ro_advance A B s) (ds_advance l).
  Proof. intros s l [H0 H]. split; [exact H0|exact (c_advance _ _ _ _ CA _ _ H)]. Qed.
  Let H_seek : forall t s l, t <= DOCSET_TERMINATED -> R_ro s l -> ro_doc A B s <= t -> R_ro (ro_seek A B t s) (ds_seek t l).
  Proof. intros t s l Ht [H0 H] Hd. split; [exact H0|exact (c_seek _ _ _ _ CA _ _ _ H Hd Ht)]. Qed.
  Let H_ok : forall s l, R_ro s l -> ro_ok A B s = true.
  Proof. intros s l [H0 H]. unfold ro_ok. rewrite H0, (c_ok _ _ _ _ CA _ _ H). reflexivity. Qed.

  Theorem reqopt_contract : contract (reqopt_impl A B) strong R_ro D_ro.
  Proof.
    constructor; cbn [st doc advance seek seek_danger fill_buffer fill_bitset count size ok reqopt_impl]; try assumption.
    - intros s l t HR Hd Ht. now apply H_seek.
    - intros s l HR. exact (default_fill_buffer_ok (ro_doc A B) (ro_advance A B) (ro_size A B) (ro_set_oof A B) R_ro H_wf H_size H_doc H_adv s l HR).
    - intros s l HR. destruct (default_count_ok (ro_doc A B) (ro_advance A B) (ro_size A B) (ro_set_oof A B) R_ro H_wf H_size H_doc H_adv s l HR) as [H1 H2].
      split; [assumption|]. eapply H_ok; eassumption.
    - intros s l m HR Hd Hm.
      exact (default_fill_bitset_ok (ro_doc A B) (ro_advance A B) (ro_seek A B) (ro_size A B) (ro_set_oof A B) (ro_ok A B) R_ro H_wf H_ok H_size H_doc H_adv H_seek s l m HR Hd Hm).
    - intros s l tau [H0 H] Hs. split; [exact H0|exact (c_RD _ _ _ _ CA _ _ _ H Hs)].
    - intros s tau l [_ H]. exact (c_Dwf _ _ _ _ CA _ _ _ H).
    - intros s tau l [H0 H]. unfold ro_ok. rewrite H0, (c_Dok _ _ _ _ CA _ _ _ H). reflexivity.
    - intros s tau tau' l [H0 H] Ht. split; [exact H0|exact (c_Dmono _ _ _ _ CA _ _ _ _ H Ht)].
    - intros s tau l [_ H]. exact (c_Ddoc _ _ _ _ CA _ _ _ H).
    - intros s tau l [H0 H]. split; [exact H0|exact (c_Dterm _ _ _ _ CA _ _ _ H)].
    - intros s tau l t [H0 H] Ht HT. unfold ro_seek_danger.
      pose proof (c_danger _ _ _ _ CA _ _ _ _ H Ht HT) as Hd.
      destruct (seek_danger A t (ro_req A B s)) as [[|b] q]; cbn [ro_oof ro_req]; unfold R_ro, D_ro; cbn [ro_oof ro_req]; tauto.
    - intros s l t [H0 H] Ht. unfold ro_seek_danger.
      destruct (c_danger_below _ _ _ _ CA _ _ _ H Ht) as [b [Hb HR]].
      destruct (seek_danger A t (ro_req A B s)) as [r q]. cbn [fst snd] in *. exists b. split; [assumption|].
      split; [exact H0|exact HR].
    - intros s tau l t [H0 H] Ht. unfold ro_seek_danger.
      destruct (c_danger_T _ _ _ _ CA _ _ _ _ H Ht) as [b [Hb [HT HD]]].
      destruct (seek_danger A t (ro_req A B s)) as [r q]. cbn [fst snd] in *. exists b. repeat split; assumption.
  Qed.

  Theorem reqopt_new_repr a b l : RA a l -> R_ro (ro_new A B a b) l.
  Proof. intros H. split; [reflexivity|exact H]. Qed.
End ReqOptOk.
