(* DocSet/Spec.v -- list semantics of a DocSet (src/docset.rs, trait DocSet).
   A docset IS a strictly increasing list of doc ids, all below DOCSET_TERMINATED, of which a suffix
   remains ("the cursor").  Every operation of the trait is a function on the remaining list.
   The set operations at the end are the meaning of the query combinators (C13, C03).
   Stable interface: do not rename. *)
From TV Require Import Base.Prelude Generated.Constants.
Local Open Scope N_scope.

Definition docid := N.

(* ---------- strictly increasing lists ---------- *)
Fixpoint ssorted (l : list N) : Prop :=
  match l with [] => True | x :: r => Forall (fun y => x < y) r /\ ssorted r end.

Fixpoint ssortedb (l : list N) : bool :=
  match l with
  | [] => true
  | x :: r => match r with [] => true | y :: _ => N.ltb x y end && ssortedb r
  end.

Definition wf_docs (l : list N) : Prop := ssorted l /\ Forall (fun d => d < DOCSET_TERMINATED) l.
Definition wf_docsb (l : list N) : bool := ssortedb l && forallb (fun d => N.ltb d DOCSET_TERMINATED) l.

(* ---------- the trait operations on the remaining list ---------- *)
Definition ds_doc (l : list N) : N := match l with [] => DOCSET_TERMINATED | d :: _ => d end.
Definition ds_advance (l : list N) : list N := tl l.
Fixpoint ds_seek (t : N) (l : list N) : list N :=
  match l with [] => [] | d :: r => if N.ltb d t then ds_seek t r else l end.
Definition BUFFER_LEN : nat := N.to_nat COLLECT_BLOCK_BUFFER_LEN.
Definition ds_fill_buffer (l : list N) : list N * list N := (firstn BUFFER_LEN l, skipn BUFFER_LEN l).
Definition ds_count (l : list N) : N := N.of_nat (length l).
(* members of [m, m + BLOCK_WINDOW) and what remains afterwards *)
Definition ds_fill_bitset (m : N) (l : list N) : list N * list N :=
  (filter (fun d => N.ltb d (m + BLOCK_WINDOW)) (ds_seek m l), ds_seek (m + BLOCK_WINDOW) l).

(* ---------- set operations on sorted lists (meaning of the combinators) ---------- *)
Definition mem (d : N) (l : list N) : bool := existsb (N.eqb d) l.

Fixpoint insert_u (x : N) (l : list N) : list N :=
  match l with
  | [] => [x]
  | y :: r => if N.ltb x y then x :: l else if N.eqb x y then l else y :: insert_u x r
  end.
Definition union2 (a b : list N) : list N := fold_right insert_u b a.

Definition sem_union (ls : list (list N)) : list N := fold_right union2 [] ls.
Definition sem_inter (ls : list (list N)) : list N :=
  match ls with [] => [] | a :: r => filter (fun d => forallb (mem d) r) a end.
Definition sem_exclude (a : list N) (exs : list (list N)) : list N :=
  filter (fun d => negb (existsb (mem d) exs)) a.
Definition count_mem (d : N) (ls : list (list N)) : nat := length (filter (mem d) ls).
Definition sem_disj (k : nat) (ls : list (list N)) : list N :=
  filter (fun d => Nat.leb k (count_mem d ls)) (sem_union ls).

(* ---------- basic facts ---------- *)
Lemma mem_In d l : mem d l = true <-> In d l.
Proof.
  unfold mem. rewrite existsb_exists. split.
  - intros [x [Hx He]]. apply N.eqb_eq in He. now subst.
  - intros H. exists d. split; [assumption|apply N.eqb_refl].
Qed.

Lemma ssortedb_spec l : ssortedb l = true <-> ssorted l.
Proof.
  induction l as [|x r IH]; cbn [ssortedb ssorted]; [tauto|].
  rewrite andb_true_iff, IH. split.
  - intros [H1 H2]. split; [|assumption]. destruct r as [|y r']; [constructor|].
    apply N.ltb_lt in H1. destruct H2 as [Hy _]. constructor; [assumption|].
    eapply Forall_impl; [|exact Hy]. cbn. intros; lia.
  - intros [H1 H2]. split; [|assumption]. destruct r as [|y r']; [reflexivity|].
    inversion H1; subst. now apply N.ltb_lt.
Qed.

Lemma wf_docsb_spec l : wf_docsb l = true <-> wf_docs l.
Proof.
  unfold wf_docsb, wf_docs. rewrite andb_true_iff, ssortedb_spec, forallb_forall, Forall_forall.
  split; intros [H1 H2]; (split; [assumption|]); intros x Hx; specialize (H2 x Hx); now apply N.ltb_lt.
Qed.

Lemma ssorted_tl l : ssorted l -> ssorted (tl l).
Proof. destruct l; cbn; tauto. Qed.

Lemma wf_docs_tl l : wf_docs l -> wf_docs (tl l).
Proof.
  intros [H1 H2]. split; [now apply ssorted_tl|]. destruct l; [assumption|]. now inversion H2.
Qed.

Lemma wf_docs_cons d l : wf_docs (d :: l) -> d < DOCSET_TERMINATED /\ Forall (fun y => d < y) l /\ wf_docs l.
Proof. intros [[H1 H2] H3]. inversion H3; subst. repeat split; assumption. Qed.

Lemma ssorted_filter f l : ssorted l -> ssorted (filter f l).
Proof.
  induction l as [|x r IH]; cbn [filter ssorted]; [tauto|]. intros [H1 H2].
  destruct (f x); cbn [ssorted]; [split|]; auto.
  rewrite Forall_forall in *. intros y Hy. apply filter_In in Hy. apply H1, Hy.
Qed.

Lemma wf_docs_filter f l : wf_docs l -> wf_docs (filter f l).
Proof.
  intros [H1 H2]. split; [now apply ssorted_filter|].
  rewrite Forall_forall in *. intros y Hy. apply filter_In in Hy. apply H2, Hy.
Qed.

(* two strictly increasing lists with the same members are equal *)
Lemma ssorted_ext a b : ssorted a -> ssorted b -> (forall d, In d a <-> In d b) -> a = b.
Proof.
  revert b; induction a as [|x a IH]; intros b Ha Hb H.
  - destruct b as [|y b]; [reflexivity|]. exfalso. apply (H y). now left.
  - destruct b as [|y b]; [exfalso; apply (H x); now left|].
    destruct Ha as [Ha1 Ha2], Hb as [Hb1 Hb2]. rewrite Forall_forall in Ha1, Hb1.
    assert (x = y).
    { destruct (proj1 (H x) (or_introl eq_refl)) as [E|E]; [now symmetry|].
      destruct (proj2 (H y) (or_introl eq_refl)) as [E'|E']; [assumption|].
      specialize (Ha1 _ E'). specialize (Hb1 _ E). lia. }
    subst y. f_equal. apply IH; try assumption. intros d. split; intros Hd.
    + destruct (proj1 (H d) (or_intror Hd)) as [E|E]; [|assumption]. subst d. specialize (Ha1 _ Hd). lia.
    + destruct (proj2 (H d) (or_intror Hd)) as [E|E]; [|assumption]. subst d. specialize (Hb1 _ Hd). lia.
Qed.

(* seek *)
Lemma ds_seek_In t l d : ssorted l -> (In d (ds_seek t l) <-> In d l /\ t <= d).
Proof.
  induction l as [|x r IH]; cbn [ds_seek]; [cbn; tauto|]. intros [H1 H2].
  destruct (N.ltb_spec x t) as [Hlt|Hge].
  - rewrite IH by assumption. cbn [In]. split; [tauto|]. intros [[E|Hi] Hd]; [lia|tauto].
  - split; [|tauto]. intros Hd. split; [assumption|]. destruct Hd as [E|Hd]; [lia|].
    rewrite Forall_forall in H1. specialize (H1 _ Hd). lia.
Qed.

Lemma ds_seek_suffix t l : exists p, l = p ++ ds_seek t l /\ Forall (fun d => d < t) p.
Proof.
  induction l as [|x r IH]; cbn [ds_seek]; [exists []; split; [reflexivity|constructor]|].
  destruct (N.ltb_spec x t) as [Hlt|Hge].
  - destruct IH as [p [E F]]. exists (x :: p). split; [cbn; now rewrite <- E|now constructor].
  - exists []. split; [reflexivity|constructor].
Qed.

Lemma ssorted_app_r p l : ssorted (p ++ l) -> ssorted l.
Proof. induction p as [|x p IH]; cbn; [tauto|]. intros [_ H]. now apply IH. Qed.

Lemma wf_docs_app_r p l : wf_docs (p ++ l) -> wf_docs l.
Proof.
  intros [H1 H2]. split; [now apply ssorted_app_r in H1|].
  apply Forall_app in H2. tauto.
Qed.

Lemma wf_docs_seek t l : wf_docs l -> wf_docs (ds_seek t l).
Proof.
  intros H. destruct (ds_seek_suffix t l) as [p [E _]]. rewrite E in H. now apply wf_docs_app_r in H.
Qed.

Lemma ds_seek_head t l : wf_docs l -> t <= ds_doc (ds_seek t l) \/ (DOCSET_TERMINATED < t /\ ds_seek t l = []).
Proof.
  intros H. induction l as [|x r IH]; cbn [ds_seek ds_doc].
  - destruct (N.le_gt_cases t DOCSET_TERMINATED); [left|right]; auto.
  - destruct (N.ltb_spec x t); [apply IH; now apply (wf_docs_tl (x :: r))|left; cbn; assumption].
Qed.

Lemma ds_seek_le t l : ds_doc l >= t -> ds_seek t l = l.
Proof. destruct l as [|x r]; cbn [ds_seek ds_doc]; [reflexivity|]. intros H. destruct (N.ltb_spec x t); [lia|reflexivity]. Qed.

Lemma ds_seek_seek t u l : t <= u -> ds_seek u (ds_seek t l) = ds_seek u l.
Proof.
  intros H. induction l as [|x r IH]; cbn [ds_seek]; [reflexivity|].
  destruct (N.ltb_spec x t) as [H1|H1].
  - destruct (N.ltb_spec x u); [assumption|lia].
  - cbn [ds_seek]. reflexivity.
Qed.

Lemma ds_seek_cons_lt t d l : d < t -> ds_seek t (d :: l) = ds_seek t l.
Proof. intros H. cbn [ds_seek]. destruct (N.ltb_spec d t); [reflexivity|lia]. Qed.

Lemma ds_seek_nil_T l : wf_docs l -> ds_seek DOCSET_TERMINATED l = [].
Proof.
  intros [_ H]. induction l as [|x r IH]; [reflexivity|]. inversion H; subst.
  rewrite ds_seek_cons_lt by assumption. auto.
Qed.

Lemma ds_seek_all_ge t l : Forall (fun d => t <= d) l -> ds_seek t l = l.
Proof. destruct l as [|x r]; [reflexivity|]. intros H. inversion H; subst. cbn [ds_seek]. destruct (N.ltb_spec x t); [lia|reflexivity]. Qed.

Lemma ds_seek_filter f t l : ssorted l -> ds_seek t (filter f l) = filter f (ds_seek t l).
Proof.
  induction l as [|x r IH]; cbn [filter ds_seek]; [reflexivity|]. intros [H1 H2].
  destruct (N.ltb_spec x t) as [Hlt|Hge].
  - destruct (f x); [rewrite ds_seek_cons_lt by assumption|]; auto.
  - apply ds_seek_all_ge. rewrite Forall_forall in *. intros d Hd.
    change (In d (filter f (x :: r))) in Hd. apply filter_In in Hd. destruct Hd as [[E|Hd] _]; [lia|].
    specialize (H1 _ Hd). lia.
Qed.

(* union *)
Lemma insert_u_In x l d : In d (insert_u x l) <-> d = x \/ In d l.
Proof.
  induction l as [|y r IH]; cbn [insert_u]; [cbn; intuition|].
  destruct (N.ltb_spec x y); [cbn; intuition|]. destruct (N.eqb_spec x y).
  - subst. cbn. intuition.
  - cbn [In]. rewrite IH. intuition.
Qed.

Lemma insert_u_sorted x l : ssorted l -> ssorted (insert_u x l).
Proof.
  induction l as [|y r IH]; cbn [insert_u ssorted]; [intros _; split; [constructor|exact I]|].
  intros [H1 H2]. destruct (N.ltb_spec x y) as [Hl|Hl].
  - cbn [ssorted]. repeat split; try assumption. constructor; [assumption|].
    eapply Forall_impl; [|exact H1]. cbn; intros; lia.
  - destruct (N.eqb_spec x y) as [E|E]; [cbn [ssorted]; tauto|]. cbn [ssorted]. split; [|auto].
    rewrite Forall_forall in *. intros d Hd. apply insert_u_In in Hd. destruct Hd as [->|Hd]; [lia|auto].
Qed.

Lemma union2_In a b d : In d (union2 a b) <-> In d a \/ In d b.
Proof.
  unfold union2. induction a as [|x a IH]; cbn [fold_right]; [cbn; tauto|].
  rewrite insert_u_In, IH. cbn. intuition.
Qed.

Lemma union2_sorted a b : ssorted b -> ssorted (union2 a b).
Proof. unfold union2. induction a as [|x a IH]; cbn [fold_right]; [tauto|]. intros H. now apply insert_u_sorted, IH. Qed.

Lemma sem_union_In ls d : In d (sem_union ls) <-> exists l, In l ls /\ In d l.
Proof.
  unfold sem_union. induction ls as [|a r IH]; cbn [fold_right].
  - cbn. split; [tauto|]. intros [l [[] _]].
  - rewrite union2_In, IH. cbn [In]. split.
    + intros [H|[l [H1 H2]]]; [exists a; tauto|exists l; tauto].
    + intros [l [[E|H1] H2]]; [subst; tauto|right; exists l; tauto].
Qed.

Lemma sem_union_sorted ls : ssorted (sem_union ls).
Proof. unfold sem_union. induction ls as [|a r IH]; cbn [fold_right]; [exact I|now apply union2_sorted]. Qed.

Lemma sem_union_wf ls : Forall wf_docs ls -> wf_docs (sem_union ls).
Proof.
  intros H. split; [apply sem_union_sorted|]. rewrite Forall_forall. intros d Hd.
  apply sem_union_In in Hd. destruct Hd as [l [H1 H2]]. rewrite Forall_forall in H.
  destruct (H _ H1) as [_ H3]. rewrite Forall_forall in H3. auto.
Qed.

Lemma sem_inter_In a r d : In d (sem_inter (a :: r)) <-> In d a /\ forall l, In l r -> In d l.
Proof.
  cbn [sem_inter]. rewrite filter_In, forallb_forall. split; intros [H1 H2]; (split; [assumption|]);
    intros l Hl; apply mem_In; auto.
Qed.

Lemma sem_inter_wf a r : wf_docs a -> wf_docs (sem_inter (a :: r)).
Proof. apply wf_docs_filter. Qed.

Lemma sem_exclude_In a exs d : In d (sem_exclude a exs) <-> In d a /\ forall l, In l exs -> ~ In d l.
Proof.
  unfold sem_exclude. rewrite filter_In, negb_true_iff. split; intros [H1 H2]; (split; [assumption|]).
  - intros l Hl Hd. assert (existsb (mem d) exs = true); [|congruence].
    apply existsb_exists. exists l. split; [assumption|now apply mem_In].
  - destruct (existsb (mem d) exs) eqn:E; [|reflexivity]. apply existsb_exists in E.
    destruct E as [l [Hl Hm]]. apply mem_In in Hm. exfalso. eapply H2; eauto.
Qed.

Lemma sem_exclude_wf a exs : wf_docs a -> wf_docs (sem_exclude a exs).
Proof. apply wf_docs_filter. Qed.

Lemma sem_disj_In k ls d : In d (sem_disj k ls) <-> (exists l, In l ls /\ In d l) /\ (k <= count_mem d ls)%nat.
Proof. unfold sem_disj. rewrite filter_In, sem_union_In, Nat.leb_le. tauto. Qed.

Lemma sem_disj_wf k ls : Forall wf_docs ls -> wf_docs (sem_disj k ls).
Proof. intros H. apply wf_docs_filter. now apply sem_union_wf. Qed.

(* a document counted at least once is a member of the union, so for k >= 1 the first conjunct is redundant *)
Lemma sem_disj_In1 k ls d : (1 <= k)%nat -> (In d (sem_disj k ls) <-> (k <= count_mem d ls)%nat).
Proof.
  intros Hk. rewrite sem_disj_In. split; [tauto|]. intros H. split; [|assumption].
  unfold count_mem in H. destruct (filter (mem d) ls) as [|l r] eqn:E; [cbn in H; lia|].
  assert (Hl : In l (filter (mem d) ls)) by (rewrite E; now left).
  apply filter_In in Hl. exists l. split; [tauto|]. apply mem_In; tauto.
Qed.

Lemma ds_seek_head_In t l : ssorted l -> In t l -> ds_doc (ds_seek t l) = t.
Proof.
  induction l as [|x r IH]; [intros _ []|]. intros [H1 H2] Hin. cbn [ds_seek].
  destruct (N.ltb_spec x t) as [Hlt|Hge].
  - destruct Hin as [E|Hin]; [lia|auto].
  - cbn [ds_doc]. destruct Hin as [E|Hin]; [assumption|]. rewrite Forall_forall in H1. specialize (H1 _ Hin). lia.
Qed.

Lemma ds_doc_In l : ds_doc l < DOCSET_TERMINATED -> In (ds_doc l) l.
Proof. destruct l; cbn [ds_doc]; [lia|now left]. Qed.

Lemma ds_doc_le_T l : wf_docs l -> ds_doc l <= DOCSET_TERMINATED.
Proof. destruct l; cbn [ds_doc]; [lia|]. intros H. apply wf_docs_cons in H. lia. Qed.

Lemma ds_seek_In_sub t l d : In d (ds_seek t l) -> In d l.
Proof. destruct (ds_seek_suffix t l) as [p [E _]]. intros H. rewrite E. apply in_or_app. now right. Qed.

Lemma ds_doc_tl_ge l : wf_docs l -> ds_doc l <= ds_doc (tl l).
Proof.
  destruct l as [|d r]; [cbn; lia|]. intros H. apply wf_docs_cons in H. destruct H as [HT [Hall Hr]].
  cbn [tl ds_doc]. destruct r as [|d' r']; [cbn; lia|]. inversion Hall; subst. cbn. lia.
Qed.

Lemma ds_doc_seek_ge t l : wf_docs l -> ds_doc l <= ds_doc (ds_seek t l).
Proof.
  induction l as [|d r IH]; [cbn; lia|]. intros H. cbn [ds_seek]. destruct (N.ltb_spec d t); [|lia].
  pose proof (ds_doc_tl_ge _ H) as H1. cbn [tl] in H1. specialize (IH (wf_docs_tl _ H)). cbn [tl] in IH. lia.
Qed.

Lemma sem_exclude_cons d r exs :
  sem_exclude (d :: r) exs = if existsb (mem d) exs then sem_exclude r exs else d :: sem_exclude r exs.
Proof. unfold sem_exclude. cbn [filter]. destruct (existsb (mem d) exs); reflexivity. Qed.
