(* DocSet/Probe.v -- which callers ask a child `seek_danger(target)` with target < child.doc() ?
   The trait's documentation of seek_danger states no such precondition (the default implementation handles it:
   `if doc < target { seek }`), but PhraseScorer::seek_danger carries `debug_assert!(target >= self.doc())`.
   A probe wrapper counts, in the MODELS of the real callers, the seek_danger calls made with a target below the
   child's current document.  Exclude::contains and the out-of-horizon loop of BufferedUnionScorer::seek_danger make
   such calls by design (witnesses below); this is why the contract of Impl.v has the clause c_danger_below, which every
   implementation must meet, rather than a caller-side precondition. *)
From TV Require Import Base.Prelude Generated.Constants DocSet.Spec DocSet.Impl DocSet.Program
  DocSet.Exclude DocSet.Sum DocSet.Intersect DocSet.Union.
Local Open Scope N_scope.

Section Probe.
  Variable I : impl.
  Definition pr_st : Type := (st I * nat)%type.
  Definition probe_impl : impl := {|
    st := pr_st;
    doc := fun s => doc I (fst s);
    advance := fun s => (advance I (fst s), snd s);
    seek := fun t s => (seek I t (fst s), snd s);
    seek_danger := fun t s =>
      let n := if N.ltb t DOCSET_TERMINATED && N.ltb t (doc I (fst s)) then S (snd s) else snd s in
      let '(r, s') := seek_danger I t (fst s) in (r, (s', n));
    fill_buffer := fun s => let '(b, s') := fill_buffer I (fst s) in (b, (s', snd s));
    fill_bitset := fun m s => let '(r, s') := fill_bitset I m (fst s) in (r, (s', snd s));
    count := fun s => let '(n, s') := count I (fst s) in (n, (s', snd s));
    size := fun s => size I (fst s);
    ok := fun s => ok I (fst s) |}.
End Probe.

Definition PL := probe_impl vec_impl.                      (* probed leaf *)
Definition pleaf (l : list N) : st PL := (vec_of l, O).
Definition below_calls (ds : list (st PL)) : nat := fold_right (fun s n => (snd s + n)%nat) O ds.

(* Exclude::new(underlying = [5; 9], exclusion = [7]): contains(5) asks the exclusion docset, which sits on 7 *)
Theorem exclude_asks_below_doc :
  below_calls (x_exc PL PL (x_new PL PL (pleaf [5; 9]) [pleaf [7]])) = 1%nat.
Proof. vm_compute. reflexivity. Qed.

(* `+a +(x y)`: the intersection asks the union seek_danger(6000) outside its window; the union asks its children,
   which sit on 9000 and 20000 *)
Definition PU := union_impl PL.
Definition PIU := sum_impl PL PU.
Definition piu_state : istate PIU :=
  i_new PIU (inl (pleaf [1; 6000; 9000])) (inr (u_build PL [pleaf [1; 9000]; pleaf [1; 20000]])) [] false.
Definition piu_below (s : istate PIU) : nat :=
  match i_right PIU s with inr u => below_calls (u_docsets PL u) | inl _ => O end.
Theorem union_asks_children_below_doc :
  piu_below piu_state = 0%nat /\ (1 <= piu_below (advance (inter_impl PIU) piu_state))%nat /\
  doc (inter_impl PIU) (advance (inter_impl PIU) piu_state) = 9000.
Proof. vm_compute. repeat split; try reflexivity; repeat constructor. Qed.
(* (the child that was Found on 9000 is drained and removed by the refill; the surviving child carries its count) *)

(* an intersection of leaves on a sample of calls: the leap-frog never asks a child below its document *)
Definition pi_state : istate PL := i_new PL (pleaf [1; 5; 9; 4200; 9000]) (pleaf [1; 2; 9; 4100; 4200; 9000]) [pleaf [1; 9; 10; 9000; 9001]] false.
Definition pi_below (s : istate PL) : nat := below_calls (all_of PL s).
Example intersection_sample_never_below :
  pi_below (advance (inter_impl PL) pi_state) = 0%nat /\
  pi_below (advance (inter_impl PL) (advance (inter_impl PL) pi_state)) = 0%nat /\
  pi_below (seek (inter_impl PL) 4100 pi_state) = 0%nat /\
  pi_below (snd (seek_danger (inter_impl PL) 10 (advance (inter_impl PL) pi_state))) = 0%nat.
Proof. vm_compute. repeat split; reflexivity. Qed.
