(* DocSet/SimpleUnion.v -- src/query/union/simple_union.rs: SimpleUnion (no horizon; used by RegexPhraseQuery, whose
   PhraseScorer moves it with seek and then reads term_freq / positions through `impl Postings for SimpleUnion`).
   DocSet part: doc = min of the children's docs; advance_to_next advances every child sitting on the current doc;
   seek re-seeks every child below the target.  The Postings part only consults the children whose doc() equals the
   union's doc: it is right exactly when every child that CONTAINS the current document is positioned on it --
   theorem su_aligned below, for any children meeting the contract. *)
From TV Require Import Base.Prelude Generated.Constants DocSet.Spec DocSet.Impl.
Local Open Scope N_scope.

Section SimpleUnion.
  Variable C : impl.
  Record sustate := { su_docsets : list (st C); su_doc : N; su_oof : bool }.

  (* next_doc = TERMINATED; for docset in docsets { next_doc = next_doc.min(docset.doc()) } *)
  Definition min_docs (ds : list (st C)) : N := fold_right (fun c m => N.min (doc C c) m) DOCSET_TERMINATED ds.
  (* build: docsets.retain(|d| d.doc() != TERMINATED); initialize_first_doc_id *)
  Definition su_build (ds : list (st C)) : sustate :=
    let ds' := filter (fun c => negb (N.eqb (doc C c) DOCSET_TERMINATED)) ds in
    {| su_docsets := ds'; su_doc := min_docs ds'; su_oof := false |}.
  (* advance_to_next: if docset.doc() <= self.doc { docset.advance(); } next_doc = next_doc.min(docset.doc()) *)
  Definition adv_child (d : N) (c : st C) : st C := if N.leb (doc C c) d then advance C c else c.
  Definition su_advance (s : sustate) : sustate :=
    let ds' := map (adv_child (su_doc s)) (su_docsets s) in
    {| su_docsets := ds'; su_doc := min_docs ds'; su_oof := su_oof s |}.
  (* seek: self.doc = TERMINATED; for docset { if docset.doc() < target { docset.seek(target); }
                                               if docset.doc() < self.doc { self.doc = docset.doc(); } } *)
  Definition seek_child (t : N) (c : st C) : st C := if N.ltb (doc C c) t then seek C t c else c.
  Definition su_seek (t : N) (s : sustate) : sustate :=
    let ds' := map (seek_child t) (su_docsets s) in
    {| su_docsets := ds'; su_doc := min_docs ds'; su_oof := su_oof s |}.
  Definition su_size (s : sustate) : nat := fold_right (fun c n => (size C c + n)%nat) O (su_docsets s).
  Definition su_set_oof (s : sustate) : sustate := {| su_docsets := su_docsets s; su_doc := su_doc s; su_oof := true |}.
  Definition su_ok (s : sustate) : bool := negb (su_oof s) && forallb (ok C) (su_docsets s).
  (* impl Postings: term_freq / append_positions_with_offset read `docset` iff docset.doc() == self.doc *)
  Definition su_contributors (s : sustate) : list (st C) := filter (fun c => N.eqb (doc C c) (su_doc s)) (su_docsets s).

  (* seek is overridden; count_including_deleted is overridden by the same loop as the default one (advance_to_next
     until TERMINATED); the rest is the trait default *)
  Definition simple_union_impl : impl := mk_seek_impl su_doc su_advance su_seek su_size su_set_oof su_ok.
End SimpleUnion.

(* ---------- facts about sorted lists used below ---------- *)
Definition min_heads (lcs : list (list N)) : N := fold_right (fun l m => N.min (ds_doc l) m) DOCSET_TERMINATED lcs.

Lemma min_heads_le lcs lc : In lc lcs -> min_heads lcs <= ds_doc lc.
Proof. induction lcs as [|a r IH]; [intros []|]. intros [->|H]; cbn [min_heads fold_right]; [lia|]. specialize (IH H). unfold min_heads in IH. lia. Qed.
Lemma min_heads_le_T lcs : min_heads lcs <= DOCSET_TERMINATED.
Proof. induction lcs as [|a r IH]; cbn [min_heads fold_right]; [lia|]. unfold min_heads in IH. lia. Qed.
Lemma min_heads_witness lcs : min_heads lcs = DOCSET_TERMINATED \/ exists lc, In lc lcs /\ ds_doc lc = min_heads lcs.
Proof.
  induction lcs as [|a r IH]; [now left|]. cbn [min_heads fold_right]. fold (min_heads r).
  destruct (N.le_gt_cases (ds_doc a) (min_heads r)) as [H|H].
  - right. exists a. split; [now left|lia].
  - destruct IH as [E|[lc [H1 H2]]]; [pose proof (min_heads_le_T r); left; lia|]. right. exists lc. split; [now right|lia].
Qed.

Lemma ds_doc_least l m : wf_docs l -> In m l -> (forall x, In x l -> m <= x) -> ds_doc l = m.
Proof.
  destruct l as [|h r]; [intros _ []|]. intros Hwf Hin Hle. cbn [ds_doc].
  pose proof (Hle h (or_introl eq_refl)). destruct Hin as [E|Hin]; [assumption|].
  destruct Hwf as [[Hall _] _]. rewrite Forall_forall in Hall. specialize (Hall _ Hin). lia.
Qed.
Lemma ds_doc_ge_head l x : wf_docs l -> In x l -> ds_doc l <= x.
Proof.
  destruct l as [|h r]; [intros _ []|]. intros [[Hall _] _] [E|Hin]; cbn [ds_doc]; [lia|].
  rewrite Forall_forall in Hall. specialize (Hall _ Hin). lia.
Qed.
Lemma tl_In l x : wf_docs l -> (In x (tl l) <-> In x l /\ ds_doc l < x).
Proof.
  destruct l as [|h r]; [cbn; tauto|]. intros [[Hall _] _]. cbn [tl ds_doc In]. rewrite Forall_forall in Hall. split.
  - intros H. specialize (Hall _ H). split; [now right|assumption].
  - intros [[E|H] Hlt]; [lia|assumption].
Qed.

Lemma sem_union_head lcs : Forall wf_docs lcs -> ds_doc (sem_union lcs) = min_heads lcs.
Proof.
  intros Hwf. pose proof (sem_union_wf lcs Hwf) as HU. rewrite Forall_forall in Hwf.
  destruct (min_heads_witness lcs) as [E|[lc [Hin E]]].
  - rewrite E. destruct (sem_union lcs) as [|x u] eqn:EU; [reflexivity|]. exfalso.
    assert (Hx : In x (sem_union lcs)) by (rewrite EU; now left). apply sem_union_In in Hx. destruct Hx as [l [Hl Hx]].
    pose proof (min_heads_le lcs l Hl). pose proof (ds_doc_ge_head l x (Hwf _ Hl) Hx).
    destruct (Hwf _ Hl) as [_ HT]. rewrite Forall_forall in HT. specialize (HT _ Hx). lia.
  - destruct (N.eq_dec (min_heads lcs) DOCSET_TERMINATED) as [ET|NT].
    + rewrite ET. destruct (sem_union lcs) as [|x u] eqn:EU; [reflexivity|]. exfalso.
      assert (Hx : In x (sem_union lcs)) by (rewrite EU; now left). apply sem_union_In in Hx. destruct Hx as [l [Hl Hx]].
      pose proof (min_heads_le lcs l Hl). pose proof (ds_doc_ge_head l x (Hwf _ Hl) Hx).
      destruct (Hwf _ Hl) as [_ HT]. rewrite Forall_forall in HT. specialize (HT _ Hx). lia.
    + apply ds_doc_least; [assumption| |].
      * apply sem_union_In. exists lc. split; [assumption|]. rewrite <- E. apply ds_doc_In.
        pose proof (min_heads_le_T lcs). lia.
      * intros x Hx. apply sem_union_In in Hx. destruct Hx as [l [Hl Hx]].
        pose proof (min_heads_le lcs l Hl). pose proof (ds_doc_ge_head l x (Hwf _ Hl) Hx). lia.
Qed.

Lemma sem_union_seek t lcs : Forall wf_docs lcs -> sem_union (map (ds_seek t) lcs) = ds_seek t (sem_union lcs).
Proof.
  intros Hwf. pose proof (sem_union_wf lcs Hwf) as HU. apply ssorted_ext; [apply sem_union_sorted|apply wf_docs_seek, HU|].
  intros d. rewrite ds_seek_In by apply HU. rewrite !sem_union_In. rewrite Forall_forall in Hwf. split.
  - intros [l' [Hl' Hd]]. apply in_map_iff in Hl'. destruct Hl' as [l [<- Hl]]. apply ds_seek_In in Hd; [|apply (Hwf _ Hl)].
    split; [exists l; tauto|tauto].
  - intros [[l [Hl Hd]] Ht]. exists (ds_seek t l). split; [now apply in_map|]. apply ds_seek_In; [apply (Hwf _ Hl)|tauto].
Qed.

Definition drop_head (d : N) (l : list N) : list N := if N.leb (ds_doc l) d then tl l else l.
Lemma sem_union_advance lcs : Forall wf_docs lcs ->
  sem_union (map (drop_head (min_heads lcs)) lcs) = ds_advance (sem_union lcs).
Proof.
  intros Hwf. pose proof (sem_union_wf lcs Hwf) as HU. pose proof (sem_union_head lcs Hwf) as HH.
  apply ssorted_ext; [apply sem_union_sorted|apply ssorted_tl, HU|].
  intros d. unfold ds_advance. rewrite tl_In by assumption. rewrite HH, !sem_union_In. rewrite Forall_forall in Hwf.
  assert (Hdrop : forall l, In l lcs -> (In d (drop_head (min_heads lcs) l) <-> In d l /\ min_heads lcs < d)).
  { intros l Hl. pose proof (min_heads_le lcs l Hl) as Hle. unfold drop_head. destruct (N.leb_spec (ds_doc l) (min_heads lcs)) as [H|H].
    - rewrite tl_In by apply (Hwf _ Hl). replace (ds_doc l) with (min_heads lcs) by lia. tauto.
    - split; [|tauto]. intros Hd. split; [assumption|]. pose proof (ds_doc_ge_head l d (Hwf _ Hl) Hd). lia. }
  split.
  - intros [l' [Hl' Hd]]. apply in_map_iff in Hl'. destruct Hl' as [l [<- Hl]]. apply (Hdrop l Hl) in Hd. split; [exists l; tauto|tauto].
  - intros [[l [Hl Hd]] Hlt]. exists (drop_head (min_heads lcs) l). split; [now apply in_map|]. apply (Hdrop l Hl). tauto.
Qed.

Fixpoint sum_len (lcs : list (list N)) : nat := match lcs with [] => O | l :: r => (length l + sum_len r)%nat end.
Lemma insert_u_len x l : (length (insert_u x l) <= S (length l))%nat.
Proof. induction l as [|y r IH]; cbn [insert_u length]; [lia|]. destruct (N.ltb x y); [cbn [length]; lia|]. destruct (N.eqb x y); cbn [length]; lia. Qed.
Lemma union2_len a b : (length (union2 a b) <= length a + length b)%nat.
Proof. unfold union2. induction a as [|x a IH]; cbn [fold_right length]; [lia|]. pose proof (insert_u_len x (fold_right insert_u b a)). lia. Qed.
Lemma sem_union_len lcs : (length (sem_union lcs) <= sum_len lcs)%nat.
Proof. unfold sem_union. induction lcs as [|a r IH]; cbn [fold_right sum_len length]; [lia|]. pose proof (union2_len a (fold_right union2 [] r)). lia. Qed.

(* ---------- SimpleUnion represents sem_union, and keeps its children aligned ---------- *)
Section SimpleUnionOk.
  Variables (C : impl) (strong : bool) (RC : st C -> list N -> Prop) (DC : st C -> N -> list N -> Prop).
  Hypothesis CC : contract C strong RC DC.

  (* the children represent lcs and the union's doc is the smallest of their heads *)
  Definition R_suw (s : sustate C) (lcs : list (list N)) : Prop :=
    su_oof C s = false /\ Forall2 RC (su_docsets C s) lcs /\ su_doc C s = min_heads lcs.
  Definition R_su (s : sustate C) (l : list N) : Prop := exists lcs, R_suw s lcs /\ l = sem_union lcs.

  Lemma F2_wf ds lcs : Forall2 RC ds lcs -> Forall wf_docs lcs.
  Proof. induction 1 as [|c l ds lcs H _ IH]; constructor; [exact (c_wf _ _ _ _ CC _ _ H)|assumption]. Qed.
  Lemma F2_min ds lcs : Forall2 RC ds lcs -> min_docs C ds = min_heads lcs.
  Proof. induction 1 as [|c l ds lcs H _ IH]; [reflexivity|]. cbn [min_docs min_heads fold_right]. unfold min_docs, min_heads in IH. now rewrite IH, (c_doc _ _ _ _ CC _ _ H). Qed.
  Lemma F2_ok ds lcs : Forall2 RC ds lcs -> forallb (ok C) ds = true.
  Proof. induction 1 as [|c l ds lcs H _ IH]; [reflexivity|]. cbn [forallb]. now rewrite (c_ok _ _ _ _ CC _ _ H), IH. Qed.
  Lemma F2_size ds lcs : Forall2 RC ds lcs -> (sum_len lcs <= fold_right (fun c n => (size C c + n)%nat) O ds)%nat.
  Proof. induction 1 as [|c l ds lcs H _ IH]; [apply le_n|]. cbn [sum_len fold_right]. pose proof (c_size _ _ _ _ CC _ _ H). lia. Qed.

  Theorem su_build_repr ds lcs : Forall2 RC ds lcs -> R_su (su_build C ds) (sem_union lcs).
  Proof.
    intros HF. exists (filter (fun l => negb (N.eqb (ds_doc l) DOCSET_TERMINATED)) lcs). split.
    - assert (HF' : Forall2 RC (filter (fun c => negb (N.eqb (doc C c) DOCSET_TERMINATED)) ds)
                              (filter (fun l => negb (N.eqb (ds_doc l) DOCSET_TERMINATED)) lcs)).
      { induction HF as [|c l ds lcs H _ IH]; [constructor|]. cbn [filter]. rewrite (c_doc _ _ _ _ CC _ _ H).
        destruct (negb (N.eqb (ds_doc l) DOCSET_TERMINATED)); [constructor; assumption|assumption]. }
      split; [reflexivity|split; [exact HF'|]]. cbn [su_build su_doc]. exact (F2_min _ _ HF').
    - (* dropping the exhausted children does not change the union *)
      pose proof (F2_wf _ _ HF) as Hwf. apply ssorted_ext; [apply sem_union_sorted|apply sem_union_sorted|].
      intros d. rewrite !sem_union_In. split.
      + intros [l [Hl Hd]]. exists l. split; [|assumption]. apply filter_In. split; [assumption|].
        destruct l as [|x r]; [destruct Hd|]. cbn [ds_doc]. rewrite Forall_forall in Hwf. destruct (Hwf _ Hl) as [_ HT].
        inversion HT; subst. destruct (N.eqb_spec x DOCSET_TERMINATED); [lia|reflexivity].
      + intros [l [Hl Hd]]. apply filter_In in Hl. exists l. tauto.
  Qed.

  Let H_wf : forall s l, R_su s l -> wf_docs l.
  Proof. intros s l [lcs [[_ [HF _]] ->]]. apply sem_union_wf. exact (F2_wf _ _ HF). Qed.
  Let H_ok : forall s l, R_su s l -> su_ok C s = true.
  Proof. intros s l [lcs [[H0 [HF _]] _]]. unfold su_ok. now rewrite H0, (F2_ok _ _ HF). Qed.
  Let H_size : forall s l, R_su s l -> (length l <= su_size C s)%nat.
  Proof. intros s l [lcs [[_ [HF _]] ->]]. unfold su_size. pose proof (sem_union_len lcs). pose proof (F2_size _ _ HF). lia. Qed.
  Let H_doc : forall s l, R_su s l -> su_doc C s = ds_doc l.
  Proof. intros s l [lcs [[_ [HF Hd]] ->]]. rewrite Hd. symmetry. apply sem_union_head. exact (F2_wf _ _ HF). Qed.
  Let H_adv : forall s l, R_su s l -> R_su (su_advance C s) (ds_advance l).
  Proof.
    intros s l [lcs [[H0 [HF Hd]] ->]]. exists (map (drop_head (min_heads lcs)) lcs). split.
    - assert (HF' : Forall2 RC (map (adv_child C (su_doc C s)) (su_docsets C s)) (map (drop_head (min_heads lcs)) lcs)).
      { rewrite Hd. clear Hd. generalize (min_heads lcs) as d. intros d. induction HF as [|c lc ds lcs' H _ IH]; cbn [map]; constructor; [|assumption].
        unfold adv_child, drop_head. rewrite (c_doc _ _ _ _ CC _ _ H). destruct (N.leb (ds_doc lc) d); [exact (c_advance _ _ _ _ CC _ _ H)|exact H]. }
      split; [exact H0|split; [exact HF'|]]. cbn [su_advance su_doc]. exact (F2_min _ _ HF').
    - symmetry. apply sem_union_advance. exact (F2_wf _ _ HF).
  Qed.
  Let H_seek : forall t s l, t <= DOCSET_TERMINATED -> R_su s l -> su_doc C s <= t -> R_su (su_seek C t s) (ds_seek t l).
  Proof.
    intros t s l Ht [lcs [[H0 [HF Hd]] ->]] _. exists (map (ds_seek t) lcs). split.
    - assert (HF' : Forall2 RC (map (seek_child C t) (su_docsets C s)) (map (ds_seek t) lcs)).
      { clear Hd. induction HF as [|c lc ds lcs' H _ IH]; cbn [map]; constructor; [|assumption].
        unfold seek_child. destruct (N.ltb_spec (doc C c) t) as [Hlt|Hge]; [apply (c_seek _ _ _ _ CC _ _ _ H); [lia|assumption]|].
        rewrite ds_seek_le; [exact H|]. rewrite <- (c_doc _ _ _ _ CC _ _ H). lia. }
      split; [exact H0|split; [exact HF'|]]. cbn [su_seek su_doc]. exact (F2_min _ _ HF').
    - symmetry. apply sem_union_seek. exact (F2_wf _ _ HF).
  Qed.

  (* SimpleUnion (doc / advance / seek + the trait defaults) meets the strong contract: it never dangles *)
  Theorem simple_union_contract : contract (simple_union_impl C) true R_su (fun s _ l => R_su s l).
  Proof. apply seek_impl_contract; assumption. Qed.

  (* what `impl Postings for SimpleUnion` relies on: in every reachable state, a child contains the current document
     iff it is positioned on it -- so term_freq / positions, which read exactly the children with doc() == self.doc,
     see every contribution *)
  Lemma aligned_aux d ds lcs : Forall2 RC ds lcs -> d < DOCSET_TERMINATED -> (forall lc, In lc lcs -> d <= ds_doc lc) ->
    Forall2 (fun c lc => In d lc <-> doc C c = d) ds lcs.
  Proof.
    intros HF HT. induction HF as [|c lc ds lcs' H _ IH]; intros Hall; constructor.
    - rewrite (c_doc _ _ _ _ CC _ _ H). pose proof (c_wf _ _ _ _ CC _ _ H) as Hwf. specialize (Hall lc (or_introl eq_refl)). split.
      + intros Hin. pose proof (ds_doc_ge_head lc d Hwf Hin). lia.
      + intros E. rewrite <- E. apply ds_doc_In. lia.
    - apply IH. intros l Hl. apply Hall. now right.
  Qed.

  Theorem su_aligned s lcs : R_suw s lcs -> su_doc C s < DOCSET_TERMINATED ->
    Forall2 (fun c lc => In (su_doc C s) lc <-> doc C c = su_doc C s) (su_docsets C s) lcs.
  Proof.
    intros [_ [HF Hd]] HT. apply aligned_aux; [assumption|assumption|]. intros lc Hl. rewrite Hd. now apply min_heads_le.
  Qed.

  (* the invariant R_suw is what build / advance / seek establish and keep (the proofs above construct it) *)
  Theorem su_build_aligned ds lcs : Forall2 RC ds lcs -> exists lcs', R_suw (su_build C ds) lcs' /\ sem_union lcs' = sem_union lcs.
  Proof. intros HF. destruct (su_build_repr ds lcs HF) as [lcs' [H1 H2]]. exists lcs'. split; [assumption|now symmetry]. Qed.
  Theorem su_advance_aligned s lcs : R_suw s lcs -> exists lcs', R_suw (su_advance C s) lcs' /\ sem_union lcs' = ds_advance (sem_union lcs).
  Proof. intros H. destruct (H_adv s _ (ex_intro _ lcs (conj H eq_refl))) as [lcs' [H1 H2]]. exists lcs'. split; [assumption|now symmetry]. Qed.
  Theorem su_seek_aligned s lcs t : R_suw s lcs -> su_doc C s <= t -> t <= DOCSET_TERMINATED ->
    exists lcs', R_suw (su_seek C t s) lcs' /\ sem_union lcs' = ds_seek t (sem_union lcs).
  Proof.
    intros H Hd Ht. destruct (H_seek t s _ Ht (ex_intro _ lcs (conj H eq_refl)) Hd) as [lcs' [H1 H2]].
    exists lcs'. split; [assumption|now symmetry].
  Qed.
End SimpleUnionOk.
