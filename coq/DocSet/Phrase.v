(* DocSet/Phrase.v -- src/query/phrase_query/phrase_scorer.rs: PhraseScorer as "the intersection of the terms'
   postings filtered by phrase_match", WITH the state that score() / term_freq read: phrase_count.
   The positions machinery (compute_phrase_count on the positions of the current document) is external to this model:
   it is the Section variable [count_of] (number of phrase occurrences in a document); phrase_exists d = (count_of d > 0).
   phrase_match stores the count when scoring is enabled.  advance / seek / the constructor are one loop; seek_danger
   is the scorer's own (Found only if the phrase matches, else SeekLowerBound(target + 1)). *)
From TV Require Import Base.Prelude Generated.Constants DocSet.Spec DocSet.Impl.
Local Open Scope N_scope.

Section Phrase.
  Variable I : impl.               (* the intersection of the term postings *)
  Variable count_of : N -> N.      (* compute_phrase_count on the document's positions *)
  Variable scoring : bool.         (* similarity_weight_opt.is_some() *)

  Record pstate := { p_inner : st I; p_count : N; p_oof : bool }.
  Definition matches (d : N) : bool := N.ltb 0 (count_of d).
  (* fn phrase_match: with scoring, phrase_count = compute_phrase_count(); count > 0; else phrase_exists() *)
  Definition phrase_match (d cnt : N) : N * bool := if scoring then (count_of d, matches d) else (cnt, matches d).

  (* loop { if doc == TERMINATED || phrase_match() { return } ; doc = inner.advance() } -- the body shared by
     advance (entered after inner.advance()), seek (after inner.seek(target)) and the constructor *)
  Fixpoint p_loop (fuel : nat) (i : st I) (cnt : N) (oof : bool) : pstate :=
    let d := doc I i in
    if N.eqb d DOCSET_TERMINATED then {| p_inner := i; p_count := cnt; p_oof := oof |}
    else
      let '(cnt', m) := phrase_match d cnt in
      if m then {| p_inner := i; p_count := cnt'; p_oof := oof |}
      else match fuel with
           | O => {| p_inner := i; p_count := cnt'; p_oof := true |}
           | S f => p_loop f (advance I i) cnt' oof
           end.
  Definition p_new (i : st I) : pstate := p_loop (size I i) i 0 false.
  Definition p_doc (s : pstate) : N := doc I (p_inner s).
  Definition p_advance (s : pstate) : pstate := let i' := advance I (p_inner s) in p_loop (size I i') i' (p_count s) (p_oof s).
  Definition p_seek (t : N) (s : pstate) : pstate := let i' := seek I t (p_inner s) in p_loop (size I i') i' (p_count s) (p_oof s).
  Definition p_seek_danger (t : N) (s : pstate) : sd_result * pstate :=
    let '(r, i') := seek_danger I t (p_inner s) in
    match r with
    | SdLower b => (SdLower b, {| p_inner := i'; p_count := p_count s; p_oof := p_oof s |})
    | SdFound =>
        let '(cnt', m) := phrase_match (doc I i') (p_count s) in
        let s' := {| p_inner := i'; p_count := cnt'; p_oof := p_oof s |} in
        if m then (SdFound, s') else (SdLower (t + 1), s')
    end.
  Definition p_size (s : pstate) : nat := size I (p_inner s).
  Definition p_set_oof (s : pstate) : pstate := {| p_inner := p_inner s; p_count := p_count s; p_oof := true |}.
  Definition p_ok (s : pstate) : bool := negb (p_oof s) && ok I (p_inner s).
  (* what score() (BM25 term frequency) and Postings::term_freq read *)
  Definition p_term_freq (s : pstate) : N := p_count s.

  Definition phrase_impl : impl := {|
    st := pstate; doc := p_doc; advance := p_advance; seek := p_seek; seek_danger := p_seek_danger;
    fill_buffer := default_fill_buffer p_doc p_advance;
    fill_bitset := default_fill_bitset p_doc p_advance p_size p_set_oof p_seek;
    count := default_count p_doc p_advance p_size p_set_oof;
    size := p_size; ok := p_ok |}.
End Phrase.

Lemma filter_len_le' {X} (f : X -> bool) l : (length (filter f l) <= length l)%nat.
Proof. induction l as [|x r IH]; [apply le_n|]. cbn [filter]. destruct (f x); cbn [length]; lia. Qed.

Lemma seek_sub_head t f l : wf_docs l -> ds_doc (ds_seek t l) <= ds_doc (ds_seek t (filter f l)).
Proof.
  intros Hwf. pose proof (wf_docs_seek t _ (wf_docs_filter f l Hwf)) as Hw2. pose proof (wf_docs_seek t l Hwf) as Hw1.
  destruct (N.eq_dec (ds_doc (ds_seek t (filter f l))) DOCSET_TERMINATED) as [E|E]; [rewrite E; now apply ds_doc_le_T|].
  pose proof (ds_doc_le_T _ Hw2). assert (Hin : In (ds_doc (ds_seek t (filter f l))) (ds_seek t (filter f l))) by (apply ds_doc_In; lia).
  apply ds_seek_In in Hin; [|apply (wf_docs_filter f l Hwf)]. destruct Hin as [Hin Ht]. apply filter_In in Hin.
  destruct Hw1 as [Hs _]. destruct (ds_seek t l) as [|h r] eqn:El.
  - exfalso. assert (Hx : In (ds_doc (ds_seek t (filter f l))) (ds_seek t l)) by (apply ds_seek_In; [apply Hwf|tauto]). rewrite El in Hx. destruct Hx.
  - assert (Hx : In (ds_doc (ds_seek t (filter f l))) (h :: r)) by (rewrite <- El; apply ds_seek_In; [apply Hwf|tauto]).
    cbn [ds_doc]. destruct Hx as [Hx|Hx]; [lia|]. destruct Hs as [Hall _]. rewrite Forall_forall in Hall. specialize (Hall _ Hx). lia.
Qed.

Section PhraseOk.
  Variables (I : impl) (strong : bool) (RI : st I -> list N -> Prop) (DI : st I -> N -> list N -> Prop).
  Hypothesis CI : contract I strong RI DI.
  Variable count_of : N -> N.
  Variable scoring : bool.
  Notation mt := (matches count_of).

  (* valid: the inner intersection is valid and sits on a matching document (or is exhausted); the scorer stands for the
     matching documents; and -- the part score() depends on -- with scoring the stored phrase_count is the phrase
     count of the CURRENT document *)
  Definition R_p (s : pstate I) (l : list N) : Prop :=
    p_oof I s = false /\ exists li, RI (p_inner I s) li /\ (li = [] \/ mt (ds_doc li) = true) /\ l = filter mt li /\
    (scoring = true -> l <> [] -> p_count I s = count_of (ds_doc l)).

  Lemma filter_head_match d r : mt d = true -> ds_doc (filter mt (d :: r)) = d.
  Proof. intros H. cbn [filter]. now rewrite H. Qed.

  Lemma p_loop_ok fuel : forall i li cnt, RI i li -> (length li <= fuel)%nat ->
    R_p (p_loop I count_of scoring fuel i cnt false) (filter mt li).
  Proof.
    induction fuel as [|f IH]; intros i li cnt HR Hf; cbn [p_loop]; rewrite (c_doc _ _ _ _ CI _ _ HR); destruct li as [|d r]; cbn [ds_doc];
      try (cbn in Hf; lia);
      try (rewrite N.eqb_refl; split; [reflexivity|exists []; cbn [p_inner p_count filter]; repeat split; try assumption; [now left|intros _ H; now destruct H]]).
    pose proof (c_wf _ _ _ _ CI _ _ HR) as Hwf. pose proof (wf_docs_cons _ _ Hwf) as [HT _].
    destruct (N.eqb_spec d DOCSET_TERMINATED); [lia|]. unfold phrase_match.
    destruct (mt d) eqn:Em.
    - destruct scoring eqn:Es; (split; [reflexivity|exists (d :: r); cbn [p_inner p_count]; repeat split; try assumption; [now right|]]).
      + intros _ _. now rewrite filter_head_match.
      + intros H; congruence.
    - cbn [filter]. rewrite Em.
      destruct scoring; apply IH; try exact (c_advance _ _ _ _ CI _ _ HR); cbn in Hf |- *; lia.
  Qed.

  Theorem phrase_new_repr i li : RI i li -> R_p (p_new I count_of scoring i) (filter mt li).
  Proof. intros HR. apply p_loop_ok; [assumption|exact (c_size _ _ _ _ CI _ _ HR)]. Qed.

  Let H_wf : forall s l, R_p s l -> wf_docs l.
  Proof. intros s l [_ [li [HR [_ [-> _]]]]]. apply wf_docs_filter. exact (c_wf _ _ _ _ CI _ _ HR). Qed.
  Let H_ok : forall s l, R_p s l -> p_ok I s = true.
  Proof. intros s l [H0 [li [HR _]]]. unfold p_ok. now rewrite H0, (c_ok _ _ _ _ CI _ _ HR). Qed.
  Let H_size : forall s l, R_p s l -> (length l <= p_size I s)%nat.
  Proof. intros s l [_ [li [HR [_ [-> _]]]]]. unfold p_size. pose proof (c_size _ _ _ _ CI _ _ HR). pose proof (filter_len_le' mt li). lia. Qed.
  Let H_doc : forall s l, R_p s l -> p_doc I s = ds_doc l.
  Proof.
    intros s l [_ [li [HR [Hh [-> _]]]]]. unfold p_doc. rewrite (c_doc _ _ _ _ CI _ _ HR).
    destruct li as [|d r]; [reflexivity|]. destruct Hh as [Hh|Hh]; [discriminate|]. cbn [ds_doc] in Hh. now rewrite filter_head_match.
  Qed.
  Let H_adv : forall s l, R_p s l -> R_p (p_advance I count_of scoring s) (ds_advance l).
  Proof.
    intros s l [H0 [li [HR [Hh [-> _]]]]]. unfold p_advance. rewrite H0.
    assert (E : ds_advance (filter mt li) = filter mt (ds_advance li)).
    { destruct li as [|d r]; [reflexivity|]. destruct Hh as [Hh|Hh]; [discriminate|]. cbn [ds_doc] in Hh. cbn [filter]. now rewrite Hh. }
    rewrite E. pose proof (c_advance _ _ _ _ CI _ _ HR) as HA. apply p_loop_ok; [assumption|exact (c_size _ _ _ _ CI _ _ HA)].
  Qed.
  Let H_seek : forall t s l, t <= DOCSET_TERMINATED -> R_p s l -> p_doc I s <= t -> R_p (p_seek I count_of scoring t s) (ds_seek t l).
  Proof.
    intros t s l Ht [H0 [li [HR [Hh [-> _]]]]] Hd. unfold p_seek, p_doc in *. rewrite H0.
    rewrite ds_seek_filter by apply (c_wf _ _ _ _ CI _ _ HR).
    pose proof (c_seek _ _ _ _ CI _ _ t HR Hd Ht) as HA. apply p_loop_ok; [assumption|exact (c_size _ _ _ _ CI _ _ HA)].
  Qed.

  (* every valid call program of the R-part (advance, seek, fills, count) through the defaults *)
  Theorem phrase_contract_default_danger :
    contract (mk_seek_impl (p_doc I) (p_advance I count_of scoring) (p_seek I count_of scoring) (p_size I) (p_set_oof I) (p_ok I))
             true R_p (fun s _ l => R_p s l).
  Proof. apply seek_impl_contract; assumption. Qed.

  (* the scorer's own seek_danger from a valid state (the route an enclosing Intersection uses): Found iff member, and
     then the state is the valid state on the target -- in particular phrase_count is the target's phrase count --;
     otherwise a lower bound in (target, next member] *)
  Theorem phrase_seek_danger_ok s l t : R_p s l -> p_doc I s <= t -> t < DOCSET_TERMINATED ->
    match p_seek_danger I count_of scoring t s with
    | (SdFound, s') => In t l /\ R_p s' (ds_seek t l)
    | (SdLower b, s') => ~ In t l /\ t < b /\ b <= ds_doc (ds_seek t l)
    end.
  Proof.
    intros [H0 [li [HR [Hh [-> Hc]]]]] Hd HT. unfold p_seek_danger, p_doc in *.
    pose proof (c_wf _ _ _ _ CI _ _ HR) as Hwf.
    pose proof (c_danger _ _ _ _ CI _ _ _ t (c_RD _ _ _ _ CI _ _ t HR (or_intror Hd)) (N.le_refl t) HT) as HDg.
    destruct (seek_danger I t (p_inner I s)) as [[|b] i'].
    - destruct HDg as [Hin HR']. rewrite (c_doc _ _ _ _ CI _ _ HR'), (ds_seek_head_In t li (proj1 Hwf) Hin). unfold phrase_match.
      assert (Hsk : ds_seek t li = t :: tl (ds_seek t li)).
      { pose proof (ds_seek_head_In t li (proj1 Hwf) Hin) as Hhd. destruct (ds_seek t li) as [|h r]; [cbn in Hhd; lia|]. cbn in Hhd. now subst. }
      destruct (mt t) eqn:Em.
      + assert (Hl : In t (filter mt li)) by (apply filter_In; tauto).
        destruct scoring eqn:Es; (split; [exact Hl|]); (split; [exact H0|]); exists (ds_seek t li); cbn [p_inner p_count];
          (split; [exact HR'|split; [right; rewrite Hsk; exact Em|split; [now rewrite ds_seek_filter by apply Hwf|]]]).
        * intros _ _. rewrite (ds_seek_head_In t (filter mt li)); [reflexivity|apply (wf_docs_filter mt li Hwf)|exact Hl].
        * intros H; congruence.
      + assert (Hn : ~ In t (filter mt li)) by (intros H; apply filter_In in H; destruct H as [_ H]; congruence).
        assert (Hb : t + 1 <= ds_doc (ds_seek t (filter mt li))).
        { pose proof (wf_docs_filter mt li Hwf) as Hwf2. destruct (ds_seek_head t _ Hwf2) as [Hge|[Hgt _]]; [|lia].
          destruct (N.eq_dec (ds_doc (ds_seek t (filter mt li))) t) as [E|E]; [|lia]. exfalso. apply Hn.
          apply (ds_seek_In_sub t). rewrite <- E at 1. apply ds_doc_In. lia. }
        destruct scoring; (split; [exact Hn|split; [lia|exact Hb]]).
    - destruct HDg as [Hn [Hlt [Hle _]]]. split; [intros H; apply Hn; apply filter_In in H; tauto|]. split; [assumption|].
      pose proof (seek_sub_head t mt li Hwf). lia.
  Qed.

  (* a target below the current document (what Exclude::contains and a union's out-of-horizon loop ask): never Found,
     and the valid state is kept -- the code, without its debug_assert, meets the clause c_danger_below of the contract *)
  Theorem phrase_seek_danger_below s l t : R_p s l -> t < p_doc I s ->
    exists b, fst (p_seek_danger I count_of scoring t s) = SdLower b /\ R_p (snd (p_seek_danger I count_of scoring t s)) l.
  Proof.
    intros [H0 [li [HR [Hh [-> Hc]]]]] Hlt. unfold p_seek_danger, p_doc in *.
    destruct (c_danger_below _ _ _ _ CI _ _ _ HR Hlt) as [b [Hb HR']].
    destruct (seek_danger I t (p_inner I s)) as [r i']. cbn [fst snd] in *. subst r. exists b. cbn [fst snd]. split; [reflexivity|].
    split; [exact H0|]. exists li. cbn [p_inner p_count]. repeat split; assumption.
  Qed.

  (* score path-independence for the phrase scorer: in any two valid states on the same document (however reached:
     advance, seek, or a seek_danger hit) the phrase count read by score() / term_freq is the same -- it is the
     document's phrase count *)
  Theorem phrase_count_path_independent s s' l : scoring = true -> l <> [] -> R_p s l -> R_p s' l ->
    p_term_freq I s = p_term_freq I s' /\ p_term_freq I s = count_of (ds_doc l).
  Proof.
    intros Hs Hl [_ [li [_ [_ [E Hc]]]]] [_ [li' [_ [_ [E' Hc']]]]]. unfold p_term_freq.
    rewrite (Hc Hs Hl), (Hc' Hs Hl). tauto.
  Qed.
End PhraseOk.
