(* DocSet/Union.v -- src/query/union/buffered_union.rs: BufferedUnionScorer (doc-set part).
   A window of UNION_HORIZON documents starting at window_start_doc is pre-computed into
   HORIZON/64 TinySets (64-bit words, common/src/bitset.rs); children sit at or beyond the end of
   the window; exhausted children are removed with swap_remove. *)
From TV Require Import Base.Prelude Generated.Constants DocSet.Spec DocSet.Impl.
Local Open Scope N_scope.

(* ---------- TinySet ---------- *)
Fixpoint ctz_pos (p : positive) : N := match p with xO q => 1 + ctz_pos q | _ => 0 end.
(* TinySet::pop_lowest: lowest set bit and the set without it *)
Definition pop_lowest (x : N) : option (N * N) :=
  match x with N0 => None | Npos p => let b := ctz_pos p in Some (b, x - N.shiftl 1 b) end.
Fixpoint popcount_pos (p : positive) : N :=
  match p with xH => 1 | xO q => popcount_pos q | xI q => 1 + popcount_pos q end.
Definition tiny_len (x : N) : N := match x with N0 => 0 | Npos p => popcount_pos p end.

Definition HORIZON_NUM_TINYBITSETS : nat := N.to_nat (UNION_HORIZON / UNION_BUCKET_BITS).
Definition empty_bitsets : list N := repeat 0 HORIZON_NUM_TINYBITSETS.

(* shape of seek_danger as read from the source by tools/pindefs/docset.py *)
Definition union_guard : bool := N.eqb UNION_DANGER_GUARDS_CURRENT_DOC 1.

Definition union_resync : bool := N.eqb UNION_DANGER_RESYNCS_MISSED 1.

Section Union.
  Variable C : impl.

  Record ustate := {
    u_docsets : list (st C);
    u_bitsets : list N;        (* HORIZON_NUM_TINYBITSETS words *)
    u_bucket : nat;            (* bucket_idx *)
    u_w : N;                   (* window_start_doc *)
    u_doc : N;
    u_oof : bool }.

  Definition upd (s : ustate) ds bs bk w d oof := {| u_docsets := ds; u_bitsets := bs; u_bucket := bk; u_w := w; u_doc := d; u_oof := oof |}.

  (* the closure of `refill`: drain one child into the window; true = exhausted (remove it) *)
  Fixpoint refill_one (fuel : nat) (min_doc : N) (bs : list N) (c : st C) : list N * st C * bool * bool :=
    let d := doc C c in
    if N.leb (min_doc + UNION_HORIZON) d then (bs, c, false, false)
    else
      let delta := d - min_doc in
      let bs' := upd_nth (N.to_nat (delta / 64)) (tiny_insert (delta mod 64)) bs in
      let c' := advance C c in
      if N.eqb (doc C c') DOCSET_TERMINATED then (bs', c', true, false)
      else match fuel with O => (bs', c', false, true) | S f => refill_one f min_doc bs' c' end.

  (* unordered_drain_filter: while i < len { if pred(v[i]) { v.swap_remove(i) } else { i += 1 } } *)
  Fixpoint drain_refill (n : nat) (min_doc : N) (bs : list N) (ds : list (st C)) : list N * list (st C) * bool :=
    match n, ds with
    | _, [] => (bs, [], false)
    | O, _ => (bs, ds, true)
    | S n', c :: r =>
        let '(bs', c', removed, oof1) := refill_one (size C c) min_doc bs c in
        if removed then
          match r with
          | [] => (bs', [], oof1)
          | _ => let '(bs'', r', oof2) := drain_refill n' min_doc bs' (last r c :: removelast r) in (bs'', r', oof1 || oof2)
          end
        else let '(bs'', r', oof2) := drain_refill n' min_doc bs' r in (bs'', c' :: r', oof1 || oof2)
    end.

  Definition min_doc_of (ds : list (st C)) : option N :=
    match ds with [] => None | d :: r => Some (fold_left (fun m x => N.min m (doc C x)) r (doc C d)) end.

  (* fn refill(&mut self) -> bool *)
  Definition u_refill (s : ustate) : bool * ustate :=
    match min_doc_of (u_docsets s) with
    | None => (false, s)
    | Some m =>
        let '(bs, ds, oof) := drain_refill (length (u_docsets s)) m (u_bitsets s) (u_docsets s) in
        (true, upd s ds bs O m m (u_oof s || oof))
    end.

  (* fn advance_buffered *)
  Fixpoint adv_buffered (fuel : nat) (s : ustate) : bool * ustate :=
    match fuel with
    | O => (false, s)
    | S f =>
        if Nat.ltb (u_bucket s) HORIZON_NUM_TINYBITSETS then
          match pop_lowest (nth (u_bucket s) (u_bitsets s) 0) with
          | Some (val, rest) =>
              let delta := val + N.of_nat (u_bucket s) * 64 in
              (true, upd s (u_docsets s) (upd_nth (u_bucket s) (fun _ => rest) (u_bitsets s)) (u_bucket s) (u_w s) (u_w s + delta) (u_oof s))
          | None => adv_buffered f (upd s (u_docsets s) (u_bitsets s) (S (u_bucket s)) (u_w s) (u_doc s) (u_oof s))
          end
        else (false, s)
    end.
  Definition advance_buffered (s : ustate) := adv_buffered (S HORIZON_NUM_TINYBITSETS) s.

  (* fn advance *)
  Definition u_advance (s : ustate) : ustate :=
    let '(b, s1) := advance_buffered s in
    if b then s1 else
      let '(r, s2) := u_refill s1 in
      if negb r then upd s2 (u_docsets s2) (u_bitsets s2) (u_bucket s2) (u_w s2) DOCSET_TERMINATED (u_oof s2)
      else snd (advance_buffered s2).   (* `if !advance_buffered() { return DOCSET_TERMINATED }` leaves doc as it is *)

  Definition u_build (ds : list (st C)) : ustate :=
    let ds' := filter (fun d => negb (N.eqb (doc C d) DOCSET_TERMINATED)) ds in
    let s0 := {| u_docsets := ds'; u_bitsets := empty_bitsets; u_bucket := HORIZON_NUM_TINYBITSETS; u_w := 0; u_doc := 0; u_oof := false |} in
    let '(r, s1) := u_refill s0 in
    if r then u_advance s1 else upd s1 (u_docsets s1) (u_bitsets s1) (u_bucket s1) (u_w s1) DOCSET_TERMINATED (u_oof s1).

  Definition u_size (s : ustate) : nat :=
    S (N.to_nat (fold_right (fun w a => tiny_len w + a) 0 (u_bitsets s)) + fold_right (fun d n => (size C d + n)%nat) O (u_docsets s)).

  Fixpoint clear_range (a b : nat) (i : nat) (bs : list N) : list N :=
    match bs with
    | [] => []
    | x :: r => (if Nat.leb a i && Nat.ltb i b then 0 else x) :: clear_range a b (S i) r
    end.

  (* children: if docset.doc() < target { docset.seek(target) }; remove if doc() == DOCSET_TERMINATED (swap_remove) *)
  Fixpoint drain_seek (n : nat) (t : N) (ds : list (st C)) : list (st C) * bool :=
    match n, ds with
    | _, [] => ([], false)
    | O, _ => (ds, true)
    | S n', c :: r =>
        let c' := if N.ltb (doc C c) t then seek C t c else c in
        if N.eqb (doc C c') DOCSET_TERMINATED then
          match r with
          | [] => ([], false)
          | _ => drain_seek n' t (last r c :: removelast r)
          end
        else let '(r', oof) := drain_seek n' t r in (c' :: r', oof)
    end.

  Fixpoint u_seek_loop (fuel : nat) (t : N) (s : ustate) : ustate :=
    if N.ltb (u_doc s) t then
      match fuel with
      | O => upd s (u_docsets s) (u_bitsets s) (u_bucket s) (u_w s) (u_doc s) true
      | S f => u_seek_loop f t (u_advance s)
      end
    else s.

  (* fn seek *)
  Definition u_seek (t : N) (s : ustate) : ustate :=
    if N.leb t (u_doc s) then s
    else
      let gap := t - u_w s in     (* u32 subtraction; window_start_doc <= doc < target here *)
      if N.ltb gap UNION_HORIZON then
        let nb := N.to_nat (gap / 64) in
        let s1 := upd s (u_docsets s) (clear_range (u_bucket s) nb O (u_bitsets s)) nb (u_w s) (u_doc s) (u_oof s) in
        u_seek_loop (u_size s1) t s1
      else
        let '(ds, oof) := drain_seek (length (u_docsets s)) t (u_docsets s) in
        let s1 := upd s ds empty_bitsets (u_bucket s) (u_w s) (u_doc s) (u_oof s || oof) in
        let '(r, s2) := u_refill s1 in
        if negb r then upd s2 (u_docsets s2) (u_bitsets s2) (u_bucket s2) (u_w s2) DOCSET_TERMINATED (u_oof s2)
        else u_advance s2.

  (* fn is_in_horizon: target.wrapping_sub(window_start_doc) < HORIZON *)
  Definition is_in_horizon (t : N) (s : ustate) : bool :=
    N.ltb ((t + 2 ^ 32 - u_w s) mod 2 ^ 32) UNION_HORIZON.

  Fixpoint children_danger (t : N) (ds : list (st C)) (mn : N) : bool * N * list (st C) :=
    match ds with
    | [] => (false, mn, [])
    | c :: r =>
        let '(res, c') := seek_danger C t c in
        match res with
        | SdFound => (true, mn, c' :: r)       (* break *)
        | SdLower b => let '(hit, mn', r') := children_danger t r (N.min mn b) in (hit, mn', c' :: r')
        end
    end.

  (* fn seek_danger.  [guard] = the pinned shape of the source: true when the function first answers
     `target <= self.doc` from the current document (Found if equal, else SeekLowerBound(self.doc));
     false = the shape before the fix of F131. *)
  Definition u_seek_danger_g (guard : bool) (t : N) (s : ustate) : sd_result * ustate :=
    if N.leb DOCSET_TERMINATED t then (SdLower DOCSET_TERMINATED, s)
    else if guard && N.leb t (u_doc s) then
      (if N.eqb t (u_doc s) then (SdFound, s) else (SdLower (u_doc s), s))
    else if is_in_horizon t s then
      let s' := u_seek t s in
      if N.eqb (u_doc s') t then (SdFound, s') else (SdLower (u_doc s'), s')
    else
      let '(hit, mn, ds) := children_danger t (u_docsets s) DOCSET_TERMINATED in
      let s1 := upd s ds (u_bitsets s) (u_bucket s) (u_w s) (u_doc s) (u_oof s) in
      if hit then (SdFound, u_seek t s1) else (SdLower mn, s1).
  (* the shape after the fix of F134: in the hit branch the children that missed (the first num_missed ones) are
     first re-synchronised on their own document when they sit at or after the target:
       for docset in &mut self.docsets[..num_missed] { let doc = docset.doc(); if doc >= target { docset.seek(doc); } } *)
  Fixpoint num_missed (t : N) (ds : list (st C)) : nat :=
    match ds with
    | [] => O
    | c :: r => match fst (seek_danger C t c) with SdFound => O | SdLower _ => S (num_missed t r) end
    end.
  Definition resync1 (t : N) (c : st C) : st C := if N.leb t (doc C c) then seek C (doc C c) c else c.
  Fixpoint resync_prefix (t : N) (n : nat) (ds : list (st C)) : list (st C) :=
    match n, ds with
    | S n', c :: r => resync1 t c :: resync_prefix t n' r
    | _, _ => ds
    end.
  Definition u_seek_danger_r (guard : bool) (t : N) (s : ustate) : sd_result * ustate :=
    if N.leb DOCSET_TERMINATED t then (SdLower DOCSET_TERMINATED, s)
    else if guard && N.leb t (u_doc s) then
      (if N.eqb t (u_doc s) then (SdFound, s) else (SdLower (u_doc s), s))
    else if is_in_horizon t s then
      let s' := u_seek t s in
      if N.eqb (u_doc s') t then (SdFound, s') else (SdLower (u_doc s'), s')
    else
      let '(hit, mn, ds) := children_danger t (u_docsets s) DOCSET_TERMINATED in
      if hit then
        (SdFound, u_seek t (upd s (resync_prefix t (num_missed t (u_docsets s)) ds) (u_bitsets s) (u_bucket s) (u_w s) (u_doc s) (u_oof s)))
      else (SdLower mn, upd s ds (u_bitsets s) (u_bucket s) (u_w s) (u_doc s) (u_oof s)).
  Definition u_seek_danger := if union_resync then u_seek_danger_r union_guard else u_seek_danger_g union_guard.

  (* fn fill_buffer, as a tick machine: one tick = one pop_lowest or one bucket step or one refill *)
  Fixpoint fb_loop (fuel : nat) (buf : list N) (count : nat) (s : ustate) : list N * ustate :=
    match fuel with
    | O => (rev buf, upd s (u_docsets s) (u_bitsets s) (u_bucket s) (u_w s) (u_doc s) true)
    | S f =>
        if Nat.ltb (u_bucket s) HORIZON_NUM_TINYBITSETS then
          match pop_lowest (nth (u_bucket s) (u_bitsets s) 0) with
          | Some (val, rest) =>
              let d := u_w s + (val + N.of_nat (u_bucket s) * 64) in
              let s' := upd s (u_docsets s) (upd_nth (u_bucket s) (fun _ => rest) (u_bitsets s)) (u_bucket s) (u_w s) d (u_oof s) in
              if Nat.leb BUFFER_LEN count then (rev buf, s')
              else fb_loop f (d :: buf) (S count) s'
          | None => fb_loop f buf count (upd s (u_docsets s) (u_bitsets s) (S (u_bucket s)) (u_w s) (u_doc s) (u_oof s))
          end
        else
          let '(r, s1) := u_refill s in
          if negb r then (rev buf, upd s1 (u_docsets s1) (u_bitsets s1) (u_bucket s1) (u_w s1) DOCSET_TERMINATED (u_oof s1))
          else fb_loop f buf count s1
    end.
  Definition u_fill_buffer (s : ustate) : list N * ustate :=
    if N.eqb (u_doc s) DOCSET_TERMINATED then ([], s)
    else fb_loop ((BUFFER_LEN + 2) * (HORIZON_NUM_TINYBITSETS + 3)) [u_doc s] 1 s.

  (* fn count_including_deleted *)
  Definition sum_len (bs : list N) : N := fold_right (fun w a => tiny_len w + a) 0 bs.
  Fixpoint cnt_loop (fuel : nat) (count : N) (s : ustate) : N * ustate :=
    let '(r, s1) := u_refill s in
    if r then
      match fuel with
      | O => (count, upd s1 (u_docsets s1) (u_bitsets s1) (u_bucket s1) (u_w s1) (u_doc s1) true)
      | S f => cnt_loop f (count + sum_len (u_bitsets s1)) (upd s1 (u_docsets s1) empty_bitsets (u_bucket s1) (u_w s1) (u_doc s1) (u_oof s1))
      end
    else (count, s1).
  Definition u_count (s : ustate) : N * ustate :=
    if N.eqb (u_doc s) DOCSET_TERMINATED then (0, s)
    else
      let c := sum_len (skipn (u_bucket s) (u_bitsets s)) + 1 in
      let '(n, s') := cnt_loop (u_size s) c (upd s (u_docsets s) empty_bitsets (u_bucket s) (u_w s) (u_doc s) (u_oof s)) in
      (n, upd s' (u_docsets s') (u_bitsets s') HORIZON_NUM_TINYBITSETS (u_w s') (u_doc s') (u_oof s')).

  Definition u_set_oof (s : ustate) := upd s (u_docsets s) (u_bitsets s) (u_bucket s) (u_w s) (u_doc s) true.
  Definition u_ok (s : ustate) : bool := negb (u_oof s) && forallb (ok C) (u_docsets s).

  Definition union_impl_g (guard : bool) : impl := {|
    st := ustate; doc := u_doc; advance := u_advance; seek := u_seek; seek_danger := u_seek_danger_g guard;
    fill_buffer := u_fill_buffer;
    fill_bitset := default_fill_bitset u_doc u_advance u_size u_set_oof u_seek;
    count := u_count; size := u_size; ok := u_ok |}.
  Definition union_impl_r (guard : bool) : impl := {|
    st := ustate; doc := u_doc; advance := u_advance; seek := u_seek; seek_danger := u_seek_danger_r guard;
    fill_buffer := u_fill_buffer;
    fill_bitset := default_fill_bitset u_doc u_advance u_size u_set_oof u_seek;
    count := u_count; size := u_size; ok := u_ok |}.
  (* the shape read from the current source (tools/pindefs/docset.py) *)
  Definition union_impl : impl := if union_resync then union_impl_r union_guard else union_impl_g union_guard.
End Union.
