(* DocSet/UnionBits.v -- TinySet facts used by UnionProofs.v: pop_lowest / insert as operations on the set of
   set bits (N.testbit), popcount = number of set bits, and the list operations on the 64-word window
   (upd_nth, clear_range) of DocSet/Union.v. *)
From TV Require Import Base.Prelude Generated.Constants DocSet.Spec DocSet.Impl DocSet.Union.
Local Open Scope N_scope.

Ltac dlia := zify; Z.div_mod_to_equations; lia.

(* ---------- insert ---------- *)
Lemma tiny_insert_spec b w j : N.testbit (tiny_insert b w) j = N.testbit w j || N.eqb j b.
Proof. unfold tiny_insert. rewrite N.lor_spec, N.shiftl_1_l, N.pow2_bits_eqb, (N.eqb_sym b j). reflexivity. Qed.

(* ---------- pop_lowest ---------- *)
Lemma ctz_pos_spec p : N.testbit (Npos p) (ctz_pos p) = true /\ forall j, j < ctz_pos p -> N.testbit (Npos p) j = false.
Proof.
  induction p as [p IH|p IH|]; cbn [ctz_pos].
  - split; [reflexivity|]. intros j Hj. lia.
  - destruct IH as [I1 I2]. change (N.pos p~0) with (2 * N.pos p). split.
    + rewrite N.add_1_l, N.testbit_even_succ by lia. exact I1.
    + intros j Hj. destruct (N.eq_dec j 0) as [->|Hn]; [apply N.testbit_even_0|].
      replace j with (N.succ (j - 1)) by lia. rewrite N.testbit_even_succ by lia. apply I2. lia.
  - split; [reflexivity|]. intros j Hj. lia.
Qed.

Lemma pop_lowest_None x : pop_lowest x = None <-> x = 0.
Proof. destruct x; cbn [pop_lowest]; split; intros H; congruence || discriminate || reflexivity. Qed.

Lemma pop_lowest_Some x b r : pop_lowest x = Some (b, r) ->
  N.testbit x b = true /\ (forall j, j < b -> N.testbit x j = false) /\
  (forall j, N.testbit r j = N.testbit x j && negb (N.eqb j b)).
Proof.
  destruct x as [|p]; cbn [pop_lowest]; [discriminate|]. intros E. injection E as <- <-.
  destruct (ctz_pos_spec p) as [H1 H2]. split; [exact H1|split; [exact H2|]]. intros j.
  rewrite N.sub_nocarry_ldiff.
  - change (N.ldiff (N.pos p) (N.shiftl 1 (ctz_pos p))) with (N.clearbit (N.pos p) (ctz_pos p)).
    rewrite N.clearbit_eqb, (N.eqb_sym j). reflexivity.
  - apply N.bits_inj. intros k. rewrite N.ldiff_spec, N.shiftl_1_l, N.pow2_bits_eqb, N.bits_0.
    destruct (N.eqb_spec (ctz_pos p) k) as [<-|]; [rewrite H1|]; reflexivity.
Qed.

(* ---------- the set bits as a list; popcount ---------- *)
Fixpoint bits_pos (p : positive) (i : N) : list N :=
  match p with xH => [i] | xO q => bits_pos q (i + 1) | xI q => i :: bits_pos q (i + 1) end.
Definition bits_list (x : N) : list N := match x with N0 => [] | Npos p => bits_pos p 0 end.

Lemma bits_pos_len p i : N.of_nat (length (bits_pos p i)) = popcount_pos p.
Proof. revert i. induction p as [p IH|p IH|]; intros i; cbn [bits_pos popcount_pos length]; [rewrite <- (IH (i + 1)); lia|apply IH|reflexivity]. Qed.

Lemma bits_pos_In p : forall i j, In j (bits_pos p i) <-> i <= j /\ N.testbit (Npos p) (j - i) = true.
Proof.
  induction p as [p IH|p IH|]; intros i j; cbn [bits_pos In].
  - rewrite IH. change (N.pos p~1) with (2 * N.pos p + 1). split.
    + intros [<-|[H1 H2]]; [split; [lia|]; rewrite N.sub_diag; apply N.testbit_odd_0|].
      split; [lia|]. replace (j - i) with (N.succ (j - (i + 1))) by lia. rewrite N.testbit_odd_succ by lia. exact H2.
    + intros [H1 H2]. destruct (N.eq_dec i j) as [E|E]; [now left|right]. split; [lia|].
      replace (j - i) with (N.succ (j - (i + 1))) in H2 by lia. rewrite N.testbit_odd_succ in H2 by lia. exact H2.
  - rewrite IH. change (N.pos p~0) with (2 * N.pos p). split.
    + intros [H1 H2]. split; [lia|]. replace (j - i) with (N.succ (j - (i + 1))) by lia. rewrite N.testbit_even_succ by lia. exact H2.
    + intros [H1 H2]. destruct (N.eq_dec i j) as [E|E].
      * subst. rewrite N.sub_diag, N.testbit_even_0 in H2. discriminate.
      * split; [lia|]. replace (j - i) with (N.succ (j - (i + 1))) in H2 by lia. rewrite N.testbit_even_succ in H2 by lia. exact H2.
  - split.
    + intros [<-|[]]. split; [lia|]. rewrite N.sub_diag. reflexivity.
    + intros [H1 H2]. left. destruct (N.eq_dec (j - i) 0) as [E|E]; [lia|].
      replace (j - i) with (N.succ (j - i - 1)) in H2 by lia. change 1 with (2 * 0 + 1) in H2.
      rewrite N.testbit_odd_succ, N.bits_0 in H2 by lia. discriminate.
Qed.

Lemma bits_list_In x j : In j (bits_list x) <-> N.testbit x j = true.
Proof.
  destruct x as [|p]; cbn [bits_list]; [rewrite N.bits_0; split; [intros []|discriminate]|].
  rewrite bits_pos_In, N.sub_0_r. split; [tauto|]. intros H. split; [lia|exact H].
Qed.

Lemma bits_list_len x : N.of_nat (length (bits_list x)) = tiny_len x.
Proof. destruct x as [|p]; [reflexivity|]. apply bits_pos_len. Qed.

(* every set bit of every word, as offsets from the window start *)
Fixpoint all_bits (i : nat) (bs : list N) : list N :=
  match bs with [] => [] | x :: r => map (fun j => 64 * N.of_nat i + j) (bits_list x) ++ all_bits (S i) r end.

Lemma all_bits_len i bs : N.of_nat (length (all_bits i bs)) = fold_right (fun w a => tiny_len w + a) 0 bs.
Proof.
  revert i. induction bs as [|x r IH]; intros i; [reflexivity|]. cbn [all_bits fold_right].
  rewrite app_length, map_length, Nat2N.inj_add, bits_list_len, IH. reflexivity.
Qed.

Lemma all_bits_In bs : forall i k j, (k < length bs)%nat -> N.testbit (nth k bs 0) j = true ->
  In (64 * N.of_nat (i + k) + j) (all_bits i bs).
Proof.
  induction bs as [|x r IH]; intros i k j Hk Hb; [cbn in Hk; lia|]. cbn [all_bits]. apply in_or_app.
  destruct k as [|k'].
  - left. cbn [nth] in Hb. rewrite Nat.add_0_r. apply (in_map (fun j0 => 64 * N.of_nat i + j0)). now apply bits_list_In.
  - right. cbn [nth length] in *. replace (i + S k')%nat with (S i + k')%nat by lia. apply IH; [lia|assumption].
Qed.

(* ---------- the window as a list of words ---------- *)
Lemma upd_nth_length i f l : length (upd_nth i f l) = length l.
Proof. revert i. induction l as [|x r IH]; intros [|i]; cbn [upd_nth length]; auto. Qed.

Lemma nth_upd_nth l : forall i k f, nth i (upd_nth k f l) 0 = if Nat.eqb i k && Nat.ltb k (length l) then f (nth i l 0) else nth i l 0.
Proof.
  induction l as [|x r IH]; intros i k f.
  - cbn [upd_nth length]. destruct k, i; cbn; rewrite ?andb_false_r; reflexivity.
  - destruct k as [|k], i as [|i]; cbn [upd_nth nth length]; try reflexivity.
    rewrite IH. change (Nat.eqb (S i) (S k)) with (Nat.eqb i k). change (Nat.ltb (S k) (S (length r))) with (Nat.ltb k (length r)). reflexivity.
Qed.

Lemma clear_range_length a b o bs : length (clear_range a b o bs) = length bs.
Proof. revert o. induction bs as [|x r IH]; intros o; cbn [clear_range length]; auto. Qed.

Lemma nth_clear_range a b bs : forall o i, nth i (clear_range a b o bs) 0 = if Nat.leb a (o + i) && Nat.ltb (o + i) b then 0 else nth i bs 0.
Proof.
  induction bs as [|x r IH]; intros o i.
  - cbn [clear_range]. destruct i; cbn [nth]; destruct (_ && _); reflexivity.
  - cbn [clear_range]. destruct i as [|i]; cbn [nth].
    + rewrite Nat.add_0_r. reflexivity.
    + rewrite IH. replace (S o + i)%nat with (o + S i)%nat by lia. reflexivity.
Qed.

Lemma nth_repeat_0 n i : nth i (repeat 0 n) 0 = 0.
Proof. revert i. induction n as [|n IH]; intros [|i]; cbn [repeat nth]; auto. Qed.

Lemma sum_len_le_skipn k bs : sum_len (skipn k bs) <= sum_len bs.
Proof. revert k. induction bs as [|x r IH]; intros [|k]; cbn [skipn sum_len fold_right]; try lia. specialize (IH k). unfold sum_len in IH. lia. Qed.
