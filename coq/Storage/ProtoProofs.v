(* Every history of the writer protocol (`Proto.v`), under every schedule of its background jobs,
   emits a storage trace the commit discipline accepts: `proto_all_histories`.

   Plan.  (1) facts about single storage events; (2) a simulation: inserting ECreate / ETerminate
   events anywhere in an accepted trace keeps it accepted (`woven_ok`) -- this is what lets each
   updater task be verified sequentially although job events interleave with it; (3) the invariant
   `Inv` between protocol state and storage state, upward closed under the simulation relation;
   (4) every updater task keeps it; (5) induction over the history. *)
From TV Require Import Base.Prelude Generated.Constants Storage.Crash Storage.CrashProofs Storage.Proto.
Local Open Scope N_scope.

Definition runs (c : cst) (t : list ev) : cst := fold_left cstep t c.

Lemma runs_app c t1 t2 : runs c (t1 ++ t2) = runs (runs c t1) t2.
Proof. apply fold_left_app. Qed.

Lemma monitor_app c t1 t2 : monitor_from c (t1 ++ t2) = monitor_from c t1 && monitor_from (runs c t1) t2.
Proof. apply monitor_from_app. Qed.

(* ---------- (1) single events ---------- *)
(* f is in the namespace once everything pending is applied *)
Definition present (c : cst) (f : path) : Prop := In f (ns_files (apply_all (base c) (pend c))).
Definition okf (c : cst) (f : path) : Prop := present c f /\ In f (term c).
Definition is_ct (e : ev) : Prop := match e with ECreate _ | ETerminate _ => True | _ => False end.

Lemma apply_all_snoc s l o : apply_all s (l ++ [o]) = apply1 (apply_all s l) o.
Proof. rewrite apply_all_app. reflexivity. Qed.

Lemma present_step c e f : present c f -> (forall p, e = EDelete p -> p <> f) -> present (cstep c e) f.
Proof.
  unfold present. intros H Hd. destruct e as [p|p|fs o|p| |o]; cbn [cstep base pend].
  - rewrite apply_all_snoc. cbn [apply1 ns_files]. now right.
  - exact H.
  - rewrite apply_all_snoc. cbn [apply1 ns_files]. exact H.
  - rewrite apply_all_snoc. cbn [apply1 ns_files]. apply filter_In. split; [exact H|].
    apply negb_true_iff, N.eqb_neq. now apply Hd.
  - exact H.
  - exact H.
Qed.

Lemma present_create c p : present (cstep c (ECreate p)) p.
Proof. unfold present. cbn [cstep base pend]. rewrite apply_all_snoc. cbn [apply1 ns_files]. now left. Qed.

Lemma term_step c e f : In f (term c) -> In f (term (cstep c e)).
Proof. intros H. destruct e; cbn [cstep term]; auto. now right. Qed.

Lemma term_terminate c p : In p (term (cstep c (ETerminate p))).
Proof. cbn [cstep term]. now left. Qed.

Lemma okf_step c e f : okf c f -> (forall p, e = EDelete p -> p <> f) -> okf (cstep c e) f.
Proof. intros [A B] Hd. split; [apply present_step; assumption|apply term_step; assumption]. Qed.

Lemma ct_not_delete e : is_ct e -> forall p, e = EDelete p -> forall f : path, p <> f.
Proof. intros H p ->. contradiction. Qed.

Lemma okf_runs_ct t : Forall is_ct t -> forall c f, okf c f -> okf (runs c t) f.
Proof.
  induction 1 as [|e t He _ IH]; intros c f H; [exact H|].
  cbn [runs fold_left]. apply IH. apply okf_step; [exact H|]. intros p E. now apply ct_not_delete with (e := e).
Qed.

Lemma check_ct c e : is_ct e -> check c e = true.
Proof. destruct e; cbn; intros H; try contradiction; reflexivity. Qed.

Lemma apply_all_nometa l : forall s, pend_metas l = [] -> ns_meta (apply_all s l) = ns_meta s.
Proof.
  induction l as [|o l IH]; intros s H; [reflexivity|].
  cbn [apply_all fold_left]. destruct o as [p|p|g]; cbn [pend_metas flat_map app] in H; try discriminate;
    (etransitivity; [apply IH; exact H|reflexivity]).
Qed.

(* ---------- the part of the invariant that speaks about meta.json and the referenced files ---------- *)
(* ms / mo: segments and opstamp of the active meta; lv: further files that must stay usable *)
Definition InvC (ms : list seg) (mo : N) (lv : list path) (c : cst) : Prop :=
  (exists g, ns_meta (base c) = Some g /\ files_of c g = segs_files ms /\ opstamp_of c g = mo) /\
  pend_metas (pend c) = [] /\
  (forall f, In f (segs_files ms ++ lv) -> okf c f).

Lemma InvC_weaken ms mo lv lv' c : InvC ms mo lv c -> incl lv' (segs_files ms ++ lv) -> InvC ms mo lv' c.
Proof.
  intros (A & B & C) Hi. split; [exact A|]. split; [exact B|].
  intros f Hf. apply C. apply in_app_or in Hf. destruct Hf as [Hf|Hf]; [apply in_or_app; now left|now apply Hi].
Qed.

Lemma InvC_step ms mo lv c e : InvC ms mo lv c ->
  match e with EMetaWrite _ _ => False | EDelete p => ~ In p (segs_files ms ++ lv) | _ => True end ->
  InvC ms mo lv (cstep c e).
Proof.
  intros ((g & A1 & A2 & A3) & B & C) He.
  assert (Hok : forall f, In f (segs_files ms ++ lv) -> okf (cstep c e) f).
  { intros f Hf. apply okf_step; [now apply C|]. intros p ->. intros ->. now apply He. }
  destruct e as [p|p|fs o|p| |o]; try contradiction.
  - split; [exists g; auto|]. split; [|exact Hok].
    cbn [cstep pend]. rewrite pend_metas_app, B. reflexivity.
  - split; [exists g; auto|]. split; [exact B|exact Hok].
  - split; [exists g; auto|]. split; [|exact Hok].
    cbn [cstep pend]. rewrite pend_metas_app, B. reflexivity.
  - split; [|split; [reflexivity|exact Hok]].
    exists g. split; [|auto]. cbn [cstep base]. rewrite apply_all_nometa; assumption.
  - split; [exists g; auto|]. split; [exact B|exact Hok].
Qed.

Lemma InvC_ct ms mo lv c e : is_ct e -> InvC ms mo lv c -> InvC ms mo lv (cstep c e).
Proof. intros He H. apply InvC_step; [exact H|]. destruct e; try contradiction; exact I. Qed.

Lemma ct_ok ms mo lv t : Forall is_ct t -> forall c, InvC ms mo lv c ->
  monitor_from c t = true /\ InvC ms mo lv (runs c t).
Proof.
  induction 1 as [|e t He _ IH]; intros c H; [split; [reflexivity|exact H]|].
  cbn [monitor_from runs fold_left]. rewrite check_ct by exact He. cbn [andb].
  apply IH. apply InvC_ct; assumption.
Qed.

Lemma mem_false p l : ~ In p l -> mem p l = false.
Proof. intros H. destruct (mem p l) eqn:E; [|reflexivity]. apply mem_In in E. contradiction. Qed.

Lemma check_delete ms mo lv c p : InvC ms mo lv c -> ~ In p (segs_files ms) -> check c (EDelete p) = true.
Proof.
  intros ((g & A1 & A2 & A3) & B & _) Hp. cbn [check]. unfold possible. rewrite A1, B.
  cbn [app forallb]. rewrite A2, mem_false by exact Hp. reflexivity.
Qed.

Lemma check_ret ms mo lv c : InvC ms mo lv c -> check c (ECommitRet mo) = true.
Proof. intros ((g & A1 & A2 & A3) & _). cbn [check]. rewrite A1, A3. apply N.eqb_refl. Qed.

Lemma dels_ok ms mo lv dead : forall c, InvC ms mo lv c ->
  (forall p, In p dead -> ~ In p (segs_files ms ++ lv)) ->
  monitor_from c (map EDelete dead) = true /\ InvC ms mo lv (runs c (map EDelete dead)).
Proof.
  induction dead as [|p dead IH]; intros c H Hd; [split; [reflexivity|exact H]|].
  cbn [map monitor_from runs fold_left].
  assert (Hp : ~ In p (segs_files ms ++ lv)) by (apply Hd; now left).
  rewrite (check_delete ms mo lv) by (try exact H; intros X; apply Hp, in_or_app; now left).
  cbn [andb]. apply IH; [apply InvC_step; assumption|]. intros q Hq. apply Hd. now right.
Qed.

Lemma nth_last {A} (l : list A) x d : nth (N.to_nat (N.of_nat (length l))) (l ++ [x]) d = x.
Proof. rewrite Nat2N.id, app_nth2, Nat.sub_diag by lia. reflexivity. Qed.

(* save_metas, as in the code: sync; atomic write; sync *)
Lemma save_ok ms mo lv c ms' o lv' :
  InvC ms mo lv c ->
  (forall f, In f (segs_files ms' ++ lv') -> okf c f) ->
  let t := [ESyncDir; EMetaWrite (segs_files ms') o; ESyncDir] in
  monitor_from c t = true /\ InvC ms' o lv' (runs c t).
Proof.
  intros (_ & B & _) Hok t. split.
  - cbn [t monitor_from check andb cstep base pend term]. rewrite andb_true_r.
    apply forallb_forall. intros f Hf.
    destruct (Hok f) as [P T]; [apply in_or_app; now left|].
    rewrite (proj2 (mem_In f _) P), (proj2 (mem_In f _) T). reflexivity.
  - cbn [t runs fold_left]. split; [|split].
    + exists (ngen c). cbn [cstep base pend app apply_all fold_left apply1 ns_meta]. split; [reflexivity|].
      unfold files_of, opstamp_of, ngen. cbn [gens]. rewrite !nth_last. split; reflexivity.
    + reflexivity.
    + intros f Hf. destruct (Hok f Hf) as [P T]. split; [|exact T]. exact P.
Qed.

(* ---------- (2) simulation: extra creations / terminations never hurt ---------- *)
Inductive ins_links : list dirop -> list dirop -> Prop :=
| il_nil : ins_links [] []
| il_both o l l' : ins_links l l' -> ins_links (o :: l) (o :: l')
| il_link p l l' : ins_links l l' -> ins_links l (Link p :: l').

Lemma ins_links_refl l : ins_links l l.
Proof. induction l as [|o l IH]; constructor; exact IH. Qed.

Lemma ins_links_app a b c d : ins_links a b -> ins_links c d -> ins_links (a ++ c) (b ++ d).
Proof. induction 1 as [|o l l' _ IH|p l l' _ IH]; intros H; cbn [app]; [exact H|constructor; auto|constructor; auto]. Qed.

Lemma ins_links_snoc a b o : ins_links a b -> ins_links (a ++ [o]) (b ++ [o]).
Proof. intros H. apply ins_links_app; [exact H|apply ins_links_refl]. Qed.

Lemma ins_links_snoc_link a b p : ins_links a b -> ins_links a (b ++ [Link p]).
Proof. intros H. rewrite <- (app_nil_r a). apply ins_links_app; [exact H|]. constructor. constructor. Qed.

Lemma ins_pend_metas l l' : ins_links l l' -> pend_metas l' = pend_metas l.
Proof.
  induction 1 as [|o l l' _ IH|p l l' _ IH]; [reflexivity| |exact IH].
  change (pend_metas (o :: l')) with (pend_metas ([o] ++ l')). change (pend_metas (o :: l)) with (pend_metas ([o] ++ l)).
  rewrite !pend_metas_app, IH. reflexivity.
Qed.

Lemma ins_unlink f l l' : ins_links l l' -> pending_unlink f l' = pending_unlink f l.
Proof.
  induction 1 as [|o l l' _ IH|p l l' _ IH]; [reflexivity| |exact IH].
  unfold pending_unlink in *. cbn [existsb]. rewrite IH. reflexivity.
Qed.

Lemma apply1_mono s s' o : ns_meta s = ns_meta s' -> incl (ns_files s) (ns_files s') ->
  ns_meta (apply1 s o) = ns_meta (apply1 s' o) /\ incl (ns_files (apply1 s o)) (ns_files (apply1 s' o)).
Proof.
  intros Hm Hi. destruct o as [p|p|g]; cbn [apply1 ns_meta ns_files]; split; auto.
  - intros f [->|Hf]; [now left|right; now apply Hi].
  - intros f Hf. apply filter_In in Hf. apply filter_In. split; [apply Hi|]; tauto.
Qed.

Lemma ins_apply l l' : ins_links l l' -> forall s s', ns_meta s = ns_meta s' -> incl (ns_files s) (ns_files s') ->
  ns_meta (apply_all s l) = ns_meta (apply_all s' l') /\ incl (ns_files (apply_all s l)) (ns_files (apply_all s' l')).
Proof.
  induction 1 as [|o l l' _ IH|p l l' _ IH]; intros s s' Hm Hi; cbn [apply_all fold_left].
  - split; assumption.
  - destruct (apply1_mono s s' o Hm Hi) as [A B]. apply IH; assumption.
  - apply IH; cbn [apply1 ns_meta ns_files]; [exact Hm|]. intros f Hf. right. now apply Hi.
Qed.

Record R (a b : cst) : Prop := {
  r_gens : gens a = gens b;
  r_ret : returned a = returned b;
  r_meta : ns_meta (base a) = ns_meta (base b);
  r_files : incl (ns_files (base a)) (ns_files (base b));
  r_term : incl (term a) (term b);
  r_pend : ins_links (pend a) (pend b)
}.

Lemma R_refl c : R c c.
Proof. split; try reflexivity; try apply incl_refl. apply ins_links_refl. Qed.

Lemma R_check a b e : R a b -> check a e = true -> check b e = true.
Proof.
  intros [Hg Hr Hm Hf Ht Hp] H. destruct e as [p|p|fs o|p| |o]; cbn [check] in *; try reflexivity.
  - rewrite forallb_forall in *. intros f Hin. specialize (H f Hin).
    apply andb_true_iff in H. destruct H as [H C]. apply andb_true_iff in H. destruct H as [A B].
    apply mem_In in A. apply mem_In in B.
    rewrite (proj2 (mem_In f _) (Hf f A)), (proj2 (mem_In f _) (Ht f B)), (ins_unlink f _ _ Hp). exact C.
  - unfold possible in *. rewrite <- Hm, (ins_pend_metas _ _ Hp). unfold files_of in *. rewrite <- Hg. exact H.
  - rewrite <- Hm. unfold opstamp_of in *. rewrite <- Hg. exact H.
Qed.

Lemma R_step a b e : R a b -> R (cstep a e) (cstep b e).
Proof.
  intros [Hg Hr Hm Hf Ht Hp]. destruct e as [p|p|fs o|p| |o]; split; cbn [cstep base pend term gens returned]; auto.
  - now apply ins_links_snoc.
  - intros f [->|H]; [now left|right; now apply Ht].
  - now rewrite Hg.
  - unfold ngen. rewrite Hg. now apply ins_links_snoc.
  - now apply ins_links_snoc.
  - apply (ins_apply _ _ Hp); assumption.
  - apply (ins_apply _ _ Hp); assumption.
  - constructor.
  - rewrite Hm, Hr. reflexivity.
Qed.

Lemma R_bg a b e : is_ct e -> R a b -> R a (cstep b e).
Proof.
  intros He [Hg Hr Hm Hf Ht Hp]. destruct e as [p|p|fs o|p| |o]; try contradiction; split; cbn [cstep base pend term gens returned]; auto.
  - now apply ins_links_snoc_link.
  - intros f H. right. now apply Ht.
Qed.

(* w is t with creations / terminations inserted *)
Inductive woven : list ev -> list ev -> Prop :=
| wv_nil : woven [] []
| wv_fg e t w : woven t w -> woven (e :: t) (e :: w)
| wv_bg e t w : is_ct e -> woven t w -> woven t (e :: w).

Lemma woven_ok t w : woven t w -> forall a b, R a b -> monitor_from a t = true ->
  monitor_from b w = true /\ R (runs a t) (runs b w).
Proof.
  induction 1 as [|e t w _ IH|e t w He _ IH]; intros a b HR Hm.
  - split; [reflexivity|exact HR].
  - cbn [monitor_from runs fold_left] in *. apply andb_true_iff in Hm. destruct Hm as [Hc Hm].
    rewrite (R_check a b e HR Hc). cbn [andb]. apply IH; [now apply R_step|exact Hm].
  - cbn [monitor_from runs fold_left]. rewrite check_ct by exact He. cbn [andb].
    apply IH; [now apply R_bg|exact Hm].
Qed.

Lemma woven_bg_prefix b t w : Forall is_ct b -> woven t w -> woven t (b ++ w).
Proof. induction 1 as [|e b He _ IH]; intros H; cbn [app]; [exact H|apply wv_bg; auto]. Qed.

Lemma woven_bg_only b : Forall is_ct b -> woven [] b.
Proof. intros H. rewrite <- (app_nil_r b). apply woven_bg_prefix; [exact H|constructor]. Qed.

Lemma InvC_R ms mo lv a b : InvC ms mo lv a -> R a b -> InvC ms mo lv b.
Proof.
  intros ((g & A1 & A2 & A3) & B & C) [Hg Hr Hm Hf Ht Hp]. split; [|split].
  - exists g. unfold files_of, opstamp_of in *. rewrite <- Hm, <- Hg. auto.
  - rewrite (ins_pend_metas _ _ Hp). exact B.
  - intros f Hin. destruct (C f Hin) as [P T]. split; [|now apply Ht].
    unfold present in *. exact (proj2 (ins_apply _ _ Hp _ _ Hm Hf) f P).
Qed.

(* ---------- (3) jobs ---------- *)
Definition JI (c : cst) (j : job) : Prop :=
  forall f, In f (jfiles j) ->
    (~ In (ECreate f) (jtodo j) -> present c f) /\ (~ In (ETerminate f) (jtodo j) -> In f (term c)).
Definition JWF (j : job) : Prop := incl (jout j) (jfiles j) /\ Forall is_ct (jtodo j).
Definition JobInv (js : list job) (c : cst) : Prop := Forall (JI c) js.
Definition JobsWF (js : list job) : Prop := Forall JWF js.
(* the updater never deletes a file of a running job *)
Definition nodel (js : list job) (t : list ev) : Prop :=
  forall p, In (EDelete p) t -> forall j, In j js -> ~ In p (jfiles j).

Lemma JI_step c e j : JI c j -> (forall p, e = EDelete p -> ~ In p (jfiles j)) -> JI (cstep c e) j.
Proof.
  intros H Hd f Hf. destruct (H f Hf) as [A B]. split; intros Hn.
  - apply present_step; [now apply A|]. intros p -> ->. exact (Hd f eq_refl Hf).
  - apply term_step. now apply B.
Qed.

Lemma JI_ct c e j : is_ct e -> JI c j -> JI (cstep c e) j.
Proof. intros He H. apply JI_step; [exact H|]. intros p ->. contradiction. Qed.

Lemma JobInv_ct c e js : is_ct e -> JobInv js c -> JobInv js (cstep c e).
Proof. intros He H. eapply Forall_impl; [|exact H]. intros j. now apply JI_ct. Qed.

Lemma JobInv_runs_ct t : Forall is_ct t -> forall c js, JobInv js c -> JobInv js (runs c t).
Proof. induction 1 as [|e t He _ IH]; intros c js H; [exact H|]. cbn [runs fold_left]. apply IH. now apply JobInv_ct. Qed.

Lemma JI_pop c j e r : jtodo j = e :: r -> is_ct e -> JI c j -> JI (cstep c e) (pop j).
Proof.
  intros Ht He H f Hf. cbn [pop jfiles jtodo] in *. rewrite Ht. cbn [tl].
  destruct (H f Hf) as [A B]. rewrite Ht in A, B. split; intros Hn.
  - destruct e as [p|p|fs o|p| |o]; try contradiction.
    + destruct (N.eq_dec p f) as [->|Hne]; [apply present_create|].
      apply present_step; [|intros q E; discriminate]. apply A. intros [E|E]; [injection E as E; contradiction|contradiction].
    + apply present_step; [|intros q E; discriminate]. apply A. intros [E|E]; [discriminate|contradiction].
  - destruct e as [p|p|fs o|p| |o]; try contradiction.
    + apply term_step. apply B. intros [E|E]; [discriminate|contradiction].
    + destruct (N.eq_dec p f) as [->|Hne]; [apply term_terminate|].
      apply term_step. apply B. intros [E|E]; [injection E as E; contradiction|contradiction].
Qed.

Lemma JWF_pop j : JWF j -> JWF (pop j).
Proof.
  intros [A B]. split; [exact A|]. cbn [pop jtodo]. destruct (jtodo j) as [|e r]; [constructor|].
  cbn [tl]. now inversion B.
Qed.

Lemma step_inv js i : forall c, JobsWF js -> JobInv js c ->
  JobInv (step_js js i) (runs c (step_ev js i)) /\ JobsWF (step_js js i) /\ Forall is_ct (step_ev js i).
Proof.
  induction js as [|j r IH]; intros c Hw Hi; cbn [step_js step_ev].
  - repeat split; constructor.
  - inversion Hw as [|? ? Hwj Hwr]; subst. inversion Hi as [|? ? Hij Hir]; subst.
    destruct (N.eqb (jid j) i).
    + destruct (jtodo j) as [|e t] eqn:Et; cbn [firstn].
      * cbn [runs fold_left]. repeat split; try constructor; auto.
        -- intros f Hf. cbn [pop jfiles jtodo] in *. rewrite Et. cbn [tl]. specialize (Hij f Hf). now rewrite Et in Hij.
        -- now apply JWF_pop.
      * assert (He : is_ct e) by (destruct Hwj as [_ B]; rewrite Et in B; now inversion B).
        cbn [runs fold_left]. repeat split.
        -- constructor; [now apply (JI_pop c j e t)|now apply JobInv_ct].
        -- constructor; [now apply JWF_pop|exact Hwr].
        -- constructor; [exact He|constructor].
    + destruct (IH c Hwr Hir) as (A & B & C). repeat split.
      * constructor; [|exact A]. assert (X : JobInv [j] (runs c (step_ev r i))) by (apply JobInv_runs_ct; [exact C|now constructor]).
        now inversion X.
      * constructor; assumption.
      * exact C.
Qed.

Lemma step_js_files js i : forall j', In j' (step_js js i) -> exists j, In j js /\ jfiles j' = jfiles j.
Proof.
  induction js as [|j r IH]; intros j' H; cbn [step_js] in H; [contradiction|].
  destruct (N.eqb (jid j) i).
  - destruct H as [E|H]; [exists j; split; [now left|now subst j']|exists j'; split; [now right|reflexivity]].
  - destruct H as [E|H]; [exists j'; split; [now left|reflexivity]|].
    destruct (IH j' H) as (j0 & A & B). exists j0. split; [now right|exact B].
Qed.

Lemma nodel_step js i t : nodel js t -> nodel (step_js js i) t.
Proof.
  intros H p Hp j' Hj'. destruct (step_js_files js i j' Hj') as (j & A & B). rewrite B. now apply (H p Hp j).
Qed.

Definition core_eq (a b : pst) : Prop :=
  committed b = committed a /\ uncommitted b = uncommitted a /\ meta_segs b = meta_segs a /\ meta_op b = meta_op a.

Lemma core_eq_refl a : core_eq a a.
Proof. repeat split. Qed.
Lemma core_eq_trans a b c : core_eq a b -> core_eq b c -> core_eq a c.
Proof. intros (A1 & A2 & A3 & A4) (B1 & B2 & B3 & B4). repeat split; congruence. Qed.

Lemma Forall_incl {A} (P : A -> Prop) l l' : incl l' l -> Forall P l -> Forall P l'.
Proof. intros Hi H. apply Forall_forall. intros x Hx. exact (proj1 (Forall_forall _ _) H x (Hi x Hx)). Qed.

Lemma remove_job_incl js i : incl (remove_job js i) js.
Proof.
  induction js as [|j r IH]; intros x Hx; cbn [remove_job] in Hx; [contradiction|].
  destruct (N.eqb (jid j) i); [now right|]. destruct Hx as [<-|Hx]; [now left|right; now apply IH].
Qed.

Lemma nodel_incl js js' t : incl js' js -> nodel js t -> nodel js' t.
Proof. intros Hi H p Hp j Hj. apply (H p Hp j). now apply Hi. Qed.

Lemma bg_step_inv a : forall st c, JobsWF (jobs st) -> JobInv (jobs st) c ->
  JobInv (jobs (bg_step st a)) (runs c (bg_ev st a)) /\ JobsWF (jobs (bg_step st a)) /\
  Forall is_ct (bg_ev st a) /\ core_eq st (bg_step st a) /\
  (forall t, nodel (jobs st) t -> nodel (jobs (bg_step st a)) t).
Proof.
  intros st c Hw Hi. destruct a as [i|i]; cbn [bg_step bg_ev].
  - destruct (step_inv (jobs st) i c Hw Hi) as (A & B & C).
    split; [exact A|]. split; [exact B|]. split; [exact C|]. split; [repeat split|].
    intros t Ht. cbn [jobs]. now apply nodel_step.
  - cbn [runs fold_left set_jobs jobs]. split; [|split; [|split; [constructor|split; [repeat split|]]]].
    + exact (Forall_incl _ _ _ (remove_job_incl _ i) Hi).
    + exact (Forall_incl _ _ _ (remove_job_incl _ i) Hw).
    + intros t Ht. exact (nodel_incl _ _ _ (remove_job_incl _ i) Ht).
Qed.

Lemma bg_inv l : forall st c, JobsWF (jobs st) -> JobInv (jobs st) c ->
  JobInv (jobs (bg_st st l)) (runs c (bg_evs st l)) /\ JobsWF (jobs (bg_st st l)) /\
  Forall is_ct (bg_evs st l) /\ core_eq st (bg_st st l) /\
  (forall t, nodel (jobs st) t -> nodel (jobs (bg_st st l)) t).
Proof.
  induction l as [|a r IH]; intros st c Hw Hi; cbn [bg_st bg_evs].
  - split; [exact Hi|]. split; [exact Hw|]. split; [constructor|]. split; [apply core_eq_refl|auto].
  - destruct (bg_step_inv a st c Hw Hi) as (A & B & C & D & E).
    destruct (IH (bg_step st a) (runs c (bg_ev st a)) B A) as (A' & B' & C' & D' & E').
    rewrite runs_app. split; [exact A'|]. split; [exact B'|]. split; [|split].
    + apply Forall_app. split; assumption.
    + exact (core_eq_trans _ _ _ D D').
    + intros t Ht. apply E'. now apply E.
Qed.

Lemma nodel_tail js e t : nodel js (e :: t) -> nodel js t.
Proof. intros H p Hp. apply H. now right. Qed.

Lemma weave_inv evs : forall st sc c, JobsWF (jobs st) -> JobInv (jobs st) c -> nodel (jobs st) evs ->
  woven evs (weave_evs st evs sc) /\
  JobInv (jobs (weave_st st evs sc)) (runs c (weave_evs st evs sc)) /\
  JobsWF (jobs (weave_st st evs sc)) /\ core_eq st (weave_st st evs sc).
Proof.
  induction evs as [|e r IH]; intros st sc c Hw Hi Hn; cbn [weave_evs weave_st].
  - destruct (bg_inv (hd [] sc) st c Hw Hi) as (A & B & C & D & _).
    split; [now apply woven_bg_only|]. split; [exact A|]. split; [exact B|exact D].
  - destruct (bg_inv (hd [] sc) st c Hw Hi) as (A & B & C & D & E).
    set (st' := bg_st st (hd [] sc)) in *. set (b := bg_evs st (hd [] sc)) in *.
    assert (Hn' : nodel (jobs st') (e :: r)) by now apply E.
    assert (A2 : JobInv (jobs st') (cstep (runs c b) e)).
    { apply Forall_forall. intros j Hj. apply JI_step; [exact (proj1 (Forall_forall _ _) A j Hj)|].
      intros p ->. apply (Hn' p); [now left|exact Hj]. }
    destruct (IH st' (tl sc) (cstep (runs c b) e) B A2 (nodel_tail _ _ _ Hn')) as (W & A3 & B3 & D3).
    rewrite runs_app. cbn [runs fold_left]. split; [|split; [exact A3|split; [exact B3|]]].
    + apply woven_bg_prefix; [exact C|]. now constructor.
    + now apply (core_eq_trans _ st').
Qed.

(* ---------- (3') the invariant ---------- *)
Definition live (st : pst) : list path := segs_files (committed st) ++ segs_files (uncommitted st).
Definition Inv (st : pst) (c : cst) : Prop :=
  InvC (meta_segs st) (meta_op st) (live st) c /\ JobsWF (jobs st) /\ JobInv (jobs st) c.

Definition cfg_ok (cfg : pcfg) : Prop :=
  pre_sync cfg = PreAlways /\ post_sync cfg = true /\ gc_protects_committed cfg = true.

(* what a (sequentially executed) piece of an updater task establishes *)
Definition ok (js : list job) (c : cst) (t : list ev) (ms : list seg) (mo : N) (lv : list path) : Prop :=
  monitor_from c t = true /\ InvC ms mo lv (runs c t) /\ nodel js t.

Lemma ok_app js c t1 t2 ms1 mo1 lv1 ms2 mo2 lv2 :
  ok js c t1 ms1 mo1 lv1 -> ok js (runs c t1) t2 ms2 mo2 lv2 -> ok js c (t1 ++ t2) ms2 mo2 lv2.
Proof.
  intros (A1 & B1 & C1) (A2 & B2 & C2). split; [|split].
  - rewrite monitor_app, A1, A2. reflexivity.
  - rewrite runs_app. exact B2.
  - intros p Hp. apply in_app_or in Hp. destruct Hp; [now apply C1|now apply C2].
Qed.

Lemma InvC_relv ms mo lv lv' c : InvC ms mo lv c -> (forall f, In f lv' -> okf c f) -> InvC ms mo lv' c.
Proof.
  intros (A & B & C) H. split; [exact A|]. split; [exact B|].
  intros f Hf. apply in_app_or in Hf. destruct Hf as [Hf|Hf]; [apply C, in_or_app; now left|now apply H].
Qed.

Lemma InvC_okf ms mo lv c f : InvC ms mo lv c -> In f (segs_files ms ++ lv) -> okf c f.
Proof. intros (_ & _ & C). apply C. Qed.

Lemma ok_nil js c ms mo lv : InvC ms mo lv c -> ok js c [] ms mo lv.
Proof. intros H. split; [reflexivity|]. split; [exact H|]. intros p []. Qed.

Lemma ct_no_delete t p : Forall is_ct t -> ~ In (EDelete p) t.
Proof. intros H Hin. apply (proj1 (Forall_forall _ _) H) in Hin. contradiction. Qed.

Lemma del_evs_ct ds : Forall is_ct (del_evs ds).
Proof. induction ds as [|d r IH]; cbn [del_evs flat_map app]; [constructor|]. constructor; [exact I|]. constructor; [exact I|exact IH]. Qed.

Lemma del_evs_okf ds : forall c d, In d ds -> okf (runs c (del_evs ds)) d.
Proof.
  induction ds as [|x r IH]; intros c d H; [contradiction|].
  change (del_evs (x :: r)) with (ECreate x :: ETerminate x :: del_evs r). cbn [runs fold_left].
  destruct H as [->|H]; [|now apply IH].
  apply (okf_runs_ct _ (del_evs_ct r)). split; [|apply term_terminate].
  apply present_step; [apply present_create|]. intros p E. discriminate.
Qed.

(* advance_deletes on some entries *)
Lemma ok_dels js c ds ms mo lv : InvC ms mo lv c -> ok js c (del_evs ds) ms mo (lv ++ ds).
Proof.
  intros H. destruct (ct_ok ms mo lv _ (del_evs_ct ds) c H) as [A B]. split; [exact A|]. split.
  - apply (InvC_relv _ _ lv); [exact B|]. intros f Hf. apply in_app_or in Hf. destruct Hf as [Hf|Hf].
    + apply (InvC_okf _ _ _ _ _ B). apply in_or_app. now right.
    + now apply del_evs_okf.
  - intros p Hp. exfalso. exact (ct_no_delete _ p (del_evs_ct ds) Hp).
Qed.

Lemma ok_save js c ms mo lv ms' o lv' : InvC ms mo lv c ->
  (forall f, In f (segs_files ms' ++ lv') -> okf c f) ->
  ok js c [ESyncDir; EMetaWrite (segs_files ms') o; ESyncDir] ms' o lv'.
Proof.
  intros H Hok. destruct (save_ok ms mo lv c ms' o lv' H Hok) as [A B]. split; [exact A|]. split; [exact B|].
  intros p [E|[E|[E|[]]]]; discriminate.
Qed.

Lemma ok_ret js c ms mo lv : InvC ms mo lv c -> ok js c [ECommitRet mo] ms mo lv.
Proof.
  intros H. split; [|split].
  - cbn [monitor_from]. rewrite (check_ret ms mo lv c H). reflexivity.
  - cbn [runs fold_left]. apply InvC_step; [exact H|exact I].
  - intros p [E|[]]. discriminate.
Qed.

Lemma ok_relv js c t ms mo lv lv' : ok js c t ms mo lv -> incl lv' (segs_files ms ++ lv) -> ok js c t ms mo lv'.
Proof. intros (A & B & C) H. split; [exact A|]. split; [now apply (InvC_weaken _ _ lv)|exact C]. Qed.

(* ---------- (4) the updater tasks, executed sequentially ---------- *)
Lemma segs_files_app a b : segs_files (a ++ b) = segs_files a ++ segs_files b.
Proof. apply flat_map_app. Qed.

Lemma segs_files_filter p l : incl (segs_files (filter p l)) (segs_files l).
Proof.
  intros f Hf. unfold segs_files in *. apply in_flat_map in Hf. destruct Hf as (s & Hs & Hf).
  apply filter_In in Hs. apply in_flat_map. exists s. tauto.
Qed.

Lemma adv_files dels l : forall np f, In f (segs_files (adv_segs dels l np)) ->
  In f (segs_files l) \/ In f (adv_new dels l np).
Proof.
  induction l as [|s r IH]; intros np f H; cbn [adv_segs adv_new] in *; [contradiction|].
  destruct (mem (sid s) dels).
  - cbn [segs_files flat_map] in *. apply in_app_or in H. destruct H as [H|H].
    + unfold seg_files in H. cbn [sfiles sdel] in H. apply in_app_or in H. destruct H as [H|[<-|[]]].
      * left. apply in_or_app. left. unfold seg_files. apply in_or_app. now left.
      * right. now left.
    + destruct (IH _ _ H) as [A|A]; [left; apply in_or_app; now right|right; now right].
  - cbn [segs_files flat_map] in *. apply in_app_or in H. destruct H as [H|H]; [left; apply in_or_app; now left|].
    destruct (IH _ _ H) as [A|A]; [left; apply in_or_app; now right|right; exact A].
Qed.

Lemma gc_ok cfg st c : cfg_ok cfg -> InvC (meta_segs st) (meta_op st) (live st) c ->
  ok (jobs st) c (snd (gc cfg st)) (meta_segs st) (meta_op st) (live st).
Proof.
  intros (_ & _ & Hg) H. unfold gc. cbn [snd].
  set (lv := living cfg st). remember (filter (fun p => negb (mem p lv)) (managed st)) as dead eqn:Hd.
  assert (Hdead : forall p, In p dead -> ~ In p lv).
  { intros p Hp. rewrite Hd in Hp. apply filter_In in Hp. destruct Hp as [_ Hp]. apply negb_true_iff in Hp.
    intros X. apply mem_In in X. congruence. }
  assert (Hlv : forall p, In p (segs_files (meta_segs st) ++ live st) -> In p lv).
  { unfold lv, living, live. rewrite Hg. intros p Hp. rewrite !in_app_iff in *. tauto. }
  assert (Hj : forall p j, In j (jobs st) -> In p (jfiles j) -> In p lv).
  { unfold lv, living. intros p j Hj Hp. rewrite !in_app_iff. right. right. apply in_flat_map.
    exists j. split; [exact Hj|apply in_or_app; now left]. }
  destruct (dels_ok (meta_segs st) (meta_op st) (live st) dead c H) as [A B].
  { intros p Hp X. apply (Hdead p Hp). now apply Hlv. }
  assert (Hnd : nodel (jobs st) (map EDelete dead)).
  { intros p Hp j Hj' X. apply in_map_iff in Hp. destruct Hp as (q & E & Hq). injection E as ->.
    apply (Hdead p Hq). now apply (Hj p j). }
  clear Hd. destruct dead as [|d0 dr].
  - rewrite app_nil_r. split; [exact A|split; [exact B|exact Hnd]].
  - apply (ok_app _ _ _ _ (meta_segs st) (meta_op st) (live st)); [split; [exact A|split; [exact B|exact Hnd]]|].
    split; [reflexivity|]. split; [cbn [runs fold_left]; apply InvC_step; [exact B|exact I]|].
    intros p [E|[]]; discriminate.
Qed.

Lemma save_metas_ok cfg o empties st c js : cfg_ok cfg -> InvC (meta_segs st) (meta_op st) (live st) c ->
  let st' := fst (save_metas cfg o empties st) in
  ok js c (snd (save_metas cfg o empties st)) (meta_segs st') (meta_op st') (live st') /\
  meta_op st' = o /\ jobs st' = jobs st.
Proof.
  intros (Hpre & Hpost & _) H. unfold save_metas. rewrite Hpre, Hpost.
  cbn [fst snd app meta_segs meta_op live committed uncommitted jobs]. split; [|split; reflexivity].
  apply (ok_save _ _ _ _ _ _ _ _ H). intros f Hf. apply (InvC_okf _ _ _ _ _ H).
  unfold live in *. cbn [committed uncommitted] in Hf. rewrite !in_app_iff in *. right.
  destruct Hf as [Hf|[Hf|Hf]]; [left|left|right; exact Hf]; unfold nonempty in Hf; exact (segs_files_filter _ _ f Hf).
Qed.



Lemma find_job_In js i j : find_job js i = Some j -> In j js /\ jid j = i.
Proof.
  induction js as [|x r IH]; cbn [find_job]; [discriminate|].
  destruct (N.eqb_spec (jid x) i) as [E|E]; intros H.
  - injection H as <-. split; [now left|exact E].
  - destruct (IH H) as [A B]. split; [now right|exact B].
Qed.


Lemma ok_jobs_incl js js' c t ms mo lv : incl js' js -> ok js c t ms mo lv -> ok js' c t ms mo lv.
Proof. intros Hi (A & B & C). split; [exact A|]. split; [exact B|]. now apply (nodel_incl js). Qed.

(* what an updater task must establish for the interleaving argument *)
Definition OpOk (st : pst) (c : cst) (r : pst * list ev) : Prop :=
  ok (jobs (fst r)) c (snd r) (meta_segs (fst r)) (meta_op (fst r)) (live (fst r)) /\
  JobsWF (jobs (fst r)) /\ JobInv (jobs (fst r)) c.

Lemma commit_publish_ok cfg dels empties st c : cfg_ok cfg -> Inv st c ->
  OpOk st c (commit_publish cfg dels empties st).
Proof.
  intros Hc (H & Hw & Hj). unfold commit_publish.
  set (st1 := commit_pre dels st).
  set (r2 := save_metas cfg (next_op st) empties st1).
  assert (H1 : ok (jobs st) c (del_evs (commit_new dels st)) (meta_segs st1) (meta_op st1) (live st1)).
  { apply (ok_relv _ _ _ _ _ (live st ++ commit_new dels st)); [apply ok_dels; exact H|].
    unfold st1, commit_pre, live. cbn [committed uncommitted meta_segs segs_files flat_map]. rewrite app_nil_r.
    intros f Hf. apply adv_files in Hf. rewrite segs_files_app in Hf. unfold commit_new. rewrite !in_app_iff in *. tauto. }
  destruct (save_metas_ok cfg (next_op st) empties st1 (runs c (del_evs (commit_new dels st))) (jobs st) Hc (proj1 (proj2 H1)))
    as (H2 & Ho & Hj2).
  fold r2 in H2, Ho, Hj2.
  assert (H12 := ok_app _ _ _ _ _ _ _ _ _ _ H1 H2).
  unfold OpOk. cbn [fst snd]. rewrite Hj2. change (jobs st1) with (jobs st).
  split; [exact H12|split; assumption].
Qed.

Lemma commit_return_ok st c : Inv st c -> OpOk st c (commit_return st).
Proof.
  intros (H & Hw & Hj). split; [|split; assumption]. cbn [commit_return fst snd]. now apply ok_ret.
Qed.

Lemma em_entry_files withdel j st :
  incl (segs_files (em_entry withdel j st)) (jout j ++ em_dels withdel j st).
Proof.
  unfold em_entry, em_dels. destruct (jout j) as [|x r] eqn:E; [intros f []|].
  cbn [segs_files flat_map]. rewrite app_nil_r. unfold seg_files. cbn [sfiles sdel].
  destruct (em_wd withdel j); apply incl_refl.
Qed.

Lemma drop_ids_files l ids : incl (segs_files (drop_ids l ids)) (segs_files l).
Proof. apply segs_files_filter. Qed.

Lemma end_merge_live_ok cfg j ids withdel empties st c : cfg_ok cfg -> Inv st c ->
  In j (jobs st) -> jtodo j = [] -> OpOk st c (end_merge_live cfg j ids withdel empties st).
Proof.
  intros Hc (H & Hw & Hj) Hin Ht.
  assert (Hout : forall f, In f (jout j) -> okf c f).
  { intros f Hf. destruct (proj1 (Forall_forall _ _) Hw j Hin) as [Hio _].
    destruct (proj1 (Forall_forall _ _) Hj j Hin f (Hio f Hf)) as [A B]. rewrite Ht in A, B.
    split; [apply A|apply B]; intros []. }
  set (ds := em_dels withdel j st). set (st1 := em_pre withdel j ids st).
  assert (Hjs : incl (jobs st1) (jobs st)) by apply remove_job_incl.
  assert (Hw1 : JobsWF (jobs st1)) by exact (Forall_incl _ _ _ Hjs Hw).
  assert (Hj1 : JobInv (jobs st1) c) by exact (Forall_incl _ _ _ Hjs Hj).
  assert (H1 : ok (jobs st1) c (del_evs ds) (meta_segs st1) (meta_op st1) (live st1)).
  { apply (ok_relv _ _ _ _ _ ((live st ++ jout j) ++ ds)).
    - apply ok_dels. apply (InvC_relv _ _ (live st)); [exact H|]. intros f Hf. apply in_app_or in Hf.
      destruct Hf as [Hf|Hf]; [apply (InvC_okf _ _ _ _ _ H), in_or_app; now right|now apply Hout].
    - unfold st1, em_pre, live. cbn [committed uncommitted meta_segs]. fold ds.
      assert (He := em_entry_files withdel j st). fold ds in He.
      intros f Hf. rewrite !in_app_iff in *.
      destruct (contains_all (uncommitted st) ids); cbn [negb andb] in Hf.
      + destruct Hf as [Hf|Hf]; [tauto|]. rewrite segs_files_app, in_app_iff in Hf.
        destruct Hf as [Hf|Hf]; [apply drop_ids_files in Hf; tauto|]. apply He, in_app_or in Hf. tauto.
      + destruct (contains_all (committed st) ids).
        * destruct Hf as [Hf|Hf]; [|tauto]. rewrite segs_files_app, in_app_iff in Hf.
          destruct Hf as [Hf|Hf]; [apply drop_ids_files in Hf; tauto|]. apply He, in_app_or in Hf. tauto.
        * tauto. }
  unfold end_merge_live. fold ds st1.
  destruct (contains_all (uncommitted st) ids) eqn:Eu.
  - split; [exact H1|split; assumption].
  - destruct (contains_all (committed st) ids) eqn:Ec.
    + destruct (save_metas_ok cfg (meta_op st) empties st1 (runs c (del_evs ds)) (jobs st1) Hc (proj1 (proj2 H1)))
        as (H2 & Ho & Hj2).
      set (r2 := save_metas cfg (meta_op st) empties st1) in *.
      assert (H12 := ok_app _ _ _ _ _ _ _ _ _ _ H1 H2).
      unfold OpOk. cbn [fst snd]. rewrite Hj2. split; [exact H12|split; assumption].
    + split; [exact H1|split; assumption].
Qed.

Lemma end_merge_publish_ok cfg i withdel empties st c : cfg_ok cfg -> Inv st c ->
  OpOk st c (end_merge_publish cfg i withdel empties st).
Proof.
  intros Hc Hi. assert (Hi' := Hi). destruct Hi' as (H & Hw & Hj).
  assert (Hnop : OpOk st c (st, [])) by (split; [now apply ok_nil|split; assumption]).
  unfold end_merge_publish. destruct (find_job (jobs st) i) as [j|] eqn:Ef; [|exact Hnop].
  destruct (find_job_In _ _ _ Ef) as [Hin Hid].
  destruct (jkind_of j) as [|ids]; [exact Hnop|]. destruct (jtodo j) as [|e r] eqn:Et; [|exact Hnop].
  destruct (jdead j).
  - split; [apply ok_nil; exact H|].
    split; cbn [fst set_jobs jobs]; eapply Forall_incl; try apply remove_job_incl; assumption.
  - now apply end_merge_live_ok.
Qed.

(* scripts *)
Lemma close_order_In f l : In f (close_order l) <-> In f l.
Proof.
  destruct l as [|s [|x [|fn rest]]]; cbn [close_order]; try tauto.
  cbn [In]. rewrite in_app_iff. cbn [In]. tauto.
Qed.

Lemma map_ct_create l : Forall is_ct (map ECreate l).
Proof. apply Forall_forall. intros e He. apply in_map_iff in He. destruct He as (x & <- & _). exact I. Qed.
Lemma map_ct_term l : Forall is_ct (map ETerminate l).
Proof. apply Forall_forall. intros e He. apply in_map_iff in He. destruct He as (x & <- & _). exact I. Qed.

Lemma seg_script_ct files tmp : Forall is_ct (seg_script files tmp).
Proof.
  unfold seg_script. destruct tmp; repeat (apply Forall_app; split); try apply map_ct_create; apply map_ct_term.
Qed.

Lemma seg_script_In files tmp f : In f (files ++ tmp) ->
  In (ECreate f) (seg_script files tmp) /\ In (ETerminate f) (seg_script files tmp).
Proof.
  intros H. unfold seg_script. destruct tmp as [|t0 tr].
  - rewrite app_nil_r in H. rewrite !in_app_iff. split; [left|right]; apply in_map; [exact H|now apply close_order_In].
  - set (tmp := t0 :: tr) in *. apply in_app_or in H. rewrite !in_app_iff. destruct H as [H|H].
    + split; [|right; right; right; right; apply in_map; now apply close_order_In].
      destruct files as [|s r]; [contradiction|]. cbn [tl firstn]. destruct H as [->|H].
      * right. right. left. now left.
      * right. left. now apply in_map.
    + split; [left; now apply in_map|right; right; right; left; now apply in_map].
Qed.

Lemma del_evs_In ds d : In d ds -> In (ECreate d) (del_evs ds) /\ In (ETerminate d) (del_evs ds).
Proof.
  intros H. unfold del_evs. split; apply in_flat_map; exists d; (split; [exact H|cbn [In]; tauto]).
Qed.

Lemma JI_fresh c j : (forall f, In f (jfiles j) -> In (ECreate f) (jtodo j) /\ In (ETerminate f) (jtodo j)) -> JI c j.
Proof. intros H f Hf. destruct (H f Hf) as [A B]. split; intros Hn; contradiction. Qed.

Lemma kill_ok c js : JobsWF js -> JobInv js c -> JobsWF (map kill js) /\ JobInv (map kill js) c.
Proof.
  intros Hw Hj. split; apply Forall_forall; intros j' Hj'; apply in_map_iff in Hj'; destruct Hj' as (j & <- & Hin).
  - exact (proj1 (Forall_forall _ _) Hw j Hin).
  - exact (proj1 (Forall_forall _ _) Hj j Hin).
Qed.

Definition phase_ok (ph : phase) : Prop := forall st c, Inv st c -> OpOk st c (ph st).

Lemma nop_ok st c : Inv st c -> OpOk st c (st, []).
Proof. intros (H & Hw & Hj). split; [now apply ok_nil|split; assumption]. Qed.

Lemma gc_phase_ok cfg : cfg_ok cfg -> phase_ok (gc cfg).
Proof. intros Hc st c (H & Hw & Hj). split; [exact (gc_ok cfg st c Hc H)|split; assumption]. Qed.

Lemma drop_ok i : phase_ok (pure (fun st => set_jobs st (remove_job (jobs st) i))).
Proof.
  intros st c (H & Hw & Hj). split; [apply ok_nil; exact H|].
  split; cbn [pure fst set_jobs jobs]; eapply Forall_incl; try apply remove_job_incl; assumption.
Qed.

Lemma restart_ok : phase_ok (pure restart).
Proof.
  intros st c (H & Hw & Hj). destruct (kill_ok c _ Hw Hj) as [A B]. split; [apply ok_nil|split; assumption].
  cbn [pure fst restart meta_segs meta_op]. apply (InvC_weaken _ _ (live st)); [exact H|].
  unfold live. cbn [restart committed uncommitted segs_files flat_map]. rewrite app_nil_r. apply incl_appl, incl_refl.
Qed.

Lemma start_segment_ok n sorted : phase_ok (pure (start_segment n sorted)).
Proof.
  intros st c (H & Hw & Hj). unfold pure, start_segment. split; [apply ok_nil; exact H|]. cbn [fst jobs].
  split; (apply Forall_app; split; [assumption|]; apply Forall_cons; [|apply Forall_nil]).
  - split; cbn [jout jfiles jtodo]; [apply incl_appl, incl_refl|apply seg_script_ct].
  - apply JI_fresh. cbn [jfiles jtodo]. apply seg_script_In.
Qed.

Lemma add_segment_ok i : phase_ok (pure (add_segment i)).
Proof.
  intros st c Hi. assert (Hi' := Hi). destruct Hi' as (H & Hw & Hj). assert (Hnop := nop_ok st c Hi).
  unfold pure, add_segment. destruct (find_job (jobs st) i) as [j|] eqn:Ef; [|exact Hnop].
  destruct (find_job_In _ _ _ Ef) as [Hin Hid].
  destruct (jkind_of j); [|exact Hnop]. destruct (jtodo j) as [|e r] eqn:Et; [|exact Hnop].
  assert (Hout : forall f, In f (jout j) -> okf c f).
  { intros f Hf. destruct (proj1 (Forall_forall _ _) Hw j Hin) as [Hio _].
    destruct (proj1 (Forall_forall _ _) Hj j Hin f (Hio f Hf)) as [A B]. rewrite Et in A, B.
    split; [apply A|apply B]; intros []. }
  destruct (jdead j).
  - split; [apply ok_nil; exact H|].
    split; cbn [fst set_jobs jobs]; eapply Forall_incl; try apply remove_job_incl; assumption.
  - split; [apply ok_nil|split; cbn [fst jobs]; eapply Forall_incl; try apply remove_job_incl; assumption].
    cbn [fst meta_segs meta_op]. apply (InvC_relv _ _ (live st)); [exact H|].
    unfold live. cbn [committed uncommitted]. intros f Hf. rewrite segs_files_app in Hf. rewrite !in_app_iff in Hf.
    destruct Hf as [Hf|[Hf|Hf]].
    + apply (InvC_okf _ _ _ _ _ H). unfold live. rewrite !in_app_iff. tauto.
    + apply (InvC_okf _ _ _ _ _ H). unfold live. rewrite !in_app_iff. tauto.
    + cbn [segs_files flat_map] in Hf. rewrite app_nil_r in Hf. unfold seg_files in Hf. cbn [sfiles sdel] in Hf.
      rewrite app_nil_r in Hf. now apply Hout.
Qed.

Lemma start_merge_ok ids sdels n : phase_ok (pure (start_merge ids sdels n)).
Proof.
  intros st c Hi. assert (Hi' := Hi). destruct Hi' as (H & Hw & Hj). assert (Hnop := nop_ok st c Hi).
  unfold pure, start_merge. destruct ids as [|i0 ir]; [exact Hnop|].
  destruct (if contains_all (uncommitted st) (i0 :: ir) then Some (uncommitted st)
            else if contains_all (committed st) (i0 :: ir) then Some (committed st) else None) as [reg|]; [|exact Hnop].
  split; [apply ok_nil; exact H|]. cbn [fst jobs].
  split; (apply Forall_app; split; [assumption|]; apply Forall_cons; [|apply Forall_nil]).
  - split; cbn [jout jfiles jtodo]; [apply incl_appr, incl_refl|].
    apply Forall_app. split; [apply del_evs_ct|apply seg_script_ct].
  - apply JI_fresh. cbn [jfiles jtodo]. intros f Hf. rewrite !in_app_iff. apply in_app_or in Hf. destruct Hf as [Hf|Hf].
    + destruct (del_evs_In _ _ Hf). tauto.
    + destruct (seg_script_In _ [] f (eq_ind_r (fun l => In f l) Hf (app_nil_r _))) as [A B]. tauto.
Qed.

Lemma phases_ok cfg st0 op : cfg_ok cfg -> Forall phase_ok (phases cfg st0 op).
Proof.
  intros Hc. destruct op as [k|n sorted|i|dels empties| |ids sdels n|i withdel empties|i| | ]; cbn [phases].
  - constructor; [|constructor]. intros st c Hi. destruct Hi as (H & Hw & Hj). split; [apply ok_nil; exact H|split; assumption].
  - constructor; [apply start_segment_ok|constructor].
  - constructor; [apply add_segment_ok|constructor].
  - constructor; [intros st c; now apply commit_publish_ok|].
    constructor; [now apply gc_phase_ok|]. constructor; [exact commit_return_ok|constructor].
  - constructor; [apply restart_ok|constructor].
  - constructor; [apply start_merge_ok|constructor].
  - destruct (em_reaches_gc st0 i).
    + constructor; [intros st c; now apply end_merge_publish_ok|]. constructor; [now apply gc_phase_ok|constructor].
    + constructor; [intros st c; now apply end_merge_publish_ok|constructor].
  - constructor; [apply drop_ok|constructor].
  - constructor; [now apply gc_phase_ok|constructor].
  - constructor; [apply restart_ok|constructor].
Qed.

(* ---------- (5) every history, every schedule ---------- *)
(* one phase of an updater task together with the background actions the scheduler interleaves *)
Lemma phase_step ph st c sc : phase_ok ph -> Inv st c ->
  let st1 := fst (ph st) in
  let evs := snd (ph st) in
  monitor_from c (weave_evs st1 evs sc) = true /\
  Inv (weave_st st1 evs sc) (runs c (weave_evs st1 evs sc)).
Proof.
  intros Hp Hi st1 evs. destruct (Hp st c Hi) as ((A & B & C) & Hw & Hj).
  fold st1 evs in A, B, C, Hw, Hj.
  destruct (weave_inv evs st1 sc c Hw Hj C) as (W & Hj' & Hw' & (E1 & E2 & E3 & E4)).
  destruct (woven_ok _ _ W c c (R_refl c) A) as [M HR].
  split; [exact M|]. split; [|split; assumption].
  unfold live. rewrite E1, E2, E3, E4. exact (InvC_R _ _ _ _ _ B HR).
Qed.

Lemma run_phases_ok phs : Forall phase_ok phs -> forall st sc c, Inv st c ->
  monitor_from c (run_phases st phs sc) = true /\
  Inv (run_phases_st st phs sc) (runs c (run_phases st phs sc)).
Proof.
  induction 1 as [|ph r Hp _ IH]; intros st sc c Hi; cbn [run_phases run_phases_st].
  - split; [reflexivity|exact Hi].
  - destruct (phase_step ph st c sc Hp Hi) as [M Hi'].
    destruct (IH _ (skipn (S (length (snd (ph st)))) sc) _ Hi') as [M' Hi''].
    rewrite monitor_app, runs_app, M, M'. split; [reflexivity|exact Hi''].
Qed.

Lemma run_ops_ok cfg ops : cfg_ok cfg -> forall st sc c, Inv st c ->
  monitor_from c (run_ops cfg st ops sc) = true /\
  Inv (run_ops_st cfg st ops sc) (runs c (run_ops cfg st ops sc)).
Proof.
  intros Hc. induction ops as [|op r IH]; intros st sc c Hi; cbn [run_ops run_ops_st].
  - split; [reflexivity|exact Hi].
  - destruct (run_phases_ok _ (phases_ok cfg st op Hc) st sc c Hi) as [M Hi'].
    destruct (IH _ (run_phases_sc st (phases cfg st op) sc) _ Hi') as [M' Hi''].
    rewrite monitor_app, runs_app, M, M'. split; [reflexivity|exact Hi''].
Qed.

(* the opstamp a commit returns is the one it was prepared with: `commit_return` reads it back from
   the active meta, which nothing changed since `commit_publish` stored it *)
Lemma bg_st_core l : forall st, core_eq st (bg_st st l).
Proof.
  induction l as [|a r IH]; intros st; cbn [bg_st]; [apply core_eq_refl|].
  apply (core_eq_trans _ (bg_step st a)); [|apply IH]. destruct a; repeat split.
Qed.
Lemma weave_st_core evs : forall st sc, core_eq st (weave_st st evs sc).
Proof.
  induction evs as [|e r IH]; intros st sc; cbn [weave_st]; [apply bg_st_core|].
  exact (core_eq_trans _ _ _ (bg_st_core _ st) (IH _ _)).
Qed.
Theorem commit_returns_its_opstamp cfg st dels empties sc :
  snd (commit_return (run_phases_st st [commit_publish cfg dels empties; gc cfg] sc)) = [ECommitRet (next_op st)].
Proof.
  cbn [run_phases_st commit_return snd]. f_equal. f_equal.
  rewrite (proj2 (proj2 (proj2 (weave_st_core _ _ _)))). cbn [gc fst meta_op].
  rewrite (proj2 (proj2 (proj2 (weave_st_core _ _ _)))). reflexivity.
Qed.

Lemma create_ok cfg : cfg_ok cfg ->
  monitor_from init (create_evs cfg) = true /\ Inv st0 (runs init (create_evs cfg)).
Proof.
  intros (Hpre & Hpost & _). unfold create_evs, save_metas. rewrite Hpre, Hpost.
  cbn [snd app nonempty filter committed st0 segs_files flat_map]. split; [reflexivity|].
  split; [|split; constructor]. split; [|split].
  - exists 0. repeat split.
  - reflexivity.
  - intros f [].
Qed.

Theorem proto_inv_cfg cfg ops sc : cfg_ok cfg ->
  monitor (proto_trace_cfg cfg ops sc) = true /\
  Inv (run_ops_st cfg st0 ops sc) (run (proto_trace_cfg cfg ops sc)).
Proof.
  intros Hc. destruct (create_ok cfg Hc) as [M Hi].
  destruct (run_ops_ok cfg ops Hc st0 sc _ Hi) as [M' Hi'].
  unfold monitor, run, proto_trace_cfg. rewrite monitor_app. fold (runs init (create_evs cfg ++ run_ops cfg st0 ops sc)).
  rewrite runs_app, M, M'. split; [reflexivity|exact Hi'].
Qed.

Lemma cfg_code_ok : cfg_ok cfg_code.
Proof. repeat split. Qed.

(* C01_all_histories: whatever the writer is asked to do (segments flushed by workers, commits with
   deletes, rollbacks, merges started and ended, garbage collections, writer restarts) and however
   the worker / merge threads are scheduled against the updater thread, the storage trace obeys
   the commit discipline D1-D3. *)
Theorem proto_all_histories : forall ops sched, monitor (proto_trace ops sched) = true.
Proof. intros ops sc. exact (proj1 (proto_inv_cfg cfg_code ops sc cfg_code_ok)). Qed.

(* ... hence, by monitor_sound: after a crash at ANY event of ANY history under ANY schedule, with
   ANY subsequence of the un-synced directory operations surviving, the durable meta.json (if any)
   names a started generation, not older than the last returned commit, all of whose files are
   present and complete; and one exists once a commit returned. *)
Theorem proto_crash_safe : forall ops sched k img,
  let c := run (firstn k (proto_trace ops sched)) in
  crash c img ->
  (forall g, ns_meta img = Some g ->
      openable c img g /\ g < ngen c /\ (forall r, returned c = Some r -> r <= g)) /\
  (forall r, returned c = Some r -> exists g, ns_meta img = Some g).
Proof. intros ops sc k img c H. exact (monitor_sound _ (proto_all_histories ops sc) k img H). Qed.

(* ---------- non-vacuity ---------- *)
(* two flushed segments (one of a sorted index), a commit, a merge of the two committed segments
   running while a third segment is flushed and a commit with deletes happens, the merge ends with a
   fresh delete file (meta rewritten with the unchanged opstamp), a merge of uncommitted segments
   overtaken by a rollback, a dropped job, explicit GC, a commit racing with a merge whose sources it
   commits, a restart. *)
(* a schedule written per operation: for each operation the slots (job ids that step) of its phases
   in sequence, padded / cut to the number of events the phases turn out to have *)
Fixpoint sched_phases (st : pst) (phs : list phase) (spec : list (list N)) : sched :=
  match phs with
  | [] => []
  | ph :: r =>
      let st1 := fst (ph st) in
      let evs := snd (ph st) in
      let n := S (length evs) in
      let sl := firstn n (map (map Step) spec ++ repeat [] n) in
      sl ++ sched_phases (weave_st st1 evs sl) r (skipn n spec)
  end.
Fixpoint sched_of (st : pst) (ops : list wop) (spec : list (list (list N))) : sched :=
  match ops with
  | [] => []
  | op :: r =>
      let phs := phases cfg_code st op in
      let sl := sched_phases st phs (hd [] spec) in
      sl ++ sched_of (run_phases_st st phs sl) r (tl spec)
  end.

Definition ex_ops : list wop :=
  [ Stamp 3; StartSegment 6 false; AddSegment 0; StartSegment 6 true; AddSegment 1; Commit [] [];
    Stamp 2; StartSegment 3 false; StartMerge [0; 1] [] 6; AddSegment 2; Commit [0] []; EndMerge 3 true [];
    StartSegment 3 false; AddSegment 4; StartSegment 3 false; AddSegment 5; StartMerge [4; 5] [4] 3; Rollback;
    EndMerge 6 false []; GC;
    Stamp 1; StartSegment 2 false; AddSegment 7; StartSegment 2 false; AddSegment 8; StartMerge [7; 8] [] 4;
    Commit [7] []; EndMerge 9 false [3]; Reopen; GC ].
Definition ex_spec : list (list (list N)) :=
  [ []; [[0;0;0;0;0;0;0;0;0;0;0;0]]; []; [[1;1;1;1;1;1;1;1;1;1;1;1;1;1]]; []; [];
    []; [[2;2;2]]; [[3;2;3;2;3;2]]; [[3]];
    (* the merge keeps writing in the middle of the commit's purge_deletes, save_metas and GC *)
    [[3]; [3]; [3;3]; [3]; [3]; [3]; [3]]; [];
    [[4;4;4;4;4;4]]; []; [[5;5;5;5;5;5]]; []; [[6;6;6]]; [[6;6;6;6;6]];
    []; [];
    []; [[7;7;7;7]]; []; [[8;8;8;8]]; []; [[9;9;9;9]];
    [[9]; [9]; [9]; [9]]; []; []; [] ].
Definition ex_sched : sched := sched_of st0 ex_ops ex_spec.

Definition count (p : ev -> bool) (t : list ev) : nat := length (filter p t).
Definition is_ret e := match e with ECommitRet _ => true | _ => false end.
Definition is_meta e := match e with EMetaWrite _ _ => true | _ => false end.
Definition is_delete e := match e with EDelete _ => true | _ => false end.

Example ex_accepted : monitor (proto_trace ex_ops ex_sched) = true.
Proof. vm_compute. reflexivity. Qed.

(* the example really contains what the non-triviality rule asks for: three returned commits, meta.json
   rewritten six times after creation (two of them by merges, with the opstamp unchanged), 36 deletions,
   and job events in the middle of save_metas *)
Example ex_shape :
  let t := proto_trace ex_ops ex_sched in
  count is_ret t = 3%nat /\ count is_meta t = 6%nat /\ count is_delete t = 36%nat /\
  existsb (fun e => match e with EMetaWrite _ 6 => true | _ => false end) (skipn 60 t) = true /\
  run_ops_st cfg_code st0 ex_ops ex_sched =
    {| committed := [{| sid := 2; sfiles := [14; 15; 16]; sdel := None |};
                     {| sid := 9; sfiles := [44; 45; 46; 47]; sdel := None |}];
       uncommitted := []; jobs := [];
       meta_segs := [{| sid := 2; sfiles := [14; 15; 16]; sdel := None |};
                     {| sid := 9; sfiles := [44; 45; 46; 47]; sdel := None |}];
       meta_op := 7; managed := [14; 15; 16; 44; 45; 46; 47]; next_path := 49; next_id := 10; next_op := 7 |}.
Proof. vm_compute. repeat split. Qed.

(* a merge orphaned by a rollback keeps writing during the next commit; its thread ends in the middle
   of that commit's save_metas, so the commit's own garbage collection already removes its files *)
Definition ex2_ops : list wop :=
  [ StartSegment 2 false; AddSegment 0; StartSegment 2 false; AddSegment 1; Commit [] [];
    StartMerge [0; 1] [] 3; Rollback; Stamp 1; Commit [1] [] ].
Definition ex2_sched : sched :=
  [ map Step [0;0;0;0]; []; map Step [1;1;1;1]; []; []; []; []; []; []; []; [];
    map Step [2;2;2]; [Step 2]; [];
    (* Commit [1]: create .del, terminate, sync, write, sync | GC | return *)
    [Step 2]; [Step 2]; [Step 2; Exit 2]; []; []; [] ].
Example ex2_accepted :
  let t := proto_trace ex2_ops ex2_sched in
  monitor t = true /\ count is_ret t = 2%nat /\
  (* files 6 7 8 of the orphan merge are deleted by the second commit's GC, before it returns *)
  skipn (length t - 5) t = [EDelete 6; EDelete 7; EDelete 8; ESyncDir; ECommitRet 1].
Proof. vm_compute. repeat split. Qed.

(* ---------- the theorem is about the code's order: variants are rejected ---------- *)
Definition tiny_ops : list wop := [Stamp 1; StartSegment 2 false; AddSegment 0; Commit [] []].
Definition tiny_sched : sched := [[]; map Step [0; 0; 0; 0]].

Example tiny_accepted : first_bad (proto_trace tiny_ops tiny_sched) = None.
Proof. vm_compute. reflexivity. Qed.

(* save_metas without the sync after the atomic write (the code before the F4 fix): the commit
   returns while the rename of meta.json is still pending -- D2 *)
Definition cfg_no_post_sync : pcfg := {| pre_sync := PreAlways; post_sync := false; gc_protects_committed := true |}.
Theorem proto_no_post_sync_refuted :
  first_bad (proto_trace_cfg cfg_no_post_sync tiny_ops tiny_sched) = Some 9 /\
  nth 9 (proto_trace_cfg cfg_no_post_sync tiny_ops tiny_sched) ESyncDir = ECommitRet 1.
Proof. vm_compute. split; reflexivity. Qed.

(* a garbage collector whose living set misses the committed segments deletes files of the current
   generation -- D3 *)
Definition cfg_gc_forgets_committed : pcfg := {| pre_sync := PreAlways; post_sync := true; gc_protects_committed := false |}.
Theorem proto_gc_deletes_current_generation_refuted :
  first_bad (proto_trace_cfg cfg_gc_forgets_committed tiny_ops tiny_sched) = Some 11 /\
  nth 11 (proto_trace_cfg cfg_gc_forgets_committed tiny_ops tiny_sched) ESyncDir = EDelete 0.
Proof. vm_compute. split; reflexivity. Qed.

(* no directory sync before the atomic write: meta.json can name files whose directory entries are
   not durable -- D1 *)
Definition cfg_no_pre_sync : pcfg := {| pre_sync := PreNever; post_sync := true; gc_protects_committed := true |}.
Theorem proto_no_pre_sync_refuted :
  first_bad (proto_trace_cfg cfg_no_pre_sync tiny_ops tiny_sched) = Some 7 /\
  nth 7 (proto_trace_cfg cfg_no_pre_sync tiny_ops tiny_sched) ESyncDir = EMetaWrite [0; 1] 1.
Proof. vm_compute. split; reflexivity. Qed.

(* the same sync skipped "when the new meta has no new segment id": a commit that only adds a delete
   file to an existing segment publishes a .del file whose directory entry is not durable -- D1 *)
Definition cfg_pre_sync_if_new_segments : pcfg :=
  {| pre_sync := PreIfNewSegments; post_sync := true; gc_protects_committed := true |}.
Theorem proto_pre_sync_only_for_new_segments_refuted :
  first_bad (proto_trace_cfg cfg_pre_sync_if_new_segments (tiny_ops ++ [Stamp 1; Commit [0] []]) tiny_sched) = Some 13 /\
  nth 13 (proto_trace_cfg cfg_pre_sync_if_new_segments (tiny_ops ++ [Stamp 1; Commit [0] []]) tiny_sched) ESyncDir
    = EMetaWrite [0; 1; 3] 3.
Proof. vm_compute. split; reflexivity. Qed.

Theorem proto_all_histories_cfg : forall cfg, cfg_ok cfg ->
  forall ops sched, monitor (proto_trace_cfg cfg ops sched) = true.
Proof. intros cfg Hc ops sc. exact (proj1 (proto_inv_cfg cfg ops sc Hc)). Qed.

(* ---------- C10: what garbage collection (and every other deletion) leaves in place, on every history ---------- *)
(* At every point a history of the protocol reaches -- whatever was committed, rolled back, merged, collected or
   restarted, and however worker / merge threads were scheduled --
   (a) every file of the published commit (meta_segs), of every committed and of every registered uncommitted segment
       is in the directory (once the pending directory operations are applied) with complete data;
   (b) every file a running job (a segment under construction, a merge) has already created is in the directory, and
       every file it has terminated is complete: no collection ever removed a file of a segment being written or merged. *)
Theorem proto_needed_files_kept ops sc :
  let st := run_ops_st cfg_code st0 ops sc in
  let c := run (proto_trace ops sc) in
  (forall f, In f (segs_files (meta_segs st) ++ segs_files (committed st) ++ segs_files (uncommitted st)) -> okf c f) /\
  (forall j, In j (jobs st) -> forall f, In f (jfiles j) ->
     (~ In (ECreate f) (jtodo j) -> present c f) /\ (~ In (ETerminate f) (jtodo j) -> In f (term c))).
Proof.
  cbn zeta. destruct (proto_inv_cfg cfg_code ops sc cfg_code_ok) as [_ (HC & _ & HJ)]. split.
  - intros f Hf. eapply InvC_okf; [exact HC|]. unfold live. exact Hf.
  - intros j Hj f Hf. unfold JobInv in HJ. rewrite Forall_forall in HJ. exact (HJ j Hj f Hf).
Qed.
