From TV Require Import Base.Prelude Storage.WriteOnce.
Local Open Scope N_scope.

Definition WInv (s : wst) : Prop :=
  forall p f, wget s p = Some f -> w_term f = true -> w_synced f = w_len f.

Lemma wget_wset_same s p f : wget (wset s p f) p = Some f.
Proof.
  induction s as [|[q g] s IH]; cbn [wset wget].
  - rewrite N.eqb_refl. reflexivity.
  - destruct (N.eqb q p) eqn:E; cbn [wget]; rewrite E; [reflexivity|exact IH].
Qed.

Lemma wget_wset_other s p q f : p <> q -> wget (wset s p f) q = wget s q.
Proof.
  intros Hne. induction s as [|[r g] s IH]; cbn [wset wget].
  - destruct (N.eqb_spec p q); [contradiction|reflexivity].
  - destruct (N.eqb r p) eqn:E; cbn [wget].
    + apply N.eqb_eq in E. subst r. destruct (N.eqb_spec p q); [contradiction|reflexivity].
    + destruct (N.eqb r q); [reflexivity|exact IH].
Qed.

Lemma winv_set s p f : WInv s -> (w_term f = true -> w_synced f = w_len f) -> WInv (wset s p f).
Proof.
  intros H Hf q g Hg Ht. destruct (N.eq_dec p q) as [->|Hne].
  - rewrite wget_wset_same in Hg. injection Hg as <-. auto.
  - rewrite wget_wset_other in Hg by exact Hne. eapply H; eassumption.
Qed.

Lemma winv_step s e : WInv s -> wcheck s e = true -> WInv (wstep s e).
Proof.
  intros H Hc. destruct e as [p|p n|p]; cbn [wstep wcheck] in *.
  - apply winv_set; [exact H|]. cbn. discriminate.
  - destruct (wget s p) as [f|] eqn:E; [|exact H]. apply negb_true_iff in Hc.
    apply winv_set; [exact H|]. cbn [w_term w_synced w_len]. congruence.
  - destruct (wget s p) as [f|] eqn:E; [|exact H]. apply winv_set; [exact H|]. reflexivity.
Qed.

Lemma winv_runs t : forall s, WInv s -> wmonitor_from s t = true -> WInv (fold_left wstep t s).
Proof.
  induction t as [|e t IH]; intros s Hi Hm; [exact Hi|].
  cbn [wmonitor_from] in Hm. apply andb_true_iff in Hm. destruct Hm as [Hc Hm].
  cbn [fold_left]. apply IH; [apply winv_step; assumption|exact Hm].
Qed.

Lemma wmonitor_prefix t1 t2 : forall s, wmonitor_from s (t1 ++ t2) = true -> wmonitor_from s t1 = true.
Proof.
  induction t1 as [|e t1 IH]; intros s H; [reflexivity|].
  cbn [app wmonitor_from] in *. apply andb_true_iff in H. destruct H as [Hc H].
  apply andb_true_iff. split; [exact Hc|apply IH, H].
Qed.

(* At every moment of a disciplined log (= at every crash point), every terminated file is durable to
   its last byte. *)
Theorem terminated_is_durable t1 t2 p f :
  wmonitor (t1 ++ t2) = true -> wget (wrun t1) p = Some f -> w_term f = true -> w_synced f = w_len f.
Proof.
  intros Hm. apply wmonitor_prefix in Hm.
  assert (H0 : WInv []) by (intros q g Hg; discriminate).
  apply (winv_runs t1 [] H0 Hm).
Qed.

(* ... and it never changes again: a later state shows the same length, still terminated *)
Lemma wstep_keeps_terminated s e p f : wcheck s e = true -> wget s p = Some f -> w_term f = true -> wget (wstep s e) p = Some f.
Proof.
  intros Hc Hg Ht. destruct e as [q|q n|q]; cbn [wstep wcheck] in *.
  - destruct (N.eq_dec q p) as [->|Hne]; [rewrite Hg in Hc; discriminate|]. rewrite wget_wset_other by exact Hne. exact Hg.
  - destruct (wget s q) as [g|] eqn:E; [|exact Hg]. destruct (N.eq_dec q p) as [->|Hne].
    + rewrite Hg in E. injection E as <-. rewrite Ht in Hc. discriminate.
    + rewrite wget_wset_other by exact Hne. exact Hg.
  - destruct (wget s q) as [g|] eqn:E; [|exact Hg]. destruct (N.eq_dec q p) as [->|Hne].
    + rewrite Hg in E. injection E as <-. rewrite Ht in Hc. discriminate.
    + rewrite wget_wset_other by exact Hne. exact Hg.
Qed.

Theorem terminated_is_final t2 : forall s p f,
  wmonitor_from s t2 = true -> wget s p = Some f -> w_term f = true -> wget (fold_left wstep t2 s) p = Some f.
Proof.
  induction t2 as [|e t IH]; intros s p f Hm Hg Ht; [exact Hg|].
  cbn [wmonitor_from] in Hm. apply andb_true_iff in Hm. destruct Hm as [Hc Hm].
  cbn [fold_left]. apply IH; [exact Hm| |exact Ht]. apply wstep_keeps_terminated; assumption.
Qed.

(* the discipline is not vacuous, and it is what rejects "fsync, then append the footer" *)
Example wo_ok : wmonitor [WOpen 1; WAppend 1 100; WAppend 1 40; WTerm 1; WOpen 2; WAppend 2 7; WTerm 2] = true.
Proof. vm_compute. reflexivity. Qed.
Example wo_footer_after_sync : wfirst_bad [WOpen 1; WAppend 1 100; WTerm 1; WAppend 1 40] = Some 3.
Proof. vm_compute. reflexivity. Qed.
