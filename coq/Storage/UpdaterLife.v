(* E1 storage engine, part 13: a segment updater that outlives its writer (C05 / C02: a published commit is never
   overwritten by a stale save).

   Every IndexWriter owns a SegmentUpdater with its own view of the committed segments.  Merge threads finish whenever
   they finish and then queue an `end_merge` task that calls `save_metas` from THAT updater's view.  The writer lock
   guarantees that a new writer exists only after the previous one was dropped or consumed -- but its merge threads and
   already queued tasks may still be running.  What keeps them from rewriting meta.json with an old view:
     * Drop for IndexWriter and rollback() KILL the updater (DROP_KILLS_UPDATER, ROLLBACK_KILLS_UPDATER), and
     * save_metas does nothing on a killed updater (SAVE_METAS_CHECKS_ALIVE) -- schedule_task's own liveness test is
       made when a task is queued, not when it runs.
   All three are regenerated from the source by tools/pin.py. *)
From TV Require Import Base.Prelude Generated.Constants.
Local Open Scope N_scope.

Inductive uev :=
| UNew (u : N)        (* a writer is created: updater u starts from what meta.json holds (the lock is free: the previous writer is gone) *)
| UCommit (u : N)     (* writer u commits: one more generation, published *)
| USave (u : N)       (* updater u runs a save_metas of a non-commit task (end of a merge): republishes ITS view *)
| UGone (u : N) (by_rollback : bool)    (* writer u is dropped / rolls back (its updater is replaced) *)
| UStall (u : N)      (* updater u enters save_metas, finds itself alive, and stalls before the write (a slow directory sync) *)
| UResume (u : N).    (* the stalled save of u performs its write *)

Record upd := { u_id : N; u_alive : bool; u_view : N }.
Record ust := { us_meta : N; us_updaters : list upd; us_writer : option N; us_inflight : list N }.
Definition ust0 : ust := {| us_meta := 0; us_updaters := []; us_writer := None; us_inflight := [] |}.
Definition umem (u : N) (l : list N) : bool := existsb (N.eqb u) l.
Definition udrop (u : N) (l : list N) : list N := filter (fun x => negb (N.eqb u x)) l.

Fixpoint ufind (u : N) (l : list upd) : option upd :=
  match l with [] => None | x :: r => if N.eqb (u_id x) u then Some x else ufind u r end.
(* updating an entry = prepending a newer one (ufind returns the first match) *)
Definition uset (x : upd) (l : list upd) : list upd := x :: l.

(* `locked`: save_metas holds a lock from its liveness check to the write and kill() takes the same lock -- killing waits
   for a save in flight (which then still writes the live view) and no write happens afterwards *)
Definition ustep_gen (drop_kills rollback_kills save_checks locked : bool) (s : ust) (e : uev) : ust :=
  match e with
  | UNew u =>
      match us_writer s, ufind u (us_updaters s) with
      | None, None => {| us_meta := us_meta s; us_updaters := {| u_id := u; u_alive := true; u_view := us_meta s |} :: us_updaters s; us_writer := Some u; us_inflight := us_inflight s |}
      | _, _ => s
      end
  | UCommit u =>
      match us_writer s, ufind u (us_updaters s) with
      | Some w, Some x =>
          if N.eqb w u && negb (umem u (us_inflight s)) then       (* one updater thread: a commit's save runs after the stalled one *)
            let v := u_view x + 1 in
            {| us_meta := v; us_updaters := uset {| u_id := u; u_alive := u_alive x; u_view := v |} (us_updaters s); us_writer := us_writer s; us_inflight := us_inflight s |}
          else s
      | _, _ => s
      end
  | USave u =>
      match ufind u (us_updaters s) with
      | Some x => if (save_checks && negb (u_alive x)) || umem u (us_inflight s) then s
                  else {| us_meta := u_view x; us_updaters := us_updaters s; us_writer := us_writer s; us_inflight := us_inflight s |}
      | None => s
      end
  | UStall u =>
      match ufind u (us_updaters s) with
      | Some x => if (save_checks && negb (u_alive x)) || umem u (us_inflight s) then s
                  else {| us_meta := us_meta s; us_updaters := us_updaters s; us_writer := us_writer s; us_inflight := u :: us_inflight s |}
      | None => s
      end
  | UResume u =>
      match ufind u (us_updaters s) with
      | Some x => if umem u (us_inflight s)
                  then {| us_meta := u_view x; us_updaters := us_updaters s; us_writer := us_writer s; us_inflight := udrop u (us_inflight s) |}
                  else s
      | None => s
      end
  | UGone u by_rollback =>
      match us_writer s, ufind u (us_updaters s) with
      | Some w, Some x =>
          if N.eqb w u then
            let kills := if by_rollback then rollback_kills else drop_kills in
            let flush := kills && locked && umem u (us_inflight s) in      (* kill() waits for the save in flight *)
            {| us_meta := if flush then u_view x else us_meta s;
               us_updaters := uset {| u_id := u; u_alive := if kills then false else u_alive x; u_view := u_view x |} (us_updaters s);
               us_writer := None;
               us_inflight := if flush then udrop u (us_inflight s) else us_inflight s |}
          else s
      | _, _ => s
      end
  end.

Definition u_flags : bool * bool * bool * bool :=
  (N.eqb DROP_KILLS_UPDATER 1, N.eqb ROLLBACK_KILLS_UPDATER 1, N.eqb SAVE_METAS_CHECKS_ALIVE 1, N.eqb SAVE_METAS_LOCKED_AGAINST_KILL 1).
Definition ustep (s : ust) (e : uev) : ust := let '(a, b, c, d) := u_flags in ustep_gen a b c d s e.
Definition urun_gen (a b c d : bool) (evs : list uev) : ust := fold_left (ustep_gen a b c d) evs ust0.

