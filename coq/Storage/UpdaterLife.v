(* E1 storage engine, part 13: a segment updater that outlives its writer (C05 / C02: a published commit is never
   overwritten by a stale save).

   Every IndexWriter owns a SegmentUpdater with its own view of the committed segments.  Merge threads finish whenever
   they finish and then queue an `end_merge` task that calls `save_metas` from THAT updater's view.  The writer lock
   guarantees that a new writer exists only after the previous one was dropped or consumed -- but its merge threads and
   already queued tasks may still be running.  What keeps them from rewriting meta.json with an old view:
     * Drop for IndexWriter and rollback() KILL the updater (DROP_KILLS_UPDATER, ROLLBACK_KILLS_UPDATER), and
     * save_metas does nothing on a killed updater (SAVE_METAS_CHECKS_ALIVE) -- schedule_task's own liveness test is
       made when a task is queued, not when it runs.
   All three are regenerated from the source by tools/pin.py. *)
From TV Require Import Base.Prelude Generated.Constants.
Local Open Scope N_scope.

Inductive uev :=
| UNew (u : N)        (* a writer is created: updater u starts from what meta.json holds (the lock is free: the previous writer is gone) *)
| UCommit (u : N)     (* writer u commits: one more generation, published *)
| USave (u : N)       (* updater u runs a save_metas of a non-commit task (end of a merge): republishes ITS view *)
| UGone (u : N) (by_rollback : bool).   (* writer u is dropped / rolls back (its updater is replaced) *)

Record upd := { u_id : N; u_alive : bool; u_view : N }.
Record ust := { us_meta : N; us_updaters : list upd; us_writer : option N }.
Definition ust0 : ust := {| us_meta := 0; us_updaters := []; us_writer := None |}.

Fixpoint ufind (u : N) (l : list upd) : option upd :=
  match l with [] => None | x :: r => if N.eqb (u_id x) u then Some x else ufind u r end.
(* updating an entry = prepending a newer one (ufind returns the first match) *)
Definition uset (x : upd) (l : list upd) : list upd := x :: l.

Definition ustep_gen (drop_kills rollback_kills save_checks : bool) (s : ust) (e : uev) : ust :=
  match e with
  | UNew u =>
      match us_writer s, ufind u (us_updaters s) with
      | None, None => {| us_meta := us_meta s; us_updaters := {| u_id := u; u_alive := true; u_view := us_meta s |} :: us_updaters s; us_writer := Some u |}
      | _, _ => s                                            (* LockBusy, or the id is not fresh *)
      end
  | UCommit u =>
      match us_writer s, ufind u (us_updaters s) with
      | Some w, Some x =>
          if N.eqb w u then
            let v := u_view x + 1 in
            {| us_meta := v; us_updaters := uset {| u_id := u; u_alive := u_alive x; u_view := v |} (us_updaters s); us_writer := us_writer s |}
          else s
      | _, _ => s
      end
  | USave u =>
      match ufind u (us_updaters s) with
      | Some x => if save_checks && negb (u_alive x) then s
                  else {| us_meta := u_view x; us_updaters := us_updaters s; us_writer := us_writer s |}
      | None => s
      end
  | UGone u by_rollback =>
      match us_writer s, ufind u (us_updaters s) with
      | Some w, Some x =>
          if N.eqb w u then
            let kills := if by_rollback then rollback_kills else drop_kills in
            {| us_meta := us_meta s;
               us_updaters := uset {| u_id := u; u_alive := if kills then false else u_alive x; u_view := u_view x |} (us_updaters s);
               us_writer := None |}
          else s
      | _, _ => s
      end
  end.

Definition u_flags : bool * bool * bool :=
  (N.eqb DROP_KILLS_UPDATER 1, N.eqb ROLLBACK_KILLS_UPDATER 1, N.eqb SAVE_METAS_CHECKS_ALIVE 1).
Definition ustep (s : ust) (e : uev) : ust := let '(a, b, c) := u_flags in ustep_gen a b c s e.
Definition urun_gen (a b c : bool) (evs : list uev) : ust := fold_left (ustep_gen a b c) evs ust0.

(* the generations meta.json went through, newest first *)
Fixpoint umetas_gen (a b c : bool) (s : ust) (evs : list uev) : list N :=
  match evs with [] => [us_meta s] | e :: r => umetas_gen a b c (ustep_gen a b c s e) r ++ [us_meta s] end.
