From TV Require Import Base.Prelude Storage.Locks.
Local Open Scope N_scope.

Lemma linv_init : linv linit.
Proof. left. split; reflexivity. Qed.

Lemma lstep_inv s o : f7_op o = false -> linv s -> linv (fst (lstep s o)).
Proof.
  intros Hf [[Hw Hh]|(w0 & Hw & Hh)]; destruct s as [h ws]; cbn [held writers] in *; subst.
  - (* no writer, lock free *)
    destruct o as [w valid ok|w ok|w|w]; cbn [lstep held writers find fst].
    + destruct valid, ok; cbn [negb fst]; try (left; split; reflexivity).
      right. exists w. split; reflexivity.
    + left. split; reflexivity.
    + left. split; reflexivity.
    + left. split; reflexivity.
  - (* one writer owning the guard *)
    destruct o as [w valid ok|w ok|w|w]; cbn [lstep held writers fst].
    + right. exists w0. split; reflexivity.
    + cbn [find]. destruct (N.eqb w0 w); cbn [fst].
      * destruct ok; [|discriminate Hf]. cbn [fst]. right. exists w0. split; reflexivity.
      * right. exists w0. split; reflexivity.
    + cbn [find remove_w]. destruct (N.eqb w0 w); cbn [fst held writers].
      * left. split; reflexivity.
      * right. exists w0. split; reflexivity.
    + right. exists w0. split; reflexivity.
Qed.

Lemma lrun_fst s ops : forall o, fst (lrun s (o :: ops)) = fst (lrun (fst (lstep s o)) ops).
Proof.
  intros o. cbn [lrun]. destruct (lstep s o) as [s1 x]. cbn [fst]. destruct (lrun s1 ops) as [s2 xs]. reflexivity.
Qed.

(* C18 mutual exclusion: for every lifecycle (any length, any mix of handles) outside F7 *)
Theorem mutual_exclusion ops : f7_class ops = false -> forall s, linv s -> linv (fst (lrun s ops)).
Proof.
  induction ops as [|o ops IH]; intros Hf s Hs; [exact Hs|].
  cbn [f7_class existsb] in Hf. apply orb_false_iff in Hf. destruct Hf as [Ho Hr].
  rewrite lrun_fst. apply IH; [exact Hr|]. apply lstep_inv; assumption.
Qed.

(* a busy lock is harmless: a Create that reports LockBusy changes nothing *)
Theorem busy_is_harmless s w valid ok : snd (lstep s (Create w valid ok)) = RLockBusy -> fst (lstep s (Create w valid ok)) = s.
Proof.
  cbn [lstep]. destruct (held s); [reflexivity|]. destruct valid, ok; cbn; discriminate.
Qed.

(* while a writer is alive every Create fails with LockBusy *)
Theorem second_writer_refused s w w' valid ok :
  linv s -> find w (writers s) <> None -> snd (lstep s (Create w' valid ok)) = RLockBusy.
Proof.
  intros [[Hw Hh]|(w0 & Hw & Hh)] Hf.
  - rewrite Hw in Hf. cbn in Hf. contradiction.
  - cbn [lstep]. rewrite Hh. reflexivity.
Qed.

(* released: after drop / wait_merging_threads / failed construction a new writer can be created *)
Theorem released_after_drop s w w' :
  linv s -> find w (writers s) <> None ->
  snd (lstep (fst (lstep s (DropW w))) (Create w' true true)) = ROk.
Proof.
  intros [[Hw Hh]|(w0 & Hw & Hh)] Hf; destruct s as [h ws]; cbn [held writers] in *; subst.
  - cbn in Hf. contradiction.
  - cbn [find] in Hf. cbn [lstep writers held find remove_w].
    destruct (N.eqb w0 w) eqn:E; [|cbn in Hf; contradiction].
    cbn [fst lstep held negb snd]. reflexivity.
Qed.

Theorem released_after_failed_create s w valid ok w' :
  linv s -> snd (lstep s (Create w valid ok)) <> ROk -> snd (lstep s (Create w valid ok)) <> RLockBusy ->
  snd (lstep (fst (lstep s (Create w valid ok))) (Create w' true true)) = ROk.
Proof.
  intros Hs H1 H2. cbn [lstep] in *. destruct (held s) eqn:Eh; [cbn in H2; contradiction|].
  destruct valid, ok; cbn [negb fst snd] in *; try contradiction; cbn [lstep]; rewrite Eh; reflexivity.
Qed.

(* rollback keeps the lock: there is no window in which another Create can succeed *)
Theorem rollback_keeps_lock s w w' valid ok :
  linv s -> find w (writers s) <> None ->
  let s' := fst (lstep s (Rollback w true)) in
  s' = s /\ snd (lstep s' (Create w' valid ok)) = RLockBusy.
Proof.
  intros Hs Hf s'. assert (E : s' = s).
  { unfold s'. cbn [lstep]. destruct (find w (writers s)) as [[|]|]; reflexivity. }
  split; [exact E|]. rewrite E. eapply second_writer_refused; eassumption.
Qed.

(* F7: with a failing rebuild inside rollback, two writers coexist *)
Definition f7_witness : list lop := [Create 1 true true; Rollback 1 false; Create 2 true true].
Lemma f7_refuted :
  f7_class f7_witness = true /\
  writers (fst (lrun linit f7_witness)) = [(2, true); (1, false)] /\
  snd (lrun linit f7_witness) = [ROk; RIoErr; ROk].
Proof. vm_compute. repeat split; reflexivity. Qed.

(* the mechanism (guards) refines the one-line specification outside F7 *)
Definition abs (s : lstate) : option wid :=
  match writers s with (w, _) :: _ => Some w | [] => None end.

Lemma lstep_refines s o : f7_op o = false -> linv s ->
  snd (lstep s o) = snd (spec_step (abs s) o) /\ abs (fst (lstep s o)) = fst (spec_step (abs s) o).
Proof.
  intros Hf [[Hw Hh]|(w0 & Hw & Hh)]; destruct s as [h ws]; cbn [held writers] in *; subst; unfold abs; cbn [writers].
  - destruct o as [w valid ok|w ok|w|w]; cbn [lstep spec_step held writers find].
    + destruct valid, ok; cbn; split; reflexivity.
    + split; reflexivity.
    + split; reflexivity.
    + split; reflexivity.
  - destruct o as [w valid ok|w ok|w|w]; cbn [lstep spec_step held writers find remove_w].
    + split; reflexivity.
    + destruct (N.eqb w0 w); [|split; reflexivity]. destruct ok; [split; reflexivity|discriminate Hf].
    + destruct (N.eqb w0 w); cbn; split; reflexivity.
    + split; reflexivity.
Qed.

Theorem model_refines_spec ops : f7_class ops = false -> forall s, linv s ->
  snd (lrun s ops) = spec_run (abs s) ops.
Proof.
  induction ops as [|o ops IH]; intros Hf s Hs; [reflexivity|].
  cbn [f7_class existsb] in Hf. apply orb_false_iff in Hf. destruct Hf as [Ho Hr].
  destruct (lstep_refines s o Ho Hs) as [E1 E2].
  pose proof (lstep_inv s o Ho Hs) as Hi.
  cbn [lrun spec_run]. destruct (lstep s o) as [s1 x]. cbn [fst snd] in *.
  destruct (spec_step (abs s) o) as [a y]. cbn [fst snd] in *. subst.
  specialize (IH Hr s1 Hi). destruct (lrun s1 ops) as [s2 xs]. cbn [snd] in *. now rewrite IH.
Qed.
