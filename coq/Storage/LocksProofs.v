From TV Require Import Base.Prelude Storage.Locks.
Local Open Scope N_scope.

Lemma linv_init : linv linit.
Proof. left. split; reflexivity. Qed.

Lemma lstep_inv safe s o : (safe = true \/ f7_op o = false) -> linv s -> linv (fst (lstep_gen safe s o)).
Proof.
  intros Hf [[Hw Hh]|(w0 & Hw & Hh)]; destruct s as [h ws]; cbn [held writers] in *; subst.
  - (* no writer, lock free *)
    destruct o as [w valid ok|w ok|w|w]; cbn [lstep_gen held writers find fst].
    + destruct valid, ok; cbn [negb fst]; try (left; split; reflexivity).
      right. exists w. split; reflexivity.
    + left. split; reflexivity.
    + left. split; reflexivity.
    + left. split; reflexivity.
  - (* one writer owning the guard *)
    destruct o as [w valid ok|w ok|w|w]; cbn [lstep_gen held writers fst].
    + right. exists w0. split; reflexivity.
    + cbn [find]. destruct (N.eqb w0 w); cbn [fst].
      * destruct ok; [cbn [fst]; right; exists w0; split; reflexivity|]. destruct Hf as [->|Hf]; [|discriminate Hf]. cbn [fst]. right. exists w0. split; reflexivity.
      * right. exists w0. split; reflexivity.
    + cbn [find remove_w]. destruct (N.eqb w0 w); cbn [fst held writers].
      * left. split; reflexivity.
      * right. exists w0. split; reflexivity.
    + right. exists w0. split; reflexivity.
Qed.

Lemma lrun_fst safe s ops : forall o, fst (lrun_gen safe s (o :: ops)) = fst (lrun_gen safe (fst (lstep_gen safe s o)) ops).
Proof.
  intros o. cbn [lrun_gen]. destruct (lstep_gen safe s o) as [s1 x]. cbn [fst]. destruct (lrun_gen safe s1 ops) as [s2 xs]. reflexivity.
Qed.

(* C18 mutual exclusion: for every lifecycle (any length, any mix of handles) outside F7 *)
Theorem mutual_exclusion_gen safe ops : (safe = true \/ f7_class ops = false) -> forall s, linv s -> linv (fst (lrun_gen safe s ops)).
Proof.
  induction ops as [|o ops IH]; intros Hf s Hs; [exact Hs|].
  rewrite lrun_fst. apply IH.
  - destruct Hf as [Hf|Hf]; [now left|right]. cbn [f7_class existsb] in Hf. apply orb_false_iff in Hf. apply Hf.
  - apply lstep_inv; [|exact Hs]. destruct Hf as [Hf|Hf]; [now left|right]. cbn [f7_class existsb] in Hf. apply orb_false_iff in Hf. apply Hf.
Qed.

(* the order of the two statements in the current source *)
Lemma rollback_safe_pinned : rollback_safe = true.
Proof. reflexivity. Qed.

Theorem mutual_exclusion ops : forall s, linv s -> linv (fst (lrun s ops)).
Proof. intros s Hs. apply mutual_exclusion_gen; [left; exact rollback_safe_pinned|exact Hs]. Qed.

(* a busy lock is harmless: a Create that reports LockBusy changes nothing *)
Theorem busy_is_harmless s w valid ok : snd (lstep s (Create w valid ok)) = RLockBusy -> fst (lstep s (Create w valid ok)) = s.
Proof.
  unfold lstep. cbn [lstep_gen]. destruct (held s); [reflexivity|]. destruct valid, ok; cbn; discriminate.
Qed.

(* while a writer is alive every Create fails with LockBusy *)
Theorem second_writer_refused s w w' valid ok :
  linv s -> find w (writers s) <> None -> snd (lstep s (Create w' valid ok)) = RLockBusy.
Proof.
  intros [[Hw Hh]|(w0 & Hw & Hh)] Hf.
  - rewrite Hw in Hf. cbn in Hf. contradiction.
  - unfold lstep. cbn [lstep_gen]. rewrite Hh. reflexivity.
Qed.

(* released: after drop / wait_merging_threads / failed construction a new writer can be created *)
Theorem released_after_drop s w w' :
  linv s -> find w (writers s) <> None ->
  snd (lstep (fst (lstep s (DropW w))) (Create w' true true)) = ROk.
Proof.
  intros [[Hw Hh]|(w0 & Hw & Hh)] Hf; destruct s as [h ws]; cbn [held writers] in *; subst.
  - cbn in Hf. contradiction.
  - cbn [find] in Hf. unfold lstep. cbn [lstep_gen writers held find remove_w].
    destruct (N.eqb w0 w) eqn:E; [|cbn in Hf; contradiction].
    cbn [fst lstep_gen held negb snd]. reflexivity.
Qed.

Theorem released_after_failed_create s w valid ok w' :
  linv s -> snd (lstep s (Create w valid ok)) <> ROk -> snd (lstep s (Create w valid ok)) <> RLockBusy ->
  snd (lstep (fst (lstep s (Create w valid ok))) (Create w' true true)) = ROk.
Proof.
  intros Hs H1 H2. unfold lstep in *. cbn [lstep_gen] in *. destruct (held s) eqn:Eh; [cbn in H2; contradiction|].
  destruct valid, ok; cbn [negb fst snd] in *; try contradiction; cbn [lstep_gen]; rewrite Eh; reflexivity.
Qed.

(* rollback keeps the lock: there is no window in which another Create can succeed *)
Theorem rollback_keeps_lock s w w' valid ok :
  linv s -> find w (writers s) <> None ->
  let s' := fst (lstep s (Rollback w true)) in
  s' = s /\ snd (lstep s' (Create w' valid ok)) = RLockBusy.
Proof.
  intros Hs Hf s'. assert (E : s' = s).
  { unfold s', lstep. cbn [lstep_gen]. destruct (find w (writers s)) as [[|]|]; reflexivity. }
  split; [exact E|]. rewrite E. eapply second_writer_refused; eassumption.
Qed.

(* F7: with a failing rebuild inside rollback, two writers coexist *)
Definition f7_witness : list lop := [Create 1 true true; Rollback 1 false; Create 2 true true].
Lemma f7_refuted :
  f7_class f7_witness = true /\
  writers (fst (lrun_gen false linit f7_witness)) = [(2, true); (1, false)] /\
  snd (lrun_gen false linit f7_witness) = [ROk; RIoErr; ROk] /\
  snd (lrun_gen true linit f7_witness) = [ROk; RIoErr; RLockBusy].
Proof. vm_compute. repeat split; reflexivity. Qed.

(* the mechanism (guards) refines the one-line specification outside F7 *)
Definition abs (s : lstate) : option wid :=
  match writers s with (w, _) :: _ => Some w | [] => None end.

Lemma lstep_refines s o : linv s ->
  snd (lstep_gen true s o) = snd (spec_step (abs s) o) /\ abs (fst (lstep_gen true s o)) = fst (spec_step (abs s) o).
Proof.
  intros [[Hw Hh]|(w0 & Hw & Hh)]; destruct s as [h ws]; cbn [held writers] in *; subst; unfold abs; cbn [writers].
  - destruct o as [w valid ok|w ok|w|w]; cbn [lstep_gen spec_step held writers find].
    + destruct valid, ok; cbn; split; reflexivity.
    + split; reflexivity.
    + split; reflexivity.
    + split; reflexivity.
  - destruct o as [w valid ok|w ok|w|w]; cbn [lstep_gen spec_step held writers find remove_w].
    + split; reflexivity.
    + destruct (N.eqb w0 w); [|split; reflexivity]. destruct ok; split; reflexivity.
    + destruct (N.eqb w0 w); cbn; split; reflexivity.
    + split; reflexivity.
Qed.

Theorem model_refines_spec_gen ops : forall s, linv s ->
  snd (lrun_gen true s ops) = spec_run (abs s) ops.
Proof.
  induction ops as [|o ops IH]; intros s Hs; [reflexivity|].
  destruct (lstep_refines s o Hs) as [E1 E2].
  pose proof (lstep_inv true s o (or_introl eq_refl) Hs) as Hi.
  cbn [lrun_gen spec_run]. destruct (lstep_gen true s o) as [s1 x]. cbn [fst snd] in *.
  destruct (spec_step (abs s) o) as [a y]. cbn [fst snd] in *. subst.
  specialize (IH s1 Hi). destruct (lrun_gen true s1 ops) as [s2 xs]. cbn [snd] in *. now rewrite IH.
Qed.

Theorem model_refines_spec ops : forall s, linv s -> snd (lrun s ops) = spec_run (abs s) ops.
Proof. unfold lrun. rewrite rollback_safe_pinned. apply model_refines_spec_gen. Qed.
