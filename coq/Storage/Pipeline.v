(* E1 storage engine, part 12: the indexing pipeline when a worker dies (C11: "the failure is reported to the caller ...; the
   process neither aborts nor hangs").

   IndexWriter::add_document sends batches over a BOUNDED channel to the indexing workers; a full channel blocks the
   caller.  Every running worker holds a clone of the receiver, and the writer's IndexWriterStatus keeps one more copy.
   A worker that fails drops its clone and detonates the bomb: `Inner::kill` clears `is_alive` and must also DROP the
   status's copy of the receiver -- a sender blocked on a full channel is woken (with a disconnection error) only when the
   LAST receiver handle is gone.  `KILL_DROPS_RECEIVER` (regenerated from index_writer_status.rs) says whether kill does. *)
From TV Require Import Base.Prelude Generated.Constants.
Local Open Scope N_scope.

Inductive pev :=
| PSend          (* the caller sends one batch (add_document / run) *)
| PTake          (* a live worker takes one batch from the channel *)
| PWorkerDies.   (* a worker hits an I/O error: it drops its receiver clone and the bomb goes off *)

Inductive pout := POk | PErr | PBlocked | PNone.

Record pipe := {
  p_cap : N;            (* capacity of the channel *)
  p_queue : N;          (* batches waiting *)
  p_workers : N;        (* running workers, each holding a receiver clone *)
  p_status_rx : bool;   (* the IndexWriterStatus still holds its copy of the receiver *)
  p_alive : bool;       (* IndexWriterStatus::is_alive *)
  p_blocked : bool      (* the caller is blocked inside send() *)
}.
Definition receivers (s : pipe) : N := p_workers s + (if p_status_rx s then 1 else 0).

(* a blocked sender is released as soon as no receiver handle is left *)
Definition settle (s : pipe) : pipe :=
  if p_blocked s && N.eqb (receivers s) 0
  then {| p_cap := p_cap s; p_queue := p_queue s; p_workers := p_workers s; p_status_rx := p_status_rx s; p_alive := p_alive s; p_blocked := false |}
  else s.

Definition pstep_gen (kill_drops_rx : bool) (s : pipe) (e : pev) : pipe * pout :=
  match e with
  | PSend =>
      if p_blocked s then (s, PNone)                                   (* one caller: it is still inside the previous send *)
      else if negb (p_alive s) then (s, PErr)                          (* fail fast: the writer was killed *)
      else if N.eqb (receivers s) 0 then (s, PErr)                     (* disconnected *)
      else if N.ltb (p_queue s) (p_cap s)
      then ({| p_cap := p_cap s; p_queue := p_queue s + 1; p_workers := p_workers s; p_status_rx := p_status_rx s; p_alive := p_alive s; p_blocked := false |}, POk)
      else ({| p_cap := p_cap s; p_queue := p_queue s; p_workers := p_workers s; p_status_rx := p_status_rx s; p_alive := p_alive s; p_blocked := true |}, PBlocked)
  | PTake =>
      if N.eqb (p_workers s) 0 || N.eqb (p_queue s) 0 then (s, PNone)
      else (* a slot frees up: a blocked sender's batch goes in *)
        ({| p_cap := p_cap s; p_queue := if p_blocked s then p_queue s else p_queue s - 1; p_workers := p_workers s;
            p_status_rx := p_status_rx s; p_alive := p_alive s; p_blocked := false |}, POk)
  | PWorkerDies =>
      if N.eqb (p_workers s) 0 then (s, PNone)
      else (settle {| p_cap := p_cap s; p_queue := p_queue s; p_workers := p_workers s - 1;
                      p_status_rx := if kill_drops_rx then false else p_status_rx s; p_alive := false; p_blocked := p_blocked s |}, POk)
  end.

Definition kill_drops_receiver : bool := N.eqb KILL_DROPS_RECEIVER 1.
Definition pstep := pstep_gen kill_drops_receiver.
Definition prun_gen (k : bool) (s : pipe) (evs : list pev) : pipe := fold_left (fun s e => fst (pstep_gen k s e)) evs s.
Definition pipe0 (cap workers : N) : pipe :=
  {| p_cap := cap; p_queue := 0; p_workers := workers; p_status_rx := true; p_alive := true; p_blocked := false |}.

(* the caller is stuck: blocked in send() with no live worker left to make room *)
Definition stuck (s : pipe) : bool := p_blocked s && N.eqb (p_workers s) 0.
