(* Soundness of the commit discipline: a trace accepted by `monitor` recovers, after a crash
   at ANY event boundary and for ANY subsequence of the pending directory operations, to a
   meta generation that is at least the last returned commit and whose files are all present
   and complete. *)
From TV Require Import Base.Prelude Storage.Crash.
Local Open Scope N_scope.

Lemma mem_In p l : mem p l = true <-> In p l.
Proof.
  unfold mem. rewrite existsb_exists. split.
  - intros (x & Hx & E). apply N.eqb_eq in E. now subst.
  - intros H. exists p. split; [exact H|apply N.eqb_refl].
Qed.

(* ---------- namespace lemmas ---------- *)
Lemma apply_all_app s a b : apply_all s (a ++ b) = apply_all (apply_all s a) b.
Proof. apply fold_left_app. Qed.

Lemma apply1_keeps f s o :
  In f (ns_files s) -> (forall q, o = Unlink q -> q <> f) -> In f (ns_files (apply1 s o)).
Proof.
  intros Hin Hno. destruct o as [p|p|g]; cbn [apply1 ns_files]; [now right| |exact Hin].
  apply filter_In. split; [exact Hin|].
  apply negb_true_iff, N.eqb_neq. apply Hno. reflexivity.
Qed.

Lemma pending_unlink_false f l :
  pending_unlink f l = false <-> (forall q, In (Unlink q) l -> q <> f).
Proof.
  unfold pending_unlink. split.
  - intros H q Hin E. subst q.
    assert (X : existsb (fun o => match o with Unlink q => N.eqb f q | _ => false end) l = true).
    { apply existsb_exists. exists (Unlink f). split; [exact Hin|apply N.eqb_refl]. }
    congruence.
  - intros H. destruct (existsb _ l) eqn:E; [|reflexivity]. exfalso.
    apply existsb_exists in E. destruct E as (o & Hin & Ho). destruct o as [p|p|g]; try discriminate.
    apply N.eqb_eq in Ho. subst p. exact (H f Hin eq_refl).
Qed.

Lemma apply_all_keeps f l : forall s,
  In f (ns_files s) -> (forall q, In (Unlink q) l -> q <> f) -> In f (ns_files (apply_all s l)).
Proof.
  induction l as [|o l IH]; intros s Hin Hno; [exact Hin|].
  cbn [apply_all fold_left]. apply IH.
  - apply apply1_keeps; [exact Hin|]. intros q E. apply Hno. left. exact E.
  - intros q Hq. apply Hno. right. exact Hq.
Qed.

Lemma subseq_In {A} (a b : list A) x : subseq a b -> In x a -> In x b.
Proof.
  induction 1 as [|y l l' H IH|y l l' H IH]; intros Hin; [exact Hin|right; auto|].
  destruct Hin as [->|Hin]; [now left|right; auto].
Qed.

Lemma subseq_refl {A} (l : list A) : subseq l l.
Proof. induction l as [|x l IH]; [constructor|apply sub_keep, IH]. Qed.

Lemma subseq_nil {A} (l : list A) : subseq [] l.
Proof. induction l as [|x l IH]; [constructor|apply sub_skip, IH]. Qed.

Lemma apply_all_meta l : forall s g,
  ns_meta (apply_all s l) = Some g -> ns_meta s = Some g \/ In g (pend_metas l).
Proof.
  induction l as [|o l IH]; intros s g H; [left; exact H|].
  cbn [apply_all fold_left] in H. apply IH in H. destruct H as [H|H].
  - destruct o as [p|p|g']; cbn [apply1 ns_meta] in H; [now left|now left|].
    injection H as ->. right. cbn [pend_metas flat_map]. now left.
  - right. cbn [pend_metas flat_map]. apply in_or_app. right. exact H.
Qed.

Lemma apply_all_meta_some l : forall s, ns_meta s <> None -> ns_meta (apply_all s l) <> None.
Proof.
  induction l as [|o l IH]; intros s H; [exact H|].
  cbn [apply_all fold_left]. apply IH. destruct o; cbn [apply1 ns_meta]; [exact H|exact H|discriminate].
Qed.

Lemma pend_metas_app a b : pend_metas (a ++ b) = pend_metas a ++ pend_metas b.
Proof. unfold pend_metas. apply flat_map_app. Qed.

Lemma pend_metas_In g l : In g (pend_metas l) <-> In (SetMeta g) l.
Proof.
  unfold pend_metas. rewrite in_flat_map. split.
  - intros (o & Hin & Ho). destruct o; cbn in Ho; try contradiction. destruct Ho as [->|[]]. exact Hin.
  - intros H. exists (SetMeta g). split; [exact H|now left].
Qed.

(* ---------- invariant ---------- *)
Record Inv (c : cst) : Prop := {
  inv_files : forall g, In g (possible c) -> forall f, In f (files_of c g) ->
              In f (ns_files (base c)) /\ In f (term c) /\ pending_unlink f (pend c) = false;
  inv_lt : forall g, In g (possible c) -> g < ngen c;
  inv_ret : forall r, returned c = Some r -> (forall g, In g (possible c) -> r <= g) /\ ns_meta (base c) <> None;
  inv_sorted : forall g0, ns_meta (base c) = Some g0 -> forall g, In g (pend_metas (pend c)) -> g0 < g
}.

Lemma inv_init : Inv init.
Proof. split; cbn; intros; try contradiction; discriminate. Qed.

Lemma files_of_app c fs o g (c' := {| base := base c; pend := pend c ++ [SetMeta (ngen c)]; term := term c; gens := gens c ++ [(fs, o)]; returned := returned c |}) :
  g < ngen c -> files_of c' g = files_of c g.
Proof.
  intros H. unfold files_of, c'. cbn [gens]. unfold ngen in H. f_equal. apply app_nth1. lia.
Qed.

Lemma files_of_new c fs o (c' := {| base := base c; pend := pend c ++ [SetMeta (ngen c)]; term := term c; gens := gens c ++ [(fs, o)]; returned := returned c |}) :
  files_of c' (ngen c) = fs.
Proof.
  unfold files_of, c', ngen. cbn [gens]. rewrite Nat2N.id, app_nth2, Nat.sub_diag by lia. reflexivity.
Qed.

Lemma pending_unlink_app f a b : pending_unlink f (a ++ b) = pending_unlink f a || pending_unlink f b.
Proof. unfold pending_unlink. apply existsb_app. Qed.

Lemma possible_In_pend c g : In g (possible c) <-> ns_meta (base c) = Some g \/ In g (pend_metas (pend c)).
Proof.
  unfold possible. rewrite in_app_iff. destruct (ns_meta (base c)) as [g0|]; cbn [In].
  - split.
    + intros H. destruct H as [H|H]; [|now right]. destruct H as [H|H]; [|contradiction]. left. now subst.
    + intros H. destruct H as [E|H]; [|now right]. injection E as E. subst. left. now left.
  - split.
    + intros H. destruct H as [H|H]; [contradiction|now right].
    + intros H. destruct H as [E|H]; [discriminate|now right].
Qed.

Lemma inv_step c e : Inv c -> check c e = true -> Inv (cstep c e).
Proof.
  intros [If Il Ir Is] Hc. destruct e as [p|p|fs o|p| |o].
  - (* ECreate *)
    split; cbn [cstep base pend term gens returned].
    + intros g Hg f Hf.
      assert (Hg' : In g (possible c)).
      { apply possible_In_pend. apply possible_In_pend in Hg. cbn [base pend] in Hg. rewrite pend_metas_app in Hg.
        cbn [pend_metas flat_map app] in Hg. rewrite app_nil_r in Hg. exact Hg. }
      destruct (If g Hg' f Hf) as (A & B & C). repeat split; auto.
      rewrite pending_unlink_app, C. reflexivity.
    + intros g Hg. apply Il. apply possible_In_pend. apply possible_In_pend in Hg. cbn [base pend] in Hg.
      rewrite pend_metas_app in Hg. cbn [pend_metas flat_map app] in Hg. rewrite app_nil_r in Hg. exact Hg.
    + intros r Hr. destruct (Ir r Hr) as [A B]. split; [|exact B]. intros g Hg. apply A.
      apply possible_In_pend. apply possible_In_pend in Hg. cbn [base pend] in Hg.
      rewrite pend_metas_app in Hg. cbn [pend_metas flat_map app] in Hg. rewrite app_nil_r in Hg. exact Hg.
    + intros g0 E g Hg. rewrite pend_metas_app in Hg. cbn [pend_metas flat_map app] in Hg. rewrite app_nil_r in Hg. eapply Is; eassumption.
  - (* ETerminate *)
    split; cbn [cstep base pend term gens returned].
    + intros g Hg f Hf. destruct (If g Hg f Hf) as (A & B & C). repeat split; auto. now right.
    + exact Il.
    + exact Ir.
    + exact Is.
  - (* EMetaWrite *)
    cbn [check] in Hc. rewrite forallb_forall in Hc.
    assert (Hposs : forall g, In g (possible (cstep c (EMetaWrite fs o))) -> In g (possible c) \/ g = ngen c).
    { intros g Hg. apply possible_In_pend in Hg. cbn [cstep base pend] in Hg. rewrite pend_metas_app in Hg.
      cbn [pend_metas flat_map app] in Hg. rewrite in_app_iff in Hg. cbn [In] in Hg.
      destruct Hg as [E|[H|[E|[]]]]; [left|left|right; auto]; apply possible_In_pend; auto. }
    split.
    + intros g Hg f Hf. destruct (Hposs g Hg) as [Hg' | ->].
      * cbn [cstep] in Hf. rewrite files_of_app in Hf by (apply Il; exact Hg').
        destruct (If g Hg' f Hf) as (A & B & C). cbn [cstep base pend term]. repeat split; auto.
        rewrite pending_unlink_app, C. reflexivity.
      * cbn [cstep] in Hf. rewrite files_of_new in Hf. specialize (Hc f Hf).
        apply andb_true_iff in Hc. destruct Hc as [Hc C]. apply andb_true_iff in Hc. destruct Hc as [A B].
        apply mem_In in A. apply mem_In in B. apply negb_true_iff in C.
        cbn [cstep base pend term]. repeat split; auto. rewrite pending_unlink_app, C. reflexivity.
    + intros g Hg. unfold ngen. cbn [cstep gens]. rewrite app_length. cbn [length].
      destruct (Hposs g Hg) as [Hg' | ->]; [specialize (Il g Hg'); unfold ngen in Il; lia|unfold ngen; lia].
    + cbn [cstep returned base]. intros r Hr. destruct (Ir r Hr) as [A B]. split; [|exact B].
      intros g Hg. destruct (Hposs g Hg) as [Hg' | ->]; [auto|].
      (* r <= ngen c : r is <= some possible generation < ngen, or base meta exists *)
      destruct (ns_meta (base c)) as [g0|] eqn:E; [|contradiction].
      assert (In g0 (possible c)) by (apply possible_In_pend; auto).
      specialize (A g0 H). specialize (Il g0 H). lia.
    + cbn [cstep base pend]. intros g0 E g Hg. rewrite pend_metas_app in Hg. cbn [pend_metas flat_map app] in Hg.
      rewrite in_app_iff in Hg. destruct Hg as [Hg|[<-|[]]]; [eapply Is; eassumption|].
      apply Il. apply possible_In_pend. now left.
  - (* EDelete *)
    cbn [check] in Hc. rewrite forallb_forall in Hc.
    assert (Hposs : forall g, In g (possible (cstep c (EDelete p))) -> In g (possible c)).
    { intros g Hg. apply possible_In_pend. apply possible_In_pend in Hg. cbn [cstep base pend] in Hg.
      rewrite pend_metas_app in Hg. cbn [pend_metas flat_map app] in Hg. rewrite app_nil_r in Hg. exact Hg. }
    split; cbn [cstep base pend term gens returned].
    + intros g Hg f Hf. specialize (Hposs g Hg). destruct (If g Hposs f Hf) as (A & B & C). repeat split; auto.
      rewrite pending_unlink_app, C. cbn [pending_unlink existsb orb].
      specialize (Hc g Hposs). apply negb_true_iff in Hc.
      destruct (N.eqb f p) eqn:E; [|reflexivity]. apply N.eqb_eq in E. subst f.
      assert (mem p (files_of c g) = true) by (apply mem_In; exact Hf). congruence.
    + intros g Hg. apply Il, Hposs, Hg.
    + intros r Hr. destruct (Ir r Hr) as [A B]. split; [|exact B]. intros g Hg. apply A, Hposs, Hg.
    + intros g0 E g Hg. rewrite pend_metas_app in Hg. cbn [pend_metas flat_map app] in Hg. rewrite app_nil_r in Hg. eapply Is; eassumption.
  - (* ESyncDir *)
    assert (Hposs : forall g, In g (possible (cstep c ESyncDir)) -> In g (possible c)).
    { intros g Hg. apply possible_In_pend in Hg. cbn [cstep base pend pend_metas flat_map] in Hg.
      destruct Hg as [Hg|[]]. apply apply_all_meta in Hg. apply possible_In_pend. exact Hg. }
    split; cbn [cstep base pend term gens returned].
    + intros g Hg f Hf. specialize (Hposs g Hg). destruct (If g Hposs f Hf) as (A & B & C).
      repeat split; auto. apply apply_all_keeps; [exact A|]. apply pending_unlink_false. exact C.
    + intros g Hg. apply Il, Hposs, Hg.
    + intros r Hr. destruct (Ir r Hr) as [A B]. split; [intros g Hg; apply A, Hposs, Hg|].
      apply apply_all_meta_some. exact B.
    + intros g0 E g Hg. cbn in Hg. contradiction.
  - (* ECommitRet *)
    cbn [check] in Hc. destruct (ns_meta (base c)) as [g0|] eqn:Eb; [|discriminate].
    split; cbn [cstep base pend term gens returned].
    + exact If.
    + exact Il.
    + rewrite Eb. intros r Hr. injection Hr as <-. split; [|discriminate].
      intros g Hg. change (possible (cstep c (ECommitRet o))) with (possible c) in Hg.
      apply possible_In_pend in Hg. cbn [base pend] in Hg. destruct Hg as [Hg|Hg]; [assert (g = g0) by congruence; lia|].
      specialize (Is g0 eq_refl g Hg). lia.
    + rewrite Eb. exact Is.
Qed.

Lemma monitor_from_inv t : forall c, Inv c -> monitor_from c t = true -> Inv (fold_left cstep t c).
Proof.
  induction t as [|e t IH]; intros c Hi Hm; [exact Hi|].
  cbn [monitor_from] in Hm. apply andb_true_iff in Hm. destruct Hm as [Hc Hm].
  cbn [fold_left]. apply IH; [apply inv_step; assumption|exact Hm].
Qed.

Lemma monitor_from_prefix t1 t2 : forall c, monitor_from c (t1 ++ t2) = true -> monitor_from c t1 = true.
Proof.
  induction t1 as [|e t1 IH]; intros c H; [reflexivity|].
  cbn [app monitor_from] in *. apply andb_true_iff in H. destruct H as [A B].
  rewrite A. cbn [andb]. apply IH. exact B.
Qed.

(* ---------- what a crash can leave ---------- *)
Lemma crash_recover c img : Inv c -> crash c img ->
  (forall g, ns_meta img = Some g ->
      openable c img g /\ g < ngen c /\ (forall r, returned c = Some r -> r <= g)) /\
  (forall r, returned c = Some r -> ns_meta img <> None).
Proof.
  intros [If Il Ir] (sub & Hsub & ->). split.
  - intros g Hg. apply apply_all_meta in Hg.
    assert (Hp : In g (possible c)).
    { apply possible_In_pend. destruct Hg as [Hg|Hg]; [now left|right].
      apply pend_metas_In. apply pend_metas_In in Hg. eapply subseq_In; eassumption. }
    split; [|split; [apply Il, Hp|intros r Hr; apply (proj1 (Ir r Hr)), Hp]].
    intros f Hf. destruct (If g Hp f Hf) as (A & B & C). split; [|exact B].
    apply apply_all_keeps; [exact A|]. intros q Hq. apply (proj1 (pending_unlink_false f (pend c)) C).
    eapply subseq_In; eassumption.
  - intros r Hr. apply apply_all_meta_some. exact (proj2 (Ir r Hr)).
Qed.

(* C01: for every accepted trace, every crash point k, every crash outcome *)
Theorem monitor_sound t : monitor t = true ->
  forall k img, crash (run (firstn k t)) img ->
  let c := run (firstn k t) in
  (forall g, ns_meta img = Some g ->
      openable c img g /\ g < ngen c /\ (forall r, returned c = Some r -> r <= g)) /\
  (forall r, returned c = Some r -> exists g, ns_meta img = Some g).
Proof.
  intros Hm k img Hc c.
  assert (Hi : Inv c).
  { unfold c, run. apply monitor_from_inv; [apply inv_init|].
    unfold monitor in Hm. rewrite <- (firstn_skipn k t) in Hm. eapply monitor_from_prefix. exact Hm. }
  destruct (crash_recover c img Hi Hc) as [A B]. split; [exact A|].
  intros r Hr. specialize (B r Hr). destruct (ns_meta img) as [g|]; [now exists g|contradiction].
Qed.

(* ---------- any number of crashes and recoveries ---------- *)
Lemma restart_inv c img : Inv c -> crash c img -> Inv (restart c img).
Proof.
  intros Hi Hc. destruct (crash_recover c img Hi Hc) as [A B].
  assert (Hposs : forall g, In g (possible (restart c img)) -> ns_meta img = Some g).
  { intros g Hg. apply possible_In_pend in Hg. cbn [restart base pend pend_metas flat_map] in Hg. destruct Hg as [Hg|[]]. exact Hg. }
  split.
  - intros g Hg f Hf. specialize (Hposs g Hg). destruct (A g Hposs) as (Ho & _ & _).
    change (files_of (restart c img) g) with (files_of c g) in Hf. destruct (Ho f Hf) as [X Y].
    cbn [restart base term pend]. repeat split; auto.
  - intros g Hg. specialize (Hposs g Hg). destruct (A g Hposs) as (_ & Hlt & _). exact Hlt.
  - intros r Hr. cbn [restart returned] in Hr. split.
    + intros g Hg. specialize (Hposs g Hg). destruct (A g Hposs) as (_ & _ & Hle). apply Hle, Hr.
    + cbn [restart base]. apply (B r Hr).
  - intros g0 _ g Hg. cbn [restart pend pend_metas flat_map] in Hg. contradiction.
Qed.

(* the states a machine can be in: it runs disciplined storage operations, and at any moment it may crash -- with any
   outcome the persistence model allows -- and come back *)
Inductive reach : cst -> Prop :=
| reach_init : reach init
| reach_step c e : reach c -> check c e = true -> reach (cstep c e)
| reach_crash c img : reach c -> crash c img -> reach (restart c img).

Lemma reach_inv c : reach c -> Inv c.
Proof.
  induction 1 as [|c e _ IH Hc|c img _ IH Hc]; [apply inv_init|apply inv_step; assumption|apply restart_inv; assumption].
Qed.

(* C01 across restarts: after ANY number of crashes and recoveries interleaved with disciplined operation, the next
   crash still leaves a started generation, complete, not older than the last commit that returned (in any of the lives) *)
Theorem crash_safe_across_restarts c img : reach c -> crash c img ->
  (forall g, ns_meta img = Some g ->
      openable c img g /\ g < ngen c /\ (forall r, returned c = Some r -> r <= g)) /\
  (forall r, returned c = Some r -> ns_meta img <> None).
Proof. intros Hr. apply crash_recover, reach_inv, Hr. Qed.

(* a process started on a crash image whose meta.json references only present, complete files starts in the invariant *)
Lemma from_image_inv files complete meta_files o :
  (forall f, In f meta_files -> In f files /\ In f complete) -> Inv (from_image files complete meta_files o).
Proof.
  intros H. split; cbn [from_image base pend term gens returned].
  - intros g Hg f Hf. unfold possible in Hg. cbn [from_image base pend ns_meta pend_metas flat_map app] in Hg.
    destruct Hg as [<-|[]]. unfold files_of in Hf. cbn [from_image gens nth N.to_nat fst] in Hf.
    destruct (H f Hf) as [A B]. repeat split; auto.
  - intros g Hg. unfold possible in Hg. cbn [from_image base pend ns_meta pend_metas flat_map app] in Hg.
    destruct Hg as [<-|[]]. unfold ngen. cbn. lia.
  - intros r Hr. discriminate.
  - intros g0 _ g Hg. cbn in Hg. contradiction.
Qed.

(* ... so everything it then does under the discipline is crash safe again (the recovery runs of the harness are fed
   through `monitor_from (from_image ..)` inside Coq) *)
Theorem recovered_process_crash_safe files complete meta_files o t k img :
  (forall f, In f meta_files -> In f files /\ In f complete) ->
  monitor_from (from_image files complete meta_files o) t = true ->
  let c := fold_left cstep (firstn k t) (from_image files complete meta_files o) in
  crash c img ->
  (forall g, ns_meta img = Some g -> openable c img g /\ g < ngen c /\ (forall r, returned c = Some r -> r <= g)) /\
  (forall r, returned c = Some r -> ns_meta img <> None).
Proof.
  intros H Hm c Hc. apply crash_recover; [|exact Hc]. unfold c. apply monitor_from_inv; [apply from_image_inv, H|].
  rewrite <- (firstn_skipn k t) in Hm. eapply monitor_from_prefix. exact Hm.
Qed.

(* non-emptiness of the crash relation: the no-loss and the total-loss outcomes always exist *)
Lemma crash_all c : crash c (apply_all (base c) (pend c)).
Proof. exists (pend c). split; [apply subseq_refl|reflexivity]. Qed.
Lemma crash_none c : crash c (base c).
Proof. exists []. split; [apply subseq_nil|reflexivity]. Qed.

(* first_bad agrees with monitor *)
Lemma first_bad_none t : forall c i, first_bad_from c t i = None <-> monitor_from c t = true.
Proof.
  induction t as [|e t IH]; intros c i; cbn [first_bad_from monitor_from]; [tauto|].
  destruct (check c e); cbn [andb]; [apply IH|split; discriminate].
Qed.

(* ---------- C11: a commit that returned Ok is complete and durable ---------- *)
Lemma monitor_from_app t1 t2 : forall c,
  monitor_from c (t1 ++ t2) = monitor_from c t1 && monitor_from (fold_left cstep t1 c) t2.
Proof.
  induction t1 as [|e t1 IH]; intros c; [reflexivity|].
  cbn [app monitor_from fold_left]. rewrite IH. now rewrite andb_assoc.
Qed.

Lemma subseq_pend_metas sub l g : subseq sub l -> In g (pend_metas sub) -> In g (pend_metas l).
Proof. intros Hs Hg. apply pend_metas_In. apply pend_metas_In in Hg. eapply subseq_In; eassumption. Qed.

Lemma commit_ret_durable c o : Inv c -> check c (ECommitRet o) = true ->
  exists g0, ns_meta (base c) = Some g0 /\ opstamp_of c g0 = o /\
  forall img, crash c img -> exists g, ns_meta img = Some g /\ g0 <= g /\ g < ngen c /\ openable c img g.
Proof.
  intros Hi Hc. cbn [check] in Hc.
  destruct (ns_meta (base c)) as [g0|] eqn:Eb; [|discriminate]. apply N.eqb_eq in Hc.
  exists g0. split; [reflexivity|]. split; [exact Hc|].
  intros img Hcr. destruct (crash_recover c img Hi Hcr) as [A _].
  destruct Hcr as (sub & Hsub & ->).
  destruct (ns_meta (apply_all (base c) sub)) as [g|] eqn:Eg.
  - exists g. split; [reflexivity|]. destruct (A g eq_refl) as (Ho & Hlt & _).
    split; [|split; [exact Hlt|exact Ho]].
    apply apply_all_meta in Eg. destruct Eg as [Eg|Eg]; [rewrite Eb in Eg; injection Eg as <-; lia|].
    apply (subseq_pend_metas _ _ _ Hsub) in Eg. pose proof (inv_sorted c Hi g0 Eb g Eg). lia.
  - exfalso. revert Eg. apply apply_all_meta_some. rewrite Eb. discriminate.
Qed.

Theorem ok_commit_is_complete t1 t2 o : monitor (t1 ++ ECommitRet o :: t2) = true ->
  exists g0, ns_meta (base (run t1)) = Some g0 /\ opstamp_of (run t1) g0 = o /\
  forall img, crash (run t1) img ->
  exists g, ns_meta img = Some g /\ g0 <= g /\ g < ngen (run t1) /\ openable (run t1) img g.
Proof.
  intros Hm. unfold monitor in Hm. rewrite monitor_from_app in Hm.
  apply andb_true_iff in Hm. destruct Hm as [H1 H2]. cbn [monitor_from] in H2.
  apply andb_true_iff in H2. destruct H2 as [H2 _].
  apply commit_ret_durable; [|exact H2].
  unfold run. apply monitor_from_inv; [apply inv_init|exact H1].
Qed.
