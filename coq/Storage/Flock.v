(* E1 storage engine, part 11: MmapDirectory::acquire_lock -- open(O_CREAT) the lock file, flock it (blocking for
   META_LOCK, non-blocking for the writer lock); closing the handle releases the lock.  flock locks belong to the
   INODE, not to the name: as long as nobody ever unlinks the lock file every handle refers to the same inode and the
   lock excludes.  If a release also unlinked the file ("do not leave lock files behind"), a waiter already blocked on
   the old inode and a newcomer creating a fresh inode under the same name would both hold "the" lock.
   `MMAP_LOCK_RELEASE_UNLINKS` (regenerated from the source) says whether the guard's drop removes the file. *)
From TV Require Import Base.Prelude Generated.Constants.
Local Open Scope N_scope.

Inductive flev :=
| FOpen (t : N)      (* thread t opens the lock file, creating it if the name does not exist *)
| FLock (t : N)      (* t's flock is granted if nobody holds a lock on t's inode (otherwise t keeps waiting / gets LockBusy) *)
| FClose (t : N).    (* t drops its guard: the handle is closed (and, in the unlinking variant, the name removed) *)

Record flst := {
  fl_name : option N;            (* the inode the lock file's name points to *)
  fl_next : N;                   (* next fresh inode *)
  fl_fd : list (N * N);          (* thread -> inode of its open handle *)
  fl_held : list (N * N)         (* inode -> thread holding the flock on it *)
}.
Definition fl0 : flst := {| fl_name := None; fl_next := 0; fl_fd := []; fl_held := [] |}.

Fixpoint assoc (k : N) (l : list (N * N)) : option N :=
  match l with [] => None | (a, b) :: r => if N.eqb a k then Some b else assoc k r end.
Definition drop_key (k : N) (l : list (N * N)) : list (N * N) := filter (fun x => negb (N.eqb (fst x) k)) l.
Definition drop_val (v : N) (l : list (N * N)) : list (N * N) := filter (fun x => negb (N.eqb (snd x) v)) l.

Definition flstep_gen (unlinks : bool) (s : flst) (e : flev) : flst :=
  match e with
  | FOpen t =>
      match assoc t (fl_fd s) with
      | Some _ => s
      | None =>
          match fl_name s with
          | Some i => {| fl_name := fl_name s; fl_next := fl_next s; fl_fd := (t, i) :: fl_fd s; fl_held := fl_held s |}
          | None => {| fl_name := Some (fl_next s); fl_next := fl_next s + 1; fl_fd := (t, fl_next s) :: fl_fd s; fl_held := fl_held s |}
          end
      end
  | FLock t =>
      match assoc t (fl_fd s) with
      | None => s
      | Some i => match assoc i (fl_held s) with
                  | Some _ => s
                  | None => {| fl_name := fl_name s; fl_next := fl_next s; fl_fd := fl_fd s; fl_held := (i, t) :: fl_held s |}
                  end
      end
  | FClose t =>
      match assoc t (fl_fd s) with
      | None => s
      | Some _ => {| fl_name := if unlinks then None else fl_name s; fl_next := fl_next s;
                    fl_fd := drop_key t (fl_fd s); fl_held := drop_val t (fl_held s) |}
      end
  end.

Definition release_unlinks : bool := N.eqb MMAP_LOCK_RELEASE_UNLINKS 1.
Definition flrun_gen (unlinks : bool) (evs : list flev) : flst := fold_left (flstep_gen unlinks) evs fl0.
Definition flrun := flrun_gen release_unlinks.
Definition holders (s : flst) : list N := map snd (fl_held s).
