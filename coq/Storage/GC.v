(* E1 storage engine, part 3: ManagedDirectory bookkeeping and garbage collection (C10).
   Transliterates register_file_as_managed (register, then create) and garbage_collect
   (delete every managed path that is not living; un-register what was deleted). *)
From TV Require Import Base.Prelude Storage.Crash Storage.CrashProofs.
Local Open Scope N_scope.

Record gstate := {
  g_files : list path;      (* files present in the directory (dot-files excluded) *)
  g_managed : list path     (* the persisted list of managed files *)
}.

Definition g_create (p : path) (s : gstate) : gstate :=
  {| g_files := p :: g_files s; g_managed := if mem p (g_managed s) then g_managed s else p :: g_managed s |}.

Definition gc (living : list path) (s : gstate) : gstate :=
  let del := filter (fun p => negb (mem p living)) (g_managed s) in
  {| g_files := filter (fun p => negb (mem p del)) (g_files s);
     g_managed := filter (fun p => mem p living) (g_managed s) |}.

Inductive gop := GCreate (p : path) | GCollect (living : list path).
Definition gstep (s : gstate) (o : gop) : gstate :=
  match o with GCreate p => g_create p s | GCollect l => gc l s end.
Definition grun (s : gstate) (ops : list gop) : gstate := fold_left gstep ops s.

Definition subset (a b : list path) : bool := forallb (fun x => mem x b) a.
Definition set_eqb (a b : list path) : bool := subset a b && subset b a.

(* what must hold at quiescence: the directory holds exactly the living files and the managed list
   matches the files that exist *)
Definition quiescent_ok (living : list path) (s : gstate) : bool :=
  set_eqb (g_files s) living && set_eqb (g_managed s) (g_files s).

(* class F5: the recovered image holds a file its .managed.json does not list (registration lost) *)
Definition f5_class (img_files img_managed : list path) : bool := negb (subset img_files img_managed).

Lemma mem_filter p f l : mem p (filter f l) = mem p l && f p.
Proof.
  induction l as [|x l IH]; [reflexivity|]. cbn [filter]. destruct (f x) eqn:E.
  - unfold mem in *. cbn [existsb]. rewrite IH. destruct (N.eqb_spec p x) as [->|Hn]; cbn [orb].
    + rewrite E. now rewrite andb_true_r.
    + reflexivity.
  - rewrite IH. unfold mem. cbn [existsb]. destruct (N.eqb_spec p x) as [->|Hn]; cbn [orb]; [|reflexivity].
    rewrite E, andb_false_r. reflexivity.
Qed.

(* GC never removes a living file, and never touches a file it does not manage *)
Theorem gc_safe living s f : In f (g_files s) -> (mem f living = true \/ mem f (g_managed s) = false) ->
  In f (g_files (gc living s)).
Proof.
  intros Hin H. cbn [gc g_files]. apply filter_In. split; [exact Hin|].
  apply negb_true_iff. rewrite mem_filter. destruct H as [H|H]; rewrite H; cbn; [now rewrite andb_false_r|reflexivity].
Qed.

(* every file is registered before it is created: files are always managed *)
Definition all_managed (s : gstate) : Prop := forall f, In f (g_files s) -> mem f (g_managed s) = true.

Lemma all_managed_step s o : all_managed s -> all_managed (gstep s o).
Proof.
  intros H. destruct o as [p|l]; cbn [gstep].
  - intros f [<-|Hf]; cbn [g_create g_managed].
    + destruct (mem p (g_managed s)) eqn:E; [exact E|]. unfold mem. cbn [existsb]. now rewrite N.eqb_refl.
    + specialize (H f Hf). destruct (mem p (g_managed s)); [exact H|]. unfold mem in *. cbn [existsb]. rewrite H. apply orb_true_r.
  - intros f Hf. cbn [gc g_files g_managed] in *. apply filter_In in Hf. destruct Hf as [Hf Hn].
    apply negb_true_iff in Hn. rewrite mem_filter in Hn. rewrite mem_filter. specialize (H f Hf). rewrite H in *.
    cbn [andb] in Hn. apply negb_false_iff in Hn. rewrite Hn. reflexivity.
Qed.

Lemma all_managed_run ops : forall s, all_managed s -> all_managed (grun s ops).
Proof. induction ops as [|o ops IH]; intros s H; [exact H|]. cbn [grun fold_left]. apply IH, all_managed_step, H. Qed.

(* no orphan: after ANY history of creations and collections starting from an empty directory, one
   more collection leaves only living files, and the managed list holds no dead entry *)
Theorem no_orphan_after_gc ops living f :
  In f (g_files (gc living (grun {| g_files := []; g_managed := [] |} ops))) -> mem f living = true.
Proof.
  set (s := grun _ ops). intros Hf.
  assert (Hm : all_managed s) by (apply all_managed_run; intros x []).
  cbn [gc g_files] in Hf. apply filter_In in Hf. destruct Hf as [Hf Hn].
  apply negb_true_iff in Hn. rewrite mem_filter, (Hm f Hf) in Hn. cbn [andb] in Hn.
  now apply negb_false_iff in Hn.
Qed.

Theorem managed_after_gc living s f : mem f (g_managed (gc living s)) = true -> mem f living = true.
Proof. cbn [gc g_managed]. rewrite mem_filter. intros H. apply andb_true_iff in H. apply H. Qed.
