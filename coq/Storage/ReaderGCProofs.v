From TV Require Import Base.Prelude Storage.Crash Storage.CrashProofs Storage.ReaderGC.
Local Open Scope N_scope.

Lemma range_from_In lo n g : In g (range_from lo n) <-> lo <= g < lo + N.of_nat n.
Proof.
  revert lo; induction n as [|n IH]; intros lo; cbn [range_from In].
  - split; [contradiction|lia].
  - rewrite IH. lia.
Qed.

Lemma live_gens_In s g : gc_base s <= rngen s -> (In g (live_gens s) <-> gc_base s <= g < rngen s).
Proof. intros H. unfold live_gens. rewrite range_from_In, N2Nat.id. lia. Qed.

Lemma rfiles_app s fs g (s' := {| present := present s; rgens := rgens s ++ [fs]; gc_base := gc_base s; lockh := lockh s; rd := rd s |}) :
  g < rngen s -> rfiles s' g = rfiles s g.
Proof. intros H. unfold rfiles, s'. cbn [rgens]. unfold rngen in H. apply app_nth1. lia. Qed.

Lemma rfiles_new s fs (s' := {| present := present s; rgens := rgens s ++ [fs]; gc_base := gc_base s; lockh := lockh s; rd := rd s |}) :
  rfiles s' (rngen s) = fs.
Proof. unfold rfiles, s', rngen. cbn [rgens]. rewrite Nat2N.id, app_nth2, Nat.sub_diag by lia. reflexivity. Qed.

Record RInv (s : rst) : Prop := {
  ri_files : forall g, gc_base s <= g < rngen s -> forall f, In f (rfiles s g) -> In f (present s);
  ri_base : gc_base s <= rngen s - 1;
  ri_read : forall r g, holds s r = true -> lookup r (rd s) = Some g -> gc_base s <= g < rngen s
}.

Lemma rinv_init : RInv rinit.
Proof. split; cbn; intros; try lia; discriminate. Qed.

Lemma rcur_spec s g : rcur s = Some g -> g = rngen s - 1 /\ 0 < rngen s.
Proof. unfold rcur. destruct (N.eqb_spec (rngen s) 0); [discriminate|]. intros E. injection E as <-. lia. Qed.

Lemma rcur_none s : rcur s = None -> rngen s = 0.
Proof. unfold rcur. destruct (N.eqb_spec (rngen s) 0); [auto|discriminate]. Qed.

Lemma lookup_filter_self r l : lookup r (filter (fun x => negb (N.eqb (fst x) r)) l) = None.
Proof.
  induction l as [|[x g] l IH]; [reflexivity|]. cbn [filter fst].
  destruct (N.eqb x r) eqn:E; cbn [negb]; [exact IH|]. cbn [lookup]. rewrite E. exact IH.
Qed.

Lemma rinv_step s e : RInv s -> rcheck s e = true -> RInv (rstep s e).
Proof.
  intros [Hf Hb Hr] Hc. destruct e as [r|r|r p|r| | |p|p|fs]; cbn [rstep].
  - (* RBegin *) split; cbn [present rgens gc_base lockh rd]; [exact Hf|exact Hb|].
    intros r' g Hh Hl. unfold holds in Hh. cbn [lockh] in Hh. apply N.eqb_eq in Hh. subst r'.
    rewrite lookup_filter_self in Hl. discriminate.
  - (* RRead *) cbn [rcheck] in Hc. apply andb_true_iff in Hc. destruct Hc as [Hh Hcur].
    destruct (rcur s) as [g0|] eqn:Ec; [|discriminate].
    destruct (rcur_spec s g0 Ec) as [-> Hpos].
    split; cbn [present rgens gc_base lockh rd]; [exact Hf|exact Hb|].
    intros r' g Hh' Hl. cbn [lookup] in Hl. destruct (N.eqb r r') eqn:E.
    + injection Hl as <-. unfold rngen in *. cbn [rgens]. lia.
    + apply (Hr r' g); [exact Hh'|exact Hl].
  - (* ROpen *) split; assumption.
  - (* REnd *) split; cbn [present rgens gc_base lockh rd]; [exact Hf|exact Hb|].
    intros r' g Hh. unfold holds in Hh. cbn [lockh] in Hh. discriminate.
  - (* GBegin *) split; cbn [present rgens gc_base lockh rd]; [exact Hf|exact Hb|].
    intros r' g Hh. unfold holds in Hh. cbn [lockh] in Hh. discriminate.
  - (* GEnd *) split; cbn [present rgens gc_base lockh rd].
    + intros g Hg f Hin. apply (Hf g); [|exact Hin].
      change (rngen {| present := present s; rgens := rgens s; gc_base := match rcur s with Some g0 => g0 | None => 0 end; lockh := HNone; rd := rd s |}) with (rngen s) in Hg.
      destruct (rcur s) as [g0|] eqn:Ec; [destruct (rcur_spec s g0 Ec) as [-> _]|pose proof (rcur_none s Ec)]; lia.
    + change (rngen {| present := present s; rgens := rgens s; gc_base := match rcur s with Some g0 => g0 | None => 0 end; lockh := HNone; rd := rd s |}) with (rngen s).
      destruct (rcur s) as [g0|] eqn:Ec; [destruct (rcur_spec s g0 Ec) as [-> _]|pose proof (rcur_none s Ec)]; lia.
    + intros r' g Hh. unfold holds in Hh. cbn [lockh] in Hh. discriminate.
  - (* GDelete *) cbn [rcheck] in Hc. rewrite forallb_forall in Hc.
    split; cbn [present rgens gc_base lockh rd]; [|exact Hb|exact Hr].
    intros g Hg f Hin.
    change (rngen {| present := filter (fun q => negb (p =? q)) (present s); rgens := rgens s; gc_base := gc_base s; lockh := lockh s; rd := rd s |}) with (rngen s) in Hg.
    change (rfiles {| present := filter (fun q => negb (p =? q)) (present s); rgens := rgens s; gc_base := gc_base s; lockh := lockh s; rd := rd s |} g) with (rfiles s g) in Hin.
    apply filter_In. split; [apply (Hf g Hg f Hin)|].
    assert (Hl : In g (live_gens s)) by (apply live_gens_In; lia).
    specialize (Hc g Hl). apply negb_true_iff in Hc. apply negb_true_iff, N.eqb_neq. intros ->.
    assert (mem f (rfiles s g) = true) by (apply mem_In; exact Hin). congruence.
  - (* WCreate *) split; cbn [present rgens gc_base lockh rd]; [|exact Hb|exact Hr].
    intros g Hg f Hin. right. apply (Hf g Hg f Hin).
  - (* WMeta *) cbn [rcheck] in Hc. rewrite forallb_forall in Hc.
    assert (Hn : rngen {| present := present s; rgens := rgens s ++ [fs]; gc_base := gc_base s; lockh := lockh s; rd := rd s |} = rngen s + 1).
    { unfold rngen. cbn [rgens]. rewrite app_length. cbn [length]. lia. }
    split; cbn [present gc_base lockh rd].
    + intros g Hg f Hin. rewrite Hn in Hg. destruct (N.eq_dec g (rngen s)) as [->|Hne].
      * rewrite rfiles_new in Hin. apply mem_In, Hc, Hin.
      * rewrite rfiles_app in Hin by lia. apply (Hf g); [lia|exact Hin].
    + rewrite Hn. lia.
    + intros r' g Hh Hl. rewrite Hn. specialize (Hr r' g Hh Hl). lia.
Qed.

(* C05: under the discipline every file a reload opens exists at that moment *)
Theorem opens_succeed_from t : forall s, RInv s -> rmonitor_from s t = true -> opens_ok_from s t = true.
Proof.
  induction t as [|e t IH]; intros s Hi Hm; [reflexivity|].
  cbn [rmonitor_from] in Hm. apply andb_true_iff in Hm. destruct Hm as [Hc Hm].
  cbn [opens_ok_from]. apply andb_true_iff. split.
  - destruct e as [r|r|r p|r| | |p|p|fs]; try reflexivity.
    cbn [rcheck] in Hc. apply andb_true_iff in Hc. destruct Hc as [Hh Hl].
    destruct (lookup r (rd s)) as [g|] eqn:El; [|discriminate].
    apply mem_In. apply (ri_files s Hi g); [apply (ri_read s Hi r g Hh El)|apply mem_In, Hl].
  - apply IH; [apply rinv_step; assumption|exact Hm].
Qed.

Theorem opens_succeed t : rmonitor t = true -> opens_ok t = true.
Proof. apply opens_succeed_from, rinv_init. Qed.

(* successive reloads of one reader never move back *)
Lemma rngen_mono s e : rngen s <= rngen (rstep s e).
Proof.
  destruct e as [r|r|r p|r| | |p|p|fs]; cbn [rstep]; unfold rngen; cbn [rgens]; try lia.
  - destruct (rcur s); cbn [rgens]; lia.
  - rewrite app_length. cbn [length]. lia.
Qed.

Lemma reads_from_mono r t : forall s,
  nondecreasing (reads_from s r t) = true /\ forall g, In g (reads_from s r t) -> rngen s - 1 <= g.
Proof.
  induction t as [|e t IH]; intros s; [split; [reflexivity|intros g []]|].
  cbn [reads_from]. destruct (IH (rstep s e)) as [Hn Hl]. pose proof (rngen_mono s e) as Hm.
  assert (Hl' : forall g, In g (reads_from (rstep s e) r t) -> rngen s - 1 <= g).
  { intros g Hg. specialize (Hl g Hg). lia. }
  destruct e as [x|x|x p|x| | |p|p|fs]; cbn [app]; try (split; [exact Hn|exact Hl']).
  destruct (N.eqb x r); [|split; [exact Hn|exact Hl']].
  destruct (rcur s) as [g0|] eqn:Ec; [|split; [exact Hn|exact Hl']].
  destruct (rcur_spec s g0 Ec) as [-> _]. cbn [app]. split.
  - destruct (reads_from (rstep s (RRead x)) r t) as [|b l] eqn:E; [reflexivity|].
    cbn [nondecreasing]. apply andb_true_iff. split; [|exact Hn].
    apply N.leb_le. apply Hl'. now left.
  - intros g [<-|Hg]; [lia|apply Hl', Hg].
Qed.

Theorem reloads_monotone r t : nondecreasing (reads r t) = true.
Proof. apply reads_from_mono. Qed.

(* a reload sees exactly one generation: every open of a section belongs to the generation read in it *)
Theorem open_belongs_to_read_generation s r p :
  rcheck s (ROpen r p) = true -> exists g, lookup r (rd s) = Some g /\ In p (rfiles s g).
Proof.
  cbn [rcheck]. intros H. apply andb_true_iff in H. destruct H as [_ H].
  destruct (lookup r (rd s)) as [g|]; [|discriminate]. exists g. split; [reflexivity|apply mem_In, H].
Qed.
