From TV Require Import Base.Prelude Generated.Constants Storage.UpdaterLife.
Local Open Scope N_scope.

(* with all four mechanisms: only the current writer's updater is alive, its view IS meta.json, every view is <= meta, and
   a save in flight belongs to a live updater *)
Record UInv (s : ust) : Prop := {
  ui_views : forall u x, ufind u (us_updaters s) = Some x -> u_id x = u /\ u_view x <= us_meta s;
  ui_alive : forall u x, ufind u (us_updaters s) = Some x -> u_alive x = true -> us_writer s = Some u /\ u_view x = us_meta s;
  ui_writer : forall w, us_writer s = Some w -> exists x, ufind w (us_updaters s) = Some x /\ u_alive x = true;
  ui_inflight : forall u, umem u (us_inflight s) = true -> exists x, ufind u (us_updaters s) = Some x /\ u_alive x = true
}.

Lemma uinv0 : UInv ust0.
Proof. split; cbn; intros; discriminate. Qed.

Lemma ufind_cons x l u : ufind u (x :: l) = if N.eqb (u_id x) u then Some x else ufind u l.
Proof. reflexivity. Qed.

Lemma umem_udrop v u l : umem v (udrop u l) = true -> umem v l = true /\ v <> u.
Proof.
  unfold umem, udrop. rewrite !existsb_exists. intros (y & Hy & E). apply filter_In in Hy. destruct Hy as [Hin Hne].
  apply N.eqb_eq in E. subst y. split; [exists v; split; [exact Hin|apply N.eqb_refl]|].
  apply negb_true_iff, N.eqb_neq in Hne. congruence.
Qed.

Lemma ustep_inv s e : UInv s -> UInv (ustep_gen true true true true s e) /\ us_meta s <= us_meta (ustep_gen true true true true s e).
Proof.
  intros [Hv Ha Hw Hi]. assert (Hs : UInv s) by (split; assumption).
  destruct e as [u|u|u|u r|u|u]; cbn [ustep_gen].
  - (* UNew *)
    destruct (us_writer s) as [w|] eqn:Ew; [split; [exact Hs|lia]|].
    destruct (ufind u (us_updaters s)) eqn:Ef; [split; [exact Hs|lia]|].
    split; [|cbn [us_meta]; lia]. split; cbn [us_meta us_updaters us_writer us_inflight].
    + intros v x. rewrite ufind_cons. cbn [u_id]. destruct (N.eqb_spec u v).
      * intros E. injection E as <-. cbn [u_id u_view]. split; [assumption|lia].
      * apply Hv.
    + intros v x. rewrite ufind_cons. cbn [u_id]. destruct (N.eqb_spec u v).
      * intros E _. injection E as <-. cbn [u_view]. subst. split; reflexivity.
      * intros E Hal. destruct (Ha v x E Hal) as [A _]. congruence.
    + intros w E. injection E as <-. exists {| u_id := u; u_alive := true; u_view := us_meta s |}. rewrite ufind_cons. cbn [u_id]. rewrite N.eqb_refl. split; reflexivity.
    + intros v Hm. destruct (Hi v Hm) as (x & Ex & Hal). destruct (Ha v x Ex Hal) as [A _]. congruence.
  - (* UCommit *)
    destruct (us_writer s) as [w|] eqn:Ew; [|split; [exact Hs|lia]].
    destruct (ufind u (us_updaters s)) as [x|] eqn:Ef; [|split; [exact Hs|lia]].
    destruct (N.eqb_spec w u) as [->|Hne]; cbn [andb]; [|split; [exact Hs|lia]].
    destruct (umem u (us_inflight s)) eqn:Em; cbn [negb]; [split; [exact Hs|lia]|].
    destruct (Hv u x Ef) as [Hid Hle]. destruct (Hw u eq_refl) as (x' & Ef' & Hal'). rewrite Ef in Ef'. injection Ef' as <-.
    destruct (Ha u x Ef Hal') as [_ Hview].
    split; [|cbn [us_meta]; lia]. split; cbn [us_meta us_updaters us_writer us_inflight uset].
    + intros v y. rewrite ufind_cons. cbn [u_id]. destruct (N.eqb_spec u v).
      * intros E. injection E as <-. cbn [u_id u_view]. split; [assumption|lia].
      * intros E. destruct (Hv v y E). split; [assumption|lia].
    + intros v y. rewrite ufind_cons. cbn [u_id]. destruct (N.eqb_spec u v).
      * intros E _. injection E as <-. cbn [u_view]. subst. split; reflexivity.
      * intros E Hal. destruct (Ha v y E Hal) as [A _]. congruence.
    + intros w E. injection E as <-. exists {| u_id := u; u_alive := u_alive x; u_view := u_view x + 1 |}.
      rewrite ufind_cons. cbn [u_id]. rewrite N.eqb_refl. split; [reflexivity|exact Hal'].
    + intros v Hm. destruct (Hi v Hm) as (y & Ey & Hal). destruct (Ha v y Ey Hal) as [A _].
      assert (v = u) by congruence. subst v. congruence.
  - (* USave *)
    destruct (ufind u (us_updaters s)) as [x|] eqn:Ef; [|split; [exact Hs|lia]].
    destruct (u_alive x) eqn:Eal; cbn [negb andb orb]; [|split; [exact Hs|lia]].
    destruct (umem u (us_inflight s)); [split; [exact Hs|lia]|].
    destruct (Ha u x Ef Eal) as [A B]. rewrite B.
    replace {| us_meta := us_meta s; us_updaters := us_updaters s; us_writer := us_writer s; us_inflight := us_inflight s |} with s by (destruct s; reflexivity).
    split; [exact Hs|lia].
  - (* UGone *)
    destruct (us_writer s) as [w|] eqn:Ew; [|split; [exact Hs|lia]].
    destruct (ufind u (us_updaters s)) as [x|] eqn:Ef; [|split; [exact Hs|lia]].
    destruct (N.eqb_spec w u) as [->|Hne]; [|split; [exact Hs|lia]].
    destruct (Hv u x Ef) as [Hid Hle]. destruct (Hw u eq_refl) as (x' & Ef' & Hal'). rewrite Ef in Ef'. injection Ef' as <-.
    destruct (Ha u x Ef Hal') as [_ Hview].
    assert (Hk : (if r then true else true) = true) by (destruct r; reflexivity). rewrite Hk. cbn [andb].
    assert (Hmeta : (if umem u (us_inflight s) then u_view x else us_meta s) = us_meta s) by (destruct (umem u (us_inflight s)); [exact Hview|reflexivity]).
    rewrite Hmeta. split; [|cbn [us_meta]; lia]. split; cbn [us_meta us_updaters us_writer us_inflight uset].
    + intros v y. rewrite ufind_cons. cbn [u_id]. destruct (N.eqb_spec u v).
      * intros E. injection E as <-. cbn [u_id u_view]. split; assumption.
      * apply Hv.
    + intros v y. rewrite ufind_cons. cbn [u_id]. destruct (N.eqb_spec u v).
      * intros E Hal. injection E as <-. cbn [u_alive] in Hal. discriminate.
      * intros E Hal. destruct (Ha v y E Hal) as [A _]. congruence.
    + intros w E. discriminate.
    + intros v Hm. assert (Hm' : umem v (us_inflight s) = true /\ (umem u (us_inflight s) = true -> v <> u)).
      { destruct (umem u (us_inflight s)) eqn:Emu; [destruct (umem_udrop _ _ _ Hm); split; auto|split; [exact Hm|discriminate]]. }
      destruct Hm' as [Hm1 Hne]. destruct (Hi v Hm1) as (y & Ey & Hal). destruct (Ha v y Ey Hal) as [A _].
      assert (v = u) by congruence. subst v.
      destruct (umem u (us_inflight s)) eqn:Emu; [exfalso; apply Hne; reflexivity|congruence].
  - (* UStall *)
    destruct (ufind u (us_updaters s)) as [x|] eqn:Ef; [|split; [exact Hs|lia]].
    destruct (u_alive x) eqn:Eal; cbn [negb andb orb]; [|split; [exact Hs|lia]].
    destruct (umem u (us_inflight s)) eqn:Em; [split; [exact Hs|lia]|].
    split; [|cbn [us_meta]; lia]. split; cbn [us_meta us_updaters us_writer us_inflight]; auto.
    intros v Hm. unfold umem in Hm. cbn [existsb] in Hm. apply orb_true_iff in Hm. destruct Hm as [E|Hm].
    + apply N.eqb_eq in E. subst v. exists x. split; assumption.
    + apply Hi. exact Hm.
  - (* UResume *)
    destruct (ufind u (us_updaters s)) as [x|] eqn:Ef; [|split; [exact Hs|lia]].
    destruct (umem u (us_inflight s)) eqn:Em; [|split; [exact Hs|lia]].
    destruct (Hi u Em) as (x' & Ef' & Hal'). rewrite Ef in Ef'. injection Ef' as <-.
    destruct (Ha u x Ef Hal') as [_ Hview]. rewrite Hview.
    split; [|cbn [us_meta]; lia]. split; cbn [us_meta us_updaters us_writer us_inflight]; auto.
    intros v Hm. destruct (umem_udrop _ _ _ Hm) as [Hm1 _]. apply Hi, Hm1.
Qed.

(* With Drop / rollback killing the updater, save_metas refusing to run on a killed updater, and the save holding a lock that
   kill() takes too: for every sequence of writer creations, commits, drops, rollbacks and saves by ANY updater, old or new,
   atomic or stalled between the liveness check and the write, what meta.json holds never moves back. *)
Theorem meta_never_moves_back_gen evs : forall s, UInv s ->
  us_meta s <= us_meta (fold_left (ustep_gen true true true true) evs s).
Proof.
  induction evs as [|e evs IH]; intros s Hs; [cbn; lia|]. cbn [fold_left].
  destruct (ustep_inv s e Hs) as [Hi Hle]. specialize (IH _ Hi). lia.
Qed.

Lemma u_flags_pinned : u_flags = (true, true, true, true).
Proof. reflexivity. Qed.

Lemma ustep_eq s e : ustep s e = ustep_gen true true true true s e.
Proof. unfold ustep. rewrite u_flags_pinned. reflexivity. Qed.

Lemma fold_ustep_eq evs : forall s, fold_left ustep evs s = fold_left (ustep_gen true true true true) evs s.
Proof. induction evs as [|e evs IH]; intros s; [reflexivity|]. cbn [fold_left]. rewrite ustep_eq. apply IH. Qed.

Lemma uinv_run evs : forall s, UInv s -> UInv (fold_left (ustep_gen true true true true) evs s).
Proof. induction evs as [|e evs IH]; intros s Hs; [exact Hs|]. cbn [fold_left]. apply IH, ustep_inv, Hs. Qed.

Theorem meta_never_moves_back evs1 evs2 :
  us_meta (fold_left ustep evs1 ust0) <= us_meta (fold_left ustep (evs1 ++ evs2) ust0).
Proof.
  rewrite fold_left_app, !fold_ustep_eq. apply meta_never_moves_back_gen. apply uinv_run, uinv0.
Qed.

(* each mechanism is needed (witnesses): writer 1 commits and is dropped / rolled back while a merge is still running,
   writer 2 commits, then writer 1's updater saves its view *)
Lemma drop_without_kill_loses_a_commit :
  us_meta (urun_gen false true true true [UNew 1; UCommit 1; UGone 1 false; UNew 2; UCommit 2; USave 1]) = 1 /\
  us_meta (urun_gen true true true true [UNew 1; UCommit 1; UGone 1 false; UNew 2; UCommit 2; USave 1]) = 2.
Proof. vm_compute. split; reflexivity. Qed.
Lemma save_without_liveness_check_loses_a_commit :
  us_meta (urun_gen true true false true [UNew 1; UCommit 1; UGone 1 true; UNew 2; UCommit 2; USave 1]) = 1.
Proof. vm_compute. reflexivity. Qed.
(* F052: the check alone is check-then-act -- a save that stalls after it and resumes after the next writer committed *)
Lemma unlocked_save_in_flight_loses_a_commit :
  us_meta (urun_gen true true true false [UNew 1; UCommit 1; UStall 1; UGone 1 false; UNew 2; UCommit 2; UResume 1]) = 1 /\
  us_meta (urun_gen true true true true [UNew 1; UCommit 1; UStall 1; UGone 1 false; UNew 2; UCommit 2; UResume 1]) = 2.
Proof. vm_compute. split; reflexivity. Qed.
