From TV Require Import Base.Prelude Generated.Constants Storage.UpdaterLife.
Local Open Scope N_scope.

(* with all three mechanisms: only the current writer's updater is alive, its view IS meta.json, every view is <= meta *)
Record UInv (s : ust) : Prop := {
  ui_views : forall u x, ufind u (us_updaters s) = Some x -> u_id x = u /\ u_view x <= us_meta s;
  ui_alive : forall u x, ufind u (us_updaters s) = Some x -> u_alive x = true -> us_writer s = Some u /\ u_view x = us_meta s;
  ui_writer : forall w, us_writer s = Some w -> exists x, ufind w (us_updaters s) = Some x /\ u_alive x = true
}.

Lemma uinv0 : UInv ust0.
Proof. split; cbn; intros; discriminate. Qed.

Lemma ufind_cons x l u : ufind u (x :: l) = if N.eqb (u_id x) u then Some x else ufind u l.
Proof. reflexivity. Qed.

Lemma ustep_inv s e : UInv s -> UInv (ustep_gen true true true s e) /\ us_meta s <= us_meta (ustep_gen true true true s e).
Proof.
  intros [Hv Ha Hw]. assert (Hs : UInv s) by (split; assumption).
  destruct e as [u|u|u|u r]; cbn [ustep_gen].
  - (* UNew *)
    destruct (us_writer s) as [w|] eqn:Ew; [split; [exact Hs|lia]|].
    destruct (ufind u (us_updaters s)) eqn:Ef; [split; [exact Hs|lia]|].
    split; [|cbn [us_meta]; lia]. split; cbn [us_meta us_updaters us_writer].
    + intros v x. rewrite ufind_cons. cbn [u_id]. destruct (N.eqb_spec u v).
      * intros E. injection E as <-. cbn [u_id u_view]. split; [assumption|lia].
      * apply Hv.
    + intros v x. rewrite ufind_cons. cbn [u_id]. destruct (N.eqb_spec u v).
      * intros E _. injection E as <-. cbn [u_view]. subst. split; reflexivity.
      * intros E Hal. destruct (Ha v x E Hal) as [A _]. congruence.
    + intros w E. injection E as <-. exists {| u_id := u; u_alive := true; u_view := us_meta s |}. rewrite ufind_cons. cbn [u_id]. rewrite N.eqb_refl. split; reflexivity.
  - (* UCommit *)
    destruct (us_writer s) as [w|] eqn:Ew; [|split; [exact Hs|lia]].
    destruct (ufind u (us_updaters s)) as [x|] eqn:Ef; [|split; [exact Hs|lia]].
    destruct (N.eqb_spec w u) as [->|Hne]; [|split; [exact Hs|lia]].
    destruct (Hv u x Ef) as [Hid Hle]. destruct (Hw u eq_refl) as (x' & Ef' & Hal'). rewrite Ef in Ef'. injection Ef' as <-.
    destruct (Ha u x Ef Hal') as [_ Hview].
    split; [|cbn [us_meta]; lia]. split; cbn [us_meta us_updaters us_writer uset].
    + intros v y. rewrite ufind_cons. cbn [u_id]. destruct (N.eqb_spec u v).
      * intros E. injection E as <-. cbn [u_id u_view]. split; [assumption|lia].
      * intros E. destruct (Hv v y E). split; [assumption|lia].
    + intros v y. rewrite ufind_cons. cbn [u_id]. destruct (N.eqb_spec u v).
      * intros E _. injection E as <-. cbn [u_view]. subst. split; reflexivity.
      * intros E Hal. destruct (Ha v y E Hal) as [A _]. congruence.
    + intros w E. injection E as <-. exists {| u_id := u; u_alive := u_alive x; u_view := u_view x + 1 |}.
      rewrite ufind_cons. cbn [u_id]. rewrite N.eqb_refl. split; [reflexivity|exact Hal'].
  - (* USave *)
    destruct (ufind u (us_updaters s)) as [x|] eqn:Ef; [|split; [exact Hs|lia]].
    destruct (u_alive x) eqn:Eal; cbn [negb andb]; [|split; [exact Hs|lia]].
    destruct (Ha u x Ef Eal) as [A B]. rewrite B.
    replace {| us_meta := us_meta s; us_updaters := us_updaters s; us_writer := us_writer s |} with s by (destruct s; reflexivity).
    split; [exact Hs|lia].
  - (* UGone *)
    destruct (us_writer s) as [w|] eqn:Ew; [|split; [exact Hs|lia]].
    destruct (ufind u (us_updaters s)) as [x|] eqn:Ef; [|split; [exact Hs|lia]].
    destruct (N.eqb_spec w u) as [->|Hne]; [|split; [exact Hs|lia]].
    destruct (Hv u x Ef) as [Hid Hle].
    assert (Hk : (if r then true else true) = true) by (destruct r; reflexivity). rewrite Hk.
    split; [|cbn [us_meta]; lia]. split; cbn [us_meta us_updaters us_writer uset].
    + intros v y. rewrite ufind_cons. cbn [u_id]. destruct (N.eqb_spec u v).
      * intros E. injection E as <-. cbn [u_id u_view]. split; assumption.
      * apply Hv.
    + intros v y. rewrite ufind_cons. cbn [u_id]. destruct (N.eqb_spec u v).
      * intros E Hal. injection E as <-. cbn [u_alive] in Hal. discriminate.
      * intros E Hal. destruct (Ha v y E Hal) as [A _]. congruence.
    + intros w E. discriminate.
Qed.

(* With Drop / rollback killing the updater and save_metas refusing to run on a killed updater: for every sequence of writer
   creations, commits, drops, rollbacks and (arbitrarily late) saves by ANY updater, old or new, what meta.json holds never
   moves back: a published commit is never overwritten by a stale view. *)
Theorem meta_never_moves_back_gen evs : forall s, UInv s ->
  us_meta s <= us_meta (fold_left (ustep_gen true true true) evs s).
Proof.
  induction evs as [|e evs IH]; intros s Hs; [cbn; lia|]. cbn [fold_left].
  destruct (ustep_inv s e Hs) as [Hi Hle]. specialize (IH _ Hi). lia.
Qed.

Lemma u_flags_pinned : u_flags = (true, true, true).
Proof. reflexivity. Qed.

Lemma ustep_eq s e : ustep s e = ustep_gen true true true s e.
Proof. unfold ustep. rewrite u_flags_pinned. reflexivity. Qed.

Lemma fold_ustep_eq evs : forall s, fold_left ustep evs s = fold_left (ustep_gen true true true) evs s.
Proof. induction evs as [|e evs IH]; intros s; [reflexivity|]. cbn [fold_left]. rewrite ustep_eq. apply IH. Qed.

Lemma uinv_run evs : forall s, UInv s -> UInv (fold_left (ustep_gen true true true) evs s).
Proof. induction evs as [|e evs IH]; intros s Hs; [exact Hs|]. cbn [fold_left]. apply IH, ustep_inv, Hs. Qed.

Theorem meta_never_moves_back evs1 evs2 :
  us_meta (fold_left ustep evs1 ust0) <= us_meta (fold_left ustep (evs1 ++ evs2) ust0).
Proof.
  rewrite fold_left_app, !fold_ustep_eq. apply meta_never_moves_back_gen. apply uinv_run, uinv0.
Qed.

(* each of the three mechanisms is needed (witnesses): writer 1 commits twice and is dropped / rolled back while a merge is
   still running, writer 2 commits, then writer 1's updater saves its view *)
Lemma drop_without_kill_loses_a_commit :
  us_meta (urun_gen false true true [UNew 1; UCommit 1; UGone 1 false; UNew 2; UCommit 2; USave 1]) = 1 /\
  us_meta (urun_gen true true true [UNew 1; UCommit 1; UGone 1 false; UNew 2; UCommit 2; USave 1]) = 2.
Proof. vm_compute. split; reflexivity. Qed.
Lemma save_without_liveness_check_loses_a_commit :
  us_meta (urun_gen true true false [UNew 1; UCommit 1; UGone 1 true; UNew 2; UCommit 2; USave 1]) = 1.
Proof. vm_compute. reflexivity. Qed.
