(* E1 storage engine, part 9: several threads reloading ONE IndexReader (C05: "successive reloads never move
   back to an older commit").

   InnerIndexReader::reload = create_searcher (under META_LOCK: read meta.json, open every segment) ; then, outside
   the lock, store the new searcher into the ArcSwap.  A reload on the watcher thread and one called by the user, or
   two user threads sharing the reader, interleave.  If reload() is not serialized, a thread pre-empted between the two
   halves overwrites the result of a more recent reload when it resumes: the reader goes back to an older commit.
   `RELOAD_SERIALIZED` (regenerated from the source by tools/pin.py) says whether reload() holds a reader-wide lock
   across both halves. *)
From TV Require Import Base.Prelude Generated.Constants.
Local Open Scope N_scope.

Inductive rlev :=
| Publish                        (* a commit (or a merge) replaced meta.json: one more generation *)
| Begin (t : N) (pause : bool)   (* thread t calls reload(): first half; `pause` = it is pre-empted before the store *)
| Resume (t : N)                 (* the pre-empted thread t runs its second half *)
| Look.                          (* reader.searcher() *)

Record rlst := {
  rl_cur : N;                    (* generation of meta.json *)
  rl_stored : N;                 (* generation of the searcher the reader hands out *)
  rl_paused : list (N * N);      (* pre-empted threads with the generation they loaded *)
  rl_waiting : list N;           (* threads blocked on the reload lock (serialized code only) *)
  rl_looks : list N              (* what searcher() showed, newest first *)
}.
Definition rl0 : rlst := {| rl_cur := 0; rl_stored := 0; rl_paused := []; rl_waiting := []; rl_looks := [] |}.

Fixpoint rl_find (t : N) (l : list (N * N)) : option N :=
  match l with [] => None | (x, g) :: r => if N.eqb x t then Some g else rl_find t r end.
Definition rl_remove (t : N) (l : list (N * N)) : list (N * N) := filter (fun x => negb (N.eqb (fst x) t)) l.
Definition is_nilp {A} (l : list A) : bool := match l with [] => true | _ => false end.

Definition rlstep_gen (serialized : bool) (s : rlst) (e : rlev) : rlst :=
  match e with
  | Publish => {| rl_cur := rl_cur s + 1; rl_stored := rl_stored s; rl_paused := rl_paused s; rl_waiting := rl_waiting s; rl_looks := rl_looks s |}
  | Begin t pause =>
      if serialized && negb (is_nilp (rl_paused s)) then
        (* the reload lock is held by the pre-empted thread: t blocks before reading anything *)
        {| rl_cur := rl_cur s; rl_stored := rl_stored s; rl_paused := rl_paused s; rl_waiting := rl_waiting s ++ [t]; rl_looks := rl_looks s |}
      else if pause then
        {| rl_cur := rl_cur s; rl_stored := rl_stored s; rl_paused := (t, rl_cur s) :: rl_paused s; rl_waiting := rl_waiting s; rl_looks := rl_looks s |}
      else
        {| rl_cur := rl_cur s; rl_stored := rl_cur s; rl_paused := rl_paused s; rl_waiting := rl_waiting s; rl_looks := rl_looks s |}
  | Resume t =>
      match rl_find t (rl_paused s) with
      | None => s
      | Some g =>
          (* t stores what it loaded; then the blocked threads run one after the other: each loads the current
             generation and stores it *)
          {| rl_cur := rl_cur s;
             rl_stored := if is_nilp (rl_waiting s) then g else rl_cur s;
             rl_paused := rl_remove t (rl_paused s); rl_waiting := []; rl_looks := rl_looks s |}
      end
  | Look => {| rl_cur := rl_cur s; rl_stored := rl_stored s; rl_paused := rl_paused s; rl_waiting := rl_waiting s; rl_looks := rl_stored s :: rl_looks s |}
  end.

Definition reload_serialized : bool := N.eqb RELOAD_SERIALIZED 1.
Definition rlstep := rlstep_gen reload_serialized.
Definition rlrun_gen (serialized : bool) (evs : list rlev) : rlst := fold_left (rlstep_gen serialized) evs rl0.
Definition rlrun := rlrun_gen reload_serialized.

(* what searcher() showed, oldest first *)
Definition rl_observed (s : rlst) : list N := rev (rl_looks s).

Fixpoint nonincreasing (l : list N) : Prop :=
  match l with
  | a :: ((b :: _) as t) => b <= a /\ nonincreasing t
  | _ => True
  end.
Fixpoint nonincreasingb (l : list N) : bool :=
  match l with
  | a :: ((b :: _) as t) => N.leb b a && nonincreasingb t
  | _ => true
  end.
