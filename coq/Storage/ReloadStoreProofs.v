From TV Require Import Base.Prelude Generated.Constants Storage.ReloadStore.
Local Open Scope N_scope.

(* serialized code: at most one pre-empted thread, and nobody stored since it loaded *)
Record RLInv (s : rlst) : Prop := {
  rli_le : rl_stored s <= rl_cur s;
  rli_paused : match rl_paused s with
               | [] => rl_waiting s = []
               | [(t, g)] => rl_stored s <= g <= rl_cur s
               | _ => False
               end;
  rli_looks : nonincreasing (rl_stored s :: rl_looks s)
}.

Lemma rlinv0 : RLInv rl0.
Proof. split; cbn; auto; lia. Qed.

Lemma nonincreasing_raise a b l : a <= b -> nonincreasing (a :: l) -> nonincreasing (b :: l).
Proof. intros H. destruct l as [|c l]; cbn [nonincreasing]; [auto|]. intros [H1 H2]. split; [lia|exact H2]. Qed.

Lemma rlstep_inv s e : RLInv s -> RLInv (rlstep_gen true s e).
Proof.
  intros [Hle Hp Hl]. destruct e as [|t pause|t|]; cbn [rlstep_gen andb].
  - (* Publish *) split; cbn [rl_cur rl_stored rl_paused rl_waiting rl_looks]; [lia| |exact Hl].
    destruct (rl_paused s) as [|[t g] [|x r]]; auto. lia.
  - (* Begin *) destruct (rl_paused s) as [|[t0 g0] [|x r]] eqn:Ep; cbn [is_nilp negb]; try contradiction.
    + destruct pause; split; cbn [rl_cur rl_stored rl_paused rl_waiting rl_looks]; rewrite ?Ep; auto; try lia.
      eapply nonincreasing_raise; [exact Hle|exact Hl].
    + split; cbn [rl_cur rl_stored rl_paused rl_waiting rl_looks]; rewrite ?Ep; auto.
  - (* Resume *) destruct (rl_paused s) as [|[t0 g0] [|x r]] eqn:Ep; cbn [rl_find]; try contradiction.
    + split; rewrite ?Ep; auto.
    + destruct (N.eqb t0 t) eqn:E.
      * split; cbn [rl_cur rl_stored rl_paused rl_waiting rl_looks rl_remove filter fst]; rewrite ?E; cbn [negb].
        -- destruct (is_nilp (rl_waiting s)); lia.
        -- reflexivity.
        -- eapply nonincreasing_raise; [|exact Hl]. destruct (is_nilp (rl_waiting s)); lia.
      * split; rewrite ?Ep; auto.
  - (* Look *) split; cbn [rl_cur rl_stored rl_paused rl_waiting rl_looks]; auto.
    cbn [nonincreasing]. split; [lia|exact Hl].
Qed.

Lemma rlrun_inv evs : forall s, RLInv s -> RLInv (fold_left (rlstep_gen true) evs s).
Proof. induction evs as [|e evs IH]; intros s H; [exact H|]. cbn [fold_left]. apply IH, rlstep_inv, H. Qed.

Lemma nonincreasing_tail a l : nonincreasing (a :: l) -> nonincreasing l.
Proof. destruct l as [|b l]; cbn [nonincreasing]; [auto|]. intros [_ H]. exact H. Qed.

(* With reload() serialized: whatever the interleaving of commits, reloads (pre-empted anywhere between their two
   halves) and searcher() calls, what the reader hands out never moves back to an older generation, and it is always
   a published one. *)
Theorem serialized_reader_never_moves_back evs :
  nonincreasing (rl_looks (rlrun_gen true evs)) /\ rl_stored (rlrun_gen true evs) <= rl_cur (rlrun_gen true evs).
Proof.
  destruct (rlrun_inv evs rl0 rlinv0) as [Hle _ Hl]. split; [|exact Hle]. eapply nonincreasing_tail, Hl.
Qed.

Lemma reload_serialized_pinned : reload_serialized = true.
Proof. reflexivity. Qed.

Theorem reader_never_moves_back evs : nonincreasing (rl_looks (rlrun evs)).
Proof. unfold rlrun. rewrite reload_serialized_pinned. apply serialized_reader_never_moves_back. Qed.

(* a reload that nobody interferes with shows the latest generation *)
Theorem quiet_reload_shows_latest evs t :
  rl_paused (rlrun evs) = [] -> rl_stored (rlstep (rlrun evs) (Begin t false)) = rl_cur (rlrun evs).
Proof. intros H. unfold rlstep. cbn [rlstep_gen]. rewrite H. cbn [is_nilp negb andb]. rewrite Bool.andb_false_r. reflexivity. Qed.

(* F151r: without the lock, a pre-empted reload overwrites a more recent one *)
Lemma unserialized_reload_moves_back :
  rl_observed (rlrun_gen false [Begin 1 true; Publish; Begin 2 false; Look; Resume 1; Look]) = [1; 0].
Proof. vm_compute. reflexivity. Qed.
Example serialized_same_schedule :
  rl_observed (rlrun_gen true [Begin 1 true; Publish; Begin 2 false; Look; Resume 1; Look]) = [0; 1].
Proof. vm_compute. reflexivity. Qed.

Lemma nonincreasingb_spec l : nonincreasingb l = true <-> nonincreasing l.
Proof.
  induction l as [|a [|b l] IH]; cbn [nonincreasingb nonincreasing]; try tauto.
  rewrite andb_true_iff, N.leb_le, IH. tauto.
Qed.
