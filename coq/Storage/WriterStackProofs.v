From TV Require Import Base.Prelude Generated.Constants Storage.WriterStack.
Local Open Scope N_scope.

Lemma bytes_eqb_eq a b : bytes_eqb a b = true <-> a = b.
Proof. apply list_eqb_eq. intros x y. apply N.eqb_eq. Qed.
Lemma bytes_eqb_refl a : bytes_eqb a a = true.
Proof. apply bytes_eqb_eq. reflexivity. Qed.
Lemma is_nil_eq l : is_nil l = true <-> l = [].
Proof. destruct l; cbn; split; congruence. Qed.

(* ---------- (b) atomicity ---------- *)
Definition PInv (s : fs) : Prop := f_renamed s = true -> f_dur s = f_os s /\ f_buf s = [].

Lemma pinv_step s p : PInv s -> pcheck s p = true -> PInv (pstep s p).
Proof.
  intros H Hc. destruct p as [l|l| | |]; cbn [pstep pcheck] in *; intros Hr; cbn [f_renamed f_dur f_os f_buf] in *.
  - rewrite Hr in Hc. discriminate.
  - rewrite Hr in Hc. discriminate.
  - destruct (H Hr) as [A B]. rewrite B, app_nil_r. split; [exact A|reflexivity].
  - destruct (H Hr) as [A B]. split; [reflexivity|exact B].
  - apply andb_true_iff in Hc. destruct Hc as [A B]. apply bytes_eqb_eq in A. apply is_nil_eq in B. split; assumption.
Qed.

(* once renamed, a disciplined run never changes what the OS holds *)
Lemma renamed_stable l : forall s, PInv s -> f_renamed s = true -> pmonitor_from s l = true ->
  f_os (prun s l) = f_os s /\ f_renamed (prun s l) = true.
Proof.
  induction l as [|p l IH]; intros s Hi Hr Hm; [split; [reflexivity|exact Hr]|].
  cbn [pmonitor_from] in Hm. apply andb_true_iff in Hm. destruct Hm as [Hc Hm].
  assert (Hi' := pinv_step s p Hi Hc).
  assert (Hos : f_os (pstep s p) = f_os s /\ f_renamed (pstep s p) = true).
  { destruct p as [x|x| | |]; cbn [pstep pcheck f_os f_renamed] in *.
    - rewrite Hr in Hc. discriminate.
    - rewrite Hr in Hc. discriminate.
    - destruct (Hi Hr) as [_ B]. rewrite B, app_nil_r. auto.
    - auto.
    - auto. }
  destruct Hos as [Ho Hr']. unfold prun. cbn [fold_left]. destruct (IH (pstep s p) Hi' Hr' Hm) as [A B].
  unfold prun in A, B. rewrite A, Ho. auto.
Qed.

Lemma pmonitor_split l1 l2 : forall s, pmonitor_from s (l1 ++ l2) = true ->
  pmonitor_from s l1 = true /\ pmonitor_from (prun s l1) l2 = true.
Proof.
  induction l1 as [|p l1 IH]; intros s H; [split; [reflexivity|exact H]|].
  cbn [app pmonitor_from] in H. apply andb_true_iff in H. destruct H as [Hc H].
  destruct (IH _ H) as [A B]. split; [cbn [pmonitor_from]; rewrite Hc, A; reflexivity|exact B].
Qed.

Lemma pinv_runs l : forall s, PInv s -> pmonitor_from s l = true -> PInv (prun s l).
Proof.
  induction l as [|p l IH]; intros s Hi Hm; [exact Hi|].
  cbn [pmonitor_from] in Hm. apply andb_true_iff in Hm. destruct Hm as [Hc Hm].
  unfold prun. cbn [fold_left]. apply IH; [apply pinv_step; assumption|exact Hm].
Qed.

Lemma pinv0 : PInv fs0.
Proof. intros H. discriminate. Qed.

(* Every disciplined sequence of primitives replaces the file atomically: at EVERY crash point, whether or not
   the rename reached the disk and however much un-synced data did, the name shows the old content or exactly
   the bytes the file holds when the sequence ends. *)
Theorem disciplined_replace_is_atomic l old j rs k :
  pmonitor_from fs0 l = true ->
  visible old (prun fs0 (firstn j l)) rs k = old \/
  visible old (prun fs0 (firstn j l)) rs k = Some (f_os (prun fs0 l)).
Proof.
  intros Hm. rewrite <- (firstn_skipn j l) in Hm. destruct (pmonitor_split _ _ _ Hm) as [H1 H2].
  set (s := prun fs0 (firstn j l)) in *.
  assert (Hi : PInv s) by (apply pinv_runs; [apply pinv0|exact H1]).
  unfold visible. destruct (f_renamed s) eqn:Hr; [|left; reflexivity].
  destruct rs; [|left; reflexivity]. right. cbn [andb].
  destruct (Hi Hr) as [A _]. rewrite A, firstn_all2 by lia.
  destruct (renamed_stable (skipn j l) s Hi Hr H2) as [B _].
  assert (E : prun fs0 l = prun s (skipn j l)).
  { unfold s, prun. rewrite <- fold_left_app, firstn_skipn. reflexivity. }
  rewrite E, B. reflexivity.
Qed.

(* the order the source has today, as primitives (by computation on the pinned table) *)
Lemma atomic_write_prims_eq content : atomic_write_prims content = [PWriteOs content; PFlush; PSync; PRename].
Proof. reflexivity. Qed.
Lemma terminate_prims_eq footer : terminate_prims footer = [PWriteBuf footer; PFlush; PSync].
Proof. reflexivity. Qed.

(* it is disciplined, writes exactly `content`, and ends renamed and synced *)
Lemma atomic_write_disciplined content : pmonitor_from fs0 (atomic_write_prims content) = true.
Proof.
  rewrite atomic_write_prims_eq.
  cbn [pmonitor_from pcheck pstep fs0 f_renamed f_buf f_os f_dur negb orb andb is_nil app].
  rewrite bytes_eqb_refl. reflexivity.
Qed.

Lemma atomic_write_final content : let s := prun fs0 (atomic_write_prims content) in
  f_os s = content /\ f_dur s = content /\ f_renamed s = true.
Proof.
  rewrite atomic_write_prims_eq. unfold prun. cbn [fold_left pstep fs0 f_renamed f_buf f_os f_dur app]. rewrite app_nil_r. auto.
Qed.

Theorem atomic_write_is_atomic content old j rs k :
  let v := visible old (prun fs0 (firstn j (atomic_write_prims content))) rs k in v = old \/ v = Some content.
Proof.
  cbn zeta. destruct (disciplined_replace_is_atomic (atomic_write_prims content) old j rs k (atomic_write_disciplined content)) as [H|H]; [left; exact H|right].
  rewrite H. destruct (atomic_write_final content) as [E _]. cbn zeta in E. rewrite E. reflexivity.
Qed.

(* the other order ("persist, then sync the file it returns") is NOT atomic: a crash between the two can leave
   an empty file under the final name *)
Lemma persist_before_sync_refuted :
  exists j rs k, let v := visible (Some [9]) (prun fs0 (firstn j (atomic_prims [1; 2; 4; 3] [1; 2; 3]))) rs k in
                 v <> Some [9] /\ v <> Some [1; 2; 3].
Proof. exists 3%nat, true, 0%nat. cbn. split; discriminate. Qed.

(* ---------- (a) terminate ---------- *)
Theorem terminate_makes_everything_durable s footer :
  let s' := prun s (terminate_prims footer) in f_dur s' = f_all s ++ footer /\ f_buf s' = [] /\ f_os s' = f_dur s'.
Proof.
  rewrite terminate_prims_eq. unfold prun, f_all. cbn [fold_left pstep f_renamed f_buf f_os f_dur]. rewrite app_assoc. auto.
Qed.

(* "fsync first, stamp the footer afterwards" leaves the footer un-synced *)
Lemma footer_after_sync_refuted :
  exists s footer, f_dur (prun s (footer_prims [2; 1; 3] [3; 2] [3; 4] footer)) <> f_all s ++ footer.
Proof. exists {| f_buf := [5]; f_os := [4]; f_dur := []; f_renamed := false |}, [7]. cbn. discriminate. Qed.

(* the executable explorers agree with the theorems on the current orders (non-vacuity, and what the
   failing-input search evaluates) *)
Example atomic_on_today : atomic_on (atomic_write_prims [1; 2; 3]) (Some [9]) [1; 2; 3] = true.
Proof. vm_compute. reflexivity. Qed.
Example atomic_on_rejects_swapped : atomic_on (atomic_prims [1; 2; 4; 3] [1; 2; 3]) (Some [9]) [1; 2; 3] = false.
Proof. vm_compute. reflexivity. Qed.
Example terminate_on_today : terminate_on (terminate_prims [7; 7]) {| f_buf := [5]; f_os := [4]; f_dur := []; f_renamed := false |} [7; 7] = true.
Proof. vm_compute. reflexivity. Qed.
Example terminate_on_rejects_swapped :
  terminate_on (footer_prims [2; 1; 3] [3; 2] [3; 4] [7; 7]) {| f_buf := [5]; f_os := [4]; f_dur := []; f_renamed := false |} [7; 7] = false.
Proof. vm_compute. reflexivity. Qed.
