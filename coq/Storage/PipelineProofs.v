From TV Require Import Base.Prelude Generated.Constants Storage.Pipeline.
Local Open Scope N_scope.

(* while the writer is alive no worker has died (there is at least one); once one has died the status holds no receiver;
   a blocked caller always has a live worker ahead of it *)
Record PLInv (s : pipe) : Prop := {
  pl_alive : p_alive s = true -> p_workers s <> 0;
  pl_dead : p_alive s = false -> p_status_rx s = false;
  pl_blocked : p_blocked s = true -> p_workers s <> 0
}.

Lemma plinv0 cap w : w <> 0 -> PLInv (pipe0 cap w).
Proof. intros H. split; cbn; intros; try discriminate; exact H. Qed.

Lemma pstep_inv s e : PLInv s -> PLInv (fst (pstep_gen true s e)).
Proof.
  intros Hs. destruct Hs as [Ha Hd Hb]. assert (Hs : PLInv s) by (split; assumption).
  destruct e; cbn [pstep_gen].
  - (* PSend *)
    destruct (p_blocked s) eqn:Eb; [exact Hs|].
    destruct (p_alive s) eqn:Ea; cbn [negb]; [|exact Hs].
    destruct (N.eqb (receivers s) 0); [exact Hs|].
    destruct (N.ltb (p_queue s) (p_cap s)); cbn [fst]; split; cbn [p_alive p_status_rx p_blocked p_workers]; auto; try discriminate.
  - (* PTake *)
    destruct (N.eqb (p_workers s) 0 || N.eqb (p_queue s) 0); [exact Hs|].
    cbn [fst]. split; cbn [p_alive p_status_rx p_blocked p_workers]; auto. discriminate.
  - (* PWorkerDies *)
    destruct (N.eqb (p_workers s) 0) eqn:Ew; [exact Hs|]. cbn [fst]. unfold settle.
    cbn [p_cap p_queue p_workers p_status_rx p_alive p_blocked]. unfold receivers. cbn [p_workers p_status_rx].
    destruct (p_blocked s && (p_workers s - 1 + 0 =? 0)) eqn:E; split; cbn [p_alive p_status_rx p_blocked p_workers]; try discriminate; auto.
    intros Hbl. rewrite Hbl in E. cbn [andb] in E. apply N.eqb_neq in E. lia.
Qed.

Lemma prun_inv evs : forall s, PLInv s -> PLInv (prun_gen true s evs).
Proof. induction evs as [|e evs IH]; intros s H; [exact H|]. unfold prun_gen in *. cbn [fold_left]. apply IH, pstep_inv, H. Qed.

(* With kill() dropping the status's receiver: whatever the caller and the workers do and whenever workers die, the caller is
   never left blocked in send() without a live worker to make room -- add_document cannot hang on a dead pipeline. *)
Theorem no_stuck_sender_gen cap w evs : w <> 0 -> stuck (prun_gen true (pipe0 cap w) evs) = false.
Proof.
  intros Hw. destruct (prun_inv evs _ (plinv0 cap w Hw)) as [_ _ Hb]. unfold stuck.
  destruct (p_blocked _) eqn:E; [|reflexivity]. cbn [andb]. apply N.eqb_neq. apply Hb. reflexivity.
Qed.

Lemma kill_drops_receiver_pinned : kill_drops_receiver = true.
Proof. reflexivity. Qed.

Theorem no_stuck_sender cap w evs : w <> 0 -> stuck (prun_gen kill_drops_receiver (pipe0 cap w) evs) = false.
Proof. rewrite kill_drops_receiver_pinned. apply no_stuck_sender_gen. Qed.

(* ... and once a worker has died every further add fails fast: nothing is accepted by a dead pipeline *)
Theorem dead_pipeline_refuses s : p_alive s = false -> p_blocked s = false -> snd (pstep s PSend) = PErr.
Proof. intros Ha Hb. unfold pstep. cbn [pstep_gen]. rewrite Hb, Ha. reflexivity. Qed.

(* the variant in which kill() only clears the flag: the last worker dies while the caller is blocked on the full channel,
   the status's copy of the receiver keeps the channel connected, and the caller sleeps for ever *)
Lemma kill_without_drop_hangs :
  stuck (prun_gen false (pipe0 2 1) [PSend; PSend; PSend; PWorkerDies]) = true /\
  stuck (prun_gen true (pipe0 2 1) [PSend; PSend; PSend; PWorkerDies]) = false.
Proof. vm_compute. split; reflexivity. Qed.
