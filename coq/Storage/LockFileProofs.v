From TV Require Import Base.Prelude Generated.Constants Storage.LockFile.
Local Open Scope N_scope.

Lemma lfinv0 : lfinv lf0.
Proof. left. split; reflexivity. Qed.

(* with the guard built between create and flush, every step keeps the invariant *)
Lemma lfstep_inv s o : lfinv s -> lfinv (fst (lfstep_gen true true s o)).
Proof.
  intros [[He Hg]|(g0 & He & Hg)]; destruct s as [e gs]; cbn [lf_exists lf_guards] in *; subst.
  - destruct o as [g cf ff|g]; cbn [lfstep_gen lf_exists lf_guards mem_g existsb fst].
    + destruct cf; [left; split; reflexivity|]. destruct ff; cbn [orb fst]; [left; split; reflexivity|].
      right. exists g. split; reflexivity.
    + left. split; reflexivity.
  - destruct o as [g cf ff|g]; cbn [lfstep_gen lf_exists lf_guards fst].
    + right. exists g0. split; reflexivity.
    + cbn [mem_g existsb orb]. destruct (N.eqb g g0) eqn:E; cbn [orb fst lf_exists lf_guards].
      * left. split; [reflexivity|]. cbn [remove_g filter]. rewrite E. reflexivity.
      * right. exists g0. split; reflexivity.
Qed.

Lemma lfrun_fst gac gbf s ops o : fst (lfrun_gen gac gbf s (o :: ops)) = fst (lfrun_gen gac gbf (fst (lfstep_gen gac gbf s o)) ops).
Proof.
  cbn [lfrun_gen]. destruct (lfstep_gen gac gbf s o) as [s1 x]. cbn [fst]. destruct (lfrun_gen gac gbf s1 ops) as [s2 xs]. reflexivity.
Qed.

Theorem lock_file_invariant_gen ops : forall s, lfinv s -> lfinv (fst (lfrun_gen true true s ops)).
Proof.
  induction ops as [|o ops IH]; intros s Hs; [exact Hs|]. rewrite lfrun_fst. apply IH, lfstep_inv, Hs.
Qed.

(* the order in the source today *)
Lemma lock_order_pinned : guard_after_create LOCK_ACQUIRE_ORDER = true /\ guard_before_flush LOCK_ACQUIRE_ORDER = true.
Proof. split; reflexivity. Qed.

(* For every sequence of acquisition attempts (with any I/O faults) and guard drops: the lock file exists exactly
   when one guard is alive, and there are never two guards. *)
Theorem lock_file_invariant ops : forall s, lfinv s -> lfinv (fst (lfrun s ops)).
Proof. unfold lfrun. destruct lock_order_pinned as [-> ->]. apply lock_file_invariant_gen. Qed.

(* the mechanism implements "who holds the lock" *)
Definition lfabs (s : lfst) : option N := match lf_guards s with g :: _ => Some g | [] => None end.

Lemma lfstep_refines s o : lfinv s ->
  snd (lfstep_gen true true s o) = snd (lfspec_step (lfabs s) o) /\ lfabs (fst (lfstep_gen true true s o)) = fst (lfspec_step (lfabs s) o).
Proof.
  intros [[He Hg]|(g0 & He & Hg)]; destruct s as [e gs]; cbn [lf_exists lf_guards] in *; subst; unfold lfabs; cbn [lf_guards].
  - destruct o as [g cf ff|g]; cbn [lfstep_gen lfspec_step lf_exists lf_guards mem_g existsb].
    + destruct cf, ff; cbn; split; reflexivity.
    + split; reflexivity.
  - destruct o as [g cf ff|g]; cbn [lfstep_gen lfspec_step lf_exists lf_guards mem_g existsb orb].
    + split; reflexivity.
    + destruct (N.eqb g g0) eqn:E; cbn [orb fst snd lf_guards remove_g filter]; [rewrite E|]; split; reflexivity.
Qed.

Theorem lock_file_refines_spec_gen ops : forall s, lfinv s -> snd (lfrun_gen true true s ops) = lfspec_run (lfabs s) ops.
Proof.
  induction ops as [|o ops IH]; intros s Hs; [reflexivity|].
  destruct (lfstep_refines s o Hs) as [E1 E2]. pose proof (lfstep_inv s o Hs) as Hi.
  cbn [lfrun_gen lfspec_run]. destruct (lfstep_gen true true s o) as [s1 x]. cbn [fst snd] in *.
  destruct (lfspec_step (lfabs s) o) as [h y]. cbn [fst snd] in *. subst.
  specialize (IH s1 Hi). destruct (lfrun_gen true true s1 ops) as [s2 xs]. cbn [snd] in *. now rewrite IH.
Qed.

Theorem lock_file_refines_spec ops : forall s, lfinv s -> snd (lfrun s ops) = lfspec_run (lfabs s) ops.
Proof. unfold lfrun. destruct lock_order_pinned as [-> ->]. apply lock_file_refines_spec_gen. Qed.

(* free again: whenever no guard is alive, a fault-free attempt succeeds -- whatever failed before *)
Theorem free_lock_can_be_acquired ops g : forall s, lfinv s ->
  lf_guards (fst (lfrun s ops)) = [] -> snd (lfstep (fst (lfrun s ops)) (Acq g false false)) = LOk.
Proof.
  intros s Hs Hg. destruct (lock_file_invariant ops s Hs) as [[He _]|(g0 & _ & Hg')]; [|congruence].
  unfold lfstep. cbn [lfstep_gen]. rewrite He. reflexivity.
Qed.

(* the two wrong orders (witnesses) *)
Lemma guard_after_flush_leaks :   (* F181: flush fails, the file stays, the lock can never be taken again *)
  lfcodes (snd (lfrun_gen true false lf0 [Acq 1 false true; Acq 2 false false])) = [3; 1] /\
  lf_guards (fst (lfrun_gen true false lf0 [Acq 1 false true; Acq 2 false false])) = [].
Proof. vm_compute. split; reflexivity. Qed.
Lemma guard_before_create_steals :   (* a refused attempt deletes the holder's lock file: two guards *)
  lfcodes (snd (lfrun_gen false true lf0 [Acq 1 false false; Acq 2 false false; Acq 3 false false])) = [0; 1; 0] /\
  lf_guards (fst (lfrun_gen false true lf0 [Acq 1 false false; Acq 2 false false; Acq 3 false false])) = [3; 1].
Proof. vm_compute. split; reflexivity. Qed.
Example lock_file_nonvacuous :
  lfcodes (snd (lfrun lf0 [Acq 1 false false; Acq 2 false false; Rel 1; Acq 3 true false; Acq 4 false true; Acq 5 false false; Rel 5])) = [0; 1; 0; 3; 3; 0; 0].
Proof. vm_compute. reflexivity. Qed.
