(* E1 storage engine, part 4: reader reloads vs. meta publication vs. garbage collection (C05).

   Actors, as they appear in a VerifDirectory log:
     reader r : RBegin r (acquire META_LOCK) ; RRead r (read meta.json) ; ROpen r p ... ; REnd r
     writer   : WCreate p (new file) ; WMeta files (atomic replace of meta.json)
     GC       : GBegin (acquire META_LOCK) ; GEnd (release: the delete set is now fixed) ; GDelete p ...
   META_LOCK sections exclude each other; the writer is NOT blocked by the lock; GC deletes happen
   after its section.  (InnerIndexReader::open_segment_readers, ManagedDirectory::garbage_collect,
   segment_updater::save_metas.) *)
From TV Require Import Base.Prelude Storage.Crash Storage.CrashProofs.
Local Open Scope N_scope.

Inductive rev :=
| RBegin (r : N) | RRead (r : N) | ROpen (r : N) (p : path) | REnd (r : N)
| GBegin | GEnd | GDelete (p : path)
| WCreate (p : path) | WMeta (files : list path).

Inductive holder := HNone | HReader (r : N) | HGc.

Record rst := {
  present : list path;                 (* names that exist (an open handle keeps its bytes anyway) *)
  rgens : list (list path);            (* files of each published generation *)
  gc_base : N;                         (* generation that was current at the last GC section *)
  lockh : holder;
  rd : list (N * N)                    (* reader -> generation it read in its current section *)
}.
Definition rinit : rst := {| present := []; rgens := []; gc_base := 0; lockh := HNone; rd := [] |}.

Definition rngen (s : rst) : N := N.of_nat (length (rgens s)).
Definition rfiles (s : rst) (g : N) : list path := nth (N.to_nat g) (rgens s) [].
Definition rcur (s : rst) : option N := if N.eqb (rngen s) 0 then None else Some (rngen s - 1).

Fixpoint lookup (r : N) (l : list (N * N)) : option N :=
  match l with [] => None | (x, g) :: t => if N.eqb x r then Some g else lookup r t end.
Definition holds (s : rst) (r : N) : bool := match lockh s with HReader x => N.eqb x r | _ => false end.

Definition rstep (s : rst) (e : rev) : rst :=
  match e with
  | RBegin r => {| present := present s; rgens := rgens s; gc_base := gc_base s; lockh := HReader r; rd := filter (fun x => negb (N.eqb (fst x) r)) (rd s) |}
  | RRead r => match rcur s with
               | Some g => {| present := present s; rgens := rgens s; gc_base := gc_base s; lockh := lockh s; rd := (r, g) :: rd s |}
               | None => s
               end
  | ROpen _ _ => s
  | REnd _ => {| present := present s; rgens := rgens s; gc_base := gc_base s; lockh := HNone; rd := rd s |}
  | GBegin => {| present := present s; rgens := rgens s; gc_base := gc_base s; lockh := HGc; rd := rd s |}
  | GEnd => {| present := present s; rgens := rgens s; gc_base := match rcur s with Some g => g | None => 0 end; lockh := HNone; rd := rd s |}
  | GDelete p => {| present := filter (fun q => negb (N.eqb p q)) (present s); rgens := rgens s; gc_base := gc_base s; lockh := lockh s; rd := rd s |}
  | WCreate p => {| present := p :: present s; rgens := rgens s; gc_base := gc_base s; lockh := lockh s; rd := rd s |}
  | WMeta fs => {| present := present s; rgens := rgens s ++ [fs]; gc_base := gc_base s; lockh := lockh s; rd := rd s |}
  end.

(* generations gc_base .. current *)
Fixpoint range_from (lo : N) (n : nat) : list N :=
  match n with O => [] | S n' => lo :: range_from (lo + 1) n' end.
Definition live_gens (s : rst) : list N := range_from (gc_base s) (N.to_nat (rngen s - gc_base s)).

(* the reload / GC discipline *)
Definition rcheck (s : rst) (e : rev) : bool :=
  match e with
  | RBegin _ | GBegin => match lockh s with HNone => true | _ => false end          (* sections exclude each other *)
  | RRead r => holds s r && match rcur s with Some _ => true | None => false end
  | ROpen r p =>                                                                    (* opens only inside the section, only files of the generation read *)
      holds s r && match lookup r (rd s) with Some g => mem p (rfiles s g) | None => false end
  | REnd r => holds s r
  | GEnd => match lockh s with HGc => true | _ => false end
  | GDelete p =>                                                                    (* never a file of a generation current at or after the last GC section *)
      forallb (fun g => negb (mem p (rfiles s g))) (live_gens s)
  | WCreate p => negb (mem p (present s))                                           (* files are write-once: names are never reused *)
  | WMeta fs => forallb (fun f => mem f (present s)) fs                             (* publish only files that exist *)
  end.

Fixpoint rmonitor_from (s : rst) (t : list rev) : bool :=
  match t with [] => true | e :: t' => rcheck s e && rmonitor_from (rstep s e) t' end.
Definition rmonitor (t : list rev) : bool := rmonitor_from rinit t.

(* what actually happens: does every open inside the trace find its file? *)
Fixpoint opens_ok_from (s : rst) (t : list rev) : bool :=
  match t with
  | [] => true
  | e :: t' => (match e with ROpen _ p => mem p (present s) | _ => true end) && opens_ok_from (rstep s e) t'
  end.
Definition opens_ok (t : list rev) : bool := opens_ok_from rinit t.

(* generations read by reader r, in order *)
Fixpoint reads_from (s : rst) (r : N) (t : list rev) : list N :=
  match t with
  | [] => []
  | e :: t' =>
      (match e with RRead x => if N.eqb x r then match rcur s with Some g => [g] | None => [] end else [] | _ => [] end)
      ++ reads_from (rstep s e) r t'
  end.
Definition reads (r : N) (t : list rev) : list N := reads_from rinit r t.

Fixpoint nondecreasing (l : list N) : bool :=
  match l with
  | a :: ((b :: _) as t) => N.leb a b && nondecreasing t
  | _ => true
  end.
