(* E1 storage engine, part 7: the durability primitives of the real directory (MmapDirectory).

   Crash.v assumes two things of the Directory it runs on:
     (a) `terminate` of a stream file makes ALL of its bytes durable (payload and footer);
     (b) `atomic_write` replaces a file atomically: whatever the crash point, the name shows the
         old content or the complete new content, never a mixture or a truncated file.
   Both are a matter of the ORDER of a handful of calls (append the footer, flush the user-space
   buffer, fsync the data, rename).  tools/pin.py extracts those orders from the source on every run
   (Generated.Constants: FOOTER_TERMINATE_ORDER, BUFWRITER_TERMINATE_ORDER, SAFEFILE_TERMINATE_ORDER,
   ATOMIC_WRITE_ORDER); this file gives them their meaning on a small file model and states the
   discipline under which (a) and (b) hold. *)
From TV Require Import Base.Prelude Generated.Constants.
Local Open Scope N_scope.

(* one file: bytes still in the writer's user-space buffer, bytes handed to the OS (page cache),
   how many of those were fsynced, and whether the file was renamed onto its final name *)
Record fs := { f_buf : list N; f_os : list N; f_dur : list N; f_renamed : bool }.

Inductive prim :=
| PWriteBuf (l : list N)   (* write through the buffered writer *)
| PWriteOs (l : list N)    (* write straight to the file *)
| PFlush                   (* buffer -> OS *)
| PSync                    (* fsync / fdatasync: everything the OS has is durable *)
| PRename.                 (* rename onto the final name (a directory operation: durable at the next directory sync) *)

Definition pstep (s : fs) (p : prim) : fs :=
  match p with
  | PWriteBuf l => {| f_buf := f_buf s ++ l; f_os := f_os s; f_dur := f_dur s; f_renamed := f_renamed s |}
  | PWriteOs l => {| f_buf := f_buf s; f_os := f_os s ++ l; f_dur := f_dur s; f_renamed := f_renamed s |}
  | PFlush => {| f_buf := []; f_os := f_os s ++ f_buf s; f_dur := f_dur s; f_renamed := f_renamed s |}
  | PSync => {| f_buf := f_buf s; f_os := f_os s; f_dur := f_os s; f_renamed := f_renamed s |}
  | PRename => {| f_buf := f_buf s; f_os := f_os s; f_dur := f_dur s; f_renamed := true |}
  end.
Definition prun (s : fs) (l : list prim) : fs := fold_left pstep l s.

Definition bytes_eqb := list_eqb N.eqb.
Definition is_nil (l : list N) : bool := match l with [] => true | _ => false end.

(* ---------- (a) terminate of a stream file: the writer stack FooterProxy(BufWriter(SafeFileWriter(File))) ---------- *)
(* SafeFileWriter::terminate_ref: 3 = File::flush (nothing is buffered at that level), 4 = sync_data *)
Definition safefile_prims (order : list N) : list prim :=
  flat_map (fun c => if N.eqb c 4 then [PSync] else []) order.
(* BufWriter::terminate_ref: 3 = flush the buffer, 2 = terminate the inner writer *)
Definition bufwriter_prims (order inner : list N) : list prim :=
  flat_map (fun c => if N.eqb c 3 then [PFlush] else if N.eqb c 2 then safefile_prims inner else []) order.
(* FooterProxy::terminate_ref: 1 = append the footer (through the buffered writer), 2 = terminate the inner
   writer, 3 = flush the inner writer *)
Definition footer_prims (order buford sford : list N) (footer : list N) : list prim :=
  flat_map (fun c => if N.eqb c 1 then [PWriteBuf footer] else if N.eqb c 2 then bufwriter_prims buford sford
                     else if N.eqb c 3 then [PFlush] else []) order.

(* what the source says today *)
Definition terminate_prims (footer : list N) : list prim :=
  footer_prims FOOTER_TERMINATE_ORDER BUFWRITER_TERMINATE_ORDER SAFEFILE_TERMINATE_ORDER footer.

(* all bytes ever written, in order *)
Definition f_all (s : fs) : list N := f_os s ++ f_buf s.

(* ---------- (b) atomic_write: 1 = write_all(content) to the temporary file, 2 = flush, 3 = sync_data, 4 = persist ---------- *)
Definition atomic_prims (order : list N) (content : list N) : list prim :=
  flat_map (fun c => if N.eqb c 1 then [PWriteOs content] else if N.eqb c 2 then [PFlush]
                     else if N.eqb c 3 then [PSync] else if N.eqb c 4 then [PRename] else []) order.
Definition atomic_write_prims (content : list N) : list prim := atomic_prims ATOMIC_WRITE_ORDER content.

Definition fs0 : fs := {| f_buf := []; f_os := []; f_dur := []; f_renamed := false |}.

(* what the target name shows after a crash: if the rename was issued AND reached the disk, the temporary
   file's durable bytes plus any `k` more of what the OS had; otherwise the old content *)
Definition visible (old : option (list N)) (s : fs) (rename_survives : bool) (k : nat) : option (list N) :=
  if f_renamed s && rename_survives then Some (firstn (length (f_dur s) + k) (f_os s)) else old.

(* the discipline: rename only a fully synced file, and leave it alone afterwards *)
Definition pcheck (s : fs) (p : prim) : bool :=
  match p with
  | PRename => bytes_eqb (f_dur s) (f_os s) && is_nil (f_buf s)
  | PWriteBuf _ | PWriteOs _ => negb (f_renamed s)
  | PFlush => negb (f_renamed s) || is_nil (f_buf s)
  | PSync => true
  end.
Fixpoint pmonitor_from (s : fs) (l : list prim) : bool :=
  match l with [] => true | p :: t => pcheck s p && pmonitor_from (pstep s p) t end.

(* exhaustive crash exploration of one atomic write (used for the failing-input search when the proof
   obligation on the pinned order breaks): every crash point, both fates of the rename, every amount of
   un-synced data *)
Definition opt_eqb (a b : option (list N)) : bool :=
  match a, b with Some x, Some y => bytes_eqb x y | None, None => true | _, _ => false end.
Definition atomic_on (l : list prim) (old : option (list N)) (content : list N) : bool :=
  forallb (fun j =>
    let s := prun fs0 (firstn j l) in
    forallb (fun rs => forallb (fun k =>
      let v := visible old s rs k in opt_eqb v old || opt_eqb v (Some content))
      (seq 0 (S (length content)))) [true; false])
    (seq 0 (S (length l)))
  && (let s := prun fs0 l in f_renamed s && bytes_eqb (f_dur s) content).
(* ... and of one terminate: afterwards every byte written (payload + footer) is durable *)
Definition terminate_on (l : list prim) (s : fs) (footer : list N) : bool :=
  let s' := prun s l in bytes_eqb (f_dur s') (f_all s ++ footer) && is_nil (f_buf s').
