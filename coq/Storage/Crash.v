(* E1 storage engine, part 1: what survives a crash, and the commit discipline.

   The events are the storage operations tantivy issues through the `Directory` trait
   (open_write / terminate / atomic_write(meta.json) / delete / sync_directory), in the
   total order in which a VerifDirectory logged them, plus a marker when a commit call
   returned Ok.  A file's *name* becomes durable at the next directory sync; its *data* is
   complete and fsynced once `terminate` returned.  `atomic_write` replaces meta.json by
   tmp-file + fsync(data) + rename: the rename, like every other directory operation, is
   pending until the next directory sync.  A crash keeps ANY subsequence of the pending
   directory operations (the persistence model of property C01). *)
From TV Require Import Base.Prelude.
Local Open Scope N_scope.

Definition path := N.

Inductive ev :=
| ECreate (p : path)
| ETerminate (p : path)
| EMetaWrite (files : list path) (opstamp : N)   (* generation number = index among the EMetaWrite events *)
| EDelete (p : path)
| ESyncDir
| ECommitRet (opstamp : N).   (* a commit call returned Ok(opstamp) *)

Inductive dirop := Link (p : path) | Unlink (p : path) | SetMeta (g : N).

Record ns := { ns_files : list path; ns_meta : option N }.

Definition mem (p : path) (l : list path) : bool := existsb (N.eqb p) l.

Definition apply1 (s : ns) (o : dirop) : ns :=
  match o with
  | Link p => {| ns_files := p :: ns_files s; ns_meta := ns_meta s |}
  | Unlink p => {| ns_files := filter (fun q => negb (N.eqb p q)) (ns_files s); ns_meta := ns_meta s |}
  | SetMeta g => {| ns_files := ns_files s; ns_meta := Some g |}
  end.
Definition apply_all (s : ns) (l : list dirop) : ns := fold_left apply1 l s.

Record cst := {
  base : ns;                     (* durable namespace as of the last directory sync *)
  pend : list dirop;             (* directory operations issued since, oldest first *)
  term : list path;              (* files whose data is complete and fsynced *)
  gens : list (list path * N);   (* files referenced by each meta generation, and its opstamp *)
  returned : option N            (* generation published by the latest returned commit *)
}.

Definition init : cst :=
  {| base := {| ns_files := []; ns_meta := None |}; pend := []; term := []; gens := []; returned := None |}.

Definition ngen (c : cst) : N := N.of_nat (length (gens c)).
Definition files_of (c : cst) (g : N) : list path := fst (nth (N.to_nat g) (gens c) ([], 0)).
Definition opstamp_of (c : cst) (g : N) : N := snd (nth (N.to_nat g) (gens c) ([], 0)).

Definition cstep (c : cst) (e : ev) : cst :=
  match e with
  | ECreate p => {| base := base c; pend := pend c ++ [Link p]; term := term c; gens := gens c; returned := returned c |}
  | ETerminate p => {| base := base c; pend := pend c; term := p :: term c; gens := gens c; returned := returned c |}
  | EMetaWrite fs o => {| base := base c; pend := pend c ++ [SetMeta (ngen c)]; term := term c; gens := gens c ++ [(fs, o)]; returned := returned c |}
  | EDelete p => {| base := base c; pend := pend c ++ [Unlink p]; term := term c; gens := gens c; returned := returned c |}
  | ESyncDir => {| base := apply_all (base c) (pend c); pend := []; term := term c; gens := gens c; returned := returned c |}
  | ECommitRet _ => {| base := base c; pend := pend c; term := term c; gens := gens c;
                       returned := match ns_meta (base c) with Some g => Some g | None => returned c end |}
  end.
Definition run (t : list ev) : cst := fold_left cstep t init.

(* ---- crash outcomes ---- *)
Inductive subseq {A} : list A -> list A -> Prop :=
| sub_nil : subseq [] []
| sub_skip x l l' : subseq l l' -> subseq l (x :: l')
| sub_keep x l l' : subseq l l' -> subseq (x :: l) (x :: l').

Definition crash (c : cst) (img : ns) : Prop :=
  exists sub, subseq sub (pend c) /\ img = apply_all (base c) sub.

(* the machine comes back after a crash that left `img`: the durable namespace is the image, nothing is pending; which
   files have complete data, the generations written so far and the obligation towards the last returned commit are
   what they were (files are write-once: a recovered writer never appends to an old file) *)
Definition restart (c : cst) (img : ns) : cst :=
  {| base := img; pend := []; term := term c; gens := gens c; returned := returned c |}.

(* a process that starts on a crash image knows nothing of the history but what the image shows: the files present,
   which of them are complete, and the one generation its meta.json holds *)
Definition from_image (files complete meta_files : list path) (opstamp : N) : cst :=
  {| base := {| ns_files := files; ns_meta := Some 0 |}; pend := []; term := complete; gens := [(meta_files, opstamp)]; returned := None |}.

(* every file generation g references is present under its name with complete data *)
Definition openable (c : cst) (img : ns) (g : N) : Prop :=
  forall f, In f (files_of c g) -> In f (ns_files img) /\ In f (term c).

(* ---- the commit discipline (boolean monitor) ---- *)
Definition pend_metas (l : list dirop) : list N :=
  flat_map (fun o => match o with SetMeta g => [g] | _ => [] end) l.
Definition possible (c : cst) : list N :=
  (match ns_meta (base c) with Some g => [g] | None => [] end) ++ pend_metas (pend c).
Definition pending_unlink (p : path) (l : list dirop) : bool :=
  existsb (fun o => match o with Unlink q => N.eqb p q | _ => false end) l.

Definition check (c : cst) (e : ev) : bool :=
  match e with
  | EMetaWrite fs _ =>
      (* D1: write new files, sync the directory, only then replace meta.json *)
      forallb (fun f => mem f (ns_files (base c)) && mem f (term c) && negb (pending_unlink f (pend c))) fs
  | EDelete p =>
      (* D3: never delete a file that a still-recoverable meta generation references *)
      forallb (fun g => negb (mem p (files_of c g))) (possible c)
  | ECommitRet o =>
      (* D2: commit returns only when the rename that published it is durable: the durable
         meta.json carries this commit's opstamp (generations written later by merges carry the
         same opstamp and may still be pending) *)
      match ns_meta (base c) with
      | Some g => N.eqb (opstamp_of c g) o
      | None => false
      end
  | _ => true
  end.

Fixpoint monitor_from (c : cst) (t : list ev) : bool :=
  match t with
  | [] => true
  | e :: t' => check c e && monitor_from (cstep c e) t'
  end.
Definition monitor (t : list ev) : bool := monitor_from init t.

(* first event index at which the discipline is violated (for the failing-input search) *)
Fixpoint first_bad_from (c : cst) (t : list ev) (i : N) : option N :=
  match t with
  | [] => None
  | e :: t' => if check c e then first_bad_from (cstep c e) t' (i + 1) else Some i
  end.
Definition first_bad (t : list ev) : option N := first_bad_from init t 0.

(* weaker discipline: D2 dropped (what the code satisfied before the sync-after-rename fix) *)
Definition check_weak (c : cst) (e : ev) : bool :=
  match e with ECommitRet _ => true | _ => check c e end.
Fixpoint monitor_weak_from (c : cst) (t : list ev) : bool :=
  match t with
  | [] => true
  | e :: t' => check_weak c e && monitor_weak_from (cstep c e) t'
  end.
