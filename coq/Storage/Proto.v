(* E1 storage engine, part 1b: the PROTOCOL that produces the storage traces.

   `Crash.v` says which traces are safe (the boolean discipline `monitor`, sound by
   `CrashProofs.monitor_sound`).  This file is a small-step, file-granularity model of the order in
   which tantivy's writer issues storage operations, transliterated from

     SegmentSerializer::for_segment / close, remap_and_write   (a worker or a merge writes a segment)
     advance_deletes                                            (index_writer.rs: one `.del` file)
     save_metas                                                 (segment_updater.rs: sync; atomic_write; sync)
     SegmentUpdater::schedule_commit                            (purge_deletes; commit; save_metas; GC; return)
     SegmentUpdater::start_merge / merge / end_merge
     ManagedDirectory::garbage_collect + SegmentUpdater::list_files
     IndexWriter::rollback, drop + new writer, Index::create

   so that "for EVERY operation history and EVERY schedule the trace is accepted" is a theorem
   (`ProtoProofs.proto_all_histories`) and not only an observation on the traces of the harness.

   Threads.  The segment updater runs its tasks one at a time on a single thread; a task is a short
   list of *phases* (commit = publish; garbage-collect; return), each phase reads the protocol state
   when it starts and emits its events in program order.  Indexing workers and merge threads are
   *jobs*: a job owns the files it is writing and a script of the ECreate / ETerminate events still
   to come.  A scheduler oracle (`sched`) says, before EVERY single event of the updater thread (and
   once more at the end of each phase), which jobs take one step each and which job threads exit:
   job events interleave anywhere, also in the middle of save_metas and between the deletions of the
   GC.  Jobs talk to the updater only through tasks (AddSegment = schedule_add_segment, EndMerge =
   end_merge), as in the code.

   Paths are numbers handed out by a counter: segment ids are fresh UUIDs and a `.del` file is named
   after (segment id, target opstamp), so no path is created twice.  (No proof below relies on it.) *)
From TV Require Import Base.Prelude Generated.Constants Storage.Crash.
Local Open Scope N_scope.

(* ---------- code-shape configuration ---------- *)
(* The theorem is proved for `cfg_code`; the other values are the seeded / historical variants the
   `_refuted` witnesses run. *)
Inductive presync :=
| PreAlways            (* save_metas: directory.sync_directory() before the atomic write *)
| PreIfNewSegments     (* "optimisation": only when the new meta has a segment id the old one lacks *)
| PreNever.
Record pcfg := {
  pre_sync : presync;
  post_sync : bool;                (* sync_directory() again after the atomic write (the F4 fix) *)
  gc_protects_committed : bool     (* list_files() covers the committed segments / active meta *)
}.
Definition cfg_code : pcfg :=
  {| pre_sync := if N.eqb SAVE_METAS_SYNCS_BEFORE_REPLACE 1 then PreAlways else PreNever;   (* pinned *)
     post_sync := N.eqb SAVE_METAS_SYNCS_AFTER_REPLACE 1;   (* pinned from segment_updater.rs *)
     gc_protects_committed := true |}.

(* ---------- protocol state ---------- *)
Record seg := {
  sid : N;
  sfiles : list path;       (* component files (.store .fast .fieldnorm .term .idx .pos) *)
  sdel : option path        (* current delete file, if any *)
}.
Definition seg_files (s : seg) : list path := sfiles s ++ match sdel s with Some d => [d] | None => [] end.
Definition segs_files (l : list seg) : list path := flat_map seg_files l.

Inductive jkind := JSeg | JMerge (src : list N).
Record job := {
  jid : N;                  (* id of the segment being produced *)
  jkind_of : jkind;
  jout : list path;         (* component files of the produced segment ([] = merge of 0 documents) *)
  jfiles : list path;       (* every file the job creates: jout, temp store, private .del of merge sources *)
  jhold : list path;        (* files of the source segment entries a merge keeps alive *)
  jtodo : list ev;          (* storage operations still to be issued, in program order *)
  jdead : bool              (* its segment updater was killed (rollback / writer dropped) *)
}.

Record pst := {
  committed : list seg;     (* SegmentManager.registers.committed *)
  uncommitted : list seg;   (* SegmentManager.registers.uncommitted *)
  jobs : list job;          (* segments under construction and running merges *)
  meta_segs : list seg;     (* active_index_meta = the meta.json written last *)
  meta_op : N;
  managed : list path;      (* ManagedDirectory.managed_paths *)
  next_path : N;
  next_id : N;
  next_op : N               (* the stamper *)
}.

Definition st0 : pst :=
  {| committed := []; uncommitted := []; jobs := []; meta_segs := []; meta_op := 0; managed := [];
     next_path := 0; next_id := 0; next_op := 0 |}.

Fixpoint npaths (n : nat) (p : N) : list path :=
  match n with O => [] | S k => p :: npaths k (N.succ p) end.

(* ---------- scripts of a segment being written ---------- *)
(* for_segment opens store, fast, fieldnorm, then terms/postings/positions; close() terminates
   fieldnorm, fast, terms/postings/positions, store. *)
Definition close_order (l : list path) : list path :=
  match l with
  | s :: f :: fn :: rest => fn :: f :: rest ++ [s]
  | _ => l
  end.
(* sorted index (remap_and_write): the temp store takes the place of the store at creation; the
   store is opened and the temp store closed just before close(). *)
Definition seg_script (files tmp : list path) : list ev :=
  match tmp with
  | [] => map ECreate files ++ map ETerminate (close_order files)
  | _ => map ECreate tmp ++ map ECreate (tl files) ++ map ECreate (firstn 1 files) ++ map ETerminate tmp
         ++ map ETerminate (close_order files)
  end.
(* advance_deletes: open_write(.del); write; terminate *)
Definition del_evs (ds : list path) : list ev := flat_map (fun d => [ECreate d; ETerminate d]) ds.

(* ---------- advance_deletes over a list of entries ---------- *)
(* `dels` (oracle: data dependent) = ids of the entries that get new deletes, hence a new file *)
Fixpoint adv_segs (dels : list N) (l : list seg) (np : N) : list seg :=
  match l with
  | [] => []
  | s :: r => if mem (sid s) dels
              then {| sid := sid s; sfiles := sfiles s; sdel := Some np |} :: adv_segs dels r (N.succ np)
              else s :: adv_segs dels r np
  end.
Fixpoint adv_new (dels : list N) (l : list seg) (np : N) : list path :=
  match l with
  | [] => []
  | s :: r => if mem (sid s) dels then np :: adv_new dels r (N.succ np) else adv_new dels r np
  end.

(* ---------- save_metas ---------- *)
(* committed_segment_metas() first drops the segments without any alive document (`empties`: oracle) *)
Definition nonempty (empties : list N) (l : list seg) : list seg :=
  filter (fun s => negb (mem (sid s) empties)) l.
Definition has_new (old new : list seg) : bool :=
  existsb (fun s => negb (mem (sid s) (map sid old))) new.

Definition save_metas (cfg : pcfg) (o : N) (empties : list N) (st : pst) : pst * list ev :=
  let cs := nonempty empties (committed st) in
  let pre := match pre_sync cfg with
             | PreAlways => true | PreIfNewSegments => has_new (meta_segs st) cs | PreNever => false end in
  ({| committed := cs; uncommitted := uncommitted st; jobs := jobs st; meta_segs := cs; meta_op := o;
      managed := managed st; next_path := next_path st; next_id := next_id st; next_op := next_op st |},
   (if pre then [ESyncDir] else []) ++ [EMetaWrite (segs_files cs) o] ++ (if post_sync cfg then [ESyncDir] else [])).

(* ---------- garbage_collect(list_files) ---------- *)
(* list_files = files of every SegmentMeta alive in the inventory: those of the active meta, of every
   entry of the segment manager, of every segment under construction or being merged (and of the
   source entries a merge holds). *)
Definition living (cfg : pcfg) (st : pst) : list path :=
  (if gc_protects_committed cfg then segs_files (meta_segs st) ++ segs_files (committed st) else [])
  ++ segs_files (uncommitted st) ++ flat_map (fun j => jfiles j ++ jhold j) (jobs st).

Definition gc (cfg : pcfg) (st : pst) : pst * list ev :=
  let lv := living cfg st in
  let dead := filter (fun p => negb (mem p lv)) (managed st) in
  ({| committed := committed st; uncommitted := uncommitted st; jobs := jobs st; meta_segs := meta_segs st;
      meta_op := meta_op st; managed := filter (fun p => mem p lv) (managed st);
      next_path := next_path st; next_id := next_id st; next_op := next_op st |},
   map EDelete dead ++ match dead with [] => [] | _ => [ESyncDir] end).

(* ---------- schedule_commit ---------- *)
(* purge_deletes (advance_deletes on every entry, uncommitted first) + SegmentManager::commit *)
Definition commit_new (dels : list N) (st : pst) : list path :=
  adv_new dels (uncommitted st ++ committed st) (next_path st).
Definition commit_pre (dels : list N) (st : pst) : pst :=
  {| committed := adv_segs dels (uncommitted st ++ committed st) (next_path st); uncommitted := [];
     jobs := jobs st; meta_segs := meta_segs st; meta_op := meta_op st;
     managed := managed st ++ commit_new dels st;
     next_path := next_path st + N.of_nat (length (commit_new dels st));
     next_id := next_id st; next_op := N.succ (next_op st) |}.     (* prepare_commit: stamper.stamp() *)
Definition phase := pst -> pst * list ev.
Definition pure (f : pst -> pst) : phase := fun st => (f st, []).
(* schedule_commit, up to and including save_metas *)
Definition commit_publish (cfg : pcfg) (dels empties : list N) : phase := fun st =>
  let r2 := save_metas cfg (next_op st) empties (commit_pre dels st) in
  (fst r2, del_evs (commit_new dels st) ++ snd r2).
(* Ok(opstamp): the opstamp is the one save_metas just stored in the active meta (no other updater
   task ran in between; `ProtoProofs.commit_returns_its_opstamp`) *)
Definition commit_return : phase := fun st => (st, [ECommitRet (meta_op st)]).

(* ---------- rollback / drop + new writer ---------- *)
(* kill() the updater; the new one is built from meta.json; the stamper restarts at its opstamp.
   Running jobs keep running (their SegmentMetas stay in the shared inventory) but their tasks are
   refused. *)
Definition kill (j : job) : job :=
  {| jid := jid j; jkind_of := jkind_of j; jout := jout j; jfiles := jfiles j; jhold := jhold j;
     jtodo := jtodo j; jdead := true |}.
Definition restart (st : pst) : pst :=
  {| committed := meta_segs st; uncommitted := []; jobs := map kill (jobs st); meta_segs := meta_segs st;
     meta_op := meta_op st; managed := managed st; next_path := next_path st; next_id := next_id st;
     next_op := meta_op st |}.

(* ---------- jobs ---------- *)
Fixpoint find_job (js : list job) (i : N) : option job :=
  match js with [] => None | j :: r => if N.eqb (jid j) i then Some j else find_job r i end.
Fixpoint remove_job (js : list job) (i : N) : list job :=
  match js with [] => [] | j :: r => if N.eqb (jid j) i then r else j :: remove_job r i end.
Definition set_jobs (st : pst) (js : list job) : pst :=
  {| committed := committed st; uncommitted := uncommitted st; jobs := js; meta_segs := meta_segs st;
     meta_op := meta_op st; managed := managed st; next_path := next_path st; next_id := next_id st;
     next_op := next_op st |}.

Definition start_segment (n : N) (sorted : bool) (st : pst) : pst :=
  let files := npaths (N.to_nat n) (next_path st) in
  let tmp := if sorted then [next_path st + n] else [] in
  let j := {| jid := next_id st; jkind_of := JSeg; jout := files; jfiles := files ++ tmp; jhold := [];
              jtodo := seg_script files tmp; jdead := false |} in
  {| committed := committed st; uncommitted := uncommitted st; jobs := jobs st ++ [j];
     meta_segs := meta_segs st; meta_op := meta_op st; managed := managed st;
     next_path := next_path st + n + 1; next_id := N.succ (next_id st); next_op := next_op st |}.

(* schedule_add_segment(entry): refused when the updater was killed *)
Definition add_segment (i : N) (st : pst) : pst :=
  match find_job (jobs st) i with
  | Some j =>
      match jkind_of j, jtodo j with
      | JSeg, [] =>
          if jdead j then set_jobs st (remove_job (jobs st) i)
          else {| committed := committed st;
                  uncommitted := uncommitted st ++ [{| sid := jid j; sfiles := jout j; sdel := None |}];
                  jobs := remove_job (jobs st) i; meta_segs := meta_segs st; meta_op := meta_op st;
                  managed := managed st; next_path := next_path st; next_id := next_id st; next_op := next_op st |}
      | _, _ => st
      end
  | None => st
  end.

Definition contains_all (l : list seg) (ids : list N) : bool := forallb (fun i => mem i (map sid l)) ids.
Definition pick (l : list seg) (ids : list N) : list seg := filter (fun s => mem (sid s) ids) l.
Definition drop_ids (l : list seg) (ids : list N) : list seg := filter (fun s => negb (mem (sid s) ids)) l.

(* SegmentManager::start_merge + merge(): advance_deletes on (copies of) the sources, then the merged
   segment.  `sdels` = sources that get a private .del file, `n` = number of component files of
   the result (0: no alive document, nothing is written). *)
Definition start_merge (ids sdels : list N) (n : N) (st : pst) : pst :=
  let reg := if contains_all (uncommitted st) ids then Some (uncommitted st)
             else if contains_all (committed st) ids then Some (committed st) else None in
  match ids, reg with
  | _ :: _, Some r =>
      let srcs := pick r ids in
      let nd := match n with 0 => O | _ => length (filter (fun i => mem i sdels) ids) end in
      let priv := npaths nd (next_path st) in
      let out := npaths (N.to_nat n) (next_path st + N.of_nat nd) in
      let j := {| jid := next_id st; jkind_of := JMerge ids; jout := out; jfiles := priv ++ out;
                  jhold := segs_files srcs; jtodo := del_evs priv ++ seg_script out []; jdead := false |} in
      {| committed := committed st; uncommitted := uncommitted st; jobs := jobs st ++ [j];
         meta_segs := meta_segs st; meta_op := meta_op st; managed := managed st;
         next_path := next_path st + N.of_nat nd + n; next_id := N.succ (next_id st); next_op := next_op st |}
  | _, _ => st
  end.

(* end_merge task: optional advance_deletes on the merged segment (`withdel`), SegmentManager::end_merge,
   save_metas with the UNCHANGED opstamp when the sources were committed, garbage collection.  When the
   sources are in neither register (rollback, commit of half of them) the task returns the error
   before save_metas and before the GC. *)
Definition em_wd (withdel : bool) (j : job) : bool :=
  withdel && negb (match jout j with [] => true | _ => false end).
Definition em_dels (withdel : bool) (j : job) (st : pst) : list path :=
  if em_wd withdel j then [next_path st] else [].
Definition em_entry (withdel : bool) (j : job) (st : pst) : list seg :=
  match jout j with
  | [] => []
  | _ => [{| sid := jid j; sfiles := jout j; sdel := if em_wd withdel j then Some (next_path st) else None |}]
  end.
(* the state after SegmentManager::end_merge; `ids` are the sources *)
Definition em_pre (withdel : bool) (j : job) (ids : list N) (st : pst) : pst :=
  let entry := em_entry withdel j st in
  let in_unc := contains_all (uncommitted st) ids in
  let in_com := negb in_unc && contains_all (committed st) ids in
  {| committed := if in_com then drop_ids (committed st) ids ++ entry else committed st;
     uncommitted := if in_unc then drop_ids (uncommitted st) ids ++ entry else uncommitted st;
     jobs := remove_job (jobs st) (jid j); meta_segs := meta_segs st; meta_op := meta_op st;
     managed := managed st ++ em_dels withdel j st;
     next_path := next_path st + N.of_nat (length (em_dels withdel j st));
     next_id := next_id st; next_op := next_op st |}.
Definition end_merge_live (cfg : pcfg) (j : job) (ids : list N) (withdel : bool) (empties : list N) : phase :=
  fun st =>
  let e1 := del_evs (em_dels withdel j st) in
  let st1 := em_pre withdel j ids st in
  if contains_all (uncommitted st) ids then (st1, e1)
  else if contains_all (committed st) ids then
    let r2 := save_metas cfg (meta_op st) empties st1 in (fst r2, e1 ++ snd r2)
  else (st1, e1).
Definition end_merge_publish (cfg : pcfg) (i : N) (withdel : bool) (empties : list N) : phase := fun st =>
  match find_job (jobs st) i with
  | Some j =>
      match jkind_of j, jtodo j with
      | JMerge ids, [] =>
          if jdead j then (set_jobs st (remove_job (jobs st) i), [])    (* schedule_task refuses *)
          else end_merge_live cfg j ids withdel empties st
      | _, _ => (st, [])
      end
  | None => (st, [])
  end.
(* does the end_merge task reach its garbage collection?  (not when it is refused or returns the error) *)
Definition em_reaches_gc (st : pst) (i : N) : bool :=
  match find_job (jobs st) i with
  | Some j =>
      match jkind_of j, jtodo j with
      | JMerge ids, [] => negb (jdead j) && (contains_all (uncommitted st) ids || contains_all (committed st) ids)
      | _, _ => false
      end
  | None => false
  end.

(* ---------- writer operations ---------- *)
Inductive wop :=
| Stamp (k : N)                                   (* k add/delete operations take opstamps *)
| StartSegment (n : N) (sorted : bool)            (* a worker opens the n component files of a new segment *)
| AddSegment (j : N)                              (* its flush is registered (schedule_add_segment) *)
| Commit (dels empties : list N)                  (* prepare_commit + commit; dels: entries with new deletes *)
| Rollback
| StartMerge (ids sdels : list N) (n : N)
| EndMerge (j : N) (withdel : bool) (empties : list N)
| DropJob (j : N)                                 (* a worker / merge thread ends without registering (error, killed) *)
| GC                                              (* IndexWriter::garbage_collect_files *)
| Reopen.                                         (* drop the writer, open a new one *)

Definition stamp (k : N) (st : pst) : pst :=
  {| committed := committed st; uncommitted := uncommitted st; jobs := jobs st;
     meta_segs := meta_segs st; meta_op := meta_op st; managed := managed st;
     next_path := next_path st; next_id := next_id st; next_op := next_op st + k |}.

(* the phases of the task an operation runs; their number is fixed when the task starts *)
Definition phases (cfg : pcfg) (st : pst) (op : wop) : list phase :=
  match op with
  | Stamp k => [pure (stamp k)]
  | StartSegment n sorted => [pure (start_segment n sorted)]
  | AddSegment i => [pure (add_segment i)]
  | Commit dels empties => [commit_publish cfg dels empties; gc cfg; commit_return]
  | Rollback => [pure restart]
  | StartMerge ids sdels n => [pure (start_merge ids sdels n)]
  | EndMerge i withdel empties =>
      if em_reaches_gc st i then [end_merge_publish cfg i withdel empties; gc cfg]
      else [end_merge_publish cfg i withdel empties]
  | DropJob i => [pure (fun st => set_jobs st (remove_job (jobs st) i))]
  | GC => [gc cfg]
  | Reopen => [pure restart]
  end.

(* ---------- background steps and the scheduler ---------- *)
Definition pop (j : job) : job :=
  {| jid := jid j; jkind_of := jkind_of j; jout := jout j; jfiles := jfiles j; jhold := jhold j;
     jtodo := tl (jtodo j); jdead := jdead j |}.
(* the first job with id i issues its next storage operation (nothing if there is none) *)
Fixpoint step_ev (js : list job) (i : N) : list ev :=
  match js with
  | [] => []
  | j :: r => if N.eqb (jid j) i then firstn 1 (jtodo j) else step_ev r i
  end.
Fixpoint step_js (js : list job) (i : N) : list job :=
  match js with
  | [] => []
  | j :: r => if N.eqb (jid j) i then pop j :: r else j :: step_js r i
  end.
(* open_write registers the path as managed *)
Definition created (evs : list ev) : list path :=
  flat_map (fun e => match e with ECreate p => [p] | _ => [] end) evs.
(* a background action: a job issues its next storage operation, or its thread ends without
   registering anything (orphan of a killed updater, error) and its SegmentMetas leave the inventory *)
Inductive bga := Step (i : N) | Exit (i : N).
Definition bg_ev (st : pst) (a : bga) : list ev :=
  match a with Step i => step_ev (jobs st) i | Exit _ => [] end.
Definition bg_step (st : pst) (a : bga) : pst :=
  match a with
  | Step i =>
      {| committed := committed st; uncommitted := uncommitted st; jobs := step_js (jobs st) i;
         meta_segs := meta_segs st; meta_op := meta_op st; managed := managed st ++ created (step_ev (jobs st) i);
         next_path := next_path st; next_id := next_id st; next_op := next_op st |}
  | Exit i => set_jobs st (remove_job (jobs st) i)
  end.
Fixpoint bg_st (st : pst) (l : list bga) : pst :=
  match l with [] => st | a :: r => bg_st (bg_step st a) r end.
Fixpoint bg_evs (st : pst) (l : list bga) : list ev :=
  match l with [] => [] | a :: r => bg_ev st a ++ bg_evs (bg_step st a) r end.

(* one slot per event of the updater thread, plus one at the end of each phase: the background
   actions that happen there *)
Definition sched := list (list bga).
Fixpoint weave_evs (st : pst) (evs : list ev) (sc : sched) : list ev :=
  match evs with
  | [] => bg_evs st (hd [] sc)
  | e :: r => bg_evs st (hd [] sc) ++ e :: weave_evs (bg_st st (hd [] sc)) r (tl sc)
  end.
Fixpoint weave_st (st : pst) (evs : list ev) (sc : sched) : pst :=
  match evs with
  | [] => bg_st st (hd [] sc)
  | e :: r => weave_st (bg_st st (hd [] sc)) r (tl sc)
  end.

(* a phase reads the state, emits its events interleaved with the background; the next phase reads
   the state the background left *)
Fixpoint run_phases (st : pst) (phs : list phase) (sc : sched) : list ev :=
  match phs with
  | [] => []
  | ph :: r =>
      let st1 := fst (ph st) in
      let evs := snd (ph st) in
      weave_evs st1 evs sc ++ run_phases (weave_st st1 evs sc) r (skipn (S (length evs)) sc)
  end.
Fixpoint run_phases_st (st : pst) (phs : list phase) (sc : sched) : pst :=
  match phs with
  | [] => st
  | ph :: r => run_phases_st (weave_st (fst (ph st)) (snd (ph st)) sc) r (skipn (S (length (snd (ph st)))) sc)
  end.
Fixpoint run_phases_sc (st : pst) (phs : list phase) (sc : sched) : sched :=
  match phs with
  | [] => sc
  | ph :: r => run_phases_sc (weave_st (fst (ph st)) (snd (ph st)) sc) r (skipn (S (length (snd (ph st)))) sc)
  end.

Fixpoint run_ops (cfg : pcfg) (st : pst) (ops : list wop) (sc : sched) : list ev :=
  match ops with
  | [] => []
  | op :: r =>
      let phs := phases cfg st op in
      run_phases st phs sc ++ run_ops cfg (run_phases_st st phs sc) r (run_phases_sc st phs sc)
  end.
Fixpoint run_ops_st (cfg : pcfg) (st : pst) (ops : list wop) (sc : sched) : pst :=
  match ops with
  | [] => st
  | op :: r =>
      let phs := phases cfg st op in
      run_ops_st cfg (run_phases_st st phs sc) r (run_phases_sc st phs sc)
  end.

(* Index::create: save_new_metas = save_metas(empty, opstamp 0) followed by one more sync_directory *)
Definition create_evs (cfg : pcfg) : list ev := snd (save_metas cfg 0 [] st0) ++ [ESyncDir].

Definition proto_trace_cfg (cfg : pcfg) (ops : list wop) (sc : sched) : list ev :=
  create_evs cfg ++ run_ops cfg st0 ops sc.
Definition proto_trace : list wop -> sched -> list ev := proto_trace_cfg cfg_code.
