From TV Require Import Base.Prelude Generated.Constants Storage.Flock.
Local Open Scope N_scope.

(* without unlink: one inode for ever; every handle and every granted lock is on it; at most one lock is granted *)
Definition FLInv (s : flst) : Prop :=
  match fl_name s with
  | None => fl_fd s = [] /\ fl_held s = []
  | Some i => (forall t j, In (t, j) (fl_fd s) -> j = i) /\ (fl_held s = [] \/ exists t, fl_held s = [(i, t)])
  end.

Lemma flinv0 : FLInv fl0.
Proof. cbn. auto. Qed.

Lemma assoc_In k v l : assoc k l = Some v -> In (k, v) l.
Proof.
  induction l as [|[a b] l IH]; cbn [assoc]; [discriminate|].
  destruct (N.eqb_spec a k); [intros E; injection E as <-; subst; now left|intros H; right; auto].
Qed.

Lemma drop_key_In k l x : In x (drop_key k l) -> In x l.
Proof. unfold drop_key. intros H. apply filter_In in H. apply H. Qed.

Lemma flstep_inv s e : FLInv s -> FLInv (flstep_gen false s e).
Proof.
  unfold FLInv. intros H. destruct e as [t|t|t]; cbn [flstep_gen].
  - destruct (assoc t (fl_fd s)); [exact H|]. destruct (fl_name s) as [i|] eqn:En; cbn [fl_name fl_fd fl_held].
    + destruct H as [A B]. split; [|exact B]. intros t' j [E|Hin]; [injection E as _ <-; reflexivity|eapply A; eassumption].
    + destruct H as [A B]. rewrite A, B. split; [|now left]. intros t' j [E|[]]. injection E as _ <-. reflexivity.
  - destruct (assoc t (fl_fd s)) as [i|] eqn:Ef; [|exact H]. destruct (assoc i (fl_held s)) eqn:Eh; [exact H|].
    cbn [fl_name fl_fd fl_held]. destruct (fl_name s) as [i0|] eqn:En.
    + destruct H as [A B]. split; [exact A|]. pose proof (A t i (assoc_In _ _ _ Ef)) as ->.
      destruct B as [B|[t0 B]]; rewrite B in *; [right; exists t; reflexivity|].
      cbn [assoc] in Eh. rewrite N.eqb_refl in Eh. discriminate.
    + destruct H as [A _]. rewrite A in Ef. discriminate.
  - destruct (assoc t (fl_fd s)) as [i|] eqn:Ef; [|exact H]. cbn [fl_name fl_fd fl_held].
    destruct (fl_name s) as [i0|] eqn:En.
    + destruct H as [A B]. split; [intros t' j Hin; eapply A, drop_key_In, Hin|].
      destruct B as [B|[t0 B]]; rewrite B; cbn [drop_val filter snd]; [now left|].
      destruct (N.eqb t0 t); cbn [negb]; [now left|right; exists t0; reflexivity].
    + destruct H as [A _]. rewrite A in Ef. discriminate.
Qed.

Lemma flrun_inv evs : forall s, FLInv s -> FLInv (fold_left (flstep_gen false) evs s).
Proof. induction evs as [|e evs IH]; intros s H; [exact H|]. cbn [fold_left]. apply IH, flstep_inv, H. Qed.

(* For every interleaving of opens, lock attempts and releases by any number of threads: at most one thread holds the lock. *)
Theorem flock_excludes_gen evs : (length (holders (flrun_gen false evs)) <= 1)%nat.
Proof.
  pose proof (flrun_inv evs fl0 flinv0) as H. unfold FLInv, flrun_gen, holders in *.
  destruct (fl_name (fold_left (flstep_gen false) evs fl0)).
  - destruct H as [_ [B|[t B]]]; rewrite B; cbn; lia.
  - destruct H as [_ B]. rewrite B. cbn. lia.
Qed.

Lemma release_does_not_unlink : release_unlinks = false.
Proof. reflexivity. Qed.

Theorem flock_excludes evs : (length (holders (flrun evs)) <= 1)%nat.
Proof. unfold flrun. rewrite release_does_not_unlink. apply flock_excludes_gen. Qed.

(* the unlinking variant: A holds, B is already waiting on the same inode, A releases (and unlinks), B is granted the lock
   on the orphaned inode, C creates a fresh file and locks it: two holders *)
Lemma unlinking_release_breaks_exclusion :
  holders (flrun_gen true [FOpen 1; FLock 1; FOpen 2; FLock 2; FClose 1; FLock 2; FOpen 3; FLock 3]) = [3; 2].
Proof. vm_compute. reflexivity. Qed.
Example same_schedule_without_unlink :
  holders (flrun_gen false [FOpen 1; FLock 1; FOpen 2; FLock 2; FClose 1; FLock 2; FOpen 3; FLock 3]) = [2].
Proof. vm_compute. reflexivity. Qed.
