(* E1 storage engine, part 8: the default lock-file protocol (Directory::acquire_lock -> try_acquire_lock,
   used by RamDirectory and every Directory that does not override it; MmapDirectory uses flock instead).

   Locks.v assumes the directory lock is "exclusive, non-blocking, released when the guard drops, and free
   again after a failed acquisition".  Here is the mechanism behind that: create-new of the lock file, a flush,
   a guard whose drop deletes the file.  The ORDER of those three in try_acquire_lock is regenerated from the
   source by tools/pin.py (LOCK_ACQUIRE_ORDER: 1 = open_write, 2 = the guard is built, 3 = flush):
     * guard built BEFORE open_write  : a failed attempt on a held lock drops the guard and deletes the HOLDER's file;
     * guard built AFTER the flush    : a failing flush leaves the freshly created file behind for ever;
     * guard built in between         : correct. *)
From TV Require Import Base.Prelude Generated.Constants.
Local Open Scope N_scope.

Inductive lfop :=
| Acq (g : N) (create_fails flush_fails : bool)   (* an acquisition attempt; the two booleans are injected I/O faults *)
| Rel (g : N).                                    (* the guard g is dropped *)

Inductive lfres := LOk | LBusy | LIoErr | LNoGuard.
Definition lfres_code (r : lfres) : N := match r with LOk => 0 | LBusy => 1 | LIoErr => 3 | LNoGuard => 4 end.

Record lfst := { lf_exists : bool; lf_guards : list N }.
Definition lf0 : lfst := {| lf_exists := false; lf_guards := [] |}.

Fixpoint pos_of (c : N) (l : list N) (i : nat) : option nat :=
  match l with [] => None | x :: t => if N.eqb x c then Some i else pos_of c t (S i) end.
Definition before (a b : N) (order : list N) : bool :=
  match pos_of a order O, pos_of b order O with Some i, Some j => Nat.ltb i j | _, _ => false end.

(* what the order means *)
Definition guard_after_create (order : list N) : bool := before 1 2 order.
Definition guard_before_flush (order : list N) : bool := before 2 3 order.

Definition mem_g (g : N) (l : list N) : bool := existsb (N.eqb g) l.
Definition remove_g (g : N) (l : list N) : list N := filter (fun x => negb (N.eqb g x)) l.

Definition lfstep_gen (gac gbf : bool) (s : lfst) (o : lfop) : lfst * lfres :=
  match o with
  | Acq g cf ff =>
      if lf_exists s then
        (* open_write fails with FileAlreadyExists; a guard built upfront is dropped and deletes the file *)
        (if gac then s else {| lf_exists := false; lf_guards := lf_guards s |}, LBusy)
      else if cf then (s, LIoErr)
      else if ff then
        (* the file was created; only a guard that already exists removes it again *)
        (if gbf || negb gac then s else {| lf_exists := true; lf_guards := lf_guards s |}, LIoErr)
      else ({| lf_exists := true; lf_guards := g :: lf_guards s |}, LOk)
  | Rel g =>
      if mem_g g (lf_guards s) then ({| lf_exists := false; lf_guards := remove_g g (lf_guards s) |}, LOk)
      else (s, LNoGuard)
  end.

Definition lfstep := lfstep_gen (guard_after_create LOCK_ACQUIRE_ORDER) (guard_before_flush LOCK_ACQUIRE_ORDER).

Fixpoint lfrun_gen (gac gbf : bool) (s : lfst) (ops : list lfop) : lfst * list lfres :=
  match ops with
  | [] => (s, [])
  | o :: r => let '(s1, x) := lfstep_gen gac gbf s o in let '(s2, xs) := lfrun_gen gac gbf s1 r in (s2, x :: xs)
  end.
Definition lfrun := lfrun_gen (guard_after_create LOCK_ACQUIRE_ORDER) (guard_before_flush LOCK_ACQUIRE_ORDER).

(* the lock file exists exactly when one guard is alive; never two guards *)
Definition lfinv (s : lfst) : Prop :=
  (lf_exists s = false /\ lf_guards s = []) \/ (exists g, lf_exists s = true /\ lf_guards s = [g]).

(* the specification: who holds the lock *)
Definition lfspec_step (h : option N) (o : lfop) : option N * lfres :=
  match o with
  | Acq g cf ff => match h with
                   | Some _ => (h, LBusy)
                   | None => if cf || ff then (None, LIoErr) else (Some g, LOk)
                   end
  | Rel g => match h with
             | Some x => if N.eqb g x then (None, LOk) else (h, LNoGuard)
             | None => (None, LNoGuard)
             end
  end.
Fixpoint lfspec_run (h : option N) (ops : list lfop) : list lfres :=
  match ops with [] => [] | o :: r => let '(h', x) := lfspec_step h o in x :: lfspec_run h' r end.
Definition lfcodes (l : list lfres) : list N := map lfres_code l.
