(* E1 storage engine, part 6: stream files are write-once and their data is durable from terminate on.

   Crash.v treats `ETerminate p` as "p's data is complete and fsynced" and never takes that back.
   That is an assumption about how tantivy drives a WritePtr: create, append*, terminate (the only
   fsync the data ever gets: SafeFileWriter::terminate_ref = flush + sync_data; FooterProxy appends
   the footer BEFORE terminating the inner writer), and nothing afterwards.  This file makes the
   assumption a checked discipline over the very same VerifDirectory log: events are the creations,
   appends (with the number of bytes accepted) and terminations of stream files. *)
From TV Require Import Base.Prelude.
Local Open Scope N_scope.

Inductive wev :=
| WOpen (p : N)                (* open_write created p *)
| WAppend (p : N) (n : N)      (* n bytes accepted *)
| WTerm (p : N).               (* terminate returned Ok: flush + fsync of the data *)

Record wfile := { w_len : N; w_synced : N; w_term : bool }.
Definition wst := list (N * wfile).

Fixpoint wget (s : wst) (p : N) : option wfile :=
  match s with [] => None | (q, f) :: t => if N.eqb q p then Some f else wget t p end.
Fixpoint wset (s : wst) (p : N) (f : wfile) : wst :=
  match s with
  | [] => [(p, f)]
  | (q, g) :: t => if N.eqb q p then (q, f) :: t else (q, g) :: wset t p f
  end.

Definition wstep (s : wst) (e : wev) : wst :=
  match e with
  | WOpen p => wset s p {| w_len := 0; w_synced := 0; w_term := false |}
  | WAppend p n =>
      match wget s p with
      | Some f => wset s p {| w_len := w_len f + n; w_synced := w_synced f; w_term := w_term f |}
      | None => s
      end
  | WTerm p =>
      match wget s p with
      | Some f => wset s p {| w_len := w_len f; w_synced := w_len f; w_term := true |}
      | None => s
      end
  end.

(* the discipline: names are never reused, appends and terminate only on an open, unterminated file *)
Definition wcheck (s : wst) (e : wev) : bool :=
  match e with
  | WOpen p => match wget s p with None => true | Some _ => false end
  | WAppend p _ | WTerm p => match wget s p with Some f => negb (w_term f) | None => false end
  end.

Fixpoint wmonitor_from (s : wst) (t : list wev) : bool :=
  match t with [] => true | e :: t' => wcheck s e && wmonitor_from (wstep s e) t' end.
Definition wmonitor (t : list wev) : bool := wmonitor_from [] t.
Definition wrun (t : list wev) : wst := fold_left wstep t [].

(* what Crash.v relies on, as a boolean on a state: every terminated file is durable to its last byte *)
Definition terminated_durable (s : wst) : bool :=
  forallb (fun pf => implb (w_term (snd pf)) (N.eqb (w_synced (snd pf)) (w_len (snd pf)))) s.

(* the first event that breaks the discipline (for the failing-input search) *)
Fixpoint wfirst_bad_from (s : wst) (t : list wev) (i : N) : option N :=
  match t with
  | [] => None
  | e :: t' => if wcheck s e then wfirst_bad_from (wstep s e) t' (i + 1) else Some i
  end.
Definition wfirst_bad (t : list wev) : option N := wfirst_bad_from [] t 0.
