(* E1 storage engine, part 14: the "temporary doc store is alive" flag of a SegmentMeta (C10: no orphan at quiescence).

   An indexing worker of a sorted index streams its documents to <segment>.store.temp; SegmentMeta::list_files protects
   that file from garbage collection while the flag include_temp_doc_store is set.  The worker clears the flag
   (untrack_temp_docstore) once the segment is final; metas derived later -- with_delete_meta at every commit that applies a
   delete -- must CARRY THE FLAG OVER, not re-create it as true (F102).  `WITH_DELETE_META_KEEPS_TEMP_FLAG` is regenerated
   from index_meta.rs. *)
From TV Require Import Base.Prelude Generated.Constants.
Local Open Scope N_scope.

Inductive tsop := TUntrack | TWithDelete.       (* untrack_temp_docstore ; with_delete_meta *)

Definition ts_step_gen (keeps : bool) (flag : bool) (o : tsop) : bool :=
  match o with
  | TUntrack => false
  | TWithDelete => if keeps then flag else true
  end.
Definition keeps_flag : bool := N.eqb WITH_DELETE_META_KEEPS_TEMP_FLAG 1.
Definition ts_run_gen (keeps : bool) (ops : list tsop) : bool := fold_left (ts_step_gen keeps) ops true.   (* a new segment meta starts with the flag set *)
Definition ts_run := ts_run_gen keeps_flag.

(* the temp store is listed as a living file iff the flag is set *)
Definition lists_temp_store (flag : bool) : bool := flag.

Lemma ts_after_untrack_gen ops : forall flag, flag = false -> fold_left (ts_step_gen true) ops flag = false.
Proof. induction ops as [|o ops IH]; intros flag H; [exact H|]. cbn [fold_left]. apply IH. destruct o; cbn; [reflexivity|exact H]. Qed.

(* once the worker has untracked it, no sequence of later delete metas (any number of commits) protects the temp store again *)
Theorem temp_store_stays_untracked_gen ops1 ops2 :
  lists_temp_store (ts_run_gen true (ops1 ++ TUntrack :: ops2)) = false.
Proof.
  unfold lists_temp_store, ts_run_gen. rewrite fold_left_app. cbn [fold_left ts_step_gen]. apply ts_after_untrack_gen. reflexivity.
Qed.

Lemma keeps_flag_pinned : keeps_flag = true.
Proof. reflexivity. Qed.

Theorem temp_store_stays_untracked ops1 ops2 : lists_temp_store (ts_run (ops1 ++ TUntrack :: ops2)) = false.
Proof. unfold ts_run. rewrite keeps_flag_pinned. apply temp_store_stays_untracked_gen. Qed.

(* F102: re-creating the flag as true in with_delete_meta protects the temp store again after the first delete *)
Lemma recreated_flag_protects_again : lists_temp_store (ts_run_gen false [TUntrack; TWithDelete]) = true.
Proof. reflexivity. Qed.
