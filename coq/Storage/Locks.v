(* E1 storage engine, part 2: the writer lock lifecycle (property C18).

   Transliterates Index::writer_with_options (acquire INDEX_WRITER_LOCK, then IndexWriter::new
   which may fail on invalid options or on I/O and then drops the guard), IndexWriter::rollback
   (takes the guard out of self and hands it to a rebuilt writer; if the rebuild fails the guard
   is dropped while the old writer object survives -- finding F7), Drop / wait_merging_threads
   (drop the guard), and worker failure (the object stays alive, the guard with it).
   The directory lock itself is "exclusive, non-blocking, released when the guard drops"
   (RamDirectory: lock file created by open_write / deleted on drop; MmapDirectory: flock). *)
From TV Require Import Base.Prelude Generated.Constants.
Local Open Scope N_scope.

Definition wid := N.

Inductive lop :=
| Create (w : wid) (valid_opts : bool) (build_ok : bool)   (* w: fresh id used if creation succeeds *)
| Rollback (w : wid) (build_ok : bool)
| DropW (w : wid)                                          (* drop or wait_merging_threads *)
| WorkerFailure (w : wid).

Inductive lres := ROk | RLockBusy | RInvalid | RIoErr | RNoSuchWriter | RPanicNoLock.

Record lstate := {
  held : bool;                      (* the directory lock is currently held by some guard *)
  writers : list (wid * bool)       (* live writer objects, with "owns the guard" *)
}.
Definition linit : lstate := {| held := false; writers := [] |}.

Fixpoint find (w : wid) (l : list (wid * bool)) : option bool :=
  match l with
  | [] => None
  | (x, g) :: r => if N.eqb x w then Some g else find w r
  end.
Fixpoint remove_w (w : wid) (l : list (wid * bool)) : list (wid * bool) :=
  match l with
  | [] => []
  | (x, g) :: r => if N.eqb x w then r else (x, g) :: remove_w w r
  end.
Fixpoint set_guard (w : wid) (g' : bool) (l : list (wid * bool)) : list (wid * bool) :=
  match l with
  | [] => []
  | (x, g) :: r => if N.eqb x w then (x, g') :: r else (x, g) :: set_guard w g' r
  end.

(* `safe`: rollback builds the replacement writer before taking the guard out of self (the order
   of the two statements in IndexWriter::rollback, pinned from the source). *)
Definition lstep_gen (safe : bool) (s : lstate) (o : lop) : lstate * lres :=
  match o with
  | Create w valid build_ok =>
      if held s then (s, RLockBusy)                                   (* acquire fails, nothing changes *)
      else if negb valid then (s, RInvalid)                            (* guard acquired then dropped *)
      else if negb build_ok then (s, RIoErr)                           (* guard acquired then dropped *)
      else ({| held := true; writers := (w, true) :: writers s |}, ROk)
  | Rollback w build_ok =>
      match find w (writers s) with
      | None => (s, RNoSuchWriter)
      | Some false => (s, RPanicNoLock)                                (* expect("... does not have any lock") *)
      | Some true =>
          if build_ok then (s, ROk)                                    (* guard moves into the rebuilt writer *)
          else if safe then (s, RIoErr)                                (* rebuild failed: self keeps the guard *)
          else ({| held := false; writers := set_guard w false (writers s) |}, RIoErr)   (* F7: guard dropped *)
      end
  | DropW w =>
      match find w (writers s) with
      | None => (s, RNoSuchWriter)
      | Some g => ({| held := if g then false else held s; writers := remove_w w (writers s) |}, ROk)
      end
  | WorkerFailure w => (s, ROk)
  end.

Definition rollback_safe : bool := N.eqb ROLLBACK_BUILDS_BEFORE_TAKING_LOCK 1.
Definition lstep := lstep_gen rollback_safe.

Fixpoint lrun_gen (safe : bool) (s : lstate) (ops : list lop) : lstate * list lres :=
  match ops with
  | [] => (s, [])
  | o :: r => let '(s1, x) := lstep_gen safe s o in let '(s2, xs) := lrun_gen safe s1 r in (s2, x :: xs)
  end.
Definition lrun := lrun_gen rollback_safe.

(* the known class F7: some rollback whose writer rebuild fails *)
Definition f7_op (o : lop) : bool := match o with Rollback _ false => true | _ => false end.
Definition f7_class (ops : list lop) : bool := existsb f7_op ops.

(* the invariant: at most one live writer, every live writer owns the guard, and the lock is held
   exactly when a writer is alive *)
Definition linv (s : lstate) : Prop :=
  (writers s = [] /\ held s = false) \/ (exists w, writers s = [(w, true)] /\ held s = true).

Definition res_code (r : lres) : N :=
  match r with ROk => 0 | RLockBusy => 1 | RInvalid => 2 | RIoErr => 3 | RNoSuchWriter => 4 | RPanicNoLock => 5 end.

(* ---- the specification: the simplest possible state, "who is the writer" ---- *)
Definition spec_step (alive : option wid) (o : lop) : option wid * lres :=
  match o with
  | Create w valid build_ok =>
      match alive with
      | Some _ => (alive, RLockBusy)
      | None => if negb valid then (None, RInvalid) else if negb build_ok then (None, RIoErr) else (Some w, ROk)
      end
  | Rollback w build_ok =>
      match alive with
      | Some x => if N.eqb x w then (alive, if build_ok then ROk else RIoErr) else (alive, RNoSuchWriter)
      | None => (alive, RNoSuchWriter)
      end
  | DropW w =>
      match alive with
      | Some x => if N.eqb x w then (None, ROk) else (alive, RNoSuchWriter)
      | None => (alive, RNoSuchWriter)
      end
  | WorkerFailure w => (alive, ROk)
  end.
Fixpoint spec_run (alive : option wid) (ops : list lop) : list lres :=
  match ops with
  | [] => []
  | o :: r => let '(a, x) := spec_step alive o in x :: spec_run a r
  end.

Definition codes (l : list lres) : list N := map res_code l.
