(* E1 storage engine, part 10: classes of known failures after an injected I/O error (C11). *)
From TV Require Import Base.Prelude Storage.Crash Storage.WriteOnce.
Local Open Scope N_scope.

(* F111: a commit attempt that fails after it created delete files (<segment>.<opstamp>.del) leaves them behind; opstamps
   are re-used after a rollback / by a new writer, so the retried commit asks for the same names and create-new refuses.
   The class: every name the late failure collided with is a delete file created by the failed attempt. *)
Definition f111_class (leftovers collided : list path) : bool :=
  match collided with [] => false | _ => forallb (fun p => mem p leftovers) collided end.

(* the mechanism, on the write-once model: the second create of a name that was never removed is refused *)
Lemma f111_mechanism p n : wfirst_bad [WOpen p; WAppend p n; WOpen p] = Some 2.
Proof. unfold wfirst_bad. cbn [wfirst_bad_from wcheck wstep wget wset]. rewrite !N.eqb_refl. cbn [wget]. rewrite N.eqb_refl. reflexivity. Qed.
