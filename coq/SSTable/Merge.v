(* C15 -- k-way merge of dictionaries.
   Transliterates merge_sstable (/repo/sstable/src/merge/heap_merge.rs) and the TermMerger of
   /repo/src/termdict/*/merger.rs and /repo/columnar/src/columnar/merge/term_merger.rs:
   repeatedly take the smallest current key, gather every input positioned on that key, emit the
   key once with the combined value, advance those inputs.  std's BinaryHeap is not modelled: the
   heap is represented by what it computes, the minimum over the current heads. *)
From TV Require Import Base.Prelude SSTable.Spec.
Local Open Scope N_scope.

Section Merge.
  Context {V : Type}.
  Variable vadd : V -> V -> V.          (* SingleValueMerger::add *)

  (* the smallest key at the head of a non-exhausted input *)
  Fixpoint min_head (rs : list (smap V)) : option bytes :=
    match rs with
    | [] => None
    | r :: t =>
        match r, min_head t with
        | [], m => m
        | (k, _) :: _, None => Some k
        | (k, _) :: _, Some m => Some (if blt m k then m else k)
        end
    end.

  Definition on_key (m : bytes) (r : smap V) : bool := match r with (k, _) :: _ => beq k m | [] => false end.
  Definition advance_on (m : bytes) (r : smap V) : smap V := if on_key m r then tl r else r.
  (* values of the inputs positioned on m, in input order *)
  Definition values_on (m : bytes) (rs : list (smap V)) : list V :=
    flat_map (fun r => match r with (k, v) :: _ => if beq k m then [v] else [] | [] => [] end) rs.
  Definition combine_values (vs : list V) : option V :=
    match vs with [] => None | v :: t => Some (fold_left vadd t v) end.

  Fixpoint merge_loop (fuel : nat) (rs : list (smap V)) : smap V :=
    match fuel with
    | O => []
    | S f =>
        match min_head rs with
        | None => []
        | Some m =>
            match combine_values (values_on m rs) with
            | None => []
            | Some v => (m, v) :: merge_loop f (map (advance_on m) rs)
            end
        end
    end.

  Definition total_len (rs : list (smap V)) : nat := fold_right (fun r n => (length r + n)%nat) O rs.
  Definition heap_merge (inputs : list (smap V)) : smap V := merge_loop (total_len inputs) inputs.

  (* TermMerger::matching_segments: for every merged ordinal, which inputs hold the key and at which
     of their own ordinals; accumulated as  input -> (old ordinal -> new ordinal) *)
  Fixpoint ord_maps_loop (fuel : nat) (new_ord : N) (rs : list (smap V)) (acc : list (list N)) : list (list N) :=
    match fuel with
    | O => acc
    | S f =>
        match min_head rs with
        | None => acc
        | Some m =>
            ord_maps_loop f (new_ord + 1) (map (advance_on m) rs)
              (map (fun ra => if on_key m (fst ra) then snd ra ++ [new_ord] else snd ra) (combine rs acc))
        end
    end.
  Definition ord_maps (inputs : list (smap V)) : list (list N) :=
    ord_maps_loop (total_len inputs) 0 inputs (map (fun _ => []) inputs).
End Merge.

Definition merge_ord_maps (inputs : list (list bytes)) : list (list N) :=
  ord_maps (map (fun ks => map (fun k => (k, tt)) ks) inputs).

(* ------------------------------------------------------------------ the merge is the sorted union *)
Section MergeProofs.
  Context {V : Type}.
  Variable vadd : V -> V -> V.

  Definition sorted_input (r : smap V) : Prop := ssorted (keys r) = true.
  Definition allkeys (rs : list (smap V)) : list bytes := flat_map keys rs.
  Definition head_ge (m : bytes) (r : smap V) : Prop := match r with (k, _) :: _ => ble m k = true | [] => True end.

  Lemma min_head_spec (rs : list (smap V)) :
    match min_head rs with
    | None => Forall (fun r => r = []) rs
    | Some m => (exists r, In r rs /\ on_key m r = true) /\ Forall (head_ge m) rs
    end.
  Proof.
    induction rs as [|r t IH]; cbn [min_head]; [constructor|].
    destruct r as [|[k v] r'].
    - destruct (min_head t) as [m|].
      + destruct IH as [(r & Hin & Hon) Hall]. split; [exists r; split; [now right|exact Hon]|constructor; [exact I|exact Hall]].
      + constructor; [reflexivity|exact IH].
    - destruct (min_head t) as [m|].
      + destruct IH as [(r & Hin & Hon) Hall]. destruct (blt m k) eqn:E.
        * split; [exists r; split; [now right|exact Hon]|]. constructor; [cbn; now apply blt_ble|exact Hall].
        * assert (Hkm : ble k m = true) by (rewrite ble_nblt, E; reflexivity).
          split; [exists ((k, v) :: r'); split; [now left|cbn; apply beq_eq; reflexivity]|].
          constructor; [cbn; apply ble_refl|]. eapply Forall_impl; [|exact Hall].
          intros [|[k2 v2] r2]; cbn; [auto|]. intros H. now apply ble_trans with m.
      + split; [exists ((k, v) :: r'); split; [now left|cbn; apply beq_eq; reflexivity]|].
        constructor; [cbn; apply ble_refl|]. eapply Forall_impl; [|exact IH]. intros r ->. exact I.
  Qed.

  Lemma advance_spec m (r : smap V) : sorted_input r -> head_ge m r ->
    sorted_input (advance_on m r) /\ Forall (fun k => blt m k = true) (keys (advance_on m r)) /\
    (forall k, In k (keys r) <-> (k = m /\ on_key m r = true) \/ In k (keys (advance_on m r))) /\
    (length (advance_on m r) <= length r)%nat /\ (on_key m r = true -> length (advance_on m r) < length r)%nat.
  Proof.
    unfold sorted_input, advance_on. destruct r as [|[k v] r']; cbn [on_key head_ge keys map fst tl length].
    - intros _ _. split; [reflexivity|]. split; [constructor|]. split; [|split; [lia|discriminate]].
      intros k. cbn [In]. split; [intros []|intros [[_ H]|[]]; discriminate].
    - intros Hs Hge. destruct (beq k m) eqn:E.
      + apply beq_eq in E. subst k. cbn [tl]. split; [now apply ssorted_cons in Hs|]. split; [now apply ssorted_all_gt|].
        split; [|split; [lia|intros _; lia]]. intros k. cbn [In]. split; [intros [<-|H]; [left; auto|right; exact H]|intros [[-> _]|H]; auto].
      + assert (Hlt : blt m k = true).
        { unfold beq in E. unfold ble in Hge. unfold blt. rewrite bcmp_opp in E. destruct (bcmp m k); try discriminate; reflexivity. }
        split; [exact Hs|]. split.
        * constructor; [exact Hlt|]. pose proof (ssorted_all_gt _ _ Hs) as H. eapply Forall_impl; [|exact H]. intros x Hx. now apply blt_trans with k.
        * split; [|split; [cbn [length]; lia|discriminate]]. intros x. cbn [map fst]. split; [intros H; right; exact H|intros [[_ H]|H]; [discriminate|exact H]].
  Qed.

  Lemma values_on_nonempty m (rs : list (smap V)) : (exists r, In r rs /\ on_key m r = true) -> values_on m rs <> [].
  Proof.
    intros (r & Hin & Hon). unfold values_on. intros E.
    assert (H : In r rs -> forall v, In v (match r with (k, v) :: _ => if beq k m then [v] else [] | [] => [] end) -> In v (flat_map (fun r => match r with (k, v) :: _ => if beq k m then [v] else [] | [] => [] end) rs)).
    { intros Hr v Hv. apply in_flat_map. exists r. auto. }
    destruct r as [|[k v] r']; cbn [on_key] in Hon; [discriminate|]. rewrite Hon in H. specialize (H Hin v (or_introl eq_refl)). rewrite E in H. destruct H.
  Qed.

  Lemma merge_loop_spec fuel : forall rs, (total_len rs <= fuel)%nat -> Forall sorted_input rs ->
    ssorted (keys (merge_loop vadd fuel rs)) = true /\
    (forall k, In k (keys (merge_loop vadd fuel rs)) <-> In k (allkeys rs)).
  Proof.
    induction fuel as [|f IH]; intros rs Hf Hs.
    - cbn [merge_loop keys map]. split; [reflexivity|]. intros k. split; [intros []|].
      unfold allkeys. rewrite in_flat_map. intros (r & Hin & Hk). exfalso.
      assert (length r = 0)%nat.
      { clear - Hin Hf. induction rs as [|a rs IH]; [destruct Hin|]. cbn [total_len fold_right] in Hf. destruct Hin as [->|H]; [lia|]. apply IH; [unfold total_len; lia|exact H]. }
      destruct r; [destruct Hk|discriminate].
    - cbn [merge_loop]. pose proof (min_head_spec rs) as Hm. destruct (min_head rs) as [m|].
      + destruct Hm as [Hex Hge].
        destruct (combine_values vadd (values_on m rs)) as [v|] eqn:Ec.
        2:{ exfalso. apply (values_on_nonempty m rs Hex). unfold combine_values in Ec. destruct (values_on m rs); [reflexivity|discriminate]. }
        set (rs' := map (advance_on m) rs).
        assert (Hadv : forall r, In r rs -> sorted_input r /\ head_ge m r).
        { intros r Hin. rewrite Forall_forall in Hs, Hge. auto. }
        assert (Hs' : Forall sorted_input rs').
        { apply Forall_forall. intros r' Hin. apply in_map_iff in Hin. destruct Hin as (r & <- & Hin). destruct (Hadv r Hin) as [A B]. apply (advance_spec m r A B). }
        assert (Hgt : forall k, In k (allkeys rs') -> blt m k = true).
        { intros k Hk. unfold allkeys in Hk. apply in_flat_map in Hk. destruct Hk as (r' & Hin & Hk). apply in_map_iff in Hin. destruct Hin as (r & <- & Hin).
          destruct (Hadv r Hin) as [A B]. destruct (advance_spec m r A B) as (_ & Hall & _). rewrite Forall_forall in Hall. auto. }
        assert (Hmem : forall k, In k (allkeys rs) <-> k = m \/ In k (allkeys rs')).
        { intros k. unfold allkeys. rewrite !in_flat_map. split.
          - intros (r & Hin & Hk). destruct (Hadv r Hin) as [A B]. destruct (advance_spec m r A B) as (_ & _ & Hiff & _).
            apply Hiff in Hk. destruct Hk as [[-> _]|Hk]; [now left|]. right. exists (advance_on m r). split; [now apply in_map|exact Hk].
          - intros [->|(r' & Hin & Hk)].
            + destruct Hex as (r & Hin & Hon). exists r. split; [exact Hin|]. destruct (Hadv r Hin) as [A B]. destruct (advance_spec m r A B) as (_ & _ & Hiff & _). apply Hiff. left. auto.
            + apply in_map_iff in Hin. destruct Hin as (r & <- & Hin). exists r. split; [exact Hin|]. destruct (Hadv r Hin) as [A B]. destruct (advance_spec m r A B) as (_ & _ & Hiff & _). apply Hiff. now right. }
        assert (Hlen : (total_len rs' < total_len rs)%nat).
        { destruct Hex as (r0 & Hin0 & Hon0). unfold rs'. clear - vadd Hadv Hin0 Hon0. induction rs as [|a rs IH]; [destruct Hin0|].
          cbn [map total_len fold_right]. fold (total_len rs) (total_len (map (advance_on m) rs)).
          destruct (Hadv a (or_introl eq_refl)) as [A B]. destruct (advance_spec m a A B) as (_ & _ & _ & Hle & Hlt).
          assert (Hle' : (total_len (map (advance_on m) rs) <= total_len rs)%nat).
          { clear - vadd Hadv. induction rs as [|b rs IH]; [cbn; lia|]. cbn [map total_len fold_right]. fold (total_len rs) (total_len (map (advance_on m) rs)).
            destruct (Hadv b (or_intror (or_introl eq_refl))) as [A B]. destruct (advance_spec m b A B) as (_ & _ & _ & Hle & _).
            assert (total_len (map (advance_on m) rs) <= total_len rs)%nat by (apply IH; intros r Hr; apply Hadv; destruct Hr; [now left|right; now right]). lia. }
          destruct Hin0 as [->|Hin0]; [specialize (Hlt Hon0); lia|].
          assert (total_len (map (advance_on m) rs) < total_len rs)%nat by (apply IH; [exact Hin0|intros r Hr; apply Hadv; now right]). lia. }
        destruct (IH rs' ltac:(lia) Hs') as [Hsort Hin].
        cbn [keys map fst]. fold (keys (merge_loop vadd f rs')). split.
        * destruct (keys (merge_loop vadd f rs')) as [|k1 ks] eqn:Ek; [reflexivity|]. cbn [ssorted]. fold ssorted.
          change (blt m k1 && ssorted (k1 :: ks) = true). rewrite Hsort, andb_true_r. apply Hgt. apply Hin. now left.
        * intros k. cbn [In]. rewrite Hmem, Hin. split; intros [H|H]; auto.
      + cbn [keys map]. split; [reflexivity|]. intros k. split; [intros []|]. unfold allkeys. rewrite in_flat_map. intros (r & Hin & Hk).
        rewrite Forall_forall in Hm. rewrite (Hm r Hin) in Hk. destruct Hk.
  Qed.

  (* C15_merge (keys): merging strictly sorted inputs yields a strictly sorted list whose keys are
     exactly the union of the inputs' keys *)
  Theorem heap_merge_sorted_union inputs : Forall sorted_input inputs ->
    ssorted (keys (heap_merge vadd inputs)) = true /\
    (forall k, In k (keys (heap_merge vadd inputs)) <-> exists r, In r inputs /\ In k (keys r)).
  Proof.
    intros Hs. destruct (merge_loop_spec (total_len inputs) inputs (le_n _) Hs) as [H1 H2]. split; [exact H1|].
    intros k. unfold heap_merge. rewrite H2. unfold allkeys. apply in_flat_map.
  Qed.
End MergeProofs.
