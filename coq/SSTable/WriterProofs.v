(* C15 -- proofs about the writer model (Writer.v): the ordering assertion, the block index
   separators, and the invariant tying the writer state to the pairs inserted so far. *)
From TV Require Import Base.Prelude Generated.Constants SSTable.Spec SSTable.Delta SSTable.Writer.
Local Open Scope N_scope.

(* ------------------------------------------------------------------ find_shorter_str_in_between *)
Lemma shorten_tail_gt tail : forall t, shorten_tail tail = Some t -> blt tail t = true.
Proof.
  induction tail as [|b tl IH]; intros t; cbn [shorten_tail]; [discriminate|].
  destruct (N.eqb_spec b 255) as [->|Hb].
  - destruct (shorten_tail tl) as [t'|]; cbn [option_map]; [|discriminate]. intros E. injection E as <-.
    unfold blt. cbn [bcmp]. rewrite N.compare_refl. apply IH. reflexivity.
  - intros E. injection E as <-. unfold blt. cbn [bcmp]. assert (L : b < b + 1) by lia. apply N.compare_lt_iff in L. now rewrite L.
Qed.

Lemma cut_below_right l : forall r t, blt l r = true -> (lcp l r < length l)%nat ->
  blt (firstn (S (lcp l r)) l ++ t) r = true.
Proof.
  induction l as [|x l IH]; intros [|y r] t; cbn [lcp length]; try lia; try discriminate.
  unfold blt. cbn [bcmp]. destruct (N.compare_spec x y) as [E|L|G]; try discriminate.
  - subst y. rewrite N.eqb_refl. intros H Hl. cbn [firstn app bcmp]. rewrite N.compare_refl. apply IH; [exact H|lia].
  - intros _ _. destruct (N.eqb_spec x y); [lia|]. cbn [firstn app bcmp]. apply N.compare_lt_iff in L. now rewrite L.
Qed.

(* the separator stays between the last key of its block and the first key of the next one *)
Lemma find_shorter_between l r : blt l r = true ->
  ble l (find_shorter l r) = true /\ blt (find_shorter l r) r = true.
Proof.
  intros H. unfold find_shorter. destruct (Nat.eqb_spec (length l) (lcp l r)) as [E|N].
  - split; [apply ble_refl|exact H].
  - destruct (shorten_tail (skipn (S (lcp l r)) l)) as [t|] eqn:Et; [|split; [apply ble_refl|exact H]].
    split.
    + rewrite <- (firstn_skipn (S (lcp l r)) l) at 1. unfold ble. rewrite bcmp_app.
      apply shorten_tail_gt in Et. unfold blt in Et. destruct (bcmp _ t); try discriminate; reflexivity.
    + apply cut_below_right; [exact H|]. pose proof (lcp_le_l l r). lia.
Qed.

(* ------------------------------------------------------------------ the ordering assertion *)
Lemma set_prev_eq prev key : set_prev prev key (lcp prev key) = key.
Proof.
  unfold set_prev. pose proof (lcp_le_l prev key) as H1. pose proof (lcp_le_r prev key) as H2.
  rewrite firstn_firstn, Nat.min_l by exact H2. rewrite firstn_app.
  replace (lcp prev key - length prev)%nat with 0%nat by lia. cbn [firstn]. rewrite app_nil_r, lcp_firstn. apply firstn_skipn.
Qed.

(* old shape: with a non-empty previous key the assertion passes exactly for a strictly larger key;
   with an empty previous_key it passes for EVERY key (the short-circuit behind F11) *)
Lemma check_increasing_spec fkb prev key : prev <> [] ->
  (check_increasing false fkb prev key (lcp prev key) (length key - lcp prev key) = None <-> blt prev key = true).
Proof.
  intros Hne. unfold check_increasing, blt. pose proof (bcmp_view prev key) as Vw.
  pose proof (lcp_le_l prev key) as H1. pose proof (lcp_le_r prev key) as H2.
  set (c := lcp prev key) in *.
  destruct prev as [|p0 prev']; [congruence|]. set (prev := p0 :: prev') in *.
  destruct (bcmp prev key) eqn:E.
  - subst key. unfold c. rewrite lcp_refl. replace (length prev - length prev)%nat with 0%nat by lia.
    cbn [Nat.ltb Nat.leb andb]. replace (nth_error prev (length prev)) with (@None N) by (symmetry; apply nth_error_None; lia).
    split; discriminate.
  - split; [reflexivity|intros _]. destruct Vw as [[Ea Eb]|[[Ea Eb] Ec]].
    + replace (Nat.ltb 0 (length key - c)) with true by (symmetry; apply Nat.ltb_lt; lia).
      replace (Nat.eqb (length prev) c) with true by (symmetry; apply Nat.eqb_eq; lia). reflexivity.
    + replace (Nat.eqb (length prev) c) with false by (symmetry; apply Nat.eqb_neq; lia). rewrite andb_false_r.
      rewrite (nth_error_nth' prev 0 Ea), (nth_error_nth' key 0 Eb).
      replace (nth c prev 0 <? nth c key 0) with true by (symmetry; apply N.ltb_lt; exact Ec). reflexivity.
  - split; [|discriminate]. destruct Vw as [[Ea Eb]|[[Ea Eb] Ec]].
    + replace (length key - c)%nat with 0%nat by lia. cbn [Nat.ltb Nat.leb andb].
      rewrite (nth_error_nth' prev 0 Eb). replace (nth_error key c) with (@None N) by (symmetry; apply nth_error_None; lia). discriminate.
    + replace (Nat.eqb (length prev) c) with false by (symmetry; apply Nat.eqb_neq; lia). rewrite andb_false_r.
      rewrite (nth_error_nth' prev 0 Ea), (nth_error_nth' key 0 Eb).
      replace (nth c prev 0 <? nth c key 0) with false by (symmetry; apply N.ltb_ge; lia). discriminate.
Qed.

Lemma check_increasing_empty fkb key keep add : check_increasing false fkb [] key keep add = None.
Proof. unfold check_increasing. destruct (_ && _); reflexivity. Qed.

(* fixed shape: inside a block the assertion passes exactly for a strictly larger key -- for EVERY
   previous key, the empty one included -- and never indexes out of bounds; the first key of a block
   is not compared here (it is compared with the previous block's last key by the index builder) *)
Lemma check_increasing_fixed_spec prev key :
  (check_increasing true false prev key (lcp prev key) (length key - lcp prev key) = None <-> blt prev key = true).
Proof.
  unfold check_increasing, blt. pose proof (bcmp_view prev key) as Vw.
  pose proof (lcp_le_l prev key) as H1. pose proof (lcp_le_r prev key) as H2.
  set (c := lcp prev key) in *.
  destruct (bcmp prev key) eqn:E.
  - subst key. unfold c. rewrite lcp_refl. replace (length prev - length prev)%nat with 0%nat by lia.
    rewrite !Nat.ltb_irrefl. cbn [andb]. split; discriminate.
  - split; [reflexivity|intros _]. destruct Vw as [[Ea Eb]|[[Ea Eb] Ec]].
    + replace (Nat.ltb 0 (length key - c)) with true by (symmetry; apply Nat.ltb_lt; lia).
      replace (Nat.eqb (length prev) c) with true by (symmetry; apply Nat.eqb_eq; lia). reflexivity.
    + replace (Nat.eqb (length prev) c) with false by (symmetry; apply Nat.eqb_neq; lia). rewrite andb_false_r.
      replace (Nat.ltb c (length prev)) with true by (symmetry; apply Nat.ltb_lt; lia).
      replace (Nat.ltb c (length key)) with true by (symmetry; apply Nat.ltb_lt; lia).
      replace (nth c prev 0 <? nth c key 0) with true by (symmetry; apply N.ltb_lt; exact Ec). reflexivity.
  - split; [|discriminate]. destruct Vw as [[Ea Eb]|[[Ea Eb] Ec]].
    + replace (length key - c)%nat with 0%nat by lia. rewrite Nat.ltb_irrefl. cbn [andb].
      replace (Nat.ltb c (length key)) with false by (symmetry; apply Nat.ltb_ge; lia). rewrite andb_false_r. discriminate.
    + replace (Nat.eqb (length prev) c) with false by (symmetry; apply Nat.eqb_neq; lia). rewrite andb_false_r.
      replace (nth c prev 0 <? nth c key 0) with false by (symmetry; apply N.ltb_ge; lia). rewrite andb_false_r. discriminate.
Qed.

Lemma check_increasing_first fixed prev key keep add : (fixed = false -> prev = []) ->
  check_increasing fixed true prev key keep add = None.
Proof.
  intros H. unfold check_increasing. destruct (_ && _); [reflexivity|]. destruct fixed; [reflexivity|]. now rewrite H.
Qed.

(* either shape: a key strictly above the previous key of the same block passes *)
Lemma check_increasing_passes fixed prev key : blt prev key = true ->
  check_increasing fixed false prev key (lcp prev key) (length key - lcp prev key) = None.
Proof.
  intros H. destruct fixed; [now apply check_increasing_fixed_spec|].
  destruct prev as [|p0 prev'] eqn:E; [apply check_increasing_empty|]. apply check_increasing_spec; [discriminate|exact H].
Qed.

Lemma last_cons {A} (r : list A) : forall a p, last (a :: r) p = last r a.
Proof.
  induction r as [|b r IH]; intros a p; [reflexivity|].
  change (last (a :: b :: r) p) with (last (b :: r) p). now rewrite (IH b p), (IH b a).
Qed.

Lemma last_indep {A} (l : list A) d d' : l <> [] -> last l d = last l d'.
Proof. induction l as [|a [|b l] IH]; intros H; [congruence|reflexivity|]. change (last (b :: l) d = last (b :: l) d'). apply IH. discriminate. Qed.

Lemma last_app_r {A} (l1 l2 : list A) d : l2 <> [] -> last (l1 ++ l2) d = last l2 d.
Proof.
  intros H. induction l1 as [|a l1 IH]; [reflexivity|]. cbn [app]. rewrite last_cons.
  rewrite (last_indep (l1 ++ l2) a d); [exact IH|]. destruct l1; [exact H|discriminate].
Qed.

Lemma encode_entries_snoc ks : forall p k,
  encode_entries p (ks ++ [k]) = encode_entries p ks ++ [(lcp (last ks p) k, skipn (lcp (last ks p) k) k)].
Proof.
  induction ks as [|a r IH]; intros p k; cbn [app encode_entries]; [reflexivity|].
  rewrite IH. cbn [app]. now rewrite (last_cons r a p).
Qed.

Lemma entries_bytes_snoc es e : entries_bytes (es ++ [e]) = entries_bytes es ++ entry_bytes e.
Proof. unfold entries_bytes. rewrite map_app, concat_app. cbn [map concat]. now rewrite app_nil_r. Qed.

Section Inv.
  Context {V : Type}.
  Variable order_fixed : bool.
  Variable block_len : N.
  Notation rblock := (rblock V).
  Notation wstate := (wstate V).
  Notation insert := (insert order_fixed block_len).
  Notation insert_key := (insert_key order_fixed).
  Notation run := (run order_fixed block_len).

  (* flushed blocks against the groups of pairs they hold, both most recent first; `nxt` = first key
     written after the most recent block (None: none yet), `end_ord` = ordinal after it *)
  Fixpoint rdone_rel (rd : list rblock) (rBs : list (smap V)) (nxt : option bytes) (end_ord : N) : Prop :=
    match rd, rBs with
    | [], [] => end_ord = 0
    | rb :: rd', B :: rBs' =>
        B <> [] /\ rb_keys rb = encode_block_keys (keys B) /\ rb_vals rb = map snd B /\
        end_ord = rb_first_ord rb + N.of_nat (length B) /\
        ble (last (keys B) []) (rb_sep rb) = true /\
        match nxt with None => rb_sep rb = last (keys B) [] | Some k => blt (rb_sep rb) k = true end /\
        rdone_rel rd' rBs' (Some (hd [] (keys B))) (rb_first_ord rb)
    | _, _ => False
    end.

  Definition winv (st : wstate) (D : smap V) : Prop :=
    exists rBs C,
      D = concat (rev rBs) ++ C /\
      w_block st = encode_block_keys (keys C) /\
      w_vals st = map snd C /\
      w_prev st = last (keys C) [] /\
      w_num_terms st = N.of_nat (length D) /\
      w_first_ord st = N.of_nat (length (concat (rev rBs))) /\
      rdone_rel (w_done st) rBs (hd_error (keys C)) (w_first_ord st).

  Lemma winv_init : winv w_init [].
  Proof. exists [], []. cbn. repeat split; reflexivity. Qed.

  (* the key most recently inserted (or [] before any) *)
  Definition last_key (D : smap V) : bytes := last (keys D) [].

  Lemma last_key_split rBs (C : smap V) : C <> [] -> last_key (concat (rev rBs) ++ C) = last (keys C) [].
  Proof.
    intros HC. unfold last_key, keys. rewrite map_app. apply last_app_r. destruct C; [congruence|discriminate].
  Qed.

  Lemma rdone_last_key rd rBs e : rBs <> [] -> rdone_rel rd rBs None e ->
    match rd with rb :: _ => rb_sep rb = last_key (concat (rev rBs)) | [] => False end.
  Proof.
    destruct rd as [|rb rd], rBs as [|B rBs]; cbn [rdone_rel]; try tauto; try congruence.
    intros _ (HB & _ & _ & _ & _ & Hs & _). rewrite Hs. cbn [rev]. rewrite concat_app. cbn [concat]. rewrite app_nil_r.
    symmetry. apply last_key_split. exact HB.
  Qed.

  (* one accepted insert of a key above the last one keeps the invariant *)
  Lemma insert_preserves st D k v :
    winv st D -> (D = [] \/ blt (last_key D) k = true) ->
    exists st', insert st (k, v) = WOk st' /\ winv st' (D ++ [(k, v)]).
  Proof.
    intros (rBs & C & HD & Hblk & Hvals & Hprev & Hnum & Hfo & Hrel) Hord.
    unfold Writer.insert. cbn [fst snd].
    (* --- insert_key --- *)
    assert (Hkey : exists done',
      insert_key st k = WOk {| w_prev := k; w_done := done'; w_block := encode_block_keys (keys (C ++ [(k, v)]));
                               w_vals := w_vals st; w_num_terms := w_num_terms st; w_first_ord := w_first_ord st |} /\
      rdone_rel done' rBs (hd_error (keys (C ++ [(k, v)]))) (w_first_ord st)).
    { unfold Writer.insert_key. destruct C as [|c C].
      - (* first key of a block: the previous block's separator is shortened *)
        rewrite app_nil_r in HD. subst D. rewrite Hnum, Hfo, N.eqb_refl.
        cbn [keys map last] in Hprev. cbn [app keys map hd_error fst].
        assert (Hsh : exists done', shorten_last (w_done st) k = Some done' /\ rdone_rel done' rBs (Some k) (w_first_ord st)).
        { destruct rBs as [|B rBs].
          - destruct (w_done st) as [|rb rd]; cbn [rdone_rel] in Hrel; [|tauto]. exists []. split; [reflexivity|exact Hrel].
          - assert (Hnn : B :: rBs <> []) by discriminate. pose proof (rdone_last_key _ _ _ Hnn Hrel) as Hl. unfold smap in *.
            destruct (w_done st) as [|rb rd]; [tauto|]. cbn [shorten_last].
            destruct Hord as [Hnil|Hlt].
            + exfalso. cbn [rdone_rel] in Hrel. destruct Hrel as (HB & _). cbn [rev] in Hnil. rewrite concat_app in Hnil.
              apply app_eq_nil in Hnil. destruct Hnil as [_ Hnil]. cbn in Hnil. rewrite app_nil_r in Hnil. congruence.
            + rewrite <- Hl in Hlt. rewrite Hlt. eexists. split; [reflexivity|]. cbn [rdone_rel] in *. cbn [rb_sep rb_first_ord rb_keys rb_vals].
              destruct Hrel as (H1 & H2 & H3 & H4 & H5 & H6 & H7).
              destruct (find_shorter_between _ _ Hlt) as [Ha Hb]. repeat split; try assumption.
              apply ble_trans with (rb_sep rb); assumption. }
        destruct Hsh as (done' & -> & Hrel'). rewrite Hprev. cbn [lcp]. rewrite check_increasing_first by reflexivity.
        exists done'. split; [|rewrite <- Hfo; exact Hrel']. f_equal. rewrite Hblk.
        change (lcp [] k) with 0%nat. cbn [skipn]. unfold set_prev. cbn [firstn app].
        unfold encode_block_keys. cbn [keys map encode_entries lcp skipn entries_bytes concat app]. now rewrite app_nil_r.
      - (* inside a block *)
        assert (Hne : N.eqb (w_first_ord st) (w_num_terms st) = false).
        { apply N.eqb_neq. rewrite Hnum, Hfo, HD, app_length. cbn [length]. lia. }
        rewrite Hne. set (C0 := c :: C) in *.
        assert (Hlk : last_key D = w_prev st) by (rewrite HD, Hprev; apply last_key_split; discriminate).
        destruct Hord as [Hnil|Hlt]; [exfalso; rewrite HD in Hnil; apply app_eq_nil in Hnil; destruct Hnil; discriminate|].
        rewrite Hlk in Hlt.
        assert (Hchk : check_increasing order_fixed false (w_prev st) k (lcp (w_prev st) k) (length k - lcp (w_prev st) k) = None)
          by (now apply check_increasing_passes).
        rewrite Hchk, set_prev_eq. exists (w_done st). split.
        + f_equal. f_equal. rewrite Hblk. unfold encode_block_keys, keys. rewrite map_app. cbn [map fst].
          rewrite encode_entries_snoc, entries_bytes_snoc. fold (keys C0). rewrite <- Hprev. reflexivity.
        + unfold C0 in *. cbn [app keys map hd_error] in *. exact Hrel. }
    destruct Hkey as (done' & -> & Hrel').
    (* --- insert_value --- *)
    unfold insert_value. cbn [w_prev w_done w_block w_vals w_num_terms w_first_ord].
    set (C' := C ++ [(k, v)]) in *.
    assert (HD' : D ++ [(k, v)] = concat (rev rBs) ++ C') by (unfold C'; rewrite HD, app_assoc; reflexivity).
    assert (Hlen' : w_num_terms st + 1 = N.of_nat (length (D ++ [(k, v)]))) by (rewrite Hnum, app_length; cbn [length]; lia).
    assert (Hvals' : w_vals st ++ [v] = map snd C') by (unfold C'; rewrite map_app, Hvals; reflexivity).
    assert (Hlast' : k = last (keys C') []) by (unfold C', keys; rewrite map_app; cbn [map fst]; now rewrite last_last).
    destruct (N.ltb block_len (N.of_nat (length (encode_block_keys (keys C'))))).
    - (* flush *)
      eexists. split; [reflexivity|]. exists (C' :: rBs), []. unfold flush. cbn [w_prev w_done w_block w_vals w_num_terms w_first_ord].
      cbn [rev]. rewrite concat_app. cbn [concat]. rewrite !app_nil_r.
      split; [exact HD'|]. split; [reflexivity|]. split; [reflexivity|]. split; [reflexivity|].
      split; [exact Hlen'|]. split; [rewrite Hlen', HD'; reflexivity|].
      cbn [keys map hd_error rdone_rel]. cbv [rb_sep rb_first_ord rb_keys rb_vals].
      split; [unfold C'; destruct C; discriminate|]. split; [reflexivity|]. split; [exact Hvals'|].
      split; [rewrite Hlen', HD', Hfo, app_length; lia|]. split; [rewrite <- Hlast'; apply ble_refl|]. split; [exact Hlast'|].
      replace (Some (hd [] (keys C'))) with (hd_error (keys C')); [exact Hrel'|]. unfold C'. destruct C; reflexivity.
    - eexists. split; [reflexivity|]. exists rBs, C'. cbn [w_prev w_done w_block w_vals w_num_terms w_first_ord].
      repeat split; try assumption; reflexivity.
  Qed.

  (* chain of keys above the current last key *)
  Fixpoint above_chain (prev : option bytes) (ks : list bytes) : Prop :=
    match ks with
    | [] => True
    | k :: r => match prev with None => True | Some p => blt p k = true end /\ above_chain (Some k) r
    end.

  Lemma last_key_snoc (D : smap V) k v : last_key (D ++ [(k, v)]) = k.
  Proof. unfold last_key, keys. rewrite map_app. cbn [map fst]. apply last_last. Qed.

  Lemma run_preserves kvs : forall st D,
    winv st D -> above_chain (match D with [] => None | _ => Some (last_key D) end) (keys kvs) ->
    exists st', run st kvs = WOk st' /\ winv st' (D ++ kvs).
  Proof.
    induction kvs as [|[k v] r IH]; intros st D Hinv Hch; cbn [run].
    - exists st. rewrite app_nil_r. auto.
    - cbn [keys map fst above_chain] in Hch. destruct Hch as [Hk Hr].
      destruct (insert_preserves st D k v Hinv) as (st1 & -> & Hinv1).
      { destruct D; [left; reflexivity|right; exact Hk]. }
      destruct (IH st1 (D ++ [(k, v)]) Hinv1) as (st' & Hrun & Hinv').
      { rewrite last_key_snoc. destruct (D ++ [(k, v)]) eqn:E; [destruct D; discriminate|]. exact Hr. }
      exists st'. rewrite <- app_assoc in Hinv'. auto.
  Qed.

  Lemma ssorted_above_chain ks : ssorted ks = true -> above_chain None ks.
  Proof.
    destruct ks as [|k r]; [constructor|]. intros H. cbn [above_chain]. split; [exact I|].
    revert k H; induction r as [|b r IH]; intros k H; cbn [above_chain]; [exact I|].
    split; [now apply ssorted_head in H|apply IH; now apply ssorted_cons in H].
  Qed.

  (* building from strictly increasing keys never panics, and the final state describes them *)
  Theorem build_sorted_ok kvs : ssorted (keys kvs) = true ->
    exists st, run w_init kvs = WOk st /\ winv st kvs.
  Proof.
    intros Hs. destruct (run_preserves kvs w_init [] winv_init) as (st & Hr & Hi); [now apply ssorted_above_chain|].
    exists st. auto.
  Qed.

  (* ---------------------------------------------------------------- rejection of unordered keys *)
  (* Reachable writer states: after any ACCEPTED sequence of inserts (sorted or not). *)
  Inductive reachable : wstate -> option bytes -> Prop :=
  | reach_init : reachable w_init None
  | reach_step st lk k v st' : reachable st lk -> insert st (k, v) = WOk st' -> reachable st' (Some k).

  (* what the state remembers of the last accepted key *)
  Definition remembers (st : wstate) (lk : option bytes) : Prop :=
    match lk with
    | None => w_prev st = [] /\ w_done st = [] /\ w_block st = [] /\ w_first_ord st = w_num_terms st
    | Some k =>
        (w_block st <> [] /\ w_prev st = k /\ w_first_ord st <> w_num_terms st) \/
        (w_block st = [] /\ w_prev st = [] /\ w_first_ord st = w_num_terms st /\
         match w_done st with rb :: _ => rb_sep rb = k | [] => False end)
    end.

  Definition counts_ok (st : wstate) : Prop :=
    w_first_ord st <= w_num_terms st /\ (w_block st = [] <-> w_first_ord st = w_num_terms st).

  Lemma insert_key_shape (st : wstate) k (st1 : wstate) : insert_key st k = WOk st1 ->
    w_prev st1 = k /\ w_block st1 = w_block st ++ entry_bytes (lcp (w_prev st) k, skipn (lcp (w_prev st) k) k) /\
    w_num_terms st1 = w_num_terms st /\ w_first_ord st1 = w_first_ord st /\ w_vals st1 = w_vals st.
  Proof.
    unfold Writer.insert_key. destruct (if N.eqb _ _ then _ else _); [|discriminate].
    destruct (check_increasing _ _ _ _ _ _); [discriminate|]. intros E. injection E as <-.
    cbn [w_prev w_block w_num_terms w_first_ord w_vals]. rewrite set_prev_eq. repeat split; reflexivity.
  Qed.

  Lemma reachable_remembers st lk : reachable st lk -> remembers st lk /\ counts_ok st.
  Proof.
    induction 1 as [|st lk k v st' Hr [IHr IHc] Hins].
    - split; [cbn; repeat split; reflexivity|]. cbn. unfold counts_ok. cbn. split; [lia|tauto].
    - unfold Writer.insert in Hins. cbn [fst snd] in Hins. destruct (insert_key st k) as [st1|] eqn:Ek; [|discriminate].
      injection Hins as <-. destruct (insert_key_shape _ _ _ Ek) as (Hp & Hb & Hn & Hf & _).
      destruct IHc as [Hle Hiff].
      assert (Hbne : w_block st1 <> []).
      { rewrite Hb. pose proof (entry_bytes_length (lcp (w_prev st) k, skipn (lcp (w_prev st) k) k)).
        intros E. apply (f_equal (@length N)) in E. rewrite app_length in E. cbn [length] in E. lia. }
      unfold insert_value. destruct (N.ltb block_len _).
      + unfold flush. cbn [w_prev w_done w_block w_vals w_num_terms w_first_ord]. split.
        * right. cbn [w_block w_prev w_first_ord w_num_terms w_done rb_sep]. repeat split; try reflexivity. exact Hp.
        * unfold counts_ok. cbn [w_block w_first_ord w_num_terms]. split; [lia|tauto].
      + cbn [remembers]. split.
        * left. cbn [w_block w_prev w_first_ord w_num_terms]. repeat split; [exact Hbne|exact Hp|]. rewrite Hf, Hn. lia.
        * unfold counts_ok. cbn [w_block w_first_ord w_num_terms]. rewrite Hf, Hn. split; [lia|]. split; [tauto|lia].
  Qed.

  (* F11 class, on the writer state: the short-circuit `previous_key.is_empty()` fires although
     the block already holds a key -- which can only be the empty key *)
  Definition F11_state (st : wstate) (k : bytes) : Prop := k = [] /\ w_prev st = [] /\ w_block st <> [].

  (* fixed shape: no exception *)
  Theorem rejects_unordered st lk k : order_fixed = true ->
    reachable st (Some lk) -> ble k lk = true ->
    exists p, insert_key st k = WPanic p.
  Proof.
    intros Hfix Hr Hle. destruct (reachable_remembers _ _ Hr) as [Hrem _]. cbn [remembers] in Hrem.
    unfold Writer.insert_key. destruct Hrem as [(Hb & Hp & Hne)|(Hb & Hp & Hf & Hd)].
    - apply N.eqb_neq in Hne. rewrite Hne, Hp, Hfix.
      destruct (check_increasing true false lk k _ _) eqn:Ec; [eauto|].
      exfalso. apply check_increasing_fixed_spec in Ec. rewrite blt_nble, Hle in Ec. discriminate.
    - rewrite Hf, N.eqb_refl. destruct (w_done st) as [|rb rd]; [tauto|]. cbn [shorten_last]. rewrite Hd.
      rewrite blt_nble, Hle. cbn [negb]. eauto.
  Qed.

  (* old shape: everything is rejected except the class F11 *)
  Theorem rejects_unordered_old st lk k : order_fixed = false ->
    reachable st (Some lk) -> ble k lk = true -> ~ F11_state st k ->
    exists p, insert_key st k = WPanic p.
  Proof.
    intros Hfix Hr Hle Hn11. destruct (reachable_remembers _ _ Hr) as [Hrem _]. cbn [remembers] in Hrem.
    unfold Writer.insert_key. destruct Hrem as [(Hb & Hp & Hne)|(Hb & Hp & Hf & Hd)].
    - apply N.eqb_neq in Hne. rewrite Hne, Hp, Hfix.
      destruct lk as [|l0 lk'].
      + (* last key empty, block not flushed: k <= [] means k = [] : exactly F11 *)
        exfalso. apply Hn11. destruct k; [|discriminate]. repeat split; assumption.
      + destruct (check_increasing false false (l0 :: lk') k _ _) eqn:Ec; [eauto|].
        exfalso. apply check_increasing_spec in Ec; [|discriminate]. rewrite blt_nble, Hle in Ec. discriminate.
    - rewrite Hf, N.eqb_refl. destruct (w_done st) as [|rb rd]; [tauto|]. cbn [shorten_last]. rewrite Hd.
      rewrite blt_nble, Hle. cbn [negb]. eauto.
  Qed.
End Inv.

(* the pinned source has exactly one of the two known shapes of the ordering assertion (re-run on the
   regenerated flags: an unrecognised or reverted shape breaks these) *)
Lemma order_shape_known : SST_ORDER_CHECK_BLOCK_START + SST_ORDER_CHECK_PREV_EMPTY = 1.
Proof. reflexivity. Qed.
Lemma order_fixed_pinned : ORDER_FIXED = true.
Proof. reflexivity. Qed.
