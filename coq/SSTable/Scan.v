(* C15 -- search inside one block without materialising the keys.
   Transliterates Dictionary::decode_up_to_or_next / decode_up_to_key
   (/repo/sstable/src/dictionary.rs): the reader walks the (keep, suffix) entries and keeps
   `ok_bytes`, the number of leading bytes of the searched key known to match. *)
From TV Require Import Base.Prelude SSTable.Spec SSTable.Delta.
Local Open Scope N_scope.

Inductive zres := TooFar | Cont (ok : nat).

(* for (key_byte, suffix_byte) in key_bytes[ok_bytes..].iter().zip(suffix) {
     match suffix_byte.cmp(key_byte) { Less => break, Equal => ok_bytes += 1, Greater => return Next } } *)
Fixpoint zip_cmp (kr suf : bytes) (ok : nat) : zres :=
  match kr, suf with
  | kb :: kr', sb :: suf' =>
      match N.compare sb kb with Lt => Cont ok | Eq => zip_cmp kr' suf' (S ok) | Gt => TooFar end
  | _, _ => Cont ok
  end.

Fixpoint scan (key : bytes) (ok : nat) (ord : N) (es : list entry) : hit :=
  match es with
  | [] => Next ord
  | (keep, suf) :: r =>
      match Nat.compare keep ok with
      | Lt => Next ord                       (* popped bytes already matched => too far *)
      | Gt => scan key ok (ord + 1) r        (* shares more with its predecessor than with key *)
      | Eq =>
          match zip_cmp (skipn ok key) suf ok with
          | TooFar => Next ord
          | Cont ok' =>
              if Nat.eqb ok' (length key)
              then (if Nat.eqb (keep + length suf) ok' then Exact ord else Next ord)
              else scan key ok' (ord + 1) r
          end
      end
  end.

Lemma zip_cmp_spec kr : forall suf ok,
  match zip_cmp kr suf ok with
  | TooFar => bcmp suf kr = Gt
  | Cont ok' => ok' = (ok + lcp suf kr)%nat /\ (bcmp suf kr = Gt -> lcp suf kr = length kr)
  end.
Proof.
  induction kr as [|kb kr IH]; intros [|sb suf] ok; cbn [zip_cmp lcp bcmp length].
  - split; [lia|discriminate].
  - split; [lia|reflexivity].
  - split; [lia|discriminate].
  - rewrite N.compare_antisym. destruct (N.compare_spec kb sb) as [E|L|G]; cbn [CompOpp].
    + subst. rewrite N.eqb_refl. specialize (IH suf (S ok)). destruct (zip_cmp kr suf (S ok)); [exact IH|].
      destruct IH as [-> H]. split; [lia|]. intros Hg. f_equal. now apply H.
    + reflexivity.
    + destruct (N.eqb_spec sb kb); [lia|]. split; [lia|discriminate].
Qed.

Lemma firstn_lcp_len a b : length (firstn (lcp a b) b) = lcp a b.
Proof. rewrite firstn_length. pose proof (lcp_le_r a b). lia. Qed.

(* in-block search over front-coded entries = linear scan over the keys *)
Lemma scan_correct key rest : forall prev ord,
  ble prev key = true -> chain prev rest ->
  scan key (lcp prev key) ord (encode_entries prev rest) = scan_spec key ord rest.
Proof.
  induction rest as [|cur r IH]; intros prev ord Hle Hc; cbn [encode_entries scan scan_spec]; [reflexivity|].
  destruct Hc as [Hlt Hc].
  set (keep := lcp prev cur). set (ok := lcp prev key).
  pose proof (lcp_le_l prev cur) as K1. pose proof (lcp_le_r prev cur) as K2.
  pose proof (lcp_le_l prev key) as O1. pose proof (lcp_le_r prev key) as O2.
  fold keep in K1, K2. fold ok in O1, O2.
  pose proof (bcmp_view prev cur) as V1. unfold blt in Hlt. destruct (bcmp prev cur) eqn:Epc; try discriminate. fold keep in V1.
  pose proof (bcmp_view prev key) as V0. unfold ble in Hle. fold ok in V0.
  destruct (Nat.compare_spec keep ok) as [Eko|Lko|Gko].
  - (* keep = ok : compare the suffix with the rest of the key *)
    assert (Ecur : cur = firstn ok key ++ skipn keep cur).
    { unfold ok. rewrite <- lcp_firstn. fold ok. rewrite <- Eko. unfold keep. rewrite lcp_firstn. symmetry. apply firstn_skipn. }
    assert (Ekey : key = firstn ok key ++ skipn ok key) by (symmetry; apply firstn_skipn).
    set (P := firstn ok key) in *. set (kr := skipn ok key) in *. set (suf := skipn keep cur) in *.
    assert (HP : length P = ok) by (unfold P, ok; apply firstn_lcp_len).
    assert (Ecmp : bcmp cur key = bcmp suf kr) by (rewrite Ecur, Ekey at 1; apply bcmp_app).
    assert (Elcp : lcp cur key = (ok + lcp suf kr)%nat) by (rewrite Ecur, Ekey at 1; rewrite lcp_app; lia).
    assert (Hlen : length key = (ok + length kr)%nat) by (rewrite Ekey at 1; rewrite app_length; lia).
    pose proof (zip_cmp_spec kr suf ok) as Z. destruct (zip_cmp kr suf ok) as [|ok'].
    + now rewrite Ecmp, Z.
    + destruct Z as [-> Z]. pose proof (bcmp_view suf kr) as V2. rewrite Ecmp.
      destruct (Nat.eqb_spec (ok + lcp suf kr) (length key)) as [E1|N1].
      * assert (El : lcp suf kr = length kr) by lia.
        destruct (Nat.eqb_spec (keep + length suf) (ok + lcp suf kr)) as [E2|N2]; destruct (bcmp suf kr); try reflexivity; try lia.
        -- exfalso. assert (length suf = length kr) by (now rewrite V2). lia.
      * assert (Nl : lcp suf kr <> length kr) by lia.
        destruct (bcmp suf kr) eqn:E3.
        -- exfalso. apply Nl. rewrite V2. apply lcp_refl.
        -- rewrite <- Elcp. apply IH; [|exact Hc]. unfold ble. now rewrite Ecmp.
        -- exfalso. apply Nl. now apply Z.
  - (* keep < ok : cur left the prefix shared with key, on the high side *)
    assert (Hl : lcp cur key = keep) by (unfold keep; rewrite (lcp_comm prev cur); apply lcp_ultra; rewrite (lcp_comm cur prev); exact Lko).
    assert (Hn : nth keep key 0 = nth keep prev 0) by (symmetry; apply lcp_nth; exact Lko).
    pose proof (bcmp_view cur key) as V2. rewrite Hl in V2.
    destruct (bcmp cur key); [|exfalso; lia|reflexivity].
    exfalso. subst cur. lia.
  - (* keep > ok : cur is still below key, with the same number of matching bytes *)
    assert (Hl : lcp key cur = ok) by (unfold ok; rewrite (lcp_comm prev key); apply lcp_ultra; rewrite (lcp_comm key prev); exact Gko).
    rewrite lcp_comm in Hl.
    assert (Hn : nth ok cur 0 = nth ok prev 0) by (symmetry; apply lcp_nth; exact Gko).
    pose proof (bcmp_view cur key) as V2. rewrite Hl in V2.
    destruct (bcmp prev key) eqn:Epk; try discriminate.
    + exfalso. subst key. unfold ok in Gko. rewrite lcp_refl in Gko. lia.
    + destruct (bcmp cur key) eqn:Eck.
      * exfalso. subst cur. lia.
      * rewrite <- Hl. apply IH; [|exact Hc]. unfold ble. now rewrite Eck.
      * exfalso. lia.
Qed.

(* a block is encoded from the empty previous key *)
Theorem block_scan_correct ks key : ssorted ks = true ->
  scan key 0 0 (encode_entries [] ks) = sm_ord_or_next ks key.
Proof.
  intros Hs. rewrite <- scan_spec_is_ord_or_next by exact Hs.
  destruct ks as [|k r]; [reflexivity|].
  (* the first key is compared against the virtual predecessor [] with ok = 0 *)
  change 0%nat with (lcp [] key) at 1.
  cbn [encode_entries scan scan_spec]. cbn [lcp skipn].
  pose proof (zip_cmp_spec key k 0) as Z. pose proof (bcmp_view k key) as V.
  destruct (zip_cmp key k 0) as [|ok'].
  - now rewrite Z.
  - destruct Z as [-> Z]. cbn [Nat.add].
    destruct (Nat.eqb_spec (lcp k key) (length key)) as [E1|N1].
    + destruct (Nat.eqb_spec (length k) (lcp k key)) as [E2|N2]; destruct (bcmp k key); try reflexivity; try lia.
      subst k. rewrite lcp_refl in N2. lia.
    + destruct (bcmp k key) eqn:E3.
      * exfalso. subst k. rewrite lcp_refl in N1. lia.
      * apply scan_correct; [unfold ble; now rewrite E3|now apply ssorted_chain].
      * exfalso. apply N1. now apply Z.
Qed.
