(* C15 -- boolean checkers used by the correspondence cases written by harness/src/bin/c15.rs.
   `tie_*`  : the executable model against the implementation's observation;
   `spec_*` : the sorted-map specification (Spec.v) evaluated on the implementation's answer.
   No theorem lives here. *)
From TV Require Import Base.Prelude Generated.Constants SSTable.Spec SSTable.Delta SSTable.Scan SSTable.Writer SSTable.Dict SSTable.DictProofs SSTable.File SSTable.Merge.
Local Open Scope N_scope.

Definition bytes_eqb (a b : bytes) : bool := list_eqb N.eqb a b.
Definition bytes_list_eqb (a b : list bytes) : bool := list_eqb bytes_eqb a b.
Definition opt_eqb {A} (eqb : A -> A -> bool) (a b : option A) : bool :=
  match a, b with Some x, Some y => eqb x y | None, None => true | _, _ => false end.
Definition kvs_eqb {V} (veq : V -> V -> bool) (a b : list (bytes * V)) : bool := list_eqb (kv_eqb veq) a b.
Definition unit_eqb (_ _ : unit) : bool := true.
Definition pairN_eqb (a b : N * N) : bool := N.eqb (fst a) (fst b) && N.eqb (snd a) (snd b).

(* a successor ordinal at or beyond the number of terms means "there is no successor":
   the implementation answers u64::MAX there (its own TODO), a sorted map answers len *)
Definition hit_canon (n : N) (h : hit) : hit :=
  match h with Next o => if N.leb n o then Next n else Next o | e => e end.

(* ---------------------------------------------------------------- spec side *)
Record probe (V : Type) := { p_key : bytes; p_get : option V; p_ord : option N; p_hit : hit }.
Arguments p_key {V}. Arguments p_get {V}. Arguments p_ord {V}. Arguments p_hit {V}.

Definition spec_probe {V} (veq : V -> V -> bool) (m : smap V) (p : probe V) : bool :=
  let ks := keys m in
  opt_eqb veq (sm_get m (p_key p)) (p_get p) &&
  opt_eqb N.eqb (sm_ord ks (p_key p)) (p_ord p) &&
  hit_eqb (hit_canon (N.of_nat (length ks)) (p_hit p)) (sm_ord_or_next ks (p_key p)).
Definition spec_probes {V} veq (m : smap V) (ps : list (probe V)) : bool := forallb (spec_probe veq m) ps.

(* ordinal -> key and ordinal -> value *)
Definition spec_ords {V} (veq : V -> V -> bool) (m : smap V) (os : list (N * option bytes * option V)) : bool :=
  forallb (fun o => opt_eqb bytes_eqb (sm_key_of_ord (keys m) (fst (fst o))) (snd (fst o)) &&
                    opt_eqb veq (option_map snd (nth_error m (N.to_nat (fst (fst o))))) (snd o)) os.

Fixpoint is_list_prefix {A} (eqb : A -> A -> bool) (p l : list A) : bool :=
  match p, l with [] , _ => true | x :: p', y :: l' => eqb x y && is_list_prefix eqb p' l' | _ :: _, [] => false end.

(* a range stream without limit returns exactly the sub-map; with `limit n` the streamer may return
   "marginally more": any prefix of the sub-map holding at least min(n, all) entries *)
Definition spec_range {V} (veq : V -> V -> bool) (m : smap V) (lo hi : bound) (limit : option N) (impl : list (bytes * V)) : bool :=
  let want := sm_range lo hi m in
  match limit with
  | None => kvs_eqb veq impl want
  | Some n => is_list_prefix (kv_eqb veq) impl want && N.leb (N.min n (N.of_nat (length want))) (N.of_nat (length impl))
  end.
Definition spec_prefix {V} (veq : V -> V -> bool) (m : smap V) (p : bytes) (impl : list (bytes * V)) : bool :=
  kvs_eqb veq impl (sm_prefix p m).
(* automaton search: the acceptance oracle is the real automaton run over each key by the harness *)
Definition spec_search {V} (veq : V -> V -> bool) (m : smap V) (accepted : list bool) (lo hi : bound) (impl : list (bytes * V)) : bool :=
  Nat.eqb (length accepted) (length m) &&
  kvs_eqb veq impl (sm_range lo hi (map fst (filter snd (combine m accepted)))).

(* merge: sorted union of the keys, values combined by `vadd` in input order *)
Fixpoint union_insert {V} (vadd : V -> V -> V) (k : bytes) (v : V) (m : smap V) : smap V :=
  match m with
  | [] => [(k, v)]
  | (k', v') :: r => match bcmp k k' with
                     | Lt => (k, v) :: m
                     | Eq => (k', vadd v' v) :: r
                     | Gt => (k', v') :: union_insert vadd k v r
                     end
  end.
Definition sm_union {V} (vadd : V -> V -> V) (ms : list (smap V)) : smap V :=
  fold_left (fun acc m => fold_left (fun a kv => union_insert vadd (fst kv) (snd kv) a) m acc) ms [].
Definition spec_merge {V} (veq : V -> V -> bool) (vadd : V -> V -> V) (ms : list (smap V)) (impl : smap V) : bool :=
  kvs_eqb veq impl (sm_union vadd ms) && ssorted (keys impl).
(* old ordinal -> new ordinal: the o-th key of input i sits at ordinal (omap i o) of the merged dictionary *)
Definition spec_ord_map {V} (ms : list (smap V)) (merged : list bytes) (omap : list (list N)) : bool :=
  Nat.eqb (length ms) (length omap) &&
  forallb (fun mo => Nat.eqb (length (fst mo)) (length (snd mo)) &&
                     forallb (fun kn => opt_eqb bytes_eqb (nth_error merged (N.to_nat (snd kn))) (Some (fst kn)))
                             (combine (keys (fst mo)) (snd mo)))
          (combine ms omap).

(* building must not silently accept a key sequence that is not strictly increasing *)
Definition spec_rejects (ks : list bytes) (impl_accepted : bool) : bool := ssorted ks || negb impl_accepted.

(* F11 (class of the OLD shape of the ordering assertion): the sequence starts with a duplicate of the empty key and the block cannot have been flushed
   in between (the first key occupies one byte: flushed iff 1 > block_len) *)
Definition f11_class (block_len : N) (ks : list bytes) : bool :=
  match ks with [] :: [] :: _ => N.leb 1 block_len | _ => false end.

(* ---------------------------------------------------------------- tie side *)
Definition tie_stream {V} (veq : V -> V -> bool) (vc : vcodec V) (table : list (bytes * bytes)) (file : bytes) (m : smap V) : bool :=
  okvs_eqb veq (stream_file vc (table_lookup table) file) m.

Definition with_dict {V} (bl : N) (m : smap V) (f : dict (V := V) -> N -> bool) : bool :=
  match build ORDER_FIXED bl m with Some (d, n) => f d n | None => false end.

Definition tie_probe {V} (veq : V -> V -> bool) (d : dict (V := V)) (p : probe V) : bool :=
  opt_eqb (opt_eqb veq) (get d (p_key p)) (Some (p_get p)) &&
  opt_eqb (opt_eqb N.eqb) (term_ord d (p_key p)) (Some (p_ord p)) &&
  opt_eqb hit_eqb (term_ord_or_next d (p_key p)) (Some (p_hit p)).

(* lookups + number of terms + first ordinal of every block + ordinal conversions *)
Definition tie_dict {V} (veq : V -> V -> bool) (bl : N) (m : smap V) (num : N) (first_ords : list N)
    (ps : list (probe V)) (os : list (N * option bytes * option V)) : bool :=
  with_dict bl m (fun d n =>
    N.eqb n num && list_eqb N.eqb (map (@rb_first_ord V) d) first_ords &&
    forallb (tie_probe veq d) ps &&
    forallb (fun o => opt_eqb (opt_eqb bytes_eqb) (ord_to_term d (fst (fst o))) (Some (snd (fst o))) &&
                      opt_eqb (opt_eqb veq) (value_from_ord d (fst (fst o))) (Some (snd o))) os).

(* impl = None: the implementation panicked *)
Definition tie_range {V} (veq : V -> V -> bool) (bl : N) (m : smap V) (lo hi : bound) (limit : option N)
    (impl : option (list (bytes * V))) : bool :=
  with_dict bl m (fun d _ => opt_eqb (kvs_eqb veq) (range RANGE_FIXED d lo hi limit) impl).
Definition tie_prefix {V} (veq : V -> V -> bool) (bl : N) (m : smap V) (p : bytes) (impl : option (list (bytes * V))) : bool :=
  with_dict bl m (fun d _ => opt_eqb (kvs_eqb veq) (prefix_range RANGE_FIXED d p) impl).

(* malformed streams: index of the insert that panics (None = everything accepted) *)
Definition tie_reject (bl : N) (ks : list bytes) (impl : option N) : bool :=
  opt_eqb N.eqb (first_reject ORDER_FIXED bl w_init (map (fun k => (k, tt)) ks) 0) impl.

(* F151 (class of the OLD shape of file_slice_for_range, range_fixed = false): a range whose upper key lies strictly below its lower key AND whose two keys are located in
   different blocks, the upper one first: Dictionary::file_slice_for_range then builds a byte range
   with end < start and FileSlice::slice asserts.  (Inverted ranges inside one block yield [].) *)
Definition f151_class {V} (bl : N) (m : smap V) (lo hi : bound) : bool :=
  range_inverted lo hi &&
  with_dict bl m (fun d _ => match slice_for_range false d lo hi None with SlicePanic => true | _ => false end).
