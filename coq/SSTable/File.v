(* C15 -- byte layout of the block section of an sstable file, decode direction.
   Transliterates BlockReader::read_block (/repo/sstable/src/block_reader.rs), DeltaReader::advance
   (delta.rs), Reader::advance (lib.rs) and the value codecs of /repo/sstable/src/value
   (void.rs, u64_monotonic.rs, range.rs).  zstd is external: `decompress` is a Section variable. *)
From TV Require Import Base.Prelude Generated.Constants SSTable.Spec SSTable.Delta.
Local Open Scope N_scope.

(* ------------------------------------------------------------------ value codecs *)
(* ValueReader::load returns the reader state and the unread rest; ValueReader::value(idx) *)
Record vcodec (V : Type) := {
  vc_enc : list V -> bytes;                                   (* ValueWriter::serialize_block *)
  vc_load : bytes -> option ((nat -> option V) * bytes)       (* None = would panic / error *)
}.
Arguments vc_enc {V}.
Arguments vc_load {V}.

Definition vc_ok {V} (vc : vcodec V) (valid : list V -> Prop) : Prop :=
  forall vs rest, valid vs ->
    exists getv, vc_load vc (vc_enc vc vs ++ rest) = Some (getv, rest) /\
                 forall i, (i < length vs)%nat -> getv i = nth_error vs i.

(* void.rs *)
Definition void_codec : vcodec unit :=
  {| vc_enc := fun _ => []; vc_load := fun b => Some (fun _ => Some tt, b) |}.

Lemma void_codec_ok : vc_ok void_codec (fun _ => True).
Proof.
  intros vs rest _. eexists. split; [reflexivity|]. intros i Hi. cbn beta.
  destruct (nth_error vs i) as [[]|] eqn:E; [reflexivity|]. apply nth_error_None in E. lia.
Qed.

(* u64_monotonic.rs: count, then deltas to the previous value (all vints) *)
Fixpoint u64_deltas (prev : N) (vs : list N) : bytes :=
  match vs with [] => [] | v :: r => vint (v - prev) ++ u64_deltas v r end.
Fixpoint u64_read (n : nat) (prev : N) (buf : bytes) : list N * bytes :=
  match n with
  | O => ([], buf)
  | S n' => let '(dl, r) := vint_de buf in let v := prev + dl in
            let '(vs, r') := u64_read n' v r in (v :: vs, r')
  end.
Definition u64_codec : vcodec N :=
  {| vc_enc := fun vs => vint (N.of_nat (length vs)) ++ u64_deltas 0 vs;
     vc_load := fun b => let '(n, r) := vint_de b in
                         let '(vs, r') := u64_read (N.to_nat n) 0 r in Some (nth_error vs, r') |}.

Fixpoint monotone_from (prev : N) (vs : list N) : Prop :=
  match vs with [] => True | v :: r => prev <= v /\ v < 2 ^ 64 /\ monotone_from v r end.

Lemma u64_read_deltas vs : forall prev rest, monotone_from prev vs ->
  u64_read (length vs) prev (u64_deltas prev vs ++ rest) = (vs, rest).
Proof.
  induction vs as [|v r IH]; intros prev rest Hm; cbn [length u64_deltas u64_read]; [reflexivity|].
  destruct Hm as (H1 & H2 & H3). rewrite <- app_assoc, vint_de_roundtrip by lia.
  replace (prev + (v - prev)) with v by lia. now rewrite IH.
Qed.

Lemma u64_codec_ok : vc_ok u64_codec (fun vs => monotone_from 0 vs /\ N.of_nat (length vs) < 2 ^ 64).
Proof.
  intros vs rest [Hm Hl]. exists (nth_error vs). split; [|reflexivity].
  cbn [u64_codec vc_enc vc_load]. rewrite <- app_assoc, vint_de_roundtrip by exact Hl.
  rewrite Nat2N.id, u64_read_deltas by exact Hm. reflexivity.
Qed.

(* range.rs: the boundaries start, end_0, end_1, ... as one monotone sequence; value i = [b_i, b_{i+1}) *)
Fixpoint range_bounds (vs : list (N * N)) : list N :=
  match vs with [] => [] | [(s, e)] => [s; e] | (s, _) :: r => s :: range_bounds r end.
Fixpoint pair_up (prev : N) (bs : list N) : list (N * N) :=
  match bs with [] => [] | b :: r => (prev, b) :: pair_up b r end.
Definition range_codec : vcodec (N * N) :=
  {| vc_enc := fun vs => let bs := range_bounds vs in vint (N.of_nat (length bs)) ++ u64_deltas 0 bs;
     vc_load := fun b => let '(n, r) := vint_de b in
                         let '(bs, r') := u64_read (N.to_nat n) 0 r in
                         Some (nth_error (match bs with [] => [] | b0 :: t => pair_up b0 t end), r') |}.

(* ------------------------------------------------------------------ frames *)
Section Frames.
  Variable decompress : bytes -> option bytes.      (* zstd::bulk::Decompressor *)

  (* BlockReader::read_block, repeated: u32 length (0 or 1 = end marker), compression flag, body *)
  Fixpoint read_frames (fuel : nat) (buf : bytes) : option (list bytes) :=
    match fuel with
    | O => None
    | S f =>
        match buf with
        | [] => Some []
        | _ =>
            if Nat.ltb (length buf) 4 then None            (* "failed to read block_len" *)
            else
              let n := le_value (firstn 4 buf) in
              if N.leb n 1 then Some []
              else match skipn 4 buf with
                   | [] => None                            (* read_u8 on an empty slice *)
                   | c :: r =>
                       let n' := N.to_nat (n - 1) in
                       if Nat.ltb (length r) n' then None  (* "failed to read block content" *)
                       else match (if N.eqb c 1 then decompress (firstn n' r) else Some (firstn n' r)) with
                            | None => None
                            | Some body => option_map (cons body) (read_frames f (skipn n' r))
                            end
                   end
        end
    end.

  (* DeltaWriter::flush_block, uncompressed and compressed form *)
  Definition frame_plain (body : bytes) : bytes := le_bytes 4 (N.of_nat (length body) + 1) ++ [0] ++ body.
  Definition frame_zstd (cbody : bytes) : bytes := le_bytes 4 (N.of_nat (length cbody) + 1) ++ [1] ++ cbody.
  Definition end_marker : bytes := [0; 0; 0; 0].
End Frames.

Fixpoint zip_vals {V} (ks : list bytes) (getv : nat -> option V) (i : nat) : option (list (bytes * V)) :=
  match ks with
  | [] => Some []
  | k :: r => match getv i, zip_vals r getv (S i) with Some v, Some t => Some ((k, v) :: t) | _, _ => None end
  end.

(* one block body: values, then the front-coded keys *)
Definition stream_block {V} (vc : vcodec V) (body : bytes) : option (list (bytes * V)) :=
  match vc_load vc body with
  | None => None
  | Some (getv, rest) =>
      match parse_block_keys rest with
      | None => None
      | Some es => zip_vals (decode_entries [] es) getv 0
      end
  end.

Definition block_body {V} (vc : vcodec V) (kvs : list (bytes * V)) : bytes :=
  vc_enc vc (map snd kvs) ++ encode_block_keys (map fst kvs).

Fixpoint stream_blocks {V} (vc : vcodec V) (bodies : list bytes) : option (list (bytes * V)) :=
  match bodies with
  | [] => Some []
  | b :: r => match stream_block vc b, stream_blocks vc r with Some a, Some t => Some (a ++ t) | _, _ => None end
  end.

(* SSTable::reader over the block section of a file (everything before the index) *)
Definition stream_file {V} (vc : vcodec V) (decompress : bytes -> option bytes) (file : bytes) : option (list (bytes * V)) :=
  match read_frames decompress (S (length file)) file with
  | None => None
  | Some bodies => stream_blocks vc bodies
  end.

(* lookup table for the decompression oracle shipped with a case *)
Fixpoint table_lookup (t : list (bytes * bytes)) (c : bytes) : option bytes :=
  match t with [] => None | (k, v) :: r => if list_eqb N.eqb k c then Some v else table_lookup r c end.

Definition kv_eqb {V} (veq : V -> V -> bool) (a b : bytes * V) : bool := list_eqb N.eqb (fst a) (fst b) && veq (snd a) (snd b).
Definition okvs_eqb {V} (veq : V -> V -> bool) (a : option (list (bytes * V))) (b : list (bytes * V)) : bool :=
  match a with Some l => list_eqb (kv_eqb veq) l b | None => false end.

(* ------------------------------------------------------------------ round trips *)
Lemma zip_vals_nth {V} (ks : list bytes) (vs : list V) (getv : nat -> option V) : forall i pre,
  length ks = length vs -> length pre = i ->
  (forall j, (j < length (pre ++ vs))%nat -> getv j = nth_error (pre ++ vs) j) ->
  zip_vals ks getv i = Some (combine ks vs).
Proof.
  revert vs; induction ks as [|k r IH]; intros [|v vs] i pre Hl Hp Hg; cbn [length] in Hl; try lia; cbn [zip_vals combine]; [reflexivity|].
  rewrite Hg by (rewrite app_length; cbn [length]; lia).
  rewrite nth_error_app2 by lia. replace (i - length pre)%nat with 0%nat by lia. cbn [nth_error].
  rewrite (IH vs (S i) (pre ++ [v])); [reflexivity|lia|rewrite app_length; cbn [length]; lia|].
  intros j Hj. rewrite <- app_assoc. cbn [app]. apply Hg. rewrite <- app_assoc in Hj. exact Hj.
Qed.

Lemma stream_block_body {V} (vc : vcodec V) valid (kvs : list (bytes * V)) :
  vc_ok vc valid -> valid (map snd kvs) -> ssorted (map fst kvs) = true -> Forall key_len_ok (map fst kvs) ->
  stream_block vc (block_body vc kvs) = Some kvs.
Proof.
  intros Hvc Hv Hs Hl. unfold stream_block, block_body.
  destruct (Hvc (map snd kvs) (encode_block_keys (map fst kvs)) Hv) as (getv & -> & Hg).
  unfold encode_block_keys. rewrite parse_block_keys_roundtrip by (now apply encode_entries_ok).
  rewrite decode_encode_entries.
  rewrite (zip_vals_nth (map fst kvs) (map snd kvs) getv 0 []); [|now rewrite !map_length|reflexivity|exact Hg].
  f_equal. clear. induction kvs as [|[k v] r IH]; cbn [map combine fst snd]; [reflexivity|now rewrite IH].
Qed.

Lemma read_frames_plain decompress bodies : forall fuel,
  Forall (fun b => b <> [] /\ N.of_nat (length b) + 1 < 2 ^ 32) bodies ->
  (length (concat (map frame_plain bodies) ++ end_marker) < fuel)%nat ->
  read_frames decompress fuel (concat (map frame_plain bodies) ++ end_marker) = Some bodies.
Proof.
  induction bodies as [|b r IH]; intros fuel Hok Hf.
  - destruct fuel; [cbn in Hf; lia|]. reflexivity.
  - inversion Hok as [|? ? [Hne Hb] Hr]; subst. destruct fuel as [|f]; [lia|].
    cbn [map concat] in *. unfold frame_plain at 1. unfold frame_plain at 1 in Hf.
    rewrite <- !app_assoc in *. rewrite !app_length, le_bytes_length in Hf. cbn [length app] in Hf.
    cbn [read_frames].
    destruct (le_bytes 4 (N.of_nat (length b) + 1) ++ [0] ++ b ++ concat (map frame_plain r) ++ end_marker) eqn:E.
    { apply (f_equal (@length N)) in E. rewrite app_length, le_bytes_length in E. cbn in E. lia. }
    rewrite <- E. clear E.
    replace (Nat.ltb _ 4) with false by (symmetry; apply Nat.ltb_ge; rewrite app_length, le_bytes_length; lia).
    assert (F1 : forall t, firstn 4 (le_bytes 4 (N.of_nat (length b) + 1) ++ t) = le_bytes 4 (N.of_nat (length b) + 1))
      by (intros t; rewrite <- (le_bytes_length 4 (N.of_nat (length b) + 1)) at 1; apply firstn_app_exact).
    assert (F2 : forall t, skipn 4 (le_bytes 4 (N.of_nat (length b) + 1) ++ t) = t)
      by (intros t; rewrite <- (le_bytes_length 4 (N.of_nat (length b) + 1)) at 1; apply skipn_app_exact).
    rewrite F1, F2, le_value_bytes by (change (256 ^ N.of_nat 4) with (2 ^ 32); exact Hb).
    replace (N.of_nat (length b) + 1 <=? 1) with false by (symmetry; apply N.leb_gt; destruct b; [congruence|cbn [length]; lia]).
    cbn [app]. replace (N.to_nat (N.of_nat (length b) + 1 - 1)) with (length b) by lia.
    replace (Nat.ltb _ (length b)) with false by (symmetry; apply Nat.ltb_ge; rewrite app_length; lia).
    cbn [N.eqb]. rewrite firstn_app_exact, skipn_app_exact.
    change (0 =? 1) with false. cbv iota. rewrite IH; [reflexivity|exact Hr|]. rewrite app_length. lia.
Qed.
