(* C15 -- the dictionary built by the writer model behaves as the sorted map of the inserted pairs:
   block index separators, full stream, ordinal-or-successor search, term_ord, get. *)
From TV Require Import Base.Prelude Generated.Constants SSTable.Spec SSTable.Delta SSTable.Scan SSTable.Writer SSTable.WriterProofs SSTable.Dict.
Local Open Scope N_scope.

(* ------------------------------------------------------------------ small list facts *)
Lemma nth_error_map' {A B} (f : A -> B) l n : nth_error (map f l) n = option_map f (nth_error l n).
Proof. revert n; induction l as [|a l IH]; intros [|n]; cbn [map nth_error option_map]; auto. Qed.

Lemma encode_entries_length ks : forall p, length (encode_entries p ks) = length ks.
Proof. induction ks as [|k ks IH]; intros p; cbn [encode_entries length]; [reflexivity|now rewrite IH]. Qed.

Lemma combine_fst_snd {A B} (l : list (A * B)) : combine (map fst l) (map snd l) = l.
Proof. induction l as [|[a b] l IH]; cbn [map combine fst snd]; [reflexivity|now rewrite IH]. Qed.

Lemma ssorted_app_lt l1 l2 : ssorted (l1 ++ l2) = true -> forall a b, In a l1 -> In b l2 -> blt a b = true.
Proof.
  induction l1 as [|x l1 IH]; intros Hs a b Ha Hb; [destruct Ha|].
  cbn [app] in Hs. destruct Ha as [->|Ha].
  - pose proof (ssorted_all_gt _ _ Hs) as Hall. rewrite Forall_forall in Hall. apply Hall. apply in_or_app. now right.
  - apply IH; [now apply ssorted_cons in Hs|exact Ha|exact Hb].
Qed.

Lemma last_in {A} (l : list A) d : l <> [] -> In (last l d) l.
Proof. induction l as [|a [|b l] IH]; intros H; [congruence|now left|]. right. apply IH. discriminate. Qed.

Lemma ssorted_last_ge l k : ssorted l = true -> In k l -> ble k (last l []) = true.
Proof.
  induction l as [|a l IH]; intros Hs Hk; [destruct Hk|].
  destruct l as [|b l]; [destruct Hk as [->|[]]; apply ble_refl|].
  change (last (a :: b :: l) []) with (last (b :: l) []). destruct Hk as [->|Hk].
  - pose proof (ssorted_all_gt _ _ Hs) as Hall. rewrite Forall_forall in Hall.
    apply blt_ble. apply Hall. apply last_in. discriminate.
  - apply IH; [now apply ssorted_cons in Hs|exact Hk].
Qed.

(* ------------------------------------------------------------------ scan_spec / sm_get over concatenations *)
Lemma scan_spec_app_lt key l1 : forall ord l2, Forall (fun k => blt k key = true) l1 ->
  scan_spec key ord (l1 ++ l2) = scan_spec key (ord + N.of_nat (length l1)) l2.
Proof.
  induction l1 as [|a l1 IH]; intros ord l2 H; cbn [app length scan_spec]; [f_equal; lia|].
  inversion H as [|? ? Ha Hr]; subst. unfold blt in Ha. destruct (bcmp a key); try discriminate.
  rewrite IH by exact Hr. f_equal. lia.
Qed.

Lemma scan_spec_app_gt key l1 : forall ord l2, Forall (fun k => blt key k = true) l2 ->
  scan_spec key ord (l1 ++ l2) = scan_spec key ord l1.
Proof.
  induction l1 as [|a l1 IH]; intros ord l2 H; cbn [app scan_spec].
  - destruct l2 as [|b l2]; [reflexivity|]. inversion H as [|? ? Hb _]; subst. cbn [scan_spec].
    rewrite bcmp_opp. unfold blt in Hb. destruct (bcmp key b); try discriminate. reflexivity.
  - destruct (bcmp a key); [reflexivity|now apply IH|reflexivity].
Qed.

Lemma scan_spec_shift key ks : forall ord, scan_spec key ord ks = shift_hit ord (scan_spec key 0 ks).
Proof.
  induction ks as [|a ks IH]; intros ord; cbn [scan_spec shift_hit]; [f_equal; lia|].
  destruct (bcmp a key); cbn [shift_hit]; try (f_equal; lia).
  rewrite (IH (ord + 1)), (IH (0 + 1)). destruct (scan_spec key 0 ks); cbn [shift_hit]; f_equal; lia.
Qed.

Section GetFacts.
  Context {V : Type}.
  Lemma sm_get_app (m1 m2 : smap V) k : sm_get (m1 ++ m2) k = match sm_get m1 k with Some v => Some v | None => sm_get m2 k end.
  Proof. induction m1 as [|[k' v] m1 IH]; cbn [app sm_get]; [reflexivity|]. destruct (beq k' k); [reflexivity|exact IH]. Qed.

  Lemma sm_get_none_lt (m : smap V) k : Forall (fun x => blt x k = true) (keys m) -> sm_get m k = None.
  Proof.
    induction m as [|[k' v] m IH]; cbn [keys map fst sm_get]; [reflexivity|]. intros H. inversion H as [|? ? Ha Hr]; subst.
    unfold beq. unfold blt in Ha. destruct (bcmp k' k); try discriminate. now apply IH.
  Qed.

  Lemma sm_get_none_gt (m : smap V) k : Forall (fun x => blt k x = true) (keys m) -> sm_get m k = None.
  Proof.
    induction m as [|[k' v] m IH]; cbn [keys map fst sm_get]; [reflexivity|]. intros H. inversion H as [|? ? Ha Hr]; subst.
    unfold beq. rewrite bcmp_opp. unfold blt in Ha. destruct (bcmp k k'); try discriminate. now apply IH.
  Qed.

  Lemma ord_from_bound ks k : forall i j, ord_from ks k i = Some j -> i <= j /\ j < i + N.of_nat (length ks).
  Proof.
    induction ks as [|a ks IH]; intros i j; cbn [ord_from length]; [discriminate|].
    destruct (beq a k); [intros E; injection E as <-; lia|]. intros H. apply IH in H. lia.
  Qed.
End GetFacts.

Section Proofs.
  Context {V : Type}.
  Variable order_fixed range_fixed : bool.
  Variable block_len : N.
  Notation rblock := (rblock V).
  Notation build := (build order_fixed block_len).
  Notation stream_all := (stream_all range_fixed).

  (* flushed blocks in file order against the groups of pairs they hold.  This is also the block-index
     invariant: last key of block i <= separator i < first key of block i+1. *)
  Fixpoint dict_rel (ord : N) (d : list rblock) (Bs : list (smap V)) : Prop :=
    match d, Bs with
    | [], [] => True
    | rb :: d', B :: Bs' =>
        B <> [] /\ rb_first_ord rb = ord /\ rb_keys rb = encode_block_keys (keys B) /\ rb_vals rb = map snd B /\
        ble (last (keys B) []) (rb_sep rb) = true /\
        match Bs' with [] => True | B' :: _ => blt (rb_sep rb) (hd [] (keys B')) = true end /\
        dict_rel (ord + N.of_nat (length B)) d' Bs'
    | _, _ => False
    end.

  Lemma rdone_to_dict rd : forall rBs nxt e d' Bs',
    rdone_rel rd rBs nxt e -> dict_rel e d' Bs' ->
    match Bs' with [] => True | B' :: _ => nxt = Some (hd [] (keys B')) end ->
    dict_rel 0 (rev rd ++ d') (rev rBs ++ Bs').
  Proof.
    induction rd as [|rb rd IH]; intros [|B rBs] nxt e d' Bs' Hr Hd Hl; cbn [rdone_rel] in Hr; try tauto.
    - subst e. exact Hd.
    - destruct Hr as (H1 & H2 & H3 & H4 & H5 & H6 & H7). cbn [rev]. rewrite <- !app_assoc. cbn [app].
      apply (IH rBs (Some (hd [] (keys B))) (rb_first_ord rb)); [exact H7| |reflexivity].
      cbn [dict_rel]. repeat split; try assumption.
      + destruct Bs' as [|B' Bs']; [exact I|]. subst nxt. exact H6.
      + rewrite <- H4. exact Hd.
  Qed.

  Lemma encode_block_keys_nil_iff (C : smap V) : encode_block_keys (keys C) = [] <-> C = [].
  Proof.
    split; [|intros ->; reflexivity]. destruct C as [|c C]; [reflexivity|]. unfold encode_block_keys. cbn [keys map encode_entries entries_bytes concat].
    intros E. pose proof (entry_bytes_length (lcp [] (fst c), skipn (lcp [] (fst c)) (fst c))) as L.
    apply (f_equal (@length N)) in E. rewrite app_length in E. cbn [length] in E. lia.
  Qed.

  (* the dictionary of strictly increasing pairs: never a panic, the right number of terms, and
     blocks that partition the pairs in order with separators in between *)
  Theorem build_dict_rel kvs : ssorted (keys kvs) = true ->
    exists d Bs, build kvs = Some (d, N.of_nat (length kvs)) /\ concat Bs = kvs /\ dict_rel 0 d Bs.
  Proof.
    intros Hs. destruct (build_sorted_ok order_fixed block_len kvs Hs) as (st & Hrun & rBs & C & HD & Hblk & Hvals & Hprev & Hnum & Hfo & Hrel).
    unfold Writer.build. rewrite Hrun. unfold finish. destruct (w_block st) as [|b0 bl] eqn:Eb.
    - assert (C = []) by (apply encode_block_keys_nil_iff; now rewrite <- Hblk). subst C. rewrite app_nil_r in HD.
      exists (rev (w_done st)), (rev rBs). rewrite Hnum. split; [reflexivity|]. split; [now rewrite HD|].
      pose proof (rdone_to_dict (w_done st) rBs _ _ [] [] Hrel I I) as H. now rewrite !app_nil_r in H.
    - assert (HC : C <> []) by (intros ->; cbn in Hblk; congruence).
      exists (rev (w_done (flush st false))), (rev (C :: rBs)). unfold flush. cbn [w_done w_num_terms].
      rewrite Hnum. split; [reflexivity|]. split; [cbn [rev]; rewrite concat_app; cbn [concat]; now rewrite app_nil_r, HD|].
      set (rb := {| rb_sep := w_prev st; rb_first_ord := w_first_ord st; rb_keys := w_block st; rb_vals := w_vals st |}).
      assert (Hr' : rdone_rel (rb :: w_done st) (C :: rBs) None (N.of_nat (length kvs))).
      { cbn [rdone_rel]. unfold rb. cbv [rb_sep rb_first_ord rb_keys rb_vals].
        split; [exact HC|]. split; [rewrite Eb; exact Hblk|]. split; [exact Hvals|].
        split; [rewrite HD, Hfo, app_length; lia|]. split; [rewrite Hprev; apply ble_refl|]. split; [exact Hprev|].
        replace (Some (hd [] (keys C))) with (hd_error (keys C)); [exact Hrel|]. destruct C; [congruence|reflexivity]. }
      pose proof (rdone_to_dict _ _ _ _ [] [] Hr' I I) as H. rewrite !app_nil_r in H. exact H.
  Qed.

  (* ---------------------------------------------------------------- reading *)
  Definition keys_ok (kvs : smap V) : Prop := ssorted (keys kvs) = true /\ Forall key_len_ok (keys kvs).

  Lemma keys_ok_app (a b : smap V) : keys_ok (a ++ b) -> keys_ok a /\ keys_ok b.
  Proof.
    unfold keys_ok, keys. rewrite map_app. intros [Hs Hl]. apply ssorted_app_inv in Hs. apply Forall_app in Hl. tauto.
  Qed.

  Lemma block_entries_rel (rb : rblock) (B : smap V) : rb_keys rb = encode_block_keys (keys B) -> keys_ok B ->
    block_entries rb = Some (encode_entries [] (keys B)).
  Proof. intros Hk [Hs Hl]. unfold block_entries. rewrite Hk. apply parse_block_keys_roundtrip. now apply encode_entries_ok. Qed.

  Lemma block_kvs_rel (rb : rblock) (B : smap V) : rb_keys rb = encode_block_keys (keys B) -> rb_vals rb = map snd B -> keys_ok B ->
    block_kvs rb = Some B.
  Proof.
    intros Hk Hv Hok. unfold block_kvs. rewrite (block_entries_rel rb B Hk Hok), Hv, decode_encode_entries.
    replace (length (encode_entries [] (keys B))) with (length (map snd B)).
    - rewrite Nat.eqb_refl. unfold keys. now rewrite combine_fst_snd.
    - rewrite encode_entries_length. unfold keys. now rewrite !map_length.
  Qed.

  Lemma blocks_kvs_rel d : forall ord Bs, dict_rel ord d Bs -> keys_ok (concat Bs) -> blocks_kvs d = Some (concat Bs).
  Proof.
    induction d as [|rb d IH]; intros ord [|B Bs] Hr Hok; cbn [dict_rel] in Hr; try tauto.
    destruct Hr as (H1 & H2 & H3 & H4 & H5 & H6 & H7). cbn [concat] in *. destruct (keys_ok_app _ _ Hok) as [Ha Hb].
    cbn [blocks_kvs]. now rewrite (block_kvs_rel rb B H3 H4 Ha), (IH _ _ H7 Hb).
  Qed.

  Lemma stream_loop_unbounded (l : smap V) : stream_loop Unbounded Unbounded l = l.
  Proof. induction l as [|a l IH]; cbn [stream_loop above below]; [reflexivity|now rewrite IH]. Qed.

  (* C15_roundtrip: streaming everything returns exactly the inserted pairs, across any block flushes *)
  Theorem stream_build kvs : keys_ok kvs ->
    exists d, build kvs = Some (d, N.of_nat (length kvs)) /\ stream_all d = Some kvs.
  Proof.
    intros Hok. destruct (build_dict_rel kvs (proj1 Hok)) as (d & Bs & Hb & Hc & Hr). exists d. split; [exact Hb|].
    unfold Dict.stream_all, range, slice_for_range. cbn [bound_key Nat.ltb Nat.leb]. cbn [skipn].
    rewrite <- Hc in Hok. rewrite (blocks_kvs_rel d 0 Bs Hr Hok). cbn [option_map]. now rewrite stream_loop_unbounded, Hc.
  Qed.

  (* ---- lookups ---- *)
  Fixpoint find_block (d : list rblock) (key : bytes) : option rblock :=
    match d with [] => None | rb :: r => if ble key (rb_sep rb) then Some rb else find_block r key end.

  Lemma first_ge_find d key : forall i,
    match first_ge d key i with
    | Some j => (i <= j)%nat /\ nth_error d (j - i) = find_block d key
    | None => find_block d key = None
    end.
  Proof.
    induction d as [|rb d IH]; intros i; cbn [first_ge find_block]; [reflexivity|].
    destruct (ble key (rb_sep rb)); [split; [lia|]; now rewrite Nat.sub_diag|].
    specialize (IH (S i)). destruct (first_ge d key (S i)); [|exact IH]. destruct IH as [Hle IH]. split; [lia|].
    replace (n - i)%nat with (S (n - S i)) by lia. exact IH.
  Qed.

  Definition lookup_block (d : list rblock) (key : bytes) : option rblock :=
    match locate_with_key d key with Some i => get_block d i | None => None end.

  Lemma lookup_block_find d key : (2 <= length d)%nat -> lookup_block d key = find_block d key.
  Proof.
    intros Hl. unfold lookup_block, locate_with_key, get_block. destruct d as [|a [|b d]]; cbn [length] in Hl; try lia.
    pose proof (first_ge_find (a :: b :: d) key 0) as H. destruct (first_ge (a :: b :: d) key 0); [|now rewrite H].
    destruct H as [_ H]. now rewrite Nat.sub_0_r in H.
  Qed.

  Lemma all_lt_of_last (B : smap V) key : ssorted (keys B) = true -> blt (last (keys B) []) key = true ->
    Forall (fun k => blt k key = true) (keys B).
  Proof.
    intros Hs Hl. apply Forall_forall. intros k Hk. apply ble_blt_trans with (last (keys B) []); [|exact Hl].
    now apply ssorted_last_ge.
  Qed.

  Lemma all_gt_of_first (ks : list bytes) key : ssorted ks = true -> ks <> [] -> blt key (hd [] ks) = true ->
    Forall (fun k => blt key k = true) ks.
  Proof.
    destruct ks as [|a r]; [congruence|]. cbn [hd]. intros Hs _ Ha. constructor; [exact Ha|].
    pose proof (ssorted_all_gt _ _ Hs) as Hall. eapply Forall_impl; [|exact Hall]. intros k Hk. now apply blt_trans with a.
  Qed.

  Lemma dict_rel_first_nonempty ord d B Bs : dict_rel ord d (B :: Bs) -> keys (concat (B :: Bs)) <> [] /\ hd [] (keys (concat (B :: Bs))) = hd [] (keys B).
  Proof.
    destruct d as [|rb d]; cbn [dict_rel]; [tauto|]. intros (H1 & _). destruct B as [|b B]; [congruence|]. cbn. split; [discriminate|reflexivity].
  Qed.

  Definition block_hit (rb : rblock) (key : bytes) : option hit :=
    option_map (fun es => shift_hit (rb_first_ord rb) (scan key 0 0 es)) (block_entries rb).
  Definition block_get (rb : rblock) (key : bytes) : option (option V) :=
    match block_entries rb with
    | None => None
    | Some es => match into_exact (scan key 0 0 es) with
                 | None => Some None
                 | Some o => match nth_error (rb_vals rb) (N.to_nat o) with Some v => Some (Some v) | None => None end
                 end
    end.

  Lemma block_get_rel (rb : rblock) (B : smap V) key :
    rb_keys rb = encode_block_keys (keys B) -> rb_vals rb = map snd B -> keys_ok B -> block_get rb key = Some (sm_get B key).
  Proof.
    intros Hk Hv Hok. unfold block_get. rewrite (block_entries_rel rb B Hk Hok), (block_scan_correct _ _ (proj1 Hok)), Hv.
    rewrite sm_get_ord. unfold sm_ord_or_next, sm_ord. destruct (ord_from (keys B) key 0) as [o|] eqn:Eo; cbn [into_exact]; [|reflexivity].
    rewrite nth_error_map'. apply ord_from_bound in Eo. unfold keys in Eo. rewrite map_length in Eo.
    destruct (nth_error B (N.to_nat o)) eqn:En; [reflexivity|]. apply nth_error_None in En. lia.
  Qed.

  (* the block that the index designates answers for the whole dictionary *)
  Lemma find_block_rel key d : forall ord Bs, dict_rel ord d Bs -> keys_ok (concat Bs) ->
    match find_block d key with
    | Some rb => block_hit rb key = Some (scan_spec key ord (keys (concat Bs))) /\ block_get rb key = Some (sm_get (concat Bs) key)
    | None => Forall (fun k => blt k key = true) (keys (concat Bs))
    end.
  Proof.
    induction d as [|rb d IH]; intros ord [|B Bs] Hr Hok; cbn [dict_rel] in Hr; try tauto; [constructor|].
    destruct Hr as (H1 & H2 & H3 & H4 & H5 & H6 & H7). cbn [concat find_block] in *.
    destruct (keys_ok_app _ _ Hok) as [Ha Hb]. unfold keys. rewrite map_app. fold (keys B) (keys (concat Bs)).
    destruct (ble key (rb_sep rb)) eqn:Ek.
    - (* every later key is above the separator, hence above key *)
      assert (Hgt : Forall (fun k => blt key k = true) (keys (concat Bs))).
      { destruct Bs as [|B' Bs']; [constructor|]. destruct d as [|rb' d']; [cbn [dict_rel] in H7; tauto|].
        destruct (dict_rel_first_nonempty _ _ _ _ H7) as [Hne Hhd].
        apply all_gt_of_first; [exact (proj1 Hb)|exact Hne|]. rewrite Hhd. now apply ble_blt_trans with (rb_sep rb). }
      split.
      + unfold block_hit. rewrite (block_entries_rel rb B H3 Ha). cbn [option_map]. rewrite (block_scan_correct _ _ (proj1 Ha)).
        rewrite <- (scan_spec_is_ord_or_next _ _ (proj1 Ha)), H2, <- scan_spec_shift. f_equal. symmetry. now apply scan_spec_app_gt.
      + rewrite (block_get_rel rb B key H3 H4 Ha), sm_get_app, (sm_get_none_gt (concat Bs) key Hgt). now destruct (sm_get B key).
    - (* key is above the separator, hence above the whole block *)
      assert (Hlt : Forall (fun k => blt k key = true) (keys B)).
      { apply all_lt_of_last; [exact (proj1 Ha)|]. apply ble_blt_trans with (rb_sep rb); [exact H5|]. now rewrite blt_nble, Ek. }
      specialize (IH _ _ H7 Hb). destruct (find_block d key).
      + destruct IH as [I1 I2]. split.
        * rewrite I1. f_equal. rewrite scan_spec_app_lt by exact Hlt. unfold keys. now rewrite map_length.
        * rewrite I2, sm_get_app, (sm_get_none_lt B key Hlt). reflexivity.
      + apply Forall_app. split; assumption.
  Qed.

  Lemma term_ord_or_next_unfold (d : list rblock) key : term_ord_or_next d key =
    match lookup_block d key with Some rb => block_hit rb key | None => Some (Next U64_MAX) end.
  Proof. unfold term_ord_or_next, lookup_block, block_hit. destruct (locate_with_key d key); [|reflexivity]. now destruct (get_block d n). Qed.

  Lemma get_unfold (d : list rblock) key : get d key = match lookup_block d key with Some rb => block_get rb key | None => Some None end.
  Proof. unfold get, lookup_block, block_get. destruct (locate_with_key d key); [|reflexivity]. now destruct (get_block d n). Qed.

  Lemma term_ord_unfold (d : list rblock) key : term_ord d key = option_map into_exact (term_ord_or_next d key).
  Proof.
    unfold term_ord, term_ord_or_next. destruct (locate_with_key d key); [|reflexivity]. destruct (get_block d n); [|reflexivity].
    destruct (block_entries r); cbn [option_map]; [|reflexivity]. f_equal. destruct (scan key 0 0 l); reflexivity.
  Qed.

  Lemma all_lt_ord_or_next ks key : Forall (fun k => blt k key = true) ks -> ssorted ks = true ->
    sm_ord_or_next ks key = Next (N.of_nat (length ks)).
  Proof.
    intros H Hs. rewrite <- scan_spec_is_ord_or_next by exact Hs. rewrite <- (app_nil_r ks) at 1.
    rewrite scan_spec_app_lt by exact H. reflexivity.
  Qed.

  (* C15_lookups *)
  Theorem lookups_build kvs key : keys_ok kvs ->
    exists d, build kvs = Some (d, N.of_nat (length kvs)) /\
      get d key = Some (sm_get kvs key) /\
      (exists h, term_ord_or_next d key = Some h /\
                 (h = sm_ord_or_next (keys kvs) key \/
                  (h = Next U64_MAX /\ sm_ord_or_next (keys kvs) key = Next (N.of_nat (length kvs))))) /\
      term_ord d key = Some (sm_ord (keys kvs) key).
  Proof.
    intros Hok. destruct (build_dict_rel kvs (proj1 Hok)) as (d & Bs & Hb & Hc & Hr). exists d. split; [exact Hb|].
    rewrite <- Hc in Hok.
    assert (Hmain : match lookup_block d key with
                    | Some rb => block_hit rb key = Some (sm_ord_or_next (keys kvs) key) /\ block_get rb key = Some (sm_get kvs key)
                    | None => (2 <= length d)%nat /\ Forall (fun k => blt k key = true) (keys kvs)
                    end).
    { destruct d as [|rb [|rb2 d]].
      - (* no block at all: the pseudo block of the empty index *)
        destruct Bs; [|cbn [dict_rel] in Hr; tauto]. cbn in Hc. subst kvs. cbn. split; reflexivity.
      - (* a single block: no index, the block answers for everything *)
        unfold lookup_block, locate_with_key, get_block. cbn [nth_error].
        pose proof (find_block_rel key [rb] 0 Bs Hr Hok) as H. cbn [find_block] in H.
        destruct Bs as [|B [|B2 Bs]]; cbn [dict_rel] in Hr; try tauto.
        destruct Hr as (H1 & H2 & H3 & H4 & H5 & _ & _). cbn [concat] in *. rewrite app_nil_r in *. subst B.
        split.
        + unfold block_hit. rewrite (block_entries_rel rb kvs H3 Hok). cbn [option_map]. rewrite (block_scan_correct _ _ (proj1 Hok)), H2.
          destruct (sm_ord_or_next (keys kvs) key); cbn [shift_hit]; do 2 f_equal; lia.
        + now apply block_get_rel.
      - rewrite lookup_block_find by (cbn [length]; lia).
        pose proof (find_block_rel key _ 0 Bs Hr Hok) as H. rewrite Hc in H.
        destruct (find_block (rb :: rb2 :: d) key).
        + destruct H as [Ha Hg]. split; [|exact Hg]. rewrite Ha. f_equal. apply scan_spec_is_ord_or_next. rewrite <- Hc. exact (proj1 Hok).
        + split; [cbn [length]; lia|exact H]. }
    rewrite Hc in Hok.
    assert (Hhit : exists h, term_ord_or_next d key = Some h /\
                 (h = sm_ord_or_next (keys kvs) key \/
                  (h = Next U64_MAX /\ sm_ord_or_next (keys kvs) key = Next (N.of_nat (length kvs))))).
    { rewrite term_ord_or_next_unfold. destruct (lookup_block d key).
      - exists (sm_ord_or_next (keys kvs) key). split; [exact (proj1 Hmain)|now left].
      - exists (Next U64_MAX). split; [reflexivity|right]. split; [reflexivity|].
        rewrite (all_lt_ord_or_next _ _ (proj2 Hmain) (proj1 Hok)). unfold keys. now rewrite map_length. }
    split; [|split; [exact Hhit|]].
    - rewrite get_unfold. destruct (lookup_block d key); [exact (proj2 Hmain)|].
      now rewrite (sm_get_none_lt kvs key (proj2 Hmain)).
    - rewrite term_ord_unfold. destruct Hhit as (h & -> & [->|[-> Hn]]); cbn [option_map]; f_equal.
      + unfold sm_ord_or_next. now destruct (sm_ord (keys kvs) key).
      + unfold sm_ord_or_next in Hn. destruct (sm_ord (keys kvs) key); [discriminate|reflexivity].
  Qed.

  (* ---- ranges: what the streamer does with the bounds, over the pairs of the blocks it was given ---- *)
  Lemma stream_loop_all_above (hi : bound) (l : smap V) : ssorted (keys l) = true ->
    stream_loop Unbounded hi l = filter (fun kv => below hi (fst kv)) l.
  Proof.
    induction l as [|a l IH]; intros Hs; cbn [stream_loop above filter]; [reflexivity|].
    cbn [keys map] in Hs. destruct (below hi (fst a)) eqn:Eb; [now rewrite IH by (now apply ssorted_cons in Hs)|].
    (* once a key is beyond the upper bound, so is every later key *)
    symmetry. pose proof (ssorted_all_gt _ _ Hs) as Hall. clear IH Hs.
    induction l as [|b l IH]; [reflexivity|]. cbn [filter]. inversion Hall as [|? ? Hb Hr]; subst.
    replace (below hi (fst b)) with false; [now apply IH|]. symmetry.
    destruct hi as [|h|h]; cbn [below] in *; [discriminate| |].
    - rewrite ble_nblt in Eb. apply negb_false_iff in Eb. rewrite ble_nblt. apply negb_false_iff. now apply blt_trans with (fst a).
    - rewrite blt_nble in Eb. apply negb_false_iff in Eb. rewrite blt_nble. apply negb_false_iff. apply blt_ble. now apply ble_blt_trans with (fst a).
  Qed.

  Theorem stream_loop_is_range (lo hi : bound) (l : smap V) : ssorted (keys l) = true ->
    stream_loop lo hi l = sm_range lo hi l.
  Proof.
    unfold sm_range. induction l as [|a l IH]; intros Hs; cbn [stream_loop filter]; [reflexivity|].
    cbn [keys map] in Hs. pose proof (ssorted_cons _ _ Hs) as Hs'. destruct (above lo (fst a)) eqn:Ea; cbn [andb].
    - (* the lower bound is passed: it stays passed *)
      assert (Hall : forall kv, In kv l -> above lo (fst kv) = true).
      { intros kv Hin. pose proof (ssorted_all_gt _ _ Hs) as Hg. rewrite Forall_forall in Hg.
        assert (Hlt : blt (fst a) (fst kv) = true) by (apply Hg; now apply in_map).
        destruct lo as [|b|b]; cbn [above] in *; [reflexivity| |].
        - apply blt_ble. now apply ble_blt_trans with (fst a).
        - now apply blt_trans with (fst a). }
      assert (Hf : filter (fun kv => above lo (fst kv) && below hi (fst kv)) l = filter (fun kv => below hi (fst kv)) l).
      { apply filter_ext_in. intros kv Hin. now rewrite Hall. }
      rewrite Hf. pose proof (stream_loop_all_above hi (a :: l) Hs) as H. cbn [stream_loop above filter] in H. exact H.
    - now apply IH.
  Qed.

  (* ---- inverted ranges ---- *)
  Definition range_inverted (lo hi : bound) : bool :=
    match bound_key lo, bound_key hi with Some a, Some b => blt b a | _, _ => false end.

  Lemma inverted_no_key (lo hi : bound) k : range_inverted lo hi = true -> above lo k && below hi k = false.
  Proof.
    unfold range_inverted. intros H.
    destruct (above lo k) eqn:E1; [|reflexivity]. destruct (below hi k) eqn:E2; [exfalso|reflexivity].
    destruct lo as [|a|a], hi as [|b|b]; cbn [bound_key above below] in *; try discriminate.
    all: assert (A : ble a k = true) by (first [exact E1|now apply blt_ble]);
         assert (B : ble k b = true) by (first [exact E2|now apply blt_ble]);
         assert (X : blt b b = true) by (apply blt_ble_trans with k; [now apply blt_ble_trans with a|exact B]);
         now rewrite blt_irrefl in X.
  Qed.

  (* an inverted range streams nothing, whatever sorted pairs the block selection hands to the streamer *)
  Theorem inverted_range_streams_nothing (lo hi : bound) (l : smap V) : range_inverted lo hi = true ->
    ssorted (keys l) = true -> stream_loop lo hi l = [] /\ sm_range lo hi l = [].
  Proof.
    intros Hi Hs. rewrite stream_loop_is_range by exact Hs.
    assert (E : sm_range lo hi l = []).
    { unfold sm_range. clear Hs. induction l as [|a l IH]; cbn [filter]; [reflexivity|]. now rewrite inverted_no_key by exact Hi. }
    now rewrite E.
  Qed.

  (* ... and under the fixed shape the block selection itself never panics, for any dictionary, bounds and limit *)
  Theorem slice_never_panics (d : list rblock) lo hi limit : slice_for_range true d lo hi limit <> SlicePanic.
  Proof.
    unfold slice_for_range.
    repeat match goal with
           | |- context [match ?x with _ => _ end] => destruct x
           | |- context [if ?x then _ else _] => destruct x
           end; discriminate.
  Qed.
End Proofs.

Lemma range_shape_known : SST_RANGE_INVERTED_EMPTY + SST_RANGE_SLICE_UNGUARDED = 1.
Proof. reflexivity. Qed.
Lemma range_fixed_pinned : RANGE_FIXED = true.
Proof. reflexivity. Qed.
