(* C15 -- specification side: byte strings under the lexicographic order and the
   sorted association list ("sorted map") whose behaviour a term dictionary must have.
   Everything here is plain list programming; nothing refers to the sstable format. *)
From TV Require Import Base.Prelude.
Local Open Scope N_scope.

(* ------------------------------------------------------------------ lexicographic order *)
(* Rust: `<[u8] as Ord>::cmp` -- bytewise, a strict prefix is smaller. *)
Fixpoint bcmp (a b : bytes) : comparison :=
  match a, b with
  | [], [] => Eq
  | [], _ :: _ => Lt
  | _ :: _, [] => Gt
  | x :: a', y :: b' => match N.compare x y with Eq => bcmp a' b' | c => c end
  end.

Definition blt (a b : bytes) : bool := match bcmp a b with Lt => true | _ => false end.
Definition ble (a b : bytes) : bool := match bcmp a b with Gt => false | _ => true end.
Definition beq (a b : bytes) : bool := match bcmp a b with Eq => true | _ => false end.

(* length of the longest common prefix (sstable/src/lib.rs common_prefix_len) *)
Fixpoint lcp (a b : bytes) : nat :=
  match a, b with
  | x :: a', y :: b' => if N.eqb x y then S (lcp a' b') else O
  | _, _ => O
  end.

Fixpoint is_prefix (p k : bytes) : bool :=
  match p, k with
  | [], _ => true
  | x :: p', y :: k' => N.eqb x y && is_prefix p' k'
  | _ :: _, [] => false
  end.

Lemma bcmp_refl a : bcmp a a = Eq.
Proof. induction a as [|x a IH]; cbn [bcmp]; [reflexivity|]. now rewrite N.compare_refl. Qed.

Lemma bcmp_eq a b : bcmp a b = Eq -> a = b.
Proof.
  revert b; induction a as [|x a IH]; intros [|y b]; cbn [bcmp]; try discriminate; [reflexivity|].
  destruct (N.compare_spec x y) as [E|L|G]; try discriminate. intros H. subst. f_equal. now apply IH.
Qed.

Lemma bcmp_opp a b : bcmp b a = CompOpp (bcmp a b).
Proof.
  revert b; induction a as [|x a IH]; intros [|y b]; cbn [bcmp]; try reflexivity.
  rewrite (N.compare_antisym x y). destruct (N.compare x y); cbn [CompOpp]; auto.
Qed.

Lemma bcmp_app p a b : bcmp (p ++ a) (p ++ b) = bcmp a b.
Proof. induction p as [|x p IH]; cbn [app bcmp]; [reflexivity|]. now rewrite N.compare_refl. Qed.

Lemma beq_eq a b : beq a b = true <-> a = b.
Proof.
  unfold beq. split.
  - destruct (bcmp a b) eqn:E; try discriminate. intros _. now apply bcmp_eq.
  - intros ->. now rewrite bcmp_refl.
Qed.

Lemma blt_irrefl a : blt a a = false.
Proof. unfold blt. now rewrite bcmp_refl. Qed.

Lemma bcmp_trans_lt a b c : bcmp a b = Lt -> bcmp b c = Lt -> bcmp a c = Lt.
Proof.
  revert b c; induction a as [|x a IH]; intros [|y b] [|z c]; cbn [bcmp]; try discriminate; try reflexivity.
  destruct (N.compare_spec x y) as [E1|L1|G1]; try discriminate;
  destruct (N.compare_spec y z) as [E2|L2|G2]; try discriminate; intros H1 H2.
  - subst. rewrite N.compare_refl. eapply IH; eauto.
  - subst. apply N.compare_lt_iff in L2. now rewrite L2.
  - subst. apply N.compare_lt_iff in L1. now rewrite L1.
  - assert (L : x < z) by lia. apply N.compare_lt_iff in L. now rewrite L.
Qed.

Lemma blt_trans a b c : blt a b = true -> blt b c = true -> blt a c = true.
Proof.
  unfold blt. destruct (bcmp a b) eqn:E1; try discriminate. destruct (bcmp b c) eqn:E2; try discriminate.
  intros _ _. now rewrite (bcmp_trans_lt _ _ _ E1 E2).
Qed.

Lemma blt_ble a b : blt a b = true -> ble a b = true.
Proof. unfold blt, ble. destruct (bcmp a b); auto. Qed.

Lemma ble_blt_trans a b c : ble a b = true -> blt b c = true -> blt a c = true.
Proof.
  unfold ble. destruct (bcmp a b) eqn:E; try discriminate; intros _ H.
  - apply bcmp_eq in E. now subst.
  - apply blt_trans with b; [unfold blt; now rewrite E|exact H].
Qed.

Lemma blt_ble_trans a b c : blt a b = true -> ble b c = true -> blt a c = true.
Proof.
  unfold ble. destruct (bcmp b c) eqn:E; try discriminate; intros H _.
  - apply bcmp_eq in E. now subst.
  - apply blt_trans with b; [exact H|unfold blt; now rewrite E].
Qed.

Lemma ble_trans a b c : ble a b = true -> ble b c = true -> ble a c = true.
Proof.
  intros H1 H2. unfold ble in H2. destruct (bcmp b c) eqn:E; try discriminate.
  - apply bcmp_eq in E. now subst.
  - apply blt_ble. apply ble_blt_trans with b; [exact H1|unfold blt; now rewrite E].
Qed.

Lemma ble_refl a : ble a a = true.
Proof. unfold ble. now rewrite bcmp_refl. Qed.

Lemma blt_nble a b : blt a b = negb (ble b a).
Proof. unfold blt, ble. rewrite (bcmp_opp a b). destruct (bcmp a b); reflexivity. Qed.

Lemma ble_nblt a b : ble a b = negb (blt b a).
Proof. unfold blt, ble. rewrite (bcmp_opp a b). destruct (bcmp a b); reflexivity. Qed.

Lemma blt_nil_l b : blt [] b = negb (beq [] b).
Proof. destruct b; reflexivity. Qed.

Lemma ble_nil_l b : ble [] b = true.
Proof. destruct b; reflexivity. Qed.

Lemma blt_nil_r a : blt a [] = false.
Proof. destruct a; reflexivity. Qed.

(* ------------------------------------------------------------------ common prefix *)
Lemma lcp_le_l a b : (lcp a b <= length a)%nat.
Proof. revert b; induction a as [|x a IH]; intros [|y b]; cbn [lcp length]; try lia. destruct (N.eqb x y); [specialize (IH b)|]; lia. Qed.

Lemma lcp_comm a b : lcp a b = lcp b a.
Proof.
  revert b; induction a as [|x a IH]; intros [|y b]; cbn [lcp]; try reflexivity.
  rewrite (N.eqb_sym y x). destruct (N.eqb x y); [now rewrite IH|reflexivity].
Qed.

Lemma lcp_le_r a b : (lcp a b <= length b)%nat.
Proof. rewrite lcp_comm. apply lcp_le_l. Qed.

Lemma lcp_refl a : lcp a a = length a.
Proof. induction a as [|x a IH]; cbn [lcp length]; [reflexivity|]. now rewrite N.eqb_refl, IH. Qed.

Lemma lcp_app p a b : lcp (p ++ a) (p ++ b) = (length p + lcp a b)%nat.
Proof. induction p as [|x p IH]; cbn [app lcp length]; [reflexivity|]. now rewrite N.eqb_refl, IH. Qed.

Lemma lcp_firstn a b : firstn (lcp a b) a = firstn (lcp a b) b.
Proof.
  revert b; induction a as [|x a IH]; intros [|y b]; cbn [lcp firstn]; try reflexivity.
  destruct (N.eqb_spec x y) as [->|]; cbn [firstn]; [now rewrite IH|reflexivity].
Qed.

Lemma lcp_nth a b i : (i < lcp a b)%nat -> nth i a 0 = nth i b 0.
Proof.
  revert b i; induction a as [|x a IH]; intros [|y b] i; cbn [lcp]; try lia.
  destruct (N.eqb_spec x y) as [->|]; [|lia]. destruct i as [|i]; cbn [nth]; [reflexivity|]. intros H. apply IH. lia.
Qed.

(* the three-way view of a comparison through the common prefix *)
Lemma bcmp_view a b :
  match bcmp a b with
  | Eq => a = b
  | Lt => (lcp a b = length a /\ lcp a b < length b)%nat \/
          (lcp a b < length a /\ lcp a b < length b)%nat /\ nth (lcp a b) a 0 < nth (lcp a b) b 0
  | Gt => (lcp a b = length b /\ lcp a b < length a)%nat \/
          (lcp a b < length a /\ lcp a b < length b)%nat /\ nth (lcp a b) b 0 < nth (lcp a b) a 0
  end.
Proof.
  revert b; induction a as [|x a IH]; intros [|y b]; cbn [bcmp lcp length nth].
  - reflexivity.
  - left. lia.
  - left. lia.
  - specialize (IH b). destruct (N.compare_spec x y) as [E|L|G].
    + subst y. rewrite N.eqb_refl. destruct (bcmp a b); cbn [nth].
      * now subst.
      * destruct IH as [IH|IH]; [left|right]; lia.
      * destruct IH as [IH|IH]; [left|right]; lia.
    + destruct (N.eqb_spec x y); [lia|]. right. cbn [nth]. lia.
    + destruct (N.eqb_spec x y); [lia|]. right. cbn [nth]. lia.
Qed.

(* ultrametric property of the common prefix *)
Lemma lcp_ultra a b c : (lcp a b < lcp b c)%nat -> lcp a c = lcp a b.
Proof.
  revert b c; induction a as [|x a IH]; intros [|y b] [|z c]; cbn [lcp]; try lia.
  destruct (N.eqb_spec x y) as [->|N1]; destruct (N.eqb_spec y z) as [->|N2]; try lia.
  - intros H. f_equal. apply IH. lia.
  - intros _. destruct (N.eqb_spec x z); [congruence|reflexivity].
Qed.

Lemma is_prefix_app p k : is_prefix p k = true <-> exists r, k = p ++ r.
Proof.
  revert k; induction p as [|x p IH]; intros k; cbn [is_prefix].
  - split; [intros _; now exists k|reflexivity].
  - destruct k as [|y k]; [split; [discriminate|intros [r H]; discriminate]|].
    rewrite andb_true_iff, N.eqb_eq, IH. split.
    + intros [-> [r ->]]. now exists r.
    + intros [r H]. injection H as -> ->. split; [reflexivity|now exists r].
Qed.

(* ------------------------------------------------------------------ strictly sorted lists of keys *)
Fixpoint ssorted (l : list bytes) : bool :=
  match l with
  | [] => true
  | a :: r => match r with [] => true | b :: _ => blt a b && ssorted r end
  end.

Lemma ssorted_cons a r : ssorted (a :: r) = true -> ssorted r = true.
Proof. destruct r as [|b r]; [reflexivity|]. cbn [ssorted]. rewrite andb_true_iff. tauto. Qed.

Lemma ssorted_head a b r : ssorted (a :: b :: r) = true -> blt a b = true.
Proof. cbn [ssorted]. rewrite andb_true_iff. tauto. Qed.

Lemma ssorted_all_gt a r : ssorted (a :: r) = true -> Forall (fun k => blt a k = true) r.
Proof.
  revert a; induction r as [|b r IH]; intros a H; [constructor|].
  pose proof (ssorted_head _ _ _ H) as Hab. apply ssorted_cons in H.
  constructor; [exact Hab|]. specialize (IH b H). eapply Forall_impl; [|exact IH].
  intros k Hk. now apply blt_trans with b.
Qed.

Lemma ssorted_app_inv l1 l2 : ssorted (l1 ++ l2) = true -> ssorted l1 = true /\ ssorted l2 = true.
Proof.
  induction l1 as [|a l1 IH]; cbn [app]; [auto|].
  intros H. pose proof (ssorted_cons _ _ H) as H'. destruct (IH H') as [H1 H2]. split; [|exact H2].
  destruct l1 as [|b l1]; [reflexivity|]. cbn [app] in H. cbn [ssorted] in *.
  rewrite andb_true_iff in *. tauto.
Qed.

(* ------------------------------------------------------------------ the sorted map *)
Section Map.
  Context {V : Type}.
  Definition smap := list (bytes * V).
  Definition keys (m : smap) : list bytes := map fst m.

  (* exact lookup *)
  Fixpoint sm_get (m : smap) (k : bytes) : option V :=
    match m with [] => None | (k', v) :: r => if beq k' k then Some v else sm_get r k end.

  (* key -> ordinal *)
  Fixpoint ord_from (ks : list bytes) (k : bytes) (i : N) : option N :=
    match ks with [] => None | k' :: r => if beq k' k then Some i else ord_from r k (i + 1) end.
  Definition sm_ord (ks : list bytes) (k : bytes) : option N := ord_from ks k 0.

  (* number of keys strictly below k = ordinal of the successor *)
  Definition sm_rank (ks : list bytes) (k : bytes) : N := N.of_nat (length (filter (fun x => blt x k) ks)).

  (* ordinal -> key *)
  Definition sm_key_of_ord (ks : list bytes) (o : N) : option bytes := nth_error ks (N.to_nat o).

  Inductive hit := Exact (o : N) | Next (o : N).
  Definition hit_eqb (a b : hit) : bool :=
    match a, b with Exact x, Exact y => N.eqb x y | Next x, Next y => N.eqb x y | _, _ => false end.
  Definition sm_ord_or_next (ks : list bytes) (k : bytes) : hit :=
    match sm_ord ks k with Some i => Exact i | None => Next (sm_rank ks k) end.

  (* ranges *)
  Inductive bound := Unbounded | Incl (b : bytes) | Excl (b : bytes).
  Definition above (lo : bound) (k : bytes) : bool :=
    match lo with Unbounded => true | Incl b => ble b k | Excl b => blt b k end.
  Definition below (hi : bound) (k : bytes) : bool :=
    match hi with Unbounded => true | Incl b => ble k b | Excl b => blt k b end.
  Definition sm_range (lo hi : bound) (m : smap) : smap :=
    filter (fun kv => above lo (fst kv) && below hi (fst kv)) m.
  Definition sm_prefix (p : bytes) (m : smap) : smap := filter (fun kv => is_prefix p (fst kv)) m.
  Definition sm_filter (acc : bytes -> bool) (m : smap) : smap := filter (fun kv => acc (fst kv)) m.
End Map.
Arguments smap : clear implicits.

(* linear scan in key space over a sorted key list = ordinal-or-successor *)
Fixpoint scan_spec (k : bytes) (ord : N) (ks : list bytes) : hit :=
  match ks with
  | [] => Next ord
  | c :: r => match bcmp c k with Lt => scan_spec k (ord + 1) r | Eq => Exact ord | Gt => Next ord end
  end.

Lemma ord_from_shift ks k i : ord_from ks k i = option_map (N.add i) (ord_from ks k 0).
Proof.
  revert i; induction ks as [|c r IH]; intros i; cbn [ord_from]; [reflexivity|].
  destruct (beq c k); cbn [option_map]; [f_equal; lia|].
  rewrite (IH (i + 1)), (IH (0 + 1)). destruct (ord_from r k 0); cbn [option_map]; [f_equal; lia|reflexivity].
Qed.

Lemma ord_from_none_all_gt c r k i : ssorted (c :: r) = true -> ble k c = true -> beq c k = false -> ord_from r k i = None.
Proof.
  intros Hs Hk Hne. pose proof (ssorted_all_gt _ _ Hs) as Hall. clear Hs.
  revert i; induction Hall as [|x r Hx Hall IH]; intros i; cbn [ord_from]; [reflexivity|].
  assert (Hkx : blt k x = true) by (now apply ble_blt_trans with c).
  unfold beq. rewrite bcmp_opp. unfold blt in Hkx. destruct (bcmp k x); try discriminate. cbn [CompOpp]. apply IH.
Qed.

Lemma filter_none_all_gt c r k : ssorted (c :: r) = true -> ble k c = true -> filter (fun x => blt x k) r = [].
Proof.
  intros Hs Hk. pose proof (ssorted_all_gt _ _ Hs) as Hall. clear Hs.
  induction Hall as [|x r Hx Hall IH]; cbn [filter]; [reflexivity|].
  assert (Hkx : blt k x = true) by (now apply ble_blt_trans with c).
  rewrite blt_nble, (blt_ble _ _ Hkx). cbn [negb]. exact IH.
Qed.

Lemma scan_spec_sorted ks k ord : ssorted ks = true ->
  scan_spec k ord ks = match ord_from ks k ord with Some i => Exact i | None => Next (ord + sm_rank ks k) end.
Proof.
  revert ord; induction ks as [|c r IH]; intros ord Hs; cbn [scan_spec ord_from].
  - unfold sm_rank. cbn. f_equal. lia.
  - unfold beq. destruct (bcmp c k) eqn:E.
    + reflexivity.
    + rewrite (IH (ord + 1) (ssorted_cons _ _ Hs)). destruct (ord_from r k (ord + 1)); [reflexivity|].
      unfold sm_rank. cbn [filter]. unfold blt at 2. rewrite E. cbn [length]. f_equal. lia.
    + assert (Hkc : ble k c = true) by (unfold ble; rewrite bcmp_opp, E; reflexivity).
      rewrite (ord_from_none_all_gt c r k (ord + 1) Hs Hkc) by (unfold beq; now rewrite E).
      unfold sm_rank. cbn [filter]. unfold blt at 1. rewrite E.
      rewrite (filter_none_all_gt c r k Hs Hkc). cbn. f_equal. lia.
Qed.

Lemma scan_spec_is_ord_or_next ks k : ssorted ks = true -> scan_spec k 0 ks = sm_ord_or_next ks k.
Proof.
  intros Hs. rewrite scan_spec_sorted by exact Hs. unfold sm_ord_or_next, sm_ord.
  destruct (ord_from ks k 0); [reflexivity|]. f_equal.
Qed.

(* get through the ordinal *)
Lemma sm_get_ord {V} (m : smap V) k :
  sm_get m k = match sm_ord (keys m) k with Some i => option_map snd (nth_error m (N.to_nat i)) | None => None end.
Proof.
  unfold sm_ord. enough (H : forall i, match ord_from (keys m) k i with
     | Some j => (i <= j) /\ sm_get m k = option_map snd (nth_error m (N.to_nat (j - i)))
     | None => sm_get m k = None end).
  { specialize (H 0). destruct (ord_from (keys m) k 0); [|exact H]. destruct H as [_ H]. now rewrite N.sub_0_r in H. }
  induction m as [|[k' v] r IH]; intros i; cbn [keys map fst ord_from sm_get]; [reflexivity|].
  destruct (beq k' k); [split; [lia|]; now rewrite N.sub_diag|].
  specialize (IH (i + 1)). fold (keys r) in *. destruct (ord_from (keys r) k (i + 1)); [|exact IH].
  destruct IH as [Hle IH]. split; [lia|]. rewrite IH.
  replace (N.to_nat (n - i)) with (S (N.to_nat (n - (i + 1)))) by lia. reflexivity.
Qed.
