(* C15 -- the dictionary reader over the blocks the writer produced.
   Transliterates /repo/sstable/src/dictionary.rs (term_ord_or_next, term_ord, get, ord_to_term,
   term_info_from_ord, file_slice_for_range, prefix_range), /repo/sstable/src/streamer.rs
   (Streamer::advance bound handling) and the lookups of /repo/sstable/src/index/v3.rs
   (locate_with_key = first separator >= key in the FST, which is an external crate and is
   represented by that contract; binary_search_ord = two-level binary search over first ordinals,
   modelled literally over the list of block addresses -- the bit-packed linear-interpolation
   layout of BlockAddrStore is not modelled). *)
From TV Require Import Base.Prelude Generated.Constants SSTable.Spec SSTable.Delta SSTable.Scan SSTable.Writer.
Local Open Scope N_scope.

Definition U64_MAX : N := 2 ^ 64 - 1.

Definition shift_hit (o : N) (h : hit) : hit :=
  match h with Exact x => Exact (x + o) | Next x => Next (x + o) end.
Definition into_exact (h : hit) : option N := match h with Exact o => Some o | Next _ => None end.

(* binary_search(max, cmp_fn) of index/v3.rs; inl = Ok, inr = Err *)
Fixpoint bsearch (fuel : nat) (cmp : N -> comparison) (left right size : N) : N + N :=
  match fuel with
  | O => inr left
  | S f =>
      if N.ltb left right then
        let mid := left + size / 2 in
        match cmp mid with
        | Lt => bsearch f cmp (mid + 1) right (right - (mid + 1))
        | Gt => bsearch f cmp left mid (mid - left)
        | Eq => inl mid
        end
      else inr left
  end.
Definition binary_search (max : N) (cmp : N -> comparison) : N + N :=
  bsearch (S (N.to_nat max)) cmp 0 max max.

(* Which block selection the source has (regenerated flags): true = an end offset before the start
   offset selects nothing; false = the offsets reach FileSlice::slice unchecked, whose assertion
   `end >= start` then panics (the shape with defect F151). *)
Definition RANGE_FIXED : bool := N.eqb SST_RANGE_INVERTED_EMPTY 1.

Section Reader.
  Context {V : Type}.
  Variable range_fixed : bool.     (* shape of file_slice_for_range; the pinned source is RANGE_FIXED *)
  Notation rblock := (rblock V).
  Definition dict := list rblock.

  (* SSTableIndexV3Empty: fewer than two blocks => no index, one pseudo block covering everything *)
  Definition empty_block : rblock := {| rb_sep := []; rb_first_ord := 0; rb_keys := []; rb_vals := [] |}.

  Fixpoint first_ge (d : dict) (key : bytes) (i : nat) : option nat :=
    match d with
    | [] => None
    | rb :: r => if ble key (rb_sep rb) then Some i else first_ge r key (S i)
    end.

  (* SSTableIndex::locate_with_key *)
  Definition locate_with_key (d : dict) (key : bytes) : option nat :=
    match d with
    | [] | [_] => Some 0%nat
    | _ => first_ge d key 0
    end.

  (* SSTableIndex::get_block *)
  Definition get_block (d : dict) (i : nat) : option rblock :=
    match d with
    | [] => match i with O => Some empty_block | _ => None end
    | _ => nth_error d i
    end.

  Definition first_ord_at (d : dict) (i : N) : N :=
    match nth_error d (N.to_nat i) with Some rb => rb_first_ord rb | None => 0 end.

  (* BlockAddrStore::binary_search_ord (+ BlockAddrBlockMetadata::bisect_for_ord) *)
  Definition locate_with_ord (d : dict) (ord : N) : nat :=
    match d with
    | [] | [_] => 0%nat
    | _ =>
        let n := N.of_nat (length d) in
        let max_block := (n + SST_STORE_BLOCK_LEN - 1) / SST_STORE_BLOCK_LEN in
        match binary_search max_block (fun b => N.compare (first_ord_at d (b * SST_STORE_BLOCK_LEN)) ord) with
        | inl sb => N.to_nat (sb * SST_STORE_BLOCK_LEN)
        | inr sb =>
            let sb := sb - 1 in
            let base := sb * SST_STORE_BLOCK_LEN in
            let block_len := N.min SST_STORE_BLOCK_LEN (n - base) - 1 in
            match binary_search block_len (fun i => N.compare (first_ord_at d (base + i + 1)) ord) with
            | inl i => N.to_nat (base + i + 1)
            | inr i => N.to_nat (base + i)
            end
        end
    end.

  Definition block_entries (rb : rblock) : option (list entry) := parse_block_keys (rb_keys rb).

  (* Dictionary::term_ord_or_next; outer None = the block does not parse (I/O error / panic) *)
  Definition term_ord_or_next (d : dict) (key : bytes) : option hit :=
    match locate_with_key d key with
    | None => Some (Next U64_MAX)
    | Some i =>
        match get_block d i with
        | None => Some (Next U64_MAX)
        | Some rb => option_map (fun es => shift_hit (rb_first_ord rb) (scan key 0 0 es)) (block_entries rb)
        end
    end.

  Definition term_ord (d : dict) (key : bytes) : option (option N) :=
    match locate_with_key d key with
    | None => Some None
    | Some i =>
        match get_block d i with
        | None => Some None
        | Some rb => option_map (fun es => option_map (fun o => o + rb_first_ord rb) (into_exact (scan key 0 0 es))) (block_entries rb)
        end
    end.

  (* Dictionary::get / do_get: the value at the index the delta reader stopped at *)
  Definition get (d : dict) (key : bytes) : option (option V) :=
    match locate_with_key d key with
    | None => Some None
    | Some i =>
        match get_block d i with
        | None => Some None
        | Some rb =>
            match block_entries rb with
            | None => None
            | Some es =>
                match into_exact (scan key 0 0 es) with
                | None => Some None
                | Some o => match nth_error (rb_vals rb) (N.to_nat o) with Some v => Some (Some v) | None => None end
                end
            end
        end
    end.

  (* Dictionary::ord_to_term: Some None = `false` *)
  Definition ord_to_term (d : dict) (ord : N) : option (option bytes) :=
    match get_block d (locate_with_ord d ord) with
    | None => None
    | Some rb =>
        option_map (fun es => nth_error (decode_entries [] es) (N.to_nat (ord - rb_first_ord rb))) (block_entries rb)
    end.

  (* Dictionary::term_info_from_ord *)
  Definition value_from_ord (d : dict) (ord : N) : option (option V) :=
    match get_block d (locate_with_ord d ord) with
    | None => None
    | Some rb =>
        option_map (fun es => if Nat.ltb (N.to_nat (ord - rb_first_ord rb)) (length es)
                              then nth_error (rb_vals rb) (N.to_nat (ord - rb_first_ord rb)) else None) (block_entries rb)
    end.

  (* all (key, value) pairs of one block *)
  Definition block_kvs (rb : rblock) : option (list (bytes * V)) :=
    match block_entries rb with
    | None => None
    | Some es => if Nat.eqb (length es) (length (rb_vals rb)) then Some (combine (decode_entries [] es) (rb_vals rb)) else None
    end.

  Fixpoint blocks_kvs (bs : list rblock) : option (list (bytes * V)) :=
    match bs with
    | [] => Some []
    | rb :: r => match block_kvs rb, blocks_kvs r with Some a, Some b => Some (a ++ b) | _, _ => None end
    end.

  (* Streamer::advance with the AlwaysMatch automaton: skip below the lower bound (which is dropped
     once passed), stop at the first key beyond the upper bound *)
  Fixpoint stream_loop (lo hi : bound) (kvs : list (bytes * V)) : list (bytes * V) :=
    match kvs with
    | [] => []
    | kv :: r =>
        if above lo (fst kv)
        then (if below hi (fst kv) then kv :: stream_loop Unbounded hi r else [])
        else stream_loop lo hi r
    end.

  Definition bound_key (b : bound) : option bytes := match b with Unbounded => None | Incl k | Excl k => Some k end.

  Inductive slice_res := SliceEmpty | SlicePanic | Slice (first : nat) (last : option nat).

  (* Dictionary::file_slice_for_range: which blocks are read.  `last = None` = up to the end.
     Blocks are contiguous, so the byte range ends before it starts -- and combine_ranges asserts --
     exactly when last + 1 < first.  The fixed shape returns FileSlice::empty() there instead. *)
  Definition slice_for_range (d : dict) (lo hi : bound) (limit : option N) : slice_res :=
    let first_block := match bound_key lo with Some k => Some (locate_with_key d k) | None => None end in
    match first_block with
    | Some None => SliceEmpty
    | _ =>
      let first_id := match first_block with Some (Some i) => Some i | _ => None end in
      let last_id := match bound_key hi with Some k => locate_with_key d k | None => None end in
      match (match first_id with Some i => get_block d i | None => Some empty_block end) with
      | None => SliceEmpty
      | Some _ =>
        let last_id :=
          match limit with
          | None => last_id
          | Some lim =>
              let second := match first_id with Some i => S i | None => O end in
              match get_block d second with
              | Some b => let ll := locate_with_ord d (rb_first_ord b + lim) in
                          Some (match last_id with Some l => Nat.min l ll | None => ll end)
              | None => last_id
              end
          end in
        let last_id := match last_id with Some l => (match get_block d l with Some _ => Some l | None => None end) | None => None end in
        let first := match first_id with Some i => i | None => O end in
        match last_id with
        | Some l => if Nat.ltb (S l) first then (if range_fixed then SliceEmpty else SlicePanic) else Slice first (Some l)
        | None => Slice first None
        end
      end
    end.

  (* outer None = panic / corrupt block *)
  Definition range (d : dict) (lo hi : bound) (limit : option N) : option (list (bytes * V)) :=
    match slice_for_range d lo hi limit with
    | SliceEmpty => Some []
    | SlicePanic => None
    | Slice first last =>
        let bs := match last with Some l => firstn (S l - first) (skipn first d) | None => skipn first d end in
        option_map (stream_loop lo hi) (blocks_kvs bs)
    end.

  Definition stream_all (d : dict) : option (list (bytes * V)) := range d Unbounded Unbounded None.

  (* Dictionary::prefix_range: upper bound = prefix with its last non-0xFF byte incremented *)
  Fixpoint prefix_upper_rev (rp : bytes) : bytes :=
    match rp with
    | [] => []
    | b :: r => if N.eqb b 255 then prefix_upper_rev r else (b + 1) :: r
    end.
  Definition prefix_upper (p : bytes) : bytes := rev (prefix_upper_rev (rev p)).
  Definition prefix_range (d : dict) (p : bytes) : option (list (bytes * V)) :=
    match prefix_upper p with
    | [] => range d (Incl p) Unbounded None
    | u => range d (Incl p) (Excl u) None
    end.
End Reader.
