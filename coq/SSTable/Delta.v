(* C15 -- front coding of the keys of one sstable block.
   Transliterates /repo/sstable/src/vint.rs (serialize, deserialize_read),
   /repo/sstable/src/delta.rs (DeltaWriter::encode_keep_add / write_suffix,
   DeltaReader::read_keep_add / read_delta_key) and the key reconstruction of
   Reader::advance (lib.rs) / Dictionary::ord_to_term (truncate + extend). *)
From TV Require Import Base.Prelude Generated.Constants SSTable.Spec.
Local Open Scope N_scope.

(* ------------------------------------------------------------------ vint.rs *)
(* serialize: 7 payload bits per byte, CONTINUE_BIT on all but the last; `fuel` = bytes left in
   the output buffer (10 for a u64; the exhausted-buffer exit is "actually unreachable"). *)
Fixpoint vint_ser (fuel : nat) (v : N) : bytes :=
  match fuel with
  | O => []
  | S f => let b := N.land v SST_VINT_PAYLOAD_MASK in
           let v' := N.shiftr v SST_VINT_SHIFT in
           if N.eqb v' 0 then [b] else N.lor b SST_VINT_CONTINUE_BIT :: vint_ser f v'
  end.
Definition vint (v : N) : bytes := vint_ser 10 v.

(* deserialize_read: `result |= (b % 128) << shift; if b < 128 break; shift += 7`, written as the
   equal right-nested sum (the or-ed fields are disjoint); returns the value and the rest.
   An empty buffer yields (0, []) as the Rust loop does. *)
Fixpoint vint_de (buf : bytes) : N * bytes :=
  match buf with
  | [] => (0, [])
  | b :: r => if N.ltb b 128 then (N.modulo b 128, r)
              else let '(v, r') := vint_de r in (N.modulo b 128 + 128 * v, r')
  end.

Lemma vint_params : SST_VINT_PAYLOAD_MASK = N.ones 7 /\ SST_VINT_SHIFT = 7 /\ SST_VINT_CONTINUE_BIT = 128.
Proof. repeat split; reflexivity. Qed.

Lemma lor_128_small b : b < 128 -> N.lor b 128 = b + 128.
Proof.
  intros Hb. rewrite <- N.lxor_lor, <- N.add_nocarry_lxor; try reflexivity.
  all: apply N.bits_inj_0; intros n; rewrite N.land_spec;
       destruct (N.eq_dec n 7) as [->|Hn].
  1,3: replace (N.testbit b 7) with false; [reflexivity|];
       symmetry; destruct (N.eq_dec b 0) as [->|Hz]; [apply N.bits_0|];
       apply N.bits_above_log2; apply N.log2_lt_pow2; [lia|exact Hb].
  all: change 128 with (2 ^ 7); rewrite N.pow2_bits_false by congruence; apply andb_false_r.
Qed.

Lemma vint_ser_S f v : vint_ser (S f) v =
  if N.eqb (v / 128) 0 then [v mod 128] else (v mod 128 + 128) :: vint_ser f (v / 128).
Proof.
  destruct vint_params as (Em & Es & Ec).
  change (vint_ser (S f) v) with
    (let b := N.land v SST_VINT_PAYLOAD_MASK in let v' := N.shiftr v SST_VINT_SHIFT in
     if N.eqb v' 0 then [b] else N.lor b SST_VINT_CONTINUE_BIT :: vint_ser f v').
  cbv zeta. rewrite Em, Es, Ec, N.land_ones, N.shiftr_div_pow2. change (2 ^ 7) with 128.
  rewrite lor_128_small by (apply N.mod_lt; lia). reflexivity.
Qed.

Lemma vint_ser_de f v rest : v < 128 ^ N.of_nat (S f) -> vint_de (vint_ser (S f) v ++ rest) = (v, rest).
Proof.
  revert v; induction f as [|f IH]; intros v Hv.
  all: rewrite vint_ser_S;
    assert (Hm : v mod 128 < 128) by (apply N.mod_lt; lia);
    pose proof (N.div_mod v 128 ltac:(lia)) as Hdm;
    destruct (N.eqb_spec (v / 128) 0) as [Hz|Hnz];
    [cbn [app vint_de]; replace (v mod 128 <? 128) with true by (symmetry; apply N.ltb_lt; exact Hm);
     rewrite N.mod_mod by lia; f_equal; lia|].
  - exfalso. change (128 ^ N.of_nat 1) with 128 in Hv. apply Hnz. apply N.div_small. exact Hv.
  - cbn [app vint_de].
    replace (v mod 128 + 128 <? 128) with false by (symmetry; apply N.ltb_ge; lia).
    rewrite IH.
    + f_equal. replace ((v mod 128 + 128) mod 128) with (v mod 128); [lia|].
      replace (v mod 128 + 128) with (v mod 128 + 1 * 128) by lia. rewrite N.mod_add by lia. now rewrite N.mod_mod by lia.
    + rewrite Nat2N.inj_succ, N.pow_succ_r' in Hv. apply N.div_lt_upper_bound; lia.
Qed.

Lemma vint_de_roundtrip v rest : v < 2 ^ 64 -> vint_de (vint v ++ rest) = (v, rest).
Proof. intros Hv. unfold vint. apply vint_ser_de. change (128 ^ N.of_nat 10) with (2 ^ 70). assert (2 ^ 64 < 2 ^ 70) by reflexivity. lia. Qed.

Lemma vint_ser_nonempty f v : vint_ser (S f) v <> [].
Proof. cbn [vint_ser]. destruct (N.eqb _ 0); discriminate. Qed.

(* ------------------------------------------------------------------ keep/add header *)
(* `(keep_len | (add_len << 4)) as u8` and its inverse `b & 0b1111`, `b >> 4` *)
Definition pack (keep add : N) : N := N.modulo (N.lor keep (N.shiftl add SST_PACK_SHIFT_W)) 256.
Definition unpack (b : N) : N * N := (N.land b SST_PACK_MASK, N.shiftr b SST_PACK_SHIFT_R).

Definition encode_keep_add (keep add : N) : bytes :=
  if N.ltb keep SST_FOUR_BIT_LIMITS && N.ltb add SST_FOUR_BIT_LIMITS
  then [pack keep add]
  else SST_VINT_MODE :: vint keep ++ vint add.

Definition read_keep_add (buf : bytes) : option (N * N * bytes) :=
  match buf with
  | [] => None
  | b :: r =>
      if N.eqb b SST_VINT_MODE
      then let '(keep, r1) := vint_de r in let '(add, r2) := vint_de r1 in Some (keep, add, r2)
      else let '(keep, add) := unpack b in Some (keep, add, r)
  end.

(* The one header that the packed form cannot express: the pair whose packed byte IS the
   VINT_MODE marker.  (For the current constants: keep = 1, add = 0.) *)
Definition amb_keep : N := fst (unpack SST_VINT_MODE).
Definition amb_add : N := snd (unpack SST_VINT_MODE).

Definition small_range : list N := map N.of_nat (seq 0 (N.to_nat SST_FOUR_BIT_LIMITS)).
Definition pair_eqb (a b : N * N) : bool := N.eqb (fst a) (fst b) && N.eqb (snd a) (snd b).
Definition pack_row_ok (k : N) : bool :=
  forallb (fun a => pair_eqb (unpack (pack k a)) (k, a) && N.ltb (pack k a) 256 &&
                    (negb (N.eqb (pack k a) SST_VINT_MODE) || (N.eqb k amb_keep && N.eqb a amb_add))) small_range.

(* finite domain, re-run on the regenerated constants: FOUR_BIT_LIMITS^2 pairs *)
Lemma pack_table_ok : forallb pack_row_ok small_range = true.
Proof. vm_compute. reflexivity. Qed.

Lemma in_small_range k : k < SST_FOUR_BIT_LIMITS -> In k small_range.
Proof.
  intros H. unfold small_range. rewrite <- (N2Nat.id k). apply in_map. apply in_seq. lia.
Qed.

Lemma pack_facts k a : k < SST_FOUR_BIT_LIMITS -> a < SST_FOUR_BIT_LIMITS ->
  unpack (pack k a) = (k, a) /\ (pack k a = SST_VINT_MODE -> k = amb_keep /\ a = amb_add).
Proof.
  intros Hk Ha. pose proof pack_table_ok as T. rewrite forallb_forall in T.
  specialize (T k (in_small_range k Hk)). unfold pack_row_ok in T. rewrite forallb_forall in T.
  specialize (T a (in_small_range a Ha)). rewrite !andb_true_iff in T. destruct T as [[T1 _] T2].
  unfold pair_eqb in T1. cbn [fst snd] in T1. rewrite andb_true_iff, !N.eqb_eq in T1. split.
  - destruct (unpack (pack k a)) as [x y]. cbn [fst snd] in T1. destruct T1; now subst.
  - intros E. rewrite E, N.eqb_refl in T2. cbn [negb orb] in T2. rewrite andb_true_iff, !N.eqb_eq in T2. exact T2.
Qed.

(* the ambiguous pair is a key that adds nothing to a non-empty kept prefix: a duplicate or a
   strict prefix of its predecessor -- never produced from strictly increasing keys *)
Lemma amb_is_nonincreasing : amb_add = 0 /\ amb_keep <> 0.
Proof. vm_compute. split; [reflexivity|discriminate]. Qed.

Definition header_ok (keep add : N) : Prop :=
  keep < 2 ^ 64 /\ add < 2 ^ 64 /\ ~ (keep = amb_keep /\ add = amb_add).

Lemma read_encode_keep_add keep add rest :
  header_ok keep add -> read_keep_add (encode_keep_add keep add ++ rest) = Some (keep, add, rest).
Proof.
  intros (Hk & Ha & Hamb). unfold encode_keep_add.
  destruct (N.ltb_spec keep SST_FOUR_BIT_LIMITS) as [Lk|Gk]; [destruct (N.ltb_spec add SST_FOUR_BIT_LIMITS) as [La|Ga]|]; cbn [andb app read_keep_add].
  - destruct (pack_facts keep add Lk La) as [U A].
    destruct (N.eqb_spec (pack keep add) SST_VINT_MODE) as [E|_]; [exfalso; apply Hamb; auto|]. now rewrite U.
  - rewrite N.eqb_refl, <- app_assoc, vint_de_roundtrip by exact Hk. now rewrite vint_de_roundtrip by exact Ha.
  - rewrite N.eqb_refl, <- app_assoc, vint_de_roundtrip by exact Hk. now rewrite vint_de_roundtrip by exact Ha.
Qed.

Lemma encode_keep_add_nonempty keep add : encode_keep_add keep add <> [].
Proof. unfold encode_keep_add. destruct (_ && _); discriminate. Qed.

(* ------------------------------------------------------------------ entries = (keep, suffix) *)
Definition entry := (nat * bytes)%type.

(* DeltaWriter::write_suffix *)
Definition entry_bytes (e : entry) : bytes :=
  encode_keep_add (N.of_nat (fst e)) (N.of_nat (length (snd e))) ++ snd e.
Definition entries_bytes (es : list entry) : bytes := concat (map entry_bytes es).

Inductive read_res := REnd | RErr | REntry (e : entry) (rest : bytes).

(* DeltaReader::read_delta_key: header, then `add` suffix bytes (slicing past the buffer panics) *)
Definition read_entry (buf : bytes) : read_res :=
  match read_keep_add buf with
  | None => REnd
  | Some (keep, add, r) =>
      if N.ltb (N.of_nat (length r)) add then RErr
      else REntry (N.to_nat keep, firstn (N.to_nat add) r) (skipn (N.to_nat add) r)
  end.

(* every key of a block; None = malformed (panic in Rust) or out of fuel *)
Fixpoint parse_entries (fuel : nat) (buf : bytes) : option (list entry) :=
  match fuel with
  | O => match buf with [] => Some [] | _ => None end
  | S f => match read_entry buf with
           | REnd => Some []
           | RErr => None
           | REntry e rest => option_map (cons e) (parse_entries f rest)
           end
  end.
Definition parse_block_keys (buf : bytes) : option (list entry) := parse_entries (length buf) buf.

Definition entry_ok (e : entry) : Prop := header_ok (N.of_nat (fst e)) (N.of_nat (length (snd e))).

Lemma read_entry_bytes e rest : entry_ok e -> read_entry (entry_bytes e ++ rest) = REntry e rest.
Proof.
  intros Hok. destruct e as [keep suf]. unfold entry_bytes, read_entry. cbn [fst snd] in *.
  rewrite <- app_assoc, read_encode_keep_add by exact Hok.
  rewrite app_length. replace (N.of_nat (length suf + length rest) <? N.of_nat (length suf)) with false by (symmetry; apply N.ltb_ge; lia).
  rewrite !Nat2N.id, firstn_app_exact, skipn_app_exact. reflexivity.
Qed.

Lemma entry_bytes_length e : (1 <= length (entry_bytes e))%nat.
Proof.
  unfold entry_bytes. rewrite app_length. pose proof (encode_keep_add_nonempty (N.of_nat (fst e)) (N.of_nat (length (snd e)))).
  destruct (encode_keep_add _ _); [congruence|cbn [length]; lia].
Qed.

Lemma parse_entries_bytes es : forall fuel, Forall entry_ok es -> (length (entries_bytes es) <= fuel)%nat ->
  parse_entries fuel (entries_bytes es) = Some es.
Proof.
  induction es as [|e es IH]; intros fuel Hok Hf.
  - destruct fuel; reflexivity.
  - inversion Hok as [|? ? He Hes]; subst. unfold entries_bytes in *. cbn [map concat] in *.
    rewrite app_length in Hf. pose proof (entry_bytes_length e).
    destruct fuel as [|f]; [lia|]. cbn [parse_entries]. rewrite read_entry_bytes by exact He.
    rewrite IH; [reflexivity|exact Hes|lia].
Qed.

Lemma parse_block_keys_roundtrip es : Forall entry_ok es -> parse_block_keys (entries_bytes es) = Some es.
Proof. intros H. apply parse_entries_bytes; [exact H|lia]. Qed.

(* ------------------------------------------------------------------ keys <-> entries *)
(* Writer::insert_key: keep = common_prefix_len(previous_key, key), suffix = key[keep..] *)
Fixpoint encode_entries (prev : bytes) (ks : list bytes) : list entry :=
  match ks with
  | [] => []
  | k :: r => let keep := lcp prev k in (keep, skipn keep k) :: encode_entries k r
  end.

(* key.truncate(keep); key.extend(suffix) *)
Definition apply_entry (prev : bytes) (e : entry) : bytes := firstn (fst e) prev ++ snd e.
Fixpoint decode_entries (prev : bytes) (es : list entry) : list bytes :=
  match es with
  | [] => []
  | e :: r => let k := apply_entry prev e in k :: decode_entries k r
  end.

Lemma apply_encode prev k : apply_entry prev (lcp prev k, skipn (lcp prev k) k) = k.
Proof. unfold apply_entry. cbn [fst snd]. rewrite lcp_firstn. apply firstn_skipn. Qed.

Lemma decode_encode_entries ks : forall prev, decode_entries prev (encode_entries prev ks) = ks.
Proof. induction ks as [|k r IH]; intros prev; cbn [encode_entries decode_entries]; [reflexivity|]. now rewrite apply_encode, IH. Qed.

(* a key larger than its predecessor always adds at least one byte *)
Lemma blt_adds prev k : blt prev k = true -> skipn (lcp prev k) k <> [].
Proof.
  unfold blt. pose proof (bcmp_view prev k) as V. destruct (bcmp prev k); try discriminate. intros _ E.
  assert (length (skipn (lcp prev k) k) = 0%nat) by now rewrite E. rewrite skipn_length in *. lia.
Qed.

Definition key_len_ok (k : bytes) : Prop := N.of_nat (length k) < 2 ^ 64.

Lemma lcp_suffix_len_ok prev k : key_len_ok k ->
  N.of_nat (lcp prev k) < 2 ^ 64 /\ N.of_nat (length (skipn (lcp prev k) k)) < 2 ^ 64.
Proof. unfold key_len_ok. intros H. pose proof (lcp_le_r prev k). rewrite skipn_length. lia. Qed.

(* chain: each key strictly above its predecessor; the first one only needs that when prev is a real key *)
Fixpoint chain (prev : bytes) (ks : list bytes) : Prop :=
  match ks with [] => True | k :: r => blt prev k = true /\ chain k r end.

Lemma ssorted_chain k r : ssorted (k :: r) = true -> chain k r.
Proof.
  revert k; induction r as [|b r IH]; intros k H; cbn [chain]; [exact I|].
  split; [now apply ssorted_head in H|apply IH; now apply ssorted_cons in H].
Qed.

Lemma encode_entries_ok_chain ks : forall prev, chain prev ks -> Forall key_len_ok ks ->
  Forall entry_ok (encode_entries prev ks).
Proof.
  destruct amb_is_nonincreasing as [Aa Ak].
  induction ks as [|k r IH]; intros prev Hc Hl; cbn [encode_entries]; [constructor|].
  destruct Hc as [Hlt Hc]. inversion Hl as [|? ? Hk Hr]; subst. constructor; [|now apply IH].
  destruct (lcp_suffix_len_ok prev k Hk) as [H1 H2]. unfold entry_ok, header_ok. cbn [fst snd].
  split; [exact H1|]. split; [exact H2|]. intros [_ E]. rewrite Aa in E.
  apply (blt_adds prev k Hlt). destruct (skipn (lcp prev k) k); [reflexivity|cbn [length] in E; lia].
Qed.

(* a block always starts from the empty previous key (Writer clears previous_key at each flush) *)
Lemma encode_entries_ok ks : ssorted ks = true -> Forall key_len_ok ks -> Forall entry_ok (encode_entries [] ks).
Proof.
  destruct amb_is_nonincreasing as [Aa Ak].
  destruct ks as [|k r]; intros Hs Hl; cbn [encode_entries]; [constructor|].
  inversion Hl as [|? ? Hk Hr]; subst. constructor.
  - cbn [lcp skipn]. unfold entry_ok, header_ok. cbn [fst snd]. split; [reflexivity|]. split; [exact Hk|].
    intros [E _]. apply Ak. rewrite <- E. reflexivity.
  - apply encode_entries_ok_chain; [now apply ssorted_chain|exact Hr].
Qed.

Definition encode_block_keys (ks : list bytes) : bytes := entries_bytes (encode_entries [] ks).
Definition decode_block_keys (buf : bytes) : option (list bytes) := option_map (decode_entries []) (parse_block_keys buf).

Lemma block_keys_roundtrip ks : ssorted ks = true -> Forall key_len_ok ks ->
  decode_block_keys (encode_block_keys ks) = Some ks.
Proof.
  intros Hs Hl. unfold decode_block_keys, encode_block_keys.
  rewrite parse_block_keys_roundtrip by (now apply encode_entries_ok). cbn [option_map]. now rewrite decode_encode_entries.
Qed.

(* the headers written for strictly increasing keys never collide with the VINT_MODE marker *)
Lemma front_coding_unambiguous ks : ssorted ks = true ->
  Forall (fun e => ~ (N.of_nat (fst e) = amb_keep /\ N.of_nat (length (snd e)) = amb_add)) (encode_entries [] ks).
Proof.
  destruct amb_is_nonincreasing as [Aa Ak].
  intros Hs. destruct ks as [|k r]; cbn [encode_entries]; [constructor|]. constructor.
  - cbn [lcp fst]. intros [E _]. apply Ak. now rewrite <- E.
  - apply ssorted_chain in Hs. clear Ak. revert k Hs. induction r as [|b r IH]; intros k Hc; cbn [encode_entries]; [constructor|].
    destruct Hc as [Hlt Hc]. constructor; [|now apply IH]. cbn [fst snd]. intros [_ E]. rewrite Aa in E.
    apply (blt_adds k b Hlt). destruct (skipn (lcp k b) b); [reflexivity|cbn [length] in E; lia].
Qed.
