(* C15 -- the sstable writer.
   Transliterates /repo/sstable/src/lib.rs (Writer::insert_key with its ordering assertion,
   insert_value, flush_block_if_required, finish), DeltaWriter::flush_block_if_required
   (`block.len() > block_len`, delta.rs) and the index builder of /repo/sstable/src/index/mod.rs
   (add_block, shorten_last_block_key_given_next_key, find_shorter_str_in_between).
   A flushed block and its index entry live at the same position of two Rust vectors; the model
   keeps them in one record, most recent first. *)
From TV Require Import Base.Prelude Generated.Constants SSTable.Spec SSTable.Delta.
Local Open Scope N_scope.

Inductive panic := AssertKeysIncreasing | IndexOutOfBounds | AssertShorterLeftLtRight.

(* ------------------------------------------------------------------ index/mod.rs *)
(* for pos in (common_len + 1)..left.len() { if left[pos] != u8::MAX { left[pos] += 1; left.truncate(pos + 1); return } } *)
Fixpoint shorten_tail (tail : bytes) : option bytes :=
  match tail with
  | [] => None
  | b :: t => if N.eqb b 255 then option_map (cons b) (shorten_tail t) else Some [b + 1]
  end.

(* find_shorter_str_in_between without its leading assert *)
Definition find_shorter (left right : bytes) : bytes :=
  let c := lcp left right in
  if Nat.eqb (length left) c then left
  else match shorten_tail (skipn (S c) left) with
       | Some t => firstn (S c) left ++ t
       | None => left
       end.

(* Which ordering assertion the source has (regenerated flags, tools/pindefs/sstable.py):
   true  = skipped only for the first key of a block, index accesses guarded;
   false = skipped whenever previous_key is empty (the shape with defect F11). *)
Definition ORDER_FIXED : bool := N.eqb SST_ORDER_CHECK_BLOCK_START 1.

Section Writer.
  Context {V : Type}.
  Variable order_fixed : bool.     (* shape of the ordering assertion; the pinned source is ORDER_FIXED *)
  Variable block_len : N.          (* DeltaWriter.block_len; BLOCK_LEN unless set_block_len *)

  Record rblock := { rb_sep : bytes;          (* BlockMeta.last_key_or_greater *)
                     rb_first_ord : N;        (* BlockAddr.first_ordinal *)
                     rb_keys : bytes;         (* the front-coded key section of the block *)
                     rb_vals : list V }.      (* the values handed to the ValueWriter *)

  Record wstate := { w_prev : bytes;          (* previous_key *)
                     w_done : list rblock;    (* index_builder.blocks + flushed blocks, most recent first *)
                     w_block : bytes;         (* delta_writer.block *)
                     w_vals : list V;         (* delta_writer.value_writer *)
                     w_num_terms : N;
                     w_first_ord : N }.       (* first_ordinal_of_the_block *)

  Definition w_init : wstate :=
    {| w_prev := []; w_done := []; w_block := []; w_vals := []; w_num_terms := 0; w_first_ord := 0 |}.

  Inductive wres := WOk (st : wstate) | WPanic (p : panic).

  (* shorten_last_block_key_given_next_key: `assert!(&left[..] < right)` then shorten *)
  Definition shorten_last (done : list rblock) (next_key : bytes) : option (list rblock) :=
    match done with
    | [] => Some []
    | rb :: r =>
        if blt (rb_sep rb) next_key
        then Some ({| rb_sep := find_shorter (rb_sep rb) next_key; rb_first_ord := rb_first_ord rb;
                      rb_keys := rb_keys rb; rb_vals := rb_vals rb |} :: r)
        else None
    end.

  (* order_fixed = false:
       let increasing_keys = add_len > 0 && (self.previous_key.len() == keep_len)
           || self.previous_key.is_empty()
           || self.previous_key[keep_len] < key[keep_len];
     order_fixed = true:
       let increasing_keys = add_len > 0 && (self.previous_key.len() == keep_len)
           || first_key_of_the_block
           || (keep_len < self.previous_key.len() && keep_len < key.len()
               && self.previous_key[keep_len] < key[keep_len]);
     assert!(increasing_keys, ..)                         -- None = the assertion passes *)
  Definition check_increasing (first_key_of_the_block : bool) (prev key : bytes) (keep add : nat) : option panic :=
    if Nat.ltb 0 add && Nat.eqb (length prev) keep then None
    else if order_fixed then
      (if first_key_of_the_block then None
       else if Nat.ltb keep (length prev) && Nat.ltb keep (length key) && N.ltb (nth keep prev 0) (nth keep key 0)
            then None else Some AssertKeysIncreasing)
    else if (match prev with [] => true | _ => false end) then None
    else match nth_error prev keep with
         | None => Some IndexOutOfBounds
         | Some p => match nth_error key keep with
                     | None => Some IndexOutOfBounds
                     | Some k => if N.ltb p k then None else Some AssertKeysIncreasing
                     end
         end.

  (* self.previous_key.resize(key.len(), 0u8); self.previous_key[keep_len..].copy_from_slice(&key[keep_len..]) *)
  Definition set_prev (prev key : bytes) (keep : nat) : bytes :=
    firstn keep (firstn (length key) (prev ++ repeat 0 (length key))) ++ skipn keep key.

  Definition insert_key (st : wstate) (key : bytes) : wres :=
    let first_key_of_the_block := N.eqb (w_first_ord st) (w_num_terms st) in
    match (if first_key_of_the_block then shorten_last (w_done st) key else Some (w_done st)) with
    | None => WPanic AssertShorterLeftLtRight
    | Some done' =>
        let keep := lcp (w_prev st) key in
        let add := (length key - keep)%nat in
        match check_increasing first_key_of_the_block (w_prev st) key keep add with
        | Some p => WPanic p
        | None =>
            WOk {| w_prev := set_prev (w_prev st) key keep;
                   w_done := done';
                   w_block := w_block st ++ entry_bytes (keep, skipn keep key);
                   w_vals := w_vals st; w_num_terms := w_num_terms st; w_first_ord := w_first_ord st |}
        end
    end.

  Definition flush (st : wstate) (clear_prev : bool) : wstate :=
    {| w_prev := if clear_prev then [] else w_prev st;
       w_done := {| rb_sep := w_prev st; rb_first_ord := w_first_ord st; rb_keys := w_block st; rb_vals := w_vals st |} :: w_done st;
       w_block := []; w_vals := []; w_num_terms := w_num_terms st; w_first_ord := w_num_terms st |}.

  (* insert_value: write the value, count the term, flush_block_if_required (block.len() > block_len) *)
  Definition insert_value (st : wstate) (v : V) : wstate :=
    let st1 := {| w_prev := w_prev st; w_done := w_done st; w_block := w_block st; w_vals := w_vals st ++ [v];
                  w_num_terms := w_num_terms st + 1; w_first_ord := w_first_ord st |} in
    if N.ltb block_len (N.of_nat (length (w_block st1))) then flush st1 true else st1.

  Definition insert (st : wstate) (kv : bytes * V) : wres :=
    match insert_key st (fst kv) with
    | WPanic p => WPanic p
    | WOk st1 => WOk (insert_value st1 (snd kv))
    end.

  Fixpoint run (st : wstate) (kvs : list (bytes * V)) : wres :=
    match kvs with
    | [] => WOk st
    | kv :: r => match insert st kv with WPanic p => WPanic p | WOk st1 => run st1 r end
    end.

  (* finish: flush the last block if it holds anything; the dictionary = blocks in file order *)
  Definition finish (st : wstate) : list rblock * N :=
    let st' := match w_block st with [] => st | _ => flush st false end in
    (rev (w_done st'), w_num_terms st').

  Definition build (kvs : list (bytes * V)) : option (list rblock * N) :=
    match run w_init kvs with WOk st => Some (finish st) | WPanic _ => None end.

  (* index of the first insert that panics, if any (for the malformed-stream cases) *)
  Fixpoint first_reject (st : wstate) (kvs : list (bytes * V)) (i : N) : option N :=
    match kvs with
    | [] => None
    | kv :: r => match insert st kv with WPanic _ => Some i | WOk st1 => first_reject st1 r (i + 1) end
    end.
End Writer.
Arguments rblock : clear implicits.
Arguments wstate : clear implicits.
Arguments wres : clear implicits.
