(* C03 -- helpers used by the generated correspondence cases (harness/src/bin/c03.rs). *)
From TV Require Import Base.Prelude Query.QuerySem Query.Compose Query.Phrase.
Local Open Scope N_scope.

Definition mkseg (docs : list doc) (l : list (N * bool)) : segment :=
  map (fun p => (nth (N.to_nat (fst p)) docs dummy_doc, snd p)) l.

Definition mk_acc (tbl : list (list N)) : N -> N -> bool :=
  fun a t => existsb (N.eqb t) (nth (N.to_nat a) tbl []).

Fixpoint ninsert (x : N) (l : list N) : list N :=
  match l with
  | [] => [x]
  | y :: r => if x <=? y then x :: l else y :: ninsert x r
  end.
Definition nsort (l : list N) : list N := fold_right ninsert [] l.

(* spec: the ids returned by the implementation are exactly the ids of `eval` over the model corpus *)
Definition check_spec (acc : N -> N -> bool) (corpus : segment) (q : query) (ids : list N) : bool :=
  list_eqb N.eqb (nsort (uids (eval acc corpus q))) ids.

(* tie: the model of the scorer tree, segment by segment (layout read back from the index);
   leaves: Compose.std_leaf_scorer, phrases through the algorithmic model Phrase.phrase_alg *)
Definition model_ids_v (v : bool) (acc : N -> N -> bool) (segs : list segment) (sc : bool) (q : query) : list N :=
  nsort (flat_map (fun s => map (fun i => d_uid (doc_at s i))
                               (collected s (collect_model s SHAPE (alg_leaf_scorer_v acc s v) sc q))) segs).
Definition model_ids := model_ids_v false.

Definition model_count_v (v : bool) (acc : N -> N -> bool) (segs : list segment) (sc : bool) (q : query) : N :=
  fold_right (fun s n => N.of_nat (count_model_with acc s SHAPE (alg_leaf_scorer_v acc s v) sc q) + n) 0 segs.
Definition model_count := model_count_v false.

(* ids_ns: DocSetCollector without scoring; ids_sc: collectors with scoring (TopDocs / for_each);
   cnt: Count collector; qcnt: Query::count *)
Definition check_tie_v (v : bool) (acc : N -> N -> bool) (segs : list segment) (q : query)
                     (ids_ns ids_sc : list N) (cnt qcnt : N) : bool :=
  list_eqb N.eqb (model_ids_v v acc segs false q) ids_ns
  && list_eqb N.eqb (model_ids_v v acc segs true q) ids_sc
  && N.eqb (model_count_v v acc segs false q) cnt
  && N.eqb (model_count_v v acc segs false q) qcnt.
Definition check_tie := check_tie_v false.

(* known class F32: the faithful model (carried slop, cost order, scoring-dependent last step) predicts
   exactly what the implementation returned -- either the code as it is, or the variant of the proposed
   patch (non-scoring path = carried-slop scan), so that the check is stable across that fix *)
Definition check_f32 (acc : N -> N -> bool) (segs : list segment) (corpus : segment) (q : query)
                     (ids_ns ids_sc : list N) (cnt qcnt : N) : bool :=
  check_tie_v false acc segs q ids_ns ids_sc cnt qcnt || check_tie_v true acc segs q ids_ns ids_sc cnt qcnt.

(* a single phrase on a single document: Some matched / None = out of fuel *)
Definition phrase_doc (sc : bool) (toks : list N) (ts : list (Z * N)) (slop : N) : option bool :=
  phrase_match sc slop (phrase_lists toks ts).

(* ---- exists over the columns read back from a segment (Query/Exists.v) *)
From TV Require Import Query.Exists.

Definition card_of (k : N) : cardinality :=
  match k with 0 => CardEmpty | 1 => CardFull | 2 => CardOptional | _ => CardMultivalued end.

Definition column_wf_b (ids : list N) (c : column) : bool :=
  match fst c with
  | CardEmpty => is_nil (snd c)
  | CardFull => forallb (fun i => mem i (snd c)) ids
  | _ => true
  end.

(* cols: (index kind, docs with a value) of every column the query expands to, as read from the segment;
   scorer_docs: the documents of ExistsWeight::scorer on that segment (deleted ones included).
   (1) the columns are well-formed, (2) the model of the scorer returns the scorer's documents,
   (3) the columns represent the documents: hypothesis of exists_scorer_meets_leaf_contract. *)
Definition check_exists_cols (seg : segment) (fs : list N) (cols : list (N * list N)) (scorer_docs : list N) : bool :=
  let cs := map (fun c => (card_of (fst c), snd c)) cols in
  let ids := seg_ids seg in
  forallb (column_wf_b ids) cs
  && list_eqb N.eqb (filter (dmem (exists_scorer (max_doc seg) true cs)) ids) scorer_docs
  && forallb (fun i => Bool.eqb (existsb (fun c => mem i (snd c)) cs) (existsb (has_value (doc_at seg i)) fs)) ids.
