(* C03 -- order-preserving encodings used by range queries:
     common/src/lib.rs  i64_to_u64, f64_to_u64 (HIGHEST_BIT regenerated into Generated/Constants.v)
     columnar/src/column_values/monotonic_mapping.rs  (bool -> 0/1, DateTime -> i64 -> u64, u64 identity)
   Terms store the u64 big-endian, fast-field columns store the u64: a range over encoded values
   is the range over the typed values. *)
From TV Require Import Base.Prelude Query.QuerySem Generated.Constants.
Local Open Scope N_scope.

Definition as_u64 (z : Z) : N := Z.to_N (z mod 2 ^ 64).                         (* `val as u64` *)
Definition i64_to_u64 (z : Z) : N := N.lxor (as_u64 z) C03_HIGHEST_BIT.          (* (val as u64) ^ HIGHEST_BIT *)
Definition not64 (x : N) : N := N.lnot x 64.                                     (* !bits on u64 *)
Definition f64_to_u64 (bits : N) : N :=
  if bits <? 2 ^ 63 (* val.is_sign_positive() *) then N.lxor bits C03_HIGHEST_BIT else not64 bits.

Definition enc (v : value) : N :=
  match v with
  | VI64 z => i64_to_u64 z
  | VU64 n => n
  | VBool b => if b then 1 else 0
  | VDate z => i64_to_u64 z
  | VF64 bits => f64_to_u64 bits
  end.

Definition wf_value (v : value) : Prop :=
  match v with
  | VI64 z | VDate z => (- 2 ^ 63 <= z < 2 ^ 63)%Z
  | VU64 n => n < 2 ^ 64
  | VBool _ => True
  | VF64 bits => bits < 2 ^ 64
  end.

Lemma highest_bit : C03_HIGHEST_BIT = 2 ^ 63.
Proof. vm_compute. reflexivity. Qed.

Lemma land_high x : x < 2 ^ 63 -> N.land x (2 ^ 63) = 0.
Proof.
  intros H. apply N.bits_inj. intros n. rewrite N.land_spec, N.bits_0, N.pow2_bits_eqb.
  destruct (N.eqb 63 n) eqn:E; [|now rewrite andb_false_r].
  apply N.eqb_eq in E. subst n. rewrite andb_true_r.
  rewrite <- (N.mod_small x (2 ^ 63)) by exact H. apply N.mod_pow2_bits_high. lia.
Qed.

Lemma lxor_high_low x : x < 2 ^ 63 -> N.lxor x (2 ^ 63) = x + 2 ^ 63.
Proof. intros H. symmetry. apply N.add_nocarry_lxor. now apply land_high. Qed.

Lemma lxor_high_high x : 2 ^ 63 <= x -> x < 2 ^ 64 -> N.lxor x (2 ^ 63) = x - 2 ^ 63.
Proof.
  intros H1 H2. set (lo := x - 2 ^ 63). assert (Hlo : lo < 2 ^ 63) by (unfold lo; lia).
  assert (E : x = N.lxor lo (2 ^ 63)) by (rewrite lxor_high_low by exact Hlo; unfold lo; lia).
  rewrite E at 1. now rewrite N.lxor_assoc, N.lxor_nilpotent, N.lxor_0_r.
Qed.

Lemma not64_sub x : x < 2 ^ 64 -> not64 x = 2 ^ 64 - 1 - x.
Proof.
  intros H. unfold not64. destruct (N.eq_dec x 0) as [->|Hx].
  - rewrite N.lnot_sub_low by (cbn; lia). rewrite N.ones_equiv. lia.
  - rewrite N.lnot_sub_low by (apply N.log2_lt_pow2; lia). rewrite N.ones_equiv. lia.
Qed.

(* the encodings are the typed key shifted by a constant *)
Lemma i64_to_u64_val z : (- 2 ^ 63 <= z < 2 ^ 63)%Z -> Z.of_N (i64_to_u64 z) = (z + 2 ^ 63)%Z.
Proof.
  intros H. unfold i64_to_u64, as_u64. rewrite highest_bit.
  destruct (Z_lt_le_dec z 0) as [Hn|Hp].
  - assert (E : (z mod 2 ^ 64 = z + 2 ^ 64)%Z).
    { symmetry. apply (Z.mod_unique z (2 ^ 64) (-1)); lia. }
    rewrite E. rewrite lxor_high_high by lia. lia.
  - rewrite Z.mod_small by lia. rewrite lxor_high_low by lia. lia.
Qed.

Lemma f64_to_u64_val bits : bits < 2 ^ 64 -> Z.of_N (f64_to_u64 bits) = (f64_key bits + 2 ^ 63)%Z.
Proof.
  intros H. unfold f64_to_u64, f64_key. rewrite highest_bit.
  destruct (bits <? 2 ^ 63) eqn:E.
  - rewrite lxor_high_low by lia. lia.
  - rewrite not64_sub by exact H. lia.
Qed.

Definition shift_of (v : value) : Z := match v with VI64 _ | VDate _ | VF64 _ => (2 ^ 63)%Z | _ => 0%Z end.

Lemma enc_key v : wf_value v -> Z.of_N (enc v) = (vkey v + shift_of v)%Z.
Proof.
  destruct v as [z|n|b|z|bits]; cbn [wf_value enc vkey shift_of]; intros H.
  - now apply i64_to_u64_val.
  - lia.
  - destruct b; reflexivity.
  - now apply i64_to_u64_val.
  - now apply f64_to_u64_val.
Qed.

Lemma shift_tag a b : vtag a = vtag b -> shift_of a = shift_of b.
Proof. destruct a, b; cbn; intros H; try reflexivity; discriminate. Qed.

Lemma enc_u64 v : wf_value v -> enc v < 2 ^ 64.
Proof.
  intros H. pose proof (enc_key v H) as E.
  destruct v as [z|n|b|z|bits]; cbn [wf_value vkey shift_of] in *; try lia.
  - destruct b; cbn; lia.
  - unfold f64_key in E. destruct (bits <? 2 ^ 63) eqn:B; lia.
Qed.

(* a < b  <->  enc a < enc b   (i64, u64, bool, date, f64 non-NaN in IEEE total order) *)
Theorem enc_lt a b : wf_value a -> wf_value b -> vtag a = vtag b ->
  vlt a b = (enc a <? enc b).
Proof.
  intros Ha Hb Ht. unfold vlt. rewrite Ht, N.eqb_refl. cbn [andb].
  pose proof (enc_key a Ha). pose proof (enc_key b Hb). pose proof (shift_tag a b Ht).
  destruct (Z.ltb (vkey a) (vkey b)) eqn:E; symmetry; [apply N.ltb_lt|apply N.ltb_ge]; lia.
Qed.

Theorem enc_le a b : wf_value a -> wf_value b -> vtag a = vtag b ->
  vle a b = (enc a <=? enc b).
Proof.
  intros Ha Hb Ht. unfold vle. rewrite Ht, N.eqb_refl. cbn [andb].
  pose proof (enc_key a Ha). pose proof (enc_key b Hb). pose proof (shift_tag a b Ht).
  destruct (Z.leb (vkey a) (vkey b)) eqn:E; symmetry; [apply N.leb_le|apply N.leb_gt]; lia.
Qed.

Theorem enc_injective a b : wf_value a -> wf_value b -> vtag a = vtag b -> enc a = enc b -> vkey a = vkey b.
Proof.
  intros Ha Hb Ht E. pose proof (enc_key a Ha). pose proof (enc_key b Hb). pose proof (shift_tag a b Ht). lia.
Qed.

(* range over the encoded values (term dictionary order / fast-field column values) *)
Definition above_enc (lo : bound) (x : N) : bool :=
  match lo with Unb => true | Incl l => enc l <=? x | Excl l => enc l <? x end.
Definition below_enc (hi : bound) (x : N) : bool :=
  match hi with Unb => true | Incl h => x <=? enc h | Excl h => x <? enc h end.

Definition bound_ok (v : value) (b : bound) : Prop :=
  match b with Unb => True | Incl x | Excl x => wf_value x /\ vtag x = vtag v end.

Theorem range_encoding lo hi v : wf_value v -> bound_ok v lo -> bound_ok v hi ->
  in_range lo hi v = above_enc lo (enc v) && below_enc hi (enc v).
Proof.
  intros Hv Hlo Hhi. unfold in_range. f_equal.
  - destruct lo as [|l|l]; cbn [above above_enc bound_ok] in *; [reflexivity| |]; destruct Hlo as [Hl Ht].
    + now apply enc_le.
    + now apply enc_lt.
  - destruct hi as [|h|h]; cbn [below below_enc bound_ok] in *; [reflexivity| |]; destruct Hhi as [Hh Ht].
    + apply enc_le; auto.
    + apply enc_lt; auto.
Qed.
