(* C03 -- model of phrase matching on position lists:
     src/query/phrase_query/phrase_scorer.rs  (intersection_exists, intersection_count, intersection,
       intersection_count_with_slop, intersection_exists_with_slop, intersection_count_with_carrying_slop,
       PhraseScorer::{phrase_match, phrase_exists, compute_phrase_count, compute_phrase_match})
     src/query/intersection.rs (Intersection::new sorts the term postings by cost = doc_freq),
     src/query/phrase_query/phrase_weight.rs (EmptyScorer when a term is missing).
   Position lists are the positions of each term shifted by (max_offset - offset): an exact phrase occurrence
   is a value common to all lists.  Loops whose indices move on both arrays are written with fuel
   (None = out of fuel; `*_fuel_ok` lemmas in PhraseProofs.v show it is never returned). *)
From TV Require Import Base.Prelude Query.QuerySem Query.Compose.
Local Open Scope N_scope.

Definition absdiff (a b : N) : N := if a <? b then b - a else a - b.

(* ---- exact matching *)
Fixpoint intersection_exists (l r : list N) : bool :=
  match l with
  | [] => false
  | x :: l' =>
      (fix go (r : list N) : bool :=
         match r with
         | [] => false
         | y :: r' => match x ?= y with
                      | Lt => intersection_exists l' (y :: r')
                      | Eq => true
                      | Gt => go r'
                      end
         end) r
  end.

Fixpoint intersection (l r : list N) : list N :=
  match l with
  | [] => []
  | x :: l' =>
      (fix go (r : list N) : list N :=
         match r with
         | [] => []
         | y :: r' => match x ?= y with
                      | Lt => intersection l' (y :: r')
                      | Eq => x :: intersection l' r'
                      | Gt => go r'
                      end
         end) r
  end.

Definition intersection_count (l r : list N) : nat := length (intersection l r).

(* ---- two terms with slop *)
Fixpoint intersection_exists_with_slop (slop : N) (l r : list N) : bool :=
  match l with
  | [] => false
  | x :: l' =>
      (fix go (r : list N) : bool :=
         match r with
         | [] => false
         | y :: r' => if absdiff x y <=? slop then true
                      else if x <? y then intersection_exists_with_slop slop l' (y :: r')
                      else go r'
         end) r
  end.

Fixpoint drop_le (y : N) (l : list N) : list N :=
  match l with
  | [] => []
  | z :: l' => if z <=? y then drop_le y l' else l
  end.

(* intersection_count_with_slop: returns the new left list (the matched right values; count = length).
   `while next_left_val <= right_val { left_index += 1 }` then both indices move by one. *)
Fixpoint intersection_with_slop (fuel : nat) (slop : N) (l r : list N) : option (list N) :=
  match fuel with
  | O => None
  | S f =>
      match l, r with
      | [], _ => Some []
      | _, [] => Some []
      | x :: l', y :: r' =>
          if absdiff x y <=? slop then option_map (cons y) (intersection_with_slop f slop (drop_le y l') r')
          else if x <? y then intersection_with_slop f slop l' r
          else intersection_with_slop f slop l r'
      end
  end.

(* ---- three and more terms: slop carried along (positions paired with the slop spent so far, u8) *)
Definition add_val (upd : bool) (v : N * N) (buf : list (N * N)) : list (N * N) :=   (* buf is reversed *)
  if upd then
    match buf with
    | (p, s) :: b' => if p =? fst v then (p, N.min s (snd v)) :: b' else v :: buf
    | [] => [v]
    end
  else buf.

Definition as_u8 (x : N) : N := x mod 256.

Fixpoint walk (upd : bool) (slop_so_far larger cur : N) (nexts : list N) (buf : list (N * N)) : N * list (N * N) :=
  match nexts with
  | [] => (cur, buf)
  | nx :: rest =>
      if larger <? nx then (cur, buf)
      else let ns := slop_so_far + absdiff nx larger in
           walk upd slop_so_far larger ns rest (add_val upd (nx, as_u8 ns) buf)
  end.

Fixpoint carry (fuel : nat) (upd : bool) (max_slop : N) (last_left : N * N) (last_right : N)
               (l : list (N * N)) (r : list N) (count : nat) (buf : list (N * N)) : option (nat * list (N * N)) :=
  match fuel with
  | O => None
  | S f =>
      match l, r with
      | [], _ =>
          Some (count, fold_left (fun b rv => let ns := absdiff (fst last_left) rv + snd last_left in
                                               if ns <=? max_slop then add_val upd (rv, as_u8 ns) b else b) r buf)
      | _, [] =>
          Some (count, fold_left (fun b ls => let ns := absdiff (fst ls) last_right + snd ls in
                                               if ns <=? max_slop then add_val upd (fst ls, as_u8 ns) b else b) l buf)
      | (lv, s) :: l', rv :: r' =>
          let distance := s + absdiff lv rv in
          if distance <=? max_slop then
            let smaller := if lv <? rv then lv else rv in
            let larger := if lv <? rv then rv else lv in
            let nexts := if lv <? rv then map fst l' else r' in
            let buf1 := add_val upd (smaller, as_u8 distance) buf in
            let w := walk upd s larger distance nexts buf1 in
            let buf3 := add_val upd (larger, as_u8 (fst w)) (snd w) in
            carry f upd max_slop last_left last_right l' r' (S count) buf3
          else if lv <? rv then carry f upd max_slop last_left last_right l' r count buf
          else carry f upd max_slop last_left last_right l r' count buf
      end
  end.

(* intersection_count_with_carrying_slop: (count, new left positions with their slops) *)
Definition carrying (upd : bool) (max_slop : N) (l : list (N * N)) (r : list N) : option (nat * list (N * N)) :=
  match l, r with
  | [], _ => Some (O, [])
  | _, [] => Some (O, [])
  | _, _ => option_map (fun cb => (fst cb, rev (snd cb)))
              (carry (S (length l + length r)) upd max_slop (last l (0, 0)) (last r 0) l r O [])
  end.

(* ---- PhraseScorer::phrase_match on the position lists of the terms (in the scorer's order) *)
Definition step_middle (slop : N) (lft : option (list (N * N))) (right : list N) : option (list (N * N)) :=
  match lft with
  | None => None
  | Some lf =>
      if 0 <? slop then option_map snd (carrying true slop lf right)   (* num_terms > 2 inside this loop *)
      else Some (map (fun p => (p, 0)) (intersection (map fst lf) right))
  end.

Definition phrase_match (scoring : bool) (slop : N) (lists : list (list N)) : option bool :=
  match lists with
  | [] => Some false
  | l0 :: rest =>
      let n := length lists in
      let middle := removelast rest in
      let lastl := last rest [] in
      match fold_left (step_middle slop) middle (Some (map (fun p => (p, 0)) l0)) with
      | None => None
      | Some lft =>
          let lp := map fst lft in
          if scoring then
            (* compute_phrase_count > 0 *)
            if 0 <? slop then
              if Nat.ltb 2 n then option_map (fun cb => Nat.ltb 0 (fst cb)) (carrying false slop lft lastl)
              else option_map (fun m => Nat.ltb 0 (length m)) (intersection_with_slop (S (length lp + length lastl)) slop lp lastl)
            else Some (Nat.ltb 0 (intersection_count lp lastl))
          else
            (* phrase_exists: the slops carried so far are NOT consulted *)
            if 0 <? slop then Some (intersection_exists_with_slop slop lp lastl)
            else Some (intersection_exists lp lastl)
      end
  end.

(* ---- from a document to the position lists *)
Definition max_offset (ts : list (Z * N)) : Z := fold_right (fun ot m => Z.max (fst ot) m) 0%Z ts.

Definition shifted_positions (toks : list N) (maxoff : Z) (ot : Z * N) : list N :=
  map (fun p => Z.to_N (p + (maxoff - fst ot))) (positions_of (snd ot) toks).

Definition phrase_lists (toks : list N) (ts : list (Z * N)) : list (list N) :=
  map (shifted_positions toks (max_offset ts)) ts.

(* stable sort by cost (sort_by_key) *)
Fixpoint insert_by {A} (key : A -> nat) (x : A) (l : list A) : list A :=
  match l with
  | [] => [x]
  | y :: r => if Nat.leb (key x) (key y) then x :: l else y :: insert_by key x r   (* <= : fold_right inserts the later elements first, so ties keep their order *)
  end.
Definition sort_by {A} (key : A -> nat) (l : list A) : list A := fold_right (insert_by key) [] l.

Section Seg.
  Variable accepts : N -> N -> bool.
  Variable seg : segment.

  Definition doc_freq (f t : N) : nat := length (postings accepts seg (LTerm f t)).

  (* the terms in the order of the scorer: Intersection::new sorts by cost; the offsets travel with the terms *)
  Definition scorer_order (f : N) (ts : list (Z * N)) : list (Z * N) :=
    sort_by (fun ot => doc_freq f (snd ot)) ts.

  (* `ordered` = scorer_order f ts, computed once per scorer *)
  Definition phrase_alg (sc : bool) (f : N) (ordered : list (Z * N)) (maxoff : Z) (slop : N) (i : N) : bool :=
    let toks := tokens (doc_at seg i) f in
    match phrase_match sc slop (map (shifted_positions toks maxoff) ordered) with
    | Some b => b
    | None => false
    end.

  (* leaf scorers with the algorithmic phrase scorer *)
  (* `carry_last` = false: the code as it is (phrase_exists forgets the carried slop);
     `carry_last` = true: the variant proposed in findings/C03-phrase-slop-three-terms.md, where the
     non-scoring path runs the carried-slop scan of the scoring path *)
  Definition alg_leaf_scorer_v (carry_last : bool) (sc : bool) (l : leaf) : dexpr :=
    match l with
    | LPhrase f ts slop =>
        if forallb (fun ot => term_present accepts seg f (snd ot)) ts
        then let ordered := scorer_order f ts in
             let maxoff := max_offset ts in
             DLeaf (filter (phrase_alg (sc || carry_last) f ordered maxoff slop) (seg_ids seg))
        else DEmpty
    | _ => std_leaf_scorer accepts seg sc l
    end.
  Definition alg_leaf_scorer := alg_leaf_scorer_v false.
End Seg.
