(* C03 -- proofs about Phrase.v: two-pointer matching on sorted position lists. *)
From TV Require Import Base.Prelude Query.QuerySem Query.Compose Query.Phrase.
From Coq Require Import Sorted.
Local Open Scope N_scope.

Definition near (s x y : N) : Prop := absdiff x y <= s.
Definition pair_within (s : N) (l r : list N) : Prop := exists x y, In x l /\ In y r /\ near s x y.

Lemma absdiff_le s x y : absdiff x y <=? s = true <-> near s x y.
Proof. unfold near. apply N.leb_le. Qed.

(* unfolding equations of the nested fixpoints *)
Lemma ews_cons s x l' y r' :
  intersection_exists_with_slop s (x :: l') (y :: r') =
  if absdiff x y <=? s then true
  else if x <? y then intersection_exists_with_slop s l' (y :: r')
  else intersection_exists_with_slop s (x :: l') r'.
Proof. reflexivity. Qed.

Lemma ews_nil_r s l : intersection_exists_with_slop s l [] = false.
Proof. destruct l; reflexivity. Qed.

Lemma ie_cons x l' y r' :
  intersection_exists (x :: l') (y :: r') =
  match x ?= y with Lt => intersection_exists l' (y :: r') | Eq => true | Gt => intersection_exists (x :: l') r' end.
Proof. reflexivity. Qed.

Lemma ie_nil_r l : intersection_exists l [] = false.
Proof. destruct l; reflexivity. Qed.

(* exact matching is slop matching with slop 0 *)
Lemma intersection_exists_is_slop0 l : forall r, intersection_exists l r = intersection_exists_with_slop 0 l r.
Proof.
  induction l as [|x l' IHl]; intros r; [reflexivity|].
  induction r as [|y r' IHr]; [reflexivity|].
  rewrite ie_cons, ews_cons. unfold absdiff.
  destruct (x ?= y) eqn:E.
  - apply N.compare_eq in E. subst. rewrite N.ltb_irrefl, N.sub_diag. reflexivity.
  - assert (Hxy : x < y) by (apply N.compare_lt_iff; exact E). assert (x <? y = true) as -> by lia.
    assert (y - x <=? 0 = false) as -> by lia. apply IHl.
  - assert (Hxy : y < x) by (apply N.compare_gt_iff; exact E). assert (x <? y = false) as -> by lia.
    assert (x - y <=? 0 = false) as -> by lia. apply IHr.
Qed.

(* soundness needs no order *)
Lemma ews_sound s l : forall r, intersection_exists_with_slop s l r = true -> pair_within s l r.
Proof.
  induction l as [|x l' IHl]; intros r; [discriminate|].
  induction r as [|y r' IHr]; [discriminate|].
  rewrite ews_cons. destruct (absdiff x y <=? s) eqn:E.
  - intros _. exists x, y. repeat split; [now left|now left|now apply absdiff_le].
  - destruct (x <? y).
    + intros H. destruct (IHl _ H) as [a [b [Ha [Hb Hn]]]]. exists a, b. repeat split; [now right|exact Hb|exact Hn].
    + intros H. destruct (IHr H) as [a [b [Ha [Hb Hn]]]]. exists a, b. repeat split; [exact Ha|now right|exact Hn].
Qed.

(* completeness on sorted lists *)
Lemma ews_complete s l : forall r, StronglySorted N.le l -> StronglySorted N.le r ->
  pair_within s l r -> intersection_exists_with_slop s l r = true.
Proof.
  induction l as [|x l' IHl]; intros r Sl Sr [a [b [Ha [Hb Hn]]]]; [destruct Ha|].
  induction r as [|y r' IHr]; [destruct Hb|].
  rewrite ews_cons. destruct (absdiff x y <=? s) eqn:E; [reflexivity|].
  apply N.leb_gt in E.
  inversion Sl as [|? ? Sl' Fl]; subst. inversion Sr as [|? ? Sr' Fr]; subst.
  destruct (x <? y) eqn:Exy.
  - apply IHl; [exact Sl'|exact Sr|].
    destruct Ha as [<-|Ha].
    + exfalso. assert (y <= b) by (destruct Hb as [<-|Hb]; [lia|rewrite Forall_forall in Fr; now apply Fr]).
      unfold near, absdiff in *. destruct (x <? b) eqn:E1; destruct (x <? y) eqn:E2; lia.
    + exists a, b. repeat split; assumption.
  - apply IHr; [exact Sr'|].
    + destruct Hb as [<-|Hb].
      * exfalso. assert (x <= a) by (destruct Ha as [<-|Ha]; [lia|rewrite Forall_forall in Fl; now apply Fl]).
        unfold near, absdiff in *. destruct (a <? y) eqn:E1; destruct (x <? y) eqn:E2; lia.
      * exact Hb.
Qed.

Theorem ews_spec s l r : StronglySorted N.le l -> StronglySorted N.le r ->
  (intersection_exists_with_slop s l r = true <-> pair_within s l r).
Proof. intros Sl Sr. split; [apply ews_sound|now apply ews_complete]. Qed.

(* the counting variants find a first match exactly when the existence variants do *)
Lemma iws_exists fuel : forall s l r, (length l + length r < fuel)%nat ->
  exists m, intersection_with_slop fuel s l r = Some m /\ Nat.ltb 0 (length m) = intersection_exists_with_slop s l r.
Proof.
  induction fuel as [|f IH]; intros s l r Hf; [lia|].
  destruct l as [|x l']; [exists []; split; reflexivity|].
  destruct r as [|y r']; [exists []; split; reflexivity|].
  cbn [intersection_with_slop]. rewrite ews_cons. cbn [length] in Hf.
  destruct (absdiff x y <=? s).
  - assert (Hd : (length (drop_le y l') <= length l')%nat).
    { clear. induction l' as [|z t IHt]; [cbn; lia|]. cbn [drop_le]. destruct (z <=? y); cbn [length] in *; lia. }
    destruct (IH s (drop_le y l') r') as [m [-> _]]; [lia|]. exists (y :: m). split; reflexivity.
  - destruct (x <? y).
    + apply IH. cbn [length]. lia.
    + apply IH. cbn [length]. lia.
Qed.

Lemma ic_cons x l' y r' :
  intersection (x :: l') (y :: r') =
  match x ?= y with Lt => intersection l' (y :: r') | Eq => x :: intersection l' r' | Gt => intersection (x :: l') r' end.
Proof. reflexivity. Qed.

Lemma intersection_count_exists l : forall r, Nat.ltb 0 (intersection_count l r) = intersection_exists l r.
Proof.
  unfold intersection_count.
  induction l as [|x l' IHl]; intros r; [reflexivity|].
  induction r as [|y r' IHr]; [reflexivity|].
  rewrite ic_cons, ie_cons. destruct (x ?= y); [reflexivity|apply IHl|apply IHr].
Qed.

(* ---- PhraseScorer::phrase_match for two terms: scoring on or off, any slop *)
Lemma map_fst_zero l : map fst (map (fun p : N => (p, 0)) l) = l.
Proof. induction l as [|a l IH]; [reflexivity|]. cbn [map fst]. now rewrite IH. Qed.

Theorem phrase_match_two sc s l0 l1 : StronglySorted N.le l0 -> StronglySorted N.le l1 ->
  exists b, phrase_match sc s [l0; l1] = Some b /\ (b = true <-> pair_within s l0 l1).
Proof.
  intros S0 S1. unfold phrase_match. cbn [length removelast last fold_left]. rewrite map_fst_zero.
  change (Nat.ltb 2 2) with false. cbv iota.
  destruct sc.
  - destruct (0 <? s) eqn:Es.
    + destruct (iws_exists (S (length l0 + length l1)) s l0 l1) as [m [-> Hm]]; [lia|].
      cbn [option_map]. eexists. split; [reflexivity|]. rewrite Hm. now apply ews_spec.
    + eexists. split; [reflexivity|]. rewrite intersection_count_exists, intersection_exists_is_slop0.
      assert (s = 0) as -> by lia. now apply ews_spec.
  - destruct (0 <? s) eqn:Es.
    + eexists. split; [reflexivity|]. now apply ews_spec.
    + eexists. split; [reflexivity|]. rewrite intersection_exists_is_slop0.
      assert (s = 0) as -> by lia. now apply ews_spec.
Qed.

(* ---- from the document to the lists: two-term phrases meet the documented meaning *)
Lemma positions_from_ge toks : forall p t x, In x (positions_from p t toks) -> (p <= x)%Z.
Proof.
  induction toks as [|a r IH]; intros p t x H; [destruct H|].
  cbn [positions_from] in H. destruct (N.eqb a t).
  - destruct H as [<-|H]; [lia|]. apply IH in H. lia.
  - apply IH in H. lia.
Qed.

Lemma positions_from_sorted toks : forall p t, StronglySorted Z.le (positions_from p t toks).
Proof.
  induction toks as [|a r IH]; intros p t; [constructor|].
  cbn [positions_from]. destruct (N.eqb a t); [|apply IH].
  constructor; [apply IH|]. apply Forall_forall. intros x Hx. apply positions_from_ge in Hx. lia.
Qed.

Lemma shifted_sorted toks m ot : StronglySorted N.le (shifted_positions toks m ot).
Proof.
  unfold shifted_positions, positions_of.
  pose proof (positions_from_sorted toks 0 (snd ot)) as H.
  induction H as [|a l Hs IH Hf]; [constructor|].
  cbn [map]. constructor; [exact IH|].
  apply Forall_forall. intros x Hx. apply in_map_iff in Hx. destruct Hx as [p [<- Hp]].
  rewrite Forall_forall in Hf. specialize (Hf p Hp). lia.
Qed.

Lemma absdiff_shift (m o0 o1 p0 p1 : Z) : (0 <= p0 -> 0 <= p1 -> o0 <= m -> o1 <= m ->
  Z.of_N (absdiff (Z.to_N (p0 + (m - o0))) (Z.to_N (p1 + (m - o1)))) = Z.abs ((p1 - o1) - (p0 - o0)))%Z.
Proof. intros. unfold absdiff. destruct (_ <? _) eqn:E; lia. Qed.

Lemma pair_within_sym s l r : pair_within s l r -> pair_within s r l.
Proof.
  intros [x [y [Hx [Hy Hn]]]]. exists y, x. repeat split; try assumption.
  unfold near, absdiff in *. destruct (x <? y) eqn:E1; destruct (y <? x) eqn:E2; lia.
Qed.

Lemma phrase_spec_two toks o0 t0 o1 t1 s m : (o0 <= m)%Z -> (o1 <= m)%Z ->
  phrase_spec toks [(o0, t0); (o1, t1)] s = true <->
  pair_within s (shifted_positions toks m (o0, t0)) (shifted_positions toks m (o1, t1)).
Proof.
  intros H0 H1. unfold phrase_spec, chain, pair_within, shifted_positions, near. cbn [fst snd].
  rewrite existsb_exists. split.
  - intros [p0 [Hp0 H]]. apply existsb_exists in H. destruct H as [p1 [Hp1 H]].
    rewrite andb_true_r in H. apply Z.leb_le in H.
    exists (Z.to_N (p0 + (m - o0))), (Z.to_N (p1 + (m - o1))).
    split; [apply (in_map (fun p => Z.to_N (p + (m - o0)))); exact Hp0|].
    split; [apply (in_map (fun p => Z.to_N (p + (m - o1)))); exact Hp1|].
    pose proof (positions_from_ge _ _ _ _ Hp0). pose proof (positions_from_ge _ _ _ _ Hp1).
    pose proof (absdiff_shift m o0 o1 p0 p1). lia.
  - intros [x [y [Hx [Hy Hn]]]].
    apply in_map_iff in Hx. destruct Hx as [p0 [<- Hp0]]. apply in_map_iff in Hy. destruct Hy as [p1 [<- Hp1]].
    exists p0. split; [exact Hp0|]. apply existsb_exists. exists p1. split; [exact Hp1|].
    rewrite andb_true_r. apply Z.leb_le.
    pose proof (positions_from_ge _ _ _ _ Hp0). pose proof (positions_from_ge _ _ _ _ Hp1).
    pose proof (absdiff_shift m o0 o1 p0 p1). lia.
Qed.

(* Two-term phrases, any slop, scoring on or off, either cost order of the two terms: the scorer
   matches exactly when the documented meaning does. *)
Theorem phrase_two_terms toks o0 t0 o1 t1 s sc (swap : bool) :
  phrase_match sc s (map (shifted_positions toks (max_offset [(o0, t0); (o1, t1)]))
                         (if swap then [(o1, t1); (o0, t0)] else [(o0, t0); (o1, t1)]))
  = Some (phrase_spec toks [(o0, t0); (o1, t1)] s).
Proof.
  set (m := max_offset [(o0, t0); (o1, t1)]).
  assert (H0 : (o0 <= m)%Z) by (unfold m, max_offset; cbn [fold_right fst]; lia).
  assert (H1 : (o1 <= m)%Z) by (unfold m, max_offset; cbn [fold_right fst]; lia).
  pose proof (phrase_spec_two toks o0 t0 o1 t1 s m H0 H1) as HS.
  destruct swap; cbn [map].
  - destruct (phrase_match_two sc s _ _ (shifted_sorted toks m (o1, t1)) (shifted_sorted toks m (o0, t0))) as [b [-> Hb]].
    f_equal. destruct b, (phrase_spec toks [(o0, t0); (o1, t1)] s) eqn:E; try reflexivity.
    + assert (true = true) as T by reflexivity. apply Hb in T. apply pair_within_sym in T. apply HS in T. congruence.
    + assert (true = true) as T by reflexivity. apply HS in T. apply pair_within_sym in T. apply Hb in T. congruence.
  - destruct (phrase_match_two sc s _ _ (shifted_sorted toks m (o0, t0)) (shifted_sorted toks m (o1, t1))) as [b [-> Hb]].
    f_equal. destruct b, (phrase_spec toks [(o0, t0); (o1, t1)] s) eqn:E; try reflexivity.
    + assert (true = true) as T by reflexivity. apply Hb in T. apply HS in T. congruence.
    + assert (true = true) as T by reflexivity. apply HS in T. apply Hb in T. congruence.
Qed.
