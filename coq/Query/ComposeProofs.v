(* C03 -- proofs about Compose.v: the scorer built for any query tree denotes exactly the documents
   prescribed by QuerySem.matches (outside the known class F31), for counting, collecting and ranking,
   with scoring enabled or disabled, for any segmentation. *)
From TV Require Import Base.Prelude Query.QuerySem Query.Compose.
From Coq Require Import Permutation.
Local Open Scope N_scope.

(* ------------------------------------------------------------------ lists of ids *)
Lemma in_ids n i : In i (ids n) <-> i < N.of_nat n.
Proof.
  unfold ids. rewrite in_map_iff. split.
  - intros [k [<- Hk]]. apply in_seq in Hk. lia.
  - intros H. exists (N.to_nat i). split; [lia|]. apply in_seq. lia.
Qed.

Lemma ids_S n : ids (S n) = 0 :: map N.succ (ids n).
Proof.
  unfold ids. cbn [seq map]. f_equal. rewrite <- seq_shift, !map_map.
  apply map_ext. intros a. lia.
Qed.

Lemma filter_map_comm {A B} (f : A -> B) (p : B -> bool) l :
  filter p (map f l) = map f (filter (fun x => p (f x)) l).
Proof. induction l as [|a l IH]; [reflexivity|]. cbn [map filter]. destruct (p (f a)); cbn [map]; now rewrite IH. Qed.

(* filtering a list through its indices *)
Lemma filter_cons_eq {A} (p : A -> bool) a l : filter p (a :: l) = if p a then a :: filter p l else filter p l.
Proof. reflexivity. Qed.

Lemma filter_by_index {A} (d : A) (p : A -> bool) (l : list A) :
  filter p l = map (fun i => nth (N.to_nat i) l d) (filter (fun i => p (nth (N.to_nat i) l d)) (ids (length l))).
Proof.
  induction l as [|a l IH]; [reflexivity|].
  assert (E : forall i, nth (N.to_nat (N.succ i)) (a :: l) d = nth (N.to_nat i) l d).
  { intros i. rewrite N2Nat.inj_succ. reflexivity. }
  cbn [length]. rewrite ids_S. rewrite !filter_cons_eq.
  change (nth (N.to_nat 0) (a :: l) d) with a.
  rewrite filter_map_comm.
  rewrite (filter_ext _ (fun i => p (nth (N.to_nat i) l d))) by (intros i; now rewrite E).
  destruct (p a); rewrite ?map_cons, map_map, (map_ext _ (fun i => nth (N.to_nat i) l d)) by (intros i; apply E);
    rewrite <- IH; reflexivity.
Qed.

Lemma filter_len_le {A} (p : A -> bool) l : (length (filter p l) <= length l)%nat.
Proof. induction l as [|a l IH]; [cbn; lia|]. cbn [filter length]. destruct (p a); cbn [length]; lia. Qed.

Lemma count_true_cons b l : count_true (b :: l) = ((if b then 1 else 0) + count_true l)%nat.
Proof. unfold count_true. cbn [filter]. destruct b; reflexivity. Qed.

Lemma count_true_le l : (count_true l <= length l)%nat.
Proof. unfold count_true. apply filter_len_le. Qed.

Lemma count_true_app a b : count_true (a ++ b) = (count_true a + count_true b)%nat.
Proof. unfold count_true. now rewrite filter_app, app_length. Qed.

Lemma count_true_all l : count_true l = length l <-> forallb (fun b => b) l = true.
Proof.
  induction l as [|b l IH]; [cbn; tauto|].
  rewrite count_true_cons. cbn [length forallb]. pose proof (count_true_le l).
  destruct b; cbn [andb]; [|split; [lia|discriminate]].
  rewrite <- IH. lia.
Qed.

(* every term of a matching phrase occurs in the document *)
Lemma positions_from_has toks : forall p t0, positions_from p t0 toks <> [] -> existsb (N.eqb t0) toks = true.
Proof.
  induction toks as [|x r IH]; intros p t0 H; [now cbn in H|].
  cbn [positions_from existsb] in *. destruct (N.eqb x t0) eqn:E.
  - apply N.eqb_eq in E. subst. now rewrite N.eqb_refl.
  - rewrite N.eqb_sym, E. cbn [orb]. eapply IH. exact H.
Qed.

Lemma chain_term_occurs toks off t : forall ts0 prev b,
  chain toks prev b ts0 = true -> In (off, t) ts0 -> positions_of t toks <> [].
Proof.
  induction ts0 as [|[o' t'] r IH]; intros prev b Hc Hin; [destruct Hin|].
  cbn [chain] in Hc. apply existsb_exists in Hc. destruct Hc as [p [Hp Hc]].
  destruct Hin as [E|Hin].
  - injection E as -> ->. intros E0. rewrite E0 in Hp. destruct Hp.
  - apply andb_true_iff in Hc. destruct Hc as [_ Hc]. eapply IH; eassumption.
Qed.

Lemma phrase_spec_term_occurs toks ts slop off t :
  phrase_spec toks ts slop = true -> In (off, t) ts -> existsb (N.eqb t) toks = true.
Proof.
  unfold phrase_spec. destruct ts as [|[o0 t0] r]; [discriminate|]. intros HM Hot.
  apply existsb_exists in HM. destruct HM as [p [Hp HC]].
  destruct Hot as [E|Hot].
  - injection E as -> ->. eapply (positions_from_has _ 0%Z). unfold positions_of in Hp. intros E0. rewrite E0 in Hp. destruct Hp.
  - eapply (positions_from_has _ 0%Z). eapply chain_term_occurs; eassumption.
Qed.

(* ---- the class F31 under a given shape of the shortcut *)
Lemma h31_dismax_child chk qs : negb chk && existsb has_f31 qs = false -> forall q', In q' qs -> h31 chk q' = false.
Proof.
  intros H q' Hq. unfold h31. destruct chk; [reflexivity|]. cbn [negb andb] in *.
  destruct (has_f31 q') eqn:E; [|reflexivity].
  assert (existsb has_f31 qs = true) by (apply existsb_exists; exists q'; split; assumption). congruence.
Qed.

Lemma h31_bool_child chk (cs : list (occur * query)) : negb chk && existsb (fun c => has_f31 (snd c)) cs = false ->
  forall c, In c cs -> h31 chk (snd c) = false.
Proof.
  intros H c Hc. unfold h31. destruct chk; [reflexivity|]. cbn [negb andb] in *.
  destruct (has_f31 (snd c)) eqn:E; [|reflexivity].
  assert (existsb (fun c => has_f31 (snd c)) cs = true) by (apply existsb_exists; exists c; split; assumption). congruence.
Qed.

Lemma h31_bool chk msm cs : h31 chk (QBool msm cs) = false ->
  negb chk && f31_node msm (map fst cs) = false /\ forall c, In c cs -> h31 chk (snd c) = false.
Proof.
  unfold h31. cbn [has_f31]. intros H. destruct chk; [split; [reflexivity|intros; reflexivity]|].
  cbn [negb andb] in *. apply orb_false_iff in H. destruct H as [H1 H2]. split; [exact H1|].
  apply (h31_bool_child false cs H2).
Qed.

Lemma h31_below_root_weaker chk sc q : h31 chk q = false -> h31_below_root chk sc q = false.
Proof.
  unfold h31, h31_below_root. destruct chk; [reflexivity|]. cbn [negb andb].
  induction q as [l| | |o q IH|q IH|qs|msm cs]; cbn [has_f31 has_f31_below_root]; intros H; try reflexivity.
  - destruct sc; [exact H|now apply IH].
  - destruct sc; [exact H|now apply IH].
  - exact H.
  - apply orb_false_iff in H. apply H.
Qed.

Section Seg.
  Variable accepts : N -> N -> bool.
  Variable seg : segment.
  Notation md := (max_doc seg).
  Notation mdn := (max_doc_nat seg).

  Lemma in_seg_ids i : In i (seg_ids seg) <-> i < md.
  Proof. apply in_ids. Qed.

  (* an AllScorer always spans the whole segment *)
  Definition allok (e : dexpr) : Prop := forall n, e = DAll n -> n = md.

  Section Point.
    Variable i : N.
    Hypothesis Hi : i < md.
    Notation dm := (fun x => dmem x i).

    Lemma dm_all e : allok e -> is_all e = true -> dmem e i = true.
    Proof. intros Ha He. destruct e; try discriminate. rewrite (Ha n eq_refl). cbn [dmem]. lia. Qed.

    Lemma dm_empty e : is_empty e = true -> dmem e i = false.
    Proof. destruct e; try discriminate. reflexivity. Qed.

    (* --- remove_and_count_all_and_empty_scorers *)
    Lemma strip_forall l : Forall allok l ->
      forallb dm l = forallb dm (filter keep l) && Nat.eqb (length (filter is_empty l)) 0.
    Proof.
      induction 1 as [|e l He Hl IH]; [reflexivity|].
      cbn [forallb filter]. unfold keep at 1.
      destruct (is_all e) eqn:Ea.
      - rewrite (dm_all e He Ea). assert (is_empty e = false) as -> by (destruct e; try discriminate; reflexivity).
        cbn [negb andb]. exact IH.
      - destruct (is_empty e) eqn:Ee.
        + rewrite (dm_empty e Ee). cbn [negb andb length]. now rewrite andb_false_r.
        + cbn [negb andb forallb]. rewrite IH. now rewrite andb_assoc.
    Qed.

    Lemma strip_exists l : Forall allok l ->
      existsb dm l = existsb dm (filter keep l) || Nat.ltb 0 (length (filter is_all l)).
    Proof.
      induction 1 as [|e l He Hl IH]; [reflexivity|].
      cbn [existsb filter]. unfold keep at 1.
      destruct (is_all e) eqn:Ea.
      - rewrite (dm_all e He Ea). cbn [negb andb orb length]. now rewrite orb_true_r.
      - destruct (is_empty e) eqn:Ee.
        + rewrite (dm_empty e Ee). cbn [negb andb orb]. exact IH.
        + cbn [negb andb existsb]. rewrite IH. now rewrite orb_assoc.
    Qed.

    Lemma strip_count l : Forall allok l ->
      count_true (map dm l) = (count_true (map dm (filter keep l)) + length (filter is_all l))%nat.
    Proof.
      induction 1 as [|e l He Hl IH]; [reflexivity|].
      cbn [map filter]. rewrite count_true_cons. unfold keep at 1.
      destruct (is_all e) eqn:Ea.
      - rewrite (dm_all e He Ea). cbn [negb andb length]. lia.
      - destruct (is_empty e) eqn:Ee.
        + rewrite (dm_empty e Ee). cbn [negb andb]. lia.
        + cbn [negb andb map]. rewrite count_true_cons. lia.
    Qed.

    Lemma strip_length l :
      length l = (length (filter keep l) + length (filter is_all l) + length (filter is_empty l))%nat.
    Proof.
      induction l as [|e l IH]; [reflexivity|].
      cbn [filter length]. unfold keep at 1.
      destruct e; cbn [is_all is_empty negb andb length]; lia.
    Qed.

    Lemma keep_allok l : Forall allok (filter keep l).
    Proof.
      apply Forall_forall. intros e He. apply filter_In in He. destruct He as [_ Hk].
      intros n ->. discriminate.
    Qed.

    (* --- the small combinators *)
    Lemma dm_intersect l : l <> [] -> dmem (intersect_scorers seg l) i = forallb dm l.
    Proof.
      intros Hne. destruct l as [|x [|y r]]; [congruence| cbn; now rewrite andb_true_r |].
      unfold intersect_scorers.
      destruct (is_nil _) eqn:En; [|reflexivity].
      cbn [dmem]. symmetry. apply not_true_is_false. intros Hall.
      assert (Hin : In i (filter (fun i0 => forallb (fun x0 => dmem x0 i0) (x :: y :: r)) (seg_ids seg))).
      { apply filter_In. split; [now apply in_seg_ids|exact Hall]. }
      destruct (filter _ (seg_ids seg)); [destruct Hin|discriminate].
    Qed.

    Lemma dm_union l : dmem (scorer_union l) i = existsb dm l.
    Proof. destruct l as [|x [|y r]]; try reflexivity. cbn. now rewrite orb_false_r. Qed.

    Lemma dm_disjunction l k : (2 <= length l)%nat ->
      dmem (scorer_disjunction l k) i = Nat.leb k (count_true (map dm l)).
    Proof. destruct l as [|x [|y r]]; cbn [length]; try lia. reflexivity. Qed.

    Lemma dm_effective_must must k :
      match effective_must_scorer seg must k with
      | Some e => dmem e i = forallb dm must /\ (must = [] -> (0 < k)%nat)
      | None => must = [] /\ k = O
      end.
    Proof.
      unfold effective_must_scorer. destruct must as [|x r].
      - destruct (Nat.ltb 0 k) eqn:Ek.
        + cbn [dmem forallb]. split; [lia|intros _; lia].
        + split; [reflexivity|lia].
      - split; [apply dm_intersect; discriminate|discriminate].
    Qed.

    Lemma dm_effective_should s k sc :
      dmem (effective_should_scorer_for_union seg s k sc) i = dmem s i || Nat.ltb 0 k.
    Proof.
      unfold effective_should_scorer_for_union. destruct (Nat.ltb 0 k).
      - destruct sc; cbn [dmem existsb]; [|lia].
        assert (i <? md = true) as -> by lia. now rewrite !orb_true_r.
      - now rewrite orb_false_r.
    Qed.

    (* --- meaning of a boolean node in terms of the three clause lists *)
    Definition bool_sem3 (msm : nat) (mv sv xv : list bool) : bool :=
      let msm' := Nat.max msm (match mv with [] => 1 | _ => 0 end)%nat in
      forallb (fun b => b) mv && negb (existsb (fun b => b) xv) && Nat.leb msm' (count_true sv).

    Lemma forallb_map_id {A} (f : A -> bool) l : forallb (fun b => b) (map f l) = forallb f l.
    Proof. induction l as [|a l IH]; [reflexivity|]. cbn [map forallb]. now rewrite IH. Qed.
    Lemma existsb_map_id {A} (f : A -> bool) l : existsb (fun b => b) (map f l) = existsb f l.
    Proof. induction l as [|a l IH]; [reflexivity|]. cbn [map existsb]. now rewrite IH. Qed.

    (* THE central lemma: complex_scorer is sound for every clause list and every minimum *)
    Lemma complex_scorer_sound msm sc M Sh X :
      Forall allok M -> Forall allok Sh -> Forall allok X ->
      dmem (complex_scorer seg msm sc M Sh X) i = bool_sem3 msm (map dm M) (map dm Sh) (map dm X).
    Proof.
      intros HM HS HX. unfold complex_scorer, bool_sem3, strip.
      rewrite forallb_map_id, existsb_map_id.
      rewrite (strip_forall M HM), (strip_exists X HX), (strip_count Sh HS).
      pose proof (strip_length M) as LM. pose proof (strip_length Sh) as LS.
      assert (EM : match map dm M with [] => 1%nat | _ => 0%nat end = if Nat.eqb (length M) 0 then 1%nat else 0%nat).
      { destruct M; reflexivity. }
      rewrite EM. clear EM.
      set (M' := filter keep M) in *. set (S' := filter keep Sh) in *. set (X' := filter keep X) in *.
      set (naM := length (filter is_all M)) in *. set (neM := length (filter is_empty M)) in *.
      set (naS := length (filter is_all Sh)) in *. set (naX := length (filter is_all X)) in *.
      pose proof (count_true_le (map dm S')) as CL. rewrite map_length in CL.
      set (cnt := count_true (map dm S')) in *.
      destruct (Nat.ltb 0 neM) eqn:EneM.
      { cbn [dmem]. assert (Nat.eqb neM 0 = false) as -> by lia. now rewrite andb_false_r. }
      assert (Nat.eqb neM 0 = true) as -> by lia. rewrite andb_true_r.
      destruct (Nat.ltb 0 naX) eqn:EnaX.
      { cbn [dmem]. rewrite orb_true_r. cbn [negb]. now rewrite andb_false_r. }
      rewrite orb_false_r.
      assert (HneM : neM = O) by lia.
      destruct (Nat.ltb (length S') (msm - naS)) eqn:Elt.
      { cbn [dmem]. symmetry. rewrite !andb_false_iff. right. apply Nat.leb_gt. lia. }
      assert (Hexc : forall inc, dmem (exclude_wrap inc X') i = dmem inc i && negb (existsb dm X')).
      { intros inc. unfold exclude_wrap. destruct X'; [cbn [existsb negb]; now rewrite andb_true_r|reflexivity]. }
      rewrite Hexc. clear Hexc.
      match goal with |- dmem ?inc i && _ = _ => set (include := inc) end.
      assert (Hinc : dmem include i =
                     forallb dm M' && Nat.leb (Nat.max msm (if Nat.eqb (length M) 0 then 1 else 0)) (cnt + naS)).
      2:{ rewrite Hinc. destruct (forallb dm M'), (existsb dm X'), (Nat.leb _ _); reflexivity. }
      subst include. unfold combine.
      destruct (msm - naS)%nat as [|[|e2]] eqn:Eeff.
      - (* eff = 0 *)
        destruct (Nat.eqb (length S') 0) eqn:ES0; cbn [fst snd include_scorer].
        + (* Ignored *)
          pose proof (dm_effective_must M' (naM + naS)) as HE.
          destruct (effective_must_scorer seg M' (naM + naS)) as [e|].
          * destruct HE as [-> HE2]. destruct (forallb dm M') eqn:EF; [|reflexivity].
            cbn [andb]. symmetry. apply Nat.leb_le.
            destruct (Nat.eqb (length M) 0) eqn:EL; [|lia].
            assert (M' = []) by (destruct M'; [reflexivity|cbn [length] in LM; lia]). specialize (HE2 H). lia.
          * destruct HE as [-> HE2]. cbn [dmem forallb andb]. symmetry. apply Nat.leb_gt.
            cbn [length] in LM. assert (Nat.eqb (length M) 0 = true) as -> by lia. lia.
        + (* Optional *)
          pose proof (dm_effective_must M' naM) as HE.
          destruct (effective_must_scorer seg M' naM) as [m|].
          * destruct HE as [HE1 HE2].
            assert (Hm : dmem (if sc then DReqOpt m (scorer_union S') else m) i = dmem m i) by (destruct sc; reflexivity).
            rewrite Hm, HE1. destruct (forallb dm M') eqn:EF; [|reflexivity]. cbn [andb]. symmetry. apply Nat.leb_le.
            destruct (Nat.eqb (length M) 0) eqn:EL; [|lia].
            assert (M' = []) by (destruct M'; [reflexivity|cbn [length] in LM; lia]). specialize (HE2 H). lia.
          * destruct HE as [-> HE2]. rewrite dm_effective_should, dm_union. cbn [forallb andb].
            cbn [length] in LM. assert (Nat.eqb (length M) 0 = true) as -> by lia.
            assert (Hc : existsb dm S' = Nat.ltb 0 cnt).
            { subst cnt. clear. induction S' as [|a l IH]; [reflexivity|]. cbn [existsb map]. rewrite count_true_cons, IH.
              destruct (dmem a i); cbn [orb]; lia. }
            rewrite Hc. lia.
      - (* eff = 1 : Required (union) *)
        cbn [fst snd include_scorer].
        pose proof (dm_effective_must M' naM) as HE.
        assert (Hc : existsb dm S' = Nat.ltb 0 cnt).
        { subst cnt. clear. induction S' as [|a l IH]; [reflexivity|]. cbn [existsb map]. rewrite count_true_cons, IH.
          destruct (dmem a i); cbn [orb]; lia. }
        destruct (effective_must_scorer seg M' naM) as [m|].
        + destruct HE as [HE1 HE2]. rewrite dm_intersect by discriminate. cbn [forallb]. rewrite andb_true_r, HE1, dm_union, Hc.
          destruct (forallb dm M') eqn:EF; [|reflexivity]. cbn [andb].
          destruct (Nat.eqb (length M) 0) eqn:EL; [|lia].
          assert (M' = []) by (destruct M'; [reflexivity|cbn [length] in LM; lia]). specialize (HE2 H). lia.
        + destruct HE as [-> HE2]. rewrite dm_union, Hc. cbn [forallb andb]. cbn [length] in LM.
          assert (Nat.eqb (length M) 0 = true) as -> by lia. lia.
      - (* eff >= 2 *)
        destruct (Nat.eqb (length S') (S (S e2))) eqn:Eeq; cbn [fst snd include_scorer].
        + (* should promoted to must: Ignored with must ++ should *)
          pose proof (dm_effective_must (M' ++ S') (naM + naS)) as HE.
          destruct (effective_must_scorer seg (M' ++ S') (naM + naS)) as [e|].
          * destruct HE as [-> _]. rewrite forallb_app.
            destruct (forallb dm M') eqn:EF; [|reflexivity]. cbn [andb].
            pose proof (count_true_all (map dm S')) as CA. rewrite map_length, forallb_map_id in CA. fold cnt in CA.
            destruct (forallb dm S') eqn:ES.
            -- symmetry. apply Nat.leb_le. assert (cnt = length S') by (apply CA; reflexivity).
               destruct (Nat.eqb (length M) 0); lia.
            -- symmetry. apply Nat.leb_gt. assert (cnt <> length S') by (intros E; apply CA in E; discriminate).
               destruct (Nat.eqb (length M) 0); lia.
          * destruct HE as [HE _]. apply app_eq_nil in HE. destruct HE as [_ HE]. rewrite HE in Eeq. cbn in Eeq. discriminate.
        + (* Required (disjunction) *)
          assert (HL : (2 <= length S')%nat) by lia.
          pose proof (dm_effective_must M' naM) as HE.
          destruct (effective_must_scorer seg M' naM) as [m|].
          * destruct HE as [HE1 HE2]. rewrite dm_intersect by discriminate. cbn [forallb]. rewrite andb_true_r, HE1.
            rewrite (dm_disjunction S' _ HL). fold cnt.
            destruct (forallb dm M') eqn:EF; [|reflexivity]. cbn [andb].
            destruct (Nat.eqb (length M) 0); lia.
          * destruct HE as [-> HE2]. rewrite (dm_disjunction S' _ HL). fold cnt. cbn [forallb andb].
            destruct (Nat.eqb (length M) 0); lia.
    Qed.

    (* --- clause lists *)
    Definition cvals (ces : list (occur * dexpr)) : list (occur * bool) := map (fun c => (fst c, dmem (snd c) i)) ces.

    Lemma sel_pick p ces : sel p (cvals ces) = map dm (pick p ces).
    Proof.
      unfold sel, pick, cvals. induction ces as [|c r IH]; [reflexivity|].
      cbn [map filter fst]. destruct (p (fst c)); cbn [map snd]; now rewrite IH.
    Qed.

    Lemma pick_allok p ces : Forall (fun c => allok (snd c)) ces -> Forall allok (pick p ces).
    Proof.
      unfold pick. induction 1 as [|c r Hc Hr IH]; [constructor|].
      cbn [filter]. destruct (p (fst c)); cbn [map]; [constructor; assumption|assumption].
    Qed.

    Lemma complex_scorer_of_sound msm sc ces : Forall (fun c => allok (snd c)) ces ->
      dmem (complex_scorer_of seg msm sc ces) i = bool_sem msm (cvals ces).
    Proof.
      intros H. unfold complex_scorer_of.
      rewrite complex_scorer_sound by (apply pick_allok; exact H).
      unfold bool_sem, bool_sem3. now rewrite !sel_pick.
    Qed.

    Lemma bool_scorer_sound chk msm sc ces : Forall (fun c => allok (snd c)) ces ->
      negb chk && f31_node msm (map fst ces) = false ->
      dmem (bool_scorer seg chk msm sc ces) i = bool_sem msm (cvals ces).
    Proof.
      intros H HF. destruct ces as [|[o e] [|c2 r]].
      - unfold bool_sem, sel, cvals. cbn. destruct msm as [|[|k]]; reflexivity.
      - cbn [bool_scorer cvals map fst snd]. unfold bool_sem, sel. cbn [map fst f31_node] in HF.
        destruct o; cbn [is_mustnot is_must is_should filter fst snd map forallb existsb negb andb orb length] in *.
        + (* must: matches iff the clause matches and msm = 0 *)
          destruct (Nat.ltb 0 msm) eqn:Em.
          * assert (chk = true) as -> by (destruct chk; [reflexivity|discriminate]).
            cbn [andb dmem]. unfold count_true. cbn [filter length].
            symmetry. rewrite !andb_true_r. apply andb_false_iff. right. apply Nat.leb_gt. lia.
          * rewrite andb_false_r. assert (msm = O) as -> by lia. cbn. now rewrite !andb_true_r.
        + (* should: matches iff the clause matches and msm <= 1 *)
          rewrite count_true_cons. unfold count_true. cbn [filter length].
          destruct (Nat.ltb 1 msm) eqn:Em.
          * assert (chk = true) as -> by (destruct chk; [reflexivity|discriminate]).
            cbn [andb dmem]. symmetry. apply Nat.leb_gt. destruct (dmem e i); lia.
          * rewrite andb_false_r.
            destruct (dmem e i); [symmetry; apply Nat.leb_le; lia|symmetry; apply Nat.leb_gt; lia].
        + cbn. destruct (dmem e i); cbn; [reflexivity|]. destruct msm as [|[|k]]; reflexivity.
      - apply complex_scorer_of_sound. exact H.
    Qed.
  End Point.

  (* ------------------------------------------------------------------ whole trees *)
  Section Tree.
    Variable chk : bool.      (* shape of the one-clause shortcut of BooleanWeight::scorer, see Compose.SHAPE *)
    Variable leaf_scorer : bool -> leaf -> dexpr.
    (* contract of the leaf scorers *)
    Hypothesis leaf_sound : forall sc l i, i < md -> dmem (leaf_scorer sc l) i = leaf_matches accepts (doc_at seg i) l.
    Hypothesis leaf_allok : forall sc l, allok (leaf_scorer sc l).

    Lemma bool_scorer_allok msm sc ces : Forall (fun c => allok (snd c)) ces -> allok (bool_scorer seg chk msm sc ces).
    Proof.
      (* every AllScorer built by complex_scorer uses max_doc *)
      intros H n E. destruct ces as [|[o e] [|c2 r]].
      - discriminate.
      - cbn [bool_scorer] in E. destruct (is_mustnot o || _); [discriminate|]. inversion H as [|? ? Ha]. exact (Ha n E).
      - revert E. unfold bool_scorer, complex_scorer_of, complex_scorer, strip, exclude_wrap, combine.
        set (M := pick is_must _). set (Sh := pick is_should _). set (X := pick is_mustnot _).
        assert (KI : forall l, l <> [] -> Forall (fun e => is_all e = false) l -> intersect_scorers seg l = DAll n -> False).
        { intros l Hl HA. destruct l as [|x [|y t]]; [congruence| |].
          - cbn. intros ->. inversion HA. discriminate.
          - unfold intersect_scorers. destruct (is_nil _); discriminate. }
        assert (KK : forall l, Forall (fun e => is_all e = false) (filter keep l)).
        { intros l. apply Forall_forall. intros x Hx. apply filter_In in Hx. destruct Hx as [_ Hx]. unfold keep in Hx.
          destruct (is_all x); [discriminate|reflexivity]. }
        assert (KE : forall l k, l = [] \/ Forall (fun e => is_all e = false) l ->
                     forall m, effective_must_scorer seg l k = Some m -> m = DAll n -> n = md).
        { intros l k Hl m Hm ->. unfold effective_must_scorer in Hm. destruct l as [|x t].
          - destruct (Nat.ltb 0 k); [|discriminate]. injection Hm as Hm. now symmetry.
          - destruct Hl as [Hl|Hl]; [discriminate|]. injection Hm as Hm. exfalso. eapply KI; [|exact Hl|exact Hm]. discriminate. }
        assert (KU : forall l, Forall (fun e => is_all e = false) l -> scorer_union l = DAll n -> False).
        { intros l HA. destruct l as [|x [|y t]]; try discriminate. cbn. intros ->. inversion HA. discriminate. }
        assert (KD : forall l k, Forall (fun e => is_all e = false) l -> scorer_disjunction l k = DAll n -> False).
        { intros l k HA. destruct l as [|x [|y t]]; try discriminate. cbn. intros ->. inversion HA. discriminate. }
        destruct (Nat.ltb 0 (length (filter is_empty M))); [discriminate|].
        destruct (Nat.ltb 0 (length (filter is_all X))); [discriminate|].
        destruct (Nat.ltb (length (filter keep Sh)) _); [discriminate|].
        destruct (filter keep X) eqn:EX; [|discriminate].
        destruct (msm - length (filter is_all Sh))%nat as [|[|e2]].
        + destruct (Nat.eqb (length (filter keep Sh)) 0); cbn [fst snd include_scorer].
          * destruct (effective_must_scorer _ _ _) eqn:EE; [|discriminate]. intros ->. eapply KE; [right; apply KK|exact EE|reflexivity].
          * destruct (effective_must_scorer _ _ _) eqn:EE.
            -- destruct sc; [discriminate|]. intros ->. eapply KE; [right; apply KK|exact EE|reflexivity].
            -- unfold effective_should_scorer_for_union. destruct (Nat.ltb 0 _).
               ++ destruct sc; [discriminate|]. intros E. now injection E.
               ++ intros E. exfalso. eapply KU; [apply KK|exact E].
        + cbn [fst snd include_scorer]. destruct (effective_must_scorer _ _ _) eqn:EE.
          * unfold intersect_scorers. destruct (is_nil _); discriminate.
          * intros E. exfalso. eapply KU; [apply KK|exact E].
        + destruct (Nat.eqb _ _); cbn [fst snd include_scorer].
          * destruct (effective_must_scorer _ _ _) eqn:EE; [|discriminate]. intros ->.
            eapply KE; [right; apply Forall_app; split; apply KK|exact EE|reflexivity].
          * destruct (effective_must_scorer _ _ _) eqn:EE.
            -- unfold intersect_scorers. destruct (is_nil _); discriminate.
            -- intros E. exfalso. eapply KD; [apply KK|exact E].
    Qed.

    Lemma scorer_model_allok sc q : forall b1, allok (scorer_model seg chk leaf_scorer sc b1 q).
    Proof.
      induction q as [l| | |o q IH|q IH|qs IH|msm cs IH] using query_ind'; intros b1; cbn [scorer_model].
      - apply leaf_allok.
      - destruct b1; intros n E; [now injection E|discriminate].
      - intros n E; discriminate.
      - destruct sc; apply IH.
      - destruct sc; [intros n E; discriminate|apply IH].
      - apply bool_scorer_allok. apply Forall_forall. intros c Hc. apply in_map_iff in Hc. destruct Hc as [q' [<- Hq]].
        cbn [snd]. rewrite Forall_forall in IH. apply IH. exact Hq.
      - apply bool_scorer_allok. apply Forall_forall. intros c Hc. apply in_map_iff in Hc. destruct Hc as [c' [<- Hq]].
        cbn [snd]. rewrite Forall_forall in IH. apply IH. exact Hq.
    Qed.

    Lemma children_allok sc b1 (cs : list (occur * query)) :
      Forall (fun c => allok (snd c)) (map (fun c => (fst c, scorer_model seg chk leaf_scorer sc b1 (snd c))) cs).
    Proof. apply Forall_forall. intros c Hc. apply in_map_iff in Hc. destruct Hc as [c' [<- _]]. apply scorer_model_allok. Qed.

    Lemma dismax_as_bool d qs :
      bool_sem 1 (map (fun q' => (Should, matches accepts d q')) qs) = existsb (matches accepts d) qs.
    Proof.
      unfold bool_sem, sel.
      assert (E1 : forall p, p Should = false -> filter (fun c : occur * bool => p (fst c)) (map (fun q' => (Should, matches accepts d q')) qs) = []).
      { intros p Hp. induction qs as [|x r IH]; [reflexivity|]. cbn [map filter fst]. now rewrite Hp. }
      rewrite (E1 is_must eq_refl), (E1 is_mustnot eq_refl). cbn [map forallb existsb negb andb Nat.max]. clear E1.
      induction qs as [|x r IH]; [reflexivity|].
      cbn [map filter fst is_should snd existsb]. rewrite count_true_cons.
      destruct (matches accepts d x); cbn [orb].
      - apply Nat.leb_le. lia.
      - rewrite <- IH. destruct (count_true _); reflexivity.
    Qed.

    (* Weight::scorer denotes the prescribed documents: every tree outside F31, every doc id *)
    Theorem scorer_model_sound sc q : h31 chk q = false ->
      forall b1 i, i < md -> dmem (scorer_model seg chk leaf_scorer sc b1 q) i = matches accepts (doc_at seg i) q.
    Proof.
      induction q as [l| | |o q IH|q IH|qs IH|msm cs IH] using query_ind'; intros HF b1 i Hi; cbn [scorer_model].
      - apply leaf_sound; exact Hi.
      - destruct b1; cbn [dmem matches]; lia.
      - reflexivity.
      - destruct sc; apply IH; assumption.
      - destruct sc; cbn [dmem]; apply IH; assumption.
      - rewrite matches_dismax, <- dismax_as_bool.
        rewrite (bool_scorer_sound i Hi).
        + unfold cvals. rewrite map_map. cbn [fst snd]. f_equal. apply map_ext_in. intros q' Hq. f_equal.
          rewrite Forall_forall in IH. apply IH; [exact Hq| |exact Hi].
          exact (h31_dismax_child chk qs HF q' Hq).
        + rewrite <- (map_map (fun q' => scorer_model seg chk leaf_scorer sc b1 q') (fun e => (Should, e))).
          apply Forall_forall. intros c Hc. apply in_map_iff in Hc. destruct Hc as [e [<- He]]. cbn [snd].
          apply in_map_iff in He. destruct He as [q' [<- _]]. apply scorer_model_allok.
        + rewrite map_map. cbn [fst]. destruct qs as [|x [|y r]]; cbn; now rewrite ?andb_false_r.
      - rewrite matches_bool. destruct (h31_bool chk msm cs HF) as [HF1 HF2].
        rewrite (bool_scorer_sound i Hi).
        + unfold cvals. rewrite map_map. cbn [fst snd]. f_equal. apply map_ext_in. intros c Hc. f_equal.
          rewrite Forall_forall in IH. apply IH; [exact Hc| |exact Hi].
          exact (HF2 c Hc).
        + apply children_allok.
        + rewrite map_map. cbn [fst]. exact HF1.
    Qed.

    (* for_each / for_each_no_score / for_each_pruning on the root weight: complex_scorer directly,
       sound for EVERY root node (the minimum is honoured even for a single clause) *)
    Theorem collect_model_sound sc q : h31_below_root chk sc q = false ->
      forall i, i < md -> dmem (collect_model seg chk leaf_scorer sc q) i = matches accepts (doc_at seg i) q.
    Proof.
      induction q as [l| | |o q IH|q IH|qs|msm cs]; intros HF i Hi.
      - apply scorer_model_sound; [apply andb_false_r|exact Hi].
      - apply scorer_model_sound; [apply andb_false_r|exact Hi].
      - apply scorer_model_sound; [apply andb_false_r|exact Hi].
      - cbn [collect_model]. unfold h31_below_root in *. cbn [has_f31_below_root] in HF. destruct sc.
        + apply scorer_model_sound; [exact HF|exact Hi].
        + cbn [matches]. now apply IH.
      - cbn [collect_model]. unfold h31_below_root in *. cbn [has_f31_below_root] in HF. destruct sc.
        + apply scorer_model_sound; [exact HF|exact Hi].
        + cbn [matches]. now apply IH.
      - cbn [collect_model]. rewrite matches_dismax, <- dismax_as_bool.
        rewrite (complex_scorer_of_sound i Hi).
        + unfold cvals. rewrite map_map. cbn [fst snd]. f_equal. apply map_ext_in. intros q' Hq. f_equal.
          apply scorer_model_sound; [|exact Hi].
          exact (h31_dismax_child chk qs HF q' Hq).
        + apply Forall_forall. intros c Hc. apply in_map_iff in Hc. destruct Hc as [q' [<- _]]. apply scorer_model_allok.
      - cbn [collect_model]. rewrite matches_bool.
        rewrite (complex_scorer_of_sound i Hi).
        + unfold cvals. rewrite map_map. cbn [fst snd]. f_equal. apply map_ext_in. intros c Hc. f_equal.
          apply scorer_model_sound; [|exact Hi].
          exact (h31_bool_child chk cs HF c Hc).
        + apply children_allok.
    Qed.

    (* list level: what the collectors receive is the specified id list *)
    Lemma collected_eq e q : (forall i, i < md -> dmem e i = matches accepts (doc_at seg i) q) ->
      collected seg e = eval_ids accepts seg q.
    Proof.
      intros H. unfold collected, eval_ids. apply filter_ext_in. intros i Hi. apply in_seg_ids in Hi. now rewrite H.
    Qed.
  End Tree.

  (* ------------------------------------------------------------------ eval through doc ids *)
  Lemma nth_map_fst_snd (i : nat) :
    nth i seg (dummy_doc, false) = (nth i (map fst seg) dummy_doc, nth i (map snd seg) false).
  Proof.
    revert i. induction seg as [|[d a] r IH]; intros [|i]; try reflexivity. cbn [map nth]. apply IH.
  Qed.

  (* the id-level evaluation is the specification `eval` *)
  Lemma eval_ids_eval q : map (doc_at seg) (eval_ids accepts seg q) = eval accepts seg q.
  Proof.
    unfold eval, live.
    rewrite (filter_by_index (dummy_doc, false) snd seg).
    rewrite map_map, filter_map_comm.
    unfold eval_ids, seg_ids, max_doc_nat, doc_at, alive_at.
    assert (E : forall i, fst (nth (N.to_nat i) seg (dummy_doc, false)) = nth (N.to_nat i) (map fst seg) dummy_doc
                       /\ snd (nth (N.to_nat i) seg (dummy_doc, false)) = nth (N.to_nat i) (map snd seg) false).
    { intros i. rewrite nth_map_fst_snd. split; reflexivity. }
    symmetry.
    rewrite (map_ext _ (fun i => nth (N.to_nat i) (map fst seg) dummy_doc)) by (intros i; apply E).
    f_equal.
    set (l := ids (length seg)). clearbody l.
    induction l as [|a l IH]; [reflexivity|].
    rewrite !filter_cons_eq. destruct (E a) as [E1 E2]. rewrite E2.
    destruct (nth (N.to_nat a) (map snd seg) false); cbn [andb].
    - rewrite filter_cons_eq, E1. destruct (matches _ _ _); now rewrite IH.
    - exact IH.
  Qed.

  Lemma no_deletes_all_alive : has_deletes seg = false -> forall i, i < md -> alive_at seg i = true.
  Proof.
    unfold has_deletes, alive_at, max_doc, max_doc_nat. intros H i Hi.
    assert (Hn : (N.to_nat i < length seg)%nat) by lia.
    set (k := N.to_nat i) in *. clearbody k. clear Hi.
    revert k Hn. induction seg as [|[d a] r IH]; intros k Hn; [cbn in Hn; lia|].
    cbn [existsb snd] in H. apply orb_false_iff in H. destruct H as [Ha Hr].
    destruct k as [|k]; cbn [map nth snd].
    - destruct a; [reflexivity|discriminate].
    - apply IH; [exact Hr|cbn [length] in Hn; lia].
  Qed.

  (* ------------------------------------------------------------------ the concrete leaf scorers *)
  Lemma dmem_postings l i : i < md ->
    existsb (N.eqb i) (postings accepts seg l) = leaf_matches accepts (doc_at seg i) l.
  Proof.
    intros Hi. unfold postings.
    destruct (leaf_matches accepts (doc_at seg i) l) eqn:E.
    - apply existsb_exists. exists i. split; [|apply N.eqb_refl]. apply filter_In. split; [now apply in_seg_ids|exact E].
    - apply not_true_is_false. intros H. apply existsb_exists in H. destruct H as [j [Hj Hij]].
      apply N.eqb_eq in Hij. subst j. apply filter_In in Hj. destruct Hj as [_ Hj]. congruence.
  Qed.

  Lemma seg_ids_length : length (seg_ids seg) = mdn.
  Proof. unfold seg_ids, ids. now rewrite map_length, seq_length. Qed.

  Lemma filter_full {A} (p : A -> bool) l : length (filter p l) = length l -> forall x, In x l -> p x = true.
  Proof.
    induction l as [|a l IH]; intros H x Hx; [destruct Hx|].
    cbn [filter length] in H. pose proof (filter_len_le p l).
    destruct (p a) eqn:Ea; cbn [length] in H; [|lia].
    destruct Hx as [<-|Hx]; [exact Ea|]. apply IH; [lia|exact Hx].
  Qed.

  Lemma std_leaf_sound sc l i : i < md -> dmem (std_leaf_scorer accepts seg sc l) i = leaf_matches accepts (doc_at seg i) l.
  Proof.
    intros Hi. pose proof (dmem_postings l i Hi) as HP.
    destruct l; cbn [std_leaf_scorer]; try exact HP.
    - (* term *)
      destruct (is_nil (postings accepts seg (LTerm f t))) eqn:En.
      + rewrite <- HP. destruct (postings accepts seg (LTerm f t)); [reflexivity|discriminate].
      + destruct (negb sc && Nat.eqb (length (postings accepts seg (LTerm f t))) mdn) eqn:Efull; [|exact HP].
        apply andb_true_iff in Efull. destruct Efull as [_ Efull]. apply Nat.eqb_eq in Efull.
        cbn [dmem]. assert (i <? md = true) as -> by lia. symmetry.
        unfold postings in Efull. rewrite <- seg_ids_length in Efull.
        apply (filter_full _ _ Efull). now apply in_seg_ids.
    - (* phrase: a missing term means no document has it, so the phrase cannot match *)
      destruct (forallb _ ts) eqn:EF; [exact HP|].
      cbn [dmem]. symmetry. apply not_true_is_false. intros HM.
      assert (forallb (fun ot : Z * N => term_present accepts seg f (snd ot)) ts = true); [|congruence].
      apply forallb_forall. intros [off t] Hot. cbn [snd].
      unfold term_present. apply negb_true_iff.
      assert (Hin : In i (postings accepts seg (LTerm f t))).
      { apply filter_In. split; [now apply in_seg_ids|].
        cbn [leaf_matches] in *. unfold has_token. eapply phrase_spec_term_occurs; eassumption. }
      destruct (postings accepts seg (LTerm f t)); [destruct Hin|reflexivity].
  Qed.

  Lemma std_leaf_allok sc l : allok (std_leaf_scorer accepts seg sc l).
  Proof.
    intros n E. destruct l; cbn [std_leaf_scorer] in E; try discriminate.
    - destruct (is_nil _); [discriminate|]. destruct (_ && _); [now injection E|discriminate].
    - destruct (forallb _ _); discriminate.
  Qed.

  (* ------------------------------------------------------------------ counting *)
  Lemma scorer_count_eq e q : (forall i, i < md -> dmem e i = matches accepts (doc_at seg i) q) ->
    scorer_count seg e = length (eval accepts seg q).
  Proof.
    intros H. rewrite <- eval_ids_eval, map_length. unfold scorer_count.
    destruct (has_deletes seg) eqn:ED.
    - now rewrite (collected_eq e q H).
    - unfold eval_ids. f_equal. apply filter_ext_in. intros i Hi. apply in_seg_ids in Hi.
      rewrite (no_deletes_all_alive ED i Hi). cbn [andb]. now apply H.
  Qed.

  Theorem count_model_agrees chk sc q : h31 chk q = false ->
    count_model accepts seg chk sc q = length (eval accepts seg q).
  Proof.
    induction q as [l| | |o q IH|q IH|qs IH|msm cs IH] using query_ind'; intros HF.
    - assert (G : scorer_count seg (std_leaf_scorer accepts seg sc l) = length (eval accepts seg (QLeaf l))).
      { apply scorer_count_eq. intros i Hi. now apply std_leaf_sound. }
      destruct l; try exact G. unfold count_model. cbn [count_model_with].
      destruct (has_deletes seg) eqn:ED; [exact G|].
      (* doc_freq shortcut: without deletes every posting is a live document *)
      rewrite <- eval_ids_eval, map_length. unfold postings, eval_ids. f_equal.
      apply filter_ext_in. intros i Hi. apply in_seg_ids in Hi.
      now rewrite (no_deletes_all_alive ED i Hi).
    - apply scorer_count_eq. intros i Hi. apply (scorer_model_sound chk _ std_leaf_sound std_leaf_allok); assumption.
    - apply scorer_count_eq. intros i Hi. apply (scorer_model_sound chk _ std_leaf_sound std_leaf_allok); assumption.
    - unfold count_model in *. cbn [count_model_with] in *. rewrite IH by exact HF. reflexivity.
    - unfold count_model in *. cbn [count_model_with] in *. rewrite IH by exact HF. reflexivity.
    - apply scorer_count_eq. intros i Hi. apply (scorer_model_sound chk _ std_leaf_sound std_leaf_allok); assumption.
    - apply scorer_count_eq. intros i Hi. apply (scorer_model_sound chk _ std_leaf_sound std_leaf_allok); assumption.
  Qed.
End Seg.

(* ------------------------------------------------------------------ segmentation, deletes, merges, sorting *)
Section Index.
  Variable accepts : N -> N -> bool.

  Lemma eval_app s1 s2 q : eval accepts (s1 ++ s2) q = eval accepts s1 q ++ eval accepts s2 q.
  Proof. unfold eval, live. now rewrite filter_app, map_app, filter_app. Qed.

  (* any split of the documents into segments gives the same answer as one segment holding them all *)
  Theorem eval_segmentation segs q : eval_index accepts segs q = eval accepts (concat segs) q.
  Proof.
    unfold eval_index. induction segs as [|s r IH]; [reflexivity|].
    cbn [flat_map concat]. now rewrite eval_app, IH.
  Qed.

  (* deleted documents never appear, and every returned document matches *)
  Theorem eval_only_live s q d : In d (eval accepts s q) -> In (d, true) s /\ matches accepts d q = true.
  Proof.
    unfold eval, live. intros H. apply filter_In in H. destruct H as [H Hm]. split; [|exact Hm].
    apply in_map_iff in H. destruct H as [[d' a] [<- H]]. apply filter_In in H. destruct H as [H Ha].
    cbn [snd fst] in *. now subst a.
  Qed.

  (* a merge drops the deleted documents (and may reorder the rest when the index is sorted) *)
  Definition purge (s : segment) : segment := filter snd s.

  Theorem eval_purge s q : eval accepts (purge s) q = eval accepts s q.
  Proof.
    unfold eval, live, purge. f_equal. f_equal.
    induction s as [|[d a] r IH]; [reflexivity|]. cbn [filter snd]. destruct a; cbn [filter snd]; now rewrite IH.
  Qed.

  Theorem eval_permutation s s' q : Permutation s s' -> Permutation (eval accepts s q) (eval accepts s' q).
  Proof.
    intros H. unfold eval, live.
    assert (PF : forall A (p : A -> bool) l l', Permutation l l' -> Permutation (filter p l) (filter p l')).
    { intros A p l l' HP. induction HP as [|x l l' HP IH|x y l|l l' l'' H1 IH1 H2 IH2]; cbn [filter].
      - constructor.
      - destruct (p x); [now constructor|exact IH].
      - destruct (p x), (p y); try apply Permutation_refl. apply perm_swap.
      - eapply Permutation_trans; eassumption. }
    apply PF. apply Permutation_map. apply PF. exact H.
  Qed.
End Index.
