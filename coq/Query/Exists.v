(* C03 -- model of ExistsWeight::scorer (src/query/exist_query.rs): an exists query expands to the
   dynamic columns of the field (for a JSON field with sub-paths: one column per path and type).
   Empty columns are dropped; a Full column makes every document match (AllScorer); with fewer than
   C03_EXISTS_BITSET_MIN_COLUMNS columns a per-document ExistsDocSet asks every column; otherwise a
   bitset of the non-null documents of the columns is precomputed.  The constants and the shape of the
   bitset loop are regenerated from the source (tools/pindefs/query.py). *)
From TV Require Import Base.Prelude Query.QuerySem Query.Compose Generated.Constants.
Local Open Scope N_scope.

Inductive cardinality := CardEmpty | CardFull | CardOptional | CardMultivalued.

(* a column: its index kind and the documents holding at least one value *)
Definition column := (cardinality * list N)%type.

Definition is_card_empty (c : cardinality) := match c with CardEmpty => true | _ => false end.
Definition is_card_full (c : cardinality) := match c with CardFull => true | _ => false end.

Definition mem (i : N) (l : list N) : bool := existsb (N.eqb i) l.

Definition BITSET_OPTIONAL : bool := N.eqb C03_EXISTS_BITSET_OPTIONAL 1.
Definition BITSET_MULTIVALUED : bool := N.eqb C03_EXISTS_BITSET_MULTIVALUED 1.

(* the documents inserted into the bitset for one column *)
Definition bitset_docs (opt multi : bool) (c : column) : list N :=
  match fst c with
  | CardEmpty => []
  | CardFull => []                         (* handled by the AllScorer return *)
  | CardOptional => if opt then snd c else []
  | CardMultivalued => if multi then snd c else []
  end.

Definition exists_scorer_shape (opt multi : bool) (min_cols : N) (max_doc : N) (b1 : bool) (cols : list column) : dexpr :=
  let non_empty := filter (fun c => negb (is_card_empty (fst c))) cols in
  match non_empty with
  | [] => DEmpty
  | _ =>
      if existsb (fun c => is_card_full (fst c)) non_empty then
        (if b1 then DAll max_doc else DWrap (DAll max_doc))
      else if N.of_nat (length non_empty) <? min_cols then
        DWrap (DUnion (map (fun c => DLeaf (snd c)) non_empty))          (* ExistsDocSet: any column has a value *)
      else
        DWrap (DLeaf (flat_map (bitset_docs opt multi) non_empty))        (* BitSetDocSet *)
  end.

Definition exists_scorer := exists_scorer_shape BITSET_OPTIONAL BITSET_MULTIVALUED C03_EXISTS_BITSET_MIN_COLUMNS.

(* what the column index kinds mean *)
Definition column_wf (max_doc : N) (c : column) : Prop :=
  match fst c with
  | CardEmpty => snd c = []
  | CardFull => forall i, i < max_doc -> mem i (snd c) = true
  | _ => True
  end.

Lemma mem_flat_map {A} (f : A -> list N) l i : mem i (flat_map f l) = existsb (fun x => mem i (f x)) l.
Proof.
  unfold mem. induction l as [|a l IH]; [reflexivity|].
  cbn [flat_map existsb]. now rewrite existsb_app, IH.
Qed.

Lemma existsb_filter_nonempty (cols : list column) i :
  Forall (fun c => fst c = CardEmpty -> snd c = []) cols ->
  existsb (fun c => mem i (snd c)) (filter (fun c => negb (is_card_empty (fst c))) cols)
  = existsb (fun c => mem i (snd c)) cols.
Proof.
  induction 1 as [|c l Hc Hl IH]; [reflexivity|].
  cbn [filter existsb]. destruct (fst c) eqn:E; cbn [is_card_empty negb existsb]; rewrite IH; try reflexivity.
  rewrite (Hc eq_refl). reflexivity.
Qed.

(* Sound for every number of columns and every mix of cardinalities, PROVIDED the bitset loop covers
   optional and multivalued columns. *)
Theorem exists_scorer_shape_sound min_cols max_doc b1 cols i :
  i < max_doc -> Forall (column_wf max_doc) cols ->
  dmem (exists_scorer_shape true true min_cols max_doc b1 cols) i = existsb (fun c => mem i (snd c)) cols.
Proof.
  intros Hi Hwf.
  assert (HE : Forall (fun c : column => fst c = CardEmpty -> snd c = []) cols).
  { eapply Forall_impl; [|exact Hwf]. intros c Hc E. unfold column_wf in Hc. now rewrite E in Hc. }
  rewrite <- (existsb_filter_nonempty cols i HE).
  assert (Hwf' : Forall (column_wf max_doc) (filter (fun c => negb (is_card_empty (fst c))) cols)).
  { apply Forall_forall. intros c Hc. apply filter_In in Hc. rewrite Forall_forall in Hwf. now apply Hwf. }
  assert (Hne : Forall (fun c : column => fst c <> CardEmpty) (filter (fun c => negb (is_card_empty (fst c))) cols)).
  { apply Forall_forall. intros c Hc. apply filter_In in Hc. destruct Hc as [_ Hc]. intros E. rewrite E in Hc. discriminate. }
  unfold exists_scorer_shape.
  set (ne := filter (fun c => negb (is_card_empty (fst c))) cols) in *. clearbody ne.
  destruct ne as [|c0 r] eqn:Ene; [reflexivity|]. rewrite <- Ene in *. clear Ene c0 r.
  destruct (existsb (fun c => is_card_full (fst c)) ne) eqn:Efull.
  - (* a full column *)
    apply existsb_exists in Efull. destruct Efull as [c [Hc Hf]].
    assert (Hm : mem i (snd c) = true).
    { rewrite Forall_forall in Hwf'. specialize (Hwf' c Hc). unfold column_wf in Hwf'.
      destruct (fst c); try discriminate. now apply Hwf'. }
    assert (existsb (fun c => mem i (snd c)) ne = true) as -> by (apply existsb_exists; exists c; split; assumption).
    destruct b1; cbn [dmem]; lia.
  - destruct (N.of_nat (length ne) <? min_cols).
    + cbn [dmem]. clear. induction ne as [|c l IH]; [reflexivity|]. cbn [map existsb dmem]. now rewrite IH.
    + cbn [dmem]. change (existsb (N.eqb i) (flat_map (bitset_docs true true) ne)) with (mem i (flat_map (bitset_docs true true) ne)).
      rewrite mem_flat_map.
      assert (HF : forall c, In c ne -> is_card_full (fst c) = false).
      { intros c Hc. destruct (is_card_full (fst c)) eqn:E; [|reflexivity].
        assert (existsb (fun c => is_card_full (fst c)) ne = true) by (apply existsb_exists; exists c; split; assumption). congruence. }
      clear Efull. induction ne as [|c l IH]; [reflexivity|].
      cbn [existsb]. rewrite IH.
      * f_equal. unfold bitset_docs. inversion Hne as [|? ? Hc0 _]; subst.
        specialize (HF c (or_introl eq_refl)). destruct (fst c); try reflexivity; [congruence|discriminate].
      * now inversion Hwf'.
      * now inversion Hne.
      * intros c' Hc'. apply HF. now right.
Qed.

(* the shape the source has now *)
Lemma bitset_covers_all_columns : BITSET_OPTIONAL = true /\ BITSET_MULTIVALUED = true.
Proof. vm_compute. split; reflexivity. Qed.

Theorem exists_scorer_sound max_doc b1 cols i :
  i < max_doc -> Forall (column_wf max_doc) cols ->
  dmem (exists_scorer max_doc b1 cols) i = existsb (fun c => mem i (snd c)) cols.
Proof.
  unfold exists_scorer. destruct bitset_covers_all_columns as [-> ->]. apply exists_scorer_shape_sound.
Qed.

(* every AllScorer built spans the segment *)
Lemma exists_scorer_allok max_doc b1 cols n : exists_scorer max_doc b1 cols = DAll n -> n = max_doc.
Proof.
  unfold exists_scorer, exists_scorer_shape.
  match goal with |- context [filter ?f cols] => set (ne := filter f cols) end.
  destruct ne as [|c0 r]; [intros E; discriminate E|].
  destruct (existsb _ (c0 :: r)).
  - destruct b1; [intros E; now injection E|intros E; discriminate E].
  - destruct (_ <? _); intros E; discriminate E.
Qed.

(* An exists scorer over columns that represent the paths fs of the documents of a segment meets the
   contract of the leaf scorers (ComposeProofs.scorer_model_sound is parametric in any such leaf). *)
Theorem exists_scorer_meets_leaf_contract accepts seg b1 fs cols :
  Forall (column_wf (max_doc seg)) cols ->
  (forall i, i < max_doc seg -> existsb (fun c => mem i (snd c)) cols = existsb (has_value (doc_at seg i)) fs) ->
  forall i, i < max_doc seg ->
  dmem (exists_scorer (max_doc seg) b1 cols) i = leaf_matches accepts (doc_at seg i) (LExistsPaths fs).
Proof.
  intros Hwf Hrep i Hi. rewrite exists_scorer_sound by assumption. cbn [leaf_matches]. now apply Hrep.
Qed.

(* with the multivalued case missing from the bitset loop, documents whose only values sit in an array
   are lost as soon as there are enough columns *)
Example exists_without_multivalued_refuted :
  let cols := [(CardOptional, [0]); (CardOptional, [1]); (CardOptional, [2]); (CardMultivalued, [4; 5])] in
  dmem (exists_scorer_shape true false 4 6 true cols) 4 = false /\
  existsb (fun c => mem 4 (snd c)) cols = true /\
  dmem (exists_scorer_shape true false 4 6 true (firstn 2 cols ++ skipn 3 cols)) 4 = true.
Proof. vm_compute. repeat split; reflexivity. Qed.
