(* C03 -- model of how tantivy composes scorers for a query tree on one segment:
     src/query/boolean_query/boolean_weight.rs  (BooleanWeight::scorer, complex_scorer, scorer_union,
       scorer_disjunction, effective_must_scorer, effective_should_scorer_for_union,
       remove_and_count_all_and_empty_scorers, into_box_scorer)
     src/query/intersection.rs (intersect_scorers), boost_query.rs, const_score_query.rs,
     disjunction_max_query.rs, all_query.rs, term_query/term_weight.rs (specialized_scorer, count),
     weight.rs (Weight::count), collector/mod.rs (default_collect_segment_impl).
   The output is an expression tree `dexpr` naming the scorer that is built; `dmem` is its
   set-theoretic meaning (membership of a doc id).  The definitions only -- proofs in ComposeProofs.v. *)
From TV Require Import Base.Prelude Query.QuerySem Generated.Constants.
Local Open Scope N_scope.

Inductive dexpr :=
| DTerm (pl : list N)                 (* TermScorer over a posting list (doc ids, deleted docs included) *)
| DLeaf (pl : list N)                 (* any other leaf doc set (phrase scorer, range/term-set bitset, automaton union) *)
| DAll (n : N)                        (* AllScorer { max_doc: n } *)
| DEmpty                              (* EmptyScorer *)
| DWrap (e : dexpr)                   (* ConstScorer / BoostScorer: same documents, hides the concrete type *)
| DUnion (l : list dexpr)             (* BufferedUnionScorer *)
| DInter (l : list dexpr)             (* Intersection *)
| DExclude (a : dexpr) (l : list dexpr)
| DReqOpt (a b : dexpr)               (* RequiredOptionalScorer *)
| DDisj (k : nat) (l : list dexpr).   (* Disjunction with minimum_match_required = k *)

Fixpoint dmem (e : dexpr) (i : N) : bool :=
  match e with
  | DTerm pl => existsb (N.eqb i) pl
  | DLeaf pl => existsb (N.eqb i) pl
  | DAll n => i <? n
  | DEmpty => false
  | DWrap e' => dmem e' i
  | DUnion l => existsb (fun x => dmem x i) l
  | DInter l => forallb (fun x => dmem x i) l
  | DExclude a l => dmem a i && negb (existsb (fun x => dmem x i) l)
  | DReqOpt a _ => dmem a i
  | DDisj k l => Nat.leb k (count_true (map (fun x => dmem x i) l))
  end.

Definition is_all (e : dexpr) : bool := match e with DAll _ => true | _ => false end.
Definition is_empty (e : dexpr) : bool := match e with DEmpty => true | _ => false end.
Definition is_nil {A} (l : list A) : bool := match l with [] => true | _ => false end.

Definition ids (n : nat) : list N := map N.of_nat (seq 0 n).

(* Shape of the one-clause shortcut of BooleanWeight::scorer(), re-read from the source on every run
   (tools/pindefs/query.py): true = the shortcut returns EmptyScorer when minimum_number_should_match
   exceeds the number of should clauses of the single clause; false = the minimum is ignored there
   (the code before the fix of F31). *)
Definition SHAPE : bool := N.eqb C03_SCORER_SINGLE_CLAUSE_CHECKS_MSM 1.

Section Segment.
  Variable accepts : N -> N -> bool.
  Variable seg : segment.

  Definition max_doc_nat : nat := length seg.
  Definition max_doc : N := N.of_nat max_doc_nat.
  Definition dummy_doc : doc := mkDoc 0 [] [].
  Definition doc_at (i : N) : doc := nth (N.to_nat i) (map fst seg) dummy_doc.
  Definition alive_at (i : N) : bool := nth (N.to_nat i) (map snd seg) false.
  Definition seg_ids : list N := ids max_doc_nat.
  (* SegmentReader::alive_bitset() is Some iff the segment has deleted documents *)
  Definition has_deletes : bool := existsb (fun c => negb (snd c)) seg.

  (* remove_and_count_all_and_empty_scorers *)
  Definition keep (e : dexpr) : bool := negb (is_all e) && negb (is_empty e).
  Definition strip (l : list dexpr) : list dexpr * nat * nat :=
    (filter keep l, length (filter is_all l), length (filter is_empty l)).

  (* intersect_scorers (the sort by cost does not change the set and is not modelled) *)
  Definition intersect_scorers (l : list dexpr) : dexpr :=
    match l with
    | [] => DEmpty
    | [x] => x
    | _ => if is_nil (filter (fun i => forallb (fun x => dmem x i) l) seg_ids)
           then DEmpty                     (* go_to_first_doc == TERMINATED *)
           else DInter l
    end.

  (* into_box_scorer (scorer_union scorers): a single scorer is returned as it is (TermUnion of one term,
     single TermScorer without frequencies, single other scorer); otherwise a BufferedUnionScorer. *)
  Definition scorer_union (l : list dexpr) : dexpr :=
    match l with [x] => x | _ => DUnion l end.

  Definition scorer_disjunction (l : list dexpr) (k : nat) : dexpr :=
    match l with [x] => x | _ => DDisj k l end.

  Definition effective_must_scorer (must : list dexpr) (removed_all : nat) : option dexpr :=
    match must with
    | [] => if Nat.ltb 0 removed_all then Some (DAll max_doc) else None
    | _ => Some (intersect_scorers must)
    end.

  Definition effective_should_scorer_for_union (should : dexpr) (removed_all : nat) (scoring : bool) : dexpr :=
    if Nat.ltb 0 removed_all then
      if scoring then DUnion [should; DAll max_doc] else DAll max_doc
    else should.

  Inductive should_comb := Ignored | Optional (s : dexpr) | Required (s : dexpr).

  (* how the should clauses take part (the `should_scorers` match of complex_scorer);
     also returns the must list, extended when the should clauses are promoted to must *)
  Definition combine (eff : nat) (should must : list dexpr) : should_comb * list dexpr :=
    let nshould := length should in
    match eff with
    | O => if Nat.eqb nshould 0 then (Ignored, must) else (Optional (scorer_union should), must)
    | S O => (Required (scorer_union should), must)
    | _ => if Nat.eqb nshould eff then (Ignored, must ++ should)
           else (Required (scorer_disjunction should eff), must)
    end.

  (* the `include_scorer` match of complex_scorer *)
  Definition include_scorer (comb : should_comb) (must' : list dexpr) (must_all should_all : nat) (scoring : bool) : dexpr :=
    match comb with
    | Ignored =>
        (* the TermIntersection specialisation builds the same intersection *)
        match effective_must_scorer must' (must_all + should_all) with
        | Some e => e | None => DEmpty end
    | Optional s =>
        match effective_must_scorer must' must_all with
        | None => effective_should_scorer_for_union s should_all scoring
        | Some m => if scoring then DReqOpt m s else m
        end
    | Required s =>
        match effective_must_scorer must' must_all with
        | None => s
        | Some m => intersect_scorers [m; s]
        end
    end.

  Definition exclude_wrap (include : dexpr) (excl : list dexpr) : dexpr :=
    match excl with [] => include | _ => DExclude include excl end.

  (* BooleanWeight::complex_scorer followed by into_box_scorer *)
  Definition complex_scorer (msm : nat) (scoring : bool) (musts shoulds excludes : list dexpr) : dexpr :=
    let '(must, must_all, must_empty) := strip musts in
    if Nat.ltb 0 must_empty then DEmpty else
    let '(should, should_all, _) := strip shoulds in
    let '(excl, excl_all, _) := strip excludes in
    if Nat.ltb 0 excl_all then DEmpty else
    let eff := (msm - should_all)%nat in                  (* saturating_sub *)
    if Nat.ltb (length should) eff then DEmpty else
    let cm := combine eff should must in
    exclude_wrap (include_scorer (fst cm) (snd cm) must_all should_all scoring) excl.

  Definition pick (p : occur -> bool) (ces : list (occur * dexpr)) : list dexpr :=
    map snd (filter (fun c => p (fst c)) ces).

  Definition complex_scorer_of (msm : nat) (scoring : bool) (ces : list (occur * dexpr)) : dexpr :=
    complex_scorer msm scoring (pick is_must ces) (pick is_should ces) (pick is_mustnot ces).

  (* BooleanWeight::scorer : shortcuts for zero and one clause, else complex_scorer.
     chk = the pinned shape of the one-clause shortcut (see SHAPE). *)
  Definition bool_scorer (chk : bool) (msm : nat) (scoring : bool) (ces : list (occur * dexpr)) : dexpr :=
    match ces with
    | [] => DEmpty
    | [(o, e)] =>
        let num_should_clauses := if is_should o then 1%nat else 0%nat in
        if is_mustnot o || (chk && Nat.ltb num_should_clauses msm) then DEmpty else e
    | _ => complex_scorer_of msm scoring ces
    end.

  Section Tree.
    (* leaf scorers: any function satisfying the contract stated in ComposeProofs.v *)
    Variable chk : bool.
    Variable leaf_scorer : bool -> leaf -> dexpr.

    (* Weight::scorer(reader, boost) of the weight tree.  b1 = "the boost passed down is 1.0". *)
    Fixpoint scorer_model (sc : bool) (b1 : bool) (q : query) : dexpr :=
      match q with
      | QLeaf l => leaf_scorer sc l
      | QAll => if b1 then DAll max_doc else DWrap (DAll max_doc)
      | QEmpty => DEmpty
      (* BoostQuery::weight / ConstScoreQuery::weight return the inner weight itself when scoring is disabled *)
      | QBoost one q' => if sc then scorer_model sc (b1 && one) q' else scorer_model sc b1 q'
      | QConst q' => if sc then DWrap (scorer_model sc b1 q') else scorer_model sc b1 q'
      | QDisMax qs => bool_scorer chk 1 sc (map (fun q' => (Should, scorer_model sc b1 q')) qs)
      | QBool msm cs => bool_scorer chk msm sc (map (fun c => (fst c, scorer_model sc b1 (snd c))) cs)
      end.

    (* Weight::for_each / for_each_no_score / for_each_pruning of the ROOT weight: BooleanWeight
       (boolean and disjunction-max queries) calls complex_scorer directly, without the shortcuts of
       scorer(); every other weight uses the default implementation (scorer(reader, 1.0)). *)
    Fixpoint collect_model (sc : bool) (q : query) : dexpr :=
      match q with
      | QDisMax qs => complex_scorer_of 1 sc (map (fun q' => (Should, scorer_model sc true q')) qs)
      | QBool msm cs => complex_scorer_of msm sc (map (fun c => (fst c, scorer_model sc true (snd c))) cs)
      | QBoost _ q' => if sc then scorer_model sc true q else collect_model sc q'   (* no wrapper weight without scoring *)
      | QConst q' => if sc then scorer_model sc true q else collect_model sc q'
      | _ => scorer_model sc true q
      end.

    (* what a collector receives: default_collect_segment_impl filters by the alive bitset *)
    Definition collected (e : dexpr) : list N := filter (fun i => alive_at i && dmem e i) seg_ids.

    (* DocSet::count(alive_bitset) / count_including_deleted *)
    Definition scorer_count (e : dexpr) : nat :=
      if has_deletes then length (collected e) else length (filter (fun i => dmem e i) seg_ids).
  End Tree.

  (* ---------------------------------------------------------------- concrete leaf scorers *)
  Definition postings (l : leaf) : list N := filter (fun i => leaf_matches accepts (doc_at i) l) seg_ids.

  (* term present in the segment's dictionary <-> some (possibly deleted) doc of the segment has it *)
  Definition term_present (f t : N) : bool := negb (is_nil (postings (LTerm f t))).

  Definition std_leaf_scorer (sc : bool) (l : leaf) : dexpr :=
    match l with
    | LTerm f t =>
        (* TermWeight::specialized_scorer *)
        let pl := postings l in
        if is_nil pl then DEmpty
        else if negb sc && Nat.eqb (length pl) max_doc_nat then DAll max_doc
        else DTerm pl
    | LPhrase f ts _ =>
        (* PhraseWeight::scorer: EmptyScorer when a term is missing from the dictionary *)
        if forallb (fun ot => term_present f (snd ot)) ts then DLeaf (postings l) else DEmpty
    | _ => DLeaf (postings l)
    end.

  (* Weight::count of the weight tree (scoring is disabled by Query::count and by the Count collector) *)
  Fixpoint count_model_with (chk : bool) (ls : bool -> leaf -> dexpr) (sc : bool) (q : query) : nat :=
    match q with
    | QLeaf (LTerm f t) =>
        if has_deletes then scorer_count (ls sc (LTerm f t))
        else length (postings (LTerm f t))                 (* term_info.doc_freq *)
    | QBoost _ q' => count_model_with chk ls sc q'
    | QConst q' => count_model_with chk ls sc q'
    | _ => scorer_count (scorer_model chk ls sc true q)
    end.
  Definition count_model (chk : bool) := count_model_with chk std_leaf_scorer.

  Definition eval_ids (q : query) : list N :=
    filter (fun i => alive_at i && matches accepts (doc_at i) q) seg_ids.
End Segment.

(* ---------------------------------------------------------------- known classes *)
(* F31: a boolean node with exactly one clause, not must_not, whose minimum_number_should_match
   exceeds its number of should clauses: BooleanWeight::scorer ignores the minimum. *)
Definition f31_node (msm : nat) (os : list occur) : bool :=
  match os with
  | [o] => negb (is_mustnot o) && Nat.ltb (length (filter is_should os)) msm
  | _ => false
  end.

Fixpoint has_f31 (q : query) : bool :=
  match q with
  | QLeaf _ | QAll | QEmpty => false
  | QBoost _ q' => has_f31 q'
  | QConst q' => has_f31 q'
  | QDisMax qs => existsb has_f31 qs
  | QBool msm cs => f31_node msm (map fst cs) || existsb (fun c => has_f31 (snd c)) cs
  end.

(* the root node is evaluated by complex_scorer when collecting: only strict sub-queries count
   (without scoring the boost / const-score wrappers are transparent, so the root is below them) *)
Fixpoint has_f31_below_root (sc : bool) (q : query) : bool :=
  match q with
  | QDisMax qs => existsb has_f31 qs
  | QBool _ cs => existsb (fun c => has_f31 (snd c)) cs
  | QBoost _ q' => if sc then has_f31 q' else has_f31_below_root sc q'
  | QConst q' => if sc then has_f31 q' else has_f31_below_root sc q'
  | _ => false
  end.

(* F32: phrase with at least 3 terms and a non-zero slop. *)
Definition f32_leaf (l : leaf) : bool :=
  match l with
  | LPhrase _ ts slop => Nat.leb 3 (length ts) && (0 <? slop)
  | _ => false
  end.

Fixpoint has_f32 (q : query) : bool :=
  match q with
  | QLeaf l => f32_leaf l
  | QAll | QEmpty => false
  | QBoost _ q' => has_f32 q'
  | QConst q' => has_f32 q'
  | QDisMax qs => existsb has_f32 qs
  | QBool _ cs => existsb (fun c => has_f32 (snd c)) cs
  end.

(* the class F31 only exists under the old shape of the shortcut (chk = false) *)
Definition h31 (chk : bool) (q : query) : bool := negb chk && has_f31 q.
Definition h31_below_root (chk sc : bool) (q : query) : bool := negb chk && has_f31_below_root sc q.
