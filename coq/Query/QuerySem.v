(* C03 -- specification: which documents a query matches (set-theoretic meaning over the field
   values of the live documents).  This file is the SPEC only: `matches`, `eval`.
   Documented meaning taken from the rustdoc of src/query/boolean_query/boolean_query.rs
   (BooleanQuery: "match all Must, none of MustNot, at least one Must-or-Should";
   with_minimum_required_clauses: "the number of should clauses the returned documents must match"),
   src/query/phrase_query/phrase_query.rs (set_slop), range_query.rs, set_query.rs, exist_query.rs. *)
From TV Require Import Base.Prelude.
Local Open Scope N_scope.

(* ------------------------------------------------------------------ typed values *)
Inductive value :=
| VI64 (z : Z)          (* i64 *)
| VU64 (n : N)          (* u64 *)
| VBool (b : bool)
| VDate (z : Z)         (* DateTime: i64 nanoseconds *)
| VF64 (bits : N).      (* f64 given by its IEEE-754 bit pattern (non-NaN) *)

Definition vtag (v : value) : N :=
  match v with VI64 _ => 0 | VU64 _ => 1 | VBool _ => 2 | VDate _ => 3 | VF64 _ => 4 end.

(* the order of IEEE doubles (totalOrder restricted to non-NaN): sign-magnitude *)
Definition f64_key (bits : N) : Z :=
  if bits <? 2 ^ 63 then Z.of_N bits else (- Z.of_N (bits - 2 ^ 63) - 1)%Z.

(* the typed value order: each type is ordered by its own natural order *)
Definition vkey (v : value) : Z :=
  match v with
  | VI64 z => z | VU64 n => Z.of_N n | VBool b => if b then 1%Z else 0%Z | VDate z => z
  | VF64 bits => f64_key bits
  end.

Definition vlt (a b : value) : bool := N.eqb (vtag a) (vtag b) && Z.ltb (vkey a) (vkey b).
Definition vle (a b : value) : bool := N.eqb (vtag a) (vtag b) && Z.leb (vkey a) (vkey b).

Inductive bound := Unb | Incl (v : value) | Excl (v : value).

Definition above (lo : bound) (v : value) : bool :=
  match lo with Unb => true | Incl l => vle l v | Excl l => vlt l v end.
Definition below (hi : bound) (v : value) : bool :=
  match hi with Unb => true | Incl h => vle v h | Excl h => vlt v h end.
Definition in_range (lo hi : bound) (v : value) : bool := above lo v && below hi v.

(* ------------------------------------------------------------------ documents *)
(* Terms (tokens) are identified by numbers; the harness numbers the distinct token strings.
   A text field holds the token sequence of its value (position = index). *)
Record doc := mkDoc {
  d_uid : N;                          (* unique id (also stored in a fast field) *)
  d_text : list (N * list N);         (* text field -> tokens in position order *)
  d_vals : list (N * list value)      (* typed (fast, indexed) field -> values *)
}.

Fixpoint assoc {A} (k : N) (l : list (N * list A)) : list A :=
  match l with
  | [] => []
  | (k', v) :: r => if N.eqb k k' then v else assoc k r
  end.

Definition tokens (d : doc) (f : N) : list N := assoc f (d_text d).
Definition values (d : doc) (f : N) : list value := assoc f (d_vals d).

Definition has_token (d : doc) (f t : N) : bool := existsb (N.eqb t) (tokens d f).

(* a JSON sub-path holds typed values (numbers, booleans, dates) and/or strings (modelled as tokens) *)
Definition has_value (d : doc) (f : N) : bool :=
  negb (match values d f with [] => true | _ => false end) || negb (match tokens d f with [] => true | _ => false end).

(* positions (as integers) at which token t occurs *)
Fixpoint positions_from (p : Z) (t : N) (toks : list N) : list Z :=
  match toks with
  | [] => []
  | x :: r => if N.eqb x t then p :: positions_from (p + 1) t r else positions_from (p + 1) t r
  end.
Definition positions_of (t : N) (toks : list N) : list Z := positions_from 0 t toks.

(* Phrase with slop, the documented meaning (PhraseQuery::set_slop): every term of the phrase is
   placed on one of its occurrences; the "shift" of term i is position_i - offset_i; an exact phrase
   has all shifts equal; the slop is a budget shared by all terms that pays for the difference of
   consecutive shifts, in either direction ("A B"~2 matches "B A": both terms moved by one).
   chain prev budget ts: can the remaining terms be placed within the remaining budget. *)
Fixpoint chain (toks : list N) (prev : Z) (budget : Z) (ts : list (Z * N)) : bool :=
  match ts with
  | [] => true
  | (off, t) :: r =>
      existsb (fun p => let q := (p - off)%Z in
                        let c := Z.abs (q - prev) in
                        Z.leb c budget && chain toks q (budget - c) r)
              (positions_of t toks)
  end.

Definition phrase_spec (toks : list N) (ts : list (Z * N)) (slop : N) : bool :=
  match ts with
  | [] => false
  | (off, t) :: r => existsb (fun p => chain toks (p - off) (Z.of_N slop) r) (positions_of t toks)
  end.

(* ------------------------------------------------------------------ leaves *)
Inductive leaf :=
| LTerm (f t : N)
| LPhrase (f : N) (ts : list (Z * N)) (slop : N)        (* (offset, term) sorted by offset *)
| LPhrasePrefix (f : N) (ts : list (Z * N)) (off : Z) (a : N) (* phrase followed by any term accepted by oracle a *)
| LRange (f : N) (lo hi : bound)
| LTermSet (f : N) (ts : list N)
| LExists (f : N)
| LExistsPaths (fs : list N)                             (* exists on a JSON field with sub-paths: any of its path columns *)
| LAuto (f : N) (a : N).                                 (* fuzzy / regex: terms accepted by automaton a *)

Section Sem.
  (* Fuzzy and regex acceptance is an oracle: automaton id -> term -> accepted?  (the harness runs the
     real automaton over the term list and ships the accepted sets) *)
  Variable accepts : N -> N -> bool.

  Definition leaf_matches (d : doc) (l : leaf) : bool :=
    match l with
    | LTerm f t => has_token d f t
    | LPhrase f ts slop => phrase_spec (tokens d f) ts slop
    | LPhrasePrefix f ts off a =>
        existsb (fun t => accepts a t && phrase_spec (tokens d f) (ts ++ [(off, t)]) 0) (tokens d f)
    | LRange f lo hi => existsb (in_range lo hi) (values d f)
    | LTermSet f ts => existsb (fun t => has_token d f t) ts
    | LExists f => negb (match values d f with [] => true | _ => false end)
    | LExistsPaths fs => existsb (has_value d) fs
    | LAuto f a => existsb (accepts a) (tokens d f)
    end.

  (* ------------------------------------------------------------------ query trees *)
  Inductive occur := Must | Should | MustNot.

  Inductive query :=
  | QLeaf (l : leaf)
  | QAll
  | QEmpty
  | QBoost (one : bool) (q : query)      (* one = "the boost factor is 1.0"; irrelevant to matching *)
  | QConst (q : query)
  | QDisMax (qs : list query)
  | QBool (msm : nat) (cs : list (occur * query)).

  Definition is_must (o : occur) := match o with Must => true | _ => false end.
  Definition is_should (o : occur) := match o with Should => true | _ => false end.
  Definition is_mustnot (o : occur) := match o with MustNot => true | _ => false end.

  Definition count_true (l : list bool) : nat := length (filter (fun b => b) l).

  (* meaning of one boolean node given the truth value of each clause *)
  Definition sel (p : occur -> bool) (vs : list (occur * bool)) : list bool :=
    map snd (filter (fun c => p (fst c)) vs).

  Definition bool_sem (msm : nat) (vs : list (occur * bool)) : bool :=
    let musts := sel is_must vs in
    let msm' := Nat.max msm (match musts with [] => 1 | _ => 0 end)%nat in
    forallb (fun b => b) musts
    && negb (existsb (fun b => b) (sel is_mustnot vs))
    && Nat.leb msm' (count_true (sel is_should vs)).

  Fixpoint matches (d : doc) (q : query) : bool :=
    match q with
    | QLeaf l => leaf_matches d l
    | QAll => true
    | QEmpty => false
    | QBoost _ q' => matches d q'
    | QConst q' => matches d q'
    | QDisMax qs => (fix any (l : list query) : bool :=
                       match l with [] => false | x :: r => matches d x || any r end) qs
    | QBool msm cs =>
        bool_sem msm ((fix mp (l : list (occur * query)) : list (occur * bool) :=
                         match l with [] => [] | c :: r => (fst c, matches d (snd c)) :: mp r end) cs)
    end.

  Lemma matches_dismax d qs : matches d (QDisMax qs) = existsb (matches d) qs.
  Proof. reflexivity. Qed.

  Lemma matches_bool d msm cs :
    matches d (QBool msm cs) = bool_sem msm (map (fun c => (fst c, matches d (snd c))) cs).
  Proof. reflexivity. Qed.

  (* induction principle for the nested type *)
  Section Ind.
    Variable P : query -> Prop.
    Hypothesis Hleaf : forall l, P (QLeaf l).
    Hypothesis Hall : P QAll.
    Hypothesis Hempty : P QEmpty.
    Hypothesis Hboost : forall o q, P q -> P (QBoost o q).
    Hypothesis Hconst : forall q, P q -> P (QConst q).
    Hypothesis Hdismax : forall qs, Forall P qs -> P (QDisMax qs).
    Hypothesis Hbool : forall msm cs, Forall (fun c => P (snd c)) cs -> P (QBool msm cs).

    Fixpoint query_ind' (q : query) : P q :=
      match q with
      | QLeaf l => Hleaf l
      | QAll => Hall
      | QEmpty => Hempty
      | QBoost o q' => Hboost o q' (query_ind' q')
      | QConst q' => Hconst q' (query_ind' q')
      | QDisMax qs => Hdismax qs ((fix go (l : list query) : Forall P l :=
                        match l with [] => Forall_nil _ | x :: r => Forall_cons x (query_ind' x) (go r) end) qs)
      | QBool msm cs => Hbool msm cs ((fix go (l : list (occur * query)) : Forall (fun c => P (snd c)) l :=
                        match l with [] => Forall_nil _ | c :: r => Forall_cons c (query_ind' (snd c)) (go r) end) cs)
      end.
  End Ind.

  (* ------------------------------------------------------------------ segments and corpora *)
  (* A segment is the list of its documents in doc-id order with their alive flag
     (deleted documents keep their doc id and stay in the posting lists until a merge). *)
  Definition segment := list (doc * bool).

  Definition live (s : segment) : list doc := map fst (filter snd s).

  (* THE specification: the documents a query must return on a segment / on an index. *)
  Definition eval (s : segment) (q : query) : list doc := filter (fun d => matches d q) (live s).

  Definition eval_index (segs : list segment) (q : query) : list doc := flat_map (fun s => eval s q) segs.

  Definition uids (ds : list doc) : list N := map d_uid ds.
End Sem.
