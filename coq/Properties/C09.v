(* C09 -- Stored documents are returned exactly as they were added.
   Only statements, each closed by `exact <lemma>`, non-vacuity examples and assumptions. *)
From TV Require Import Base.Prelude Generated.Constants Store.VInt Store.SkipIndex Store.SkipIndexProofs
  Store.BlockStore Store.BlockStoreProofs Store.DocCodec Store.DocCodecProofs Store.WriterFaults.
Local Open Scope N_scope.

(* ---------------------------------------------------------------- skip index (any number of checkpoints / layers) *)
(* SkipIndexBuilder::insert / serialize_into never hit their assertions on a contiguous sequence *)
Theorem C09_skip_index_build_never_panics : forall cps,
  chain cps -> cps <> [] ->
  exists ls bufs, sib_insert_all cb_serialize STORE_CHECKPOINT_PERIOD [] cps = Some ls /\
                  sib_finish cb_serialize ls None = Some bufs.
Proof. exact skip_build_never_panics. Qed.

(* SkipIndex::seek over the serialised layers (delta-encoded VInt blocks, layer descent) returns the
   first checkpoint whose doc range ends after d -- for every contiguous sequence of checkpoints with
   non-empty doc ranges, whatever its length, whose fields fit the u32/u64 on-disk fields *)
Theorem C09_skip_index : forall cps ls bufs d,
  chain cps -> cps <> [] -> Forall cp_small cps ->
  sib_insert_all cb_serialize STORE_CHECKPOINT_PERIOD [] cps = Some ls ->
  sib_finish cb_serialize ls None = Some bufs ->
  Forall (fun b => len b < 2 ^ 32) bufs ->
  skip_seek (rev bufs) d = res_of (spec_seek cps d).
Proof. exact skip_seek_correct. Qed.

(* ... which is the unique checkpoint containing d when the sequence starts at document 0 ... *)
Theorem C09_skip_index_contains : forall cps d c,
  chain cps -> (match cps with c0 :: _ => doc_start c0 = 0 | [] => True end) ->
  spec_seek cps d = Some c -> doc_start c <= d < doc_end c.
Proof. exact find_after_contains. Qed.

Theorem C09_skip_index_unique : forall cps d c c',
  chain cps -> In c cps -> In c' cps ->
  doc_start c <= d < doc_end c -> doc_start c' <= d < doc_end c' -> spec_seek cps d = Some c -> c' = c.
Proof. exact chain_contains_unique. Qed.

(* ... and there is none iff d is beyond the last document *)
Theorem C09_skip_index_none_iff_beyond : forall cps d,
  chain cps -> cps <> [] ->
  (spec_seek cps d = None <->
   doc_end (last cps {| doc_start := 0; doc_end := 0; byte_start := 0; byte_end := 0 |}) <= d).
Proof. exact find_after_none. Qed.

(* SkipIndex::checkpoints (used by iter_raw and by stacking merges) yields the inserted sequence *)
Theorem C09_skip_index_checkpoints : forall cps ls bufs,
  chain cps -> cps <> [] -> Forall cp_small cps ->
  sib_insert_all cb_serialize STORE_CHECKPOINT_PERIOD [] cps = Some ls ->
  sib_finish cb_serialize ls None = Some bufs ->
  Forall (fun b => len b < 2 ^ 32) bufs ->
  skip_checkpoints (rev bufs) = ScanOk cps.
Proof. exact skip_checkpoints_correct. Qed.

(* non-vacuity: 70 checkpoints = 3 layers with the pinned period *)
Definition ex_cps : list checkpoint :=
  map (fun i => let i := N.of_nat i in
                {| doc_start := 3 * i; doc_end := 3 * i + 3; byte_start := 100 * i; byte_end := 100 * i + 100 |}) (seq 0 70).
Example ex_skip_three_layers :
  match skip_build ex_cps with
  | Some data => match si_open data with
                 | Some layers => (length layers =? 3)%nat && seek_res_eqb (skip_seek layers 100) (spec_seek ex_cps 100)
                                  && seek_res_eqb (skip_seek layers 210) None
                 | None => false
                 end
  | None => false
  end = true.
Proof. vm_compute. reflexivity. Qed.

(* ---------------------------------------------------------------- document codec *)
(* reading back a serialised document yields exactly the stored part of what was added: every value
   type, arrays and objects nested to any depth, several values per field, in order; the decoder's
   size fuel is adequate (DFuel never occurs) *)
Theorem C09_doc_roundtrip : forall stored d, wf_doc d -> de_doc (ser_doc stored d) = DOk (stored_part stored d).
Proof. exact doc_roundtrip. Qed.

Theorem C09_value_roundtrip : forall v, wf_value v ->
  forall fuel rest, (depth v <= fuel)%nat -> de_value fuel (ser_value v ++ rest) = DOk (v, rest).
Proof. exact value_roundtrip. Qed.

(* fields not marked STORED are never returned *)
Theorem C09_only_stored : forall stored d f v, In (f, v) (stored_part stored d) -> stored f = true.
Proof. exact only_stored. Qed.

(* the values of a stored field come back all, in the order they were added *)
Theorem C09_values_per_field_in_order : forall stored d f, stored f = true ->
  filter (fun x => N.eqb (fst x) f) (stored_part stored d) =
  map (fun fv => (fst fv, stored_value (snd fv))) (filter (fun fv => N.eqb (fst fv) f) d).
Proof. exact values_per_field_in_order. Qed.

(* a serialised document is at least one byte (hypothesis of the block-store theorems) *)
Theorem C09_serialized_doc_nonempty : forall stored d, ser_doc stored d <> [].
Proof. exact ser_doc_nonempty. Qed.

Theorem C09_vint_roundtrip : forall x rest, x < 2 ^ 64 -> vint_dec (vint_enc x ++ rest) = Some (x, rest).
Proof. exact vint_roundtrip. Qed.

(* serialize_vint_u32 with the branch thresholds regenerated from common/src/vint.rs: every u32 is read
   back by read_u32_vint (the proof re-checks START_k <= 128^(k-1) on the regenerated constants) *)
Theorem C09_vint32_roundtrip : forall v rest,
  v < 2 ^ 32 -> read_u32_vint (serialize_vint_u32 v ++ rest) = Some (v, rest).
Proof. exact serialize_vint_u32_roundtrip. Qed.

(* TantivyDocument (CompactDoc) payloads -- str / bytes / facet values, array and object address lists --
   are length-prefixed with that encoder and are read back whole *)
Theorem C09_compact_doc_bytes_roundtrip : forall data tail,
  N.of_nat (length data) < 2 ^ 32 -> compact_read_bytes (compact_write_bytes data ++ tail) = Some data.
Proof. exact compact_bytes_roundtrip. Qed.

(* ---------------------------------------------------------------- block store *)
(* the per-block offset table: every document of a sealed block is read back, incl. the last one *)
Theorem C09_block_offsets : forall ds k,
  len (seal_docs ds) < 2 ^ 32 -> (k < length ds)%nat ->
  block_read_doc (seal_docs ds) (N.of_nat k) = Some (nth k ds []).
Proof. exact block_read_sealed. Qed.

(* StoreWriter, any compressor, any block size, any documents: never panics; the closed blocks
   partition the documents in order; checkpoints are contiguous; the data area is the compressed blocks *)
Theorem C09_writer_blocks : forall compress block_size docs,
  Forall (fun d => d <> []) docs ->
  exists st st' blocks,
    sw_store_all compress block_size sw_new docs = Some st /\ sw_flush compress st = Some st' /\
    docs = concat blocks /\ Forall (fun b => b <> []) blocks /\
    bc_cps (sw_bc st') = cps_of compress 0 0 blocks /\ chain (bc_cps (sw_bc st')) /\
    bc_out (sw_bc st') = data_of compress blocks /\
    layers_inv cb_serialize STORE_CHECKPOINT_PERIOD (bc_cps (sw_bc st')) (bc_layers (sw_bc st')).
Proof. exact writer_blocks. Qed.

(* get (write cfg docs) i = nth i docs: every codec satisfying the contract, every block size
   (incl. documents larger than a block), every document list whose sizes fit the format's fields *)
Theorem C09_get : forall compress decompress,
  (forall x, decompress (compress x) = Some x) ->
  forall block_size docs st st' bufs i,
  Forall (fun d => d <> []) docs ->
  sw_store_all compress block_size sw_new docs = Some st -> sw_flush compress st = Some st' ->
  sib_finish cb_serialize (bc_layers (sw_bc st')) None = Some bufs ->
  len (concat docs) + 4 * len docs + 4 < 2 ^ 32 ->
  len (bc_out (sw_bc st')) < 2 ^ 32 -> Forall (fun b => len b < 2 ^ 32) bufs ->
  (i < length docs)%nat ->
  forall version cid,
  store_get decompress {| sr_data := bc_out (sw_bc st'); sr_layers := rev bufs; sr_version := version; sr_comp_id := cid |}
            (N.of_nat i) = Some (nth i docs []).
Proof. exact store_get_correct. Qed.

(* the block cache, under ANY replacement policy, never changes what get returns *)
Theorem C09_cache_transparent : forall decompress cache r cps d,
  skip_seek (sr_layers r) d = res_of (spec_seek cps d) -> cache_ok decompress cache r cps ->
  store_get_cached decompress cache r d = store_get decompress r d.
Proof. exact cache_transparent. Qed.

Theorem C09_cache_put_ok : forall decompress cache r cps cp b,
  cache_ok decompress cache r cps -> read_block decompress r cp = Some b ->
  (forall cp', In cp' cps -> byte_start cp' = byte_start cp -> cp' = cp) ->
  cache_ok decompress (fun k => if N.eqb k (byte_start cp) then Some b else cache k) r cps.
Proof. exact cache_put_ok. Qed.

Theorem C09_cache_evict_ok : forall decompress cache cache' r cps,
  cache_ok decompress cache r cps -> (forall k b, cache' k = Some b -> cache k = Some b) ->
  cache_ok decompress cache' r cps.
Proof. exact cache_evict_ok. Qed.

(* non-vacuity: a store with a document larger than its block, read through the file-level model *)
Definition ex_docs : list bytes := [[1;2;3]; repeat 7 40; [9]; [4;5]; repeat 8 17; [6]].
Example ex_store_get :
  match store_write id_compress 0 16 ex_docs with
  | Some file => match store_open file with
                 | Some r => list_eqb opt_bytes_eqb (map (store_get id_decompress r) [0;1;2;3;4;5;6]) (map Some ex_docs ++ [None])
                             && list_eqb opt_bytes_eqb (store_iter_raw id_decompress r (alive_of [1;4])) (map Some [[1;2;3]; [9]; [4;5]; [6]])
                 | None => false
                 end
  | None => false
  end = true.
Proof. vm_compute. reflexivity. Qed.

Definition ex_doc : doc :=
  [(0, FVal (VStr [104;105])); (1, FVal (VU64 7));
   (2, FVal (VObj [([97], VArr [VNull; VBool true; VF64 9221120237041090561; VArr []]); ([98], VObj [])]));
   (1, FPreTok [65] [123;125]); (3, FVal (VIp 5)); (0, FVal (VStr []))].
Example ex_doc_roundtrip :
  dres_sdoc_eqb (de_doc (ser_doc (stored_of [0;2;1]) ex_doc)) (stored_part (stored_of [0;2;1]) ex_doc)
  && Nat.eqb (length (stored_part (stored_of [0;2;1]) ex_doc)) 5 = true.
Proof. vm_compute. reflexivity. Qed.

(* ---------------------------------------------------------------- I/O errors are reported, never swallowed *)
(* dedicated compression thread: ANY fault pattern of the underlying writer, any message list, any tail
   (skip index, footer, flush, terminate) and any outcome of the race between the failing thread and the
   sending main thread: a failed operation makes the writer report Err *)
Theorem C09_writer_error_dedicated : forall fails notice msgs close_ops i,
  (i < total_ops msgs close_ops)%nat -> fails i = true -> dedicated_result fails notice msgs close_ops = WErr.
Proof. exact dedicated_reports_errors. Qed.

Theorem C09_writer_error_same_thread : forall fails msgs close_ops i,
  (i < total_ops msgs close_ops)%nat -> fails i = true -> same_thread_result fails 0 msgs close_ops = WErr.
Proof. exact same_thread_reports_errors. Qed.

(* Ok means complete: every operation of the stream was executed and succeeded *)
Theorem C09_writer_ok_complete : forall fails notice msgs close_ops,
  dedicated_result fails notice msgs close_ops = WOk ->
  forall i, (i < total_ops msgs close_ops)%nat -> fails i = false.
Proof. exact dedicated_ok_complete. Qed.

Theorem C09_writer_no_spurious_error : forall fails notice msgs close_ops,
  (forall i, fails i = false) -> dedicated_result fails notice msgs close_ops = WOk.
Proof. exact dedicated_no_fault_ok. Qed.

Example ex_tail_fault_reported :
  wres_eqb (writer_outcome true true 9 10) WErr && wres_eqb (writer_outcome true false 10 10) WOk = true.
Proof. vm_compute. reflexivity. Qed.
