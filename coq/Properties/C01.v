(* C01 -- Commit is atomic and durable across a crash at any instant.
   Only statements, each closed by `exact <lemma>`, and their assumptions. *)
From TV Require Import Base.Prelude Storage.Crash Storage.CrashProofs.
Local Open Scope N_scope.

(* For every storage trace accepted by the commit discipline, every crash point k and every
   crash outcome (any subsequence of the not-yet-synced directory operations survives):
   if the durable meta.json is generation g then every file g references is present under its
   name with complete, fsynced data (nothing partial or un-synced is needed), g is a generation
   that was started, and g is not older than the generation that was durable when the last
   commit returned (which carries that commit's opstamp, discipline D2); and once a commit has
   returned, a durable meta.json exists. *)
Theorem C01_monitor_sound : forall t, monitor t = true ->
  forall k img, crash (run (firstn k t)) img ->
  let c := run (firstn k t) in
  (forall g, ns_meta img = Some g ->
      openable c img g /\ g < ngen c /\ (forall r, returned c = Some r -> r <= g)) /\
  (forall r, returned c = Some r -> exists g, ns_meta img = Some g).
Proof. exact monitor_sound. Qed.

(* the discipline is prefix-closed: a crash point inside an accepted trace is itself accepted *)
Theorem C01_discipline_prefix_closed : forall t1 t2, monitor (t1 ++ t2) = true -> monitor t1 = true.
Proof. exact (fun t1 t2 => monitor_from_prefix t1 t2 init). Qed.

(* the crash relation is inhabited at every state: losing all and losing none of the pending
   directory operations are both outcomes (the theorem above is not vacuous) *)
Theorem C01_crash_outcomes_exist : forall c, crash c (base c) /\ crash c (apply_all (base c) (pend c)).
Proof. exact (fun c => conj (crash_none c) (crash_all c)). Qed.

(* Non-vacuity: a concrete two-commit trace with a merge-like replacement is accepted ... *)
Definition ex_trace : list ev :=
  [ ESyncDir; EMetaWrite [] 0; ESyncDir;
    ECreate 10; ETerminate 10; ECreate 11; ETerminate 11; ESyncDir; EMetaWrite [10; 11] 3; ESyncDir; ECommitRet 3;
    (* a merge publishes the same commit again (same opstamp); it may still be pending when ... *)
    ECreate 12; ETerminate 12; ESyncDir; EMetaWrite [12] 3; ESyncDir; EDelete 10; EDelete 11; ESyncDir;
    ECreate 13; ETerminate 13; ESyncDir; EMetaWrite [12; 13] 7; ESyncDir;
    ECreate 14; ETerminate 14; ESyncDir; EMetaWrite [14] 7; (* ... the commit returns *) ECommitRet 7; ESyncDir ].
Example ex_trace_accepted : monitor ex_trace = true.
Proof. vm_compute. reflexivity. Qed.

(* ... and the discipline really rejects the three classic mistakes (witnesses):
   publishing before the directory sync, returning before the rename is durable (F4, the
   behaviour of save_metas before the fix), deleting a file the recoverable meta still needs. *)
Theorem C01_publish_before_sync_refuted :
  first_bad [ESyncDir; EMetaWrite [] 0; ESyncDir; ECreate 10; ETerminate 10; EMetaWrite [10] 1] = Some 5.
Proof. vm_compute. reflexivity. Qed.
Theorem C01_return_before_rename_durable_refuted :
  first_bad [ESyncDir; EMetaWrite [] 0; ESyncDir; ECreate 10; ETerminate 10; ESyncDir; EMetaWrite [10] 1; ECommitRet 1] = Some 7.
Proof. vm_compute. reflexivity. Qed.
Theorem C01_delete_needed_file_refuted :
  first_bad [ESyncDir; EMetaWrite [] 0; ESyncDir; ECreate 10; ETerminate 10; ESyncDir; EMetaWrite [10] 1; ESyncDir; ECommitRet 1;
             ECreate 11; ETerminate 11; ESyncDir; EMetaWrite [11] 2; EDelete 10] = Some 13.
Proof. vm_compute. reflexivity. Qed.

Print Assumptions C01_monitor_sound.
Print Assumptions C01_discipline_prefix_closed.
Print Assumptions C01_crash_outcomes_exist.
