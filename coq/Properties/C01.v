(* C01 -- Commit is atomic and durable across a crash at any instant.
   Only statements, each closed by `exact <lemma>`, and their assumptions. *)
From TV Require Import Base.Prelude Storage.Crash Storage.CrashProofs Storage.WriteOnce Storage.WriteOnceProofs Storage.WriterStack Storage.WriterStackProofs.
Local Open Scope N_scope.

(* For every storage trace accepted by the commit discipline, every crash point k and every
   crash outcome (any subsequence of the not-yet-synced directory operations survives):
   if the durable meta.json is generation g then every file g references is present under its
   name with complete, fsynced data (nothing partial or un-synced is needed), g is a generation
   that was started, and g is not older than the generation that was durable when the last
   commit returned (which carries that commit's opstamp, discipline D2); and once a commit has
   returned, a durable meta.json exists. *)
Theorem C01_monitor_sound : forall t, monitor t = true ->
  forall k img, crash (run (firstn k t)) img ->
  let c := run (firstn k t) in
  (forall g, ns_meta img = Some g ->
      openable c img g /\ g < ngen c /\ (forall r, returned c = Some r -> r <= g)) /\
  (forall r, returned c = Some r -> exists g, ns_meta img = Some g).
Proof. exact monitor_sound. Qed.

(* the discipline is prefix-closed: a crash point inside an accepted trace is itself accepted *)
Theorem C01_discipline_prefix_closed : forall t1 t2, monitor (t1 ++ t2) = true -> monitor t1 = true.
Proof. exact (fun t1 t2 => monitor_from_prefix t1 t2 init). Qed.

(* the crash relation is inhabited at every state: losing all and losing none of the pending
   directory operations are both outcomes (the theorem above is not vacuous) *)
Theorem C01_crash_outcomes_exist : forall c, crash c (base c) /\ crash c (apply_all (base c) (pend c)).
Proof. exact (fun c => conj (crash_none c) (crash_all c)). Qed.

(* Non-vacuity: a concrete two-commit trace with a merge-like replacement is accepted ... *)
Definition ex_trace : list ev :=
  [ ESyncDir; EMetaWrite [] 0; ESyncDir;
    ECreate 10; ETerminate 10; ECreate 11; ETerminate 11; ESyncDir; EMetaWrite [10; 11] 3; ESyncDir; ECommitRet 3;
    (* a merge publishes the same commit again (same opstamp); it may still be pending when ... *)
    ECreate 12; ETerminate 12; ESyncDir; EMetaWrite [12] 3; ESyncDir; EDelete 10; EDelete 11; ESyncDir;
    ECreate 13; ETerminate 13; ESyncDir; EMetaWrite [12; 13] 7; ESyncDir;
    ECreate 14; ETerminate 14; ESyncDir; EMetaWrite [14] 7; (* ... the commit returns *) ECommitRet 7; ESyncDir ].
Example ex_trace_accepted : monitor ex_trace = true.
Proof. vm_compute. reflexivity. Qed.

(* ... and the discipline really rejects the three classic mistakes (witnesses):
   publishing before the directory sync, returning before the rename is durable (F4, the
   behaviour of save_metas before the fix), deleting a file the recoverable meta still needs. *)
Theorem C01_publish_before_sync_refuted :
  first_bad [ESyncDir; EMetaWrite [] 0; ESyncDir; ECreate 10; ETerminate 10; EMetaWrite [10] 1] = Some 5.
Proof. vm_compute. reflexivity. Qed.
Theorem C01_return_before_rename_durable_refuted :
  first_bad [ESyncDir; EMetaWrite [] 0; ESyncDir; ECreate 10; ETerminate 10; ESyncDir; EMetaWrite [10] 1; ECommitRet 1] = Some 7.
Proof. vm_compute. reflexivity. Qed.
Theorem C01_delete_needed_file_refuted :
  first_bad [ESyncDir; EMetaWrite [] 0; ESyncDir; ECreate 10; ETerminate 10; ESyncDir; EMetaWrite [10] 1; ESyncDir; ECommitRet 1;
             ECreate 11; ETerminate 11; ESyncDir; EMetaWrite [11] 2; EDelete 10] = Some 13.
Proof. vm_compute. reflexivity. Qed.

Print Assumptions C01_monitor_sound.
Print Assumptions C01_discipline_prefix_closed.
Print Assumptions C01_crash_outcomes_exist.

(* ===================== theorems added after the first build (deeper proofs) ===================== *)
(* ---- any number of crashes and recoveries ---- *)
(* `reach`: the machine runs disciplined storage operations and may, at any moment, crash with any outcome of the persistence
   model and come back (restart: the image is the durable namespace, nothing pending, data completeness and the obligation
   towards the last returned commit unchanged).  After ANY number of such rounds the next crash still leaves a started
   generation, complete, not older than the last commit that returned in any of the lives. *)
Theorem C01_crash_safe_across_restarts : forall c img, reach c -> crash c img ->
  (forall g, ns_meta img = Some g ->
      openable c img g /\ g < ngen c /\ (forall r, returned c = Some r -> r <= g)) /\
  (forall r, returned c = Some r -> ns_meta img <> None).
Proof. exact crash_safe_across_restarts. Qed.
Theorem C01_restart_reestablishes_invariant : forall c img, Inv c -> crash c img -> Inv (restart c img).
Proof. exact restart_inv. Qed.
(* a process that starts on a crash image whose meta.json references only present, complete files (what C01_monitor_sound
   guarantees of every image) and then obeys the discipline is crash safe at every point again; tie: the storage log of the
   harness's recovery runs (Index::open, reader, new writer, commit, collection on a materialised image) is fed through
   `monitor_from (from_image ..)` inside Coq *)
Theorem C01_recovered_process_crash_safe : forall files complete meta_files o t k img,
  (forall f, In f meta_files -> In f files /\ In f complete) ->
  monitor_from (from_image files complete meta_files o) t = true ->
  let c := fold_left cstep (firstn k t) (from_image files complete meta_files o) in
  crash c img ->
  (forall g, ns_meta img = Some g -> openable c img g /\ g < ngen c /\ (forall r, returned c = Some r -> r <= g)) /\
  (forall r, returned c = Some r -> ns_meta img <> None).
Proof. exact recovered_process_crash_safe. Qed.

From TV Require Import Storage.Proto Storage.ProtoProofs.

(* EVERY history: the protocol model of the writer (segment finalisation by workers, advance_deletes, save_metas =
   sync; atomic write; sync, schedule_commit = purge deletes; publish; GC; return, merges with their files written
   concurrently and end_merge on the updater thread, garbage collection against the living set, rollback, reopen),
   for every operation list and every scheduler oracle interleaving background jobs anywhere (inside save_metas,
   between GC deletions), emits only traces the commit discipline accepts ... *)
Theorem C01_all_histories : forall ops sched, monitor (proto_trace ops sched) = true.
Proof. exact proto_all_histories. Qed.

(* ... hence every history of the protocol is crash safe at every point and for every crash outcome *)
Theorem C01_all_histories_crash_safe : forall ops sched k img,
  let c := run (firstn k (proto_trace ops sched)) in
  crash c img ->
  (forall g, ns_meta img = Some g ->
      openable c img g /\ g < ngen c /\ (forall r, returned c = Some r -> r <= g)) /\
  (forall r, returned c = Some r -> exists g, ns_meta img = Some g).
Proof. exact proto_crash_safe. Qed.

(* protocol variants that are NOT safe (witnesses): no sync after the replace (the pre-fix save_metas), GC forgetting
   the committed generation, no sync before the replace, pre-sync only when the meta has a new segment id *)
Theorem C01_protocol_no_post_sync_refuted :
  first_bad (proto_trace_cfg cfg_no_post_sync tiny_ops tiny_sched) = Some 9.
Proof. exact (proj1 proto_no_post_sync_refuted). Qed.
Theorem C01_protocol_gc_deletes_current_generation_refuted :
  first_bad (proto_trace_cfg cfg_gc_forgets_committed tiny_ops tiny_sched) = Some 11.
Proof. exact (proj1 proto_gc_deletes_current_generation_refuted). Qed.
Theorem C01_protocol_no_pre_sync_refuted :
  first_bad (proto_trace_cfg cfg_no_pre_sync tiny_ops tiny_sched) = Some 7.
Proof. exact (proj1 proto_no_pre_sync_refuted). Qed.
Theorem C01_protocol_pre_sync_only_for_new_segments_refuted :
  first_bad (proto_trace_cfg cfg_pre_sync_if_new_segments (tiny_ops ++ [Stamp 1; Commit [0] []]) tiny_sched) = Some 13.
Proof. exact (proj1 proto_pre_sync_only_for_new_segments_refuted). Qed.
Theorem C01_all_histories_example :
  count is_ret (proto_trace ex_ops ex_sched) = 3%nat /\ count is_delete (proto_trace ex_ops ex_sched) = 36%nat.
Proof. exact (conj (proj1 ex_shape) (proj1 (proj2 (proj2 ex_shape)))). Qed.

Print Assumptions C01_all_histories.
Print Assumptions C01_all_histories_crash_safe.

(* ---- the two assumptions Crash.v makes about the Directory, discharged on models tied to the code ---- *)
(* (1) stream files (WriteOnce.v, tied to the VerifDirectory log of every run): at every moment of a log that
   obeys create / append* / terminate / nothing-afterwards, every terminated file is durable to its last byte ... *)
Theorem C01_terminated_data_is_durable : forall t1 t2 p f,
  wmonitor (t1 ++ t2) = true -> wget (wrun t1) p = Some f -> w_term f = true -> w_synced f = w_len f.
Proof. exact terminated_is_durable. Qed.
(* ... and it is never touched again *)
Theorem C01_terminated_data_is_final : forall t2 s p f,
  wmonitor_from s t2 = true -> wget s p = Some f -> w_term f = true -> wget (fold_left wstep t2 s) p = Some f.
Proof. exact terminated_is_final. Qed.

(* (2) the real directory's primitives (WriterStack.v, call orders regenerated from the source by tools/pin.py):
   terminate through FooterProxy(BufWriter(SafeFileWriter)) leaves payload AND footer durable, nothing buffered *)
Theorem C01_terminate_makes_everything_durable : forall s footer,
  let s' := prun s (terminate_prims footer) in f_dur s' = f_all s ++ footer /\ f_buf s' = [] /\ f_os s' = f_dur s'.
Proof. exact terminate_makes_everything_durable. Qed.

(* atomic_write: at EVERY crash point of its primitive steps, whether or not the rename reached the disk and however
   much un-synced data did, the target name shows the old content or exactly the new content *)
Theorem C01_atomic_write_is_atomic : forall content old j rs k,
  let v := visible old (prun fs0 (firstn j (atomic_write_prims content))) rs k in v = old \/ v = Some content.
Proof. exact atomic_write_is_atomic. Qed.
(* ... as does every sequence of primitives that renames only a fully synced file and leaves it alone afterwards *)
Theorem C01_disciplined_replace_is_atomic : forall l old j rs k,
  pmonitor_from fs0 l = true ->
  visible old (prun fs0 (firstn j l)) rs k = old \/ visible old (prun fs0 (firstn j l)) rs k = Some (f_os (prun fs0 l)).
Proof. exact disciplined_replace_is_atomic. Qed.
(* the orders that are NOT safe (witnesses): rename before the data is synced; footer stamped after the only fsync *)
Theorem C01_persist_before_sync_refuted :
  exists j rs k, let v := visible (Some [9]) (prun fs0 (firstn j (atomic_prims [1; 2; 4; 3] [1; 2; 3]))) rs k in
                 v <> Some [9] /\ v <> Some [1; 2; 3].
Proof. exact persist_before_sync_refuted. Qed.
Theorem C01_footer_after_sync_refuted :
  exists s footer, f_dur (prun s (footer_prims [2; 1; 3] [3; 2] [3; 4] footer)) <> f_all s ++ footer.
Proof. exact footer_after_sync_refuted. Qed.

Print Assumptions C01_crash_safe_across_restarts.
Print Assumptions C01_recovered_process_crash_safe.
Print Assumptions C01_terminated_data_is_durable.
Print Assumptions C01_terminate_makes_everything_durable.
Print Assumptions C01_atomic_write_is_atomic.
Print Assumptions C01_disciplined_replace_is_atomic.
