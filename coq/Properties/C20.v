(* C20 -- Checksum validation detects any corruption of a segment file.
   Only statements, each closed by `exact <lemma>`, and their assumptions. *)
From TV Require Import Base.Prelude Codec.CRC Codec.Footer Generated.Constants.
Local Open Scope N_scope.

(* The checksum is CRC-32 as a bit-serial LFSR; the byte-wise function that is run
   against crc32fast is the same function. *)
Theorem C20_crc32_is_bitserial : forall l, wf_bytes l = true -> crc32 l = crc_bits (bits_of_bytes l).
Proof. exact crc32_is_bitserial. Qed.

(* Any damage confined to 32 consecutive bits of a message of ANY length changes the CRC. *)
Theorem C20_burst_detected : forall m e,
  length e = length m -> burst32 e -> crc_bits (xorl m e) <> crc_bits m.
Proof. exact burst_detected. Qed.

Theorem C20_bit_flip_detected : forall l i k,
  wf_bytes l = true -> (i < length l)%nat -> k < 8 -> crc32 (flip_bit i k l) <> crc32 l.
Proof. exact bit_flip_detected. Qed.

Theorem C20_byte_substitution_detected : forall l i v,
  wf_bytes l = true -> is_byte v = true -> (i < length l)%nat -> nth i l 0 <> v ->
  crc32 (set_nth i v l) <> crc32 l.
Proof. exact byte_substitution_detected. Qed.

(* The checksum in the footer is the checksum of the bytes the underlying writer accepted --
   for every sequence of write calls with arbitrary short writes. *)
Theorem C20_proxy_hashes_accepted_bytes :
  forall (print : footer -> bytes) v evs,
  proxy_run print v evs =
  accepted evs ++ footer_bytes print {| f_version := v; f_crc := crc32 (accepted evs) |}.
Proof. exact proxy_hashes_accepted_bytes. Qed.

Section Codec.
  Variable print : footer -> bytes.
  Variable parse : bytes -> option footer.
  Hypothesis parse_print : forall f, parse (print f) = Some f.
  Hypothesis print_short : forall f, N.of_nat (length (print f)) <= FOOTER_MAX_LEN.

  Lemma min_len_le_8 : EXTRACT_MIN_LEN <= 8.
  Proof. vm_compute. discriminate. Qed.

  (* reading back yields exactly the content without the footer *)
  Theorem C20_roundtrip : forall body f, extract_footer parse (body ++ footer_bytes print f) = Ok (f, body).
  Proof. exact (extract_roundtrip print parse parse_print print_short min_len_le_8). Qed.

  Theorem C20_open_read_returns_written : forall v evs,
    N.leb INDEX_FORMAT_OLDEST_SUPPORTED_VERSION (v_fmt v) && N.leb (v_fmt v) INDEX_FORMAT_VERSION = true ->
    open_read parse (proxy_run print v evs) = Ok (accepted evs).
  Proof. exact (open_read_proxy print parse parse_print print_short min_len_le_8). Qed.

  (* validation reports a file iff the stored crc differs from the crc of the body *)
  Theorem C20_validate_exact : forall body f,
    validate_checksum parse (body ++ footer_bytes print f) = Ok (N.eqb (f_crc f) (crc32 body)).
  Proof. exact (validate_exact print parse parse_print print_short min_len_le_8). Qed.

  Theorem C20_validate_intact : forall v evs, validate_checksum parse (proxy_run print v evs) = Ok true.
  Proof. exact (validate_intact print parse parse_print print_short min_len_le_8). Qed.

  Theorem C20_validate_detects_bit_flip : forall body v i k,
    wf_bytes body = true -> (i < length body)%nat -> k < 8 ->
    validate_checksum parse (flip_bit i k body ++ footer_bytes print {| f_version := v; f_crc := crc32 body |}) = Ok false.
  Proof. exact (validate_detects_bit_flip print parse parse_print print_short min_len_le_8). Qed.

  Theorem C20_validate_detects_substitution : forall body v i b,
    wf_bytes body = true -> is_byte b = true -> (i < length body)%nat -> nth i body 0 <> b ->
    validate_checksum parse (set_nth i b body ++ footer_bytes print {| f_version := v; f_crc := crc32 body |}) = Ok false.
  Proof. exact (validate_detects_substitution print parse parse_print print_short min_len_le_8). Qed.

  (* files of an unsupported format version are refused, all others are read *)
  Theorem C20_version_gate : forall body f,
    open_read parse (body ++ footer_bytes print f) =
    if N.leb INDEX_FORMAT_OLDEST_SUPPORTED_VERSION (v_fmt (f_version f)) && N.leb (v_fmt (f_version f)) INDEX_FORMAT_VERSION
    then Ok body else Err Incompatible.
  Proof. exact (version_gate print parse parse_print print_short min_len_le_8). Qed.
End Codec.

(* Damaged or truncated files are reported through an error value, never through a panic:
   requires the first length test of extract_footer (regenerated constant) to cover the 8 bytes
   that are read next. *)
Lemma min_len_ge_8 : 8 <= EXTRACT_MIN_LEN.
Proof. vm_compute. discriminate. Qed.

Theorem C20_extract_never_panics : forall parse file, extract_footer parse file <> Err PanicUnderflow.
Proof. exact (fun parse file => extract_no_panic parse file min_len_ge_8). Qed.

(* The library's own version passes the gate (non-vacuity of the version hypotheses). *)
Example lib_version_supported :
  N.leb INDEX_FORMAT_OLDEST_SUPPORTED_VERSION (v_fmt lib_version) && N.leb (v_fmt lib_version) INDEX_FORMAT_VERSION = true.
Proof. vm_compute. reflexivity. Qed.

(* Non-vacuity + the concrete codec is an instance on a sample. *)
Example concrete_codec_roundtrip :
  json_parse (json_payload {| f_version := lib_version; f_crc := 3735928559 |})
  = Some {| f_version := lib_version; f_crc := 3735928559 |}.
Proof. vm_compute. reflexivity. Qed.

Example crc_check_value : crc32 [49;50;51;52;53;54;55;56;57] = 0xCBF43926.
Proof. vm_compute. reflexivity. Qed.

(* F8 (inherent): truncation is NOT always detectable by any 32-bit checksum in a footer:
   a body that embeds a well-formed footer validates after truncation at that point. *)
Definition f8_inner : bytes := [1;2;3].
Definition f8_body : bytes :=
  f8_inner ++ footer_bytes json_payload {| f_version := lib_version; f_crc := crc32 f8_inner |} ++ [9;9].
Definition f8_file : bytes := f8_body ++ footer_bytes json_payload {| f_version := lib_version; f_crc := crc32 f8_body |}.
Definition f8_cut : nat := length f8_body - 2.
Theorem C20_truncation_refuted :
  Nat.ltb f8_cut (length f8_file) = true /\ run_validate (firstn f8_cut f8_file) = Ok true /\ run_validate f8_file = Ok true.
Proof. vm_compute. repeat split; reflexivity. Qed.

Print Assumptions C20_crc32_is_bitserial.
Print Assumptions C20_burst_detected.
Print Assumptions C20_bit_flip_detected.
Print Assumptions C20_byte_substitution_detected.
Print Assumptions C20_proxy_hashes_accepted_bytes.
Print Assumptions C20_roundtrip.
Print Assumptions C20_open_read_returns_written.
Print Assumptions C20_validate_exact.
Print Assumptions C20_validate_intact.
Print Assumptions C20_validate_detects_bit_flip.
Print Assumptions C20_validate_detects_substitution.
Print Assumptions C20_version_gate.
Print Assumptions C20_extract_never_panics.
Print Assumptions C20_truncation_refuted.
