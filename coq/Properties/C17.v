(* C17 -- A sorted index keeps every segment in sort order, with unchanged semantics. *)
From TV Require Import Base.Prelude Indexing.SortIndex Indexing.SortProofs Generated.Constants.
From Coq Require Import Sorting.Sorted Sorting.Permutation.
Local Open Scope N_scope.

(* ------------------------------------------------------------------ the order of the property *)

(* Asc: documents without a value first, then increasing values. *)
Theorem C17_order_asc : forall a b,
  key_le Asc a b = true <-> a = None \/ exists x y, a = Some x /\ b = Some y /\ x <= y.
Proof. exact key_le_asc_spec. Qed.

(* Desc: decreasing values, documents without a value last. *)
Theorem C17_order_desc : forall a b,
  key_le Desc a b = true <-> b = None \/ exists x y, a = Some x /\ b = Some y /\ y <= x.
Proof. exact key_le_desc_spec. Qed.

(* ------------------------------------------------------------------ fresh segments *)

(* The doc-id mapping computed at finalisation is a permutation of the segment's doc ids, for every
   recorded column (any multiset of values, duplicates, missing values, several values per document). *)
Theorem C17_mapping_is_permutation : forall vtk s o,
  wf_segment s = true ->
  Permutation (sort_order_from_ops vtk (ops_of_groups (s_sortcol s)) (s_max_doc s) (is_desc o)) (seq 0 (s_max_doc s)).
Proof. intros vtk s o H. exact (sort_order_is_perm vtk s H o). Qed.

(* DocIdMapping holds the permutation in both directions. *)
Theorem C17_mapping_inverse : forall n n2o,
  Permutation n2o (seq 0 n) ->
  (forall new, (new < n)%nat -> get_new_doc_id (from_new_id_to_old_id n2o) (nth new n2o 0%nat) = new) /\
  (forall old, (old < n)%nat -> nth (get_new_doc_id (from_new_id_to_old_id n2o) old) n2o 0%nat = old).
Proof.
  intros n n2o H. split.
  - exact (get_new_of_old n n2o H).
  - intros old Ho. exact (proj2 (old_of_get_new n n2o H old Ho)).
Qed.

(* Every per-document structure (sort column, other columns, field norms, doc store, postings of every
   term) is permuted by the same permutation: the document at new id i carries exactly what the
   document at old id n2o[i] carried -- for ANY permutation handed to remap_and_write. *)
Theorem C17_permutation : forall s n2o,
  wf_segment s = true -> Permutation n2o (seq 0 (s_max_doc s)) ->
  logical (remap_segment (from_new_id_to_old_id n2o) s) = map (logical_doc s) n2o.
Proof. intros s n2o H P. exact (logical_remap s H n2o P). Qed.

(* and what is handed to the serializers is well formed again (doc ids strictly increasing per term / column) *)
Theorem C17_remap_well_formed : forall s n2o,
  wf_segment s = true -> Permutation n2o (seq 0 (s_max_doc s)) ->
  wf_segment (remap_segment (from_new_id_to_old_id n2o) s) = true.
Proof. intros s n2o H P. exact (remap_segment_wf s H n2o P). Qed.

(* A freshly written segment of a sorted index is in sort order (null placement included in key_le). *)
Theorem C17_segment_sorted_fresh : forall vtk s o opstamps,
  wf_segment s = true ->
  sorted_b (key_le o) (map (doc_key vtk) (logical (fst (finalize (Some o) vtk s opstamps)))) = true.
Proof. intros vtk s o ops H. exact (finalize_sorted vtk s H o ops). Qed.

(* ------------------------------------------------------------------ deletes *)

(* Per-document opstamps travel with the documents ... *)
Theorem C17_opstamps_permuted : forall n n2o opstamps new,
  Permutation n2o (seq 0 n) -> (new < n)%nat ->
  nth new (remap_doc_opstamps opstamps (Some (from_new_id_to_old_id n2o))) 0 = nth (nth new n2o 0%nat) opstamps 0.
Proof.
  intros n n2o ops new P H. cbn [remap_doc_opstamps from_new_id_to_old_id new_to_old].
  apply (nth_map_lt (fun doc => nth doc ops 0)). now rewrite (n2o_length n n2o P).
Qed.

(* ... therefore the test `doc_opstamp < delete_opstamp` of apply_deletes selects, in the sorted segment,
   exactly the documents it selects in the unsorted one: the alive bitset of the sorted segment is the
   permuted alive bitset of the unsorted segment, for every list of delete operations. *)
Theorem C17_deletes_unchanged : forall s n2o opstamps dels,
  wf_segment s = true -> Permutation n2o (seq 0 (s_max_doc s)) -> length opstamps = s_max_doc s ->
  apply_deletes (remap_segment (from_new_id_to_old_id n2o) s) dels
                (remap_doc_opstamps opstamps (Some (from_new_id_to_old_id n2o)))
  = remap (from_new_id_to_old_id n2o) (apply_deletes s dels opstamps) true.
Proof. intros s n2o ops dels H P L. exact (apply_deletes_remap s H n2o P ops L dels). Qed.

(* the remap of the opstamps is needed: without it a same-transaction delete hits the wrong document *)
Definition nr_seg : segment :=
  {| s_max_doc := 2; s_sortcol := [(0%nat, [9]); (1%nat, [3])]; s_columns := []; s_norms := []; s_store := [[0]; [1]];
     s_postings := [([7], [(0%nat, (1, [])); (1%nat, (1, []))])] |}.
Example opstamps_remap_needed :
  let m := get_doc_id_mapping_from_field Asc (fun v => Some v) nr_seg in
  let dels := [{| del_term := [7]; del_opstamp := 1 |}] in   (* add(op 0, key 9); delete(op 1); add(op 2, key 3) *)
  (new_to_old m = [1; 0]%nat) /\
  (apply_deletes (remap_segment m nr_seg) dels (remap_doc_opstamps [0; 2] (Some m)) = [true; false]) /\
  (apply_deletes (remap_segment m nr_seg) dels [0; 2] = [false; true]).
Proof. vm_compute. repeat split; reflexivity. Qed.

(* ------------------------------------------------------------------ merges *)

(* itertools' kmerge_by, whatever its tie breaking: any sequence of "emit a head that no other head is
   less than" over sources sorted by the comparator is sorted, ... *)
Theorem C17_kmerge_sorted : forall o (srcs : list (list melem)) out,
  (forall s, In s srcs -> sorted_b (fun a b => negb (melem_lt o b a)) s = true) ->
  kmerge_run (melem_lt o) srcs out ->
  sorted_b (key_le o) (map fst out) = true.
Proof.
  intros o srcs out HS Hrun.
  rewrite <- (sorted_b_map (key_le o) (@fst okey doc_addr)).
  rewrite <- (sorted_b_ext (fun a b => negb (melem_lt o b a)) (fun a b => key_le o (fst a) (fst b)))
    by (intros a b; apply melem_le_key).
  exact (kmerge_run_sorted (melem_lt o) (melem_le_total o) (melem_le_trans o) srcs out HS Hrun).
Qed.

(* ... is a permutation of the inputs, ... *)
Theorem C17_kmerge_permutation : forall o (srcs : list (list melem)) out,
  kmerge_run (melem_lt o) srcs out -> Permutation out (concat srcs).
Proof. intros o. exact (kmerge_run_perm (melem_lt o)). Qed.

(* ... and keeps each source's internal order (so the per-reader sequential store read stays aligned). *)
Theorem C17_kmerge_source_order : forall o (srcs : list (list melem)) out,
  (forall i s x, nth_error srcs i = Some s -> In x s -> fst (snd x) = i) ->
  kmerge_run (melem_lt o) srcs out ->
  forall i, filter (fun x => Nat.eqb (fst (snd x)) i) out = nth i srcs [].
Proof. intros o srcs out. exact (kmerge_run_source_order (melem_lt o) (fun e : melem => fst (snd e)) srcs out). Qed.

(* the executable merge used by the model is such a run (so the three facts above apply to it) *)
Theorem C17_kmerge_model_is_run : forall o (srcs : list (list melem)),
  kmerge_run (melem_lt o) srcs (kmerge (melem_lt o) srcs).
Proof. intros o. exact (kmerge_is_run (melem_lt o) (melem_le_total o) (melem_le_trans o)). Qed.

(* Stacking: whenever is_disjunct_and_sorted_on_sort_property answers true (outside F171), the
   concatenation of the live documents in reader order is sorted. *)
Theorem C17_stack_sound : forall o rs,
  (forall r, In r rs -> wf_reader r = true /\ reader_sorted o r = true) -> has_f171 rs = false ->
  is_disjunct_and_sorted o rs = true ->
  sorted_b (key_le o) (map (addr_key rs) (stack_mapping rs)) = true.
Proof. intros o rs H1 H2 H3. rewrite stack_mapping_keys. exact (stack_sound o rs H1 H2 H3). Qed.

(* Every merge -- pre-sort of the readers, then stacking or k-way merge, numeric keys or merged
   ordinals -- of sources that are in sort order produces a segment in sort order, made of exactly the
   live documents of the sources, each source in its own order. *)
Theorem C17_segment_sorted_merge : forall o ordinals readers,
  (forall r, In r readers -> wf_reader r = true /\ reader_sorted o r = true) -> has_f171 readers = false ->
  sorted_keys o (merged_keys o ordinals readers) = true.
Proof. exact merge_sorted. Qed.

Theorem C17_merge_keeps_live_documents : forall o ordinals readers,
  Permutation (merge_mapping o ordinals readers) (stack_mapping (merge_readers o ordinals readers)).
Proof. exact merge_mapping_perm. Qed.

Theorem C17_merge_source_order : forall o rs i,
  filter (fun a => Nat.eqb (fst a) i) (kmerge_mapping o rs) =
  match nth_error rs i with Some r => map (fun d => (i, d)) (doc_ids_alive r) | None => [] end.
Proof. exact kmerge_mapping_source_order. Qed.

(* F171: with the pre-fix test (`!= Cardinality::Optional`: Multivalued columns not scanned) a Multivalued
   source with a live value-less document is declared null-free; windows disjoint => stacked; sources sorted,
   result not sorted.  The theorems above exclude exactly this class; for the source shape pinned now
   (SORT_LIVE_NULLS_SCANS_MULTIVALUED) the class is empty iff the pin is 1. *)
Theorem C17_stack_multivalued_refuted : exists readers,
  has_f171_gen false readers = true /\
  forallb (fun r => wf_reader r && reader_sorted Asc r) readers = true /\
  windows_all (fun c1 c2 => N.leb (max_value c1) (min_value c2)) readers = true /\
  existsb (segment_has_live_nulls_gen false) readers = false /\
  sorted_keys Asc (map (addr_key readers) (stack_mapping readers)) = false.
Proof. exists f171_readers. destruct f171_witness as (A & B & C & D & _ & F). auto. Qed.

(* For the code as it is now the excluded class is empty: the merge theorems hold for ALL sorted sources. *)
Theorem C17_segment_sorted_merge_all : forall o ordinals readers,
  SORT_LIVE_NULLS_SCANS_MULTIVALUED = 1 ->
  (forall r, In r readers -> wf_reader r = true /\ reader_sorted o r = true) ->
  sorted_keys o (merged_keys o ordinals readers) = true.
Proof.
  intros o ordinals readers Hpin Hok. apply merge_sorted; [exact Hok|].
  unfold has_f171, has_f171_gen, f171_reader_gen, scans_multivalued. rewrite Hpin. cbn [N.eqb negb andb].
  induction readers as [|r rs IH]; [reflexivity|]. cbn [existsb]. apply IH. intros x Hx. apply Hok. now right.
Qed.

Example pinned_shape_scans_multivalued : SORT_LIVE_NULLS_SCANS_MULTIVALUED = 1.
Proof. vm_compute. reflexivity. Qed.

(* non-vacuity: a disjoint pair is stacked, an overlapping pair is k-way merged, both sorted *)
Example merge_examples :
  let a := {| r_id := 0; r_vals := [[1]; [3]; [3]]; r_alive := [true; false; true] |} in
  let b := {| r_id := 1; r_vals := [[3]; [7]]; r_alive := [true; true] |} in
  let c := {| r_id := 2; r_vals := [[]; [2]; [5]]; r_alive := [true; true; true] |} in
  merge_mapping Asc false [b; a] = [(0, 0); (0, 2); (1, 0); (1, 1)]%nat /\
  merged_keys Asc false [b; a] = [Some 1; Some 3; Some 3; Some 7] /\
  merged_keys Asc false [a; b; c] = [None; Some 1; Some 2; Some 3; Some 3; Some 5; Some 7] /\
  merged_keys Desc false [{| r_id := 0; r_vals := [[3]; [3]; [1]]; r_alive := [true; false; true] |};
                          {| r_id := 1; r_vals := [[7]; [3]]; r_alive := [true; true] |};
                          {| r_id := 2; r_vals := [[5]; [2]; []]; r_alive := [true; true; true] |}]
    = [Some 7; Some 5; Some 3; Some 3; Some 2; Some 1; None].
Proof. vm_compute. repeat split; reflexivity. Qed.

(* ------------------------------------------------------------------ the keys the code compares *)

(* i64 / date (two's complement pattern) and f64 (IEEE bits, -0.0 aside) are mapped to u64 by maps that
   preserve the order of the values; the pinned sign bit is 2^63. *)
Theorem C17_i64_key_order : forall a b, a < 2 ^ 64 -> b < 2 ^ 64 ->
  Z.compare (i64_val a) (i64_val b) = N.compare (i64_to_u64 a) (i64_to_u64 b).
Proof. exact i64_to_u64_monotone. Qed.

Theorem C17_f64_key_order : forall a b, a < 2 ^ 64 -> b < 2 ^ 64 -> a <> SORT_HIGHEST_BIT -> b <> SORT_HIGHEST_BIT ->
  Z.compare (f64_ord a) (f64_ord b) = N.compare (f64_to_u64 a) (f64_to_u64 b).
Proof. exact f64_to_u64_monotone. Qed.

(* hence "sorted by the u64 keys" (what the theorems above establish) is "sorted by the field's values"
   (the predicate spec_sorted that the harness evaluates on every observed segment) *)
Theorem C17_numeric_spec_is_key_order : forall t o keys,
  Forall (fun k => match k with Some l => raw_ok t l | None => True end) keys ->
  spec_sorted (SNum t) o keys = sorted_keys o (map (option_map (fun l => to_u64 t (hd 0 l))) keys).
Proof. exact spec_sorted_numeric. Qed.

(* Str / Bytes: the code compares dictionary ordinals (rank of the term among the terms of the segment, or
   of all merged segments); ranks order the terms exactly like their bytes, so sortedness of the ordinal
   keys is sortedness in byte order. *)
Theorem C17_ordinal_key_order : forall terms a b, In a terms -> In b terms ->
  N.compare (term_ord terms a) (term_ord terms b) = bytes_cmp a b.
Proof. exact term_ord_monotone. Qed.

Theorem C17_bytes_spec_is_key_order : forall terms o keys,
  Forall (fun k => match k with Some t => In t terms | None => True end) keys ->
  spec_sorted SBytes o keys = sorted_keys o (map (option_map (term_ord terms)) keys).
Proof. exact spec_sorted_bytes. Qed.

(* std's sort_by is used through its contract only: ANY sorted permutation that keeps equal elements
   in their original order is the list the model's insertion sort returns. *)
Theorem C17_stable_sort_unique : forall r (l l' : list (okey * nat)),
  Permutation l' l -> sorted_b (pair_le r) l' = true ->
  (forall k, filter (equiv (pair_le r) k) l' = filter (equiv (pair_le r) k) l) ->
  l' = sort_by (pair_le r) l.
Proof. intros r. exact (stable_sort_unique (pair_le r) (pair_le_total r) (pair_le_trans r)). Qed.

(* ------------------------------------------------------------------ the writers' own encodings *)

(* Field norms: finalize_inner pads every per-field buffer to max_doc before the mapping indexes it, so at its
   new doc id every document gets the byte recorded for it, and 0 if it lacks the field (also when it is among
   the last documents added, for which the buffer holds no byte) -- for every field, independently. *)
Theorem C17_fieldnorms_remapped : forall n n2o f new,
  Permutation n2o (seq 0 n) -> (length f <= n)%nat -> (new < n)%nat ->
  nth new (serialize_fieldnorms (Some (from_new_id_to_old_id n2o)) n f) 0 = nth (nth new n2o 0%nat) f 0.
Proof. exact serialize_fieldnorms_spec. Qed.

(* Term-frequency recorder (IndexRecordOption::WithFreqs): the deltas are between OLD doc ids; rebuilding the
   old id before remapping makes serialize-with-mapping the remap of the posting list (C17_permutation then says
   every (doc, tf) stays attached to its document). *)
Theorem C17_tf_recorder_remapped : forall (m : doc_id_mapping) (pl : plist posting),
  strictly_increasing_b (map fst pl) = true ->
  serialize_tf_recorder m (delta_encode 0 (map fst pl)) (map snd pl) = remap_plist m pl.
Proof. intros m pl. exact (serialize_tf_recorder_spec m pl). Qed.

Print Assumptions C17_order_asc.
Print Assumptions C17_order_desc.
Print Assumptions C17_mapping_is_permutation.
Print Assumptions C17_mapping_inverse.
Print Assumptions C17_permutation.
Print Assumptions C17_remap_well_formed.
Print Assumptions C17_segment_sorted_fresh.
Print Assumptions C17_opstamps_permuted.
Print Assumptions C17_deletes_unchanged.
Print Assumptions C17_kmerge_sorted.
Print Assumptions C17_kmerge_permutation.
Print Assumptions C17_kmerge_source_order.
Print Assumptions C17_kmerge_model_is_run.
Print Assumptions C17_stack_sound.
Print Assumptions C17_segment_sorted_merge.
Print Assumptions C17_merge_keeps_live_documents.
Print Assumptions C17_merge_source_order.
Print Assumptions C17_stack_multivalued_refuted.
Print Assumptions C17_segment_sorted_merge_all.
Print Assumptions C17_i64_key_order.
Print Assumptions C17_f64_key_order.
Print Assumptions C17_numeric_spec_is_key_order.
Print Assumptions C17_ordinal_key_order.
Print Assumptions C17_bytes_spec_is_key_order.
Print Assumptions C17_stable_sort_unique.
Print Assumptions C17_fieldnorms_remapped.
Print Assumptions C17_tf_recorder_remapped.
