(* C16 -- The query parser is total and implements its documented grammar.
   Only statements, each closed by `exact <lemma>`, non-vacuity examples, refutation witnesses. *)
From TV Require Import Base.Prelude Text.BinOpFold Text.Grammar Text.Logical Text.GrammarProofs Generated.Constants.
Local Open Scope N_scope.

(* AND binds tighter than OR: for every operator chain x1 op1 x2 ... opn xn (any length, any
   sub-queries, either default mode) the folded query matches a document iff some maximal AND-run
   has all its members matching. *)
Theorem C16_and_binds_tighter :
  forall (L : Type) (lsem : L -> bool) (dflt : occur) (x1 : ast L) (rest : list (binop * ast L)),
  sem lsem dflt (fold_chain x1 rest) = existsb (forallb (sem lsem dflt)) (and_runs [x1] rest).
Proof. exact (fun L lsem dflt => and_binds_tighter lsem dflt). Qed.

(* the strict entry point folds with the same function (aggregate_binary_expressions never fails) *)
Theorem C16_strict_fold_is_chain_fold :
  forall (L : Type) (x1 : ast L) (rest : list (binop * ast L)),
  aggregate_binary (None, x1) (map (fun p => (Some (fst p), None, snd p)) rest) = Some (fold_chain x1 rest).
Proof. intros L x1 rest. rewrite aggregate_binary_eq. reflexivity. Qed.

(* + and - markers and the default mode: `o1 x1 o2 x2 ...` (>= 2 members, no operator) folds to the
   clause itself, whose meaning is: every +, no -, and in disjunction mode (when there is no +) some
   unmarked member; in conjunction mode every unmarked member. *)
Theorem C16_occur_semantics :
  forall (L : Type) (lsem : L -> bool) (dflt : occur) (c1 c2 : option occur * ast L) (r : list (option occur * ast L)),
  dflt = Should \/ dflt = Must ->
  sem lsem dflt (finalize (unrev (scan [] (occur_triples (c1 :: c2 :: r))))) = occur_spec lsem dflt (c1 :: c2 :: r).
Proof.
  intros L lsem dflt c1 c2 r Hd.
  transitivity (sem lsem dflt (Clause (c1 :: c2 :: r))); [f_equal; exact (fold_occur_list c1 c2 r)|].
  rewrite sem_clause. exact (clause_sem_occur_spec lsem dflt (c1 :: c2 :: r) Hd).
Qed.

(* a single member keeps its meaning; a single negated member matches nothing (QueryParser rejects it) *)
Theorem C16_single_member :
  forall (L : Type) (lsem : L -> bool) (dflt : occur) (o : option occur) (x : ast L),
  sem lsem dflt (finalize (unrev (scan [] (occur_triples [(o, x)])))) = if is_mustnot o then false else sem lsem dflt x.
Proof.
  intros L lsem dflt o x.
  transitivity (sem lsem dflt (if is_mustnot o then Clause [(o, x)] else x)); [f_equal; exact (fold_occur_single (o, x))|].
  destruct o as [[]|]; cbn [is_mustnot]; try reflexivity.
  rewrite sem_clause. cbn. now destruct (sem lsem dflt x).
Qed.

(* the schema-resolved tree (default occur made explicit) has the same meaning *)
Theorem C16_logical_ast_sem :
  forall (L : Type) (lsem : L -> bool) (dflt : occur) (a : ast L),
  lsem_ast lsem (to_logical dflt a) = sem lsem dflt a.
Proof. exact (fun L lsem dflt => to_logical_sem dflt lsem). Qed.

(* print / parse: for EVERY concrete query of the fragment {quoted phrases (either quote kind), + / -
   markers, AND / OR, implicit lists, parentheses to any depth} and EVERY layout (whitespace runs of
   space/tab/CR/LF before, between and after members and after operators, redundant parentheses),
   the model of the strict grammar returns the documented meaning; in particular the fuel of
   parse_ref is adequate (no OutOfFuel) and nothing of the text is left over. *)
Theorem C16_print_parse :
  forall c : cq, pf c = true -> is_seq c = true ->
  parse_raw (print c) = Ok (norm c) /\ parse_ref (print c) = Ok (norm_top c).
Proof. exact print_parse. Qed.

(* Totality of the model.  parse_ref is a total Coq function with four outcomes (Ok, Err, Panicked,
   NoFuel).  Under the shape of `literal` that is pinned from the sources
   (QG_LITERAL_REJECTS_BARE_EXISTS = 1: an exists-leaf without a field name is a syntax error) it never
   returns Panicked -- for EVERY string.  The proof re-runs on the regenerated pin: if `literal` goes
   back to the old shape the obligation breaks. *)
Theorem C16_model_total : forall s : str, parse_ref s <> Panicked.
Proof. exact (no_panic_pinned eq_refl). Qed.

(* the same fact, independent of the pin: whenever `literal` rejects, nothing else in the strict grammar
   can panic *)
Theorem C16_model_total_rejecting_shape : forall s : str, parse_ref_s true s <> Panicked.
Proof. exact no_panic_rejecting. Qed.

(* on the fragment of C16_print_parse the fuel of parse_ref is adequate *)
Theorem C16_model_fuel_adequate_on_fragment :
  forall c : cq, pf c = true -> is_seq c = true -> parse_ref (print c) <> NoFuel.
Proof. intros c H1 H2. destruct (print_parse c H1 H2) as [_ ->]. discriminate. Qed.

(* Phrases keep the analyzer's positions (generate_literals_for_str pushes (token.position, term), as
   postings_writer.index_text does): a document that contains the text of a phrase as consecutive words,
   anywhere, matches the phrase query built from that text -- for EVERY token filter `drop` (long-word
   removal, stop words, ...), every text, every surrounding context. *)
Theorem C16_phrase_matches_own_text :
  forall (drop : str -> bool) (pre ws post : list str),
  analyze drop ws <> [] ->
  phrase_match (analyze drop (pre ++ ws ++ post)) false (analyze drop ws) = true.
Proof. exact phrase_self_match. Qed.

(* numbering the remaining tokens 0,1,2,... instead loses exactly that: "lord of the rings" on a field
   with the stop words the/of misses its own text and matches "lord rings" *)
Theorem C16_phrase_consecutive_offsets_miss :
  phrase_match (analyze drop_stop lotr) false (renumber (analyze drop_stop lotr)) = false
  /\ phrase_match (analyze drop_stop [[108;111;114;100]; [114;105;110;103;115]]) false (renumber (analyze drop_stop lotr)) = true
  /\ phrase_match (analyze drop_stop lotr) false (analyze drop_stop lotr) = true.
Proof. exact renumbered_phrase_misses_own_text. Qed.

(* non-vacuity: a OR b AND c, with b and c matching, a not *)
Example and_binds_tighter_example :
  sem (fun b : bool => b) Should (fold_chain (Leaf false) [(Or, Leaf true); (And, Leaf true)]) = true
  /\ sem (fun b : bool => b) Should (fold_chain (Leaf true) [(And, Leaf false); (Or, Leaf false)]) = false.
Proof. vm_compute. split; reflexivity. Qed.

Definition s_of (l : list N) : str := l.
(* "a AND b OR c" *)
Example parse_example :
  parse_ref [97;32;65;78;68;32;98;32;79;82;32;99] =
  Ok (Clause [(Some Should, Clause [(Some Must, Leaf (LLit None [97] DNone 0 false)); (Some Must, Leaf (LLit None [98] DNone 0 false))]);
              (Some Should, Leaf (LLit None [99] DNone 0 false))]).
Proof. vm_compute. reflexivity. Qed.

(* F12 (fixed, commit 7a6b9829a): under the OLD shape of `literal` the strict grammar panics on
   "+<TAB>*" (UserInputLeaf::set_field's expect); under the pinned shape the same text is a syntax error *)
Theorem C16_strict_total_refuted :
  F12_class [43;9;42] = true /\ parse_ref_s false [43;9;42] = Panicked /\ parse_ref [43;9;42] = Err.
Proof. vm_compute. repeat split; reflexivity. Qed.

(* F164: under the shape of rewrite_ast_clause that hoists a single child with any occur,
   "(a OR a) b" becomes (?a *b): with conjunction by default a document with b but without a matches,
   although the documented meaning (a AND b) excludes it; hoisting only negations keeps the meaning *)
Theorem C16_repeated_operand_refuted :
  F164_ast (Clause [(None, Clause [(Some Should, Leaf (LLit None [97] DNone 0 false)); (Some Should, Leaf (LLit None [97] DNone 0 false))]);
                    (None, Leaf (LLit None [98] DNone 0 false))]) = true
  /\ rewrite_ast_s false (Clause [(None, Clause [(Some Should, Leaf (LLit None [97] DNone 0 false)); (Some Should, Leaf (LLit None [97] DNone 0 false))]);
                                  (None, Leaf (LLit None [98] DNone 0 false))])
     = Clause [(Some Should, Leaf (LLit None [97] DNone 0 false)); (None, Leaf (LLit None [98] DNone 0 false))]
  /\ rewrite_ast_s true (Clause [(None, Clause [(Some Should, Leaf (LLit None [97] DNone 0 false)); (Some Should, Leaf (LLit None [97] DNone 0 false))]);
                                 (None, Leaf (LLit None [98] DNone 0 false))])
     = Clause [(None, Leaf (LLit None [97] DNone 0 false)); (None, Leaf (LLit None [98] DNone 0 false))].
Proof. vm_compute. repeat split; reflexivity. Qed.

(* F160: "hello<LF>body:y" is read as one field name "hello<LF>body" *)
Theorem C16_whitespace_separates_refuted :
  F160_class [104;101;108;108;111;10;98;111;100;121;58;121] = true /\
  parse_ref [104;101;108;108;111;10;98;111;100;121;58;121] = Ok (Leaf (LLit (Some [104;101;108;108;111;10;98;111;100;121]) [121] DNone 0 false)).
Proof. vm_compute. split; reflexivity. Qed.

Print Assumptions C16_and_binds_tighter.
Print Assumptions C16_strict_fold_is_chain_fold.
Print Assumptions C16_occur_semantics.
Print Assumptions C16_single_member.
Print Assumptions C16_logical_ast_sem.
Print Assumptions C16_print_parse.
Print Assumptions C16_model_total.
Print Assumptions C16_model_total_rejecting_shape.
Print Assumptions C16_model_fuel_adequate_on_fragment.
Print Assumptions C16_phrase_matches_own_text.
Print Assumptions C16_phrase_consecutive_offsets_miss.
Print Assumptions C16_strict_total_refuted.
Print Assumptions C16_repeated_operand_refuted.
Print Assumptions C16_whitespace_separates_refuted.
