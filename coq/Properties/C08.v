(* C08 -- Fast fields return exactly the values that were indexed.
   Only statements, each closed by `exact <lemma>`, non-vacuity examples, and their assumptions. *)
From TV Require Import Base.Prelude Generated.Constants
  Columnar.BitPack Columnar.MonoMap Columnar.Stats Columnar.Line Columnar.Blockwise Columnar.BlockwiseProofs Columnar.Spec.
Local Open Scope N_scope.

(* ---- bit packer: any width allowed by the pinned 56/64 rule, value lists of ANY length ---- *)
Theorem C08_bitpack_roundtrip : forall w vals i,
  valid_width w = true -> all_below w vals -> (i < length vals)%nat ->
  unpacker_get w (N.of_nat i) (pack w vals) = Some (nth i vals 0).
Proof. exact bitpack_roundtrip. Qed.

(* the reader extracts the w-bit window at bit i*w from ANY byte string (fast and slow path) *)
Theorem C08_unpacker_reads_window : forall w i data,
  valid_width w = true -> wf_bytes data = true ->
  (w = 0 \/ (i * w) / 8 <= N.of_nat (length data)) ->
  unpacker_get w i data = Some ((le_value data / 2 ^ (i * w)) mod 2 ^ w).
Proof. exact unpacker_get_window. Qed.

(* the writer lays the values out as the little-endian bit string, in ceil(n*w/8) bytes *)
Theorem C08_packer_layout : forall w vals, w <= 64 -> all_below w vals ->
  le_value (pack w vals) = bitstring w vals /\
  N.of_nat (length (pack w vals)) = (w * N.of_nat (length vals) + 7) / 8.
Proof. intros w vals Hw Hb. split; [exact (pack_value w vals Hw Hb)|exact (pack_length w vals Hw)]. Qed.

(* compute_num_bits always yields a width the reader accepts and in which the amplitude fits *)
Theorem C08_num_bits_valid : forall n, n < 2 ^ 64 ->
  valid_width (compute_num_bits n) = true /\ n < 2 ^ compute_num_bits n.
Proof. intros n Hn. split; [exact (compute_num_bits_valid n)|exact (compute_num_bits_fits n Hn)]. Qed.

Section FastDivide.
  (* fastdivide::DividerU64 (external crate): contract = exact floor division of u64 *)
  Variable fdiv : N -> N -> N.
  Hypothesis fdiv_spec : forall d x, d <> 0 -> x < 2 ^ 64 -> fdiv d x = x / d.

  (* statistics: min/max bound every value and are attained, gcd divides every v - min, rows = length;
     the wire form (min, gcd, amplitude/gcd, rows) reproduces max exactly *)
  Theorem C08_stats_sound : forall vals, all_u64 vals ->
    stats_ok (stats_of fdiv vals) vals /\ stats_unwire (stats_wire (stats_of fdiv vals)) = stats_of fdiv vals.
  Proof.
    intros vals Hu. pose proof (stats_of_ok fdiv fdiv_spec vals Hu) as H.
    split; [exact H|exact (stats_wire_roundtrip fdiv fdiv_spec _ _ H)].
  Qed.

  (* bit-packed column codec: exact for every u64 column, incl. 0 and 2^64-1, any length *)
  Theorem C08_codec_exact_bitpacked : forall vals i, all_u64 vals -> (i < length vals)%nat ->
    bitpacked_get (bitpacked_serialize fdiv vals) (N.of_nat i) = Some (nth i vals 0).
  Proof. exact (bitpacked_exact fdiv fdiv_spec). Qed.

  Theorem C08_codec_stats_bitpacked : forall vals, all_u64 vals ->
    Forall (fun v => bitpacked_min (bitpacked_serialize fdiv vals) <= v <= bitpacked_max (bitpacked_serialize fdiv vals)) vals /\
    bitpacked_num_vals (bitpacked_serialize fdiv vals) = N.of_nat (length vals) /\
    (vals <> [] -> In (bitpacked_min (bitpacked_serialize fdiv vals)) vals /\ In (bitpacked_max (bitpacked_serialize fdiv vals)) vals).
  Proof. exact (bitpacked_stats fdiv fdiv_spec). Qed.

  (* linear codec (Line::train on the first LINE_ESTIMATION_BLOCK_LEN rows, wrapping arithmetic, >> 32, as i32):
     exact whatever the quality of the line; applicable iff the column has at least that many rows *)
  Theorem C08_codec_exact_linear : forall vals col i, all_u64 vals -> linear_serialize fdiv vals = Some col ->
    (i < length vals)%nat -> linear_get col (N.of_nat i) = Some (nth i vals 0).
  Proof. exact (linear_exact fdiv fdiv_spec). Qed.

  Theorem C08_codec_linear_applicable : forall vals, LINE_ESTIMATION_BLOCK_LEN <= N.of_nat (length vals) ->
    exists col, linear_serialize fdiv vals = Some col.
  Proof. exact (linear_applicable fdiv). Qed.

  Theorem C08_codec_stats_linear : forall vals col, all_u64 vals -> linear_serialize fdiv vals = Some col ->
    Forall (fun v => linear_min col <= v <= linear_max col) vals /\ linear_num_vals col = N.of_nat (length vals).
  Proof. exact (linear_stats fdiv fdiv_spec). Qed.

  (* block-wise linear codec (512-row blocks, one bit packer shared by all blocks, per-block line and width,
     offsets recomputed by the reader): exact for every u64 column of any length *)
  Theorem C08_codec_exact_blockwise : forall vals i, all_u64 vals -> (i < length vals)%nat ->
    blockwise_get (blockwise_serialize fdiv vals) (N.of_nat i) = Some (nth i vals 0).
  Proof. exact (blockwise_exact fdiv fdiv_spec). Qed.

  Theorem C08_codec_stats_blockwise : forall vals, all_u64 vals ->
    Forall (fun v => blockwise_min (blockwise_serialize fdiv vals) <= v <= blockwise_max (blockwise_serialize fdiv vals)) vals /\
    blockwise_num_vals (blockwise_serialize fdiv vals) = N.of_nat (length vals).
  Proof. exact (blockwise_stats fdiv fdiv_spec). Qed.
End FastDivide.

(* range transform of the bit-packed reader (`guard` = the source tests `*range.end() < stats.min_value`,
   pinned as COLUMNAR_RANGE_BELOW_MIN_GUARD): exact whenever the guard is present or hi >= column min *)
Theorem C08_range_transform_exact : forall guard s lo hi q, st_gcd s <> 0 -> (guard = true \/ st_min s <= hi) ->
  match transform_range_g guard s lo hi with
  | None => ~ (lo <= st_min s + st_gcd s * q <= hi)
  | Some (a, b) => (a <= q <= b) <-> (lo <= st_min s + st_gcd s * q <= hi)
  end.
Proof. exact transform_range_exact. Qed.

(* BitUnpacker::get_ids_for_value_range: on widths up to the pinned 32 the range is narrowed to u32 -- nothing
   when the lower bound exceeds u32::MAX, upper bound saturated at u32::MAX before the cast (both pinned as
   flags and followed by the model) -- and this selects exactly the decoded values of [a, b] *)
Theorem C08_unpacker_range_u32_path : forall w a b q, q < 2 ^ w ->
  unpacker_in_range w a b q = (a <=? q) && (q <=? b).
Proof. exact unpacker_in_range_plain. Qed.

(* range lookup on a bit-packed column, for the code as pinned from /repo: exactly the rows holding a
   value in [lo, hi], for EVERY column, row window and range.  The proof uses `range_guard_present`,
   re-run on the regenerated constant: without the guard in the source this theorem no longer checks. *)
Theorem C08_range_lookup_bitpacked : forall (fdiv : N -> N -> N),
  (forall d x, d <> 0 -> x < 2 ^ 64 -> fdiv d x = x / d) ->
  forall vals lo hi r0 r1, all_u64 vals -> (r1 <= length vals)%nat ->
  bitpacked_range_rows (bitpacked_serialize fdiv vals) lo hi r0 r1 = rows_in_range vals lo hi r0 r1.
Proof.
  intros fdiv Hf vals lo hi r0 r1 Hu Hr. unfold bitpacked_range_rows.
  apply (bitpacked_range_exact fdiv Hf); try assumption. left. exact range_guard_present.
Qed.

(* the same for any guard value, outside the class of F81 *)
Theorem C08_range_lookup_bitpacked_unguarded : forall (fdiv : N -> N -> N),
  (forall d x, d <> 0 -> x < 2 ^ 64 -> fdiv d x = x / d) ->
  forall guard vals lo hi r0 r1, all_u64 vals -> (r1 <= length vals)%nat ->
  f81_class lo hi (st_min (stats_of fdiv vals)) = false ->
  bitpacked_range_rows_g guard (bitpacked_serialize fdiv vals) lo hi r0 r1 = rows_in_range vals lo hi r0 r1.
Proof.
  intros fdiv Hf guard vals lo hi r0 r1 Hu Hr Hc. apply (bitpacked_range_exact fdiv Hf); try assumption. right.
  unfold f81_class in Hc. apply andb_false_iff in Hc. destruct Hc as [Hc|Hc]; [left; apply N.leb_gt, Hc|right; apply N.ltb_ge, Hc].
Qed.

(* F81 (fixed in /repo; regression witness): WITHOUT the guard the rows holding the minimum are returned
   for a range below the minimum *)
Theorem C08_range_below_min_refuted :
  exists vals lo hi, f81_class lo hi (st_min (stats_of udiv vals)) = true /\
    bitpacked_range_rows_g false (bitpacked_serialize udiv vals) lo hi 0 (length vals) <> rows_in_range vals lo hi 0 (length vals).
Proof. exact bitpacked_range_below_min_refuted. Qed.

(* ... and with the guard as pinned the same input is answered correctly *)
Example range_below_min_regression :
  bitpacked_range_rows (bitpacked_serialize udiv [10; 20; 30]) 3 5 0 3 = [] /\
  bitpacked_range_rows (bitpacked_serialize udiv [10; 20; 30]) 3 10 0 3 = [0%nat].
Proof. vm_compute. split; reflexivity. Qed.

(* ---- monotonic mappings ---- *)
Theorem C08_mono_maps_i64 : forall a b, is_i64 a -> is_i64 b ->
  u64_to_i64 (i64_to_u64 a) = a /\ i64_to_u64 a < 2 ^ 64 /\ ((a < b)%Z <-> i64_to_u64 a < i64_to_u64 b).
Proof.
  intros a b Ha Hb. split; [exact (i64_roundtrip a Ha)|]. split; [exact (i64_to_u64_lt a)|exact (i64_strictly_monotone a b Ha Hb)].
Qed.

Theorem C08_mono_maps_i64_onto : forall v, v < 2 ^ 64 -> is_i64 (u64_to_i64 v) /\ i64_to_u64 (u64_to_i64 v) = v.
Proof. exact u64_i64_roundtrip. Qed.

Theorem C08_mono_maps_bool : forall a b,
  u64_to_bool (bool_to_u64 a) = a /\ ((a = false /\ b = true) <-> bool_to_u64 a < bool_to_u64 b).
Proof. intros a b. split; [exact (bool_roundtrip a)|exact (bool_monotone a b)]. Qed.

(* f64 on bit patterns: inverted for every pattern; strictly monotone w.r.t. the numeric order
   (sign-magnitude key = IEEE order of non-NaN values), -0.0 placed just below +0.0 *)
Theorem C08_mono_maps_f64 : forall a b, a < 2 ^ 64 -> b < 2 ^ 64 ->
  u64_to_f64 (f64_to_u64 a) = a /\ f64_to_u64 a < 2 ^ 64 /\
  ((f64_key a < f64_key b)%Z -> f64_to_u64 a < f64_to_u64 b) /\
  (f64_to_u64 a < f64_to_u64 b -> (f64_key a <= f64_key b)%Z) /\
  (f64_to_u64 a = f64_to_u64 b -> a = b).
Proof.
  intros a b Ha Hb. split; [exact (f64_roundtrip a Ha)|]. split; [exact (f64_to_u64_lt a Ha)|].
  exact (f64_strictly_monotone a b Ha Hb).
Qed.

Theorem C08_mono_maps_f64_onto : forall v, v < 2 ^ 64 -> u64_to_f64 v < 2 ^ 64 /\ f64_to_u64 (u64_to_f64 v) = v.
Proof. exact u64_f64_roundtrip. Qed.

(* ---- non-vacuity ---- *)
Example bitpack_example :
  valid_width 13 = true /\ unpack_all 13 5 (pack 13 [8191; 0; 4242; 1; 8190]) = map Some [8191; 0; 4242; 1; 8190].
Proof. vm_compute. split; reflexivity. Qed.

Example bitpacked_codec_example :
  map (bitpacked_get (bitpacked_serialize udiv [18446744073709551615; 0; 9223372036854775808]))
      [0; 1; 2] = map Some [18446744073709551615; 0; 9223372036854775808].
Proof. vm_compute. reflexivity. Qed.

Example gcd_example : st_gcd (stats_of udiv [1000; 4000; 2500; 1000]) = 1500 /\ st_min (stats_of udiv [1000; 4000; 2500]) = 1000.
Proof. vm_compute. split; reflexivity. Qed.

Example i64_example : i64_to_u64 (- 2 ^ 63) = 0 /\ i64_to_u64 (2 ^ 63 - 1) = 2 ^ 64 - 1 /\ i64_to_u64 0 = 2 ^ 63.
Proof. vm_compute. repeat split; reflexivity. Qed.

Example blockwise_codec_example :
  map (blockwise_get (blockwise_serialize udiv [18446744073709551615; 0; 9223372036854775808; 7])) [0; 1; 2; 3]
  = map Some [18446744073709551615; 0; 9223372036854775808; 7].
Proof. vm_compute. reflexivity. Qed.

(* the rule is needed: a width outside it (59) is misread by the 8-byte read at bit shift 7 *)
Example width_rule_needed : valid_width 59 = false /\
  unpacker_get 59 5 (pack 59 (repeat (2 ^ 59 - 1) 6)) <> Some (2 ^ 59 - 1).
Proof. vm_compute. split; [reflexivity|intros H; discriminate H]. Qed.

(* ---- legacy columnar format (v1): multivalued index = one start offset per document ---- *)
From TV Require Import Columnar.OptionalIndex Columnar.OptionalIndexProofs Columnar.MultiValued Columnar.MergeIndex Columnar.LegacyV1.

(* MultiValueIndexV1::select_batch_in_place (test as pinned: MV1_SELECT_END_EXCLUSIVE): ascending value positions are
   mapped to the documents that contain them, consecutive duplicates removed -- any non-decreasing start offsets,
   any number of positions *)
Theorem C08_legacy_select_batch : forall starts, nondecr starts ->
  forall ranks cur last, positions_ok (hd 0 starts) (mv1_total starts) ranks ->
  match ranks with [] => True | p :: _ => (cur <= mv1_doc_of starts p)%nat end ->
  mv1_select_loop mv1_select_excl starts cur last ranks = Some (dedup_adj last (map (mv1_doc_of starts) ranks)).
Proof. rewrite mv1_select_excl_present. exact mv1_select_loop_correct. Qed.

(* with `end >= pos` instead, a lookup by value returns the predecessor of a matching document *)
Theorem C08_legacy_select_inclusive_refuted :
  exists c lo hi, mv1_docids_for_value_range false (mv1_start_offsets 0 c) (concat c) lo hi 0 (length c)
                  <> Some (range_lookup lo hi c).
Proof. exact mv1_select_inclusive_refuted. Qed.

(* stacked merge with inputs in either format, at any position, for the code as pinned from /repo (flags
   STACK_V1_DOCS_SHIFTED and STACK_NUM_VALUES_SKIPS_EMPTY, proofs re-run on the regenerated constants): the merged
   multivalued index is the index of the concatenated column, for ALL inputs *)
Theorem C08_merge_stacked_legacy : forall lkcs, inputs_ok (map strip lkcs) ->
  let merged := merge_stacked (map snd lkcs) in
  si_stack_rows stack_v1_docs_shifted (map si_of lkcs) 0 = Some (mv_docs_with_values merged) /\
  si_start_offsets stack_num_values_skips_empty (map si_of lkcs) = mv_start_offsets 0 merged.
Proof. exact stacked_with_legacy_inputs_pinned. Qed.

(* the same for an explicit flag: without the filter it still holds when no v1 multivalued input has a value-less document *)
Theorem C08_merge_stacked_legacy_unfiltered : forall skip_empty lkcs, inputs_ok (map strip lkcs) ->
  (skip_empty = true \/ legacy_no_empty lkcs) ->
  let merged := merge_stacked (map snd lkcs) in
  si_stack_rows true (map si_of lkcs) 0 = Some (mv_docs_with_values merged) /\
  si_start_offsets skip_empty (map si_of lkcs) = mv_start_offsets 0 merged.
Proof. exact stacked_with_legacy_inputs_g. Qed.

(* a v1 input contributes to the merge exactly what the same column contributes in the current format *)
Theorem C08_legacy_input_as_current : forall c s,
  v1_docs_with_values true (N.of_nat s) 0 (mv1_start_offsets 0 c) = docs_from s c /\
  v1_num_values true (mv1_start_offsets 0 c) = nz_counts c.
Proof. exact v1_input_as_current. Qed.

(* F82 (fixed in /repo; regression witness): WITHOUT skipping them, a value-less document of a v1 input duplicates a start offset *)
Theorem C08_merge_stacked_legacy_empty_rows_refuted :
  exists c, f82_class c = true /\
    si_start_offsets false [si_of (true, KMulti, c)] <> mv_start_offsets 0 (merge_stacked [c]).
Proof. exact stacked_legacy_empty_rows_refuted. Qed.

(* without the row offset a v1 input that is not the first repeats document ids from 0 *)
Theorem C08_merge_stacked_legacy_unshifted_refuted :
  exists lkcs, si_stack_rows false (map si_of lkcs) 0 <> Some (mv_docs_with_values (merge_stacked (map snd lkcs))).
Proof. exact stacked_legacy_unshifted_refuted. Qed.

(* ---- dictionary merge of Str / Bytes columns (TermMerger k-way merge + TermOrdinalMapping) ---- *)
From TV Require Import Columnar.DictMerge.

(* stacked merge of ANY per-segment dictionaries (any number of segments, any term lists): every term ordinal of every
   segment is remapped to an ordinal that designates the same term in the merged dictionary, i.e. after the merge every
   document reads the same term as before *)
Theorem C08_dict_merge_stacked : forall dicts d ord, In d dicts -> (ord < length d)%nat ->
  exists x, nth_error (seg_map (stack_trace dicts) 0 d) ord = Some (Some x) /\
            nth_error (merged_dict (stack_trace dicts)) x = nth_error d ord.
Proof. exact stacked_dict_merge_reads_same. Qed.

(* along ANY merge trace (stacked or shuffled, whatever terms are dropped): a REGISTERED ordinal reads the same term *)
Theorem C08_dict_merge_registered_reads_same : forall trace cur rest j x,
  nth_error (seg_map trace cur rest) j = Some (Some x) ->
  (cur <= x)%nat /\ nth_error (merged_dict trace) (x - cur) = nth_error rest j.
Proof. exact seg_map_reads_same. Qed.

Example dict_merge_near_miss :
  dict_merge (fun _ _ => true) [[[97]; [98]; [122]]; [[97]; [99]; [122]]] =
  ([[97]; [98]; [99]; [122]], [[Some 0; Some 1; Some 3]; [Some 0; Some 2; Some 3]]%nat).
Proof. vm_compute. reflexivity. Qed.

Print Assumptions C08_bitpack_roundtrip.
Print Assumptions C08_unpacker_reads_window.
Print Assumptions C08_packer_layout.
Print Assumptions C08_num_bits_valid.
Print Assumptions C08_stats_sound.
Print Assumptions C08_codec_exact_bitpacked.
Print Assumptions C08_codec_stats_bitpacked.
Print Assumptions C08_codec_exact_linear.
Print Assumptions C08_codec_linear_applicable.
Print Assumptions C08_codec_stats_linear.
Print Assumptions C08_codec_exact_blockwise.
Print Assumptions C08_codec_stats_blockwise.
Print Assumptions C08_range_transform_exact.
Print Assumptions C08_unpacker_range_u32_path.
Print Assumptions C08_range_lookup_bitpacked.
Print Assumptions C08_range_lookup_bitpacked_unguarded.
Print Assumptions C08_range_below_min_refuted.
Print Assumptions C08_mono_maps_i64.
Print Assumptions C08_mono_maps_i64_onto.
Print Assumptions C08_mono_maps_bool.
Print Assumptions C08_mono_maps_f64.
Print Assumptions C08_mono_maps_f64_onto.

(* ===================== theorems added after the first build (deeper proofs) ===================== *)
From TV Require Import Columnar.OptionalIndex Columnar.OptionalIndexProofs Columnar.MultiValued Columnar.MergeIndex.
Local Open Scope N_scope.

(* ---- optional index: ANY strictly increasing row list below num_rows, any number of 65 536-row blocks ---- *)
Theorem C08_optional_index : forall num_rows rows,
  strictly_increasing rows -> Forall (fun r => r < num_rows) rows ->
  let I := optional_index_build num_rows rows in
  (forall doc, oi_rank I doc = Some (spec_rank rows doc)) /\
  (forall doc, oi_rank_if_exists I doc = spec_rank_if_exists rows doc) /\
  (forall k, (k < length rows)%nat -> oi_select I (N.of_nat k) = Some (nth k rows 0)) /\
  (forall r k, oi_rank_if_exists I r = Some k <-> (k < N.of_nat (length rows) /\ nth (N.to_nat k) rows 0 = r)) /\
  (forall k e, k < N.of_nat (length rows) -> oi_select I k = Some e ->
               oi_rank I e = Some k /\ oi_rank_if_exists I e = Some k) /\
  (forall e k, oi_rank_if_exists I e = Some k -> oi_select I k = Some e) /\
  oi_non_null_docs I = Some rows /\
  (forall doc, doc < num_rows -> oi_contains I doc = Some (spec_contains rows doc)).
Proof. exact optional_index_correct. Qed.

(* each block encoding alone: sparse (binary search over sorted u16) and dense (1024 x (u64 bitvec + u16 rank)) *)
Theorem C08_optional_index_block : forall els,
  strictly_increasing els -> Forall (fun e => e < 65536) els ->
  forall v, v = Sparse els \/ v = Dense (dense_serialize els) ->
  (forall el, el < 65536 -> block_rank v el = spec_rank els el /\ block_rank v el <= el) /\
  (forall el, el < 65536 -> block_contains v el = spec_contains els el) /\
  (forall el, el < 65536 -> block_rank_if_exists v el = spec_rank_if_exists els el) /\
  (forall k, (k < length els)%nat -> block_select v (N.of_nat k) = Some (nth k els 0)).
Proof. exact optional_index_block_correct. Qed.

(* the dense / sparse choice per block does not matter *)
Theorem C08_optional_index_any_choice : forall (choose_sparse : N -> list N -> bool) num_rows rows,
  strictly_increasing rows -> Forall (fun r => r < num_rows) rows ->
  let I := optional_index_build num_rows rows in
  let J := index_any choose_sparse num_rows rows in
  (forall doc, oi_rank J doc = oi_rank I doc) /\
  (forall doc, oi_rank_if_exists J doc = oi_rank_if_exists I doc) /\
  (forall k, k < N.of_nat (length rows) -> oi_select J k = oi_select I k).
Proof. exact optional_index_any_choice. Qed.

(* the u64 primitives of the dense block *)
Theorem C08_select_u64 : forall bv j, bv < 2 ^ 64 -> j < 64 -> N.testbit bv j = true ->
  select_u64 bv (popcount (bv mod 2 ^ j)) = j.
Proof. exact select_u64_spec. Qed.
Theorem C08_rank_u64 : forall bv j, rank_u64 bv j = popcount (bv mod 2 ^ j).
Proof. exact rank_u64_spec. Qed.

(* ---- multivalued index: ANY column (any per-row counts) ---- *)
Theorem C08_multivalued : forall c : column,
  let I := optional_index_build (N.of_nat (length c)) (mv_docs_with_values c) in
  let starts := mv_start_offsets 0 c in
  starts = start_offsets_of_counts 0 (map (@length N) c) /\
  (forall d, (d < length c)%nat -> nth d c [] <> [] ->
     mv_range I starts (N.of_nat d) =
     (N.of_nat (list_sum (map (@length N) (firstn d c))),
      N.of_nat (list_sum (map (@length N) (firstn d c))) + N.of_nat (length (nth d c [])))) /\
  (forall doc, nth (N.to_nat doc) c [] = [] -> mv_range I starts doc = (0, 0)) /\
  (forall doc, mv_values_for_doc I starts (all_values c) doc = values_for_doc c (N.to_nat doc)).
Proof. exact multivalued_correct. Qed.

Theorem C08_multivalued_v1 : forall c : column,
  let starts := mv1_start_offsets 0 c in
  (forall d, (d < length c)%nat ->
     mv1_range starts (N.of_nat d) =
     (N.of_nat (list_sum (map (@length N) (firstn d c))),
      N.of_nat (list_sum (map (@length N) (firstn d c))) + N.of_nat (length (nth d c [])))) /\
  (forall doc, mv1_values_for_doc starts (all_values c) doc = values_for_doc c (N.to_nat doc)).
Proof. exact multivalued_v1_correct. Qed.

(* ---- every kind of column index reads its column back ---- *)
Theorem C08_column_index_read_back : forall k c doc, kind_allows k c -> (N.to_nat doc < length c)%nat ->
  ci_values_for_doc (ci_of k c) (all_values c) doc = values_for_doc c (N.to_nat doc).
Proof. exact ci_values_read_back. Qed.

(* ---- merges of column indexes, any number of inputs of any kind ---- *)
Theorem C08_merge_stacked : forall kcs, inputs_ok kcs ->
  let cols := stack_inputs kcs in
  let merged := merge_stacked (map snd kcs) in
  stack_num_rows cols = N.of_nat (length merged) /\
  stack_rows stacked_rows_multi cols 0 = Some (mv_docs_with_values merged) /\
  stacked_start_offsets cols = mv_start_offsets 0 merged.
Proof. exact stacked_multivalued. Qed.

Theorem C08_merge_stacked_optional : forall kcs, inputs_ok kcs -> no_multi kcs ->
  stack_rows stacked_rows_optional (stack_inputs kcs) 0 = Some (mv_docs_with_values (merge_stacked (map snd kcs))).
Proof. exact stacked_optional. Qed.

Theorem C08_merge_stacked_reads : forall kcs doc, inputs_ok kcs ->
  let merged := merge_stacked (map snd kcs) in
  forall rows starts, stack_rows stacked_rows_multi (stack_inputs kcs) 0 = Some rows ->
    starts = stacked_start_offsets (stack_inputs kcs) ->
    mv_values_for_doc (optional_index_build (stack_num_rows (stack_inputs kcs)) rows) starts
      (concat (map (fun kc => all_values (snd kc)) kcs)) doc
    = values_for_doc merged (N.to_nat doc).
Proof. exact stacked_read_back. Qed.

Theorem C08_merge_shuffled : forall kcs mapping, inputs_ok kcs -> mapping_ok (map snd kcs) mapping ->
  let cols := shuffle_inputs kcs in
  let merged := merge_shuffled (map snd kcs) mapping in
  shuffled_rows cols mapping 0 = Some (mv_docs_with_values merged) /\
  (exists ns, shuffled_num_values cols mapping = Some ns /\ integrate_num_vals ns = mv_start_offsets 0 merged).
Proof. exact shuffled_merge. Qed.

Theorem C08_merge_shuffled_reads : forall kcs mapping doc, inputs_ok kcs -> mapping_ok (map snd kcs) mapping ->
  let merged := merge_shuffled (map snd kcs) mapping in
  forall rows ns, shuffled_rows (shuffle_inputs kcs) mapping 0 = Some rows ->
    shuffled_num_values (shuffle_inputs kcs) mapping = Some ns ->
    mv_values_for_doc (optional_index_build (N.of_nat (length mapping)) rows) (integrate_num_vals ns)
      (all_values merged) doc
    = values_for_doc merged (N.to_nat doc).
Proof. exact shuffled_read_back. Qed.

(* non-vacuity: a two-block index with a dense first block (6000 rows) and a sparse second one *)
Example optional_index_example :
  let rows := map (fun i => 3 * N.of_nat i) (seq 0 (N.to_nat 6000)) ++ [70000; 70005] in
  let I := optional_index_build 70010 rows in
  oi_select I 5999 = Some 17997 /\ oi_select I 6001 = Some 70005 /\ oi_rank I 70001 = Some 6001 /\
  oi_rank_if_exists I 17997 = Some 5999 /\ oi_rank_if_exists I 17998 = None /\
  match oi_metas I with [m0; m1] => match variant m0, variant m1 with Dense _, Sparse _ => True | _, _ => False end | _ => False end.
Proof. vm_compute. repeat split. Qed.

Print Assumptions C08_optional_index.
Print Assumptions C08_optional_index_block.
Print Assumptions C08_optional_index_any_choice.
Print Assumptions C08_legacy_select_batch.
Print Assumptions C08_legacy_select_inclusive_refuted.
Print Assumptions C08_merge_stacked_legacy.
Print Assumptions C08_merge_stacked_legacy_unfiltered.
Print Assumptions C08_legacy_input_as_current.
Print Assumptions C08_merge_stacked_legacy_empty_rows_refuted.
Print Assumptions C08_merge_stacked_legacy_unshifted_refuted.
Print Assumptions C08_dict_merge_stacked.
Print Assumptions C08_dict_merge_registered_reads_same.
