(* C07 -- The inverted index records exactly the terms, documents, frequencies, positions.
   Only statements, each closed by `exact <lemma>`, non-vacuity examples, and their assumptions. *)
From TV Require Import Base.Prelude Generated.Constants Postings.VInt Postings.FieldNorm Postings.Codec
     Postings.BP4x Postings.Positions Postings.Spec Postings.Cases.
Local Open Scope N_scope.

(* ---- variable-length integers: every u32 / u64, followed by arbitrary bytes -------------------------- *)
Theorem C07_vint_roundtrip32 : forall v rest, v < 2 ^ 32 -> vint_dec (vint_enc32 v ++ rest) = Some (v, rest).
Proof. exact vint_dec_enc32. Qed.

Theorem C07_vint_roundtrip64 : forall v rest, v < 2 ^ 64 -> vint_dec (vint_enc64 v ++ rest) = Some (v, rest).
Proof. exact vint_dec_enc64. Qed.

(* the VInt tail of a posting list: sorted (delta) and unsorted sequences of any length *)
Theorem C07_vint_sorted_roundtrip : forall offset l rest,
  chain_le offset l -> Forall (fun v => v < 2 ^ 32) l ->
  vints_sorted_dec offset (length l) (vints_sorted_enc offset l ++ rest) = Some (l, rest).
Proof. exact vints_sorted_dec_enc. Qed.

Theorem C07_vint_until_end_roundtrip : forall l cap,
  Forall (fun v => v < 2 ^ 32) l -> (length l <= cap)%nat -> vints_dec_all cap (vints_enc l) = Some l.
Proof. exact vints_dec_all_enc. Qed.

(* ---- strict delta encoding of a block relative to the previous block's last document ---------------- *)
Theorem C07_strict_delta_roundtrip : forall offset docs,
  sorted_from offset docs -> strict_integrate offset (strict_deltas offset docs) = docs.
Proof. exact strict_integrate_deltas. Qed.

(* ---- the width chosen for a block is the least one that fits every delta, and is below 32 -------------- *)
Theorem C07_bitwidth : forall last_doc b,
  let ds := strict_deltas last_doc (map fst b) in
  Forall (fun d => d < 2 ^ block_w last_doc b) ds /\ (forall w, Forall (fun d => d < 2 ^ w) ds -> block_w last_doc b <= w).
Proof. exact block_width_least. Qed.

Theorem C07_bitwidth_lt32 : forall last_doc b,
  sorted_from last_doc (map fst b) -> Forall (fun d => d < 2 ^ 31) (map fst b) -> block_w last_doc b < 32.
Proof. exact block_width_lt32. Qed.

Theorem C07_bitwidth_code : forall w, w < 32 -> decode_bitwidth (encode_bitwidth w) = (w, true) /\ encode_bitwidth w < 256.
Proof. exact (fun w H => conj (decode_encode_bitwidth w H) (encode_bitwidth_byte w H)). Qed.

(* ---- round trip of a posting list of ANY length, for every record option ------------------------------
   for every 128-value block codec satisfying the contract of the external `bitpacking` crate, every
   block-wand oracle, every record option of the field, terms written with or without term frequencies
   (JSON non-text leaves), every requested option: sequential reading returns exactly the documents, with
   the recorded term frequency when the reader asks for it and 1 otherwise. *)
Theorem C07_roundtrip : forall pack unpack,
  (forall w xs, length xs = BLOCKn -> Forall (fun x => x < 2 ^ w) xs -> unpack w (pack w xs) = xs) ->
  (forall w xs, length xs = BLOCKn -> N.of_nat (length (pack w xs)) = block_size w) ->
  forall bw opt record_term_freq req l,
  wf_postings l ->
  read_all unpack opt req (N.of_nat (length l)) (serialize pack bw opt record_term_freq l)
  = ROk (project (has_freq req && (has_freq opt && record_term_freq)) l).
Proof. exact roundtrip_all. Qed.

(* block structure: the reader sees exactly the blocks the specification `expect` lists *)
Theorem C07_blocks : forall pack unpack,
  (forall w xs, length xs = BLOCKn -> Forall (fun x => x < 2 ^ w) xs -> unpack w (pack w xs) = xs) ->
  (forall w xs, length xs = BLOCKn -> N.of_nat (length (pack w xs)) = block_size w) ->
  forall bw opt rtf req l,
  wf_pairs 0 l -> N.of_nat (length l) < 2 ^ 32 ->
  let thf := has_freq opt && rtf in
  exists rf, rf && thf = has_freq req && thf /\
  read_blocks unpack opt req (N.of_nat (length l)) (serialize pack bw opt rtf l)
  = ROk (expect (Nat.div (length l) BLOCKn) opt thf rf 0 0 l).
Proof. exact read_blocks_serialize. Qed.

(* ---- skip entries: last_doc and tf_sum are those of the block; position offset = sum of earlier tfs ---- *)
Theorem C07_skip_entries : forall nb i opt thf rf last_doc posoff l d, (i < nb)%nat ->
  let b := nth i (expect nb opt thf rf last_doc posoff l) d in
  b_docs b = map fst (chunk i l) /\ b_last b = block_last (chunk i l) 0 /\
  b_tfsum b = (if thf && has_positions opt then block_tfsum (chunk i l) else 0).
Proof. exact expect_entry. Qed.

Theorem C07_position_offset : forall nb i opt thf rf last_doc posoff l d,
  (i < nb)%nat -> (nb * BLOCKn <= length l)%nat ->
  thf && has_positions opt = true -> sum (map snd l) < 2 ^ 32 ->
  b_posoff (nth i (expect nb opt thf rf last_doc posoff l) d) = posoff + sum (map snd (firstn (i * BLOCKn) l)).
Proof. exact expect_posoff. Qed.

(* ---- field norms ------------------------------------------------------------------------------------- *)
Theorem C07_fieldnorm : forall n,
  fieldnorm_to_id n < 256 /\ id_to_fieldnorm (fieldnorm_to_id n) <= n /\
  (fieldnorm_to_id n + 1 < 256 -> n < id_to_fieldnorm (fieldnorm_to_id n + 1)).
Proof. exact fieldnorm_bracket. Qed.

Theorem C07_fieldnorm_exact_small : forall n, n <= EXACT_BELOW ->
  fieldnorm_to_id n = n /\ id_to_fieldnorm (fieldnorm_to_id n) = n.
Proof. exact fieldnorm_exact_small. Qed.

Theorem C07_fieldnorm_table_strict : forall a b, a < b -> b < 256 -> id_to_fieldnorm a < id_to_fieldnorm b.
Proof. exact fieldnorm_table_strict. Qed.

Theorem C07_fieldnorm_id_roundtrip : forall id, id < 256 -> fieldnorm_to_id (id_to_fieldnorm id) = id.
Proof. exact fieldnorm_id_roundtrip. Qed.

Theorem C07_fieldnorm_monotone : forall n m, n <= m -> fieldnorm_to_id n <= fieldnorm_to_id m.
Proof. exact fieldnorm_mono. Qed.

(* the binary search used by fieldnorm_to_id, on any sorted table *)
Theorem C07_binary_search : forall t x, sorted_le t ->
  match bsearch t x with
  | Found i => (i < length t)%nat /\ nth i t 0 = x
  | Insert i => (i <= length t)%nat /\ (forall j, (j < i)%nat -> nth j t 0 < x) /\
                (forall j, (i <= j < length t)%nat -> x < nth j t 0)
  end.
Proof. exact bsearch_spec. Qed.

(* ---- the specification: terms are distinct and in byte order ------------------------------------------ *)
Theorem C07_spec_terms_sorted : forall opt docs, strictly_sorted (map fst (index_spec opt docs)).
Proof. exact index_spec_sorted. Qed.

(* ---- non-vacuity --------------------------------------------------------------------------------------- *)
(* a posting list of 300 documents (2 full blocks + a VInt tail of 44) satisfying wf_postings, serialized with
   the concrete BitPacker4x layout and read back under every option *)
Definition ex_list : list (N * N) := map (fun i => (N.of_nat i * N.of_nat i + 7, 1 + N.of_nat i mod 5)) (seq 0 300).
Example ex_roundtrip :
  forallb (fun o => match read_all bp4x_unpack (ro o) (ro o) 300 (serialize bp4x_pack (fun _ => (3, 9)) (ro o) true ex_list) with
                    | ROk r => list_eqb pair_eqb r (project (has_freq (ro o)) ex_list) | _ => false end) [0; 1; 2] = true.
Proof. vm_compute. reflexivity. Qed.
Example ex_skip : skip_case 2 true (map fst ex_list) (map snd ex_list) (serialize bp4x_pack (fun _ => (3, 9)) (ro 2) true ex_list) = true.
Proof. vm_compute. reflexivity. Qed.
Example ex_fieldnorm : fieldnorm_to_id 1000 = 87 /\ id_to_fieldnorm 87 = 984 /\ id_to_fieldnorm 88 = 1048.
Proof. vm_compute. repeat split. Qed.
Example ex_spec :
  index_spec WithFreqsAndPositions
    [[(true, [[([98], 0, 1); ([97], 1, 1)]; [([97], 0, 1)]])]; [(true, [[([97], 0, 1)]])]]
  = [([97], [(0, 2, [1; 3]); (1, 1, [0])]); ([98], [(0, 1, [0])])].
Proof. vm_compute. reflexivity. Qed.

(* positions stream: 300 deltas = 2 bit-packed blocks + VInt tail, read at block boundaries *)
Example ex_positions :
  positions_model_roundtrip (map (fun i => (N.of_nat i * 37) mod 1000) (seq 0 300))
    [(0, 1); (0, 128); (127, 2); (128, 128); (100, 200); (256, 44); (299, 1); (300, 0); (5, 290)] = true.
Proof. vm_compute. reflexivity. Qed.

(* F15 (known finding): a term written WITHOUT term frequencies (non-text JSON leaf) in a field WITH positions:
   documents and tf (= 1) read back as specified, but its positions stream is empty and the reader, asked for
   the tf = 1 positions of the first document, hits the panic branch instead of returning no positions. *)
Theorem C07_nonfreq_positions_refuted :
  read_all bp4x_unpack WithFreqsAndPositions WithFreqsAndPositions 1
           (serialize bp4x_pack (fun _ => (0, 0)) WithFreqsAndPositions false [(3, 1)]) = ROk [(3, 1)]
  /\ pos_serialize bp4x_pack [] = [128]
  /\ positions_of bp4x_unpack (pos_serialize bp4x_pack []) 0 [] 1 = RPanic.
Proof. vm_compute. repeat split; reflexivity. Qed.

Print Assumptions C07_vint_roundtrip32.
Print Assumptions C07_roundtrip.
Print Assumptions C07_blocks.
Print Assumptions C07_skip_entries.
Print Assumptions C07_position_offset.
Print Assumptions C07_bitwidth.
Print Assumptions C07_fieldnorm.
Print Assumptions C07_nonfreq_positions_refuted.

(* ===================== theorems added after the first build (deeper proofs) ===================== *)
From TV Require Import Postings.PositionsProofs Postings.Seek Postings.SeekProofs Postings.SeekCases.
Local Open Scope N_scope.

(* ---- positions stream: round trip for delta lists of ANY length, every window ------------------------------- *)
Theorem C07_positions_roundtrip : forall pack unpack,
  (forall w xs, length xs = BLOCKn -> Forall (fun x => x < 2 ^ w) xs -> unpack w (pack w xs) = xs) ->
  (forall w xs, length xs = BLOCKn -> N.of_nat (length (pack w xs)) = block_size w) ->
  forall ds offset len,
  Forall (fun x => x < 2 ^ 32) ds -> N.of_nat (length ds) < 2 ^ 64 -> offset + len <= N.of_nat (length ds) ->
  pos_read unpack (pos_serialize pack ds) offset len = ROk (firstn (N.to_nat len) (skipn (N.to_nat offset) ds)).
Proof. exact pos_read_serialize. Qed.

(* the positions of the k-th document of a term are recovered from the cumulative term frequencies, for any split
   position_offset (SkipReader, C07_position_offset) + tfs before the cursor inside the block *)
Theorem C07_positions_of_doc : forall pack unpack,
  (forall w xs, length xs = BLOCKn -> Forall (fun x => x < 2 ^ w) xs -> unpack w (pack w xs) = xs) ->
  (forall w xs, length xs = BLOCKn -> N.of_nat (length (pack w xs)) = block_size w) ->
  forall pss k position_offset tfs_before,
  Forall (fun ps => chain_le 0 ps /\ Forall (fun p => p < 2 ^ 32) ps) pss ->
  sum (map tf_of pss) < 2 ^ 64 -> (k < length pss)%nat ->
  position_offset + sum tfs_before = sum (map tf_of (firstn k pss)) ->
  positions_of unpack (pos_serialize pack (term_deltas pss)) position_offset tfs_before (tf_of (nth k pss []))
  = ROk (nth k pss []).
Proof. exact positions_of_kth. Qed.

(* ---- SegmentPostings cursor = list semantics ------------------------------------------------------------------ *)
Theorem C07_seek_blocks : forall bs prog, binv bs -> Forall valid_op prog ->
  sp_run (sp_open bs) prog = ROk (run_list (flatten bs) prog).
Proof. exact sp_run_blocks. Qed.

Theorem C07_seek : forall pack unpack,
  (forall w xs, length xs = BLOCKn -> Forall (fun x => x < 2 ^ w) xs -> unpack w (pack w xs) = xs) ->
  (forall w xs, length xs = BLOCKn -> N.of_nat (length (pack w xs)) = block_size w) ->
  forall bw opt rtf req l prog,
  wf_postings l -> Forall valid_op prog ->
  exists bs, read_blocks unpack opt req (N.of_nat (length l)) (serialize pack bw opt rtf l) = ROk bs /\
             sp_run (sp_open bs) prog = ROk (run_list (project (has_freq req && (has_freq opt && rtf)) l) prog).
Proof. exact seek_list_semantics. Qed.

Theorem C07_seek_terminated_sticky : forall st prog, inv st -> Forall valid_op prog -> sp_doc st = TERMINATED ->
  exists obs, sp_run st prog = ROk obs /\ Forall (fun o => o = (TERMINATED, 0)) obs.
Proof. exact sp_terminated_sticky. Qed.

Theorem C07_seek_positions : forall pack unpack,
  (forall w xs, length xs = BLOCKn -> Forall (fun x => x < 2 ^ w) xs -> unpack w (pack w xs) = xs) ->
  (forall w xs, length xs = BLOCKn -> N.of_nat (length (pack w xs)) = block_size w) ->
  forall bw opt req l pss prog,
  wf_postings l -> has_positions opt = true -> has_freq req = true ->
  map snd l = map tf_of pss ->
  Forall (fun ps => chain_le 0 ps /\ Forall (fun p => p < 2 ^ 32) ps) pss ->
  sum (map snd l) < 2 ^ 32 ->
  Forall valid_op prog ->
  exists bs, read_blocks unpack opt req (N.of_nat (length l)) (serialize pack bw opt true l) = ROk bs /\
  exists st, sp_exec (sp_open bs) prog = ROk st /\
  (sp_doc st <> TERMINATED ->
   exists k, (k < length l)%nat /\ rem st = skipn k l /\ sp_doc st = fst (nth k l (0, 0)) /\
             sp_positions unpack (pos_serialize pack (term_deltas pss)) st = ROk (nth k pss [])).
Proof. exact seek_positions_roundtrip. Qed.

(* block_search.rs: the transliterated 8-ary search equals its specification on every sorted 128-slot array whose
   last slot is >= target, hence on every block the cursor searches *)
Theorem C07_block_search : forall arr t, length arr = BLOCKn -> nondecr arr -> t <= nth (BLOCKn - 1) arr 0 ->
  kary_search8 arr t = count_lt t arr.
Proof. exact kary_search8_spec. Qed.

Theorem C07_seek_kary : forall t st, t <= TERMINATED -> inv st -> sp_seek_kary t st = sp_seek t st.
Proof. exact sp_seek_kary_eq. Qed.

(* outside the DocSet contract (target > TERMINATED): SkipReader::seek's loop has no exit *)
Theorem C07_seek_above_terminated_refuted : forall t st, inv st -> TERMINATED < t ->
  sp_seek t st = RFuel /\ forall fuel, skip_loop fuel t (c_blocks st) = RFuel.
Proof. exact sp_seek_above_terminated_never_returns. Qed.

Print Assumptions C07_positions_roundtrip.
Print Assumptions C07_seek.
Print Assumptions C07_seek_positions.

Print Assumptions C07_positions_roundtrip.
Print Assumptions C07_positions_of_doc.
Print Assumptions C07_seek_blocks.

(* ---- the SkipReader as a state machine; cursor reuse; merged segments ----------------------------------- *)
From TV Require Import Postings.Reuse Postings.Merge.

(* SkipReader::reset assigns every field that SkipReader::new initialises (all but skip_info): a reader that is
   reset is a new reader, whatever it did before (in particular last_doc_in_previous_block, the delta base of
   the first block, is 0 again). *)
Theorem C07_skip_reader_reset : forall old data doc_freq,
  sr_reset old data doc_freq = sr_new data doc_freq (sr_skip_info old).
Proof. exact sr_reset_is_new. Qed.

Theorem C07_skip_reader_reset_base : forall old data doc_freq st,
  sr_reset old data doc_freq = Some st ->
  sr_last_doc_in_previous_block st = 0 /\ sr_position_offset st = 0 /\ sr_byte_offset st = 0.
Proof. exact sr_reset_delta_base. Qed.

(* walking the SkipReader object (load_block ; advance ; ...) from the state `new` builds is Codec.read_blocks,
   the function C07_blocks / C07_roundtrip / C07_seek are about *)
Theorem C07_skip_reader_walk : forall unpack opt req doc_freq data,
  cursor_open_blocks unpack opt req doc_freq data = read_blocks unpack opt req doc_freq data.
Proof. exact cursor_open_is_read_blocks. Qed.

(* BlockSegmentPostings::reset on a cursor in ANY state reads what a fresh cursor reads, provided the record option
   decided when the cursor was opened is the one a fresh `open` would decide for the new term *)
Theorem C07_cursor_reset_is_fresh : forall unpack old opt req doc_freq data,
  (forall sk, open_option opt doc_freq sk = sr_skip_info old) ->
  cursor_reset_blocks unpack old req doc_freq data = read_blocks unpack opt req doc_freq data.
Proof. exact cursor_reset_is_fresh. Qed.

(* F71 (known finding): that proviso fails for JSON fields: a cursor opened on a term recorded WITH frequencies and
   re-targeted on a term recorded WITHOUT (non-text leaf, >= 128 documents) parses the 5-byte skip entries as
   8-byte ones: panic, where a fresh cursor reads the list. *)
Definition f71_list : list (N * N) := map (fun i => (N.of_nat (2 * i), 1)) (seq 0 128).
Theorem C07_cursor_reuse_json_refuted :
  exists old, sr_new [] 0 WithFreqs = Some old /\
  cursor_reset_blocks bp4x_unpack old WithFreqs 128 (serialize bp4x_pack (fun _ => (0, 0)) WithFreqs false f71_list) = RPanic /\
  read_all bp4x_unpack WithFreqs WithFreqs 128 (serialize bp4x_pack (fun _ => (0, 0)) WithFreqs false f71_list)
  = ROk (project false f71_list).
Proof. eexists. split; [reflexivity|]. vm_compute. split; reflexivity. Qed.

(* merge: every field of the merged segment gets the field norms of its own source documents, whatever the shared
   scratch buffer held (write_fieldnorms), i.e. the quantised token counts of the merged documents *)
Theorem C07_merge_fieldnorms : forall fields buf mapping,
  write_fieldnorms buf fields mapping = map (fun segs => map (norm_at segs) mapping) fields.
Proof. exact write_fieldnorms_spec. Qed.

Theorem C07_merged_norms_agree : forall (src : list (list docin)) (mapping : list addr),
  Forall (fun a => (fst a < length src)%nat /\ (snd a < length (nth (fst a) src []))%nat) mapping ->
  map (norm_at (map fieldnorm_ids src)) mapping = fieldnorm_ids (map (doc_at src []) mapping).
Proof. exact merged_norms_agree. Qed.

(* total_num_tokens of a merged field is an estimate when a source has deletes: never above the exact count of the
   surviving documents, exact when their norms are exact *)
Theorem C07_merged_total_estimate : forall docs alive,
  forallb (fun a : bool => a) alive = false ->
  est_source true docs alive <= total_num_tokens (alive_docs docs alive) /\
  (Forall (fun d => doc_num_tokens d <= EXACT_BELOW) (alive_docs docs alive) ->
   est_source true docs alive = total_num_tokens (alive_docs docs alive)).
Proof. exact est_source_normed. Qed.

Print Assumptions C07_cursor_reset_is_fresh.
Print Assumptions C07_cursor_reuse_json_refuted.
Print Assumptions C07_merged_norms_agree.

(* ---- grouping of a document's values by field; positions across the values of a multi-valued field -------- *)
From TV Require Import Postings.Grouping.

(* index_document groups the (field, value) pairs with a STABLE sort by field: the group of a field lists that
   field's values in the order in which they were added, wherever the other fields' values were added in between *)
Theorem C07_grouping_stable : forall (A : Type) f (doc : list (N * A)),
  grouped_values f doc = field_values f doc /\ sorted_keys (sort_stable doc).
Proof. exact (fun A f doc => conj (grouped_values_in_document_order f doc) (sort_stable_sorted doc)). Qed.

(* the occurrences (term, position) recorded for a text field: index_text over the field's values in document
   order, value after value with the position gap *)
Theorem C07_field_positions_in_document_order : forall f doc,
  field_occ_impl f doc = group_occ 0 (field_values f doc).
Proof. exact field_occ_in_document_order. Qed.

(* ... hence they depend only on the sequence of that field's values *)
Theorem C07_field_positions_depend_on_own_values : forall f d1 d2,
  field_values f d1 = field_values f d2 -> field_occ_impl f d1 = field_occ_impl f d2.
Proof. exact field_occ_depends_on_own_values. Qed.

Theorem C07_field_positions_ignore_other_fields : forall f g v (d1 d2 : rawdoc),
  g <> f -> field_occ_impl f (d1 ++ (g, v) :: d2) = field_occ_impl f (d1 ++ d2).
Proof. exact field_occ_ignores_other_fields. Qed.

(* the order of a field's own values DOES matter (so an unstable grouping is observable): swapping two values of
   different lengths moves the positions *)
Example ex_value_order_matters :
  field_occ_impl 1 [(1, [([97], 0, 1); ([98], 1, 1)]); (0, [([122], 0, 1)]); (1, [([99], 0, 1)])]
    = [([97], 0); ([98], 1); ([99], 3)] /\
  field_occ_impl 1 [(1, [([99], 0, 1)]); (0, [([122], 0, 1)]); (1, [([97], 0, 1); ([98], 1, 1)])]
    = [([99], 0); ([97], 2); ([98], 3)].
Proof. vm_compute. split; reflexivity. Qed.

Print Assumptions C07_grouping_stable.
Print Assumptions C07_field_positions_depend_on_own_values.
