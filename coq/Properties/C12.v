(* C12 -- Relevance scores are BM25 over the searcher's statistics; explain agrees.
   Only statements, each closed by `exact <lemma>`, non-vacuity examples, refuted witnesses.
   `ln` is universally quantified (external component with its contract as hypotheses). *)
From Coq Require Import QArith Qminmax Permutation.
From TV Require Import Base.Prelude Generated.Constants Rank.BM25 Rank.Explain Rank.BM25Float.
Local Open Scope Q_scope.

(* ---------------------------------------------------------------------------------------------- *)
(** Statistics and segmentation *)

(* N = sum of max_doc, n_t = sum of per-segment doc_freq, sum of tokens: they depend only on the multiset
   of physical documents -- for ANY two groupings of the same documents into segments (any number of
   segments, any order).  With no deleted documents the physical documents are the logical ones. *)
Theorem C12_stats_partition_invariant : forall s1 s2 : searcher,
  Permutation (concat s1) (concat s2) -> stats_eq (stats_of s1) (stats_of s2).
Proof. exact stats_partition_invariant. Qed.

(* hence every score of every query tree is the same under any segmentation *)
Theorem C12_score_partition_invariant : forall (ln : Q -> Q) (s1 s2 : searcher) (q : query) (d : doc),
  Permutation (concat s1) (concat s2) -> score ln (stats_of s1) q d = score ln (stats_of s2) q d.
Proof. exact score_partition_invariant. Qed.

(* the score depends on the searcher only through (N, sum of tokens, doc_freq) *)
Theorem C12_score_depends_on_stats_only : forall ln a b q, stats_eq a b ->
  forall boost d, scorer_score ln a q boost d = scorer_score ln b q boost d.
Proof. exact scorer_score_stats_eq. Qed.

(* idf's assert!(doc_count >= doc_freq) cannot fire on a searcher *)
Theorem C12_doc_freq_le_total : forall sr t, (doc_freq sr t <= total_num_docs sr)%N.
Proof. exact doc_freq_le_total. Qed.

(* ---------------------------------------------------------------------------------------------- *)
(** The reported score is the formula *)

(* The scorer tree (boosts pushed down into the Bm25Weights, const-score replacing, SumCombiner /
   DisjunctionMaxCombiner folding from 0.0, single-clause booleans unwrapped) computes boost * formula,
   where formula is: boost_path * idf * (1+K1) * tf/(tf + K1*(1-B+B*dl/avgdl)) at a term or phrase leaf
   (phrase: sum of idfs), s at a const-score node, the sum over the matching Must/Should clauses at a
   boolean node, max + tie*(sum - max) at a disjunction-max node. *)
Theorem C12_scorer_is_boost_times_formula : forall ln st q d, wfq q -> forall boost, 0 <= boost ->
  orel (scaled boost) (formula ln st q d) (scorer_score ln st q boost d).
Proof. exact scorer_is_formula. Qed.

Theorem C12_score_is_formula : forall ln st q d, wfq q -> orel Qeq (formula ln st q d) (score ln st q d).
Proof. exact score_is_formula. Qed.

(* boolean trees of (boosted) term / phrase clauses: the score is the SUM over the matching scoring clauses of
   (product of the boosts on the path) * idf * (1+K1) * tf/(tf + K1*(1-B+B*dl/avgdl)) *)
Theorem C12_score_is_sum_over_matching_clauses : forall ln st q d, sum_fragment q -> forall b x,
  formula ln st q d = Some x -> sum_combiner (clause_scores ln st q b d) == b * x.
Proof. exact formula_is_sum_of_clauses. Qed.

(* the leaf formula, spelled out: a matching term clause under boost b scores
   b * ln(1 + (N - n + 1/2)/(n + 1/2)) * (1 + K1) * tf / (tf + K1 * (1 - B + B * dl / avgdl)) *)
Theorem C12_term_clause_formula : forall ln st t b d, has_term t d = true ->
  orel Qeq (Some (b * (ln (1 + (QofN (st_N st - st_df st t) + (1 # 2)) / (QofN (st_df st t) + (1 # 2)))
                       * (1 + K1)
                       * (QofN (tf t d) / (QofN (tf t d)
                          + K1 * (1 - B + B * QofN (id_to_fieldnorm (fieldnorm_id d)) / (QofN (st_T st) / QofN (st_N st))))))))
           (formula ln st (QBoost (QTerm t) b) d).
Proof.
  intros ln st t b d H. cbn [formula]. rewrite H. cbn [orel]. reflexivity.
Qed.

(* max + tie*(sum - max) really is the maximum and the sum when no clause score is negative *)
Theorem C12_dismax_is_max_plus_tie_rest : forall xs, let r := fold_left dismax_step xs (0, 0) in
  (forall x, In x xs -> x <= fst r) /\ (fst r == 0 \/ exists x, In x xs /\ fst r == x) /\ snd r == sum_combiner xs.
Proof.
  intros xs r. destruct (dismax_fold_spec xs 0 0 ltac:(apply Qle_refl)) as (_ & H2 & H3 & H4).
  split; [exact H2|split; [exact H3|]]. fold r in H4. rewrite H4. apply Qplus_0_l.
Qed.

(* ---------------------------------------------------------------------------------------------- *)
(** explain *)

(* explain() succeeds exactly on the matching documents, and the value of the tree it builds (shape as
   in TermWeight/PhraseWeight/BoostWeight/ConstWeight/BooleanWeight::explain) is the reported score. *)
Theorem C12_explain_agrees : forall ln st q d, wfq q -> orel Qeq (score ln st q d) (ovalue (explain ln st q d)).
Proof. exact explain_agrees. Qed.

(* ... and the tree is internally consistent, node by node: a TermQuery node is (K1+1) * idf * tf-node, the
   tf node is freq/(freq + k1*(1 - b + b*dl/avgdl)) of its five details, the idf node is ln(1 + (N-n+1/2)/(n+1/2))
   of its two, a boost node is detail * boost, a phrase node equals its detail, a boolean node is the sum of its
   details (the explanations of the matching Must/Should clauses), a disjunction-max node the dis-max of its. *)
Theorem C12_explain_tree_consistent : forall ln st,
  (forall x y, x == y -> ln x == ln y) -> (forall t, (st_df st t <= st_N st)%N) ->
  forall q d, wfq q -> forall e, explain ln st q d = Some e -> consistent ln e.
Proof. exact explain_consistent. Qed.

(* F42: the seek that explain issues on its fresh scorer.  With the `scorer.doc() > doc` guard (TermWeight::explain)
   the DocSet::seek precondition target >= doc() always holds; without it (PhraseWeight, ConstWeight,
   BooleanWeight::explain) it fails exactly when the clause's first match of the segment lies after the document. *)
Theorem C12_guarded_explain_respects_seek_contract : forall first target,
  forallb seek_pre (explain_seek_calls true first target) = true.
Proof. exact guarded_explain_respects_seek_contract. Qed.

Theorem C12_unguarded_explain_backward_seek_refuted :
  (forall first target, forallb seek_pre (explain_seek_calls false first target) = false <-> known_f42 target [first] = true)
  /\ exists first target, forallb seek_pre (explain_seek_calls false first target) = false.
Proof. split; [exact unguarded_explain_violates_iff|exists 5%N, 2%N; reflexivity]. Qed.

(* ---------------------------------------------------------------------------------------------- *)
(** collectors *)

(* Any collector that selects among the scored documents -- Top-K for every K, collect-all -- reports for an
   address the score function of (searcher statistics, query, document) at the alive document there. *)
Theorem C12_collector_independent : forall ln sr q collector a x,
  selecting collector -> In (a, x) (collector (search ln sr q)) ->
  exists d, doc_at sr a = Some (d, true) /\ score ln (stats_of sr) q d = Some x.
Proof. exact collector_independent. Qed.

Theorem C12_top_k_selecting : forall K, selecting (top_k K).
Proof. exact top_k_selecting. Qed.

(* ---------------------------------------------------------------------------------------------- *)
(** monotonicity facts (used by the WAND pruning argument) and what max_score bounds *)

Theorem C12_tf_factor_monotone : forall avg, 0 <= avg ->
  (forall id f1 f2, (id < BM25_TF_CACHE_LEN)%N -> (f1 <= f2)%N -> tf_factor avg id f1 <= tf_factor avg id f2) /\
  (forall id1 id2 f, (id1 <= id2)%N -> (id2 < BM25_TF_CACHE_LEN)%N -> tf_factor avg id2 f <= tf_factor avg id1 f) /\
  (forall id f, (id < BM25_TF_CACHE_LEN)%N -> 0 <= tf_factor avg id f /\ tf_factor avg id f < 1).
Proof.
  intros avg H. split; [|split].
  - exact (tf_factor_increasing_in_tf avg H).
  - exact (tf_factor_decreasing_in_id avg H).
  - exact (tf_factor_bounds avg H).
Qed.

Theorem C12_fieldnorm_rounds_down : forall n, (id_to_fieldnorm (fieldnorm_to_id n) <= n)%N.
Proof. exact fieldnorm_rounds_down. Qed.

Theorem C12_idf_nonneg : forall ln, (forall x y, 0 < x -> x <= y -> ln x <= ln y) -> ln 1 == 0 ->
  forall n N, 0 <= idf ln n N.
Proof. exact idf_nonneg. Qed.

Theorem C12_idf_decreasing : forall ln, (forall x y, 0 < x -> x <= y -> ln x <= ln y) ->
  forall n1 n2 N, (n1 <= n2)%N -> (n2 <= N)%N -> idf ln n2 N <= idf ln n1 N.
Proof. exact idf_decreasing. Qed.

(* Bm25Weight::max_score = score(255, 2_013_265_944) dominates the documents whose term frequency does not
   exceed their DECODED field length ... *)
Theorem C12_max_score_bounds_tf_le_decoded_len : forall w id f,
  0 <= bw_weight w -> 0 <= bw_avg w -> (id < BM25_TF_CACHE_LEN)%N -> (f <= id_to_fieldnorm id)%N ->
  bm25_score w id f <= max_score w.
Proof. exact max_score_bounds_tf_le_decoded_len. Qed.

(* ... every score is below the weight itself ... *)
Theorem C12_score_lt_weight : forall w id f,
  0 < bw_weight w -> 0 <= bw_avg w -> (id < BM25_TF_CACHE_LEN)%N -> bm25_score w id f < bw_weight w.
Proof. exact score_lt_weight. Qed.

(* ... but max_score is NOT an upper bound of all scores (F6): a 1000-token document made of the term,
   average length 2497/999, beats it, because its length is quantised down to 984 < tf. *)
Theorem C12_max_score_is_not_upper_bound_refuted :
  (f6_tf <= f6_len)%N /\
  tf_factor f6_avg BM25_MAX_SCORE_FIELDNORM_ID BM25_MAX_SCORE_TF < tf_factor f6_avg (fieldnorm_to_id f6_len) f6_tf.
Proof. exact max_score_is_not_upper_bound. Qed.

(* ---------------------------------------------------------------------------------------------- *)
(** F40: the sum of the clause scores is not the disjunction-max (what block_wand computes for a
    top-level DisjunctionMaxQuery of term queries). *)
Theorem C12_sum_is_not_dismax : forall x y tie, 0 < x -> 0 < y -> tie < 1 ->
  dismax_combiner tie [x; y] < sum_combiner [x; y].
Proof.
  intros x y tie Hx Hy Ht. unfold dismax_combiner, sum_combiner, dismax_step. cbn [fold_left fst snd].
  assert (E0 : Qmax x 0 == x) by (apply Q.max_l; apply Qlt_le_weak; exact Hx).
  destruct (Q.max_spec_le y x) as [[H E]|[H E]].
  - assert (E' : Qmax y (Qmax x 0) == x) by (rewrite E0; exact E). rewrite E'.
    setoid_replace (x + (0 + x + y - x) * tie) with (x + y * tie) by ring.
    setoid_replace (0 + x + y) with (x + y) by ring.
    apply Qplus_lt_r. setoid_replace y with (y * 1) at 2 by ring. rewrite !(Qmult_comm y). now apply Qmult_lt_compat_r.
  - assert (E' : Qmax y (Qmax x 0) == y) by (rewrite E0; exact E). rewrite E'.
    setoid_replace (y + (0 + x + y - y) * tie) with (y + x * tie) by ring.
    setoid_replace (0 + x + y) with (y + x) by ring.
    apply Qplus_lt_r. setoid_replace x with (x * 1) at 2 by ring. rewrite !(Qmult_comm x). now apply Qmult_lt_compat_r.
Qed.

(* ---------------------------------------------------------------------------------------------- *)
(** Non-vacuity: a two-segment searcher with a deleted document, a query tree with every node kind,
    an instance of the ln contract, and a document on which everything is defined. *)
Definition ex_ln (x : Q) : Q := x - 1.
Definition ex_sr : searcher :=
  [ [([1; 2; 2; 3]%N, true); ([1; 1; 1; 3; 3; 4]%N, false)];
    [([2; 4; 4; 4; 4; 4; 4; 5]%N, true); ([1; 2]%N, true)] ].
Definition ex_q : query :=
  QBool 0 [ (Must, QBoost (QTerm 1%N) (37 # 10));
            (Should, QDisMax [QTerm 2%N; QPhrase [1; 2]%N] (1 # 4));
            (Should, QConst (QTerm 3%N) (1 # 2));
            (MustNot, QTerm 5%N) ].
Example ex_ln_contract : (forall x y, 0 < x -> x <= y -> ex_ln x <= ex_ln y) /\ ex_ln 1 == 0.
Proof. split; [intros x y _ H; unfold ex_ln; apply Qplus_le_l; exact H|reflexivity]. Qed.
Example ex_wf : wfq ex_q.
Proof. cbn. repeat split; discriminate. Qed.
Example ex_scores : match score ex_ln (stats_of ex_sr) ex_q [1; 2; 2; 3]%N, ovalue (explain ex_ln (stats_of ex_sr) ex_q [1; 2; 2; 3]%N) with
                    | Some x, Some y => Qeq_bool x y && Qle_bool (1 # 2) x
                    | _, _ => false
                    end = true.
Proof. vm_compute. reflexivity. Qed.
Example ex_resegmented : Permutation (concat ex_sr) (concat [[([1; 2]%N, true)]; [([1; 2; 2; 3]%N, true); ([2; 4; 4; 4; 4; 4; 4; 5]%N, true); ([1; 1; 1; 3; 3; 4]%N, false)]]).
Proof.
  unfold ex_sr. cbn [concat app]. apply Permutation_sym.
  eapply perm_trans; [apply perm_swap|]. apply perm_skip.
  apply (Permutation_rev [([1; 2]%N, true); ([2; 4; 4; 4; 4; 4; 4; 5]%N, true); ([1; 1; 1; 3; 3; 4]%N, false)]).
Qed.
Example ex_explain_consistent :
  match explain ex_ln (stats_of ex_sr) ex_q [1; 2; 2; 3]%N with Some e => consistent ex_ln e | None => False end.
Proof.
  destruct (explain ex_ln (stats_of ex_sr) ex_q [1; 2; 2; 3]%N) as [e|] eqn:E.
  - refine (C12_explain_tree_consistent ex_ln (stats_of ex_sr) _ _ ex_q _ ex_wf e E).
    + intros x y H. unfold ex_ln. now rewrite H.
    + intros t. apply doc_freq_le_total.
  - vm_compute in E. discriminate.
Qed.
(* the hypothesis matters: purging the deleted document (what a merge does) changes the statistics *)
Example ex_purge_changes_stats : st_N (stats_of ex_sr) <> st_N (stats_of [[([1; 2; 2; 3]%N, true)]; [([2; 4; 4; 4; 4; 4; 4; 5]%N, true); ([1; 2]%N, true)]]).
Proof. vm_compute. discriminate. Qed.

(* ---------------------------------------------------------------------------------------------- *)
(** Binary32 layer (Flocq; these three depend on the standard library's real-number axioms) *)
Local Open Scope Z_scope.

(* the 256-entry cache is the table of a pure function of (field-norm id, average) *)
Theorem C12_float_cache_is_function : forall avg id, (id < BM25_TF_CACHE_LEN)%N ->
  cache_get (compute_tf_cache_f avg) id = cached_tf_component_f (id_to_fieldnorm id) avg.
Proof. exact cache_get_eq. Qed.

(* F40 witness observed on the unchanged code: 4 documents "a b b c", "a a a c c d", "b d d d d d d e", "a b"
   in one segment, DisjunctionMaxQuery([a, b], tie 0.25), document 3: TopDocs reported 0x3f7205f7 (the sum),
   explain and a scoring collector 0x3f1743ba (the dis-max), which is what the model computes. *)
Definition f40_q : fquery :=
  FDisMax [FLeaf [1052155418] (Some (2%N, 1%N)); FLeaf [1052155418] (Some (2%N, 1%N))] 1048576000.
Theorem C12_dismax_topdocs_refuted :
  known_f40 20 4 f40_q 1064437239 = true /\
  score_bits_agree 20 4 f40_q (Some 1064437239) = false /\
  score_bits_agree 20 4 f40_q (Some 1058489274) = true /\
  explain_bits_agree 20 4 f40_q (Some 1058489274) = true.
Proof. vm_compute. repeat split. Qed.

(* F41 witness observed on the unchanged code (same index, BoostQuery(a, 3.7), document 1: tf 3, length 6):
   score 0x3ffe89f6, explain 0x3ffe89f5 -- each exactly what its order of operations gives. *)
Definition f41_q : fquery := FBoost (FLeaf [1052155418] (Some (6%N, 3%N))) 1080872141.
Theorem C12_boost_explain_rounding_refuted :
  known_f41 20 4 f41_q 1073646070 1073646069 = true /\ 1073646070 <> 1073646069.
Proof. split; [vm_compute; reflexivity|discriminate]. Qed.
