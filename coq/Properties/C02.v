(* C02 -- A commit publishes exactly the sequential effect of the operations before it.
   Only statements, each closed by `exact <lemma>`, non-vacuity examples, `_refuted` witnesses of the
   known findings F1 / F2, and the assumptions of every theorem.

   Vocabulary: `replay` (Indexing/Replay.v) is the 10-line sequential specification; `run f1 nw h sc`
   (Indexing/Writer.v) runs history `h` on the model of the writer mechanism with `nw` indexing
   workers under the schedule oracle `sc` (which worker takes which batch when, where a worker cuts its
   segment, which positions DeleteQueue::cursor() returns) and yields the final state and the opstamp
   returned by every call; `published` is what a freshly loaded searcher sees (alive documents of the
   segments of meta.json).  `f1` = "commit stores its opstamp in IndexWriter::committed_opstamp"
   (false on the unchanged code: finding F1); F2_class = the history calls delete_all_documents while
   something was stamped since committed_opstamp was last stored. *)
From TV Require Import Base.Prelude Indexing.Replay Indexing.Opstamp Indexing.DeleteQueue Indexing.Writer.
From TV Require Import Indexing.WriterObs Indexing.WriterProofs Indexing.WriterOpstamps Generated.Constants.
From Coq Require Import Permutation.
Local Open Scope N_scope.

(* every history, every schedule, any number of workers: the published documents are, as a multiset
   with all fields, the committed state of the sequential replay *)
Theorem C02_commit_is_replay : forall f1 nw h sc, (0 < nw)%nat -> F2_class f1 h = false ->
  Permutation (published (fst (run f1 nw h sc))) (committed (replay h)).
Proof. exact commit_is_replay. Qed.

(* ... each exactly once (ids are unique when every document is added once) *)
Theorem C02_exactly_once : forall f1 nw h sc, (0 < nw)%nat -> F2_class f1 h = false -> NoDup (adds h) ->
  NoDup (published (fst (run f1 nw h sc))).
Proof. exact published_nodup. Qed.

(* threads, budget cuts, cursor positions: the published content does not depend on them *)
Theorem C02_schedule_independent : forall f1 nw nw' h sc sc', (0 < nw)%nat -> (0 < nw')%nat -> F2_class f1 h = false ->
  Permutation (published (fst (run f1 nw h sc))) (published (fst (run f1 nw' h sc'))).
Proof. exact schedule_independent. Qed.

(* a delete removes only documents added before it *)
Theorem C02_delete_only_earlier : forall f1 nw h1 q ds payload sc, (0 < nw)%nat ->
  F2_class f1 (h1 ++ Del q :: map Add ds ++ [Commit payload]) = false ->
  forall d, In d ds -> In d (published (fst (run f1 nw (h1 ++ Del q :: map Add ds ++ [Commit payload]) sc))).
Proof. exact delete_only_earlier. Qed.

(* rollback, abort and dropping the writer restore the last committed state *)
Theorem C02_rollback_restores : forall f1 nw h u payload sc sc', (0 < nw)%nat -> is_restore u ->
  F2_class f1 (h ++ [u; Commit payload]) = false ->
  Permutation (published (fst (run f1 nw (h ++ [u; Commit payload]) sc))) (published (fst (run f1 nw h sc'))).
Proof. exact rollback_restores. Qed.
Theorem C02_restore_reloads_meta : forall f1 st u s, is_restore u ->
  exists st1, fst (wstep f1 st u s) = new_writer (nworkers st1) (meta st1) /\ snd (wstep f1 st u s) = m_opstamp (meta st1).
Proof. exact restore_is_new_writer. Qed.

(* opstamps, on the model's own trace (returned opstamp and meta.opstamp after every call): the opstamp returned by
   a commit exceeds that of every operation it includes and is meta.opstamp; rollback / abort return the last
   commit's opstamp (spec_opstamps is the predicate the harness evaluates on the implementation's trace) *)
Theorem C02_opstamps : forall f1 nw h sc, (0 < nw)%nat -> F2_class f1 h = false ->
  spec_opstamps h (map ret_meta (run_trace f1 (new_writer nw init_meta) h sc)) = true.
Proof. exact opstamps. Qed.
(* commit_opstamp() reports the last commit -- once commit stores its opstamp (f1 = true, the proposed fix of F1);
   on the unchanged code (f1 = false) see C02_commit_opstamp_accessor_refuted *)
Theorem C02_commit_opstamp_reported : forall nw h sc,
  spec_accessor h (map ret_acc (run_trace true (new_writer nw init_meta) h sc)) = true.
Proof. exact accessor_fixed. Qed.

(* internal events -- a worker taking the next batch, the memory budget closing a segment (the batch just taken
   included) -- never change what the next commit will publish: the refinement invariant `Good` (Inv + "working
   (replay h) is a permutation of the effective content of registers, open segments and channel") is preserved by
   every event list *)
Theorem C02_events_preserve_content : forall nw es st sp dirty,
  Good nw st sp dirty -> Good nw (fold_left do_event es st) sp dirty.
Proof. exact events_good. Qed.
Theorem C02_budget_cut_keeps_documents : forall nw st sp dirty i,
  Good nw st sp dirty -> Good nw (do_cut st i) sp dirty /\ Permutation (working sp) (eff (do_cut st i)).
Proof. exact cut_keeps_documents. Qed.

(* the mechanism lemmas the refinement rests on: apply_deletes (per-document test doc_opstamp <
   delete_opstamp) and advance_deletes (whole segment) keep what an entry finally contributes *)
Theorem C02_apply_deletes_sound : forall q c docs,
  incr (map del_op q) -> (c <= length q)%nat ->
  (forall o x, In o (firstn c q) -> In x docs -> del_op o < snd x) ->
  (forall o x, In o q -> In x docs -> del_op o <> snd x) ->
  (c <= snd (apply_deletes q c docs) <= length q)%nat /\
  filter (pend_ok (skipn (snd (apply_deletes q c docs)) q)) (alive_docs (fst (apply_deletes q c docs))) = eff_docs q docs.
Proof. exact apply_deletes_eff. Qed.
Theorem C02_advance_deletes_sound : forall q e t, (e_cur e <= length q)%nat ->
  (e_cur e <= e_cur (advance_deletes q e t) <= length q)%nat /\ eff_entry q (advance_deletes q e t) = eff_entry q e.
Proof. exact advance_eff. Qed.

(* ------------------------------------------------------------------ non-vacuity *)
Definition dd (i t : N) : doc := mkDoc i t 0.
Definition ex_h : list uop :=
  [Add (dd 1 1); Add (dd 2 2); Del (QTag 1); Add (dd 3 1); Commit None; Del (QTag 2); Batch [BAdd (dd 4 2); BDel (QTag 1); BAdd (dd 5 1)];
   Commit (Some 7); Add (dd 6 1); Rollback; DeleteAll; Add (dd 7 3); Commit None].
Definition ex_sc : sched := [mkS [] []; mkS [ETake 1] []; mkS [ECut 1; ETake 0] []; mkS [] []; mkS [ETake 2] [1%nat; 0%nat]].
Example ex_in_scope : F2_class false ex_h = false /\ NoDup (adds ex_h).
Proof. split; [vm_compute; reflexivity|]. repeat constructor; cbn; intuition discriminate. Qed.
Example ex_published :
  map d_id (published (fst (run false 3 ex_h ex_sc))) = [7] /\ map d_id (committed (replay ex_h)) = [7] /\
  map d_id (published (fst (run false 3 (firstn 8 ex_h) ex_sc))) = [4; 5] /\ map d_id (committed (replay (firstn 8 ex_h))) = [4; 5].
Proof. vm_compute. repeat split; reflexivity. Qed.

(* ------------------------------------------------------------------ known findings *)
(* F2 (a): a document still in the pipeline survives delete_all_documents *)
Definition f2a : list uop := [Add (dd 0 1); DeleteAll; Commit None].
Theorem C02_delete_all_pipeline_refuted :
  F2_class false f2a = true /\ F2_class true f2a = true /\
  published (fst (run false 1 f2a [])) = [dd 0 1] /\ committed (replay f2a) = [].
Proof. vm_compute. repeat split; reflexivity. Qed.
(* F2 (b): opstamps are re-used after the revert: a delete issued BEFORE delete_all removes a document added AFTER it *)
Definition f2b : list uop := [Del (QTag 1); Del (QTag 1); Commit None; DeleteAll; Add (dd 0 1); Commit None].
Theorem C02_delete_all_reuses_opstamps_refuted :
  F2_class false f2b = true /\ published (fst (run false 1 f2b [])) = [] /\ committed (replay f2b) = [dd 0 1] /\
  snd (run false 1 f2b []) = [0; 1; 2; 0; 0; 2].
Proof. vm_compute. repeat split; reflexivity. Qed.
(* F2 (c): meta.opstamp moves backwards (10 -> 2) *)
Definition f2c : list uop := [Add (dd 0 0); Commit None; Add (dd 1 0); Commit None; Add (dd 2 0); Commit None; DeleteAll; Add (dd 3 0); Commit None].
Theorem C02_delete_all_opstamp_regress_refuted :
  F2_class false f2c = true /\ m_opstamp (meta (fst (run false 1 (firstn 6 f2c) []))) = 10 /\ m_opstamp (meta (fst (run false 1 f2c []))) = 2.
Proof. vm_compute. repeat split; reflexivity. Qed.
(* F1: commit_opstamp() does not follow a commit on the unchanged code (f1 = false); it does once commit stores it *)
Theorem C02_commit_opstamp_accessor_refuted :
  let '(st, outs) := run false 1 [Add (dd 0 0); Commit None] [] in
  outs = [0; 2] /\ m_opstamp (meta st) = 2 /\ committed_opstamp st = 0.
Proof. vm_compute. repeat split; reflexivity. Qed.

Print Assumptions C02_commit_is_replay.
Print Assumptions C02_exactly_once.
Print Assumptions C02_schedule_independent.
Print Assumptions C02_delete_only_earlier.
Print Assumptions C02_rollback_restores.
Print Assumptions C02_restore_reloads_meta.
Print Assumptions C02_events_preserve_content.
Print Assumptions C02_budget_cut_keeps_documents.
Print Assumptions C02_opstamps.
Print Assumptions C02_commit_opstamp_reported.
Print Assumptions C02_apply_deletes_sound.
Print Assumptions C02_advance_deletes_sound.
