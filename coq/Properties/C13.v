(* C13 -- Every DocSet is one sorted sequence under any mix of advance and seek.
   Only statements, each closed by `exact <lemma>`, non-vacuity examples and refutation witnesses. *)
From TV Require Import Base.Prelude Generated.Constants DocSet.Spec DocSet.Impl DocSet.Program
  DocSet.Exclude DocSet.ReqOpt DocSet.Sum DocSet.Intersect DocSet.Union DocSet.Disjunction DocSet.Cases.
Local Open Scope N_scope.

(* For every implementation that satisfies the contract of Impl.v (state s represents the remaining
   sorted list l) and every valid program (seek targets not below the current document, at most
   DOCSET_TERMINATED; count last), the observations are those of the plain sorted list. *)
Theorem C13_program_equivalence :
  forall (I : impl) strong R D, contract I strong R D ->
  forall prog s l, R s l -> valid_prog l prog -> run I s prog = spec_run l prog.
Proof. exact program_equivalence. Qed.

(* Once the end is reached every further call keeps reporting the end. *)
Theorem C13_terminated_sticky :
  forall (I : impl) strong R D, contract I strong R D ->
  forall prog s l, R s l -> doc I s = DOCSET_TERMINATED -> valid_prog l prog -> Forall obs_terminated (run I s prog).
Proof. exact terminated_sticky. Qed.

(* The sequence enumerated by plain advance is the represented list: strictly increasing, below DOCSET_TERMINATED. *)
Theorem C13_sequence_is_sorted_list :
  forall (I : impl) strong R D, contract I strong R D ->
  forall s l, R s l -> advance_walk I (S (length l)) s = l /\ wf_docs l.
Proof. intros I strong R D C s l HR. split; [exact (advance_walk_is_list I strong R D C s l HR)|exact (c_wf _ _ _ _ C _ _ HR)]. Qed.

(* The default methods of the trait (seek, seek_danger, fill_buffer, fill_bitset_block,
   count_including_deleted as loops over doc()/advance()) satisfy the contract, with seek_danger exact
   for every target and never dangling, as soon as doc/advance do. *)
Theorem C13_default_methods :
  forall (S : Type) (sdoc : S -> N) (sadv : S -> S) (ssize : S -> nat) (set_oof : S -> S) (sok : S -> bool) (R : S -> list N -> Prop),
  (forall s l, R s l -> wf_docs l) -> (forall s l, R s l -> sok s = true) ->
  (forall s l, R s l -> (length l <= ssize s)%nat) -> (forall s l, R s l -> sdoc s = ds_doc l) ->
  (forall s l, R s l -> R (sadv s) (ds_advance l)) ->
  contract (mk_default sdoc sadv ssize set_oof sok) true R (fun s _ l => R s l).
Proof. exact @default_contract. Qed.

(* Every specialised seek that meets the contract is observationally the default advance loop. *)
Theorem C13_default_seek :
  forall (I : impl) strong R D, contract I strong R D ->
  forall s l t, R s l -> doc I s <= t -> t <= DOCSET_TERMINATED ->
  R (seek I t s) (ds_seek t l) /\
  R (default_seek (doc I) (advance I) (size I) (fun x => x) t s) (ds_seek t l).
Proof.
  intros I strong R D C s l t HR Hd Ht. split; [exact (c_seek _ _ _ _ C _ _ _ HR Hd Ht)|].
  exact (default_seek_ok (doc I) (advance I) (size I) (fun x => x) R (c_wf _ _ _ _ C) (c_size _ _ _ _ C) (c_doc _ _ _ _ C) (c_advance _ _ _ _ C) t s l Ht HR).
Qed.

(* The leaf (VecDocSet): a sorted vector with the default methods. *)
Theorem C13_leaf : contract vec_impl true R_vec (fun s _ l => R_vec s l).
Proof. exact vec_contract. Qed.

(* Exclude (single or Vec exclusion set, asked through seek_danger): compositional for ANY children meeting the
   contract -- also weak ones such as a buffered union as exclusion set.  Exclude::new represents sem_exclude of
   what the children represent, and Exclude with the trait defaults meets the strong contract. *)
Theorem C13_compositional_exclude :
  forall (A B : impl) sa sb RA DA RB DB, contract A sa RA DA -> contract B sb RB DB ->
  (forall u ex lu les, RA u lu -> Forall2 RB ex les ->
     R_x A B RA RB DB (x_new A B u ex) (sem_exclude lu les)) /\
  contract (exclude_impl A B) true (R_x A B RA RB DB) (fun s _ l => R_x A B RA RB DB s l).
Proof.
  intros A B sa sb RA DA RB DB CA CB. split.
  - intros u ex lu les. exact (exclude_new_repr A B sa sb RA DA RB DB CA CB u ex lu les).
  - exact (exclude_contract A B sa sb RA DA RB DB CA CB).
Qed.

(* RequiredOptionalScorer: as a document set it is the required child (any child meeting the contract; strength kept) *)
Theorem C13_compositional_reqopt :
  forall (A B : impl) strong RA DA, contract A strong RA DA ->
  (forall a b l, RA a l -> R_ro A B RA (ro_new A B a b) l) /\
  contract (reqopt_impl A B) strong (R_ro A B RA) (D_ro A B DA).
Proof.
  intros A B strong RA DA CA. split.
  - intros a b l. exact (reqopt_new_repr A B RA a b l).
  - exact (reqopt_contract A B strong RA DA CA).
Qed.

(* heterogeneous children (Box<dyn Scorer>): the sum of two implementations meeting the contract meets it,
   so the theorems above apply at any nesting depth *)
Theorem C13_heterogeneous_children :
  forall (A B : impl) sa sb RA DA RB DB, contract A sa RA DA -> contract B sb RB DB ->
  contract (sum_impl A B) (sa && sb) (R_sum A B RA RB) (D_sum A B DA DB).
Proof. exact sum_contract. Qed.

(* consequence: a nested tree (here: Exclude of a required/optional pair of leaves, minus two leaves) run on any
   valid program is the sorted list sem_exclude a [x; y] *)
Theorem C13_nested_example_all_programs :
  forall a b x y prog, wf_docs a -> wf_docs b -> wf_docs x -> wf_docs y ->
  valid_prog (sem_exclude a [x; y]) prog ->
  run (exclude_impl (reqopt_impl vec_impl vec_impl) vec_impl)
      (x_new (reqopt_impl vec_impl vec_impl) vec_impl (ro_new vec_impl vec_impl (vec_of a) (vec_of b)) [vec_of x; vec_of y]) prog
  = spec_run (sem_exclude a [x; y]) prog.
Proof.
  intros a b x y prog Ha Hb Hx Hy HV.
  pose proof (reqopt_contract vec_impl vec_impl true R_vec (fun s _ l => R_vec s l) vec_contract) as CR.
  destruct (C13_compositional_exclude _ _ _ _ _ _ _ _ CR vec_contract) as [Hnew HC].
  apply (program_equivalence _ _ _ _ HC); [|exact HV].
  apply Hnew; [split; [reflexivity|now apply R_vec_of]|].
  constructor; [now apply R_vec_of|constructor; [now apply R_vec_of|constructor]].
Qed.

(* non-vacuity *)
Example C13_leaf_nonvacuous : R_vec (vec_of [3; 7; 4100; 9000]) [3; 7; 4100; 9000].
Proof. apply R_vec_of. apply wf_docsb_spec. vm_compute. reflexivity. Qed.
Example C13_program_nonvacuous :
  valid_prog [3; 7; 4100; 9000] [CSeek 5; CFill; CSeek DOCSET_TERMINATED; CAdvance; CCount] /\
  run vec_impl (vec_of [3; 7; 4100; 9000]) [CSeek 5; CAdvance; CBitset 4100; CCount]
  = spec_run [3; 7; 4100; 9000] [CSeek 5; CAdvance; CBitset 4100; CCount].
Proof. split; [apply valid_progb_spec; vm_compute; reflexivity|vm_compute; reflexivity]. Qed.

(* F131 (fixed in /repo; the pinned flag UNION_DANGER_GUARDS_CURRENT_DOC selects the shape of the model):
   the OLD shape of BufferedUnionScorer::seek_danger (guard = false) violates the seek_danger contract for a
   target below its window: an intersection driving a union-of-unions misses document 10000.  With the shape
   read from the current source the same run agrees with the list semantics. *)
Definition F131_a : list N := [1; 5000; 10000].
Definition F131_cs : list (list N + list (list N)) := [inr [[10000]; [10001]]; inl [1; 19990; 19991; 19992; 19993; 19994]].
Definition F131_sem : list N := sem_inter [F131_a; sem_union [sem_union [[10000]; [10001]]; [1; 19990; 19991; 19992; 19993; 19994]]].
Theorem C13_union_in_union_refuted :
  exists prog, valid_prog F131_sem prog /\ run_inter_luu_g false F131_a F131_cs true false prog <> spec_run F131_sem prog.
Proof. exists [CAdvance]. split; [exact I|vm_compute; discriminate]. Qed.
Example C13_union_in_union_current_source :
  run_inter_luu F131_a F131_cs true false [CAdvance; CAdvance; CAdvance] = spec_run F131_sem [CAdvance; CAdvance; CAdvance].
Proof. vm_compute. reflexivity. Qed.
