(* C13 -- Every DocSet is one sorted sequence under any mix of advance and seek.
   Only statements, each closed by `exact <lemma>`, non-vacuity examples and refutation witnesses. *)
From TV Require Import Base.Prelude Generated.Constants DocSet.Spec DocSet.Impl DocSet.Program
  DocSet.Exclude DocSet.ReqOpt DocSet.Sum DocSet.Intersect DocSet.IntersectProofs DocSet.Union DocSet.Disjunction DocSet.Cases.
Local Open Scope N_scope.

(* For every implementation that satisfies the contract of Impl.v (state s represents the remaining
   sorted list l) and every valid program (seek targets not below the current document, at most
   DOCSET_TERMINATED; count last), the observations are those of the plain sorted list. *)
Theorem C13_program_equivalence :
  forall (I : impl) strong R D, contract I strong R D ->
  forall prog s l, R s l -> valid_prog l prog -> run I s prog = spec_run l prog.
Proof. exact program_equivalence. Qed.

(* Once the end is reached every further call keeps reporting the end. *)
Theorem C13_terminated_sticky :
  forall (I : impl) strong R D, contract I strong R D ->
  forall prog s l, R s l -> doc I s = DOCSET_TERMINATED -> valid_prog l prog -> Forall obs_terminated (run I s prog).
Proof. exact terminated_sticky. Qed.

(* Programs that also contain seek_danger calls: the observations satisfy the relational specification
   (Found iff member, and then doc() = target and the state is `seek target`; otherwise a lower bound in
   (target, first member >= target]; after a miss only further seek_danger calls, targets not decreasing). *)
Theorem C13_seek_danger_programs :
  forall (I : impl) strong R D, contract I strong R D ->
  forall (prog : list call) (s : st I) (l : list N) (dang : bool) (tau : N),
    (if dang then D s tau l else R s l) -> valid_dprog strong l dang tau prog ->
    spec_check l dang prog (run I s prog) = true.
Proof. exact danger_program_sound. Qed.

(* The sequence enumerated by plain advance is the represented list: strictly increasing, below DOCSET_TERMINATED. *)
Theorem C13_sequence_is_sorted_list :
  forall (I : impl) strong R D, contract I strong R D ->
  forall s l, R s l -> advance_walk I (S (length l)) s = l /\ wf_docs l.
Proof. intros I strong R D C s l HR. split; [exact (advance_walk_is_list I strong R D C s l HR)|exact (c_wf _ _ _ _ C _ _ HR)]. Qed.

(* The default methods of the trait (seek, seek_danger, fill_buffer, fill_bitset_block,
   count_including_deleted as loops over doc()/advance()) satisfy the contract, with seek_danger exact
   for every target and never dangling, as soon as doc/advance do. *)
Theorem C13_default_methods :
  forall (S : Type) (sdoc : S -> N) (sadv : S -> S) (ssize : S -> nat) (set_oof : S -> S) (sok : S -> bool) (R : S -> list N -> Prop),
  (forall s l, R s l -> wf_docs l) -> (forall s l, R s l -> sok s = true) ->
  (forall s l, R s l -> (length l <= ssize s)%nat) -> (forall s l, R s l -> sdoc s = ds_doc l) ->
  (forall s l, R s l -> R (sadv s) (ds_advance l)) ->
  contract (mk_default sdoc sadv ssize set_oof sok) true R (fun s _ l => R s l).
Proof. exact @default_contract. Qed.

(* Every specialised seek that meets the contract is observationally the default advance loop. *)
Theorem C13_default_seek :
  forall (I : impl) strong R D, contract I strong R D ->
  forall s l t, R s l -> doc I s <= t -> t <= DOCSET_TERMINATED ->
  R (seek I t s) (ds_seek t l) /\
  R (default_seek (doc I) (advance I) (size I) (fun x => x) t s) (ds_seek t l).
Proof.
  intros I strong R D C s l t HR Hd Ht. split; [exact (c_seek _ _ _ _ C _ _ _ HR Hd Ht)|].
  exact (default_seek_ok (doc I) (advance I) (size I) (fun x => x) R (c_wf _ _ _ _ C) (c_size _ _ _ _ C) (c_doc _ _ _ _ C) (c_advance _ _ _ _ C) t s l Ht HR).
Qed.

(* The leaf (VecDocSet): a sorted vector with the default methods. *)
Theorem C13_leaf : contract vec_impl true R_vec (fun s _ l => R_vec s l).
Proof. exact vec_contract. Qed.

(* Exclude (single or Vec exclusion set, asked through seek_danger): compositional for ANY children meeting the
   contract -- also weak ones such as a buffered union as exclusion set.  Exclude::new represents sem_exclude of
   what the children represent, and Exclude with the trait defaults meets the strong contract. *)
Theorem C13_compositional_exclude :
  forall (A B : impl) sa sb RA DA RB DB, contract A sa RA DA -> contract B sb RB DB ->
  (forall u ex lu les, RA u lu -> Forall2 RB ex les ->
     R_x A B RA RB DB (x_new A B u ex) (sem_exclude lu les)) /\
  contract (exclude_impl A B) true (R_x A B RA RB DB) (fun s _ l => R_x A B RA RB DB s l).
Proof.
  intros A B sa sb RA DA RB DB CA CB. split.
  - intros u ex lu les. exact (exclude_new_repr A B sa sb RA DA RB DB CA CB u ex lu les).
  - exact (exclude_contract A B sa sb RA DA RB DB CA CB).
Qed.

(* Intersection (>= 2 children of ANY implementation meeting the contract, each at any position):
   go_to_first_doc -- the 'outer loop of Intersection::new / intersect_scorers / Intersection::seek -- terminates
   within the fuel (sum of the children's sizes), leaves every child valid and aligned on the first common member,
   and skips no common member. *)
Theorem C13_go_to_first_doc :
  forall (C : impl) strong RC DC, contract C strong RC DC ->
  forall ds ls, Forall2 RC ds ls ->
  exists c, go_to_first_doc C ds = (fst (go_to_first_doc C ds), false) /\ c <= DOCSET_TERMINATED /\
    Forall2 RC (fst (go_to_first_doc C ds)) (map (ds_seek c) ls) /\
    Forall (fun l => ds_doc (ds_seek c l) = c) ls /\
    (forall x, common x ls -> c <= x).
Proof. exact go_to_first_doc_ok. Qed.

(* hence Intersection::new represents sem_inter of the children's lists, doc() is its head, and seek(t >= doc)
   represents ds_seek t of it (aligned valid states AV; the leap-frog advance and the dense count are tied by runs) *)
Theorem C13_compositional_intersection_new_seek :
  forall (C : impl) strong RC DC, contract C strong RC DC ->
  (forall l r o ll lr los dense, RC l ll -> RC r lr -> Forall2 RC o los ->
     exists ls', AV C RC (i_new C l r o dense) ls' /\ sem_inter ls' = sem_inter (ll :: lr :: los)) /\
  (forall s ls, AV C RC s ls -> i_doc C s = ds_doc (sem_inter ls)) /\
  (forall s ls t, AV C RC s ls -> i_doc C s <= t -> t <= DOCSET_TERMINATED ->
     exists ls', AV C RC (i_seek C t s) ls' /\ sem_inter ls' = ds_seek t (sem_inter ls)).
Proof.
  intros C strong RC DC CC. split; [|split].
  - intros l r o ll lr los dense Hl Hr Ho.
    destruct (inter_new_repr C strong RC DC CC l r o ll lr los dense Hl Hr Ho) as [ls' [H1 [H2 _]]]. exists ls'. tauto.
  - exact (inter_doc_repr C strong RC DC CC).
  - intros s ls t HA Hd Ht. destruct (inter_seek_repr C strong RC DC CC s ls t HA Hd Ht) as [ls' [H1 [H2 _]]]. exists ls'. tauto.
Qed.

(* RequiredOptionalScorer: as a document set it is the required child (any child meeting the contract; strength kept) *)
Theorem C13_compositional_reqopt :
  forall (A B : impl) strong RA DA, contract A strong RA DA ->
  (forall a b l, RA a l -> R_ro A B RA (ro_new A B a b) l) /\
  contract (reqopt_impl A B) strong (R_ro A B RA) (D_ro A B DA).
Proof.
  intros A B strong RA DA CA. split.
  - intros a b l. exact (reqopt_new_repr A B RA a b l).
  - exact (reqopt_contract A B strong RA DA CA).
Qed.

(* heterogeneous children (Box<dyn Scorer>): the sum of two implementations meeting the contract meets it,
   so the theorems above apply at any nesting depth *)
Theorem C13_heterogeneous_children :
  forall (A B : impl) sa sb RA DA RB DB, contract A sa RA DA -> contract B sb RB DB ->
  contract (sum_impl A B) (sa && sb) (R_sum A B RA RB) (D_sum A B DA DB).
Proof. exact sum_contract. Qed.

(* consequence: a nested tree (here: Exclude of a required/optional pair of leaves, minus two leaves) run on any
   valid program is the sorted list sem_exclude a [x; y] *)
Theorem C13_nested_example_all_programs :
  forall a b x y prog, wf_docs a -> wf_docs b -> wf_docs x -> wf_docs y ->
  valid_prog (sem_exclude a [x; y]) prog ->
  run (exclude_impl (reqopt_impl vec_impl vec_impl) vec_impl)
      (x_new (reqopt_impl vec_impl vec_impl) vec_impl (ro_new vec_impl vec_impl (vec_of a) (vec_of b)) [vec_of x; vec_of y]) prog
  = spec_run (sem_exclude a [x; y]) prog.
Proof.
  intros a b x y prog Ha Hb Hx Hy HV.
  pose proof (reqopt_contract vec_impl vec_impl true R_vec (fun s _ l => R_vec s l) vec_contract) as CR.
  destruct (C13_compositional_exclude _ _ _ _ _ _ _ _ CR vec_contract) as [Hnew HC].
  apply (program_equivalence _ _ _ _ HC); [|exact HV].
  apply Hnew; [split; [reflexivity|now apply R_vec_of]|].
  constructor; [now apply R_vec_of|constructor; [now apply R_vec_of|constructor]].
Qed.

(* non-vacuity *)
Example C13_leaf_nonvacuous : R_vec (vec_of [3; 7; 4100; 9000]) [3; 7; 4100; 9000].
Proof. apply R_vec_of. apply wf_docsb_spec. vm_compute. reflexivity. Qed.
Example C13_program_nonvacuous :
  valid_prog [3; 7; 4100; 9000] [CSeek 5; CFill; CSeek DOCSET_TERMINATED; CAdvance; CCount] /\
  run vec_impl (vec_of [3; 7; 4100; 9000]) [CSeek 5; CAdvance; CBitset 4100; CCount]
  = spec_run [3; 7; 4100; 9000] [CSeek 5; CAdvance; CBitset 4100; CCount].
Proof. split; [apply valid_progb_spec; vm_compute; reflexivity|vm_compute; reflexivity]. Qed.

(* F131 (fixed in /repo; the pinned flag UNION_DANGER_GUARDS_CURRENT_DOC selects the shape of the model):
   the OLD shape of BufferedUnionScorer::seek_danger (guard = false) violates the seek_danger contract for a
   target below its window: an intersection driving a union-of-unions misses document 10000.  With the shape
   read from the current source the same run agrees with the list semantics. *)
Definition F131_a : list N := [1; 5000; 10000].
Definition F131_cs : list (list N + list (list N)) := [inr [[10000]; [10001]]; inl [1; 19990; 19991; 19992; 19993; 19994]].
Definition F131_sem : list N := sem_inter [F131_a; sem_union [sem_union [[10000]; [10001]]; [1; 19990; 19991; 19992; 19993; 19994]]].
Theorem C13_union_in_union_refuted :
  exists prog, valid_prog F131_sem prog /\ run_inter_luu_g false F131_a F131_cs true false prog <> spec_run F131_sem prog.
Proof. exists [CAdvance]. split; [exact I|vm_compute; discriminate]. Qed.
Example C13_union_in_union_current_source :
  run_inter_luu F131_a F131_cs true false [CAdvance; CAdvance; CAdvance] = spec_run F131_sem [CAdvance; CAdvance; CAdvance].
Proof. vm_compute. reflexivity. Qed.

(* ===================== theorems added after the first build (deeper proofs) ===================== *)
From TV Require Import DocSet.IntersectAdvanceProofs DocSet.UnionBits DocSet.UnionProofs DocSet.UnionWitness DocSet.DisjunctionProofs.
(* ===== appended: Intersection (advance, seek, seek_danger) and BufferedUnionScorer ===== *)

(* Intersection over ANY children meeting the contract meets the contract itself, with the children's strength
   (leap-frog advance with seek_danger restarts, seek = go_to_first_doc, the intersection's own seek_danger;
   sparse count path: R_i requires i_dense = false). *)
Theorem C13_compositional_intersection :
  forall (C : impl) strong RC DC, contract C strong RC DC ->
  (forall l r o ll lr los, RC l ll -> RC r lr -> Forall2 RC o los ->
     R_i C RC DC (i_new C l r o false) (sem_inter (ll :: lr :: los))) /\
  contract (inter_impl C) strong (R_i C RC DC) (D_i C DC).
Proof.
  intros C strong RC DC CC. split.
  - exact (inter_new_R C strong RC DC CC).
  - exact (inter_contract C strong RC DC CC).
Qed.

Theorem C13_intersection_program_equivalence :
  forall (C : impl) strong RC DC, contract C strong RC DC ->
  forall l r o ll lr los prog, RC l ll -> RC r lr -> Forall2 RC o los ->
  valid_prog (sem_inter (ll :: lr :: los)) prog ->
  run (inter_impl C) (i_new C l r o false) prog = spec_run (sem_inter (ll :: lr :: los)) prog.
Proof. exact inter_program_equivalence. Qed.

(* nesting depth 2: an intersection of intersections of leaves, every valid program *)
Theorem C13_intersection_nested_all_programs :
  forall a b c d e f prog,
  wf_docs a -> wf_docs b -> wf_docs c -> wf_docs d -> wf_docs e -> wf_docs f ->
  valid_prog (sem_inter [sem_inter [a; b]; sem_inter [c; d; e]; sem_inter [f; a]]) prog ->
  run (inter_impl (inter_impl vec_impl))
      (i_new (inter_impl vec_impl)
         (i_new vec_impl (vec_of a) (vec_of b) [] false)
         (i_new vec_impl (vec_of c) (vec_of d) [vec_of e] false)
         [i_new vec_impl (vec_of f) (vec_of a) [] false] false) prog
  = spec_run (sem_inter [sem_inter [a; b]; sem_inter [c; d; e]; sem_inter [f; a]]) prog.
Proof. exact inter_nested_all_programs. Qed.

(* BufferedUnionScorer over ANY children meeting the contract: build represents sem_union of the children's lists
   (invariant R_u of DESIGN §9), and doc / advance / seek (inside and outside the horizon) / fill_buffer /
   fill_bitset_block / count_including_deleted keep it. *)
Theorem C13_compositional_union :
  forall (C : impl) strong RC DC, contract C strong RC DC ->
  (forall ds lcs, Forall2 RC ds lcs -> R_u C RC (u_build C ds) (sem_union lcs)) /\
  (forall s l, R_u C RC s l -> wf_docs l /\ u_doc C s = ds_doc l /\ u_ok C s = true /\ (length l <= u_size C s)%nat) /\
  (forall s l, R_u C RC s l -> R_u C RC (u_advance C s) (ds_advance l)) /\
  (forall s l t, R_u C RC s l -> u_doc C s <= t -> t <= DOCSET_TERMINATED -> R_u C RC (u_seek C t s) (ds_seek t l)) /\
  (forall s l, R_u C RC s l ->
     fst (u_fill_buffer C s) = fst (ds_fill_buffer l) /\ R_u C RC (snd (u_fill_buffer C s)) (snd (ds_fill_buffer l))) /\
  (forall s l, R_u C RC s l -> fst (u_count C s) = ds_count l /\ u_ok C (snd (u_count C s)) = true).
Proof.
  intros C strong RC DC CC. split; [exact (union_build_repr C strong RC DC CC)|split; [|split; [|split; [|split]]]].
  - intros s l HR. split; [exact (UnionProofs.H_wf C RC s l HR)|split; [exact (UnionProofs.H_doc C RC s l HR)|split]].
    + exact (UnionProofs.H_ok C strong RC DC CC s l HR).
    + exact (UnionProofs.H_size C strong RC DC CC s l HR).
  - exact (UnionProofs.H_adv C strong RC DC CC).
  - intros s l t HR Hd Ht. exact (UnionProofs.H_seek C strong RC DC CC t s l Ht HR Hd).
  - exact (UnionProofs.H_fill_buffer C strong RC DC CC).
  - exact (UnionProofs.H_count C strong RC DC CC).
Qed.

(* hence, for both shapes of seek_danger, every valid program on a union of ANY children is the list sem_union *)
Theorem C13_union_program_equivalence :
  forall (C : impl) strong RC DC, contract C strong RC DC ->
  forall (g : bool) ds lcs prog, Forall2 RC ds lcs -> valid_prog (sem_union lcs) prog ->
  run (union_impl_g C g) (u_build C ds) prog = spec_run (sem_union lcs) prog.
Proof. exact union_sequence_is_sem_union. Qed.

(* seek_danger in the shape read from the current source (pinned flags UNION_DANGER_GUARDS_CURRENT_DOC and
   UNION_DANGER_RESYNCS_MISSED: guard on the current document; in the hit branch the children that missed are
   re-synchronised with seek(doc()) when they sit at or after the target): over strong children that never
   dangle (leaves, Exclude, every docset with the default seek_danger) the union meets the strong contract, so it
   can be a child of Intersection / Exclude / another level *)
Theorem C13_union_contract :
  forall (C : impl) RC DC, contract C true RC DC -> (forall c tau l, DC c tau l -> RC c l) ->
  contract (union_impl C) true (R_u C RC) (D_u C RC).
Proof. exact union_contract_current_source. Qed.

(* `+a +(x y ...)`: Intersection [leaf; BufferedUnion of leaves] (boxed children), every valid program *)
Theorem C13_intersection_over_union_all_programs :
  forall a xs prog, wf_docs a -> Forall wf_docs xs -> valid_prog (sem_inter [a; sem_union xs]) prog ->
  run (inter_impl (sum_impl vec_impl (union_impl vec_impl)))
      (i_new (sum_impl vec_impl (union_impl vec_impl)) (inl (vec_of a)) (inr (u_build vec_impl (map vec_of xs))) [] false) prog
  = spec_run (sem_inter [a; sem_union xs]) prog.
Proof. exact inter_of_leaf_and_union_all_programs. Qed.

(* Disjunction with minimum_should_match k >= 1 over ANY children meeting the contract: Disjunction::new represents
   sem_disj k (members of at least k lists), and with the trait defaults it meets the strong contract (never dangles). *)
Theorem C13_compositional_disjunction :
  forall (C : impl) strong RC DC, contract C strong RC DC -> forall k, (1 <= k)%nat ->
  (forall ds lcs, Forall2 RC ds lcs -> R_d C RC k (d_new C ds k) (sem_disj k lcs)) /\
  contract (disj_impl C) true (R_d C RC k) (fun s _ l => R_d C RC k s l).
Proof.
  intros C strong RC DC CC k Hk. split.
  - exact (disj_new_repr C strong RC DC CC k Hk).
  - exact (disj_contract C strong RC DC CC k Hk).
Qed.

Theorem C13_disjunction_program_equivalence :
  forall (C : impl) strong RC DC (k : nat), contract C strong RC DC -> (1 <= k)%nat ->
  forall ds lcs prog, Forall2 RC ds lcs -> valid_prog (sem_disj k lcs) prog ->
  run (disj_impl C) (d_new C ds k) prog = spec_run (sem_disj k lcs) prog.
Proof. exact disj_program_equivalence. Qed.

(* F134 (fixed in /repo; witness about the shape BEFORE the fix, `union_impl_g _ true`: guard, no resync; it was replayed
   on the implementation by harness/src/bin/repro_c13_union_over_intersection.rs; UnionWitness.W_current_source shows
   the shape read from the current source agreeing with the meaning on the same input):
   a BufferedUnionScorer with an Intersection child, driven through
   seek_danger by an enclosing Intersection, delivers a document that is in no child of the union.
   `+a +((+x +y) z)`, a=[1;10000;10005] x=[1;9000;10005] y=[1;9000;50000;50001] z=[2;10000]: meaning [1;10000],
   observed [1;10000;10005].  This is why C13_union_contract asks for children that never dangle. *)
Theorem C13_union_over_dangling_child_refuted :
  exists prog, valid_prog W_sem prog /\ run (inter_impl W_OC) W_outer prog <> spec_run W_sem prog.
Proof. exact union_over_intersection_refuted. Qed.

Print Assumptions C13_compositional_intersection.
Print Assumptions C13_intersection_program_equivalence.
Print Assumptions C13_intersection_nested_all_programs.

(* ===== appended (round 3): SimpleUnion and the state read by score() / term_freq of PhraseScorer ===== *)
From TV Require Import DocSet.SimpleUnion DocSet.Phrase.

(* SimpleUnion (RegexPhraseQuery's union) over ANY children meeting the contract: build represents sem_union, and with
   its doc / advance / seek and the trait defaults it meets the strong contract (it never dangles) *)
Theorem C13_compositional_simple_union :
  forall (C : impl) strong RC DC, contract C strong RC DC ->
  (forall ds lcs, Forall2 RC ds lcs -> R_su C RC (su_build C ds) (sem_union lcs)) /\
  contract (simple_union_impl C) true (R_su C RC) (fun s _ l => R_su C RC s l).
Proof.
  intros C strong RC DC CC. split; [exact (su_build_repr C strong RC DC CC)|exact (simple_union_contract C strong RC DC CC)].
Qed.

(* `impl Postings for SimpleUnion` (term_freq, positions) reads exactly the children whose doc() equals the union's doc:
   in every state reached by build / advance / seek(t >= doc) a child CONTAINS the current document iff it is positioned
   on it, so no contribution is missed *)
Theorem C13_simple_union_children_aligned :
  forall (C : impl) strong RC DC, contract C strong RC DC ->
  (forall ds lcs, Forall2 RC ds lcs -> exists lcs', R_suw C RC (su_build C ds) lcs' /\ sem_union lcs' = sem_union lcs) /\
  (forall s lcs, R_suw C RC s lcs -> exists lcs', R_suw C RC (su_advance C s) lcs' /\ sem_union lcs' = ds_advance (sem_union lcs)) /\
  (forall s lcs t, R_suw C RC s lcs -> su_doc C s <= t -> t <= DOCSET_TERMINATED ->
     exists lcs', R_suw C RC (su_seek C t s) lcs' /\ sem_union lcs' = ds_seek t (sem_union lcs)) /\
  (forall s lcs, R_suw C RC s lcs -> su_doc C s < DOCSET_TERMINATED ->
     Forall2 (fun c lc => In (su_doc C s) lc <-> doc C c = su_doc C s) (su_docsets C s) lcs).
Proof.
  intros C strong RC DC CC. split; [|split; [|split]].
  - exact (su_build_aligned C strong RC DC CC).
  - exact (su_advance_aligned C strong RC DC CC).
  - exact (su_seek_aligned C strong RC DC CC).
  - exact (su_aligned C strong RC DC CC).
Qed.

(* PhraseScorer = the terms' intersection (ANY implementation meeting the contract) filtered by phrase_match, where the
   positions machinery is the oracle count_of: the constructor represents the matching documents, and advance / seek
   (with the trait defaults for the rest) meet the contract *)
Theorem C13_compositional_phrase :
  forall (I : impl) strong RI DI, contract I strong RI DI -> forall (count_of : N -> N) (scoring : bool),
  (forall i li, RI i li -> R_p I RI count_of scoring (p_new I count_of scoring i) (filter (matches count_of) li)) /\
  contract (mk_seek_impl (p_doc I) (p_advance I count_of scoring) (p_seek I count_of scoring) (p_size I) (p_set_oof I) (p_ok I))
           true (R_p I RI count_of scoring) (fun s _ l => R_p I RI count_of scoring s l).
Proof.
  intros I strong RI DI CI count_of scoring. split.
  - exact (phrase_new_repr I strong RI DI CI count_of scoring).
  - exact (phrase_contract_default_danger I strong RI DI CI count_of scoring).
Qed.

(* PhraseScorer::seek_danger from a valid state (the route of an enclosing Intersection): Found iff member, and then the
   state is THE valid state on the target; otherwise a lower bound in (target, next member] *)
Theorem C13_phrase_seek_danger :
  forall (I : impl) strong RI DI, contract I strong RI DI -> forall (count_of : N -> N) (scoring : bool) s l t,
  R_p I RI count_of scoring s l -> p_doc I s <= t -> t < DOCSET_TERMINATED ->
  match p_seek_danger I count_of scoring t s with
  | (SdFound, s') => In t l /\ R_p I RI count_of scoring s' (ds_seek t l)
  | (SdLower b, s') => ~ In t l /\ t < b /\ b <= ds_doc (ds_seek t l)
  end.
Proof. intros I strong RI DI CI count_of scoring. exact (phrase_seek_danger_ok I strong RI DI CI count_of scoring). Qed.

(* the score read at a document does not depend on how it was reached: in every valid state (reached by the constructor,
   advance, seek or a seek_danger hit) the phrase count read by score() / term_freq is the phrase count of the current
   document *)
Theorem C13_phrase_count_path_independent :
  forall (I : impl) (RI : st I -> list N -> Prop) (count_of : N -> N) s s' l, l <> [] ->
  R_p I RI count_of true s l -> R_p I RI count_of true s' l ->
  p_term_freq I s = p_term_freq I s' /\ p_term_freq I s = count_of (ds_doc l).
Proof. intros I RI count_of s s' l Hl. exact (phrase_count_path_independent I RI count_of true s s' l eq_refl Hl). Qed.

(* non-vacuity: a SimpleUnion of leaves and a scored phrase scorer over an intersection of leaves, on concrete programs *)
Example C13_simple_union_nonvacuous :
  run (simple_union_impl vec_impl) (su_build vec_impl [vec_of [3; 9; 4200]; vec_of []; vec_of [1; 9; 5000]]) [CAdvance; CSeek 9; CAdvance; CFill]
  = spec_run (sem_union [[3; 9; 4200]; []; [1; 9; 5000]]) [CAdvance; CSeek 9; CAdvance; CFill].
Proof. vm_compute. reflexivity. Qed.
Example C13_phrase_nonvacuous :
  let cnt := fun d => if N.eqb d 7 then 0 else d mod 3 in
  let s0 := p_new vec_impl cnt true (vec_of [2; 3; 4; 7; 8; 11]) in
  p_doc vec_impl s0 = 2 /\ p_term_freq vec_impl s0 = 2 /\
  (let '(r, s1) := p_seek_danger vec_impl cnt true 8 s0 in r = SdFound /\ p_term_freq vec_impl s1 = 2) /\
  p_term_freq vec_impl (p_seek vec_impl cnt true 8 s0) = 2 /\
  fst (p_seek_danger vec_impl cnt true 7 s0) = SdLower 8.
Proof. vm_compute. repeat split; reflexivity. Qed.

Print Assumptions C13_compositional_simple_union.
Print Assumptions C13_simple_union_children_aligned.
Print Assumptions C13_compositional_phrase.
Print Assumptions C13_phrase_seek_danger.
Print Assumptions C13_phrase_count_path_independent.

(* ===== appended (round 4): seek_danger with a target below the child's document ===== *)
From TV Require Import DocSet.Probe.

(* the trait states no `target >= doc()` precondition for seek_danger, and two real callers do ask below the child's
   document (probe wrapper counting such calls, on the models of the callers): Exclude::contains ... *)
Theorem C13_exclude_asks_below_doc :
  below_calls (x_exc PL PL (x_new PL PL (pleaf [5; 9]) [pleaf [7]])) = 1%nat.
Proof. exact exclude_asks_below_doc. Qed.
(* ... and the out-of-horizon loop of BufferedUnionScorer::seek_danger (`+a +(x y)`) *)
Theorem C13_union_asks_children_below_doc :
  piu_below piu_state = 0%nat /\ (1 <= piu_below (advance (inter_impl PIU) piu_state))%nat /\
  doc (inter_impl PIU) (advance (inter_impl PIU) piu_state) = 9000.
Proof. exact union_asks_children_below_doc. Qed.

(* so every implementation has to tolerate it (clause c_danger_below of the contract); PhraseScorer's code (without its
   debug_assert) does: never Found, the valid state is kept *)
Theorem C13_phrase_seek_danger_below :
  forall (I : impl) strong RI DI, contract I strong RI DI -> forall (count_of : N -> N) (scoring : bool) s l t,
  R_p I RI count_of scoring s l -> t < p_doc I s ->
  exists b, fst (p_seek_danger I count_of scoring t s) = SdLower b /\ R_p I RI count_of scoring (snd (p_seek_danger I count_of scoring t s)) l.
Proof. intros I strong RI DI CI count_of scoring. exact (phrase_seek_danger_below I strong RI DI CI count_of scoring). Qed.

Print Assumptions C13_phrase_seek_danger_below.
