(* C10 -- Garbage collection never removes a needed file and leaves no orphan. *)
From TV Require Import Base.Prelude Storage.Crash Storage.CrashProofs Storage.GC Storage.TempStore.
Local Open Scope N_scope.

(* A collection deletes only managed paths that are not living: a living file, and any file the
   directory does not manage (lock files, user files), survives every collection. *)
Theorem C10_gc_safe : forall living s f,
  In f (g_files s) -> (mem f living = true \/ mem f (g_managed s) = false) -> In f (g_files (gc living s)).
Proof. exact gc_safe. Qed.

(* Register-then-create keeps every file managed, through any history of creations and collections. *)
Theorem C10_files_always_managed : forall ops s, all_managed s -> all_managed (grun s ops).
Proof. exact all_managed_run. Qed.

(* No orphan at quiescence (no crash): after ANY history of file creations and collections, one
   collection leaves only living files in the directory, and only living entries in the managed list. *)
Theorem C10_no_orphan_at_quiescence : forall ops living f,
  In f (g_files (gc living (grun {| g_files := []; g_managed := [] |} ops))) -> mem f living = true.
Proof. exact no_orphan_after_gc. Qed.
Theorem C10_managed_list_has_no_dead_entry : forall living s f,
  mem f (g_managed (gc living s)) = true -> mem f living = true.
Proof. exact managed_after_gc. Qed.

(* Needed by the latest (or any still recoverable) commit: on every storage trace accepted by the
   discipline (D3: a Delete never targets a file that a recoverable meta generation references), at
   every point and for every crash outcome, all files of the recovered generation are present. *)
Theorem C10_gc_never_removes_committed_files : forall t, monitor t = true ->
  forall k img, crash (run (firstn k t)) img ->
  forall g, ns_meta img = Some g -> openable (run (firstn k t)) img g.
Proof. exact (fun t Hm k img Hc g Hg => proj1 (proj1 (monitor_sound t Hm k img Hc) g Hg)). Qed.

(* F5 (inherent to not syncing after each registration): after a crash a file can exist whose
   registration in .managed.json was lost; it is then an orphan no collection will ever remove. *)
Theorem C10_crash_orphan_refuted :
  let img_files := [10; 11] in let img_managed := [10] in
  f5_class img_files img_managed = true /\
  In 11 (g_files (gc [10] {| g_files := img_files; g_managed := img_managed |})).
Proof. vm_compute. split; [reflexivity|]. right. left. reflexivity. Qed.

Example nonvacuous_gc :
  let s := grun {| g_files := []; g_managed := [] |} [GCreate 1; GCreate 2; GCreate 3; GCollect [1; 3]; GCreate 4] in
  g_files (gc [3; 4] s) = [4; 3] /\ quiescent_ok [3; 4] (gc [3; 4] s) = true.
Proof. vm_compute. split; reflexivity. Qed.

(* the temporary doc store of a sorted index: once the worker has untracked it, no later delete meta (any number of commits)
   lists it as a living file again, so the next collection removes it (F102, fixed in /repo: with_delete_meta re-created the
   flag as true; WITH_DELETE_META_KEEPS_TEMP_FLAG regenerated from the source) *)
Theorem C10_temp_store_stays_untracked : forall ops1 ops2, lists_temp_store (ts_run (ops1 ++ TUntrack :: ops2)) = false.
Proof. exact temp_store_stays_untracked. Qed.
Theorem C10_recreated_flag_protects_again : lists_temp_store (ts_run_gen false [TUntrack; TWithDelete]) = true.
Proof. exact recreated_flag_protects_again. Qed.

(* ---- on every history of the writer protocol (Storage/Proto.v: the model behind C01_all_histories) ---- *)
From TV Require Import Storage.Proto Storage.ProtoProofs.
(* At every point any history reaches -- commits, rollbacks, merges started and ended, collections (implicit after each
   commit and merge, or explicit), restarts; worker and merge threads scheduled anywhere against the updater thread --
   (a) every file of the published commit, of every committed and of every registered uncommitted segment is in the
       directory with complete data;
   (b) every file a running job (segment under construction, merge) has created so far is in the directory and every file
       it has terminated is complete: no collection removes a file of a segment that is being written or merged. *)
Theorem C10_needed_files_kept_on_every_history : forall ops sc,
  let st := run_ops_st cfg_code st0 ops sc in
  let c := run (proto_trace ops sc) in
  (forall f, In f (segs_files (meta_segs st) ++ segs_files (committed st) ++ segs_files (uncommitted st)) -> okf c f) /\
  (forall j, In j (jobs st) -> forall f, In f (jfiles j) ->
     (~ In (ECreate f) (jtodo j) -> present c f) /\ (~ In (ETerminate f) (jtodo j) -> In f (term c))).
Proof. exact proto_needed_files_kept. Qed.

Print Assumptions C10_gc_safe.
Print Assumptions C10_needed_files_kept_on_every_history.
Print Assumptions C10_no_orphan_at_quiescence.
Print Assumptions C10_gc_never_removes_committed_files.
