(* C19 -- Tokens and snippets always point inside the text, on character boundaries.
   Only statements, each closed by `exact <lemma>`, witnesses of the known findings, and assumptions.
   A text is the list of its code points; `blen` is its length in bytes, `points_at text from to b`
   says that the bytes from..to of the text are exactly the code points b (so from <= to <= |text|,
   both on character boundaries).  Unicode tables, case mapping, ASCII folding, stemmers, the
   Aho-Corasick dictionary and the regex engine are universally quantified oracles. *)
From TV Require Import Base.Prelude Generated.Constants.
From TV Require Import Text.Utf8 Text.Tokenizer Text.NGram Text.Filters Text.Snippet Text.Analyzer Text.Check.
Local Open Scope N_scope.

(* ---- the offset model is Rust's: boundaries are str::is_char_boundary on the UTF-8 bytes, and a
        code-point slice is the byte slice ---- *)
Theorem C19_boundary_is_char_boundary : forall t, valid_text t = true ->
  forall o, boundaryb t o = is_char_boundary (encode t) o.
Proof. exact boundaryb_is_char_boundary. Qed.

Theorem C19_slice_is_byte_slice : forall text from to b, points_at text from to b ->
  from <= to /\ to <= blen text /\ boundary text from /\ boundary text to /\
  firstn (N.to_nat (to - from)) (skipn (N.to_nat from) (encode text)) = encode b.
Proof. exact slice_is_byte_slice. Qed.

(* ---- tokens: every built-in tokenizer, every filter chain, every text ---- *)
Theorem C19_token_offsets :
  forall (alnum : cp -> bool) (lower : cp -> list cp) (fold : cp -> option (list cp)) (stem : N -> list cp -> list cp)
         (dict_find : N -> list cp -> list (N * N)) (re_find : list cp -> option (N * N)),
  (forall s a b, re_find s = Some (a, b) -> exists m, points_at s a b m) ->
  forall (T : tokenizer) (fs : list tfilter) (text : list cp) (out : list token),
  blen text <= USIZE_MAX ->
  analyze alnum lower fold stem dict_find re_find T fs text = Some out ->
  Forall (span_ok text) out /\                   (* from <= to <= |text|, both on boundaries *)
  pos_sorted out /\                              (* positions never decrease *)
  from_sorted out /\
  (is_facet T = false -> forallb drop_only fs = true -> Forall (tok_ok text) out).   (* not normalised => text = slice *)
Proof. exact analyze_ok. Qed.

(* no tokenizer panics; no filter chain without the compound splitter panics *)
Theorem C19_analysis_never_panics :
  forall alnum lower fold stem dict_find re_find,
  (forall s a b, re_find s = Some (a, b) -> exists m, points_at s a b m) ->
  forall T fs text, forallb no_split fs = true ->
  analyze alnum lower fold stem dict_find re_find T fs text <> None.
Proof. exact analyze_total. Qed.

(* scanning tokenizers: non-empty runs of inside characters, disjoint, each carrying its slice *)
Theorem C19_scan_tokenizers : forall inside text,
  Forall (tok_ok text) (scan_tokenizer inside text) /\
  disjoint_from 0 (scan_tokenizer inside text) /\
  (blen text <= USIZE_MAX -> pos_sorted (scan_tokenizer inside text)) /\
  Forall (fun tk => t_text tk <> [] /\ forallb inside (t_text tk) = true) (scan_tokenizer inside text).
Proof. exact scan_tokenizer_ok. Qed.

(* the regex tokenizer: successive non-empty leftmost matches, each searched from the end of the
   previous one; the stream ends at the first failed search or the first empty match *)
Theorem C19_regex_tokens_are_matches :
  forall (re_find : list cp -> option (N * N)),
  (forall s a b, re_find s = Some (a, b) -> exists m, points_at s a b m) ->
  forall text ts, regex_tokenizer re_find text = Some ts -> regex_chain re_find [] text ts.
Proof. exact regex_tokenizer_chain. Qed.

(* n-grams: exactly the code-point n-grams with min <= length <= max, each with its byte offsets *)
Theorem C19_ngram : forall min max text tk, (0 < min)%nat ->
  In tk (ngram_spec min max false text) <->
  exists a b c, text = a ++ b ++ c /\ (min <= length b <= max)%nat /\ tk = mkTok (blen a) (blen a + blen b) 0 b.
Proof. exact ngram_spec_complete. Qed.

Theorem C19_ngram_offsets : forall min max prefix_only text,
  Forall (tok_ok text) (ngram_spec min max prefix_only text) /\
  Forall (fun tk => t_pos tk = 0) (ngram_spec min max prefix_only text) /\
  pos_sorted (ngram_spec min max prefix_only text) /\ from_sorted (ngram_spec min max prefix_only text).
Proof. exact ngram_spec_ok. Qed.

(* CodepointFrontiers: the width looked up from the first byte in the regenerated table is the
   UTF-8 width of the code point *)
Theorem C19_ngram_width_table : forall c, valid_cp c = true -> lead_width c = len8 c.
Proof. exact lead_width_is_len8. Qed.

(* filters rewrite text, never offsets or positions *)
Theorem C19_filters_preserve_offsets :
  forall lower fold stem dict_find text fs ts out,
  apply_chain lower fold stem dict_find fs ts = Some out ->
  Forall (span_ok text) ts ->
  Forall (span_ok text) out /\ (pos_sorted ts -> pos_sorted out) /\ (from_sorted ts -> from_sorted out) /\
  (forall tk', In tk' out -> exists tk, In tk ts /\ same_span tk tk').
Proof. exact chain_preserves. Qed.

Theorem C19_unnormalised_token_is_slice :
  forall lower fold stem dict_find text fs ts out tk',
  apply_chain lower fold stem dict_find fs ts = Some out -> Forall (tok_ok text) ts -> In tk' out ->
  (exists tk, In tk ts /\ same_span tk tk' /\ t_text tk' = t_text tk) -> tok_ok text tk'.
Proof. exact unchanged_token_keeps_text. Qed.

(* ---- snippets ---- *)
(* collapse_overlapped_ranges: sorted, disjoint, covering the same positions, end points preserved *)
Theorem C19_collapse : forall rs, Forall wf_range rs ->
  ranges_disjoint 0 (collapse rs) /\
  (forall p, covered p (collapse rs) <-> covered p rs) /\
  Forall (fun x => In (fst x) (map fst rs) /\ In (snd x) (map snd rs)) (collapse rs).
Proof. exact collapse_spec. Qed.

(* SnippetGenerator::snippet never panics (every analyzer without the splitter, every text, terms,
   max_num_chars, score arithmetic); the fragment is a slice of the text on boundaries; each raw
   highlight is the span of a token whose lower-cased text is a query term; the fragment is at most
   max_num_chars bytes (hence characters) long UNLESS it is a single token longer than that (F9);
   the highlights lie inside the fragment. *)
Theorem C19_snippet_fragment :
  forall alnum lower fold stem dict_find re_find,
  (forall s a b, re_find s = Some (a, b) -> exists m, points_at s a b m) ->
  forall (score : Type) szero sadd spos scmp lower_str T fs terms max text,
  forallb no_split fs = true -> blen text <= USIZE_MAX ->
  exists ts sn, analyze alnum lower fold stem dict_find re_find T fs text = Some ts /\
    generate alnum lower fold stem dict_find re_find score szero sadd spos scmp lower_str T fs terms max text = Some sn /\
    snippet_post score lower_str text ts terms max sn.
Proof. exact generate_ok. Qed.

(* the length clause spelled out on a token stream: not F9-class => at most max_num_chars characters *)
Theorem C19_fragment_length :
  forall (score : Type) szero sadd spos scmp lower_str text ts terms max sn,
  Forall (span_ok text) ts -> from_sorted ts ->
  snippet_of score szero sadd spos scmp lower_str terms max text ts = Some sn ->
  f9_class text ts (sn_fragment sn) max = false ->
  N.of_nat (length (sn_fragment sn)) <= max.
Proof. exact fragment_length_unless_f9. Qed.

(* every analyzer (overlapping tokenizers included): the collapsed highlights are sorted, disjoint,
   inside the fragment and on its boundaries, cover exactly what the raw ones cover, and to_html
   does not panic *)
Theorem C19_snippet_ranges :
  forall alnum lower fold stem dict_find re_find,
  (forall s a b, re_find s = Some (a, b) -> exists m, points_at s a b m) ->
  forall (score : Type) szero sadd spos scmp lower_str T fs terms max text prefix postfix sn,
  forallb no_split fs = true -> blen text <= USIZE_MAX ->
  generate alnum lower fold stem dict_find re_find score szero sadd spos scmp lower_str T fs terms max text = Some sn ->
  ranges_disjoint 0 (collapse (sn_hl sn)) /\
  Forall (fun r => boundary (sn_fragment sn) (fst r) /\ boundary (sn_fragment sn) (snd r)) (collapse (sn_hl sn)) /\
  (forall p, covered p (collapse (sn_hl sn)) <-> covered p (sn_hl sn)) /\
  exists h, to_html prefix postfix sn = Some h.
Proof. exact generate_html_ok. Qed.

(* non-overlapping analyzers: the raw highlighted() ranges are sorted and disjoint as well *)
Theorem C19_highlighted_sorted_disjoint :
  forall alnum lower fold stem dict_find re_find,
  (forall s a b, re_find s = Some (a, b) -> exists m, points_at s a b m) ->
  forall (score : Type) szero sadd spos scmp lower_str T fs terms max text sn,
  non_overlapping T = true -> forallb no_split fs = true -> blen text <= USIZE_MAX ->
  generate alnum lower fold stem dict_find re_find score szero sadd spos scmp lower_str T fs terms max text = Some sn ->
  ranges_disjoint 0 (sn_hl sn).
Proof. exact generate_raw_disjoint. Qed.


(* raw highlighted() ranges are disjoint unless the analyzer emits overlapping tokens (F10) *)
Theorem C19_highlighted_disjoint :
  forall (score : Type) szero sadd spos scmp lower_str text ts terms max sn,
  f10_class ts = false ->
  snippet_of score szero sadd spos scmp lower_str terms max text ts = Some sn ->
  ranges_disjoint 0 (sn_hl sn).
Proof. exact highlighted_disjoint_unless_f10. Qed.

(* to_html = the fragment cut into (plain, highlighted) pieces, every piece escaped, tags only
   around the highlighted pieces; with the default tags, reading it back returns the fragment *)
Theorem C19_html : forall prefix postfix sn h, to_html prefix postfix sn = Some h ->
  exists pieces tail, sn_fragment sn = plain pieces tail /\ h = render prefix postfix pieces tail /\
                      length pieces = length (collapse (sn_hl sn)).
Proof. exact to_html_spec. Qed.

Theorem C19_html_roundtrip : forall sn h,
  to_html SNIPPET_DEFAULT_PREFIX SNIPPET_DEFAULT_POSTFIX sn = Some h -> unhtml h = sn_fragment sn.
Proof. exact to_html_roundtrip. Qed.

Theorem C19_escape_removes_markup : forall t, forallb (fun c => negb (markup c)) (escape t) = true.
Proof. exact escape_no_markup. Qed.

(* ---- witnesses of the known findings, on the faithful model (replayed on the implementation by
        harness/src/bin/c19.rs, corpus section) ---- *)
Definition w_lower (c : cp) : list cp := [c].
Definition w_fold (c : cp) : option (list cp) := None.
Definition w_id (t : list cp) : list cp := t.
Definition w_dict (d : N) (t : list cp) : list (N * N) := [].
Definition w_stem (l : N) (t : list cp) : list cp := t.
Definition w_re (t : list cp) : option (N * N) := None.
Definition w_gen := n_generate is_ascii_alnum w_lower w_fold w_stem w_dict w_re w_id.
(* the witness is the model's own output, so that vm_compute closes the whole statement *)
Definition w_get (o : option snippet) : snippet := match o with Some s => s | None => mkSnip [] [] end.

(* F9: "zz abcdefgh yy", term "abcdefgh", max_num_chars = 5 -> a fragment of 8 characters *)
Definition f9_text : list cp := [122;122;32;97;98;99;100;101;102;103;104;32;121;121].
Definition f9_terms : list (list cp * N) := [([97;98;99;100;101;102;103;104], 1)].
Theorem C19_fragment_length_refuted :
  exists sn, w_gen TSimple [] f9_terms 5 f9_text = Some sn /\ 5 < N.of_nat (length (sn_fragment sn)) /\
             f9_class f9_text (simple_tokenizer is_ascii_alnum f9_text) (sn_fragment sn) 5 = true.
Proof. exists (w_get (w_gen TSimple [] f9_terms 5 f9_text)). vm_compute. repeat split; reflexivity. Qed.

(* F10: n-gram 2..3 on "abcabc": highlighted() = [0..2, 0..3, 1..3, ...] is not disjoint *)
Definition f10_text : list cp := [97;98;99;97;98;99].
Definition f10_terms : list (list cp * N) := [([97;98], 1); ([97;98;99], 1); ([98;99], 1)].
Theorem C19_highlighted_disjoint_refuted :
  exists sn, w_gen (TNgram 2 3 false) [] f10_terms 100 f10_text = Some sn /\
             ranges_disjointb 0 (sn_hl sn) = false /\ ranges_spec (sn_fragment sn) (collapse (sn_hl sn)) = true /\
             f10_class (ngram_spec 2 3 false f10_text) = true.
Proof. exists (w_get (w_gen (TNgram 2 3 false) [] f10_terms 100 f10_text)). vm_compute. repeat split; reflexivity. Qed.

(* F21 (fixed in /repo, commit 4e83b48fb): n-gram 1..3 on "abcd", term "abc", max_num_chars = 2 used to give
   the fragment "ab" with the highlight 0..3 and a panic in to_html.  Regression witness on the model that
   follows the repaired source (pin SNIPPET_STOP_IS_MAX): the fragment now reaches the furthest token end. *)
Definition f21_text : list cp := [97;98;99;100].
Definition f21_terms : list (list cp * N) := [([97;98;99], 1)].
Example f21_regression :
  exists sn, w_gen (TNgram 1 3 false) [] f21_terms 2 f21_text = Some sn /\
             sn_fragment sn = [97;98;99] /\ sn_hl sn = [(0, 3)] /\
             to_html SNIPPET_DEFAULT_PREFIX SNIPPET_DEFAULT_POSTFIX sn
             = Some (SNIPPET_DEFAULT_PREFIX ++ [97;98;99] ++ SNIPPET_DEFAULT_POSTFIX).
Proof. exists (w_get (w_gen (TNgram 1 3 false) [] f21_terms 2 f21_text)). vm_compute. repeat split; reflexivity. Qed.

(* F22: the facet tokenizer leaves offsets at 0..0 while the token text is a facet path *)
Definition f22_text : list cp := [97;0;98].
Theorem C19_facet_slice_refuted :
  tokens_spec f22_text (facet_tokenizer f22_text) = true /\
  tokens_text_spec f22_text (facet_tokenizer f22_text) = false /\
  f22_class f22_text (facet_tokenizer f22_text) = true.
Proof. vm_compute. repeat split; reflexivity. Qed.

(* ---- non-vacuity ---- *)
Example simple_tokens : simple_tokenizer is_ascii_alnum [72;105;44;32;195;32;120;49] =
  [mkTok 0 2 0 [72;105]; mkTok 7 9 1 [120;49]].
Proof. vm_compute. reflexivity. Qed.

Example ngram_model_agrees :
  ngram_model 2 3 false [104;233;108;108;111] = Done (ngram_spec 2 3 false [104;233;108;108;111]).
Proof. vm_compute. reflexivity. Qed.

Example snippet_and_html :
  exists sn, w_gen TSimple [FLower] [([97], 1)] 20 [60;97;62;32;38;32;97] = Some sn /\
             to_html SNIPPET_DEFAULT_PREFIX SNIPPET_DEFAULT_POSTFIX sn
             = Some ([38;108;116;59] ++ SNIPPET_DEFAULT_PREFIX ++ [97] ++ SNIPPET_DEFAULT_POSTFIX ++ [38;103;116;59;32;38;97;109;112;59;32]
                     ++ SNIPPET_DEFAULT_PREFIX ++ [97] ++ SNIPPET_DEFAULT_POSTFIX).
Proof. exists (w_get (w_gen TSimple [FLower] [([97], 1)] 20 [60;97;62;32;38;32;97])). vm_compute. repeat split; reflexivity. Qed.

Print Assumptions C19_boundary_is_char_boundary.
Print Assumptions C19_token_offsets.
Print Assumptions C19_ngram.
Print Assumptions C19_filters_preserve_offsets.
Print Assumptions C19_collapse.
Print Assumptions C19_snippet_fragment.
Print Assumptions C19_fragment_length.
Print Assumptions C19_snippet_ranges.
Print Assumptions C19_html_roundtrip.
Print Assumptions C19_highlighted_sorted_disjoint.
