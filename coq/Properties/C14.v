(* C14 -- Aggregations equal a direct computation and do not depend on partitioning.
   Only statements, each closed by `exact <lemma>`, non-vacuity examples, the F141 witness, and
   the assumptions.  `hist_pos` (the f64 computation floor((v - offset) / interval) of the code) is
   universally quantified: no theorem depends on how bucket positions are computed. *)
From TV Require Import Base.Prelude Agg.Intermediate Agg.Metrics Agg.Buckets Agg.Tree Agg.TreeProofs Agg.Ext Generated.Constants.
From Coq Require Import QArith Permutation.
Local Close Scope Q_scope.

(* ---- merge_fruits is a commutative monoid on intermediate trees of ANY nesting depth, up to the
   canonical form of bucket maps (strictly sorted key lists = finite maps); canonical form is
   what the collectors produce and what merging preserves ---- *)
Theorem C14_merge_monoid :
  (forall x y z, iwf x -> iwf y -> iwf z -> imerge (imerge x y) z = imerge x (imerge y z)) /\
  (forall x y, iwf x -> iwf y -> imerge x y = imerge y x) /\
  (forall x, imerge iempty x = x /\ imerge x iempty = x) /\
  (forall x y, iwf x -> iwf y -> iwf (imerge x y)) /\
  iwf iempty /\
  (forall hist_pos rs docs, iwf (collect_seg hist_pos rs docs)).
Proof.
  exact (conj imerge_assoc (conj imerge_comm (conj (fun x => conj (imerge_empty_l x) (imerge_empty_r x))
        (conj iwf_imerge (conj iwf_iempty iwf_collect_seg))))).
Qed.

(* a segment holding the documents a ++ b yields the merge of the results of two segments *)
Theorem C14_collect_is_homomorphism : forall hist_pos rs a b,
  collect_seg hist_pos rs (a ++ b) = imerge (collect_seg hist_pos rs a) (collect_seg hist_pos rs b).
Proof. exact collect_seg_app. Qed.

(* any partition of the documents into parts, any permutation of the parts' intermediate results,
   any re-grouping (fold along any binary tree shape, empty results allowed anywhere):
   the merged intermediate result -- hence the final result -- is the same *)
Theorem C14_partition_independent : forall hist_pos rs parts (s1 s2 : @shape itree),
  Permutation (leaves s1) (map (collect_seg hist_pos rs) parts) ->
  Permutation (leaves s2) (map (collect_seg hist_pos rs) parts) ->
  ieval s1 = ieval s2 /\ finalize hist_pos rs (ieval s1) = finalize hist_pos rs (ieval s2).
Proof.
  intros hist_pos rs parts s1 s2 H1 H2.
  assert (E : ieval s1 = ieval s2) by (rewrite (ieval_fruits hist_pos rs parts s1 H1), (ieval_fruits hist_pos rs parts s2 H2); reflexivity).
  split; [exact E|rewrite E; reflexivity].
Qed.

(* ... and it equals the direct evaluation over all the documents: exact for bucket keys, doc
   counts, count / sum / min / max over Z and avg over Q, for every request tree.
   (terms: the model of a segment keeps all its terms, i.e. segment_size >= distinct terms) *)
Theorem C14_equals_direct : forall hist_pos rs parts (s : @shape itree),
  Permutation (leaves s) (map (collect_seg hist_pos rs) parts) ->
  fin_top hist_pos rs (ieval s) = direct_top hist_pos rs (concat parts) /\
  finalize hist_pos rs (ieval s) = direct_final hist_pos rs (concat parts).
Proof.
  intros hist_pos rs parts s H. rewrite (ieval_fruits hist_pos rs parts s H).
  unfold finalize, direct_final. rewrite fin_top_direct. split; reflexivity.
Qed.

(* the concrete order of collector.rs::merge_fruits (pop the last fruit, merge the others into it) *)
Theorem C14_collector_equals_direct : forall hist_pos rs parts,
  finalize hist_pos rs (merge_fruits (map (collect_seg hist_pos rs) parts)) = direct_final hist_pos rs (concat parts).
Proof.
  intros hist_pos rs parts. rewrite merge_fruits_ifold by apply Forall_iwf_fruits.
  change (ifold (map (collect_seg hist_pos rs) parts)) with (fold_list imerge iempty (map (collect_seg hist_pos rs) parts)).
  fold (ifold (map (collect_seg hist_pos rs) parts)). rewrite collect_seg_concat.
  unfold finalize, direct_final. rewrite fin_top_direct. reflexivity.
Qed.

(* the bucket-limit guard: on every merge path the outcome is the error or the COMPLETE direct result,
   never a shortened one, and which of the two does not depend on the partition *)
Theorem C14_limits_error_not_truncate : forall hist_pos limit rs parts (s : @shape itree),
  Permutation (leaves s) (map (collect_seg hist_pos rs) parts) ->
  finalize_limited hist_pos limit rs (ieval s) =
  if N.ltb limit (bucket_count_top rs (direct_final hist_pos rs (concat parts)))
  then FErrBucketLimit else FOk (direct_final hist_pos rs (concat parts)).
Proof.
  intros hist_pos limit rs parts s H. unfold finalize_limited, limited.
  rewrite (proj2 (C14_equals_direct hist_pos rs parts s H)). reflexivity.
Qed.

(* the direct evaluation does not depend on the order in which the documents are listed *)
Theorem C14_direct_order_independent : forall hist_pos rs docs docs',
  Permutation docs docs' -> direct_final hist_pos rs docs = direct_final hist_pos rs docs'.
Proof. intros hist_pos rs docs docs' H. unfold direct_final. rewrite (direct_top_perm hist_pos rs docs docs' H). reflexivity. Qed.

(* per aggregation and for every nesting: finalising what the collectors accumulated over a
   document list is the textbook evaluation on that list *)
Theorem C14_finalize_collect_is_direct : forall hist_pos r docs,
  fin hist_pos r (coll hist_pos r docs) = direct hist_pos r docs.
Proof. exact fin_coll_direct. Qed.

(* the incremental accumulator (IntermediateStats::collect) computes count / sum / min / max *)
Theorem C14_stats_accumulator_exact : forall vs, acc_of_vals vs = acc_spec vs.
Proof. exact acc_of_vals_spec. Qed.
Theorem C14_min_is_least : forall vs m, list_min vs = Some m <-> In m vs /\ forall v, In v vs -> (m <= v)%Z.
Proof. exact list_min_spec. Qed.
Theorem C14_max_is_greatest : forall vs m, list_max vs = Some m <-> In m vs /\ forall v, In v vs -> (v <= m)%Z.
Proof. exact list_max_spec. Qed.

(* get_bucket_pos of the range aggregation is the textbook [from, to) bucket with open ends *)
Theorem C14_range_bucket_is_interval : forall cuts v, zsorted cuts ->
  exists i, range_pos cuts v = Z.of_nat i /\ (i <= length cuts)%nat /\ in_range_bucket cuts i v.
Proof. exact range_pos_spec. Qed.

(* the exact histogram position used when the cases are evaluated is the textbook bucket *)
Theorem C14_exact_histogram_bucket : forall hp v, (0 < h_interval hp)%Q ->
  (key_of_pos hp (floor_pos hp v) <= v)%Q /\ (v < key_of_pos hp (floor_pos hp v + 1))%Q.
Proof. exact floor_pos_spec. Qed.

(* ---- non-vacuity: a nested request, a corpus with missing / multi-valued fields, a partition into
   three parts merged in a permuted, regrouped order (with an empty result in the middle) ---- *)
Definition ex_d1 : doc := [(0%N, [KZ 3; KZ 7]); (2%N, [KS [97%N]])].
Definition ex_d2 : doc := [(0%N, [KZ (-2)]); (2%N, [KS [98%N]; KS [97%N]])].
Definition ex_d3 : doc := [(2%N, [KS [98%N]])].
Definition ex_d4 : doc := [(0%N, [KZ 10]); (2%N, [KS [99%N]])].
Definition ex_rs : list req :=
  [RMetric MStats 0%N None;
   RBucket (BHisto 0%N (mkH (5 # 1)%Q (0 # 1)%Q 0 None None)) [RMetric MAvg 0%N None];
   RBucket (BTerms 2%N (mkT 2 1 (TCount true) None)) [RBucket (BRange 0%N [0%Z; 5%Z]) [RMetric MSum 0%N (Some 100%Z)]]].
Definition ex_parts : list (list doc) := [[ex_d1]; [ex_d2; ex_d3]; [ex_d4]].
Definition ex_fruit (i : nat) : itree := collect_seg floor_pos ex_rs (nth i ex_parts []).
Definition ex_shape : @shape itree := Bin (Leaf (ex_fruit 2)) (Bin Hole (Bin (Leaf (ex_fruit 0)) (Leaf (ex_fruit 1)))).

Example ex_shape_is_permutation : Permutation (leaves ex_shape) (map (collect_seg floor_pos ex_rs) ex_parts).
Proof.
  change (leaves ex_shape) with [ex_fruit 2; ex_fruit 0; ex_fruit 1].
  change (map (collect_seg floor_pos ex_rs) ex_parts) with [ex_fruit 0; ex_fruit 1; ex_fruit 2].
  apply (Permutation_cons_app [ex_fruit 0; ex_fruit 1] [] (ex_fruit 2)). rewrite app_nil_r. apply Permutation_refl.
Qed.

Example ex_final_nontrivial :
  finalize floor_pos ex_rs (ieval ex_shape) = direct_final floor_pos ex_rs (concat ex_parts) /\
  match direct_final floor_pos ex_rs (concat ex_parts) with
  | [RM [Some c; _; _; _; _]; RB hb _ _; RB tb other _] => Qeq_bool c (4 # 1)%Q && Nat.eqb (length hb) 4 && Nat.eqb (length tb) 2 && N.eqb other 1
  | _ => false
  end = true.
Proof. vm_compute. split; reflexivity. Qed.

Example ex_limit : finalize_limited floor_pos 7 ex_rs (ieval ex_shape) = FErrBucketLimit /\
                   exists res, finalize_limited floor_pos 12 ex_rs (ieval ex_shape) = FOk res.
Proof. vm_compute. split; [reflexivity|eexists; reflexivity]. Qed.

(* ---- F141 (genuine defect of the implementation, not of the model): a range / histogram bucket
   with sub-aggregations pushes a document once per value into its sub-collectors; the
   sub-collectors' block accessors assume duplicate-free doc lists, so what they count depends on
   the segment (column cardinality, doc-id layout).  Witness: documents A = {i0: [1, 2], s2: "x"},
   B = {s2: ["y", "z"]}, request range(i0, [0, +oo)) > terms(s2).  Observed on the unchanged code:
   one segment {A, B} reports x -> 1, two segments {A}, {B} report x -> 2.  The input is in the
   class, the two-segment observation is the direct result, the one-segment observation is not. *)
Definition f141_docs : list doc := [[(0%N, [KZ 1; KZ 2]); (2%N, [KS [120%N]])]; [(2%N, [KS [121%N]; KS [122%N]])]].
Definition f141_rs : list req := [RBucket (BRange 0%N [0%Z]) [RBucket (BTerms 2%N (mkT 10 1 (TKey false) None)) []]].
Definition f141_obs (x_count : N) : list obs :=
  [OB [(OKR None (Some (0 # 1)%Q), 0%N, [OB [] (Some 0%N) (Some 0%N)]);
       (OKR (Some (0 # 1)%Q) None, 2%N, [OB [(OKS [120%N], x_count, [])] (Some 0%N) (Some 0%N)])] None None].
Theorem C14_duplicate_doc_push_refuted :
  f141_top floor_pos f141_rs f141_docs = true /\
  match_top f141_rs (direct_top floor_pos f141_rs f141_docs) (f141_obs 2) = true /\
  match_top f141_rs (direct_top floor_pos f141_rs f141_docs) (f141_obs 1) = false.
Proof. vm_compute. repeat split; reflexivity. Qed.

(* ---- findings outside the modelled request language (classifiers of coq/Agg/Ext.v; the scenarios are decided by
   oracles on the implementation side, see harness c14 `ext_stream`) ---- *)

(* F144: the bucket computed with truncating division differs from the documented floor bucket EXACTLY for
   instants before the epoch that are not bucket boundaries *)
Theorem C14_truncating_division_wrong_iff : forall interval t, (0 < interval)%Z ->
  trunc_bucket interval t <> floor_bucket interval t <-> (t < 0 /\ t mod interval <> 0)%Z.
Proof. exact trunc_bucket_wrong_iff. Qed.

(* F142 witness: A carries j.v, B does not; `missing: -20`.  Observed: one segment sum -15, segments {A},{B} sum 5. *)
Theorem C14_absent_column_refuted :
  f142 (XMetricMissing ((-20) # 1)%Q) [[true]; [false]] = true /\ f142 (XMetricMissing ((-20) # 1)%Q) [[true; false]] = false /\
  f142 (XMetricMissing (7 # 1)%Q) [[true]; [false]] = false /\ f142 (XMetricMissing (5 # 2)%Q) [[true; true]] = true /\
  f142 (XRange [((-10) # 1)%Q; ((-5) # 1)%Q]) [[true]; [false]] = true /\ (5 - 20 <> 5 + 0)%Z.
Proof. vm_compute. repeat split; try reflexivity. discriminate. Qed.

(* F143 witness: cardinality(j.c, missing "none"): one segment 2, segments {A},{B} 1 *)
Theorem C14_cardinality_absent_column_refuted : f143 [[true]; [false]] = true /\ f143 [[true; false]] = false /\ (2 <> 1)%N.
Proof. vm_compute. repeat split; try reflexivity. discriminate. Qed.

(* F145 witness: e1 = (tags [x], matches), e2 = (tags [x], no match), e3 = (tags [y], matches); parts {e2,e3} and {e1} *)
Theorem C14_empty_composite_left_refuted :
  f145 [[([KS [120%N]], false); ([KS [121%N]], true)]; [([KS [120%N]], true)]] = true /\
  f145 [[([KS [120%N]], false); ([KS [121%N]], true); ([KS [120%N]], true)]] = false.
Proof. vm_compute. split; reflexivity. Qed.

(* F146 witness: 2048 documents with bucket ids i mod 50, then 100 documents of bucket 0: in ONE segment the last
   flush shrinks the per-bucket collectors; split into two segments of 1024 + 1124 documents nothing shrinks *)
Definition f146_ids : list N := map (fun i => N.of_nat (i mod 50)) (seq 0 2048) ++ repeat 0%N 100.
Theorem C14_top_hits_shrink_refuted :
  N.eqb AGG_FLUSH_THRESHOLD 2048 = true ->
  f146 AGG_FLUSH_THRESHOLD [f146_ids] = true /\ f146 AGG_FLUSH_THRESHOLD [firstn 1024 f146_ids; skipn 1024 f146_ids] = false.
Proof. intros H. apply N.eqb_eq in H. rewrite H. vm_compute. split; reflexivity. Qed.

Print Assumptions C14_merge_monoid.
Print Assumptions C14_truncating_division_wrong_iff.
Print Assumptions C14_absent_column_refuted.
Print Assumptions C14_cardinality_absent_column_refuted.
Print Assumptions C14_empty_composite_left_refuted.
Print Assumptions C14_top_hits_shrink_refuted.
Print Assumptions C14_collect_is_homomorphism.
Print Assumptions C14_partition_independent.
Print Assumptions C14_equals_direct.
Print Assumptions C14_collector_equals_direct.
Print Assumptions C14_limits_error_not_truncate.
Print Assumptions C14_direct_order_independent.
Print Assumptions C14_exact_histogram_bucket.
Print Assumptions C14_finalize_collect_is_direct.
Print Assumptions C14_stats_accumulator_exact.
Print Assumptions C14_min_is_least.
Print Assumptions C14_max_is_greatest.
Print Assumptions C14_range_bucket_is_interval.
Print Assumptions C14_duplicate_doc_push_refuted.
