(* C18 -- At most one writer per index; the lock follows the writer's lifetime. *)
From TV Require Import Base.Prelude Storage.Locks Storage.LocksProofs.
Local Open Scope N_scope.

(* For every lifecycle of any length over any number of Index handles -- including rollbacks whose
   writer rebuild fails and failed constructions -- at every point: at most one writer is alive,
   every live writer owns the lock guard, and the lock is held exactly when a writer is alive.
   (`lrun` follows the statement order of IndexWriter::rollback pinned from the source; with the
   pre-fix order the theorem below fails to compile and C18_old_rollback_order_refuted is the witness.) *)
Theorem C18_mutual_exclusion : forall ops s, linv s -> linv (fst (lrun s ops)).
Proof. exact mutual_exclusion. Qed.

(* whatever the order in the source: every lifecycle without a failing rebuild keeps the invariant *)
Theorem C18_mutual_exclusion_any_order : forall safe ops, (safe = true \/ f7_class ops = false) ->
  forall s, linv s -> linv (fst (lrun_gen safe s ops)).
Proof. exact mutual_exclusion_gen. Qed.

Theorem C18_invariant_holds_initially : linv linit.
Proof. exact linv_init. Qed.

(* while a writer is alive, every attempt to create another one fails with a lock error ... *)
Theorem C18_second_writer_refused : forall s w w' valid ok,
  linv s -> find w (writers s) <> None -> snd (lstep s (Create w' valid ok)) = RLockBusy.
Proof. exact second_writer_refused. Qed.

(* ... and does not disturb the first *)
Theorem C18_busy_is_harmless : forall s w valid ok,
  snd (lstep s (Create w valid ok)) = RLockBusy -> fst (lstep s (Create w valid ok)) = s.
Proof. exact busy_is_harmless. Qed.

(* the lock is released by drop / wait_merging_threads ... *)
Theorem C18_released_after_drop : forall s w w',
  linv s -> find w (writers s) <> None ->
  snd (lstep (fst (lstep s (DropW w))) (Create w' true true)) = ROk.
Proof. exact released_after_drop. Qed.

(* ... and by a failed construction (invalid budget / thread count, I/O error) *)
Theorem C18_released_after_failed_create : forall s w valid ok w',
  linv s -> snd (lstep s (Create w valid ok)) <> ROk -> snd (lstep s (Create w valid ok)) <> RLockBusy ->
  snd (lstep (fst (lstep s (Create w valid ok))) (Create w' true true)) = ROk.
Proof. exact released_after_failed_create. Qed.

(* rollback keeps the lock: no window in which another Create can succeed *)
Theorem C18_rollback_keeps_lock : forall s w w' valid ok,
  linv s -> find w (writers s) <> None ->
  let s' := fst (lstep s (Rollback w true)) in
  s' = s /\ snd (lstep s' (Create w' valid ok)) = RLockBusy.
Proof. exact rollback_keeps_lock. Qed.

(* the guard mechanism implements the one-line specification "who is the writer" *)
Theorem C18_model_refines_spec : forall ops s, linv s -> snd (lrun s ops) = spec_run (abs s) ops.
Proof. exact model_refines_spec. Qed.

(* F7 (fixed in /repo): with the old statement order of rollback (guard taken out of self before the
   fallible rebuild) a failing rebuild dropped the guard: the old writer survived without a lock
   and a second writer could be created; with the current order the second Create is refused. *)
Theorem C18_old_rollback_order_refuted :
  f7_class f7_witness = true /\
  writers (fst (lrun_gen false linit f7_witness)) = [(2, true); (1, false)] /\
  snd (lrun_gen false linit f7_witness) = [ROk; RIoErr; ROk] /\
  snd (lrun_gen true linit f7_witness) = [ROk; RIoErr; RLockBusy].
Proof. exact f7_refuted. Qed.

Example nonvacuous_lifecycle :
  f7_class [Create 1 true true; Create 2 true true; Rollback 1 true; DropW 1; Create 3 false true; Create 4 true true] = false /\
  codes (snd (lrun linit [Create 1 true true; Create 2 true true; Rollback 1 true; DropW 1; Create 3 false true; Create 4 true true])) = [0; 1; 0; 0; 2; 0].
Proof. vm_compute. split; reflexivity. Qed.

Print Assumptions C18_mutual_exclusion.
Print Assumptions C18_model_refines_spec.
