(* C03 -- Queries match exactly the documents their logical meaning prescribes.
   Only statements, each closed by `exact <lemma>`, non-vacuity examples, refuted witnesses. *)
From TV Require Import Base.Prelude Query.QuerySem Query.Compose Query.ComposeProofs Query.Phrase Query.PhraseProofs Query.MonoMap Query.Exists Query.Cases.
From Coq Require Import Sorted.
Local Open Scope N_scope.

(* The decision procedure of BooleanWeight::complex_scorer (removal and counting of All/Empty scorers,
   effective minimum_number_should_match, should promoted to must, union vs disjunction, exclusion) denotes
   the documented boolean meaning -- for EVERY clause list, every minimum, scoring on or off. *)
Theorem C03_complex_scorer_sound : forall seg i msm sc (ces : list (occur * dexpr)),
  i < max_doc seg ->
  Forall (fun c => forall n, snd c = DAll n -> n = max_doc seg) ces ->
  dmem (complex_scorer_of seg msm sc ces) i = bool_sem msm (map (fun c => (fst c, dmem (snd c) i)) ces).
Proof. exact (fun seg i msm sc ces Hi H => complex_scorer_of_sound (fun _ _ => false) seg i Hi msm sc ces H). Qed.

(* The one-clause shortcut of BooleanWeight::scorer() is re-read from the source on every run
   (Generated.Constants.C03_SCORER_SINGLE_CLAUSE_CHECKS_MSM -> Compose.SHAPE).  The theorems below are
   stated for the shape the source has now: the shortcut honours minimum_number_should_match.  If the
   source goes back to the old shape this lemma no longer checks (and the old-shape theorems apply). *)
Lemma shape_checks_msm : SHAPE = true.
Proof. vm_compute. reflexivity. Qed.

Lemma no_f31_class q : h31 SHAPE q = false.
Proof. unfold h31. now rewrite shape_checks_msm. Qed.
Lemma no_f31_class_below sc q : h31_below_root SHAPE sc q = false.
Proof. unfold h31_below_root. now rewrite shape_checks_msm. Qed.

(* Weight::scorer of an arbitrary query tree (arbitrary nesting), over ANY leaf scorers that are correct:
   the scorer contains doc id i iff document i matches.  Every tree, no exclusion. *)
Theorem C03_boolean_sound_any_leaves : forall accepts seg (leaf_scorer : bool -> leaf -> dexpr),
  (forall sc l i, i < max_doc seg -> dmem (leaf_scorer sc l) i = leaf_matches accepts (doc_at seg i) l) ->
  (forall sc l n, leaf_scorer sc l = DAll n -> n = max_doc seg) ->
  forall sc q b1 i, i < max_doc seg ->
  dmem (scorer_model seg SHAPE leaf_scorer sc b1 q) i = matches accepts (doc_at seg i) q.
Proof.
  intros accepts seg ls H1 H2 sc q b1 i Hi.
  exact (scorer_model_sound accepts seg SHAPE ls H1 H2 sc q (no_f31_class q) b1 i Hi).
Qed.

(* ... and with the concrete leaf scorers (term: Empty / All / TermScorer by doc_freq; phrase: Empty when a
   term is missing), as lists: what a collector receives on a segment with deletes is `eval`. *)
Theorem C03_boolean_sound : forall accepts seg sc b1 q,
  map (doc_at seg) (collected seg (scorer_model seg SHAPE (std_leaf_scorer accepts seg) sc b1 q)) = eval accepts seg q.
Proof.
  intros accepts seg sc b1 q. rewrite <- eval_ids_eval. f_equal. apply collected_eq.
  intros i Hi. exact (scorer_model_sound accepts seg SHAPE _ (std_leaf_sound accepts seg) (std_leaf_allok accepts seg) sc q (no_f31_class q) b1 i Hi).
Qed.

(* Collecting ids / ranking (for_each, for_each_no_score, for_each_pruning on the root weight). *)
Theorem C03_collect_sound : forall accepts seg sc q,
  map (doc_at seg) (collected seg (collect_model seg SHAPE (std_leaf_scorer accepts seg) sc q)) = eval accepts seg q.
Proof.
  intros accepts seg sc q. rewrite <- eval_ids_eval. f_equal. apply collected_eq.
  intros i Hi. exact (collect_model_sound accepts seg SHAPE _ (std_leaf_sound accepts seg) (std_leaf_allok accepts seg) sc q (no_f31_class_below sc q) i Hi).
Qed.

(* Counting (Weight::count: doc_freq shortcut without deletes, alive bitset otherwise) agrees. *)
Theorem C03_count_agrees : forall accepts seg sc q,
  count_model accepts seg SHAPE sc q = length (eval accepts seg q).
Proof. exact (fun accepts seg sc q => count_model_agrees accepts seg SHAPE sc q (no_f31_class q)). Qed.

(* Counting, collecting and ranking agree with each other. *)
Theorem C03_count_is_collected : forall accepts seg sc sc' q,
  count_model accepts seg SHAPE sc q = length (collected seg (collect_model seg SHAPE (std_leaf_scorer accepts seg) sc' q)).
Proof.
  intros accepts seg sc sc' q. rewrite C03_count_agrees, <- (C03_collect_sound accepts seg sc' q). now rewrite map_length.
Qed.

(* Scoring enabled or disabled: the same documents, for every query tree. *)
Theorem C03_scoring_irrelevant : forall accepts seg q,
  collected seg (collect_model seg SHAPE (std_leaf_scorer accepts seg) true q)
  = collected seg (collect_model seg SHAPE (std_leaf_scorer accepts seg) false q).
Proof.
  intros accepts seg q.
  rewrite !(collected_eq accepts seg _ q); [reflexivity| |]; intros i Hi;
    exact (collect_model_sound accepts seg SHAPE _ (std_leaf_sound accepts seg) (std_leaf_allok accepts seg) _ q (no_f31_class_below _ q) i Hi).
Qed.

(* The same statements for the OLD shape of the shortcut (minimum ignored for a single clause) hold exactly
   outside the class F31 -- kept so that the class stays characterised. *)
Theorem C03_boolean_sound_old_shape : forall accepts seg sc b1 q, has_f31 q = false ->
  map (doc_at seg) (collected seg (scorer_model seg false (std_leaf_scorer accepts seg) sc b1 q)) = eval accepts seg q.
Proof.
  intros accepts seg sc b1 q HF. rewrite <- eval_ids_eval. f_equal. apply collected_eq.
  intros i Hi. exact (scorer_model_sound accepts seg false _ (std_leaf_sound accepts seg) (std_leaf_allok accepts seg) sc q HF b1 i Hi).
Qed.

(* Any split of the corpus into segments gives the answer of the whole corpus. *)
Theorem C03_segmentation : forall accepts segs q, eval_index accepts segs q = eval accepts (concat segs) q.
Proof. exact eval_segmentation. Qed.

Theorem C03_deleted_never_appear : forall accepts s q d,
  In d (eval accepts s q) -> In (d, true) s /\ matches accepts d q = true.
Proof. exact eval_only_live. Qed.

(* Merging (dropping the deleted documents) and sorting (permuting the documents) do not change the answer. *)
Theorem C03_merge_transparent : forall accepts s q, eval accepts (purge s) q = eval accepts s q.
Proof. exact eval_purge. Qed.

Theorem C03_sort_transparent : forall accepts s s' q,
  Permutation.Permutation s s' -> Permutation.Permutation (eval accepts s q) (eval accepts s' q).
Proof. exact eval_permutation. Qed.

(* ---------------------------------------------------------------- non-vacuity *)
Definition ex_acc : N -> N -> bool := fun _ _ => false.
Definition ex_doc (u : N) (toks : list N) : doc := mkDoc u [(0, toks)] [(1, [VI64 (Z.of_N u)])].
Definition ex_seg : segment :=
  [(ex_doc 10 [1;2;3], true); (ex_doc 11 [2;3], false); (ex_doc 12 [1;3;2], true); (ex_doc 13 [4], true)].
Definition ex_q : query :=
  QBool 1 [(Must, QLeaf (LTerm 0 3));
           (Should, QBool 0 [(Should, QLeaf (LTerm 0 1)); (MustNot, QLeaf (LPhrase 0 [(0%Z, 2); (1%Z, 3)] 0))]);
           (Should, QAll);
           (MustNot, QLeaf (LRange 1 (Incl (VI64 13)) Unb))].

Example ex_nonvacuous :
  uids (eval ex_acc ex_seg ex_q) = [10; 12] /\
  collected ex_seg (collect_model ex_seg SHAPE (std_leaf_scorer ex_acc ex_seg) true ex_q) = [0; 2] /\
  count_model ex_acc ex_seg SHAPE false ex_q = 2%nat.
Proof. vm_compute. repeat split; reflexivity. Qed.

(* ---------------------------------------------------------------- F31 (fixed in /repo) *)
(* Witness for the OLD shape of the shortcut (scorer() ignored the minimum for a single clause): a boolean
   query with a single should clause and minimum_number_should_match = 2 cannot match, and for_each agreed
   (complex_scorer), but scorer()/count() returned the clause's documents, also when nested. *)
Definition f31_q : query := QBool 2 [(Should, QLeaf (LTerm 0 3))].
Theorem C03_single_clause_msm_refuted :
  has_f31 f31_q = true /\
  eval ex_acc ex_seg f31_q = [] /\
  collected ex_seg (collect_model ex_seg false (std_leaf_scorer ex_acc ex_seg) false f31_q) = [] /\
  count_model ex_acc ex_seg false false f31_q = 2%nat /\
  collected ex_seg (scorer_model ex_seg false (std_leaf_scorer ex_acc ex_seg) false true
                      (QBool 0 [(Must, f31_q); (Must, QAll)])) = [0; 2].
Proof. vm_compute. repeat split; reflexivity. Qed.

(* the same inputs under the current shape: nothing matches, everywhere *)
Example f31_regression :
  count_model ex_acc ex_seg SHAPE false f31_q = 0%nat /\
  collected ex_seg (scorer_model ex_seg SHAPE (std_leaf_scorer ex_acc ex_seg) false true
                      (QBool 0 [(Must, f31_q); (Must, QAll)])) = [].
Proof. vm_compute. repeat split; reflexivity. Qed.

(* ---------------------------------------------------------------- phrases *)
(* The two-pointer scan finds a pair of positions within the slop iff one exists (sorted position lists). *)
Theorem C03_phrase_positions : forall sc slop l0 l1, StronglySorted N.le l0 -> StronglySorted N.le l1 ->
  exists b, phrase_match sc slop [l0; l1] = Some b /\
            (b = true <-> exists x y, In x l0 /\ In y l1 /\ absdiff x y <= slop).
Proof. exact phrase_match_two. Qed.

(* Two-term phrases (any offsets, any slop, scoring on or off, either cost order of the terms): the phrase
   scorer matches a document exactly when the documented meaning `phrase_spec` does. *)
Theorem C03_phrase : forall toks o0 t0 o1 t1 slop sc (swap : bool),
  phrase_match sc slop (map (shifted_positions toks (max_offset [(o0, t0); (o1, t1)]))
                            (if swap then [(o1, t1); (o0, t0)] else [(o0, t0); (o1, t1)]))
  = Some (phrase_spec toks [(o0, t0); (o1, t1)] slop).
Proof. exact phrase_two_terms. Qed.

(* F32 (known finding): three terms with slop.  "a b c"~1 on "a x b x c" (a=1 b=2 c=3 x=9) must not match
   (documentation of PhraseQuery::set_slop); the scorer without scoring matches it, with scoring it does not. *)
Theorem C03_phrase_slop3_refuted :
  let toks := [1; 9; 2; 9; 3] in let ts := [(0%Z, 1); (1%Z, 2); (2%Z, 3)] in
  f32_leaf (LPhrase 0 ts 1) = true /\
  phrase_spec toks ts 1 = false /\
  phrase_match false 1 (phrase_lists toks ts) = Some true /\
  phrase_match true 1 (phrase_lists toks ts) = Some false.
Proof. vm_compute. repeat split; reflexivity. Qed.

(* ---------------------------------------------------------------- exists over dynamic columns *)
(* ExistsWeight::scorer (JSON field with sub-paths: one column per path and type): whatever the number of
   columns (per-document path below C03_EXISTS_BITSET_MIN_COLUMNS, precomputed bitset from it on) and whatever
   their cardinalities (optional, multivalued, full, empty), the scorer contains document i iff some column
   holds a value for it.  Re-proved on the regenerated threshold and shape of the bitset loop. *)
Theorem C03_exists_columns_sound : forall max_doc b1 cols i,
  i < max_doc -> Forall (column_wf max_doc) cols ->
  dmem (exists_scorer max_doc b1 cols) i = existsb (fun c => mem i (snd c)) cols.
Proof. exact exists_scorer_sound. Qed.

(* ... hence it is a correct leaf scorer for `LExistsPaths fs` as soon as the columns represent the paths *)
Theorem C03_exists_is_leaf : forall accepts seg b1 fs cols,
  Forall (column_wf (max_doc seg)) cols ->
  (forall i, i < max_doc seg -> existsb (fun c => mem i (snd c)) cols = existsb (has_value (doc_at seg i)) fs) ->
  forall i, i < max_doc seg ->
  dmem (exists_scorer (max_doc seg) b1 cols) i = leaf_matches accepts (doc_at seg i) (LExistsPaths fs).
Proof. exact exists_scorer_meets_leaf_contract. Qed.

(* witness for a bitset loop that skips multivalued columns: the array-only document is lost with 4
   columns and found with 3 *)
Theorem C03_exists_multivalued_refuted :
  let cols := [(CardOptional, [0]); (CardOptional, [1]); (CardOptional, [2]); (CardMultivalued, [4; 5])] in
  dmem (exists_scorer_shape true false 4 6 true cols) 4 = false /\
  existsb (fun c => mem 4 (snd c)) cols = true /\
  dmem (exists_scorer_shape true false 4 6 true (firstn 2 cols ++ skipn 3 cols)) 4 = true.
Proof. exact exists_without_multivalued_refuted. Qed.

(* ---------------------------------------------------------------- order-preserving encodings *)
Theorem C03_encoding_monotone : forall a b, wf_value a -> wf_value b -> vtag a = vtag b ->
  vlt a b = (enc a <? enc b).
Proof. exact enc_lt. Qed.

(* range over encoded terms / encoded column values = range over the typed values *)
Theorem C03_range_encoding : forall lo hi v, wf_value v -> bound_ok v lo -> bound_ok v hi ->
  in_range lo hi v = above_enc lo (enc v) && below_enc hi (enc v).
Proof. exact range_encoding. Qed.

Example ex_encoding :
  enc (VI64 (-1)) = 9223372036854775807 /\ enc (VI64 0) = 9223372036854775808 /\
  enc (VF64 0) = 9223372036854775808 /\ enc (VF64 13830554455654793216) = 4616189618054758399 /\
  in_range (Incl (VF64 13830554455654793216)) (Excl (VF64 4607182418800017408)) (VF64 0) = true.
Proof. vm_compute. repeat split; reflexivity. Qed.

Print Assumptions C03_complex_scorer_sound.
Print Assumptions C03_boolean_sound_any_leaves.
Print Assumptions C03_boolean_sound.
Print Assumptions C03_collect_sound.
Print Assumptions C03_count_agrees.
Print Assumptions C03_scoring_irrelevant.
Print Assumptions C03_count_is_collected.
Print Assumptions C03_boolean_sound_old_shape.
Print Assumptions C03_segmentation.
Print Assumptions C03_deleted_never_appear.
Print Assumptions C03_merge_transparent.
Print Assumptions C03_sort_transparent.
Print Assumptions C03_single_clause_msm_refuted.
Print Assumptions C03_phrase_positions.
Print Assumptions C03_phrase.
Print Assumptions C03_phrase_slop3_refuted.
Print Assumptions C03_encoding_monotone.
Print Assumptions C03_range_encoding.
Print Assumptions C03_exists_columns_sound.
Print Assumptions C03_exists_is_leaf.
Print Assumptions C03_exists_multivalued_refuted.
