(* C05 -- Searchers are immutable snapshots; readers only ever see whole commits. *)
From TV Require Import Base.Prelude Storage.Crash Storage.CrashProofs Storage.ReaderGC Storage.ReaderGCProofs Storage.ReloadStore Storage.ReloadStoreProofs Storage.Flock Storage.FlockProofs Storage.UpdaterLife Storage.UpdaterLifeProofs.
Local Open Scope N_scope.

(* For every interleaving (trace of any length, any number of readers, GC runs and publications)
   that obeys the reload/GC discipline -- META_LOCK sections exclude each other; a reload opens,
   inside its section, only files of the generation it read; meta.json is replaced only by a
   generation whose files exist; GC deletes no file of a generation that was current at or after
   its last lock section; file names are never reused -- EVERY open of EVERY reload finds its file,
   including a reload pre-empted between reading meta.json and each open while commits, merges
   and collections proceed. *)
Theorem C05_reload_opens_succeed : forall t, rmonitor t = true -> opens_ok t = true.
Proof. exact opens_succeed. Qed.

(* A reload sees exactly one generation: whatever it opens belongs to the generation it read. *)
Theorem C05_reload_sees_one_commit : forall s r p,
  rcheck s (ROpen r p) = true -> exists g, lookup r (rd s) = Some g /\ In p (rfiles s g).
Proof. exact open_belongs_to_read_generation. Qed.

(* Successive reloads of a reader never move back to an older generation (on every trace). *)
Theorem C05_monotone : forall r t, nondecreasing (reads r t) = true.
Proof. exact reloads_monotone. Qed.

(* the discipline is an invariant-carrying monitor: each accepted step preserves "all files of the
   generations gc_base..current exist, and every reader inside its section read one of them" *)
Theorem C05_discipline_invariant : forall s e, RInv s -> rcheck s e = true -> RInv (rstep s e).
Proof. exact rinv_step. Qed.

(* non-vacuity: a reload pre-empted by a commit and a collection, accepted and successful ... *)
Definition ex_rtrace : list rev :=
  [ WMeta []; WCreate 10; WCreate 11; WMeta [10; 11];
    RBegin 0; RRead 0; ROpen 0 10;
    WCreate 12; WMeta [12];                      (* a commit lands while reader 0 is still opening *)
    ROpen 0 11; REnd 0;
    GBegin; GEnd; GDelete 10; GDelete 11;        (* only now may the old files go *)
    RBegin 1; RRead 1; ROpen 1 12; REnd 1 ].
Example ex_rtrace_ok : rmonitor ex_rtrace = true /\ opens_ok ex_rtrace = true /\ reads 0 ex_rtrace = [1] /\ reads 1 ex_rtrace = [2].
Proof. vm_compute. repeat split; reflexivity. Qed.
(* ... and what goes wrong without the lock: GC computes its delete set while the reload is in
   progress and removes a file the reader still has to open *)
Theorem C05_gc_during_reload_refuted :
  let t := [ WMeta []; WCreate 10; WCreate 11; WMeta [10; 11]; RBegin 0; RRead 0; ROpen 0 10;
             WCreate 12; WMeta [12]; GBegin; GEnd; GDelete 11; ROpen 0 11; REnd 0 ] in
  rmonitor t = false /\ opens_ok t = false.
Proof. vm_compute. split; reflexivity. Qed.

(* ---- one IndexReader shared by several threads (the watcher thread and the user, or several users) ---- *)
(* C05_monotone above is about the generations a reload READS.  What the reader HANDS OUT is what reload() stores
   afterwards, outside META_LOCK.  With reload() serialized (RELOAD_SERIALIZED, regenerated from the source): for every
   interleaving of commits, reloads pre-empted anywhere between loading and storing, and searcher() calls, the
   generations handed out (newest first) never increase towards the past -- the reader never moves back -- and the
   stored generation is always a published one. *)
Theorem C05_shared_reader_never_moves_back : forall evs, nonincreasing (rl_looks (rlrun evs)).
Proof. exact reader_never_moves_back. Qed.
Theorem C05_serialized_reader_never_moves_back : forall evs,
  nonincreasing (rl_looks (rlrun_gen true evs)) /\ rl_stored (rlrun_gen true evs) <= rl_cur (rlrun_gen true evs).
Proof. exact serialized_reader_never_moves_back. Qed.
(* a reload nobody interferes with shows the latest commit *)
Theorem C05_quiet_reload_shows_latest : forall evs t,
  rl_paused (rlrun evs) = [] -> rl_stored (rlstep (rlrun evs) (Begin t false)) = rl_cur (rlrun evs).
Proof. exact quiet_reload_shows_latest. Qed.
(* F051 (fixed in /repo): without the lock a pre-empted reload overwrites a more recent one -- the reader shows
   generation 1, then generation 0 *)
Theorem C05_unserialized_reload_moves_back :
  rl_observed (rlrun_gen false [Begin 1 true; Publish; Begin 2 false; Look; Resume 1; Look]) = [1; 0].
Proof. exact unserialized_reload_moves_back. Qed.

(* ---- META_LOCK on the production directory (MmapDirectory: flock on the lock file) ---- *)
(* The reload/GC discipline above needs META_LOCK sections to exclude each other.  flock locks belong to the inode; the
   guard's drop only closes the handle (MMAP_LOCK_RELEASE_UNLINKS = 0, regenerated from the source): for every interleaving
   of opens, lock attempts and releases by any number of threads at most one thread holds the lock. *)
Theorem C05_mmap_meta_lock_excludes : forall evs, (length (holders (flrun evs)) <= 1)%nat.
Proof. exact flock_excludes. Qed.
(* with an unlinking release (the classic unlink race) a waiter on the orphaned inode and a newcomer on a fresh file both hold it *)
Theorem C05_unlinking_release_breaks_exclusion :
  holders (flrun_gen true [FOpen 1; FLock 1; FOpen 2; FLock 2; FClose 1; FLock 2; FOpen 3; FLock 3]) = [3; 2].
Proof. exact unlinking_release_breaks_exclusion. Qed.

(* ---- what readers can be shown never moves back on the WRITER side either (Storage/UpdaterLife.v) ---- *)
(* Merge threads and already queued end_merge tasks of a writer that was dropped or rolled back may still run; each would
   save ITS updater's (old) view.  With Drop and rollback killing the updater and save_metas refusing on a killed updater
   (DROP_KILLS_UPDATER, ROLLBACK_KILLS_UPDATER, SAVE_METAS_CHECKS_ALIVE, SAVE_METAS_LOCKED_AGAINST_KILL regenerated from the
   source; saves may be atomic or stalled between the liveness check and the write): for every sequence of
   writer creations, commits, drops, rollbacks and arbitrarily late saves by any updater, the generation in meta.json never
   moves back -- a published commit is never overwritten by a stale view, so no reload can go back to an older commit. *)
Theorem C05_published_commit_never_overwritten : forall evs1 evs2,
  us_meta (fold_left ustep evs1 ust0) <= us_meta (fold_left ustep (evs1 ++ evs2) ust0).
Proof. exact meta_never_moves_back. Qed.
Theorem C05_drop_without_kill_loses_a_commit :
  us_meta (urun_gen false true true true [UNew 1; UCommit 1; UGone 1 false; UNew 2; UCommit 2; USave 1]) = 1 /\
  us_meta (urun_gen true true true true [UNew 1; UCommit 1; UGone 1 false; UNew 2; UCommit 2; USave 1]) = 2.
Proof. exact drop_without_kill_loses_a_commit. Qed.
Theorem C05_save_without_liveness_check_loses_a_commit :
  us_meta (urun_gen true true false true [UNew 1; UCommit 1; UGone 1 true; UNew 2; UCommit 2; USave 1]) = 1.
Proof. exact save_without_liveness_check_loses_a_commit. Qed.
(* F052 (fixed in /repo): the liveness check alone is check-then-act -- a save that stalls after it (a slow directory sync) and
   resumes after the next writer committed; with the save holding a lock that kill() takes too, killing waits for it *)
Theorem C05_unlocked_save_in_flight_loses_a_commit :
  us_meta (urun_gen true true true false [UNew 1; UCommit 1; UStall 1; UGone 1 false; UNew 2; UCommit 2; UResume 1]) = 1 /\
  us_meta (urun_gen true true true true [UNew 1; UCommit 1; UStall 1; UGone 1 false; UNew 2; UCommit 2; UResume 1]) = 2.
Proof. exact unlocked_save_in_flight_loses_a_commit. Qed.

Print Assumptions C05_reload_opens_succeed.
Print Assumptions C05_published_commit_never_overwritten.
Print Assumptions C05_mmap_meta_lock_excludes.
Print Assumptions C05_shared_reader_never_moves_back.
Print Assumptions C05_monotone.
