(* C04 -- Merging never changes the logical content of the index.
   Only statements, each closed by `exact <lemma>`, and their assumptions. *)
From TV Require Import Base.Prelude Generated.Constants Indexing.Merge Indexing.MergeProofs Indexing.MergeShuffle
  Indexing.MergeSched Indexing.MergeSchedProofs.
Local Open Scope nat_scope.

(* The doc id mapping of an unsorted index (get_doc_id_from_concatenated_data) is a bijection between
   the new doc ids and the live old addresses; it preserves the order of every source (and of the
   sources); the old->new table built by write_postings_for_field is its inverse. *)
Theorem C04_mapping_bijective : forall readers,
  let order := m_order (concatenated_mapping readers) in
  NoDup order /\
  (forall s d, In (s, d) order <-> s < length readers /\ is_alive (s_alive (nth s readers dseg)) d = true) /\
  length order = total_docs readers /\
  (forall i j s d1 d2, i < j -> nth_error order i = Some (s, d1) -> nth_error order j = Some (s, d2) -> d1 < d2) /\
  (forall i j a b, i < j -> nth_error order i = Some a -> nth_error order j = Some b -> addr_lt a b) /\
  (forall s d new, o2n_get (build_o2n readers order) s d = Some new <-> nth_error order new = Some (s, d)).
Proof. exact stacked_mapping_bijective. Qed.

(* IndexMerger::write on any number of sources with any alive sets produces exactly the
   specification: every per-document view (store, norms, fast values) is the concatenation of the
   live selections of the sources, and the posting list of every term is the concatenation over the
   sources of the entries (tf, positions) of live documents renumbered consecutively; terms left
   without a live document are removed. *)
Theorem C04_write_is_spec : forall sch readers,
  Forall (wf_seg sch) readers ->
  write_with sch readers (concatenated_mapping readers) = Some (spec_merge sch readers).
Proof. exact write_stacked_is_spec. Qed.

(* segment_updater::merge: no segment when nothing is alive (all-deleted sources, empty result),
   otherwise the specification over the sources that still have live documents. *)
Theorem C04_content_preserved : forall sch segs,
  Forall (wf_seg sch) segs ->
  merge_model sch segs =
  if total_docs segs =? 0 then MergedNone else Merged (spec_merge sch (open_readers segs)).
Proof. exact merge_model_readers. Qed.

(* whichever branch of write_storable_fields the block-count threshold selects (stacking the whole
   store or iterating over the alive documents), the documents written are the alive documents *)
Theorem C04_stacking_irrelevant : forall r,
  length (s_store r) = max_doc r -> store_of_reader r = select (s_alive r) (s_store r).
Proof. exact store_of_reader_select. Qed.


(* ------------------------------------------------------------------ sorted index: shuffled mapping *)
(* A k-way merge (whatever the comparison of the sort keys and its tie-breaking) emits an
   interleaving of its sources. *)
Theorem C04_kmerge_is_interleaving : forall (A : Type) (less : A -> A -> bool) fuel (srcs : list (list A)),
  total_len srcs <= fuel -> interleave srcs (kmerge fuel less srcs).
Proof. exact @kmerge_interleave. Qed.

(* Any interleaving of the readers' alive addresses is a bijection between new ids and live old
   addresses, keeps the order of every source, and the old->new table is its inverse. *)
Theorem C04_shuffled_mapping_bijective : forall readers order,
  interleave (addr_sources 0 (map s_alive readers)) order ->
  NoDup order /\
  (forall s d, In (s, d) order <-> s < length readers /\ is_alive (s_alive (nth s readers dseg)) d = true) /\
  length order = total_docs readers /\
  in_bounds (o2n_init readers) order /\
  (forall s d new, o2n_get (build_o2n readers order) s d = Some new <-> nth_error order new = Some (s, d)).
Proof. exact shuffled_mapping_bijective. Qed.

Theorem C04_shuffled_order_preserving : forall readers order,
  interleave (addr_sources 0 (map s_alive readers)) order ->
  forall i j s d1 d2, i < j -> nth_error order i = Some (s, d1) -> nth_error order j = Some (s, d2) -> d1 < d2.
Proof. exact shuffled_order_preserving. Qed.

(* In the shuffled case the doc store is written by consuming ONE sequential iterator over the alive
   documents of every reader: for every interleaving this yields exactly the documents the mapping
   names, in mapping order (never the DataCorruption branch). *)
Theorem C04_store_iteration_aligned : forall readers order,
  (forall r, In r readers -> length (s_alive r) <= length (s_store r)) ->
  interleave (addr_sources 0 (map s_alive readers)) order ->
  write_storable_fields readers (mkMapping order Shuffled) = Some (gather [] (map s_store readers) order).
Proof. exact shuffled_store_aligned. Qed.

(* ------------------------------------------------------------------ schedule side (MergeSched.v) *)
Local Open Scope N_scope.
(* starting a merge (explicitly or by policy, on committed or uncommitted segments) changes nothing
   a commit, a rollback or a searcher can see *)
Theorem C04_start_merge_transparent : forall policy srcs s,
  let s' := start_merge policy srcs s in
  w_unc s' = w_unc s /\ w_com s' = w_com s /\ w_meta s' = w_meta s /\ w_queue s' = w_queue s /\
  w_pending s' = w_pending s /\ w_pcursor s' = w_pcursor s /\ w_copstamp s' = w_copstamp s /\ w_epoch s' = w_epoch s /\
  published s' = published s.
Proof. exact start_merge_transparent. Qed.

(* a merge that can no longer be applied (writer rolled back, or sources no longer together in one
   register) is discarded without effect *)
Theorem C04_end_merge_discarded : forall k s r,
  nth_error (w_merges s) k = Some r ->
  (r_epoch r <> w_epoch s \/
   (contains_all (w_unc s) (r_srcs r) = false /\ contains_all (w_com s) (r_srcs r) = false)) ->
  same_content s (end_merge k s) /\ w_merges (end_merge k s) = remove_nth k (w_merges s).
Proof. exact end_merge_discarded. Qed.

(* deletes committed while the merge was running are reflected in the merged segment when it is
   published: for EVERY queue and committed opstamp at end_merge time, the reconciled merged entry holds
   exactly the documents of its sources advanced to that opstamp, at the same cursor -- provided the
   sources shared one cursor when they were merged (always true for committed segments and for policy
   merges; false exactly in the known class F0401) *)
Theorem C04_end_merge_reconciles : forall q cop seg es c,
  Forall (fun e => e_cursor e = c) es ->
  let m := reconcile q cop (mkEntry seg (concat (map e_docs es)) c) in
  e_docs m = concat (map (fun e => e_docs (advance q cop e)) es) /\
  Forall (fun e => e_cursor (advance q cop e) = e_cursor m) es.
Proof. exact end_merge_reconciles. Qed.

(* what successive commits did to the sources meanwhile is one advance to the last committed opstamp *)
Theorem C04_advance_composes : forall q t1 t2 e, t1 <= t2 -> advance q t2 (advance q t1 e) = advance q t2 e.
Proof. exact advance_advance. Qed.

(* a merge of COMMITTED segments -- proposed by IndexWriter::merge or by the merge policy -- is given the
   LAST COMMIT's opstamp as target (consider_merge_options: commit_opstamp for committed candidates) *)
Theorem C04_committed_merge_target : forall policy srcs s,
  srcs <> [] ->
  policy && existsb (in_merge s) srcs = false ->
  contains_all (w_unc s) srcs = false -> contains_all (w_com s) srcs = true ->
  w_merges (start_merge policy srcs s) =
  w_merges s ++ [mkRunning (w_epoch s) srcs (do_merge (w_queue s) (w_copstamp s) (w_next_seg s) (get_all (w_com s) srcs))].
Proof. exact committed_merge_target. Qed.

(* hence deletes that are issued but not committed (every operation beyond the sources' cursor is stamped at
   or after the last commit) are not applied by the merge and not published by end_merge: the merged entry
   holds all documents of its sources at the same cursor -- the next commit applies them, a rollback forgets them *)
Theorem C04_committed_merge_ignores_pending : forall q cop seg es c,
  es <> [] ->
  Forall (fun e => e_cursor e = c) es ->
  (forall d, In d (skipn c q) -> cop <= del_op d) ->
  do_merge q cop seg es =
    (if forallb (fun e => negb (nonempty e)) es then None
     else Some (mkEntry seg (concat (map e_docs es)) c)) /\
  reconcile q cop (mkEntry seg (concat (map e_docs es)) c) = mkEntry seg (concat (map e_docs es)) c.
Proof. exact committed_merge_ignores_pending. Qed.

(* non-vacuity: a pending delete, a policy merge of the committed segments, a searcher before any commit,
   then a rollback: nothing is lost; a commit instead applies the delete *)
Definition ex_pending_policy : list op :=
  [Add 0 0; Add 1 1; Commit; Add 2 1; Add 3 0; Commit; Del (ByTag 1); Add 4 1; Finalize; StartPolicyMerge [0; 1]; EndMerge 0%nat].
Example C04_example_pending_policy :
  published (run ex_pending_policy init) = [0; 1; 2; 3] /\
  published (run (ex_pending_policy ++ [Rollback]) init) = [0; 1; 2; 3] /\
  published (run (ex_pending_policy ++ [Commit]) init) = [0; 3; 4].
Proof. vm_compute. repeat split; reflexivity. Qed.

(* a merge whose merge() failed (I/O error while writing the merged segment) leaves no trace *)
Theorem C04_failed_merge_no_effect : forall k s,
  same_content s (abort_merge k s) /\ published (abort_merge k s) = published s.
Proof. exact abort_merge_no_effect. Qed.

(* the end of a merge of UNCOMMITTED segments touches the uncommitted register only: the committed register and
   meta.json (searchers, rollback) are unchanged ... *)
Theorem C04_end_merge_uncommitted : forall k s r,
  nth_error (w_merges s) k = Some r ->
  r_epoch r = w_epoch s ->
  contains_all (w_unc s) (r_srcs r) = true ->
  let s' := end_merge k s in
  w_com s' = w_com s /\ w_meta s' = w_meta s /\ published s' = published s /\ w_copstamp s' = w_copstamp s /\
  w_unc s' = remove_segs (w_unc s) (r_srcs r) ++
             match option_map (reconcile (w_queue s) (w_copstamp s)) (r_result r) with Some e => [e] | None => [] end.
Proof. exact end_merge_uncommitted. Qed.

(* ... and the end of a merge of COMMITTED segments publishes exactly the committed register (sources replaced
   by the reconciled merged entry): never a document of a merged-but-uncommitted segment *)
Theorem C04_end_merge_committed_publishes_committed_only : forall k s r,
  nth_error (w_merges s) k = Some r ->
  r_epoch r = w_epoch s ->
  contains_all (w_unc s) (r_srcs r) = false -> contains_all (w_com s) (r_srcs r) = true ->
  let s' := end_merge k s in
  w_unc s' = w_unc s /\ w_meta s' = w_com s' /\
  w_com s' = filter nonempty (remove_segs (w_com s) (r_srcs r) ++
             match option_map (reconcile (w_queue s) (w_copstamp s)) (r_result r) with Some e => [e] | None => [] end).
Proof. exact end_merge_committed_publishes_committed_only. Qed.

(* non-vacuity: two uncommitted segments are merged, then the committed segments are merged (meta.json is saved
   without a commit): the uncommitted documents are not published, and a rollback forgets them *)
Definition ex_unc_then_com : list op :=
  [Add 0 0; Commit; Add 1 1; Commit; Add 2 0; Finalize; Add 3 1; Finalize; StartMerge [2; 3]; EndMerge 0%nat;
   StartMerge [0; 1]; EndMerge 0%nat].
Example C04_example_unc_then_com :
  published (run ex_unc_then_com init) = [0; 1] /\ f0401_class ex_unc_then_com = false /\
  published (run (ex_unc_then_com ++ [Rollback]) init) = [0; 1] /\
  published (run (ex_unc_then_com ++ [Commit]) init) = [0; 1; 2; 3] /\
  published (run [Add 0 0; Commit; Add 1 1; Commit; StartMerge [0; 1]; AbortMerge 0%nat] init) = [0; 1].
Proof. vm_compute. repeat split; reflexivity. Qed.

(* F0401: IndexWriter::merge on uncommitted segments whose delete cursors differ.  The state machine
   (tied to the implementation on these very histories) publishes something else than the same
   history without the merge: a document added after the delete disappears (older segment first), or
   a document the delete must remove survives (newer segment first). *)
Definition f0401_w1 : list op :=
  [Add 0 0; Commit; Add 1 1; Finalize; Del (ByTag 2); Add 2 2; Finalize; StartMerge [1; 2]; EndMerge 0%nat; Commit].
Definition f0401_w2 : list op :=
  [Add 0 0; Commit; Add 1 2; Finalize; Del (ByTag 2); Add 2 1; Finalize; StartMerge [2; 1]; EndMerge 0%nat; Commit].
Theorem C04_explicit_uncommitted_merge_refuted :
  f0401_class f0401_w1 = true /\ published (run f0401_w1 init) = [0; 1] /\ published (run (strip f0401_w1) init) = [0; 1; 2] /\
  f0401_class f0401_w2 = true /\ published (run f0401_w2 init) = [0; 1; 2] /\ published (run (strip f0401_w2) init) = [0; 2].
Proof. vm_compute. repeat split; reflexivity. Qed.

(* non-vacuity of the schedule theorems: a committed merge overlapped by a delete + commit *)
Definition ex_sched : list op :=
  [Add 0 0; Add 1 1; Commit; Add 2 1; Add 3 0; Commit; StartMerge [0; 1]; Del (ByTag 1); Commit; EndMerge 0%nat; Commit].
Example C04_example_schedule :
  published (run ex_sched init) = [0; 3] /\ published (run (strip ex_sched) init) = [0; 3] /\ f0401_class ex_sched = false /\
  map e_docs (w_com (run ex_sched init)) = [[mkDoc 0 0 0; mkDoc 3 0 4]].
Proof. vm_compute. repeat split; reflexivity. Qed.
(* after a rollback the first operation carries the committed opstamp itself: a delete stamped so is NOT
   applied by a merge of committed segments (target = committed opstamp), and nothing is published
   without a commit (the break at `opstamp >= target` of compute_deleted_bitset) *)
Definition ex_rollback_first_op : list op :=
  [Add 0 0; Add 1 1; Commit; Add 2 1; Commit; Add 3 0; Rollback; Del (ByTag 1); StartMerge [0; 1]; EndMerge 0%nat].
Example C04_example_rollback_first_op :
  published (run ex_rollback_first_op init) = [0; 1; 2] /\
  published (run (ex_rollback_first_op ++ [Commit]) init) = [0].
Proof. vm_compute. split; reflexivity. Qed.
Local Close Scope N_scope.

(* ------------------------------------------------------------------ non-vacuity *)
Definition ex_sch : schema := mkSchema [1%N] [2%N] [1%N].
Definition ex_a : seg :=
  mkSeg [true; false; true] 1%N [[10%N]; [11%N]; [12%N]] [(1%N, [3%N; 4%N; 5%N])] [(2%N, [[[7%N]]; []; [[8%N]; [9%N]]])]
        [(1%N, [([97%N], [(0, (1%N, [0%N])); (1, (2%N, [0%N; 1%N]))]); ([98%N], [(1, (1%N, [2%N])); (2, (1%N, [0%N]))])])].
Definition ex_b : seg :=
  mkSeg [false; false] 1%N [[20%N]; [21%N]] [(1%N, [1%N; 1%N])] [(2%N, [[]; []])]
        [(1%N, [([99%N], [(0, (1%N, [0%N]))])])].
Definition ex_c : seg :=
  mkSeg [false; true] 9%N [[30%N]; [31%N]] [(1%N, [6%N; 7%N])] [(2%N, [[]; [[1%N]]])]
        [(1%N, [([97%N], [(0, (1%N, [0%N])); (1, (1%N, [4%N]))]); ([100%N], [(0, (1%N, [1%N]))])])].
Example C04_example_wf : forallb (wf_segb ex_sch) [ex_a; ex_b; ex_c] = true.
Proof. vm_compute. reflexivity. Qed.
Example C04_example_merge :
  merge_model ex_sch [ex_a; ex_b; ex_c] =
  Merged (mkSeg [true; true; true] 0%N [[10%N]; [12%N]; [31%N]] [(1%N, [3%N; 5%N; 7%N])] [(2%N, [[[7%N]]; [[8%N]; [9%N]]; [[1%N]]])]
                [(1%N, [([97%N], [(0, (1%N, [0%N])); (2, (1%N, [4%N]))]); ([98%N], [(1, (1%N, [0%N]))])])]).
Proof. vm_compute. reflexivity. Qed.
Example C04_example_empty : merge_model ex_sch [ex_b] = MergedNone.
Proof. vm_compute. reflexivity. Qed.

Print Assumptions C04_mapping_bijective.
Print Assumptions C04_write_is_spec.
Print Assumptions C04_content_preserved.
Print Assumptions C04_stacking_irrelevant.
Print Assumptions C04_kmerge_is_interleaving.
Print Assumptions C04_shuffled_mapping_bijective.
Print Assumptions C04_shuffled_order_preserving.
Print Assumptions C04_store_iteration_aligned.
Print Assumptions C04_start_merge_transparent.
Print Assumptions C04_end_merge_discarded.
Print Assumptions C04_end_merge_reconciles.
Print Assumptions C04_advance_composes.
Print Assumptions C04_committed_merge_target.
Print Assumptions C04_committed_merge_ignores_pending.
Print Assumptions C04_failed_merge_no_effect.
Print Assumptions C04_end_merge_uncommitted.
Print Assumptions C04_end_merge_committed_publishes_committed_only.
Print Assumptions C04_explicit_uncommitted_merge_refuted.
