(* C06 -- Top-K collection returns exactly the best K, with deterministic ties.
   Only statements, each closed by `exact <lemma>`, non-vacuity examples, refuted witnesses. *)
From TV Require Import Base.Prelude Generated.Constants Rank.TopN Rank.Paging Rank.Wand.
From Coq Require Import Sorting.Permutation.

(* the capacity rule `top_n.max(1) * 2` (regenerated literals) leaves room for one more element *)
Lemma cap_factor_ok : (2 <= N.to_nat TOPN_CAP_FACTOR)%nat.
Proof. vm_compute. lia. Qed.
Lemma cap_min_ok : (1 <= N.to_nat TOPN_MIN_TOP_N)%nat.
Proof. vm_compute. lia. Qed.

Section AnyComparatorAnyStd.
  (* any key type under any comparator that is a total preorder ... *)
  Variable K : Type.
  Variable kcmp : K -> K -> comparison.
  Hypothesis kcmp_opp : forall a b, kcmp b a = CompOpp (kcmp a b).
  Hypothesis kcmp_le_trans : forall a b c, kcmp a b <> Gt -> kcmp b c <> Gt -> kcmp a c <> Gt.
  (* ... and any std::slice::select_nth_unstable_by / sort_unstable_by that meet their contracts *)
  Variable select_nth : nat -> list (elt K) -> list (elt K).
  Hypothesis select_nth_spec : forall n l, (n < length l)%nat ->
    exists a m b, select_nth n l = a ++ m :: b /\ length a = n /\ Permutation (a ++ m :: b) l /\
                  Forall (fun x => ele K kcmp x m) a /\ Forall (fun x => ele K kcmp m x) b.
  Variable sort_unstable : list (elt K) -> list (elt K).
  Hypothesis sort_unstable_perm : forall l, Permutation (sort_unstable l) l.
  Hypothesis sort_unstable_sorted : forall l, sorted K kcmp (sort_unstable l).

  (* TopNComputer fed in ascending address order returns exactly the best n, ties by ascending
     address, for every n (0 included) and every key sequence; it never panics. *)
  Theorem C06_topn_exact : forall n xs, ascending_addresses K xs ->
    exists t, push_all K kcmp select_nth (new K n) xs = Some t /\
              into_sorted_vec K select_nth sort_unstable t = Some (topk K kcmp n 0 xs).
  Proof.
    exact (topn_exact K kcmp kcmp_opp kcmp_le_trans select_nth select_nth_spec sort_unstable
             sort_unstable_perm sort_unstable_sorted cap_factor_ok cap_min_ok).
  Qed.

  (* what a segment collector harvests (into_vec) is the best n in some order *)
  Theorem C06_segment_fruit : forall n xs, ascending_addresses K xs ->
    exists t F, push_all K kcmp select_nth (new K n) xs = Some t /\ into_vec K select_nth t = Some F /\
                Permutation F (topk K kcmp n 0 xs).
  Proof.
    exact (topn_into_vec K kcmp kcmp_opp kcmp_le_trans select_nth select_nth_spec sort_unstable
             sort_unstable_perm sort_unstable_sorted cap_factor_ok cap_min_ok).
  Qed.

  (* the pruning threshold is sound: whenever it is m, n of the elements pushed so far have a key
     not worse than m (so rejecting a later element whose key does not strictly exceed m is safe) *)
  Theorem C06_threshold_sound : forall n xs t m, ascending_addresses K xs ->
    push_all K kcmp select_nth (new K n) xs = Some t -> thr K t = Some m ->
    (n <= count K (kgeb K kcmp m) xs)%nat.
  Proof.
    exact (threshold_sound K kcmp kcmp_opp kcmp_le_trans select_nth select_nth_spec sort_unstable
             sort_unstable_perm sort_unstable_sorted cap_factor_ok cap_min_ok).
  Qed.

  (* per-segment top (O+K), merged and sliced = entries O..O+K of the complete list *)
  Theorem C06_merge_paging : forall segs k o, NoDup (addrs K (concat segs)) ->
    topk K kcmp k o (concat segs) =
    firstn k (skipn o (isort K kcmp (concat (map (topk K kcmp (o + k) 0) segs)))).
  Proof. exact (merge_paging K kcmp kcmp_opp kcmp_le_trans). Qed.

  (* successive pages enumerate every match exactly once, in order *)
  Theorem C06_pages_enumerate : forall xs k p, (length xs <= p * k)%nat ->
    concat (map (fun i => topk K kcmp k (i * k) xs) (seq 0 p)) = isort K kcmp xs /\
    Permutation (concat (map (fun i => topk K kcmp k (i * k) xs) (seq 0 p))) xs.
  Proof. exact (pages_enumerate K kcmp). Qed.

  (* merge_top_k (a TopNComputer over the flattened fruits, then skip(offset)) is exact when the
     fruits arrive in ascending address order *)
  Theorem C06_merge_top_k_exact : forall fruits k o, ascending_addresses K fruits ->
    merge_top_k K kcmp select_nth sort_unstable fruits o (o + k) = Some (topk K kcmp k o fruits).
  Proof.
    exact (merge_top_k_exact K kcmp kcmp_opp kcmp_le_trans select_nth select_nth_spec sort_unstable
             sort_unstable_perm sort_unstable_sorted cap_factor_ok cap_min_ok).
  Qed.

  (* the whole collector: segments -> fruits -> merge -> offset.  Exact under the proviso that the
     harvested fruits are fed to the merge in ascending address order; the code does not establish
     that proviso (F15 below). *)
  Theorem C06_collect_exact : forall segs k o fs,
    Forall (ascending_addresses K) segs -> NoDup (addrs K (concat segs)) ->
    collect_fruits K kcmp select_nth (o + k) segs = Some fs -> ascending_addresses K (concat fs) ->
    collect K kcmp select_nth sort_unstable segs k o = Some (topk K kcmp k o (concat segs)).
  Proof.
    exact (collect_exact K kcmp kcmp_opp kcmp_le_trans select_nth select_nth_spec sort_unstable
             sort_unstable_perm sort_unstable_sorted cap_factor_ok cap_min_ok).
  Qed.
End AnyComparatorAnyStd.

(* the four comparators of ComparatorEnum are total preorders: the theorems apply to them *)
Theorem C06_comparators_are_preorders : forall c,
  (forall a b, ccmp c b a = CompOpp (ccmp c a b)) /\
  (forall a b d, ccmp c a b <> Gt -> ccmp c b d <> Gt -> ccmp c a d <> Gt).
Proof. exact (fun c => conj (ccmp_opp c) (ccmp_le_trans c)). Qed.

(* both concrete select_nth instances meet the contract (non-vacuity of the Section hypotheses) *)
Theorem C06_select_instances : forall c,
  (forall n l, (n < length l)%nat -> exists a m b, select_sorted ckey (ccmp c) n l = a ++ m :: b /\ length a = n /\
      Permutation (a ++ m :: b) l /\ Forall (fun x => ele ckey (ccmp c) x m) a /\ Forall (fun x => ele ckey (ccmp c) m x) b) /\
  (forall n l, (n < length l)%nat -> exists a m b, select_rev ckey (ccmp c) n l = a ++ m :: b /\ length a = n /\
      Permutation (a ++ m :: b) l /\ Forall (fun x => ele ckey (ccmp c) x m) a /\ Forall (fun x => ele ckey (ccmp c) m x) b).
Proof.
  exact (fun c => conj (select_sorted_spec ckey (ccmp c) (ccmp_opp c) (ccmp_le_trans c))
                       (select_rev_spec ckey (ccmp c) (ccmp_opp c) (ccmp_le_trans c))).
Qed.

(* ---- non-vacuity: massive ties, K = 0, capacity crossings *)
Definition ex_ties : list celt := map (fun i => (Some (Z.of_nat (i mod 2)), N.of_nat i)) (seq 0 23).
Example ex_topn_ties :
  c_run Natural 3 ex_ties = Some ([(Some 1%Z, 1%N); (Some 1%Z, 3%N); (Some 1%Z, 5%N)], Some (Some 1%Z)).
Proof. vm_compute. reflexivity. Qed.
Example ex_topn_zero : option_map fst (c_run Natural 0 ex_ties) = Some [].
Proof. vm_compute. reflexivity. Qed.
Example ex_topn_asc_none_last :
  option_map fst (c_run ReverseNoneLower 2 [(None, 0%N); (Some 7%Z, 1%N); (None, 2%N); (Some 3%Z, 3%N); (Some 7%Z, 4%N)])
  = Some [(Some 3%Z, 3%N); (Some 7%Z, 1%N)].
Proof. vm_compute. reflexivity. Qed.

(* ---- the design's claim "the threshold is only ever raised, to the key of the current (K+1)-th
   best" does NOT hold for the code: `push` tests against the old threshold, `append_doc` then raises
   it and still appends the element, so a later truncation can LOWER the threshold.  (Harmless for
   the property -- C06_threshold_sound is what pruning needs -- but it is why TopNComputer's
   threshold must not be fed to a consumer that assumes monotonicity.)  Keys 5,3,4,3.5,4.5 (x2), n = 1. *)
Definition thr_witness : list celt := [(Some 10%Z, 0%N); (Some 6%Z, 1%N); (Some 8%Z, 2%N); (Some 7%Z, 3%N); (Some 9%Z, 4%N)].
Theorem C06_threshold_monotone_refuted :
  c_thresholds Natural (c_new 1) thr_witness = [None; None; Some (Some 6%Z); Some (Some 8%Z); Some (Some 7%Z)].
Proof. vm_compute. reflexivity. Qed.

(* ---- F15: merge_fruits feeds the per-segment fruits to a TopNComputer in the order `harvest`
   returns them (buffer / heap order), not in ascending address order.  With a select_nth that
   leaves the kept part in descending order (legal), three segments and K = 4:
   segment 2 holds five hits of key 5; (5, doc 0 of segment 2) must be returned, (5, doc 1) is. *)
Definition seg_addr (s d : N) : N := s * 4294967296 + d.
Definition f15_segs : list (list celt) :=
  [ [(Some 9%Z, seg_addr 0 0); (Some 9%Z, seg_addr 0 1); (Some 9%Z, seg_addr 0 2); (Some 1%Z, seg_addr 0 3)];
    [(Some 1%Z, seg_addr 1 0); (Some 1%Z, seg_addr 1 1)];
    [(Some 5%Z, seg_addr 2 0); (Some 5%Z, seg_addr 2 1); (Some 5%Z, seg_addr 2 2); (Some 5%Z, seg_addr 2 3); (Some 5%Z, seg_addr 2 4)] ].
Definition f15_got : list celt := [(Some 9%Z, seg_addr 0 0); (Some 9%Z, seg_addr 0 1); (Some 9%Z, seg_addr 0 2); (Some 5%Z, seg_addr 2 1)].
Theorem C06_collect_tie_refuted :
  Forall (ascending_addresses ckey) f15_segs /\ NoDup (addrs ckey (concat f15_segs)) /\
  c_collect_rev Natural f15_segs 4 0 = Some f15_got /\
  c_topk Natural 4 0 (concat f15_segs) = [(Some 9%Z, seg_addr 0 0); (Some 9%Z, seg_addr 0 1); (Some 9%Z, seg_addr 0 2); (Some 5%Z, seg_addr 2 0)] /\
  F15_class Natural f15_segs 4 0 f15_got = true.
Proof.
  split; [repeat constructor; vm_compute; reflexivity|].
  split; [apply nodupb_sound; vm_compute; reflexivity|].
  vm_compute. repeat split; reflexivity.
Qed.
(* with the fully sorting instance the same input is collected correctly: the failure depends on the
   order the external routine leaves, exactly as on the implementation *)
Example f15_sorted_instance_ok : c_collect Natural f15_segs 4 0 = Some (c_topk Natural 4 0 (concat f15_segs)).
Proof. vm_compute. reflexivity. Qed.

(* ================================================================ block-max WAND *)
(* block_wand_single_scorer (the TermQuery path): for every collector whose returned threshold never
   decreases, every posting list and every block structure whose block maxima are upper bounds, the
   pruned run ends -- with the stated fuel -- in exactly the collector state that exhaustive scoring
   of all postings reaches.  Hence top-K via WAND = top-K via exhaustive scoring. *)
Theorem C06_wand_single_sound :
  forall (St : Type) (thr : St -> Z) (step : St -> N -> Z -> St),
  (forall st d x, (thr st <= thr (step st d x))%Z) ->
  forall sc st fuel, scorer_ok sc -> upper_bounds sc -> (single_fuel sc <= fuel)%nat ->
  block_wand_single_scorer St thr step fuel sc st = Some (exhaustive St thr step (sc_post sc) st).
Proof. exact wand_single_sound. Qed.

(* C06_wand_terminates (single scorer): the fuel bound is linear in postings + blocks *)
Theorem C06_wand_single_terminates :
  forall (St : Type) (thr : St -> Z) (step : St -> N -> Z -> St),
  (forall st d x, (thr st <= thr (step st d x))%Z) ->
  forall sc st, scorer_ok sc -> upper_bounds sc ->
  block_wand_single_scorer St thr step (2 * length (sc_post sc) + length (sc_blocks sc) + 2) sc st <> None.
Proof.
  intros St thr step Hm sc st Hok Hub. pose proof (wand_single_sound St thr step Hm sc st _ Hok Hub (le_n _)) as H.
  unfold single_fuel in H. rewrite H. discriminate.
Qed.

(* non-vacuity: two blocks; the second block (max 3) is skipped once the threshold is 5 *)
Definition ex_scorer : scorer :=
  {| sc_post := [(1%N, 2%Z); (4%N, 5%Z); (9%N, 3%Z); (12%N, 1%Z); (20%N, 7%Z)];
     sc_blocks := [ {| b_last := 4%N; b_max := 5%Z |}; {| b_last := 12%N; b_max := 3%Z |}; {| b_last := TERM; b_max := 7%Z |} ];
     sc_max := 7%Z |}.
Example ex_wand_single :
  block_wand_single_scorer top1_state (top1_thr (-1)) top1_step 20 ex_scorer None = Some (Some (20%N, 7%Z)) /\
  exhaustive top1_state (top1_thr (-1)) top1_step (sc_post ex_scorer) None = Some (20%N, 7%Z).
Proof. vm_compute. split; reflexivity. Qed.

(* Without the upper-bound hypothesis the theorem fails: the model, run on metadata that is too low,
   misses the best document -- this is what F3 and F6 do to the real code. *)
Definition bad_scorer : scorer :=
  {| sc_post := [(1%N, 5%Z); (4%N, 1%Z); (9%N, 6%Z)];
     sc_blocks := [ {| b_last := 4%N; b_max := 5%Z |}; {| b_last := TERM; b_max := 4%Z |} ];
     sc_max := 6%Z |}.
Theorem C06_wand_needs_upper_bounds_refuted :
  block_wand_single_scorer top1_state (top1_thr (-1)) top1_step 20 bad_scorer None = Some (Some (1%N, 5%Z)) /\
  exhaustive top1_state (top1_thr (-1)) top1_step (sc_post bad_scorer) None = Some (9%N, 6%Z).
Proof. vm_compute. split; reflexivity. Qed.

(* block_wand for unions (>= 2 scorers): the fuelled transliteration (Rank/Wand.v, Section Union) is
   exercised here on concrete lists; its general soundness theorem is not proved (partial). *)
Definition ex_union : list scorer :=
  [ {| sc_post := [(1%N, 2%Z); (4%N, 5%Z); (9%N, 3%Z); (12%N, 1%Z); (20%N, 7%Z)];
       sc_blocks := [ {| b_last := 4%N; b_max := 5%Z |}; {| b_last := 12%N; b_max := 3%Z |}; {| b_last := TERM; b_max := 7%Z |} ]; sc_max := 7%Z |};
    {| sc_post := [(2%N, 1%Z); (4%N, 4%Z); (10%N, 2%Z); (20%N, 1%Z); (31%N, 6%Z)];
       sc_blocks := [ {| b_last := 10%N; b_max := 4%Z |}; {| b_last := TERM; b_max := 6%Z |} ]; sc_max := 6%Z |} ].
Example ex_wand_union :
  block_wand top1_state (top1_thr (-1)) top1_step 100 ex_union None = Some (Some (4%N, 9%Z)) /\
  exhaustive top1_state (top1_thr (-1)) top1_step (union_postings ex_union) None = Some (4%N, 9%Z).
Proof. vm_compute. split; reflexivity. Qed.

(* F3: the block-max entry tantivy stores -- the (length, tf) argmax under the SEGMENT's average
   (here 100) -- evaluated under the SEARCHER's average (here 4550) is strictly below the score of
   another document of the same block: `upper_bounds` fails.  Classifier: F3_class. *)
Theorem C06_blockmax_bound_refuted :
  stored_block_max 100 1 f3_block = (10, 2)%Z /\
  frac_lt (tf_factor 2 10 4550 1) (tf_factor 6 376 4550 1) = true /\
  F3_class [(30120, 300); (1200000, 60)]%N = true /\ F3_class [(500, 5); (1000, 10)]%N = false.
Proof. vm_compute. repeat split; reflexivity. Qed.

(* F6: Bm25Weight::max_score = score(fieldnorm_id 255, tf 2_013_265_944) is not an upper bound: a
   document of decoded length 984 (1000 tokens, quantised down) holding the term 1000 times scores
   strictly higher, under the average length 2.5 of the witness corpus.  Classifier: F6_class. *)
Theorem C06_max_score_bound_refuted :
  frac_lt (tf_factor (Z.of_N WAND_MAX_SCORE_TF) (decoded_len WAND_MAX_SCORE_FIELDNORM_ID) 5 2)
          (tf_factor 1000 984 5 2) = true /\
  F6_class [(1000, 984); (1, 1)]%N = true /\ F6_class [(3, 3); (1, 40)]%N = false.
Proof. vm_compute. repeat split; reflexivity. Qed.

Print Assumptions C06_topn_exact.
Print Assumptions C06_merge_paging.
Print Assumptions C06_collect_exact.
Print Assumptions C06_wand_single_sound.

(* ===================== theorems added after the first build (deeper proofs) ===================== *)
From TV Require Import Rank.WandUnionBase Rank.WandUnionProofs.

(* Block-max WAND for UNIONS (block_wand: find_pivot_doc, block_max_was_too_low_advance_one_scorer, align_scorers,
   advance_all_scorers_on_pivot, restore_ordering) is sound and terminates: for any number of posting lists with
   arbitrary block boundaries, any collector whose threshold never decreases, under the bounds contract (block max >=
   every score in the block, max_score >= every block max, scores >= 0), the pruned run ends in exactly the state
   exhaustive scoring of the union reaches, within an explicit fuel bound. *)
Theorem C06_wand_union_sound :
  forall (St : Type) (thr : St -> Z) (step : St -> N -> Z -> St),
  (forall st d x, (thr st <= thr (step st d x))%Z) ->
  forall (scs : list scorer) (st : St) (fuel : nat),
  Forall scorer_ok scs -> Forall union_bounds scs -> union_fuel scs <= fuel ->
  block_wand St thr step fuel scs st = Some (exhaustive St thr step (union_postings scs) st).
Proof. exact wand_union_sound. Qed.

Theorem C06_wand_union_terminates :
  forall (St : Type) (thr : St -> Z) (step : St -> N -> Z -> St),
  (forall st d x, (thr st <= thr (step st d x))%Z) ->
  forall (scs : list scorer) (st : St),
  Forall scorer_ok scs -> Forall union_bounds scs ->
  block_wand St thr step (union_fuel scs) scs st <> None.
Proof. exact wand_union_terminates. Qed.

(* the max_score clause of the contract is necessary (the F6 failure mode) *)
Theorem C06_wand_union_needs_max_score_bound_refuted :
  block_wand top1_state (top1_thr (-1)) (top1m_step (-1)) (union_fuel wu_bad) wu_bad None = Some (Some (3%N, 3%Z)) /\
  exhaustive top1_state (top1_thr (-1)) (top1m_step (-1)) (union_postings wu_bad) None = Some (5%N, 10%Z) /\
  Forall scorer_ok wu_bad /\ Forall upper_bounds wu_bad.
Proof. exact wand_union_needs_max_score_bound_refuted. Qed.

Print Assumptions C06_wand_union_sound.
Print Assumptions C06_wand_union_terminates.

(* ================================================================ fields indexed without frequencies (F61) *)
From TV Require Import Rank.WandNoFreq.

(* every no-frequency posting list with a positive score inside a full block breaks the bounds contract *)
Theorem C06_nofreq_not_upper_bounds : forall sc b r d x,
  sc_blocks sc = b :: r -> b_max b = 0%Z -> In (d, x) (sc_post sc) -> (d <= b_last b)%N -> (0 < x)%Z ->
  ~ upper_bounds sc.
Proof. exact nofreq_not_upper_bounds. Qed.

(* ... and the single-scorer routine, run on such a list (blocks of 2 postings for the witness), skips every
   full block once the collector is full: top-1 is document 1 (score 3) although document 6 scores 5.
   This is what TermWeight::for_each_pruning does on the implementation (finding F61). *)
Definition nf_witness : scorer := nofreq_scorer 2 [(1%N, 3%Z); (2%N, 3%Z); (5%N, 3%Z); (6%N, 5%Z); (9%N, 3%Z)] 5%Z.
Theorem C06_nofreq_blockmax_refuted :
  block_wand_single_scorer top1_state (top1_thr (-1)) top1_step 40 nf_witness None = Some (Some (1%N, 3%Z)) /\
  exhaustive top1_state (top1_thr (-1)) top1_step (sc_post nf_witness) None = Some (6%N, 5%Z) /\
  F61_class true [(false, 384%N)] = true /\ F61_class true [(false, 127%N)] = false /\
  F61_class false [(false, 384%N); (true, 500%N)] = false /\ F61_class true [(true, 384%N)] = false.
Proof. vm_compute. repeat split; reflexivity. Qed.
