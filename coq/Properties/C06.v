(* C06 -- Top-K collection returns exactly the best K, with deterministic ties.
   Only statements, each closed by `exact <lemma>`, non-vacuity examples, refuted witnesses. *)
From TV Require Import Base.Prelude Generated.Constants Rank.TopN Rank.Paging.
From Coq Require Import Sorting.Permutation.

(* the capacity rule `top_n.max(1) * 2` (regenerated literals) leaves room for one more element *)
Lemma cap_factor_ok : (2 <= N.to_nat TOPN_CAP_FACTOR)%nat.
Proof. vm_compute. lia. Qed.
Lemma cap_min_ok : (1 <= N.to_nat TOPN_MIN_TOP_N)%nat.
Proof. vm_compute. lia. Qed.

Section AnyComparatorAnyStd.
  (* any key type under any comparator that is a total preorder ... *)
  Variable K : Type.
  Variable kcmp : K -> K -> comparison.
  Hypothesis kcmp_opp : forall a b, kcmp b a = CompOpp (kcmp a b).
  Hypothesis kcmp_le_trans : forall a b c, kcmp a b <> Gt -> kcmp b c <> Gt -> kcmp a c <> Gt.
  (* ... and any std::slice::select_nth_unstable_by / sort_unstable_by that meet their contracts *)
  Variable select_nth : nat -> list (elt K) -> list (elt K).
  Hypothesis select_nth_spec : forall n l, (n < length l)%nat ->
    exists a m b, select_nth n l = a ++ m :: b /\ length a = n /\ Permutation (a ++ m :: b) l /\
                  Forall (fun x => ele K kcmp x m) a /\ Forall (fun x => ele K kcmp m x) b.
  Variable sort_unstable : list (elt K) -> list (elt K).
  Hypothesis sort_unstable_perm : forall l, Permutation (sort_unstable l) l.
  Hypothesis sort_unstable_sorted : forall l, sorted K kcmp (sort_unstable l).

  (* TopNComputer fed in ascending address order returns exactly the best n, ties by ascending
     address, for every n (0 included) and every key sequence; it never panics. *)
  Theorem C06_topn_exact : forall n xs, ascending_addresses K xs ->
    exists t, push_all K kcmp select_nth (new K n) xs = Some t /\
              into_sorted_vec K select_nth sort_unstable t = Some (topk K kcmp n 0 xs).
  Proof.
    exact (topn_exact K kcmp kcmp_opp kcmp_le_trans select_nth select_nth_spec sort_unstable
             sort_unstable_perm sort_unstable_sorted cap_factor_ok cap_min_ok).
  Qed.

  (* what a segment collector harvests (into_vec) is the best n in some order *)
  Theorem C06_segment_fruit : forall n xs, ascending_addresses K xs ->
    exists t F, push_all K kcmp select_nth (new K n) xs = Some t /\ into_vec K select_nth t = Some F /\
                Permutation F (topk K kcmp n 0 xs).
  Proof.
    exact (topn_into_vec K kcmp kcmp_opp kcmp_le_trans select_nth select_nth_spec sort_unstable
             sort_unstable_perm sort_unstable_sorted cap_factor_ok cap_min_ok).
  Qed.

  (* the pruning threshold is sound: whenever it is m, n of the elements pushed so far have a key
     not worse than m (so rejecting a later element whose key does not strictly exceed m is safe) *)
  Theorem C06_threshold_sound : forall n xs t m, ascending_addresses K xs ->
    push_all K kcmp select_nth (new K n) xs = Some t -> thr K t = Some m ->
    (n <= count K (kgeb K kcmp m) xs)%nat.
  Proof.
    exact (threshold_sound K kcmp kcmp_opp kcmp_le_trans select_nth select_nth_spec sort_unstable
             sort_unstable_perm sort_unstable_sorted cap_factor_ok cap_min_ok).
  Qed.

  (* per-segment top (O+K), merged and sliced = entries O..O+K of the complete list *)
  Theorem C06_merge_paging : forall segs k o, NoDup (addrs K (concat segs)) ->
    topk K kcmp k o (concat segs) =
    firstn k (skipn o (isort K kcmp (concat (map (topk K kcmp (o + k) 0) segs)))).
  Proof. exact (merge_paging K kcmp kcmp_opp kcmp_le_trans). Qed.

  (* successive pages enumerate every match exactly once, in order *)
  Theorem C06_pages_enumerate : forall xs k p, (length xs <= p * k)%nat ->
    concat (map (fun i => topk K kcmp k (i * k) xs) (seq 0 p)) = isort K kcmp xs /\
    Permutation (concat (map (fun i => topk K kcmp k (i * k) xs) (seq 0 p))) xs.
  Proof. exact (pages_enumerate K kcmp). Qed.

  (* merge_top_k (a TopNComputer over the flattened fruits, then skip(offset)) is exact when the
     fruits arrive in ascending address order *)
  Theorem C06_merge_top_k_exact : forall fruits k o, ascending_addresses K fruits ->
    merge_top_k K kcmp select_nth sort_unstable fruits o (o + k) = Some (topk K kcmp k o fruits).
  Proof.
    exact (merge_top_k_exact K kcmp kcmp_opp kcmp_le_trans select_nth select_nth_spec sort_unstable
             sort_unstable_perm sort_unstable_sorted cap_factor_ok cap_min_ok).
  Qed.

  (* the whole collector: segments -> fruits -> merge -> offset.  Exact under the proviso that the
     harvested fruits are fed to the merge in ascending address order; the code does not establish
     that proviso (F15 below). *)
  Theorem C06_collect_exact : forall segs k o fs,
    Forall (ascending_addresses K) segs -> NoDup (addrs K (concat segs)) ->
    collect_fruits K kcmp select_nth (o + k) segs = Some fs -> ascending_addresses K (concat fs) ->
    collect K kcmp select_nth sort_unstable segs k o = Some (topk K kcmp k o (concat segs)).
  Proof.
    exact (collect_exact K kcmp kcmp_opp kcmp_le_trans select_nth select_nth_spec sort_unstable
             sort_unstable_perm sort_unstable_sorted cap_factor_ok cap_min_ok).
  Qed.
End AnyComparatorAnyStd.

(* the four comparators of ComparatorEnum are total preorders: the theorems apply to them *)
Theorem C06_comparators_are_preorders : forall c,
  (forall a b, ccmp c b a = CompOpp (ccmp c a b)) /\
  (forall a b d, ccmp c a b <> Gt -> ccmp c b d <> Gt -> ccmp c a d <> Gt).
Proof. exact (fun c => conj (ccmp_opp c) (ccmp_le_trans c)). Qed.

(* both concrete select_nth instances meet the contract (non-vacuity of the Section hypotheses) *)
Theorem C06_select_instances : forall c,
  (forall n l, (n < length l)%nat -> exists a m b, select_sorted ckey (ccmp c) n l = a ++ m :: b /\ length a = n /\
      Permutation (a ++ m :: b) l /\ Forall (fun x => ele ckey (ccmp c) x m) a /\ Forall (fun x => ele ckey (ccmp c) m x) b) /\
  (forall n l, (n < length l)%nat -> exists a m b, select_rev ckey (ccmp c) n l = a ++ m :: b /\ length a = n /\
      Permutation (a ++ m :: b) l /\ Forall (fun x => ele ckey (ccmp c) x m) a /\ Forall (fun x => ele ckey (ccmp c) m x) b).
Proof.
  exact (fun c => conj (select_sorted_spec ckey (ccmp c) (ccmp_opp c) (ccmp_le_trans c))
                       (select_rev_spec ckey (ccmp c) (ccmp_opp c) (ccmp_le_trans c))).
Qed.

(* ---- non-vacuity: massive ties, K = 0, capacity crossings *)
Definition ex_ties : list celt := map (fun i => (Some (Z.of_nat (i mod 2)), N.of_nat i)) (seq 0 23).
Example ex_topn_ties :
  c_run Natural 3 ex_ties = Some ([(Some 1%Z, 1%N); (Some 1%Z, 3%N); (Some 1%Z, 5%N)], Some (Some 1%Z)).
Proof. vm_compute. reflexivity. Qed.
Example ex_topn_zero : option_map fst (c_run Natural 0 ex_ties) = Some [].
Proof. vm_compute. reflexivity. Qed.
Example ex_topn_asc_none_last :
  option_map fst (c_run ReverseNoneLower 2 [(None, 0%N); (Some 7%Z, 1%N); (None, 2%N); (Some 3%Z, 3%N); (Some 7%Z, 4%N)])
  = Some [(Some 3%Z, 3%N); (Some 7%Z, 1%N)].
Proof. vm_compute. reflexivity. Qed.

(* ---- the design's claim "the threshold is only ever raised, to the key of the current (K+1)-th
   best" does NOT hold for the code: `push` tests against the old threshold, `append_doc` then raises
   it and still appends the element, so a later truncation can LOWER the threshold.  (Harmless for
   the property -- C06_threshold_sound is what pruning needs -- but it is why TopNComputer's
   threshold must not be fed to a consumer that assumes monotonicity.)  Keys 5,3,4,3.5,4.5 (x2), n = 1. *)
Definition thr_witness : list celt := [(Some 10%Z, 0%N); (Some 6%Z, 1%N); (Some 8%Z, 2%N); (Some 7%Z, 3%N); (Some 9%Z, 4%N)].
Theorem C06_threshold_monotone_refuted :
  c_thresholds Natural (c_new 1) thr_witness = [None; None; Some (Some 6%Z); Some (Some 8%Z); Some (Some 7%Z)].
Proof. vm_compute. reflexivity. Qed.

(* ---- F15: merge_fruits feeds the per-segment fruits to a TopNComputer in the order `harvest`
   returns them (buffer / heap order), not in ascending address order.  With a select_nth that
   leaves the kept part in descending order (legal), three segments and K = 4:
   segment 2 holds five hits of key 5; (5, doc 0 of segment 2) must be returned, (5, doc 1) is. *)
Definition seg_addr (s d : N) : N := s * 4294967296 + d.
Definition f15_segs : list (list celt) :=
  [ [(Some 9%Z, seg_addr 0 0); (Some 9%Z, seg_addr 0 1); (Some 9%Z, seg_addr 0 2); (Some 1%Z, seg_addr 0 3)];
    [(Some 1%Z, seg_addr 1 0); (Some 1%Z, seg_addr 1 1)];
    [(Some 5%Z, seg_addr 2 0); (Some 5%Z, seg_addr 2 1); (Some 5%Z, seg_addr 2 2); (Some 5%Z, seg_addr 2 3); (Some 5%Z, seg_addr 2 4)] ].
Definition f15_got : list celt := [(Some 9%Z, seg_addr 0 0); (Some 9%Z, seg_addr 0 1); (Some 9%Z, seg_addr 0 2); (Some 5%Z, seg_addr 2 1)].
Theorem C06_collect_tie_refuted :
  Forall (ascending_addresses ckey) f15_segs /\ NoDup (addrs ckey (concat f15_segs)) /\
  c_collect_rev Natural f15_segs 4 0 = Some f15_got /\
  c_topk Natural 4 0 (concat f15_segs) = [(Some 9%Z, seg_addr 0 0); (Some 9%Z, seg_addr 0 1); (Some 9%Z, seg_addr 0 2); (Some 5%Z, seg_addr 2 0)] /\
  F15_class Natural f15_segs 4 0 f15_got = true.
Proof.
  split; [repeat constructor; vm_compute; reflexivity|].
  split; [apply nodupb_sound; vm_compute; reflexivity|].
  vm_compute. repeat split; reflexivity.
Qed.
(* with the fully sorting instance the same input is collected correctly: the failure depends on the
   order the external routine leaves, exactly as on the implementation *)
Example f15_sorted_instance_ok : c_collect Natural f15_segs 4 0 = Some (c_topk Natural 4 0 (concat f15_segs)).
Proof. vm_compute. reflexivity. Qed.

Print Assumptions C06_topn_exact.
Print Assumptions C06_merge_paging.
Print Assumptions C06_collect_exact.
