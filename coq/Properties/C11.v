(* C11 -- An I/O error never corrupts the index nor is silently swallowed.
   A failed storage operation has no durable effect in the persistence model (a failed create makes
   no name, a failed terminate leaves the data un-synced, a failed atomic write leaves the old
   content, a failed sync makes nothing durable, a failed delete keeps the file): the trace of the
   SUCCESSFUL operations of a faulty run is an ordinary trace of coq/Storage/Crash.v, so the
   discipline theorems apply to it verbatim. *)
From TV Require Import Base.Prelude Storage.Crash Storage.CrashProofs Storage.WriteOnce Storage.Faults Storage.Pipeline Storage.PipelineProofs.
Local Open Scope N_scope.

(* A commit call that returns Ok(o) is complete and durable: at the moment it returns, the durable
   meta.json is a generation g0 carrying opstamp o, and EVERY crash outcome recovers a generation
   g >= g0 (g0 itself, or a later publication such as a merge result of the same commit) all of
   whose files are present and complete. *)
Theorem C11_ok_commit_is_complete : forall t1 t2 o, monitor (t1 ++ ECommitRet o :: t2) = true ->
  exists g0, ns_meta (base (run t1)) = Some g0 /\ opstamp_of (run t1) g0 = o /\
  forall img, crash (run t1) img ->
  exists g, ns_meta img = Some g /\ g0 <= g /\ g < ngen (run t1) /\ openable (run t1) img g.
Proof. exact ok_commit_is_complete. Qed.

(* The last successful commit stays intact: at every later point of the (faulty) run, whatever
   is recoverable is a generation at least as new as the last returned commit, complete, and
   nothing it references has been deleted. *)
Theorem C11_last_commit_intact : forall t, monitor t = true ->
  forall k img, crash (run (firstn k t)) img ->
  let c := run (firstn k t) in
  (forall g, ns_meta img = Some g ->
      openable c img g /\ g < ngen c /\ (forall r, returned c = Some r -> r <= g)) /\
  (forall r, returned c = Some r -> exists g, ns_meta img = Some g).
Proof. exact monitor_sound. Qed.

(* non-vacuity: a run in which the second commit fails after writing its files (no meta write, no
   commit_ret) and the writer is then dropped and GC'd is accepted, and recovers generation 1 *)
Definition faulty_trace : list ev :=
  [ ESyncDir; EMetaWrite [] 0; ESyncDir;
    ECreate 10; ETerminate 10; ESyncDir; EMetaWrite [10] 2; ESyncDir; ECommitRet 2;
    ECreate 11; ETerminate 11; ECreate 12; (* 12 never terminated: write failed *) EDelete 11; EDelete 12; ESyncDir ].
Example faulty_trace_accepted : monitor faulty_trace = true.
Proof. vm_compute. reflexivity. Qed.
Example faulty_trace_recovers_gen1 : ns_meta (base (run faulty_trace)) = Some 1 /\ returned (run faulty_trace) = Some 1.
Proof. vm_compute. split; reflexivity. Qed.

Print Assumptions C11_ok_commit_is_complete.
Print Assumptions C11_last_commit_intact.

(* F111 (known): the mechanism behind "the retried batch fails after a commit that failed once" -- the failed attempt
   created <segment>.<opstamp>.del, nothing removed it, the retry asks for the same name and create-new refuses; the
   classifier of the check (Storage/Faults.v f111_class) accepts a late failure only when every name it collided with is
   such a leftover. *)
Theorem C11_F111_mechanism : forall p n, wfirst_bad [WOpen p; WAppend p n; WOpen p] = Some 2.
Proof. exact f111_mechanism. Qed.
Theorem C11_F111_class_is_narrow : f111_class [10; 11] [11] = true /\ f111_class [10; 11] [12] = false /\ f111_class [10] [] = false.
Proof. vm_compute. repeat split; reflexivity. Qed.


(* ---- "the process neither aborts nor hangs": the indexing pipeline when a worker dies (Storage/Pipeline.v) ---- *)
(* add_document sends batches over a bounded channel; a full channel blocks the caller; every worker and the writer's status
   hold receiver handles, and a blocked sender is woken only when the LAST handle is gone.  With kill() dropping the status's
   handle (KILL_DROPS_RECEIVER regenerated from index_writer_status.rs): for every capacity, every number of workers >= 1
   and every sequence of sends, takes and worker deaths, the caller is never left blocked without a live worker. *)
Theorem C11_add_document_cannot_hang_on_a_dead_pipeline : forall cap w evs,
  w <> 0 -> stuck (prun_gen kill_drops_receiver (pipe0 cap w) evs) = false.
Proof. exact no_stuck_sender. Qed.
(* ... and once a worker has died every further add fails fast (nothing is silently accepted) *)
Theorem C11_dead_pipeline_refuses : forall s, p_alive s = false -> p_blocked s = false -> snd (pstep s PSend) = PErr.
Proof. exact dead_pipeline_refuses. Qed.
(* the variant in which kill() only clears the flag hangs *)
Theorem C11_kill_without_drop_hangs :
  stuck (prun_gen false (pipe0 2 1) [PSend; PSend; PSend; PWorkerDies]) = true /\
  stuck (prun_gen true (pipe0 2 1) [PSend; PSend; PSend; PWorkerDies]) = false.
Proof. exact kill_without_drop_hangs. Qed.

Print Assumptions C11_add_document_cannot_hang_on_a_dead_pipeline.
