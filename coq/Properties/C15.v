(* C15 -- Term dictionaries behave as ordered maps from byte strings.
   Only statements, each closed by `exact <lemma>`, non-vacuity examples and refutation witnesses. *)
From TV Require Import Base.Prelude Generated.Constants
  SSTable.Spec SSTable.Delta SSTable.Scan SSTable.Writer SSTable.WriterProofs SSTable.Dict SSTable.DictProofs SSTable.File SSTable.Merge SSTable.Cases.
Local Open Scope N_scope.

(* ---- front coding ---- *)
(* vint: every u64 survives serialize/deserialize, whatever follows it in the buffer *)
Theorem C15_vint_roundtrip : forall v rest, v < 2 ^ 64 -> vint_de (vint v ++ rest) = (v, rest).
Proof. exact vint_de_roundtrip. Qed.

(* The (keep, add) header is read back exactly, for every pair except the single pair whose packed byte
   is the VINT_MODE marker (regenerated constants: FOUR_BIT_LIMITS, VINT_MODE, the shift and the mask). *)
Theorem C15_header_roundtrip : forall keep add rest,
  keep < 2 ^ 64 -> add < 2 ^ 64 -> ~ (keep = amb_keep /\ add = amb_add) ->
  read_keep_add (encode_keep_add keep add ++ rest) = Some (keep, add, rest).
Proof. intros keep add rest H1 H2 H3. apply read_encode_keep_add. repeat split; assumption. Qed.

(* ... and that pair (keep = 1, add = 0: "repeat one byte of the previous key, add nothing") is never
   written for strictly increasing keys of any number and length. *)
Theorem C15_front_coding_unambiguous : forall ks, ssorted ks = true ->
  Forall (fun e => ~ (N.of_nat (fst e) = amb_keep /\ N.of_nat (length (snd e)) = amb_add)) (encode_entries [] ks).
Proof. exact front_coding_unambiguous. Qed.

(* Hence a block of front-coded keys decodes to exactly the keys (empty key, 0x00/0xFF bytes, any length). *)
Theorem C15_block_roundtrip : forall ks, ssorted ks = true -> Forall key_len_ok ks ->
  decode_block_keys (encode_block_keys ks) = Some ks.
Proof. exact block_keys_roundtrip. Qed.

(* ---- search inside a block ---- *)
(* decode_up_to_or_next, which never materialises the keys, is ordinal-or-successor of the sorted map *)
Theorem C15_block_search : forall ks key, ssorted ks = true ->
  scan key 0 0 (encode_entries [] ks) = sm_ord_or_next ks key.
Proof. exact block_scan_correct. Qed.

(* ---- a block body (values + keys) and the framed block section of a file ---- *)
Theorem C15_block_body_roundtrip : forall V (vc : vcodec V) valid (kvs : list (bytes * V)),
  vc_ok vc valid -> valid (map snd kvs) -> ssorted (map fst kvs) = true -> Forall key_len_ok (map fst kvs) ->
  stream_block vc (block_body vc kvs) = Some kvs.
Proof. exact @stream_block_body. Qed.

Theorem C15_value_codecs : vc_ok void_codec (fun _ => True) /\
  vc_ok u64_codec (fun vs => monotone_from 0 vs /\ N.of_nat (length vs) < 2 ^ 64).
Proof. exact (conj void_codec_ok u64_codec_ok). Qed.

Theorem C15_frames_roundtrip : forall decompress bodies,
  Forall (fun b => b <> [] /\ N.of_nat (length b) + 1 < 2 ^ 32) bodies ->
  read_frames decompress (S (length (concat (map frame_plain bodies) ++ end_marker))) (concat (map frame_plain bodies) ++ end_marker) = Some bodies.
Proof. intros d b H. apply read_frames_plain; [exact H|lia]. Qed.

(* ---- the writer: block flushes, block index ---- *)
(* Building from strictly increasing keys never trips the ordering assertions, counts the terms, and
   cuts the pairs into consecutive non-empty blocks; `dict_rel` is the block-index invariant
   (last key of block i <= separator i < first key of block i+1, first ordinals = prefix sums).
   For every block length, number of keys, key length and byte content. *)
Theorem C15_block_index : forall V (block_len : N) (kvs : smap V), ssorted (keys kvs) = true ->
  exists d Bs, build ORDER_FIXED block_len kvs = Some (d, N.of_nat (length kvs)) /\ concat Bs = kvs /\ dict_rel 0 d Bs.
Proof. exact (fun V => @build_dict_rel V ORDER_FIXED). Qed.

(* the shortened separator (find_shorter_str_in_between) stays between its neighbours *)
Theorem C15_separator_between : forall l r, blt l r = true ->
  ble l (find_shorter l r) = true /\ blt (find_shorter l r) r = true.
Proof. exact find_shorter_between. Qed.

(* streaming the whole dictionary returns exactly the inserted pairs, across all block flushes *)
Theorem C15_roundtrip : forall V (block_len : N) (kvs : smap V), keys_ok kvs ->
  exists d, build ORDER_FIXED block_len kvs = Some (d, N.of_nat (length kvs)) /\ stream_all RANGE_FIXED d = Some kvs.
Proof. exact (fun V => @stream_build V ORDER_FIXED RANGE_FIXED). Qed.

(* get / term_ord_or_next / term_ord through the block index and the in-block search agree with the
   sorted map; beyond the last key the implementation's successor is u64::MAX where the map's is `len` *)
Theorem C15_lookups : forall V (block_len : N) (kvs : smap V) key, keys_ok kvs ->
  exists d, build ORDER_FIXED block_len kvs = Some (d, N.of_nat (length kvs)) /\
    get d key = Some (sm_get kvs key) /\
    (exists h, term_ord_or_next d key = Some h /\
               (h = sm_ord_or_next (keys kvs) key \/
                (h = Next U64_MAX /\ sm_ord_or_next (keys kvs) key = Next (N.of_nat (length kvs))))) /\
    term_ord d key = Some (sm_ord (keys kvs) key).
Proof. exact (fun V => @lookups_build V ORDER_FIXED). Qed.

(* bound handling of the streamer (every kind of lower/upper bound, empty and inverted ranges):
   over the sorted pairs it is given, Streamer::advance returns exactly the sub-map *)
Theorem C15_ranges : forall V (lo hi : bound) (l : smap V), ssorted (keys l) = true ->
  stream_loop lo hi l = sm_range lo hi l.
Proof. exact @stream_loop_is_range. Qed.

(* ---- merge ---- *)
(* the k-way merge (any number of inputs, any lengths) of strictly sorted dictionaries emits a strictly
   sorted key sequence that is exactly the union of the inputs' keys, each key once *)
Theorem C15_merge : forall V (vadd : V -> V -> V) (inputs : list (smap V)), Forall sorted_input inputs ->
  ssorted (keys (heap_merge vadd inputs)) = true /\
  (forall k, In k (keys (heap_merge vadd inputs)) <-> exists r, In r inputs /\ In k (keys r)).
Proof. exact @heap_merge_sorted_union. Qed.

(* ---- rejection of keys that are out of order ---- *)
(* Under the pinned shape of the ordering assertion (ORDER_FIXED, regenerated from Writer::insert_key):
   after ANY accepted sequence of inserts (any block length), inserting a key <= the last accepted key
   panics -- inside a block through the assertion of insert_key, across a block boundary through the
   assertion of find_shorter_str_in_between.  No exception.  If the source goes back to the old shape,
   `order_fixed_pinned` no longer holds and this proof breaks. *)
Theorem C15_rejects_unordered : forall V (block_len : N) (st : wstate V) lk k,
  reachable ORDER_FIXED block_len st (Some lk) -> ble k lk = true ->
  exists p, insert_key ORDER_FIXED st k = WPanic p.
Proof. intros V bl st lk k. apply rejects_unordered. exact order_fixed_pinned. Qed.

(* the source has exactly one of the two known shapes, for both repaired defects *)
Theorem C15_code_shapes_known :
  SST_ORDER_CHECK_BLOCK_START + SST_ORDER_CHECK_PREV_EMPTY = 1 /\ SST_RANGE_INVERTED_EMPTY + SST_RANGE_SLICE_UNGUARDED = 1.
Proof. exact (conj order_shape_known range_shape_known). Qed.

(* the old shape (model parameter false) rejected everything except the class F11 *)
Theorem C15_rejects_unordered_old_shape : forall V (block_len : N) (st : wstate V) lk k,
  reachable false block_len st (Some lk) -> ble k lk = true -> ~ F11_state st k ->
  exists p, insert_key false st k = WPanic p.
Proof. intros V bl st lk k. apply rejects_unordered_old. reflexivity. Qed.

(* ---- inverted ranges ---- *)
(* Under the pinned shape of file_slice_for_range (RANGE_FIXED) the block selection never panics, for any
   dictionary, bounds and limit; and whatever sorted pairs it hands to the streamer, an inverted range
   streams nothing, as the sorted map does. *)
Theorem C15_ranges_never_panic : forall V (d : list (rblock V)) lo hi limit,
  slice_for_range RANGE_FIXED d lo hi limit <> SlicePanic.
Proof. intros V d lo hi limit. rewrite range_fixed_pinned. apply slice_never_panics. Qed.

Theorem C15_inverted_range_empty : forall V (lo hi : bound) (l : smap V), range_inverted lo hi = true ->
  ssorted (keys l) = true -> stream_loop lo hi l = [] /\ sm_range lo hi l = [].
Proof. exact @inverted_range_streams_nothing. Qed.

(* ---- non-vacuity ---- *)
Example ex_keys : list bytes := [[]; [0]; [0; 255]; [97]; [97; 98; 99; 100; 101; 102; 103; 104; 105; 106; 107; 108; 109; 110; 111; 112; 113]; [97; 98; 255]].
Example ex_keys_sorted : ssorted ex_keys = true. Proof. vm_compute. reflexivity. Qed.
Example ex_block_roundtrip : decode_block_keys (encode_block_keys ex_keys) = Some ex_keys. Proof. vm_compute. reflexivity. Qed.
Example ex_amb_pair : (amb_keep, amb_add) = (1, 0). Proof. vm_compute. reflexivity. Qed.
(* the ambiguity is real: the header (1, 0) is written as the byte that the reader takes for VINT_MODE *)
Example ex_amb_misread : read_keep_add (encode_keep_add 1 0 ++ [7; 7]) = Some (7, 7, []). Proof. vm_compute. reflexivity. Qed.

(* ---- F11 (repaired in /repo; witness about the OLD shape, model parameter false): the ordering
   assertion `|| previous_key.is_empty()` lets a duplicate of the empty key through ---- *)
Theorem C15_rejects_unordered_refuted :
  ssorted [[]; []; [97]] = false /\ f11_class SST_BLOCK_LEN [[]; []; [97]] = true /\
  first_reject false SST_BLOCK_LEN w_init [([], tt); ([], tt); ([97], tt)] 0 = None /\
  option_map snd (build false SST_BLOCK_LEN [([], tt); ([], tt); ([97], tt)]) = Some 3.
Proof. vm_compute. repeat split; reflexivity. Qed.

(* regression: the pinned shape rejects the same stream at its second key *)
Example ex_f11_now_rejected : first_reject ORDER_FIXED SST_BLOCK_LEN w_init [([], tt); ([], tt); ([97], tt)] 0 = Some 1.
Proof. vm_compute. reflexivity. Qed.

(* ---- F151 (repaired in /repo; witness about the OLD shape, model parameter false): an inverted range whose
   bounds fall into different blocks panics instead of yielding [] ---- *)
Definition f151_kvs : smap N := [([97], 1); ([98], 2); ([99], 3); ([100], 4)].
Theorem C15_inverted_range_refuted :
  sm_range (Incl [100]) (Excl [97]) f151_kvs = [] /\
  f151_class 0 f151_kvs (Incl [100]) (Excl [97]) = true /\
  with_dict 0 f151_kvs (fun d _ => match range false d (Incl [100]) (Excl [97]) None with None => true | Some _ => false end) = true /\
  (* inside one block the same range streamed nothing *)
  with_dict SST_BLOCK_LEN f151_kvs (fun d _ => match range false d (Incl [100]) (Excl [97]) None with Some [] => true | _ => false end) = true.
Proof. vm_compute. repeat split; reflexivity. Qed.

(* regression: the pinned shape streams nothing there *)
Example ex_f151_now_empty :
  with_dict 0 f151_kvs (fun d _ => match range RANGE_FIXED d (Incl [100]) (Excl [97]) None with Some [] => true | _ => false end) = true.
Proof. vm_compute. reflexivity. Qed.

Example ex_reachable_f11 : exists st, reachable false SST_BLOCK_LEN st (Some []) /\ F11_state st [] /\ exists st', insert_key (V := unit) false st [] = WOk st'.
Proof.
  eexists. split; [eapply (reach_step false SST_BLOCK_LEN _ None [] tt); [apply reach_init|vm_compute; reflexivity]|].
  split; [vm_compute; repeat split; discriminate|]. eexists. vm_compute. reflexivity.
Qed.

Example ex_merge : heap_merge N.add [[([97], 1); ([99], 2)]; [([], 5); ([99], 10)]; []] = [([], 5); ([97], 1); ([99], 12)]
  /\ merge_ord_maps [[[97]; [99]]; [[]; [99]]; []] = [[1; 2]; [0; 2]; []].
Proof. vm_compute. split; reflexivity. Qed.

Print Assumptions C15_vint_roundtrip.
Print Assumptions C15_header_roundtrip.
Print Assumptions C15_front_coding_unambiguous.
Print Assumptions C15_block_roundtrip.
Print Assumptions C15_block_search.
Print Assumptions C15_block_body_roundtrip.
Print Assumptions C15_value_codecs.
Print Assumptions C15_frames_roundtrip.
Print Assumptions C15_rejects_unordered_refuted.
Print Assumptions C15_block_index.
Print Assumptions C15_separator_between.
Print Assumptions C15_roundtrip.
Print Assumptions C15_lookups.
Print Assumptions C15_ranges.
Print Assumptions C15_merge.
Print Assumptions C15_rejects_unordered.
Print Assumptions C15_code_shapes_known.
Print Assumptions C15_rejects_unordered_old_shape.
Print Assumptions C15_ranges_never_panic.
Print Assumptions C15_inverted_range_empty.
Print Assumptions C15_inverted_range_refuted.
