(* CRC-32 (IEEE 802.3, reflected, init and final xor 0xFFFFFFFF) -- the checksum
   `crc32fast::Hasher` computes and that tantivy's `FooterProxy` / `validate_checksum`
   (src/directory/footer.rs, src/directory/managed_directory.rs) rely on.

   Definition = bit-serial LFSR over `list bool`.  A byte-at-a-time formulation over N
   (`crc32`) is proved equal to it and is what the correspondence check evaluates. *)
From TV Require Import Base.Prelude.
Local Open Scope N_scope.

Definition POLY : N := 0xEDB88320.
Definition MASK : N := 0xFFFFFFFF.

(* one LFSR shift (state only) *)
Definition g (x : N) : N := if N.odd x then N.lxor (N.div2 x) POLY else N.div2 x.

Definition step (s : N) (b : bool) : N := g (N.lxor s (N.b2n b)).
Definition feed (s : N) (bits : list bool) : N := fold_left step bits s.
Definition crc_bits (m : list bool) : N := N.lxor (feed MASK m) MASK.

(* bytes, least significant bit first *)
Fixpoint bits_aux (n : nat) (b : N) : list bool :=
  match n with O => [] | S n' => N.odd b :: bits_aux n' (N.div2 b) end.
Definition byte_bits (b : N) : list bool := bits_aux 8 b.
Definition bits_of_bytes (l : bytes) : list bool := flat_map byte_bits l.

Definition crc_byte_step (s : N) (b : N) : N := iter 8 g (N.lxor s b).
Definition crc_state (s : N) (l : bytes) : N := fold_left crc_byte_step l s.
Definition crc32 (l : bytes) : N := N.lxor (crc_state MASK l) MASK.

(* incremental hasher, as crc32fast::Hasher is used: new / update* / finalize *)
Definition hasher_new : N := MASK.
Definition hasher_update (h : N) (l : bytes) : N := crc_state h l.
Definition hasher_finalize (h : N) : N := N.lxor h MASK.

(* ---------- value of a bit string (little endian) ---------- *)
Definition sd (b : bool) (x : N) : N := if b then N.succ_double x else N.double x.
Fixpoint bits_to_N (l : list bool) : N :=
  match l with [] => 0 | b :: r => sd b (bits_to_N r) end.

Definition xorl (a b : list bool) : list bool := map (fun p => xorb (fst p) (snd p)) (combine a b).

Lemma lxor_sd b1 b2 x y : N.lxor (sd b1 x) (sd b2 y) = sd (xorb b1 b2) (N.lxor x y).
Proof.
  destruct b1, b2, x as [|p], y as [|q]; try reflexivity;
  cbn; try (destruct (Pos.lxor p q); reflexivity).
Qed.

Lemma sd_b2n b x : sd b x = N.lxor (N.b2n b) (N.double x).
Proof. destruct b, x; reflexivity. Qed.

Lemma g_double x : g (N.double x) = x.
Proof. destruct x; reflexivity. Qed.

Lemma div2_lxor x y : N.div2 (N.lxor x y) = N.lxor (N.div2 x) (N.div2 y).
Proof. rewrite !N.div2_spec. apply N.shiftr_lxor. Qed.

Lemma odd_lxor x y : N.odd (N.lxor x y) = xorb (N.odd x) (N.odd y).
Proof. rewrite <- !N.bit0_odd. apply N.lxor_spec. Qed.

Lemma g_linear x y : g (N.lxor x y) = N.lxor (g x) (g y).
Proof.
  unfold g. rewrite odd_lxor, div2_lxor.
  destruct (N.odd x), (N.odd y); cbn [xorb].
  - rewrite (N.lxor_comm (N.div2 y) POLY), N.lxor_assoc, <- (N.lxor_assoc POLY POLY),
      N.lxor_nilpotent, N.lxor_0_l. reflexivity.
  - rewrite !(N.lxor_comm _ POLY), N.lxor_assoc. reflexivity.
  - rewrite N.lxor_assoc. reflexivity.
  - reflexivity.
Qed.

Lemma g_0 : g 0 = 0. Proof. reflexivity. Qed.

Lemma iter_g_linear n x y : iter n g (N.lxor x y) = N.lxor (iter n g x) (iter n g y).
Proof. induction n as [|n IH]; [reflexivity|]. rewrite !iter_succ, IH. apply g_linear. Qed.

Lemma iter_g_0 n : iter n g 0 = 0.
Proof. induction n as [|n IH]; [reflexivity|]. rewrite iter_succ, IH. reflexivity. Qed.

(* Feeding a bit string = loading its value into the state and shifting |bits| times. *)
Lemma feed_iter bits : forall s, feed s bits = iter (length bits) g (N.lxor s (bits_to_N bits)).
Proof.
  induction bits as [|b r IH]; intros s.
  - cbn. now rewrite N.lxor_0_r.
  - cbn [feed fold_left length bits_to_N]. fold (feed (step s b) r). rewrite IH.
    rewrite iter_succ_r. f_equal. unfold step.
    rewrite sd_b2n, <- N.lxor_assoc, (g_linear _ (N.double _)), g_double.
    reflexivity.
Qed.

Lemma bits_to_N_xorl a : forall b, length a = length b ->
  bits_to_N (xorl a b) = N.lxor (bits_to_N a) (bits_to_N b).
Proof.
  induction a as [|x a IH]; intros [|y b] Hl; try discriminate; [reflexivity|].
  cbn [xorl combine map fst snd bits_to_N]. fold (xorl a b).
  rewrite lxor_sd, IH; [reflexivity|]. now injection Hl.
Qed.

Lemma xorl_length a : forall b, length a = length b -> length (xorl a b) = length a.
Proof.
  unfold xorl. intros b H. rewrite map_length, combine_length, <- H. apply Nat.min_id.
Qed.

(* C20 linearity: the checksum of a damaged message differs from the original by the
   pure-LFSR image of the error pattern. *)
Lemma crc_bits_xor m e : length e = length m ->
  crc_bits (xorl m e) = N.lxor (crc_bits m) (iter (length e) g (bits_to_N e)).
Proof.
  intros Hl. unfold crc_bits. rewrite !feed_iter, bits_to_N_xorl by now symmetry.
  rewrite xorl_length by now symmetry. rewrite <- Hl.
  rewrite <- N.lxor_assoc, iter_g_linear.
  rewrite !N.lxor_assoc. f_equal. apply N.lxor_comm.
Qed.

(* ---------- g is injective on 32-bit states ---------- *)
Definition W32 : N := 0x100000000.

Lemma lt_pow2_lxor n a b : (a < 2 ^ n)%N -> (b < 2 ^ n)%N -> (N.lxor a b < 2 ^ n)%N.
Proof.
  intros Ha Hb.
  destruct (N.eq_dec (N.lxor a b) 0) as [E|E]; [rewrite E; apply N.neq_0_lt_0, N.pow_nonzero; lia|].
  apply N.log2_lt_pow2; [lia|].
  eapply N.le_lt_trans; [apply N.log2_lxor|].
  apply N.max_lub_lt.
  - destruct (N.eq_dec a 0) as [->|Na]; [cbn|apply N.log2_lt_pow2; lia].
    destruct (N.eq_dec n 0) as [->|]; [|lia]. cbn in Hb. assert (b = 0%N) by lia; subst. now cbn in E.
  - destruct (N.eq_dec b 0) as [->|Nb]; [cbn|apply N.log2_lt_pow2; lia].
    destruct (N.eq_dec n 0) as [->|]; [|lia]. cbn in Ha. assert (a = 0%N) by lia; subst. now cbn in E.
Qed.

Lemma div2_lt x n : (x < 2 ^ N.succ n)%N -> (N.div2 x < 2 ^ n)%N.
Proof.
  intros H. rewrite N.div2_div. rewrite N.pow_succ_r' in H.
  apply N.div_lt_upper_bound; lia.
Qed.

Lemma g_bound x : (x < W32)%N -> (g x < W32)%N.
Proof.
  intros H. unfold g.
  assert (Hd : (N.div2 x < 2 ^ 32)%N).
  { rewrite N.div2_div. apply N.div_lt_upper_bound; [lia|]. change W32 with (2^32)%N in H. lia. }
  destruct (N.odd x); [|exact Hd].
  change W32 with (2 ^ 32)%N. apply lt_pow2_lxor; [exact Hd|]. reflexivity.
Qed.

Lemma g_inj0 x : (x < W32)%N -> g x = 0%N -> x = 0%N.
Proof.
  intros H E. unfold g in E.
  assert (Hd : (N.div2 x < 2 ^ 31)%N).
  { apply div2_lt. exact H. }
  destruct (N.odd x) eqn:Ho.
  - apply N.lxor_eq in E. rewrite E in Hd. exfalso. revert Hd. vm_compute. discriminate.
  - rewrite N.div2_div in E. pose proof (N.div_mod x 2).
    rewrite <- N.negb_even in Ho. apply negb_false_iff in Ho.
    apply N.even_spec in Ho. destruct Ho as [k ->].
    rewrite N.mul_comm, N.div_mul in E by lia. subst. reflexivity.
Qed.

Lemma iter_g_bound n x : (x < W32)%N -> (iter n g x < W32)%N.
Proof. induction n as [|n IH]; intros H; [exact H|]. rewrite iter_succ. apply g_bound, IH, H. Qed.

Lemma iter_g_inj0 n x : (x < W32)%N -> iter n g x = 0%N -> x = 0%N.
Proof.
  induction n as [|n IH]; intros H E; [exact E|]. rewrite iter_succ in E.
  apply IH; [exact H|]. apply g_inj0; [apply iter_g_bound, H|exact E].
Qed.

(* ---------- bursts ---------- *)
Definition zeros (n : nat) : list bool := repeat false n.

Lemma bits_to_N_zeros_app a r : bits_to_N (zeros a ++ r) = iter a N.double (bits_to_N r).
Proof. induction a as [|a IH]; [reflexivity|]. rewrite iter_succ. cbn [zeros repeat app bits_to_N sd]. fold (zeros a). now rewrite IH. Qed.

Lemma bits_to_N_app_zeros b c : bits_to_N (b ++ zeros c) = bits_to_N b.
Proof.
  induction b as [|x b IH]; cbn [app bits_to_N].
  - induction c as [|c IHc]; cbn [zeros repeat bits_to_N sd]; [reflexivity|]. fold (zeros c). now rewrite IHc.
  - now rewrite IH.
Qed.

Lemma iter_g_double a x n : iter (a + n) g (iter a N.double x) = iter n g x.
Proof.
  induction a as [|a IH]; [reflexivity|].
  replace (S a + n)%nat with (S (a + n)) by lia.
  rewrite iter_succ_r, iter_succ, g_double. apply IH.
Qed.

Lemma bits_to_N_bound b : (bits_to_N b < 2 ^ N.of_nat (length b))%N.
Proof.
  induction b as [|x b IH]; [cbn; lia|].
  cbn [length bits_to_N]. rewrite Nat2N.inj_succ, N.pow_succ_r'.
  destruct x; cbn [sd]; [rewrite N.succ_double_spec|rewrite N.double_spec]; lia.
Qed.

Lemma bits_to_N_nonzero b : existsb (fun x => x) b = true -> bits_to_N b <> 0%N.
Proof.
  induction b as [|x b IH]; cbn [existsb bits_to_N]; [discriminate|].
  destruct x; cbn [sd orb].
  - intros _. rewrite N.succ_double_spec. lia.
  - intros H. specialize (IH H). rewrite N.double_spec. lia.
Qed.

(* An error pattern whose set bits all lie within a window of at most 32 consecutive bits. *)
Definition burst32 (e : list bool) : Prop :=
  exists a b c, e = zeros a ++ b ++ zeros c /\ (length b <= 32)%nat /\ existsb (fun x => x) b = true.

Theorem burst_detected m e :
  length e = length m -> burst32 e -> crc_bits (xorl m e) <> crc_bits m.
Proof.
  intros Hl (a & b & c & -> & Hb & Hnz).
  rewrite crc_bits_xor by exact Hl.
  rewrite bits_to_N_zeros_app, bits_to_N_app_zeros, !app_length.
  unfold zeros at 1 2. rewrite !repeat_length.
  rewrite iter_g_double.
  intros E. apply (f_equal (N.lxor (crc_bits m))) in E.
  rewrite <- N.lxor_assoc, N.lxor_nilpotent, N.lxor_0_l in E.
  apply iter_g_inj0 in E.
  - exact (bits_to_N_nonzero b Hnz E).
  - eapply N.lt_le_trans; [apply bits_to_N_bound|]. change W32 with (2^32)%N.
    apply N.pow_le_mono_r; lia.
Qed.

(* ---------- bytes vs bits ---------- *)
Lemma bits_to_N_bits_aux n : forall b, bits_to_N (bits_aux n b) = (b mod 2 ^ N.of_nat n)%N.
Proof.
  induction n as [|n IH]; intros b.
  - cbn. now rewrite N.mod_1_r.
  - cbn [bits_aux bits_to_N]. rewrite IH, Nat2N.inj_succ, N.pow_succ_r'.
    rewrite N.div2_div.
    pose proof (N.div_mod b 2) as Hb.
    assert (Ho : (b mod 2 = N.b2n (N.odd b))%N).
    { rewrite <- N.bit0_mod, N.bit0_odd. reflexivity. }
    rewrite N.mod_mul_r by (try apply N.pow_nonzero; lia).
    destruct (N.odd b); cbn [sd N.b2n] in *; [rewrite N.succ_double_spec|rewrite N.double_spec]; lia.
Qed.

Lemma byte_bits_length b : length (byte_bits b) = 8%nat.
Proof. reflexivity. Qed.

Lemma feed_byte s b : is_byte b = true -> feed s (byte_bits b) = crc_byte_step s b.
Proof.
  intros Hb. rewrite feed_iter, byte_bits_length. unfold byte_bits, crc_byte_step.
  rewrite bits_to_N_bits_aux. unfold is_byte in Hb. apply N.ltb_lt in Hb.
  change (2 ^ N.of_nat 8)%N with 256%N. now rewrite N.mod_small.
Qed.

Lemma feed_app s a b : feed s (a ++ b) = feed (feed s a) b.
Proof. apply fold_left_app. Qed.

Lemma feed_bytes l : forall s, wf_bytes l = true -> feed s (bits_of_bytes l) = crc_state s l.
Proof.
  induction l as [|b l IH]; intros s Hw; [reflexivity|].
  cbn [wf_bytes forallb] in Hw. apply andb_true_iff in Hw. destruct Hw as [Hb Hw].
  cbn [bits_of_bytes flat_map crc_state fold_left]. rewrite feed_app, feed_byte by exact Hb.
  apply IH, Hw.
Qed.

Theorem crc32_is_bitserial l : wf_bytes l = true -> crc32 l = crc_bits (bits_of_bytes l).
Proof. intros H. unfold crc32, crc_bits. now rewrite feed_bytes. Qed.

Lemma crc_state_app s a b : crc_state s (a ++ b) = crc_state (crc_state s a) b.
Proof. apply fold_left_app. Qed.

(* ---------- byte-level damage: substituting one byte ---------- *)
Fixpoint set_nth (i : nat) (v : N) (l : bytes) : bytes :=
  match l, i with
  | [], _ => []
  | _ :: r, O => v :: r
  | x :: r, S i' => x :: set_nth i' v r
  end.

Lemma bits_aux_xor n : forall x y, bits_aux n (N.lxor x y) = xorl (bits_aux n x) (bits_aux n y).
Proof.
  induction n as [|n IH]; intros x y; [reflexivity|].
  cbn [bits_aux xorl combine map fst snd]. fold (xorl (bits_aux n (N.div2 x)) (bits_aux n (N.div2 y))).
  rewrite odd_lxor, div2_lxor, IH. reflexivity.
Qed.

Lemma xorl_app a1 : forall b1 a2 b2, length a1 = length b1 ->
  xorl (a1 ++ a2) (b1 ++ b2) = xorl a1 b1 ++ xorl a2 b2.
Proof.
  induction a1 as [|x a1 IH]; intros [|y b1] a2 b2 H; try discriminate; [reflexivity|].
  cbn [app]. unfold xorl in *. cbn [combine map]. rewrite IH; [reflexivity|]. now injection H.
Qed.

Lemma xorl_zeros_r a : xorl a (zeros (length a)) = a.
Proof.
  induction a as [|x a IH]; [reflexivity|].
  cbn [length zeros repeat]. unfold xorl in *. cbn [combine map fst snd].
  fold (zeros (length a)). rewrite IH. now rewrite xorb_false_r.
Qed.

Lemma bits_of_bytes_length l : length (bits_of_bytes l) = (8 * length l)%nat.
Proof. induction l as [|b l IH]; [reflexivity|]. cbn [bits_of_bytes flat_map]. rewrite app_length, byte_bits_length. fold (bits_of_bytes l). cbn [length]. lia. Qed.

Lemma bits_aux_nonzero n : forall d, (d < 2 ^ N.of_nat n)%N -> d <> 0%N ->
  existsb (fun x => x) (bits_aux n d) = true.
Proof.
  intros d Hd Hnz.
  destruct (existsb (fun x => x) (bits_aux n d)) eqn:E; [reflexivity|exfalso].
  assert (bits_to_N (bits_aux n d) = 0%N).
  { clear Hd Hnz. revert E. generalize (bits_aux n d). induction l as [|x l IH]; [reflexivity|].
    cbn [existsb bits_to_N]. destruct x; cbn [orb sd]; [discriminate|]. intros H. now rewrite IH. }
  rewrite bits_to_N_bits_aux, N.mod_small in H by exact Hd. contradiction.
Qed.

(* the bits of (set_nth i v l) are the bits of l xor a one-byte burst *)
Lemma set_nth_bits l : forall i v, (i < length l)%nat ->
  bits_of_bytes (set_nth i v l) =
  xorl (bits_of_bytes l)
       (zeros (8 * i) ++ byte_bits (N.lxor (nth i l 0%N) v) ++ zeros (8 * (length l - S i))).
Proof.
  induction l as [|x l IH]; intros i v Hi; [cbn in Hi; lia|].
  destruct i as [|i].
  - cbn [set_nth nth bits_of_bytes flat_map length]. fold (bits_of_bytes l).
    replace (8 * 0)%nat with 0%nat by lia. cbn [zeros repeat app].
    rewrite xorl_app by reflexivity.
    replace (S (length l) - 1)%nat with (length l) by lia.
    replace (8 * length l)%nat with (length (bits_of_bytes l)) by apply bits_of_bytes_length.
    rewrite xorl_zeros_r. f_equal. unfold byte_bits.
    rewrite <- bits_aux_xor. f_equal.
    rewrite <- N.lxor_assoc, N.lxor_nilpotent, N.lxor_0_l. reflexivity.
  - cbn [set_nth nth bits_of_bytes flat_map length]. fold (bits_of_bytes l) (bits_of_bytes (set_nth i v l)).
    cbn [length] in Hi. rewrite IH by lia.
    replace (8 * S i)%nat with (8 + 8 * i)%nat by lia.
    unfold zeros at 3. rewrite repeat_app. fold (zeros 8) (zeros (8 * i)).
    rewrite <- app_assoc. rewrite xorl_app by reflexivity.
    change (zeros 8) with (zeros (length (byte_bits x))). rewrite xorl_zeros_r.
    replace (S (length l) - S (S i))%nat with (length l - S i)%nat by lia. reflexivity.
Qed.

Theorem byte_substitution_detected l i v :
  wf_bytes l = true -> is_byte v = true -> (i < length l)%nat -> nth i l 0%N <> v ->
  crc32 (set_nth i v l) <> crc32 l.
Proof.
  intros Hw Hv Hi Hne.
  assert (Hw' : wf_bytes (set_nth i v l) = true).
  { clear Hne Hi. revert i. induction l as [|x l IH]; intros i; [destruct i; reflexivity|].
    cbn [wf_bytes forallb] in Hw. apply andb_true_iff in Hw. destruct Hw as [Hx Hl].
    destruct i; cbn [set_nth wf_bytes forallb]; apply andb_true_iff; split; auto. }
  rewrite !crc32_is_bitserial by assumption.
  rewrite set_nth_bits by exact Hi.
  apply burst_detected.
  - rewrite !app_length, bits_of_bytes_length, byte_bits_length. unfold zeros. rewrite !repeat_length. lia.
  - exists (8 * i)%nat, (byte_bits (N.lxor (nth i l 0%N) v)), (8 * (length l - S i))%nat.
    split; [reflexivity|]. split; [rewrite byte_bits_length; lia|].
    unfold byte_bits. apply bits_aux_nonzero.
    + change (2 ^ N.of_nat 8)%N with (2 ^ 8)%N. apply lt_pow2_lxor.
      * assert (Hn : is_byte (nth i l 0%N) = true).
        { unfold wf_bytes in Hw. rewrite forallb_forall in Hw. apply Hw, nth_In, Hi. }
        unfold is_byte in Hn. apply N.ltb_lt in Hn. exact Hn.
      * unfold is_byte in Hv. apply N.ltb_lt in Hv. exact Hv.
    + intros E. apply N.lxor_eq in E. contradiction.
Qed.

(* flipping bit k (0..7) of byte i *)
Definition flip_bit (i : nat) (k : N) (l : bytes) : bytes :=
  set_nth i (N.lxor (nth i l 0%N) (2 ^ k)) l.

Theorem bit_flip_detected l i k :
  wf_bytes l = true -> (i < length l)%nat -> (k < 8)%N -> crc32 (flip_bit i k l) <> crc32 l.
Proof.
  intros Hw Hi Hk. unfold flip_bit.
  assert (Hn : (nth i l 0 < 2 ^ 8)%N).
  { assert (Hn : is_byte (nth i l 0%N) = true).
    { unfold wf_bytes in Hw. rewrite forallb_forall in Hw. apply Hw, nth_In, Hi. }
    unfold is_byte in Hn. apply N.ltb_lt in Hn. exact Hn. }
  apply byte_substitution_detected; try assumption.
  - unfold is_byte. apply N.ltb_lt. change 256%N with (2 ^ 8)%N. apply lt_pow2_lxor; [exact Hn|].
    apply N.pow_lt_mono_r; lia.
  - intros E. symmetry in E. rewrite <- (N.lxor_0_r (nth i l 0%N)) in E at 1.
    apply (f_equal (N.lxor (nth i l 0%N))) in E.
    rewrite <- !N.lxor_assoc, N.lxor_nilpotent, !N.lxor_0_l in E.
    revert E. apply N.pow_nonzero. lia.
Qed.

(* incremental hashing = hashing the concatenation *)
Lemma hasher_concat (chunks : list bytes) :
  hasher_finalize (fold_left hasher_update chunks hasher_new) = crc32 (concat chunks).
Proof.
  unfold hasher_finalize, crc32, hasher_new. f_equal.
  generalize MASK. induction chunks as [|c cs IH]; intros s; [reflexivity|].
  cbn [fold_left concat]. unfold hasher_update at 2. rewrite crc_state_app. apply IH.
Qed.
