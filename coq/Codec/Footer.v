(* Footer layout, FooterProxy, extract_footer, open_read, validate_checksum
   -- transliterated from src/directory/footer.rs and src/directory/managed_directory.rs.
   Numeric constants come from Generated/Constants.v (regenerated from /repo each run). *)
From TV Require Import Base.Prelude Codec.CRC Generated.Constants.
Local Open Scope N_scope.

Record version := { v_major : N; v_minor : N; v_patch : N; v_fmt : N }.
Record footer := { f_version : version; f_crc : N }.

Definition version_eqb (a b : version) : bool :=
  N.eqb (v_major a) (v_major b) && N.eqb (v_minor a) (v_minor b) &&
  N.eqb (v_patch a) (v_patch b) && N.eqb (v_fmt a) (v_fmt b).
Definition footer_eqb (a b : footer) : bool :=
  version_eqb (f_version a) (f_version b) && N.eqb (f_crc a) (f_crc b).

(* the version this library writes: crate::VERSION *)
Definition lib_version : version :=
  {| v_major := CRATE_VERSION_MAJOR; v_minor := CRATE_VERSION_MINOR;
     v_patch := CRATE_VERSION_PATCH; v_fmt := INDEX_FORMAT_VERSION |}.

Inductive ferr := EofSmall | BadMagic | TooLong | EofFooter | BadJson | Incompatible | PanicUnderflow.
Inductive res (A : Type) := Ok (a : A) | Err (e : ferr).
Arguments Ok {A} a. Arguments Err {A} e.

Definition meta_len : nat := 8.   (* <(u32,u32)>::SIZE_IN_BYTES *)

Section WithPayloadCodec.
  (* serde_json for `Footer` is not modelled: any injective printer with a left-inverse parser *)
  Variable print_payload : footer -> bytes.
  Variable parse_payload : bytes -> option footer.
  Hypothesis parse_print : forall f, parse_payload (print_payload f) = Some f.
  Hypothesis print_short : forall f, N.of_nat (length (print_payload f)) <= FOOTER_MAX_LEN.

  (* Footer::append_footer *)
  Definition footer_bytes (f : footer) : bytes :=
    let p := print_payload f in
    p ++ le_bytes 4 (N.of_nat (length p)) ++ le_bytes 4 FOOTER_MAGIC_NUMBER.

  (* FooterProxy: a sequence of write(buf) calls where the inner writer accepts `n <= |buf|`
     bytes, then terminate.  State = (hasher, bytes that reached the inner writer). *)
  Record proxy := { p_hasher : N; p_out : bytes }.
  Definition proxy_new : proxy := {| p_hasher := hasher_new; p_out := [] |}.
  Definition proxy_write (p : proxy) (ev : bytes * nat) : proxy :=
    let acc := firstn (snd ev) (fst ev) in
    {| p_hasher := hasher_update (p_hasher p) acc; p_out := p_out p ++ acc |}.
  Definition proxy_terminate (v : version) (p : proxy) : bytes :=
    p_out p ++ footer_bytes {| f_version := v; f_crc := hasher_finalize (p_hasher p) |}.
  Definition proxy_run (v : version) (evs : list (bytes * nat)) : bytes :=
    proxy_terminate v (fold_left proxy_write evs proxy_new).

  Definition accepted (evs : list (bytes * nat)) : bytes :=
    concat (map (fun ev => firstn (snd ev) (fst ev)) evs).

  (* Footer::extract_footer, branch by branch.  `EXTRACT_MIN_LEN` is the literal of the first
     length test in the source; when it is below 8, `slice_from_end(8)` computes
     `len - 8` on usize and panics (debug: overflow; release: out-of-range slice). *)
  Definition extract_footer (file : bytes) : res (footer * bytes) :=
    let n := length file in
    if N.ltb (N.of_nat n) EXTRACT_MIN_LEN then Err EofSmall
    else if Nat.ltb n meta_len then Err PanicUnderflow
    else
      let tail := skipn (n - meta_len) file in
      let flen := le_value (firstn 4 tail) in
      let magic := le_value (skipn 4 tail) in
      if negb (N.eqb magic FOOTER_MAGIC_NUMBER) then Err BadMagic
      else if N.ltb FOOTER_MAX_LEN flen then Err TooLong
      else
        let total := (N.to_nat flen + meta_len)%nat in
        if Nat.ltb n total then Err EofFooter
        else
          match parse_payload (firstn (N.to_nat flen) (skipn (n - total) file)) with
          | None => Err BadJson
          | Some f => Ok (f, firstn (n - total) file)
          end.

  Definition is_compatible (f : footer) : bool :=
    N.leb INDEX_FORMAT_OLDEST_SUPPORTED_VERSION (v_fmt (f_version f)) &&
    N.leb (v_fmt (f_version f)) INDEX_FORMAT_VERSION.

  (* ManagedDirectory::open_read *)
  Definition open_read (file : bytes) : res bytes :=
    match extract_footer file with
    | Err e => Err e
    | Ok (f, body) => if is_compatible f then Ok body else Err Incompatible
    end.

  (* ManagedDirectory::validate_checksum : Ok true = intact, Ok false = damaged *)
  Definition validate_checksum (file : bytes) : res bool :=
    match extract_footer file with
    | Err e => Err e
    | Ok (f, body) => Ok (N.eqb (f_crc f) (crc32 body))
    end.

  (* ---------------- lemmas ---------------- *)
  Lemma proxy_fold evs : forall p,
    fold_left proxy_write evs p =
    {| p_hasher := hasher_update (p_hasher p) (accepted evs); p_out := p_out p ++ accepted evs |}.
  Proof.
    induction evs as [|ev evs IH]; intros [h o].
    - cbn. now rewrite app_nil_r.
    - cbn [fold_left]. rewrite IH. unfold proxy_write, accepted. cbn [p_hasher p_out map concat].
      unfold hasher_update. rewrite crc_state_app, app_assoc. reflexivity.
  Qed.

  Lemma proxy_hashes_accepted_bytes v evs :
    proxy_run v evs = accepted evs ++ footer_bytes {| f_version := v; f_crc := crc32 (accepted evs) |}.
  Proof.
    unfold proxy_run, proxy_terminate. rewrite proxy_fold. cbn [p_hasher p_out proxy_new app].
    reflexivity.
  Qed.

  Lemma footer_bytes_length f :
    length (footer_bytes f) = (length (print_payload f) + meta_len)%nat.
  Proof. unfold footer_bytes. rewrite !app_length, !le_bytes_length. reflexivity. Qed.

  Hypothesis min_len_ok : EXTRACT_MIN_LEN <= 8.

  Lemma extract_roundtrip body f :
    extract_footer (body ++ footer_bytes f) = Ok (f, body).
  Proof.
    unfold extract_footer, footer_bytes.
    pose proof (print_short f) as Hp. pose proof (parse_print f) as Hpp.
    remember (print_payload f) as p eqn:Ep. clear Ep.
    remember (le_bytes 4 (N.of_nat (length p))) as L4 eqn:EL.
    remember (le_bytes 4 FOOTER_MAGIC_NUMBER) as M4 eqn:EM.
    assert (HL : length L4 = 4%nat) by (subst; apply le_bytes_length).
    assert (HM : length M4 = 4%nat) by (subst; apply le_bytes_length).
    assert (Hlen : length (body ++ p ++ L4 ++ M4) = (length body + length p + meta_len)%nat).
    { rewrite !app_length, HL, HM. unfold meta_len. lia. }
    rewrite Hlen.
    destruct (N.ltb_spec (N.of_nat (length body + length p + meta_len)) EXTRACT_MIN_LEN) as [H|_].
    { unfold meta_len in H. lia. }
    destruct (Nat.ltb_spec (length body + length p + meta_len) meta_len) as [H|_]; [lia|].
    replace (length body + length p + meta_len - meta_len)%nat with (length (body ++ p)) by (rewrite app_length; lia).
    assert (E1 : skipn (length (body ++ p)) (body ++ p ++ L4 ++ M4) = L4 ++ M4).
    { rewrite app_assoc. apply skipn_app_exact. }
    rewrite !E1.
    assert (E2 : firstn 4 (L4 ++ M4) = L4) by (rewrite <- HL; apply firstn_app_exact).
    assert (E3 : skipn 4 (L4 ++ M4) = M4) by (rewrite <- HL; apply skipn_app_exact).
    rewrite !E2, !E3. clear E1 E2 E3.
    subst L4 M4. rewrite !le_value_bytes.
    2:{ apply N.le_lt_trans with (m := FOOTER_MAX_LEN); [exact Hp|]. apply N.lt_le_trans with (m := 2^32); [apply FOOTER_MAX_LEN_u32|reflexivity]. }
    2:{ apply N.lt_le_trans with (m := 2 ^ 32); [apply FOOTER_MAGIC_NUMBER_u32|]. reflexivity. }
    rewrite N.eqb_refl. cbn [negb].
    destruct (N.ltb_spec FOOTER_MAX_LEN (N.of_nat (length p))) as [H|_]; [lia|].
    rewrite Nat2N.id.
    destruct (Nat.ltb_spec (length body + length p + meta_len) (length p + meta_len)) as [H|_]; [lia|].
    replace (length body + length p + meta_len - (length p + meta_len))%nat with (length body) by lia.
    rewrite skipn_app_exact, firstn_app_exact, firstn_app_exact, Hpp. reflexivity.
  Qed.

  (* what was written is what is read back, for every sequence of (partial) writes *)
  Lemma open_read_proxy v evs :
    N.leb INDEX_FORMAT_OLDEST_SUPPORTED_VERSION (v_fmt v) && N.leb (v_fmt v) INDEX_FORMAT_VERSION = true ->
    open_read (proxy_run v evs) = Ok (accepted evs).
  Proof.
    intros Hv. unfold open_read. rewrite proxy_hashes_accepted_bytes, extract_roundtrip.
    unfold is_compatible. cbn [f_version]. now rewrite Hv.
  Qed.

  Lemma validate_intact v evs : validate_checksum (proxy_run v evs) = Ok true.
  Proof.
    unfold validate_checksum. rewrite proxy_hashes_accepted_bytes, extract_roundtrip.
    cbn [f_crc]. now rewrite N.eqb_refl.
  Qed.

  (* validate reports a file exactly when its stored crc differs from the crc of its body *)
  Lemma validate_exact body f :
    validate_checksum (body ++ footer_bytes f) = Ok (N.eqb (f_crc f) (crc32 body)).
  Proof. unfold validate_checksum. now rewrite extract_roundtrip. Qed.

  (* damage to the body of a well-formed file: one byte substituted => reported *)
  Lemma validate_detects_substitution body v i b :
    wf_bytes body = true -> is_byte b = true -> (i < length body)%nat -> nth i body 0 <> b ->
    validate_checksum (set_nth i b body ++ footer_bytes {| f_version := v; f_crc := crc32 body |}) = Ok false.
  Proof.
    intros Hw Hb Hi Hne. rewrite validate_exact. cbn [f_crc]. f_equal.
    apply N.eqb_neq. intros E. symmetry in E. revert E.
    now apply byte_substitution_detected.
  Qed.

  Lemma validate_detects_bit_flip body v i k :
    wf_bytes body = true -> (i < length body)%nat -> k < 8 ->
    validate_checksum (flip_bit i k body ++ footer_bytes {| f_version := v; f_crc := crc32 body |}) = Ok false.
  Proof.
    intros Hw Hi Hk. rewrite validate_exact. cbn [f_crc]. f_equal.
    apply N.eqb_neq. intros E. symmetry in E. revert E.
    now apply bit_flip_detected.
  Qed.

  Lemma version_gate body f :
    open_read (body ++ footer_bytes f) =
    if N.leb INDEX_FORMAT_OLDEST_SUPPORTED_VERSION (v_fmt (f_version f)) && N.leb (v_fmt (f_version f)) INDEX_FORMAT_VERSION
    then Ok body else Err Incompatible.
  Proof. unfold open_read. rewrite extract_roundtrip. reflexivity. Qed.

End WithPayloadCodec.

(* extract_footer never takes the underflow branch iff the first length test is >= 8 *)
Lemma extract_no_panic pp file :
  8 <= EXTRACT_MIN_LEN -> extract_footer pp file <> Err PanicUnderflow.
Proof.
  intros H. unfold extract_footer.
  destruct (N.ltb_spec (N.of_nat (length file)) EXTRACT_MIN_LEN) as [_|H1]; [discriminate|].
  destruct (Nat.ltb_spec (length file) meta_len) as [H2|_]; [unfold meta_len in H2; lia|].
  destruct (negb _); [discriminate|]. destruct (N.ltb _ _); [discriminate|].
  destruct (Nat.ltb _ _); [discriminate|]. destruct (pp _); [destruct f|]; discriminate.
Qed.

(* ------------ concrete payload codec used when the model is *run* (tie) ------------
   serde_json prints the struct as the fixed template below with decimal integers.     *)
Definition digit (d : N) : N := 48 + d.
Fixpoint dec_aux (fuel : nat) (n : N) (acc : bytes) : bytes :=
  match fuel with
  | O => acc
  | S fuel' => let acc' := digit (n mod 10) :: acc in
               if N.ltb n 10 then acc' else dec_aux fuel' (n / 10) acc'
  end.
Definition dec (n : N) : bytes := dec_aux 40 n [].

Definition ascii (s : list N) := s.
(* {"version":{"major":  *)
Definition T1 : bytes := [123;34;118;101;114;115;105;111;110;34;58;123;34;109;97;106;111;114;34;58].
(* ,"minor": *)
Definition T2 : bytes := [44;34;109;105;110;111;114;34;58].
(* ,"patch": *)
Definition T3 : bytes := [44;34;112;97;116;99;104;34;58].
(* ,"index_format_version": *)
Definition T4 : bytes := [44;34;105;110;100;101;120;95;102;111;114;109;97;116;95;118;101;114;115;105;111;110;34;58].
(* },"crc": *)
Definition T5 : bytes := [125;44;34;99;114;99;34;58].
(* } *)
Definition T6 : bytes := [125].

Definition json_payload (f : footer) : bytes :=
  T1 ++ dec (v_major (f_version f)) ++ T2 ++ dec (v_minor (f_version f)) ++ T3 ++
  dec (v_patch (f_version f)) ++ T4 ++ dec (v_fmt (f_version f)) ++ T5 ++ dec (f_crc f) ++ T6.

(* strict parser of exactly that template *)
Fixpoint strip_prefix (p l : bytes) : option bytes :=
  match p, l with
  | [], _ => Some l
  | x :: p', y :: l' => if N.eqb x y then strip_prefix p' l' else None
  | _ :: _, [] => None
  end.
Fixpoint take_digits (l : bytes) (acc : N) (seen : bool) : option (N * bytes) :=
  match l with
  | d :: r => if N.leb 48 d && N.leb d 57 then take_digits r (10 * acc + (d - 48)) true
              else if seen then Some (acc, l) else None
  | [] => if seen then Some (acc, []) else None
  end.
Definition bind {A B} (o : option A) (f : A -> option B) := match o with Some a => f a | None => None end.
Definition json_parse (l : bytes) : option footer :=
  bind (strip_prefix T1 l) (fun l => bind (take_digits l 0 false) (fun '(ma, l) =>
  bind (strip_prefix T2 l) (fun l => bind (take_digits l 0 false) (fun '(mi, l) =>
  bind (strip_prefix T3 l) (fun l => bind (take_digits l 0 false) (fun '(pa, l) =>
  bind (strip_prefix T4 l) (fun l => bind (take_digits l 0 false) (fun '(fv, l) =>
  bind (strip_prefix T5 l) (fun l => bind (take_digits l 0 false) (fun '(c, l) =>
  match strip_prefix T6 l with
  | Some [] => Some {| f_version := {| v_major := ma; v_minor := mi; v_patch := pa; v_fmt := fv |}; f_crc := c |}
  | _ => None
  end)))))))))).

(* the runnable instances *)
Definition run_file (v : version) (evs : list (bytes * nat)) : bytes := proxy_run json_payload v evs.
Definition run_open_read (file : bytes) := open_read json_parse file.
Definition run_validate (file : bytes) := validate_checksum json_parse file.

(* outcome codes shared with the harness: 0 intact / 1 mismatch-or-different / 2 error /
   3 incompatible / 4 panic *)
Definition outcome_validate (r : res bool) : N :=
  match r with
  | Ok true => 0 | Ok false => 1
  | Err PanicUnderflow => 4 | Err Incompatible => 3 | Err _ => 2
  end.
Definition outcome_open (r : res bytes) (expected : bytes) : N :=
  match r with
  | Ok b => if list_eqb N.eqb b expected then 0 else 1
  | Err PanicUnderflow => 4 | Err Incompatible => 3 | Err _ => 2
  end.
