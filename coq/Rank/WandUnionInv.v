(* Rank/WandUnionInv.v -- the loop invariant of block_wand (union) and its preservation under the
   elementary state changes (one or several scorers move forward, permutation, removal of exhausted
   scorers); specification of find_pivot_doc.  Stdlib style. *)
From TV Require Import Base.Prelude Generated.Constants Rank.Wand Rank.WandUnionBase Rank.WandUnionOps.
Local Open Scope Z_scope.

(* sum of max_score over the scorers whose current doc is below T *)
Definition lowterm (T : N) (s : scorer) : Z := if N.ltb (doc s) T then sc_max s else 0.
Definition lowmax (T : N) (scs : list scorer) : Z := zsum (map (lowterm T) scs).

(* the pruning condition behind the pivot: nothing is below T, or what is below T cannot reach th *)
Definition low (T : N) (scs : list scorer) (th : Z) : Prop :=
  Forall (fun s => (T <= doc s)%N) scs \/ lowmax T scs <= th.

Lemma present_app a b d : present (a ++ b) d <-> present a d \/ present b d.
Proof. unfold present. apply Exists_app. Qed.
Lemma present_cons s r d : present (s :: r) d <-> has (sc_post s) d \/ present r d.
Proof. unfold present. apply Exists_cons. Qed.
Lemma present_nil d : ~ present [] d.
Proof. unfold present. intro H. inversion H. Qed.
Lemma cur_app a b d : cur (a ++ b) d = cur a d + cur b d.
Proof. unfold cur. now rewrite map_app, zsum_app. Qed.
Lemma cur_cons s r d : cur (s :: r) d = sc_at (sc_post s) d + cur r d.
Proof. reflexivity. Qed.
Lemma lowmax_app T a b : lowmax T (a ++ b) = lowmax T a + lowmax T b.
Proof. unfold lowmax. now rewrite map_app, zsum_app. Qed.
Lemma lowmax_cons T s r : lowmax T (s :: r) = lowterm T s + lowmax T r.
Proof. reflexivity. Qed.
Lemma total_len_app a b : total_len (a ++ b) = (total_len a + total_len b)%nat.
Proof. unfold total_len. now rewrite map_app, nsum_app. Qed.
Lemma total_len_cons s r : total_len (s :: r) = (length (sc_post s) + total_len r)%nat.
Proof. reflexivity. Qed.

Lemma present_perm a b d : Permutation a b -> present a d -> present b d.
Proof. unfold present. intros P H. eapply Permutation_Exists; eauto. Qed.
Lemma cur_perm a b d : Permutation a b -> cur a d = cur b d.
Proof. intros P. unfold cur. apply zsum_perm. now apply Permutation_map. Qed.
Lemma lowmax_perm T a b : Permutation a b -> lowmax T a = lowmax T b.
Proof. intros P. unfold lowmax. apply zsum_perm. now apply Permutation_map. Qed.
Lemma total_len_perm a b : Permutation a b -> total_len a = total_len b.
Proof. intros P. unfold total_len. apply nsum_perm. now apply Permutation_map. Qed.

Lemma sokT_asc T s : sokT T s -> posts_asc s.
Proof. intros H. apply H. Qed.
Lemma sokT_max T s : sokT T s -> 0 <= sc_max s.
Proof. intros H. apply H. Qed.
Lemma sokT_sc_at T s d : sokT T s -> 0 <= sc_at (sc_post s) d <= sc_max s.
Proof.
  intros (A & _ & _ & D & _ & F). destruct (has_dec (sc_post s) d) as [H|H].
  - apply (sc_at_has_in 0) in H; [|exact A]. exact (D _ _ H).
  - rewrite (sc_at_not_has _ _ H). lia.
Qed.
Lemma lowterm_nonneg T T' s : sokT T s -> 0 <= lowterm T' s.
Proof. intros H. unfold lowterm. pose proof (sokT_max _ _ H). destruct (N.ltb (doc s) T'); lia. Qed.
Lemma lowmax_nonneg T T' scs : Forall (sokT T) scs -> 0 <= lowmax T' scs.
Proof. intros H. unfold lowmax. apply zsum_map_nonneg. eapply Forall_impl; [|exact H]. intros s. apply lowterm_nonneg. Qed.

(* the score of a document below T' is bounded by the max_scores of the scorers that are below T' *)
Lemma sc_at_le_lowterm T T' s d : sokT T s -> (d < T')%N -> sc_at (sc_post s) d <= lowterm T' s.
Proof.
  intros H Hd. pose proof (sokT_sc_at _ _ d H). unfold lowterm.
  destruct (N.ltb_spec (doc s) T') as [Hlt|Hge]; [lia|].
  rewrite sc_at_not_has; [lia|]. intro Hh. pose proof (has_doc_le _ _ (sokT_asc _ _ H) Hh). lia.
Qed.
Lemma cur_le_lowmax T T' scs d : Forall (sokT T) scs -> (d < T')%N -> cur scs d <= lowmax T' scs.
Proof.
  intros H Hd. unfold cur, lowmax. apply zsum_map_le. eapply Forall_impl; [|exact H].
  cbn beta. intros s Hs. now apply (sc_at_le_lowterm T).
Qed.
Lemma cur_nonneg T scs d : Forall (sokT T) scs -> 0 <= cur scs d.
Proof.
  intros H. unfold cur. apply zsum_map_nonneg. eapply Forall_impl; [|exact H]. intros s Hs. apply (sokT_sc_at _ _ d Hs).
Qed.
Lemma cur_zero_above scs d : Forall posts_asc scs -> Forall (fun s => (d < doc s)%N) scs -> cur scs d = 0.
Proof.
  intros A H. unfold cur. apply zsum_map_zero. rewrite Forall_forall in *. intros s Hs.
  apply sc_at_not_has. intro Hh. pose proof (has_doc_le _ _ (A _ Hs) Hh). specialize (H _ Hs). lia.
Qed.
Lemma not_present_above scs d : Forall posts_asc scs -> Forall (fun s => (d < doc s)%N) scs -> ~ present scs d.
Proof.
  intros A H Hp. unfold present in Hp. rewrite Exists_exists in Hp. destruct Hp as (s & Hs & Hh).
  rewrite Forall_forall in *. pose proof (has_doc_le _ _ (A _ Hs) Hh). specialize (H _ Hs). lia.
Qed.
Lemma lowmax_prefix T T' X Y : Forall (sokT T) Y -> Forall (fun s => (doc s < T')%N) X ->
  zsum (map sc_max X) <= lowmax T' (X ++ Y).
Proof.
  intros HY HX. rewrite lowmax_app. pose proof (lowmax_nonneg T T' Y HY).
  assert (lowmax T' X = zsum (map sc_max X)); [|lia].
  unfold lowmax. induction HX as [|s r Hs Hr IH]; [reflexivity|]. cbn [map zsum]. rewrite IH. unfold lowterm.
  destruct (N.ltb_spec (doc s) T'); [reflexivity|lia].
Qed.
Lemma lowmax_suffix_zero T' Y : Forall (fun s => (T' <= doc s)%N) Y -> lowmax T' Y = 0.
Proof.
  intros H. unfold lowmax. apply zsum_map_zero. eapply Forall_impl; [|exact H]. cbn beta. intros s Hs.
  unfold lowterm. destruct (N.ltb_spec (doc s) T'); [lia|reflexivity].
Qed.
Lemma lowmax_le_sum T T' X : Forall (sokT T) X -> lowmax T' X <= zsum (map sc_max X).
Proof.
  intros H. unfold lowmax. apply zsum_map_le. eapply Forall_impl; [|exact H]. cbn beta. intros s Hs.
  pose proof (sokT_max _ _ Hs). unfold lowterm. destruct (N.ltb (doc s) T'); lia.
Qed.

(* ------------------------------------------------------------------ several scorers move forward *)
Definition mv_le (t : N) (s s' : scorer) : Prop := exists t', (t' <= t)%N /\ mv t' s s'.
Definition mvs (t : N) : list scorer -> list scorer -> Prop := Forall2 (mv_le t).

Lemma mv_le_refl t s : mv_le t s s.
Proof. exists 0%N. split; [lia|apply mv_refl]. Qed.
Lemma mvs_refl t l : mvs t l l.
Proof. induction l; constructor; [apply mv_le_refl|assumption]. Qed.
Lemma mvs_app t a a' b b' : mvs t a a' -> mvs t b b' -> mvs t (a ++ b) (a' ++ b').
Proof. apply Forall2_app. Qed.
Lemma mvs_one t a x x' b : mv_le t x x' -> mvs t (a ++ x :: b) (a ++ x' :: b).
Proof. intros H. apply mvs_app; [apply mvs_refl|]. constructor; [exact H|apply mvs_refl]. Qed.
Lemma mvs_map t (f : scorer -> scorer) l : Forall (fun s => mv_le t s (f s)) l -> mvs t l (map f l).
Proof. induction 1; cbn [map]; constructor; assumption. Qed.

Lemma mvs_present_sub t scs scs' d : Forall posts_asc scs -> mvs t scs scs' -> present scs' d -> present scs d.
Proof.
  intros A M. induction M as [|s s' r r' (t' & Ht & Hm) Hr IH]; [auto|]. inversion A; subst.
  rewrite !present_cons. intros [H|H]; [left|right; auto].
  apply (mv_has t' s s' d) in H; [apply H|assumption|assumption].
Qed.
Lemma mvs_present_ge t scs scs' d : Forall posts_asc scs -> mvs t scs scs' -> (t <= d)%N -> present scs d -> present scs' d.
Proof.
  intros A M Hd. induction M as [|s s' r r' (t' & Ht & Hm) Hr IH]; [auto|]. inversion A; subst.
  rewrite !present_cons. intros [H|H]; [left|right; auto].
  apply (mv_has t' s s' d); [assumption|assumption|]. split; [exact H|lia].
Qed.
Lemma mvs_cur_ge t scs scs' d : Forall posts_asc scs -> mvs t scs scs' -> (t <= d)%N -> cur scs' d = cur scs d.
Proof.
  intros A M Hd. induction M as [|s s' r r' (t' & Ht & Hm) Hr IH]; [auto|]. inversion A; subst.
  rewrite !cur_cons, IH by assumption. rewrite (mv_sc_at t' s s' d) by assumption.
  destruct (N.ltb_spec d t'); [lia|reflexivity].
Qed.
Lemma mvs_cur_le T t scs scs' d : Forall (sokT T) scs -> mvs t scs scs' -> cur scs' d <= cur scs d.
Proof.
  intros A M. induction M as [|s s' r r' (t' & Ht & Hm) Hr IH]; [cbn; lia|]. inversion A; subst.
  rewrite !cur_cons. specialize (IH ltac:(assumption)). rewrite (mv_sc_at t' s s' d); [|eapply sokT_asc; eauto|assumption].
  pose proof (sokT_sc_at _ _ d ltac:(eassumption)). destruct (N.ltb d t'); lia.
Qed.
Lemma mvs_lowmax T T' t scs scs' : Forall (sokT T) scs -> mvs t scs scs' -> lowmax T' scs' <= lowmax T' scs.
Proof.
  intros A M. induction M as [|s s' r r' (t' & Ht & Hm) Hr IH]; [cbn; lia|]. inversion A; subst.
  rewrite !lowmax_cons. specialize (IH ltac:(assumption)).
  assert (lowterm T' s' <= lowterm T' s); [|lia].
  pose proof (mv_doc t' s s' (sokT_asc _ _ ltac:(eassumption)) Hm). pose proof (sokT_max _ _ ltac:(eassumption)).
  unfold lowterm. destruct Hm as (_ & ->). destruct (N.ltb_spec (doc s') T'), (N.ltb_spec (doc s) T'); lia.
Qed.
Lemma mvs_total_len t scs scs' : mvs t scs scs' -> (total_len scs' <= total_len scs)%nat.
Proof.
  intros M. induction M as [|s s' r r' (t' & Ht & Hm) Hr IH]; [cbn; lia|].
  rewrite !total_len_cons. pose proof (mv_len _ _ _ Hm). lia.
Qed.
Lemma mvs_length t scs scs' : mvs t scs scs' -> length scs' = length scs.
Proof. induction 1; cbn [length]; congruence. Qed.

(* ------------------------------------------------------------------ find_pivot_doc *)
Lemma find_before_spec scs : forall acc th i,
  match find_before scs acc th i with
  | Some (b, p) => exists A s C, scs = A ++ s :: C /\ b = (i + length A)%nat /\ p = doc s /\ p <> TERM /\
                     (A = [] \/ acc + zsum (map sc_max A) <= th) /\ th < acc + zsum (map sc_max A) + sc_max s
  | None => exists A C, scs = A ++ C /\ (A = [] \/ acc + zsum (map sc_max A) <= th) /\
                     match C with [] => True | s :: _ => doc s = TERM end
  end.
Proof.
  induction scs as [|s r IH]; intros acc th i; cbn [find_before].
  - exists [], []. repeat split; auto.
  - destruct (Z.ltb_spec th (acc + sc_max s)) as [Hlt|Hge].
    + destruct (N.eqb_spec (doc s) TERM) as [E|E].
      * exists [], (s :: r). repeat split; auto.
      * exists [], s, r. cbn [app length map zsum]. repeat split; auto; lia.
    + specialize (IH (acc + sc_max s) th (S i)). destruct (find_before r (acc + sc_max s) th (S i)) as [[b p]|].
      * destruct IH as (A & s0 & C & E & Eb & Ep & Hp & H1 & H2). exists (s :: A), s0, C.
        cbn [app length map zsum]. subst r. repeat split; auto; try lia. right. destruct H1 as [->|H1]; cbn [map zsum]; lia.
      * destruct IH as (A & C & E & H1 & H2). exists (s :: A), C. subst r. cbn [app map zsum]. repeat split; auto.
        right. destruct H1 as [->|H1]; cbn [map zsum]; lia.
Qed.

Lemma count_on_spec p l : exists B C, l = B ++ C /\ count_on p l = length B /\ Forall (fun s => doc s = p) B /\
  match C with [] => True | s :: _ => doc s <> p end.
Proof.
  induction l as [|s r IH]; [exists [], []; repeat split; auto|]. cbn [count_on].
  destruct (N.eqb_spec (doc s) p) as [E|E].
  - destruct IH as (B & C & -> & E2 & HB & HC). exists (s :: B), C. cbn [app length]. repeat split; auto.
  - exists [], (s :: r). repeat split; auto.
Qed.

Lemma sorted_tail_gt p x C : sorted (x :: C) -> (p <= doc x)%N -> doc x <> p -> Forall (fun s => (p < doc s)%N) (x :: C).
Proof.
  cbn [sorted]. intros (H1 & _) H2 H3. constructor; [lia|]. eapply Forall_impl; [|exact H1]. cbn beta. intros; lia.
Qed.

Lemma find_pivot_some T scs th b plen p :
  sorted scs -> Forall (sokT T) scs -> find_pivot_doc scs th = Some (b, plen, p) ->
  exists A s B C, scs = A ++ s :: B ++ C /\ b = length A /\ plen = length (A ++ s :: B) /\
    doc s = p /\ (p < TERM)%N /\ Forall (fun s => doc s = p) B /\ Forall (fun s => (doc s <= p)%N) A /\
    Forall (fun s => (p < doc s)%N) C /\ low p scs th /\ th < zsum (map sc_max (A ++ [s])).
Proof.
  intros Hs Hok. unfold find_pivot_doc. pose proof (find_before_spec scs 0 th 0) as H.
  destruct (find_before scs 0 th 0) as [[b0 p0]|]; [|discriminate]. intros E. injection E as <- <- <-.
  destruct H as (A & s & C0 & -> & Eb & Ep & Hp & H1 & H2). cbn [Nat.add] in Eb. subst b0.
  assert (Esk : skipn (S (length A)) (A ++ s :: C0) = C0).
  { clear. induction A as [|y A IH]; [reflexivity|exact IH]. }
  change (match A ++ s :: C0 with [] => [] | _ :: l => skipn (length A) l end) with (skipn (S (length A)) (A ++ s :: C0)).
  rewrite Esk. destruct (count_on_spec p0 C0) as (B & C & -> & Ec & HB & HC). rewrite Ec.
  exists A, s, B, C. subst p0.
  pose proof Hs as Hs0. apply sorted_app in Hs0. destruct Hs0 as (HsA & HsR & HAR).
  assert (HA : Forall (fun s0 => (doc s0 <= doc s)%N) A).
  { eapply Forall_impl; [|exact HAR]. cbn beta. intros y Hy. now inversion Hy. }
  cbn [sorted] in HsR. destruct HsR as (HsB & HsBC).
  assert (HCgt : Forall (fun s0 => (doc s < doc s0)%N) C).
  { destruct C as [|x C']; [constructor|]. apply sorted_app in HsBC. destruct HsBC as (_ & HsC & _).
    apply sorted_tail_gt; [exact HsC| |exact HC]. apply Forall_app in HsB. destruct HsB as (_ & HsB). now inversion HsB. }
  assert (HsT : (doc s < TERM)%N).
  { apply Forall_app in Hok. destruct Hok as (_ & Hok). inversion Hok; subst. pose proof (doc_le_TERM s (sokT_asc _ _ ltac:(eassumption))). lia. }
  repeat split; auto.
  - rewrite app_length. cbn [length]. lia.
  - (* low (doc s) scs th *)
    assert (Hge : Forall (fun s0 => (doc s <= doc s0)%N) (s :: B ++ C)).
    { constructor; [lia|]. apply Forall_app. split.
      * eapply Forall_impl; [|exact HB]. cbn beta. intros; lia.
      * eapply Forall_impl; [|exact HCgt]. cbn beta. intros; lia. }
    destruct H1 as [->|H1]; [left; exact Hge|]. right.
    apply Forall_app in Hok. destruct Hok as (HokA & HokR).
    rewrite lowmax_app. rewrite (lowmax_suffix_zero (doc s) (s :: B ++ C)) by exact Hge.
    pose proof (lowmax_le_sum T (doc s) A HokA). lia.
  - rewrite map_app, zsum_app. cbn [map zsum]. lia.
Qed.

Lemma find_pivot_none T scs th :
  sorted scs -> Forall (sokT T) scs -> find_pivot_doc scs th = None ->
  low TERM scs th.
Proof.
  intros Hs Hok. unfold find_pivot_doc. pose proof (find_before_spec scs 0 th 0) as H.
  destruct (find_before scs 0 th 0) as [[b0 p0]|]; [discriminate|]. intros _.
  destruct H as (A & C & -> & H1 & H2).
  assert (HC : Forall (fun s => doc s = TERM) C).
  { destruct C as [|x C']; [constructor|]. apply sorted_app in Hs. destruct Hs as (_ & HsC & _).
    cbn [sorted] in HsC. destruct HsC as (HsC & _). constructor; [exact H2|].
    apply Forall_app in Hok. destruct Hok as (_ & Hok). inversion Hok; subst.
    rewrite Forall_forall in *. intros y Hy. pose proof (doc_le_TERM y (sokT_asc _ _ (H4 _ Hy))). specialize (HsC _ Hy). lia. }
  destruct H1 as [->|H1]; [left; eapply Forall_impl; [|exact HC]; cbn beta; intros; lia|]. right.
  apply Forall_app in Hok. destruct Hok as (HokA & _).
  rewrite lowmax_app, (lowmax_suffix_zero TERM C).
  - pose proof (lowmax_le_sum T TERM A HokA). lia.
  - eapply Forall_impl; [|exact HC]. cbn beta. intros; lia.
Qed.

(* ------------------------------------------------------------------ block bounds *)
Lemma ldb_seek_block p s : blocks_ok (sc_blocks s) -> (p <= TERM)%N -> (p <= last_doc_in_block (seek_block p s))%N.
Proof.
  intros B Hp. pose proof (seek_blocks_head p (sc_blocks s) B Hp) as H. unfold last_doc_in_block, seek_block. cbn [sc_blocks].
  destruct (seek_blocks p (sc_blocks s)); [contradiction|exact H].
Qed.
Lemma sc_at_le_block_max p s d : sokT p s -> (p <= d)%N -> (d <= last_doc_in_block s)%N -> sc_at (sc_post s) d <= block_max s.
Proof.
  intros (A & B & C & D & E & F) Hp Hd. unfold last_doc_in_block, block_max in *.
  destruct (sc_blocks s) as [|b r] eqn:Eb; [contradiction|].
  destruct (has_dec (sc_post s) d) as [H|H].
  - apply (sc_at_has_in 0) in H; [|exact A]. specialize (C _ _ H Hp). rewrite Eb in C. cbn [bmax_at] in C.
    destruct (N.leb_spec d (b_last b)); [exact C|lia].
  - rewrite (sc_at_not_has _ _ H). apply E. now left.
Qed.
