(* Rank/Wand.v -- block-max WAND (src/query/boolean_query/block_wand_union.rs,
   block_wand_intersection.rs) over posting lists with block-max metadata (src/postings/skip.rs). *)
From TV Require Import Base.Prelude Generated.Constants.

(* ---- classes of the two known ways in which the stored metadata is not an upper bound ---- *)
(* F3: block-max metadata is the (fieldnorm_id, tf) argmax under the SEGMENT's average field length
   but is evaluated under the SEARCHER's average: needs two segments whose averages differ.
   Input: per segment (total_num_tokens, max_doc) of the scored field. *)
Definition avg_differs (a b : N * N) : bool := negb (N.eqb (fst a * snd b) (fst b * snd a)).
Fixpoint F3_class (segs : list (N * N)) : bool :=
  match segs with
  | [] => false
  | s :: r => existsb (avg_differs s) r || F3_class r
  end.
(* F6: Bm25Weight::max_score evaluates at fieldnorm_id 255 (the LONGEST field); a document whose
   term frequency exceeds its decoded (rounded-down) field length scores above it.
   Input: (term_freq, decoded field length) of the matching postings. *)
Definition F6_class (postings : list (N * N)) : bool := existsb (fun p => N.ltb (snd p) (fst p)) postings.
