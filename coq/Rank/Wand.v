(* Rank/Wand.v -- block-max WAND (src/query/boolean_query/block_wand_union.rs,
   block_wand_intersection.rs) over posting lists with block-max metadata (src/postings/skip.rs). *)
From TV Require Import Base.Prelude Generated.Constants.

(* ---- classes of the two known ways in which the stored metadata is not an upper bound ---- *)
(* F3: block-max metadata is the (fieldnorm_id, tf) argmax under the SEGMENT's average field length
   but is evaluated under the SEARCHER's average: needs two segments whose averages differ.
   Input: per segment (total_num_tokens, max_doc) of the scored field. *)
Definition avg_differs (a b : N * N) : bool := negb (N.eqb (fst a * snd b) (fst b * snd a)).
Fixpoint F3_class (segs : list (N * N)) : bool :=
  match segs with
  | [] => false
  | s :: r => existsb (avg_differs s) r || F3_class r
  end.
(* F6: Bm25Weight::max_score evaluates at fieldnorm_id 255 (the LONGEST field); a document whose
   term frequency exceeds its decoded (rounded-down) field length scores above it.
   Input: (term_freq, decoded field length) of the matching postings. *)
Definition F6_class (postings : list (N * N)) : bool := existsb (fun p => N.ltb (snd p) (fst p)) postings.

(* =====================================================================================
   Model.  A TermScorer is seen through the two cursors the pruning code uses:
   - the DEEP cursor (SegmentPostings: `doc()`, `score()`, `advance()`, `seek(target)`): the list of
     remaining postings (doc, score), ascending;
   - the SHALLOW cursor (SkipReader: `seek_block(target)`, `last_doc_in_block()`,
     `block_max_score()`): the list of remaining blocks (last doc, block max); the last block of a
     posting list has last doc = TERMINATED (src/postings/skip.rs) and is never dropped.
   Scores are exact numbers (Z: an ordered commutative group; BM25 scores are non-negative, the
   threshold may be negative: Score::MIN).  Bit-packing, skip-list encoding and the f32 arithmetic
   are not modelled (C07 / C12 / C13).  The collector is a state machine [step] with an observable
   threshold [thr] (TopNHeap::push + `top_n.threshold.unwrap_or(Score::MIN)`). *)
Local Open Scope Z_scope.

Definition TERM : N := WAND_TERMINATED.

Record block : Type := { b_last : N; b_max : Z }.
Record scorer : Type := { sc_post : list (N * Z); sc_blocks : list block; sc_max : Z }.

Definition doc (s : scorer) : N := match sc_post s with (d, _) :: _ => d | [] => TERM end.
Definition score (s : scorer) : Z := match sc_post s with (_, x) :: _ => x | [] => 0 end.

(* SkipReader::seek: `while self.last_doc_in_block < target { self.advance() }`; the final block
   (last doc = TERMINATED) is never passed *)
Fixpoint seek_blocks (t : N) (bl : list block) : list block :=
  match bl with
  | b :: ((_ :: _) as r) => if N.ltb (b_last b) t then seek_blocks t r else bl
  | _ => bl
  end.
Definition seek_block (t : N) (s : scorer) : scorer :=
  {| sc_post := sc_post s; sc_blocks := seek_blocks t (sc_blocks s); sc_max := sc_max s |}.
Definition block_max (s : scorer) : Z := match sc_blocks s with b :: _ => b_max b | [] => sc_max s end.
Definition last_doc_in_block (s : scorer) : N := match sc_blocks s with b :: _ => b_last b | [] => TERM end.

Fixpoint drop_lt (t : N) (p : list (N * Z)) : list (N * Z) :=
  match p with
  | (d, x) :: r => if N.ltb d t then drop_lt t r else p
  | [] => []
  end.
(* DocSet::seek for SegmentPostings: no-op when already at/after the target *)
Definition seek (t : N) (s : scorer) : scorer :=
  if N.leb t (doc s) then s
  else seek_block t {| sc_post := drop_lt t (sc_post s); sc_blocks := sc_blocks s; sc_max := sc_max s |}.
(* DocSet::advance: next posting; crossing a block boundary advances the skip reader *)
Definition advance (s : scorer) : scorer :=
  let p := tl (sc_post s) in
  seek_block (match p with (d, _) :: _ => d | [] => TERM end) {| sc_post := p; sc_blocks := sc_blocks s; sc_max := sc_max s |}.

(* block max of the block holding document d *)
Fixpoint bmax_at (bl : list block) (d : N) (dflt : Z) : Z :=
  match bl with
  | b :: r => if N.leb d (b_last b) then b_max b else bmax_at r d dflt
  | [] => dflt
  end.

Section Collector.
  Variable St : Type.
  Variable thr : St -> Z.
  Variable step : St -> N -> Z -> St.
  (* the callback never lowers the threshold it returns *)
  Hypothesis thr_mono : forall st d x, thr st <= thr (step st d x).

  Definition offer (st : St) (d : N) (x : Z) : St := if Z.ltb (thr st) x then step st d x else st.
  (* exhaustive scoring: every posting, in ascending doc order, offered to the collector *)
  Definition exhaustive (p : list (N * Z)) (st : St) : St := fold_left (fun st dx => offer st (fst dx) (snd dx)) p st.

  Lemma thr_offer st d x : thr st <= thr (offer st d x).
  Proof. unfold offer. destruct (Z.ltb (thr st) x); [apply thr_mono|lia]. Qed.

  Lemma exhaustive_dead p st : (forall d x, In (d, x) p -> x <= thr st) -> exhaustive p st = st.
  Proof.
    revert st. induction p as [|[d x] r IH]; intros st H; [reflexivity|].
    unfold exhaustive. cbn [fold_left fst snd]. unfold offer at 2.
    destruct (Z.ltb_spec (thr st) x) as [Hlt|_]; [specialize (H d x (or_introl eq_refl)); lia|].
    apply IH. intros d' x' Hin. apply (H d' x'). now right.
  Qed.
  Lemma exhaustive_app p q st : exhaustive (p ++ q) st = exhaustive q (exhaustive p st).
  Proof. unfold exhaustive. apply fold_left_app. Qed.

  (* ------------------------------------------------------------------ block_wand_single_scorer *)
  Inductive phase : Type := PSkip | PScore.

  (* [lo] is the local variable `doc`; None = out of fuel *)
  Fixpoint single (fuel : nat) (ph : phase) (sc : scorer) (lo : N) (st : St) : option St :=
    match fuel with
    | O => None
    | S f =>
        match ph with
        | PSkip =>
            (* while scorer.block_max_score() <= threshold { ... } *)
            if Z.leb (block_max sc) (thr st) then
              let last := last_doc_in_block sc in
              if N.eqb last TERM then Some st
              else single f PSkip (seek_block (last + 1) sc) (last + 1)%N st
            else
              let sc' := seek lo sc in
              if N.eqb (doc sc') TERM then Some st else single f PScore sc' (doc sc') st
        | PScore =>
            let st' := offer st lo (score sc) in
            if N.eqb lo (last_doc_in_block sc) then single f PSkip (seek_block (lo + 1) sc) (lo + 1)%N st'
            else
              let sc' := advance sc in
              if N.eqb (doc sc') TERM then Some st' else single f PScore sc' (doc sc') st'
        end
    end.

  Definition block_wand_single_scorer (fuel : nat) (sc : scorer) (st : St) : option St := single fuel PSkip sc (doc sc) st.

  (* well-formedness: ascending postings below TERMINATED *)
  Fixpoint asc_from (lo : N) (p : list (N * Z)) : Prop :=
    match p with [] => True | (d, _) :: r => (lo <= d)%N /\ (d < TERM)%N /\ asc_from (d + 1) r end.
  (* the block max of the block of every remaining posting at or after [lo] bounds its score *)
  Definition bounded (lo : N) (sc : scorer) : Prop :=
    forall d x, In (d, x) (sc_post sc) -> (lo <= d)%N -> x <= bmax_at (sc_blocks sc) d (sc_max sc).
  (* block list: ends with the TERMINATED block *)
  Fixpoint blocks_ok (bl : list block) : Prop :=
    match bl with [] => False | [b] => b_last b = TERM | b :: r => (b_last b < TERM)%N /\ blocks_ok r end.

  Lemma asc_from_weaken lo lo' p : (lo' <= lo)%N -> asc_from lo p -> asc_from lo' p.
  Proof. destruct p as [|[d x] r]; cbn; [auto|]. intros H (H1 & H2 & H3). repeat split; auto; lia. Qed.
  Lemma asc_from_in lo p d x : asc_from lo p -> In (d, x) p -> (lo <= d < TERM)%N.
  Proof.
    revert lo. induction p as [|[d0 x0] r IH]; intros lo H Hin; [contradiction|]. cbn in H. destruct H as (H1 & H2 & H3).
    destruct Hin as [E|Hin]; [injection E as <- <-; lia|]. specialize (IH _ H3 Hin). lia.
  Qed.
  Lemma drop_lt_asc lo t p : asc_from lo p -> asc_from (N.max lo t) (drop_lt t p).
  Proof.
    revert lo. induction p as [|[d x] r IH]; intros lo H; [exact I|]. cbn in H. destruct H as (H1 & H2 & H3). cbn [drop_lt].
    destruct (N.ltb_spec d t).
    - eapply asc_from_weaken; [|apply IH; exact H3]. lia.
    - cbn. repeat split; auto; lia.
  Qed.
  Lemma drop_lt_incl t p d x : In (d, x) (drop_lt t p) -> In (d, x) p.
  Proof.
    induction p as [|[d0 x0] r IH]; [auto|]. cbn [drop_lt]. destruct (N.ltb d0 t); [intros H; right; auto|auto].
  Qed.
  Lemma drop_lt_split t p lo : asc_from lo p ->
    exists dead, p = dead ++ drop_lt t p /\ forall d x, In (d, x) dead -> (d < t)%N.
  Proof.
    revert lo. induction p as [|[d x] r IH]; intros lo H; [exists []; split; [reflexivity|intros ? ? []]|].
    cbn in H. destruct H as (H1 & H2 & H3). cbn [drop_lt]. destruct (N.ltb_spec d t).
    - destruct (IH _ H3) as (dead & E & Hd). exists ((d, x) :: dead). split; [cbn; now rewrite <- E|].
      intros d' x' [E'|Hin]; [injection E' as <- <-; assumption|eauto].
    - exists []. split; [reflexivity|intros ? ? []].
  Qed.
  Lemma drop_lt_ge t p lo d x : asc_from lo p -> In (d, x) (drop_lt t p) -> (t <= d)%N.
  Proof.
    revert lo. induction p as [|[d0 x0] r IH]; intros lo H Hin; [contradiction|]. cbn in H. destruct H as (H1 & H2 & H3).
    cbn [drop_lt] in Hin. destruct (N.ltb_spec d0 t); [eauto|].
    destruct Hin as [E|Hin]; [injection E as <- <-; lia|]. pose proof (asc_from_in _ _ _ _ H3 Hin). lia.
  Qed.
  Lemma drop_lt_idem t t' p : (t' <= t)%N -> drop_lt t (drop_lt t' p) = drop_lt t p.
  Proof.
    intros Ht. induction p as [|[d x] r IH]; [reflexivity|]. cbn [drop_lt].
    destruct (N.ltb_spec d t').
    - rewrite IH. destruct (N.ltb_spec d t); [reflexivity|lia].
    - reflexivity.
  Qed.

  Lemma seek_blocks_cons2 t b b' r :
    seek_blocks t (b :: b' :: r) = if N.ltb (b_last b) t then seek_blocks t (b' :: r) else b :: b' :: r.
  Proof. reflexivity. Qed.

  Lemma seek_blocks_ok t bl : blocks_ok bl -> blocks_ok (seek_blocks t bl).
  Proof.
    induction bl as [|b r IH]; [auto|]. destruct r as [|b' r']; [auto|]. intros H.
    rewrite seek_blocks_cons2. destruct (N.ltb (b_last b) t); [apply IH; apply H|exact H].
  Qed.
  Lemma seek_blocks_len t bl : (length (seek_blocks t bl) <= length bl)%nat.
  Proof.
    induction bl as [|b r IH]; [auto|]. destruct r as [|b' r']; [auto|].
    rewrite seek_blocks_cons2. destruct (N.ltb (b_last b) t); [cbn [length] in *; lia|lia].
  Qed.
  Lemma seek_blocks_bmax t bl d dflt : (t <= d)%N -> bmax_at (seek_blocks t bl) d dflt = bmax_at bl d dflt.
  Proof.
    intros Ht. induction bl as [|b r IH]; [reflexivity|]. destruct r as [|b' r']; [reflexivity|].
    rewrite seek_blocks_cons2. destruct (N.ltb_spec (b_last b) t); [|reflexivity].
    rewrite IH. cbn [bmax_at]. destruct (N.leb_spec d (b_last b)); [lia|reflexivity].
  Qed.
  (* skipping past the head block drops it (unless it is the final block) *)
  Lemma seek_blocks_past b r : r <> [] -> (length (seek_blocks (b_last b + 1) (b :: r)) <= length r)%nat.
  Proof.
    destruct r as [|b' r']; [congruence|]. intros _. rewrite seek_blocks_cons2.
    destruct (N.ltb_spec (b_last b) (b_last b + 1)); [apply seek_blocks_len|lia].
  Qed.

  (* state invariant *)
  Definition wf (lo : N) (sc : scorer) : Prop :=
    asc_from 0 (sc_post sc) /\ blocks_ok (sc_blocks sc) /\ bounded lo sc.

  Lemma wf_seek_block lo t sc : wf lo sc -> (t <= lo)%N -> wf lo (seek_block t sc).
  Proof.
    intros (A & B & C) Ht. split; [exact A|]. split; [now apply seek_blocks_ok|].
    intros d x Hin Hd. cbn [seek_block sc_blocks sc_max sc_post] in *. rewrite seek_blocks_bmax by lia. now apply C.
  Qed.
  Lemma wf_raise lo lo' sc : wf lo sc -> (lo <= lo')%N -> wf lo' sc.
  Proof. intros (A & B & C) H. repeat split; auto. intros d x Hin Hd. apply C; [exact Hin|lia]. Qed.

  Definition measure (ph : phase) (sc : scorer) (lo : N) : nat :=
    match ph with
    | PSkip => (2 * length (drop_lt lo (sc_post sc)) + length (sc_blocks sc) + 1)%nat
    | PScore => (2 * length (sc_post sc) + length (sc_blocks sc))%nat
    end.

  Lemma drop_lt_len t p : (length (drop_lt t p) <= length p)%nat.
  Proof. induction p as [|[d x] r IH]; [auto|]. cbn [drop_lt]. destruct (N.ltb d t); cbn [length] in *; lia. Qed.
  Lemma drop_lt_mono_len t t' p lo : asc_from lo p -> (t <= t')%N -> (length (drop_lt t' p) <= length (drop_lt t p))%nat.
  Proof. intros H Ht. rewrite <- (drop_lt_idem t' t p Ht). apply drop_lt_len. Qed.

  Lemma doc_TERM_nil sc : asc_from 0 (sc_post sc) -> doc sc = TERM -> sc_post sc = [].
  Proof. unfold doc. destruct (sc_post sc) as [|[d x] r]; [auto|]. cbn. intros (_ & H & _) E. lia. Qed.


  Lemma seek_blocks_head t bl : blocks_ok bl -> (t <= TERM)%N ->
    match seek_blocks t bl with b :: _ => (t <= b_last b)%N | [] => False end.
  Proof.
    induction bl as [|b r IH]; [auto|]. destruct r as [|b' r'].
    - cbn. intros -> H. exact H.
    - intros [H1 H2] Ht. rewrite seek_blocks_cons2. destruct (N.ltb_spec (b_last b) t) as [Hlt|Hge]; [apply IH; auto|exact Hge].
  Qed.

  (* Soundness and termination, together: with fuel above the measure the run ends (Some) in exactly
     the state exhaustive scoring reaches. *)
  Lemma single_sound : forall fuel ph sc lo st,
    (measure ph sc lo < fuel)%nat -> wf lo sc ->
    match ph with
    | PSkip => (lo <= last_doc_in_block sc)%N ->
               single fuel PSkip sc lo st = Some (exhaustive (drop_lt lo (sc_post sc)) st)
    | PScore => lo = doc sc -> sc_post sc <> [] -> single fuel PScore sc lo st = Some (exhaustive (sc_post sc) st)
    end.
  Proof.
    induction fuel as [|f IH]; intros ph sc lo st Hm Hwf; [lia|].
    pose proof Hwf as (A & B & C). destruct ph.
    - (* PSkip *)
      intros Hlo. cbn [single]. destruct (Z.leb_spec (block_max sc) (thr st)) as [Hle|Hgt].
      + (* the whole current block cannot beat the threshold *)
        destruct (sc_blocks sc) as [|b r] eqn:Eb; [contradiction|].
        unfold last_doc_in_block, block_max in *. rewrite Eb in *.
        assert (Hdead : forall d x, In (d, x) (sc_post sc) -> (lo <= d <= b_last b)%N -> x <= thr st).
        { intros d x Hin Hd. specialize (C d x Hin ltac:(lia)). rewrite Eb in C. cbn [bmax_at] in C.
          destruct (N.leb_spec d (b_last b)); lia. }
        destruct (N.eqb_spec (b_last b) TERM) as [Et|Ent].
        * f_equal. symmetry. apply exhaustive_dead. intros d x Hin.
          pose proof (drop_lt_ge _ _ _ _ _ A Hin). apply drop_lt_incl in Hin.
          pose proof (asc_from_in _ _ _ _ A Hin). apply (Hdead d x Hin). lia.
        * assert (Hr : r <> []) by (destruct r; [cbn in B; congruence|congruence]).
          assert (HbT : (b_last b < TERM)%N) by (destruct r; [congruence|apply B]).
          pose proof (seek_blocks_past b r Hr) as Hlen.
          assert (Hwf' : wf (b_last b + 1) (seek_block (b_last b + 1) sc)).
          { apply wf_seek_block; [|lia]. apply (wf_raise lo); [exact Hwf|lia]. }
          specialize (IH PSkip (seek_block (b_last b + 1) sc) (b_last b + 1)%N st).
          cbn [seek_block sc_post sc_blocks] in IH. rewrite Eb in IH. rewrite IH.
          -- f_equal.
             rewrite <- (drop_lt_idem (b_last b + 1) lo (sc_post sc)) by lia.
             destruct (drop_lt_split (b_last b + 1) (drop_lt lo (sc_post sc)) _ (drop_lt_asc 0 lo _ A)) as (dead & E & Hd).
             rewrite E at 2. rewrite exhaustive_app. f_equal. symmetry. apply exhaustive_dead.
             intros d x Hin. assert (Hin' : In (d, x) (drop_lt lo (sc_post sc))) by (rewrite E; apply in_or_app; now left).
             pose proof (drop_lt_ge _ _ _ _ _ A Hin'). apply drop_lt_incl in Hin'. specialize (Hd d x Hin).
             apply (Hdead d x Hin'). lia.
          -- cbn [measure seek_block sc_post sc_blocks] in *. rewrite Eb in Hm |- *. cbn [length] in Hm.
             pose proof (drop_lt_mono_len lo (b_last b + 1) (sc_post sc) 0 A ltac:(lia)). lia.
          -- exact Hwf'.
          -- pose proof (seek_blocks_head (b_last b + 1) (b :: r) B ltac:(lia)) as Hh.
             destruct (seek_blocks (b_last b + 1) (b :: r)); [contradiction|exact Hh].
      + (* the block may hold a winner: load it *)
        assert (Hs : sc_post (seek lo sc) = drop_lt lo (sc_post sc) /\ wf lo (seek lo sc) /\
                     (length (sc_blocks (seek lo sc)) <= length (sc_blocks sc))%nat).
        { unfold seek. destruct (N.leb_spec lo (doc sc)) as [Hd|Hd].
          - split; [|split; [exact Hwf|lia]]. unfold doc in Hd. destruct (sc_post sc) as [|[d x] r]; [reflexivity|].
            cbn [drop_lt]. destruct (N.ltb_spec d lo); [lia|reflexivity].
          - cbn [seek_block sc_post sc_blocks]. split; [reflexivity|]. split; [|apply seek_blocks_len].
            apply wf_seek_block; [|lia]. split; [|split; [exact B|]].
            + cbn [sc_post]. eapply asc_from_weaken; [|apply (drop_lt_asc 0 lo _ A)]. lia.
            + intros d x Hin Hdlo. cbn [sc_post sc_blocks sc_max] in *. apply drop_lt_incl in Hin. now apply C. }
        destruct Hs as (Ep & Hwf' & Hbl).
        destruct (N.eqb_spec (doc (seek lo sc)) TERM) as [Et|Ent].
        * f_equal. rewrite <- Ep. rewrite (doc_TERM_nil _ (proj1 Hwf') Et). reflexivity.
        * specialize (IH PScore (seek lo sc) (doc (seek lo sc)) st). cbn beta iota in IH. rewrite IH; [now rewrite Ep| | |reflexivity|].
          -- cbn [measure] in *. rewrite Ep. lia.
          -- destruct Hwf' as (A' & B' & C'). split; [exact A'|split; [exact B'|]].
             intros d x Hin Hd. apply C'; [exact Hin|].
             rewrite Ep in Hin. pose proof (drop_lt_ge _ _ _ _ _ A Hin). lia.
          -- intro E. unfold doc in Ent. rewrite E in Ent. congruence.
    - (* PScore *)
      intros Hlo Hne. cbn [single].
      destruct (sc_post sc) as [|[d x] rest] eqn:Ep; [congruence|].
      assert (Hd : doc sc = d) by (unfold doc; now rewrite Ep). rewrite Hd in Hlo. subst lo.
      assert (Hx : score sc = x) by (unfold score; now rewrite Ep). rewrite Hx.
      change (exhaustive ((d, x) :: rest) st) with (exhaustive rest (offer st d x)).
      pose proof A as A0. try rewrite Ep in A0. cbn in A0. destruct A0 as (_ & HdT & Arest).
      destruct (N.eqb_spec d (last_doc_in_block sc)) as [El|Enl].
      + specialize (IH PSkip (seek_block (d + 1) sc) (d + 1)%N (offer st d x)). cbn beta iota in IH.
        cbn [seek_block sc_post] in IH. rewrite IH.
        * f_equal. rewrite Ep. cbn [drop_lt]. destruct (N.ltb_spec d (d + 1)); [|lia].
          f_equal. destruct rest as [|[d' x'] r']; [reflexivity|]. cbn in Arest. cbn [drop_lt].
          destruct (N.ltb_spec d' (d + 1)); [lia|reflexivity].
        * cbn [measure seek_block sc_post sc_blocks] in *. rewrite Ep in *. cbn [drop_lt length] in *.
          destruct (N.ltb_spec d (d + 1)); [|lia].
          pose proof (drop_lt_len (d + 1) rest). pose proof (seek_blocks_len (d + 1) (sc_blocks sc)). lia.
        * apply wf_seek_block; [|lia]. apply (wf_raise d); [exact Hwf|lia].
        * pose proof (seek_blocks_head (d + 1) (sc_blocks sc) B ltac:(lia)) as Hh.
          unfold last_doc_in_block, seek_block. cbn [sc_blocks]. destruct (seek_blocks (d + 1) (sc_blocks sc)); [contradiction|exact Hh].
      + assert (Ea : sc_post (advance sc) = rest) by (unfold advance; cbn [seek_block sc_post]; now rewrite Ep).
        assert (Hwfa : wf d (advance sc)).
        { unfold advance. rewrite Ep. cbn [tl].
          split; [|split].
          - cbn [seek_block sc_post]. eapply asc_from_weaken; [|exact Arest]. lia.
          - cbn [seek_block sc_blocks]. now apply seek_blocks_ok.
          - intros d' x' Hin Hd'. cbn [seek_block sc_post sc_blocks sc_max] in *.
            pose proof (asc_from_in _ _ _ _ Arest Hin) as Hr.
            rewrite seek_blocks_bmax.
            + apply C; [rewrite Ep; now right|lia].
            + destruct rest as [|[d2 x2] r2]; [contradiction|]. cbn in Arest.
              destruct Hin as [E|Hin]; [injection E as <- <-; lia|].
              pose proof (asc_from_in _ _ _ _ (proj2 (proj2 Arest)) Hin). lia. }
        destruct (N.eqb_spec (doc (advance sc)) TERM) as [Et|Ent].
        * f_equal. rewrite (doc_TERM_nil _ (proj1 Hwfa) Et) in Ea. rewrite <- Ea. reflexivity.
        * specialize (IH PScore (advance sc) (doc (advance sc)) (offer st d x)). cbn beta iota in IH.
          rewrite IH; [now rewrite Ea| | |reflexivity|].
          -- cbn [measure] in *. rewrite Ea. rewrite Ep in Hm. cbn [length] in Hm.
             unfold advance. cbn [seek_block sc_blocks]. pose proof (seek_blocks_len (match tl (sc_post sc) with (d0, _) :: _ => d0 | [] => TERM end) (sc_blocks sc)). lia.
          -- apply (wf_raise d); [exact Hwfa|]. unfold doc. rewrite Ea. destruct rest as [|[d2 x2] r2]; [cbn in Ent; unfold doc in Ent; rewrite Ea in Ent; congruence|]. cbn in Arest. lia.
          -- rewrite Ea. intro E. unfold doc in Ent. rewrite Ea, E in Ent. congruence.
  Qed.

  (* initial state of a real scorer: the skip reader sits on the block of the first posting *)
  Definition scorer_ok (sc : scorer) : Prop :=
    asc_from 0 (sc_post sc) /\ blocks_ok (sc_blocks sc) /\ (doc sc <= last_doc_in_block sc)%N.
  (* `upper_bounds`: every block max bounds the scores of the postings of its block *)
  Definition upper_bounds (sc : scorer) : Prop :=
    forall d x, In (d, x) (sc_post sc) -> x <= bmax_at (sc_blocks sc) d (sc_max sc).

  Definition single_fuel (sc : scorer) : nat := (2 * length (sc_post sc) + length (sc_blocks sc) + 2)%nat.

  Theorem wand_single_sound : forall sc st fuel, scorer_ok sc -> upper_bounds sc -> (single_fuel sc <= fuel)%nat ->
    block_wand_single_scorer fuel sc st = Some (exhaustive (sc_post sc) st).
  Proof.
    intros sc st fuel (A & B & L) U Hf. unfold block_wand_single_scorer.
    pose proof (single_sound fuel PSkip sc (doc sc) st) as H. cbn beta iota in H. rewrite H.
    - f_equal. f_equal. unfold doc. destruct (sc_post sc) as [|[d x] r]; [reflexivity|]. cbn [drop_lt].
      destruct (N.ltb_spec d d); [lia|reflexivity].
    - cbn [measure]. unfold single_fuel in Hf. pose proof (drop_lt_len (doc sc) (sc_post sc)). lia.
    - split; [exact A|split; [exact B|]]. intros d x Hin _. now apply U.
    - exact L.
  Qed.
End Collector.

(* ---- a concrete collector for examples: top-1 (state = best (doc, score) so far, threshold = its score) *)
Definition top1_state : Type := option (N * Z).
Definition top1_thr (low : Z) (s : top1_state) : Z := match s with Some (_, x) => x | None => low end.
Definition top1_step (s : top1_state) (d : N) (x : Z) : top1_state := Some (d, x).

(* ====================================================================================
   F3 / F6: how tantivy's stored metadata violates [upper_bounds].  Exact-rational BM25 term
   frequency factor (src/query/bm25.rs: tf / (tf + K1 * (1 - B + B * fieldnorm / avg))), compared by
   cross-multiplication; the idf weight is a positive common factor and is left out.
   A "length" below is the DECODED field norm (FIELD_NORMS_TABLE[fieldnorm_id]). *)
Local Open Scope Z_scope.
Definition K1n : Z := Z.of_N WAND_BM25_K1_num.  Definition K1d : Z := Z.of_N WAND_BM25_K1_den.
Definition Bn : Z := Z.of_N WAND_BM25_B_num.    Definition Bd : Z := Z.of_N WAND_BM25_B_den.
(* tf_factor tf len (avg = an/ad) as a fraction (num, den), den > 0:
   norm = K1n/K1d * ((Bd-Bn)/Bd + Bn/Bd * len*ad/an) = K1n * ((Bd-Bn)*an + Bn*len*ad) / (K1d*Bd*an) *)
Definition tf_factor (tf len an ad : Z) : Z * Z :=
  let nn := K1n * ((Bd - Bn) * an + Bn * len * ad) in
  let nd := K1d * Bd * an in
  (tf * nd, tf * nd + nn).
Definition frac_lt (a b : Z * Z) : bool := Z.ltb (fst a * snd b) (fst b * snd a).
Definition frac_le (a b : Z * Z) : bool := Z.leb (fst a * snd b) (fst b * snd a).

(* the serializer keeps, per block, the (length, tf) pair maximising the factor under the SEGMENT average *)
Fixpoint argmax_local (an ad : Z) (best : Z * Z) (l : list (Z * Z)) : Z * Z :=
  match l with
  | [] => best
  | (len, tf) :: r => argmax_local an ad (if frac_lt (tf_factor (snd best) (fst best) an ad) (tf_factor tf len an ad) then (len, tf) else best) r
  end.
Definition stored_block_max (seg_an seg_ad : Z) (blk : list (Z * Z)) : Z * Z :=
  match blk with [] => (0, 0) | p :: r => argmax_local seg_an seg_ad p r end.

(* F3 witness: a block holding (len 10, tf 2) and (len 376, tf 6); segment average 100, searcher average 4550 *)
Definition f3_block : list (Z * Z) := [(10, 2); (376, 6); (100, 1)].
Definition decoded_len (id : N) : Z := Z.of_N (nth (N.to_nat id) WAND_FIELD_NORMS_TABLE 0%N).

(* ====================================================================================
   block_wand (union of >= 2 term scorers) -- fuelled transliteration of
   src/query/boolean_query/block_wand_union.rs.  The soundness proof of this function is NOT done
   (`_partial`): only the single-scorer path is proved (wand_single_sound); this model is exercised by
   the examples in Properties/C06.v and the union path of the code is covered end-to-end by the harness.
   Abstraction: `swap_remove` + `sort_by_key` are modelled as filter + stable insertion sort (the
   order among scorers on the same document only matters for f32 rounding). *)
Section Union.
  Variable St : Type.
  Variable thr : St -> Z.
  Variable step : St -> N -> Z -> St.

  Fixpoint find_before (scs : list scorer) (acc : Z) (th : Z) (i : nat) : option (nat * N) :=
    match scs with
    | [] => None
    | s :: r => let acc' := acc + sc_max s in
                if Z.ltb th acc' then (if N.eqb (doc s) TERM then None else Some (i, doc s))
                else find_before r acc' th (S i)
    end.
  Fixpoint count_on (p : N) (scs : list scorer) : nat :=
    match scs with s :: r => if N.eqb (doc s) p then S (count_on p r) else O | [] => O end.
  (* (before_pivot_len, pivot_len, pivot_doc) *)
  Definition find_pivot_doc (scs : list scorer) (th : Z) : option (nat * nat * N) :=
    match find_before scs 0 th O with
    | Some (b, p) => Some (b, (S b + count_on p (skipn (S b) scs))%nat, p)
    | None => None
    end.

  Fixpoint insert_by_doc (s : scorer) (l : list scorer) : list scorer :=
    match l with
    | [] => [s]
    | h :: r => if N.ltb (doc s) (doc h) then s :: l else h :: insert_by_doc s r
    end.
  Definition sort_by_doc (l : list scorer) : list scorer := fold_right insert_by_doc [] l.

  (* restore_ordering(scorers, ord): bubble scorers[ord] to the right *)
  Fixpoint bubble (s : scorer) (r : list scorer) : list scorer :=
    match r with
    | h :: r' => if N.leb (doc s) (doc h) then s :: r else h :: bubble s r'
    | [] => [s]
    end.
  Definition restore_ordering (scs : list scorer) (ord : nat) : list scorer :=
    match skipn ord scs with
    | s :: r => firstn ord scs ++ bubble s r
    | [] => scs
    end.
  Definition set_nth (i : nat) (s : scorer) (scs : list scorer) : list scorer :=
    firstn i scs ++ s :: skipn (S i) scs.
  Definition dflt : scorer := {| sc_post := []; sc_blocks := []; sc_max := 0 |}.

  (* block_max_was_too_low_advance_one_scorer *)
  Definition advance_one (scs : list scorer) (pivot_len : nat) : list scorer :=
    let last := nth (pivot_len - 1) scs dflt in
    (* for scorer_ord in (0..pivot_len-1).rev() *)
    let '(to_seek, _, after) :=
      fold_left (fun acc ord =>
                   let '(to_seek, gmax, after) := acc in
                   let s := nth ord scs dflt in
                   let after' := if N.leb (last_doc_in_block s) after then last_doc_in_block s else after in
                   if Z.ltb gmax (sc_max s) then (ord, sc_max s, after') else (to_seek, gmax, after'))
                (rev (seq 0 (pivot_len - 1))) ((pivot_len - 1)%nat, sc_max last, last_doc_in_block last) in
    let after1 := if N.eqb after TERM then after else (after + 1)%N in
    let after2 := fold_left (fun a s => if N.leb (doc s) a then doc s else a) (skipn pivot_len scs) after1 in
    restore_ordering (set_nth to_seek (seek after2 (nth to_seek scs dflt)) scs) to_seek.

  (* align_scorers: Some l = all aligned (true); None' carried as (false, l) *)
  Fixpoint align (scs : list scorer) (pivot : N) (idxs : list nat) : bool * list scorer :=
    match idxs with
    | [] => (true, scs)
    | i :: r =>
        let s' := seek pivot (nth i scs dflt) in
        if N.eqb (doc s') pivot then align (set_nth i s' scs) pivot r
        else if N.eqb (doc s') TERM then
               (* swap_remove(i); restore_ordering(i) *)
               let l := removelast scs in
               let lst := last scs dflt in
               (false, if Nat.eqb i (length l) then l else restore_ordering (set_nth i lst l) i)
             else (false, restore_ordering (set_nth i s' scs) i)
    end.

  Definition advance_all_on_pivot (scs : list scorer) (pivot_len : nat) : list scorer :=
    sort_by_doc (filter (fun s => negb (N.eqb (doc s) TERM)) (map advance (firstn pivot_len scs) ++ skipn pivot_len scs)).

  Fixpoint union_loop (fuel : nat) (scs : list scorer) (st : St) : option St :=
    match fuel with
    | O => None
    | S f =>
        match find_pivot_doc scs (thr st) with
        | None => Some st
        | Some (before, plen, pivot) =>
            let head := map (seek_block pivot) (firstn plen scs) in
            let scs1 := head ++ skipn plen scs in
            let upper := fold_left (fun a s => a + block_max s) head 0 in
            if Z.leb upper (thr st) then union_loop f (advance_one scs1 plen) st
            else
              match align scs1 pivot (rev (seq 0 before)) with
              | (false, scs2) => union_loop f scs2 st
              | (true, scs2) =>
                  let sc := fold_left (fun a s => a + score s) (firstn plen scs2) 0 in
                  let st' := if Z.ltb (thr st) sc then step st pivot sc else st in
                  union_loop f (advance_all_on_pivot scs2 plen) st'
              end
        end
    end.

  (* block_wand: drop terminated scorers, single-scorer special case, sort, loop *)
  Definition block_wand (fuel : nat) (scs : list scorer) (st : St) : option St :=
    let live := filter (fun s => N.ltb (doc s) TERM) scs in
    match live with
    | [s] => block_wand_single_scorer St thr step fuel s st
    | _ => union_loop fuel (sort_by_doc live) st
    end.

  (* exhaustive union: total score per document, ascending *)
  Fixpoint merge_post (a b : list (N * Z)) : list (N * Z) :=
    let fix go (b : list (N * Z)) : list (N * Z) :=
      match a, b with
      | [], _ => b
      | _, [] => a
      | (da, xa) :: ra, (db, xb) :: rb =>
          if N.ltb da db then (da, xa) :: merge_post ra b
          else if N.ltb db da then (db, xb) :: go rb
          else (da, xa + xb) :: merge_post ra rb
      end in go b.
  Definition union_postings (scs : list scorer) : list (N * Z) := fold_right (fun s acc => merge_post (sc_post s) acc) [] scs.
End Union.
