From TV Require Import Base.Prelude Generated.Constants Rank.Wand.

(* Specification of `advance_one` (block_max_was_too_low_advance_one_scorer). *)

Definition ao_step1 (scs : list scorer) (acc : nat * Z * N) (ord : nat) : nat * Z * N :=
  let '(to_seek, gmax, after) := acc in
  let s := nth ord scs dflt in
  let after' := if N.leb (last_doc_in_block s) after then last_doc_in_block s else after in
  if Z.ltb gmax (sc_max s) then (ord, sc_max s, after') else (to_seek, gmax, after').

Definition ao_step2 (a : N) (s : scorer) : N := if N.leb (doc s) a then doc s else a.

Lemma advance_one_unfold scs plen :
  advance_one scs plen =
  let '(to_seek, _, after) :=
    fold_left (ao_step1 scs) (rev (seq 0 (plen - 1)))
              ((plen - 1)%nat, sc_max (nth (plen - 1) scs dflt), last_doc_in_block (nth (plen - 1) scs dflt)) in
  let after1 := if N.eqb after TERM then after else (after + 1)%N in
  let after2 := fold_left ao_step2 (skipn plen scs) after1 in
  restore_ordering (set_nth to_seek (seek after2 (nth to_seek scs dflt)) scs) to_seek.
Proof. reflexivity. Qed.

Lemma ao_fold1 scs idxs : forall ts g a ts' g' a',
  fold_left (ao_step1 scs) idxs (ts, g, a) = (ts', g', a') ->
  (ts' = ts \/ In ts' idxs) /\
  (a' <= a)%N /\
  (forall j, In j idxs -> (a' <= last_doc_in_block (nth j scs dflt))%N) /\
  (forall m, (m <= a)%N -> (forall j, In j idxs -> (m <= last_doc_in_block (nth j scs dflt))%N) -> (m <= a')%N).
Proof.
  induction idxs as [|o idxs IH]; intros ts g a ts' g' a' E.
  - cbn in E. injection E as <- <- <-. repeat split; try lia; auto. intros j [].
  - cbn [fold_left] in E. unfold ao_step1 at 2 in E.
    set (l := last_doc_in_block (nth o scs dflt)) in *.
    assert (Hgen : forall ts0 g0,
               fold_left (ao_step1 scs) idxs (ts0, g0, if N.leb l a then l else a) = (ts', g', a') ->
               (ts0 = ts \/ ts0 = o) ->
               (ts' = ts \/ In ts' (o :: idxs)) /\
               (a' <= a)%N /\
               (forall j, In j (o :: idxs) -> (a' <= last_doc_in_block (nth j scs dflt))%N) /\
               (forall m, (m <= a)%N ->
                          (forall j, In j (o :: idxs) -> (m <= last_doc_in_block (nth j scs dflt))%N) -> (m <= a')%N)).
    { intros ts0 g0 E0 Hts0.
      apply IH in E0. destruct E0 as (H1 & H2 & H3 & H4).
      assert (Hmin : ((if N.leb l a then l else a) <= a)%N /\ ((if N.leb l a then l else a) <= l)%N)
        by (destruct (N.leb_spec l a); lia).
      split; [|split; [|split]].
      - destruct H1 as [-> | H1]; [destruct Hts0 as [-> | ->]; [now left | right; now left] | right; now right].
      - lia.
      - intros j [<- | Hj]; [fold l; lia | now apply H3].
      - intros m Hm Hall. apply H4.
        + pose proof (Hall o (or_introl eq_refl)) as Ho. fold l in Ho.
          destruct (N.leb_spec l a); lia.
        + intros j Hj. apply Hall. now right. }
    destruct (Z.ltb g (sc_max (nth o scs dflt))).
    + eapply Hgen; [exact E | now right].
    + eapply Hgen; [exact E | now left].
Qed.

Lemma ao_fold2 l : forall a,
  (fold_left ao_step2 l a <= a)%N /\
  Forall (fun s => (fold_left ao_step2 l a <= doc s)%N) l /\
  (forall m, (m < a)%N -> Forall (fun s => (m < doc s)%N) l -> (m < fold_left ao_step2 l a)%N).
Proof.
  induction l as [|s l IH]; intros a.
  - cbn. repeat split; auto; lia.
  - cbn [fold_left]. destruct (IH (ao_step2 a s)) as (H1 & H2 & H3).
    assert (Hmin : (ao_step2 a s <= a)%N /\ (ao_step2 a s <= doc s)%N)
      by (unfold ao_step2; destruct (N.leb_spec (doc s) a); lia).
    split; [lia|]. split.
    + constructor; [lia | exact H2].
    + intros m Hm Hall. inversion Hall as [|? ? Hs Hl]; subst. apply H3; [|exact Hl].
      unfold ao_step2; destruct (N.leb_spec (doc s) a); lia.
Qed.

Lemma in_rev_seq0 j n : In j (rev (seq 0 n)) <-> (j < n)%nat.
Proof. rewrite <- in_rev, in_seq. lia. Qed.

Lemma advance_one_spec scs plen : (0 < plen <= length scs)%nat ->
  exists ts after2, (ts < plen)%nat /\
    advance_one scs plen = restore_ordering (set_nth ts (seek after2 (nth ts scs dflt)) scs) ts /\
    Forall (fun s => (after2 <= doc s)%N) (skipn plen scs) /\
    (forall i d, (i < plen)%nat -> (d < after2)%N -> (d <= last_doc_in_block (nth i scs dflt))%N) /\
    (forall m, (m < TERM)%N -> (forall i, (i < plen)%nat -> (m <= last_doc_in_block (nth i scs dflt))%N) ->
               Forall (fun s => (m < doc s)%N) (skipn plen scs) -> (m < after2)%N).
Proof.
  intros Hp. rewrite advance_one_unfold.
  destruct (fold_left (ao_step1 scs) (rev (seq 0 (plen - 1))) _) as [[ts g] after] eqn:E.
  apply ao_fold1 in E. destruct E as (H1 & H2 & H3 & H4).
  cbv zeta.
  set (after1 := if N.eqb after TERM then after else (after + 1)%N).
  destruct (ao_fold2 (skipn plen scs) after1) as (F1 & F2 & F3).
  set (after2 := fold_left ao_step2 (skipn plen scs) after1) in *.
  assert (Hafter : forall i, (i < plen)%nat -> (after <= last_doc_in_block (nth i scs dflt))%N).
  { intros i Hi. destruct (Nat.eq_dec i (plen - 1)) as [-> | Hne]; [exact H2|].
    apply H3. apply in_rev_seq0. lia. }
  exists ts, after2. split; [|split; [|split; [|split]]].
  - destruct H1 as [-> | H1]; [lia | apply in_rev_seq0 in H1; lia].
  - reflexivity.
  - exact F2.
  - intros i d Hi Hd. specialize (Hafter i Hi).
    assert ((d <= after)%N); [|lia].
    subst after1. destruct (N.eqb_spec after TERM); lia.
  - intros m Hm Hall Hdocs. apply F3; [|exact Hdocs].
    assert (Hma : (m <= after)%N).
    { apply H4; [apply Hall; lia|]. intros j Hj. apply Hall. apply in_rev_seq0 in Hj. lia. }
    subst after1. destruct (N.eqb_spec after TERM); lia.
Qed.
